// Package vmaps is a drop-in replacement for the parts of the standard "maps" package used by the
// storage engine to iterate its shard map (`maps.Values(e.shards)` in engine/shards.go and
// engine/evacuate.go). Go's map iteration order is random per call; here it is owned by the harness:
//
//   - by default every iteration visits the keys in ascending key order (deterministic);
//   - SetOrder(m, keys) pins, for exactly this map object, an explicit visiting order (keys not
//     listed follow in ascending order). A check enumerates all permutations through it.
//
// The plan is keyed by the identity of the map object (the engine never reassigns `e.shards`), so
// many engines may run in parallel goroutines, each with its own plan.
//
// Wiring (overlay.spec):
//
//	import pkg/local_object_storage/engine/shards.go maps=github.com/nspcc-dev/neofs-node/verif/shim/vmaps
//	import pkg/local_object_storage/engine/evacuate.go maps=github.com/nspcc-dev/neofs-node/verif/shim/vmaps
package vmaps

import (
	"cmp"
	"fmt"
	"iter"
	"reflect"
	"slices"
	"sync"
	"sync/atomic"
	"unsafe"
)

var (
	plans sync.Map // unsafe.Pointer (map identity) -> []any (keys in visiting order)
	calls atomic.Int64
)

// Calls returns how many ordered iterations were served (vacuity guard: 0 means the import
// rewrite is not in effect).
func Calls() int64 { return calls.Load() }

func ident[M ~map[K]V, K comparable, V any](m M) unsafe.Pointer {
	return reflect.ValueOf(m).UnsafePointer()
}

// SetOrder pins the visiting order of map m (identity-keyed). keys == nil removes the plan.
func SetOrder[M ~map[K]V, K comparable, V any](m M, keys []K) {
	if m == nil {
		return
	}
	if keys == nil {
		plans.Delete(ident(m))
		return
	}
	ks := make([]any, len(keys))
	for i := range keys {
		ks[i] = keys[i]
	}
	plans.Store(ident(m), ks)
}

// Forget drops the plan of m (call when the owner is closed; map identities may be reused by the
// allocator afterwards).
func Forget[M ~map[K]V, K comparable, V any](m M) {
	if m != nil {
		plans.Delete(ident(m))
	}
}

func less[K comparable](a, b K) int {
	switch x := any(a).(type) {
	case string:
		return cmp.Compare(x, any(b).(string))
	case int:
		return cmp.Compare(x, any(b).(int))
	case uint64:
		return cmp.Compare(x, any(b).(uint64))
	}
	return cmp.Compare(fmt.Sprint(a), fmt.Sprint(b))
}

func order[M ~map[K]V, K comparable, V any](m M) []K {
	calls.Add(1)
	ks := make([]K, 0, len(m))
	for k := range m {
		ks = append(ks, k)
	}
	slices.SortFunc(ks, less[K])
	p, ok := plans.Load(ident(m))
	if !ok || m == nil {
		return ks
	}
	res := make([]K, 0, len(ks))
	for _, pk := range p.([]any) {
		k, ok := pk.(K)
		if !ok {
			continue
		}
		if _, in := m[k]; in && !slices.Contains(res, k) {
			res = append(res, k)
		}
	}
	for _, k := range ks {
		if !slices.Contains(res, k) {
			res = append(res, k)
		}
	}
	return res
}

// Values is maps.Values with harness-owned order.
func Values[M ~map[K]V, K comparable, V any](m M) iter.Seq[V] {
	return func(yield func(V) bool) {
		for _, k := range order(m) {
			if !yield(m[k]) {
				return
			}
		}
	}
}

// Keys is maps.Keys with harness-owned order.
func Keys[M ~map[K]V, K comparable, V any](m M) iter.Seq[K] {
	return func(yield func(K) bool) {
		for _, k := range order(m) {
			if !yield(k) {
				return
			}
		}
	}
}

// All is maps.All with harness-owned order.
func All[M ~map[K]V, K comparable, V any](m M) iter.Seq2[K, V] {
	return func(yield func(K, V) bool) {
		for _, k := range order(m) {
			if !yield(k, m[k]) {
				return
			}
		}
	}
}
