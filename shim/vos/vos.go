// Package vos wraps the "os" calls of the FSTree generic writer so that each one is a scheduling
// point, a crash-image point and a fault-injection point (shares vunix's Hook/Fault plan; call
// names are prefixed with "os.").
package vos

import (
	"io/fs"
	"os"
	"syscall"

	"github.com/nspcc-dev/neofs-node/verif/shim/vunix"
)

const (
	O_WRONLY = os.O_WRONLY
	O_CREATE = os.O_CREATE
	O_TRUNC  = os.O_TRUNC
	O_EXCL   = os.O_EXCL
	O_SYNC   = os.O_SYNC
	O_RDONLY = os.O_RDONLY
	O_RDWR   = os.O_RDWR
)

type File struct{ f *os.File }

func perr(op, path string, e syscall.Errno) error { return &fs.PathError{Op: op, Path: path, Err: e} }

func OpenFile(name string, flag int, perm fs.FileMode) (*File, error) {
	if e := vunix.Pre("os.OpenFile"); e != 0 {
		return nil, perr("open", name, e)
	}
	f, err := os.OpenFile(name, flag, perm)
	vunix.Post("os.OpenFile")
	if err != nil {
		return nil, err
	}
	return &File{f}, nil
}

func (f *File) Write(b []byte) (int, error) {
	if vunix.TornHook != nil {
		vunix.TornHook("os.Write", int(f.f.Fd()), b)
	}
	if e := vunix.Pre("os.Write"); e != 0 {
		return 0, perr("write", f.f.Name(), e)
	}
	n, err := f.f.Write(b)
	vunix.Post("os.Write")
	return n, err
}

func (f *File) Close() error {
	e := vunix.Pre("os.Close")
	err := f.f.Close()
	vunix.Post("os.Close")
	if e != 0 {
		return perr("close", f.f.Name(), e)
	}
	return err
}

func Rename(a, b string) error {
	if e := vunix.Pre("os.Rename"); e != 0 {
		return &os.LinkError{Op: "rename", Old: a, New: b, Err: e}
	}
	err := os.Rename(a, b)
	vunix.Post("os.Rename")
	return err
}

func RemoveAll(p string) error {
	vunix.Pre("os.RemoveAll")
	err := os.RemoveAll(p)
	vunix.Post("os.RemoveAll")
	return err
}
