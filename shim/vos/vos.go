// Package vos wraps the "os" calls of the FSTree generic writer so that each one is a scheduling
// point, a crash-image point and a fault-injection point (shares vunix's Hook/Fault plan; call
// names are prefixed with "os.").
package vos

import (
	"io/fs"
	"os"
	"syscall"

	"github.com/nspcc-dev/neofs-node/verif/shim/vunix"
)

const (
	O_WRONLY = os.O_WRONLY
	O_CREATE = os.O_CREATE
	O_TRUNC  = os.O_TRUNC
	O_EXCL   = os.O_EXCL
	O_SYNC   = os.O_SYNC
	O_RDONLY = os.O_RDONLY
	O_RDWR   = os.O_RDWR
)

type File struct{ f *os.File }

func perr(op, path string, e syscall.Errno) error { return &fs.PathError{Op: op, Path: path, Err: e} }

func OpenFile(name string, flag int, perm fs.FileMode) (*File, error) {
	if e := vunix.Pre("os.OpenFile"); e != 0 {
		return nil, perr("open", name, e)
	}
	f, err := os.OpenFile(name, flag, perm)
	vunix.Post("os.OpenFile")
	if err != nil {
		return nil, err
	}
	return &File{f}, nil
}

func (f *File) Write(b []byte) (int, error) {
	if vunix.TornHook != nil {
		vunix.TornHook("os.Write", int(f.f.Fd()), b)
	}
	if e := vunix.Pre("os.Write"); e != 0 {
		return 0, perr("write", f.f.Name(), e)
	}
	n, err := f.f.Write(b)
	vunix.Post("os.Write")
	return n, err
}

func (f *File) Close() error {
	e := vunix.Pre("os.Close")
	err := f.f.Close()
	vunix.Post("os.Close")
	if e != 0 {
		return perr("close", f.f.Name(), e)
	}
	return err
}

func Rename(a, b string) error {
	if e := vunix.Pre("os.Rename"); e != 0 {
		return &os.LinkError{Op: "rename", Old: a, New: b, Err: e}
	}
	err := os.Rename(a, b)
	vunix.Post("os.Rename")
	return err
}

func RemoveAll(p string) error {
	vunix.Pre("os.RemoveAll")
	err := os.RemoveAll(p)
	vunix.Post("os.RemoveAll")
	return err
}

// ---- pass-through part of package os (so that code using further os identifiers still compiles
// under the shim); mutating calls are scheduling / crash-image / fault points as well ----

type (
	FileInfo  = fs.FileInfo
	FileMode  = fs.FileMode
	DirEntry  = fs.DirEntry
	PathError = fs.PathError
	LinkError = os.LinkError
)

const (
	O_APPEND = os.O_APPEND
	ModePerm = fs.ModePerm
	ModeDir  = fs.ModeDir
)

var (
	ErrNotExist   = fs.ErrNotExist
	ErrExist      = fs.ErrExist
	ErrPermission = fs.ErrPermission
)

func Stat(name string) (fs.FileInfo, error)  { return os.Stat(name) }
func Lstat(name string) (fs.FileInfo, error) { return os.Lstat(name) }
func IsNotExist(err error) bool              { return os.IsNotExist(err) }
func IsExist(err error) bool                 { return os.IsExist(err) }
func ReadFile(name string) ([]byte, error)   { return os.ReadFile(name) }
func ReadDir(name string) ([]fs.DirEntry, error) {
	return os.ReadDir(name)
}
func SameFile(a, b fs.FileInfo) bool { return os.SameFile(a, b) }
func Getpid() int                    { return os.Getpid() }

func mutating(op, path string, f func() error) error {
	if e := vunix.Pre("os." + op); e != 0 {
		return perr(op, path, e)
	}
	err := f()
	vunix.Post("os." + op)
	return err
}

func Remove(name string) error {
	return mutating("Remove", name, func() error { return os.Remove(name) })
}
func Mkdir(name string, perm fs.FileMode) error {
	return mutating("Mkdir", name, func() error { return os.Mkdir(name, perm) })
}
func MkdirAll(name string, perm fs.FileMode) error {
	return mutating("MkdirAll", name, func() error { return os.MkdirAll(name, perm) })
}
func WriteFile(name string, data []byte, perm fs.FileMode) error {
	return mutating("WriteFile", name, func() error { return os.WriteFile(name, data, perm) })
}
func Truncate(name string, size int64) error {
	return mutating("Truncate", name, func() error { return os.Truncate(name, size) })
}
func Link(a, b string) error { return mutating("Link", b, func() error { return os.Link(a, b) }) }
func Symlink(a, b string) error {
	return mutating("Symlink", b, func() error { return os.Symlink(a, b) })
}
func Chmod(name string, m fs.FileMode) error {
	return mutating("Chmod", name, func() error { return os.Chmod(name, m) })
}
func Open(name string) (*File, error) { return OpenFile(name, os.O_RDONLY, 0) }
func Create(name string) (*File, error) {
	return OpenFile(name, os.O_RDWR|os.O_CREATE|os.O_TRUNC, 0o666)
}

func (f *File) Name() string                       { return f.f.Name() }
func (f *File) Stat() (fs.FileInfo, error)         { return f.f.Stat() }
func (f *File) Read(b []byte) (int, error)         { return f.f.Read(b) }
func (f *File) Fd() uintptr                        { return f.f.Fd() }
func (f *File) Seek(o int64, w int) (int64, error) { return f.f.Seek(o, w) }
func (f *File) Sync() error {
	return mutating("Sync", f.f.Name(), func() error { return f.f.Sync() })
}
func (f *File) Truncate(size int64) error {
	return mutating("Ftruncate", f.f.Name(), func() error { return f.f.Truncate(size) })
}
