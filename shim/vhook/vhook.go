// Package vhook supports ovgen's function-entry interposition (`hookfn`).
package vhook

// As returns r[i] as T, or T's zero value when r is short or r[i] is nil.
func As[T any](r []any, i int) T {
	var z T
	if i >= len(r) || r[i] == nil {
		return z
	}
	return r[i].(T)
}
