// Package vorder removes Go's randomised map iteration order from explored code paths:
// ovgen's `rangekeys` transform rewrites `for k := range m` into
// `for _, k := range vorder.SortedKeys(m)` for the configured map expressions.
package vorder

import (
	"fmt"
	"sort"
)

// SortedKeys returns the keys of m in a fixed (string-rendered) order.
func SortedKeys[K comparable, V any](m map[K]V) []K {
	ks := make([]K, 0, len(m))
	for k := range m {
		ks = append(ks, k)
	}
	sort.Slice(ks, func(i, j int) bool { return fmt.Sprint(ks[i]) < fmt.Sprint(ks[j]) })
	return ks
}
