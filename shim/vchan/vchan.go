// Package vchan implements Go channel semantics (buffered, unbuffered rendez-vous, close, select
// with default) on top of the controlled scheduler. ovgen's `chan` transform rewrites channel
// syntax of selected repo files to this API. Without an active execution real-time behaviour is
// emulated with a mutex+cond (free-running mode, used by -race passes).
package vchan

import (
	"sync"

	"github.com/nspcc-dev/neofs-node/verif/lib/sched"
)

type waiter[T any] struct {
	sel   *selState
	idx   int
	dst   *T
	okDst *bool
	got   bool
}

type sender[T any] struct {
	sel   *selState
	idx   int
	v     T
	taken bool
}

type selState struct {
	fired   int
	cleanup []func()
}

func (s *selState) fire(i int) {
	s.fired = i
	for _, f := range s.cleanup {
		f()
	}
	s.cleanup = nil
}

type Chan[T any] struct {
	buf     []T
	cap     int
	closed  bool
	recvq   []*waiter[T]
	sendq   []*sender[T]
	// free-running mode
	mu   sync.Mutex
	cond *sync.Cond
}

func Make[T any](n ...int) *Chan[T] {
	c := &Chan[T]{}
	if len(n) > 0 {
		c.cap = n[0]
	}
	c.cond = sync.NewCond(&c.mu)
	return c
}

// NewVar returns a fresh variable of the channel's element type (used by the select rewrite).
func NewVar[T any](c *Chan[T]) *T { return new(T) }

func Len[T any](c *Chan[T]) int {
	if sched.Active() == nil {
		c.mu.Lock()
		defer c.mu.Unlock()
	}
	return len(c.buf)
}

func Go(f func()) {
	s := sched.Active()
	if s == nil {
		go f()
		return
	}
	s.Go("go", true, f)
	s.Point("go")
}

func removeW[T any](q []*waiter[T], w *waiter[T]) []*waiter[T] {
	for i, x := range q {
		if x == w {
			return append(q[:i:i], q[i+1:]...)
		}
	}
	return q
}
func removeS[T any](q []*sender[T], w *sender[T]) []*sender[T] {
	for i, x := range q {
		if x == w {
			return append(q[:i:i], q[i+1:]...)
		}
	}
	return q
}

// ---- core (controlled mode; single running thread, no locking needed) ----

func (c *Chan[T]) canRecv() bool { return len(c.buf) > 0 || len(c.sendq) > 0 || c.closed }
func (c *Chan[T]) canSend() bool { return c.closed || len(c.recvq) > 0 || len(c.buf) < c.cap }

// doRecv must only be called when canRecv().
func (c *Chan[T]) doRecv() (v T, ok bool) {
	if len(c.buf) > 0 {
		v, ok = c.buf[0], true
		c.buf = c.buf[1:]
		if len(c.sendq) > 0 { // a blocked sender on a full buffered channel moves in
			s := c.sendq[0]
			c.sendq = c.sendq[1:]
			c.buf = append(c.buf, s.v)
			s.taken = true
			if s.sel != nil {
				s.sel.fire(s.idx)
			}
		}
		return
	}
	if len(c.sendq) > 0 {
		s := c.sendq[0]
		c.sendq = c.sendq[1:]
		s.taken = true
		if s.sel != nil {
			s.sel.fire(s.idx)
		}
		return s.v, true
	}
	return v, false // closed
}

// doSend must only be called when canSend().
func (c *Chan[T]) doSend(v T) {
	if c.closed {
		panic("send on closed channel")
	}
	if len(c.recvq) > 0 {
		w := c.recvq[0]
		c.recvq = c.recvq[1:]
		if w.dst != nil {
			*w.dst = v
		}
		if w.okDst != nil {
			*w.okDst = true
		}
		w.got = true
		if w.sel != nil {
			w.sel.fire(w.idx)
		}
		return
	}
	c.buf = append(c.buf, v)
}

func (c *Chan[T]) Send(v T) {
	s := sched.Active()
	if s == nil {
		c.freeSend(v)
		return
	}
	s.Point("chan.send")
	if c == nil {
		s.Block("chan.send(nil)", func() bool { return false })
		return
	}
	if c.canSend() {
		c.doSend(v)
		return
	}
	sd := &sender[T]{v: v}
	c.sendq = append(c.sendq, sd)
	s.Block("chan.send", func() bool { return sd.taken || c.closed })
	if !sd.taken {
		c.sendq = removeS(c.sendq, sd)
		if sched.Active() != nil {
			panic("send on closed channel")
		}
	}
}

func (c *Chan[T]) Recv2() (v T, ok bool) {
	s := sched.Active()
	if s == nil {
		return c.freeRecv()
	}
	s.Point("chan.recv")
	if c == nil {
		s.Block("chan.recv(nil)", func() bool { return false })
		return
	}
	if c.canRecv() {
		return c.doRecv()
	}
	w := &waiter[T]{dst: &v, okDst: &ok}
	c.recvq = append(c.recvq, w)
	s.Block("chan.recv", func() bool { return w.got || c.closed })
	if !w.got {
		c.recvq = removeW(c.recvq, w)
		var z T
		return z, false
	}
	return v, ok
}

func (c *Chan[T]) Recv() T { v, _ := c.Recv2(); return v }

func Close[T any](c *Chan[T]) {
	s := sched.Active()
	if s == nil {
		c.mu.Lock()
		if c.closed {
			c.mu.Unlock()
			panic("close of closed channel")
		}
		c.closed = true
		c.cond.Broadcast()
		c.mu.Unlock()
		return
	}
	s.Point("chan.close")
	if c.closed {
		panic("close of closed channel")
	}
	c.closed = true
}

// ---- select ----

type Case interface {
	ready() bool
	fire()
	register(st *selState, idx int)
	isDefault() bool
	isNil() bool
	free() freeCase
}

type recvCase[T any] struct {
	c   *Chan[T]
	dst *T
	ok  *bool
}

func (r recvCase[T]) isDefault() bool { return false }
func (r recvCase[T]) isNil() bool     { return r.c == nil }
func (r recvCase[T]) ready() bool     { return r.c != nil && r.c.canRecv() }
func (r recvCase[T]) fire() {
	v, ok := r.c.doRecv()
	if r.dst != nil {
		*r.dst = v
	}
	if r.ok != nil {
		*r.ok = ok
	}
}
func (r recvCase[T]) register(st *selState, idx int) {
	if r.c == nil {
		return
	}
	w := &waiter[T]{sel: st, idx: idx, dst: r.dst, okDst: r.ok}
	r.c.recvq = append(r.c.recvq, w)
	st.cleanup = append(st.cleanup, func() { r.c.recvq = removeW(r.c.recvq, w) })
}

type sendCase[T any] struct {
	c *Chan[T]
	v T
}

func (x sendCase[T]) isDefault() bool { return false }
func (x sendCase[T]) isNil() bool     { return x.c == nil }
func (x sendCase[T]) ready() bool     { return x.c != nil && x.c.canSend() }
func (x sendCase[T]) fire()           { x.c.doSend(x.v) }
func (x sendCase[T]) register(st *selState, idx int) {
	if x.c == nil {
		return
	}
	sd := &sender[T]{sel: st, idx: idx, v: x.v}
	x.c.sendq = append(x.c.sendq, sd)
	st.cleanup = append(st.cleanup, func() { x.c.sendq = removeS(x.c.sendq, sd) })
}

type defaultCase struct{}

func (defaultCase) isDefault() bool          { return true }
func (defaultCase) isNil() bool              { return false }
func (defaultCase) ready() bool              { return false }
func (defaultCase) fire()                    {}
func (defaultCase) register(*selState, int)  {}
func (defaultCase) free() freeCase           { return freeCase{} }

func OnRecv[T any](c *Chan[T]) Case                       { return recvCase[T]{c: c} }
func OnRecvInto[T any](c *Chan[T], dst *T, ok *bool) Case { return recvCase[T]{c, dst, ok} }
func OnSend[T any](c *Chan[T], v T) Case                  { return sendCase[T]{c, v} }
func Default() Case                                       { return defaultCase{} }

// Select returns the index of the chosen case. Several ready cases = explored choice.
func Select(cases ...Case) int {
	s := sched.Active()
	if s == nil {
		return freeSelect(cases)
	}
	s.Point("select")
	for {
		var rdy []int
		def := -1
		for i, c := range cases {
			if c.isDefault() {
				def = i
			} else if c.ready() {
				rdy = append(rdy, i)
			}
		}
		if len(rdy) > 0 {
			k := 0
			if len(rdy) > 1 {
				k = s.Choose(len(rdy), sched.Preempt, "select-ready-case")
			}
			cases[rdy[k]].fire()
			return rdy[k]
		}
		if def >= 0 {
			return def
		}
		st := &selState{fired: -1}
		for i, c := range cases {
			c.register(st, i)
		}
		anyClosed := func() bool {
			for _, c := range cases {
				if !c.isDefault() && c.ready() {
					return true
				}
			}
			return false
		}
		s.Block("select", func() bool { return st.fired >= 0 || anyClosed() })
		if st.fired >= 0 {
			return st.fired
		}
		for _, f := range st.cleanup {
			f()
		}
		if sched.Active() == nil { // aborted while blocked
			return 0
		}
	}
}
