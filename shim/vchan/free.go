package vchan

import (
	"runtime"
	"time"
)

// Free-running implementation (no controlled execution active): plain mutex/cond channel with
// polling select. Only used by supplementary -race passes and by code paths outside explorations.

type freeCase struct {
	ready func() bool // called with lock held
	fire  func()
	lock  func()
	unlock func()
	announce func(int)
}

func (c *Chan[T]) fCanSend() bool {
	if c.closed {
		return true
	}
	if c.cap > 0 {
		return len(c.buf) < c.cap
	}
	return c.frecvWaiting() > len(c.buf)
}

func (c *Chan[T]) frecvWaiting() int { return len(c.recvq) }

func (c *Chan[T]) freeSend(v T) {
	c.mu.Lock()
	for !c.fCanSend() {
		c.cond.Wait()
	}
	if c.closed {
		c.mu.Unlock()
		panic("send on closed channel")
	}
	c.buf = append(c.buf, v)
	c.cond.Broadcast()
	c.mu.Unlock()
}

func (c *Chan[T]) freeRecv() (v T, ok bool) {
	c.mu.Lock()
	w := &waiter[T]{}
	c.recvq = append(c.recvq, w)
	c.cond.Broadcast()
	for len(c.buf) == 0 && !c.closed {
		c.cond.Wait()
	}
	c.recvq = removeW(c.recvq, w)
	if len(c.buf) > 0 {
		v, ok = c.buf[0], true
		c.buf = c.buf[1:]
	}
	c.cond.Broadcast()
	c.mu.Unlock()
	return
}

func (r recvCase[T]) free() freeCase {
	if r.c == nil {
		return freeCase{}
	}
	w := &waiter[T]{}
	return freeCase{
		ready: func() bool { return len(r.c.buf) > 0 || r.c.closed },
		fire: func() {
			var v T
			ok := false
			if len(r.c.buf) > 0 {
				v, ok = r.c.buf[0], true
				r.c.buf = r.c.buf[1:]
			}
			r.c.cond.Broadcast()
			if r.dst != nil {
				*r.dst = v
			}
			if r.ok != nil {
				*r.ok = ok
			}
		},
		lock: r.c.mu.Lock, unlock: r.c.mu.Unlock,
		announce: func(d int) {
			if d > 0 {
				r.c.recvq = append(r.c.recvq, w)
			} else {
				r.c.recvq = removeW(r.c.recvq, w)
			}
			r.c.cond.Broadcast()
		},
	}
}

func (x sendCase[T]) free() freeCase {
	if x.c == nil {
		return freeCase{}
	}
	return freeCase{
		ready: x.c.fCanSend,
		fire: func() {
			if x.c.closed {
				panic("send on closed channel")
			}
			x.c.buf = append(x.c.buf, x.v)
			x.c.cond.Broadcast()
		},
		lock: x.c.mu.Lock, unlock: x.c.mu.Unlock, announce: func(int) {},
	}
}

func freeSelect(cases []Case) int {
	fc := make([]freeCase, len(cases))
	def := -1
	for i, c := range cases {
		if c.isDefault() {
			def = i
			continue
		}
		fc[i] = c.free()
	}
	for _, c := range fc {
		if c.lock != nil {
			c.lock()
			c.announce(1)
			c.unlock()
		}
	}
	defer func() {
		for _, c := range fc {
			if c.lock != nil {
				c.lock()
				c.announce(-1)
				c.unlock()
			}
		}
	}()
	for spin := 0; ; spin++ {
		for i, c := range fc {
			if c.lock == nil {
				continue
			}
			c.lock()
			if c.ready() {
				c.fire()
				c.unlock()
				return i
			}
			c.unlock()
		}
		if def >= 0 {
			return def
		}
		if spin < 10 {
			runtime.Gosched()
		} else {
			time.Sleep(20 * time.Microsecond)
		}
	}
}
