// Package vtime replaces the parts of "time" used by the code under test. Under a controlled
// execution timers are threads that may fire at any scheduling point after arming (an explored
// choice); tickers fire a bounded number of times; Sleep is a yield; Now is a virtual clock.
package vtime

import (
	"time"

	"github.com/nspcc-dev/neofs-node/verif/lib/sched"
	"github.com/nspcc-dev/neofs-node/verif/shim/vchan"
)

type (
	Duration = time.Duration
	Time     = time.Time
	Month    = time.Month
	Location = time.Location
)

const (
	Nanosecond  = time.Nanosecond
	Microsecond = time.Microsecond
	Millisecond = time.Millisecond
	Second      = time.Second
	Minute      = time.Minute
	Hour        = time.Hour
	RFC3339     = time.RFC3339
)

var UTC = time.UTC

var base = time.Unix(1_700_000_000, 0)

func Now() Time {
	if s := sched.Active(); s != nil {
		s.Now++
		return base.Add(time.Duration(s.Now))
	}
	return time.Now()
}
func Since(t Time) Duration { return Now().Sub(t) }
func Until(t Time) Duration { return t.Sub(Now()) }
func Unix(sec, nsec int64) Time { return time.Unix(sec, nsec) }

// Sleep yields under a controlled execution (sleeping threads stay enabled: any amount of real
// time may pass). Free-running: sleeps a scaled-down real duration.
func Sleep(d Duration) {
	if s := sched.Active(); s != nil {
		s.Point("time.Sleep")
		return
	}
	if d > time.Millisecond {
		d = time.Millisecond
	}
	time.Sleep(d)
}

type Timer struct {
	C    *vchan.Chan[Time]
	t    *sched.T
	s    *sched.S
	real *time.Timer
	f    func()
}

func AfterFunc(d Duration, f func()) *Timer {
	s := sched.Active()
	if s == nil {
		if d > 2*time.Millisecond {
			d = 2 * time.Millisecond
		}
		return &Timer{real: time.AfterFunc(d, f), f: f}
	}
	t := &Timer{s: s, f: f}
	t.t = s.Go("timer", true, f)
	s.Point("time.AfterFunc")
	return t
}

func NewTimer(d Duration) *Timer {
	c := vchan.Make[Time](1)
	t := AfterFunc(d, func() { vchan.Select(vchan.OnSend(c, Now()), vchan.Default()) })
	t.C = c
	return t
}

func After(d Duration) *vchan.Chan[Time] { return NewTimer(d).C }

// Stop reports whether the timer was stopped before firing.
func (t *Timer) Stop() bool {
	if t.real != nil {
		return t.real.Stop()
	}
	if s := sched.Active(); s != nil {
		s.Point("Timer.Stop")
	}
	return t.s.Cancel(t.t)
}

type Ticker struct {
	C       *vchan.Chan[Time]
	stopped bool
	realStop chan struct{}
}

func NewTicker(d Duration) *Ticker {
	tk := &Ticker{C: vchan.Make[Time](1)}
	s := sched.Active()
	if s == nil {
		tk.realStop = make(chan struct{})
		if d > 2*time.Millisecond {
			d = 2 * time.Millisecond
		}
		go func() {
			rt := time.NewTicker(d)
			defer rt.Stop()
			for {
				select {
				case now := <-rt.C:
					vchan.Select(vchan.OnSend(tk.C, now), vchan.Default())
				case <-tk.realStop:
					return
				}
			}
		}()
		return tk
	}
	tt := s.Go("ticker", true, func() {
		for !tk.stopped {
			// s.TimerFires is the execution-wide budget of ticks still to come (the harness may
			// replenish it). At most one tick is pending (further ticks would be dropped anyway):
			// the next one comes only after the previous was consumed, so a burst cannot burn the budget.
			s.Block("ticker.wait", func() bool { return tk.stopped || (s.TimerFires > 0 && vchan.Len(tk.C) == 0) })
			if tk.stopped {
				return
			}
			s.TimerFires--
			s.Point("ticker.fire")
			if tk.stopped {
				return
			}
			vchan.Select(vchan.OnSend(tk.C, Now()), vchan.Default())
		}
	})
	tt.LowPrio = true
	s.Point("time.NewTicker")
	return tk
}

func (t *Ticker) Stop() {
	if t.realStop != nil {
		select {
		case <-t.realStop:
		default:
			close(t.realStop)
		}
		return
	}
	t.stopped = true
}

func (t *Ticker) Reset(Duration) {}

// Reset re-arms the timer (it may fire again at any later scheduling point).
func (t *Timer) Reset(d Duration) bool {
	if t.real != nil {
		if d > 2*time.Millisecond {
			d = 2 * time.Millisecond
		}
		return t.real.Reset(d)
	}
	active := t.s.Cancel(t.t)
	if s := sched.Active(); s != nil {
		if s.TimerFires <= 0 {
			return active // budget of periodic re-arms used up: the timer stays stopped
		}
		s.TimerFires--
		t.t = s.Go("timer", true, t.f)
		t.t.LowPrio = true
		s.Point("Timer.Reset")
	}
	return active
}
