// Package vsync is a drop-in replacement for the parts of "sync" used by the code under test.
// Under an active controlled execution every operation is a scheduling point and blocking is
// modelled (so a thread blocked forever is a reported deadlock, not a hang). Without an active
// execution the real primitives are used.
package vsync

import (
	"sync"
	"sync/atomic"

	"github.com/nspcc-dev/neofs-node/verif/lib/sched"
)

type Locker = sync.Locker

type Mutex struct {
	real   sync.Mutex
	locked bool
	rl     bool // really locked (free-running mode)
}

func (m *Mutex) Lock() {
	s := sched.Active()
	if s == nil {
		m.real.Lock()
		m.rl = true
		return
	}
	s.Point("Mutex.Lock")
	s.Block("Mutex.Lock", func() bool { return !m.locked })
	m.locked = true
}

func (m *Mutex) TryLock() bool {
	s := sched.Active()
	if s == nil {
		if m.real.TryLock() {
			m.rl = true
			return true
		}
		return false
	}
	s.Point("Mutex.TryLock")
	if m.locked {
		return false
	}
	m.locked = true
	return true
}

func (m *Mutex) Unlock() {
	if m.locked {
		m.locked = false
		return
	}
	if m.rl {
		m.rl = false
		m.real.Unlock()
		return
	}
	if sched.Active() != nil {
		panic("sync: unlock of unlocked mutex")
	}
	// unwinding after an aborted execution: nothing to release
}

type RWMutex struct {
	real    sync.RWMutex
	writer  bool
	readers int
	rw      bool         // really write-locked (free-running mode)
	rr      atomic.Int32 // real readers
}

func (m *RWMutex) Lock() {
	s := sched.Active()
	if s == nil {
		m.real.Lock()
		m.rw = true
		return
	}
	s.Point("RWMutex.Lock")
	s.Block("RWMutex.Lock", func() bool { return !m.writer && m.readers == 0 })
	m.writer = true
}

func (m *RWMutex) Unlock() {
	if m.writer {
		m.writer = false
		return
	}
	if m.rw {
		m.rw = false
		m.real.Unlock()
		return
	}
	if sched.Active() != nil {
		panic("sync: Unlock of unlocked RWMutex")
	}
}

func (m *RWMutex) RLock() {
	s := sched.Active()
	if s == nil {
		m.real.RLock()
		m.rr.Add(1)
		return
	}
	s.Point("RWMutex.RLock")
	s.Block("RWMutex.RLock", func() bool { return !m.writer })
	m.readers++
}

func (m *RWMutex) TryRLock() bool {
	s := sched.Active()
	if s == nil {
		if m.real.TryRLock() {
			m.rr.Add(1)
			return true
		}
		return false
	}
	s.Point("RWMutex.TryRLock")
	if m.writer {
		return false
	}
	m.readers++
	return true
}

func (m *RWMutex) TryLock() bool {
	s := sched.Active()
	if s == nil {
		if m.real.TryLock() {
			m.rw = true
			return true
		}
		return false
	}
	s.Point("RWMutex.TryLock")
	if m.writer || m.readers > 0 {
		return false
	}
	m.writer = true
	return true
}

func (m *RWMutex) RUnlock() {
	if m.readers > 0 {
		m.readers--
		return
	}
	if m.rr.Load() > 0 {
		m.rr.Add(-1)
		m.real.RUnlock()
		return
	}
	if sched.Active() != nil {
		panic("sync: RUnlock of unlocked RWMutex")
	}
}

func (m *RWMutex) RLocker() Locker { return rlocker{m} }

type rlocker struct{ m *RWMutex }

func (r rlocker) Lock()   { r.m.RLock() }
func (r rlocker) Unlock() { r.m.RUnlock() }

type WaitGroup struct {
	real sync.WaitGroup
	n    int
	virt bool
}

func (w *WaitGroup) Add(d int) {
	if sched.Active() == nil && !w.virt {
		w.real.Add(d)
		return
	}
	w.virt = true
	w.n += d
	if w.n < 0 {
		panic("sync: negative WaitGroup counter")
	}
}

func (w *WaitGroup) Done() { w.Add(-1) }

func (w *WaitGroup) Wait() {
	s := sched.Active()
	if s == nil {
		if !w.virt {
			w.real.Wait()
		}
		return
	}
	s.Point("WaitGroup.Wait")
	s.Block("WaitGroup.Wait", func() bool { return w.n == 0 })
}

func (w *WaitGroup) Go(f func()) {
	s := sched.Active()
	if s == nil {
		w.real.Add(1)
		go func() {
			defer w.real.Done()
			f()
		}()
		return
	}
	w.Add(1)
	s.Go("wg.Go", true, func() {
		defer w.Done()
		f()
	})
	s.Point("WaitGroup.Go")
}

type Once struct {
	real    sync.Once
	done    bool
	running bool
}

func (o *Once) Do(f func()) {
	s := sched.Active()
	if s == nil {
		o.real.Do(f)
		return
	}
	s.Point("Once.Do")
	if o.done {
		return
	}
	if o.running {
		s.Block("Once.Do", func() bool { return o.done })
		return
	}
	o.running = true
	defer func() { o.done = true }()
	f()
}

// Map: operations are atomic; each is a scheduling point.
type Map struct{ m sync.Map }

func pt(l string) {
	if s := sched.Active(); s != nil {
		s.Point(l)
	}
}

func (m *Map) Load(k any) (any, bool)             { pt("Map.Load"); return m.m.Load(k) }
func (m *Map) Store(k, v any)                     { pt("Map.Store"); m.m.Store(k, v) }
func (m *Map) Delete(k any)                       { pt("Map.Delete"); m.m.Delete(k) }
func (m *Map) LoadOrStore(k, v any) (any, bool)   { pt("Map.LoadOrStore"); return m.m.LoadOrStore(k, v) }
func (m *Map) LoadAndDelete(k any) (any, bool)    { pt("Map.LoadAndDelete"); return m.m.LoadAndDelete(k) }
func (m *Map) Range(f func(k, v any) bool)        { pt("Map.Range"); m.m.Range(f) }
func (m *Map) Swap(k, v any) (any, bool)          { pt("Map.Swap"); return m.m.Swap(k, v) }
func (m *Map) CompareAndSwap(k, o, n any) bool    { pt("Map.CompareAndSwap"); return m.m.CompareAndSwap(k, o, n) }
func (m *Map) CompareAndDelete(k, o any) bool     { pt("Map.CompareAndDelete"); return m.m.CompareAndDelete(k, o) }
// Peek is Load without a scheduling point (for harness wait conditions evaluated by the scheduler).
func (m *Map) Peek(k any) bool { _, ok := m.m.Load(k); return ok }
func (m *Map) Clear()                             { pt("Map.Clear"); m.m.Clear() }

type Pool = sync.Pool

func OnceFunc(f func()) func()                          { return sync.OnceFunc(f) }
func OnceValue[T any](f func() T) func() T              { return sync.OnceValue(f) }
func OnceValues[T1, T2 any](f func() (T1, T2)) func() (T1, T2) { return sync.OnceValues(f) }
