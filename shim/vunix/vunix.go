// Package vunix wraps the golang.org/x/sys/unix calls used by the FSTree linux writer. Every call
// is a scheduling point (label "unix.<Name>#before"/"#after" are crash-image points for OnPoint
// hooks) and may be failed by the harness-installed fault plan (an explored environment choice).
package vunix

import (
	"golang.org/x/sys/unix"

	"github.com/nspcc-dev/neofs-node/verif/lib/sched"
)

const (
	O_WRONLY          = unix.O_WRONLY
	O_TMPFILE         = unix.O_TMPFILE
	O_CLOEXEC         = unix.O_CLOEXEC
	O_DSYNC           = unix.O_DSYNC
	AT_FDCWD          = unix.AT_FDCWD
	AT_SYMLINK_FOLLOW = unix.AT_SYMLINK_FOLLOW
	RENAME_EXCHANGE   = unix.RENAME_EXCHANGE
	EEXIST            = unix.EEXIST
	ENOSPC            = unix.ENOSPC
	ENOENT            = unix.ENOENT
	EIO               = unix.EIO
	EMFILE            = unix.EMFILE
)

type Errno = unix.Errno

// Fault decides whether call `name` (n-th call of that name in this execution, 0-based) fails.
// Return 0 for "no fault". Installed per execution by the harness (may call s.Choose).
var Fault func(name string, nth int) unix.Errno

// Calls counts calls per name in the current execution (reset by the harness).
var Calls = map[string]int{}

// Hook is called before and after each real call (phase "before"/"after") — crash-image capture.
var Hook func(name, phase string)

// Pre/Post are exported for sibling shims (vos).
func Pre(name string) unix.Errno { return pre(name) }
func Post(name string)           { post(name) }

// TornHook, when set, is called before a write with the descriptor and the bytes about to be
// written: the harness may write a prefix, capture a crash image and restore size and offset.
var TornHook func(name string, fd int, data []byte)

func pre(name string) unix.Errno {
	if s := sched.Active(); s != nil {
		s.Point("unix." + name)
	}
	n := Calls[name]
	Calls[name] = n + 1
	if Hook != nil {
		Hook(name, "before")
	}
	if Fault != nil {
		return Fault(name, n)
	}
	return 0
}

func post(name string) {
	if Hook != nil {
		Hook(name, "after")
	}
}

func Open(path string, mode int, perm uint32) (int, error) {
	if e := pre("Open"); e != 0 {
		return -1, e
	}
	fd, err := unix.Open(path, mode, perm)
	post("Open")
	return fd, err
}

func Close(fd int) error {
	e := pre("Close")
	err := unix.Close(fd) // the descriptor is always released, even when a fault is reported
	post("Close")
	if e != 0 {
		return e
	}
	return err
}

func Write(fd int, p []byte) (int, error) {
	if TornHook != nil {
		TornHook("Write", fd, p)
	}
	if e := pre("Write"); e != 0 {
		return 0, e
	}
	n, err := unix.Write(fd, p)
	post("Write")
	return n, err
}

func Writev(fd int, iovs [][]byte) (int, error) {
	if TornHook != nil {
		var all []byte
		for _, v := range iovs {
			all = append(all, v...)
		}
		TornHook("Writev", fd, all)
	}
	if e := pre("Writev"); e != 0 {
		return 0, e
	}
	n, err := unix.Writev(fd, iovs)
	post("Writev")
	return n, err
}

func Linkat(olddirfd int, oldpath string, newdirfd int, newpath string, flags int) error {
	if e := pre("Linkat"); e != 0 {
		return e
	}
	err := unix.Linkat(olddirfd, oldpath, newdirfd, newpath, flags)
	post("Linkat")
	return err
}

func Fdatasync(fd int) error {
	if e := pre("Fdatasync"); e != 0 {
		return e
	}
	err := unix.Fdatasync(fd)
	post("Fdatasync")
	return err
}

func Renameat2(olddirfd int, oldpath string, newdirfd int, newpath string, flags uint) error {
	return unix.Renameat2(olddirfd, oldpath, newdirfd, newpath, flags)
}

// ---- further calls a (changed) writer may use: each is a scheduling point, crash-image point and fault point ----

const (
	O_RDONLY      = unix.O_RDONLY
	O_RDWR        = unix.O_RDWR
	O_CREAT       = unix.O_CREAT
	O_EXCL        = unix.O_EXCL
	O_TRUNC       = unix.O_TRUNC
	O_APPEND      = unix.O_APPEND
	O_SYNC        = unix.O_SYNC
	O_DIRECTORY   = unix.O_DIRECTORY
	AT_REMOVEDIR  = unix.AT_REMOVEDIR
	AT_EMPTY_PATH = unix.AT_EMPTY_PATH
	EINTR         = unix.EINTR
	EAGAIN        = unix.EAGAIN
	EINVAL        = unix.EINVAL
	EOPNOTSUPP    = unix.EOPNOTSUPP
	EXDEV         = unix.EXDEV
	EISDIR        = unix.EISDIR
	ENOTDIR       = unix.ENOTDIR
)

type Stat_t = unix.Stat_t

func wrap(name string, f func() error) error {
	if e := pre(name); e != 0 {
		return e
	}
	err := f()
	post(name)
	return err
}

func Unlink(path string) error { return wrap("Unlink", func() error { return unix.Unlink(path) }) }
func Unlinkat(dirfd int, path string, flags int) error {
	return wrap("Unlinkat", func() error { return unix.Unlinkat(dirfd, path, flags) })
}
func Rename(from, to string) error {
	return wrap("Rename", func() error { return unix.Rename(from, to) })
}
func Renameat(olddirfd int, oldpath string, newdirfd int, newpath string) error {
	return wrap("Renameat", func() error { return unix.Renameat(olddirfd, oldpath, newdirfd, newpath) })
}
func Link(oldpath, newpath string) error {
	return wrap("Link", func() error { return unix.Link(oldpath, newpath) })
}
func Symlink(oldpath, newpath string) error {
	return wrap("Symlink", func() error { return unix.Symlink(oldpath, newpath) })
}
func Fsync(fd int) error { return wrap("Fsync", func() error { return unix.Fsync(fd) }) }
func Ftruncate(fd int, length int64) error {
	return wrap("Ftruncate", func() error { return unix.Ftruncate(fd, length) })
}
func Mkdir(path string, mode uint32) error {
	return wrap("Mkdir", func() error { return unix.Mkdir(path, mode) })
}
func Fstat(fd int, st *Stat_t) error                       { return unix.Fstat(fd, st) }
func Stat(path string, st *Stat_t) error                   { return unix.Stat(path, st) }
func Seek(fd int, offset int64, whence int) (int64, error) { return unix.Seek(fd, offset, whence) }
func Pread(fd int, p []byte, offset int64) (int, error)    { return unix.Pread(fd, p, offset) }
func Pwrite(fd int, p []byte, offset int64) (int, error) {
	if TornHook != nil {
		TornHook("Pwrite", fd, p)
	}
	if e := pre("Pwrite"); e != 0 {
		return 0, e
	}
	n, err := unix.Pwrite(fd, p, offset)
	post("Pwrite")
	return n, err
}
func Openat(dirfd int, path string, flags int, mode uint32) (int, error) {
	if e := pre("Openat"); e != 0 {
		return -1, e
	}
	fd, err := unix.Openat(dirfd, path, flags, mode)
	post("Openat")
	return fd, err
}
