// Package vunix wraps the golang.org/x/sys/unix calls used by the FSTree linux writer. Every call
// is a scheduling point (label "unix.<Name>#before"/"#after" are crash-image points for OnPoint
// hooks) and may be failed by the harness-installed fault plan (an explored environment choice).
package vunix

import (
	"golang.org/x/sys/unix"

	"github.com/nspcc-dev/neofs-node/verif/lib/sched"
)

const (
	O_WRONLY          = unix.O_WRONLY
	O_TMPFILE         = unix.O_TMPFILE
	O_CLOEXEC         = unix.O_CLOEXEC
	O_DSYNC           = unix.O_DSYNC
	AT_FDCWD          = unix.AT_FDCWD
	AT_SYMLINK_FOLLOW = unix.AT_SYMLINK_FOLLOW
	RENAME_EXCHANGE   = unix.RENAME_EXCHANGE
	EEXIST            = unix.EEXIST
	ENOSPC            = unix.ENOSPC
	ENOENT            = unix.ENOENT
	EIO               = unix.EIO
	EMFILE            = unix.EMFILE
)

type Errno = unix.Errno

// Fault decides whether call `name` (n-th call of that name in this execution, 0-based) fails.
// Return 0 for "no fault". Installed per execution by the harness (may call s.Choose).
var Fault func(name string, nth int) unix.Errno

// Calls counts calls per name in the current execution (reset by the harness).
var Calls = map[string]int{}

// Hook is called before and after each real call (phase "before"/"after") — crash-image capture.
var Hook func(name, phase string)

// Pre/Post are exported for sibling shims (vos).
func Pre(name string) unix.Errno { return pre(name) }
func Post(name string)           { post(name) }

// TornHook, when set, is called before a write with the descriptor and the bytes about to be
// written: the harness may write a prefix, capture a crash image and restore size and offset.
var TornHook func(name string, fd int, data []byte)

func pre(name string) unix.Errno {
	if s := sched.Active(); s != nil {
		s.Point("unix." + name)
	}
	n := Calls[name]
	Calls[name] = n + 1
	if Hook != nil {
		Hook(name, "before")
	}
	if Fault != nil {
		return Fault(name, n)
	}
	return 0
}

func post(name string) {
	if Hook != nil {
		Hook(name, "after")
	}
}

func Open(path string, mode int, perm uint32) (int, error) {
	if e := pre("Open"); e != 0 {
		return -1, e
	}
	fd, err := unix.Open(path, mode, perm)
	post("Open")
	return fd, err
}

func Close(fd int) error {
	e := pre("Close")
	err := unix.Close(fd) // the descriptor is always released, even when a fault is reported
	post("Close")
	if e != 0 {
		return e
	}
	return err
}

func Write(fd int, p []byte) (int, error) {
	if TornHook != nil {
		TornHook("Write", fd, p)
	}
	if e := pre("Write"); e != 0 {
		return 0, e
	}
	n, err := unix.Write(fd, p)
	post("Write")
	return n, err
}

func Writev(fd int, iovs [][]byte) (int, error) {
	if TornHook != nil {
		var all []byte
		for _, v := range iovs {
			all = append(all, v...)
		}
		TornHook("Writev", fd, all)
	}
	if e := pre("Writev"); e != 0 {
		return 0, e
	}
	n, err := unix.Writev(fd, iovs)
	post("Writev")
	return n, err
}

func Linkat(olddirfd int, oldpath string, newdirfd int, newpath string, flags int) error {
	if e := pre("Linkat"); e != 0 {
		return e
	}
	err := unix.Linkat(olddirfd, oldpath, newdirfd, newpath, flags)
	post("Linkat")
	return err
}

func Fdatasync(fd int) error {
	if e := pre("Fdatasync"); e != 0 {
		return e
	}
	err := unix.Fdatasync(fd)
	post("Fdatasync")
	return err
}

func Renameat2(olddirfd int, oldpath string, newdirfd int, newpath string, flags uint) error {
	return unix.Renameat2(olddirfd, oldpath, newdirfd, newpath, flags)
}
