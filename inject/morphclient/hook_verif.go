//go:build verif

package client

// VerifHook, when set, intercepts every *Client method at entry (see tools/ovgen hookfn).
// Returning ok=true short-circuits the call with the given results.
var VerifHook func(c *Client, name string, args []any) ([]any, bool)

// VerifNewClient returns a zero Client usable only with VerifHook set.
func VerifNewClient() *Client { return &Client{} }
