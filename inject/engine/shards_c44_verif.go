//go:build verif

package engine

import "github.com/nspcc-dev/neofs-node/pkg/local_object_storage/shard"

// VerifC44Shards returns the engine's shard objects.
func (e *StorageEngine) VerifC44Shards() []*shard.Shard {
	var r []*shard.Shard
	for _, sh := range e.unsortedShards() {
		r = append(r, sh.Shard)
	}
	return r
}
