//go:build verif

package engine

// VerifSvcHook, when set, observes every (*StorageEngine) method at entry (tools/ovgen hookfn).
// svcworld uses it as a pure recorder (always returns ok=false, the real method runs).
var VerifSvcHook func(e *StorageEngine, name string, args []any) ([]any, bool)
