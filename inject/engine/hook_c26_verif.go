//go:build verif

package engine

// VerifPolicerWorldHook intercepts (*StorageEngine).GetBytes (the only engine method the replicator
// calls for a policer task) so that a zero StorageEngine can stand for "the local object is readable".
var VerifPolicerWorldHook func(e *StorageEngine, name string, args []any) ([]any, bool)
