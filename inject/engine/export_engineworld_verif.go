//go:build verif

package engine

import (
	"github.com/nspcc-dev/neofs-node/pkg/local_object_storage/shard"
	"github.com/nspcc-dev/neofs-node/verif/shim/vmaps"
	oid "github.com/nspcc-dev/neofs-sdk-go/object/id"
)

// VerifSetShardOrder pins the order in which unsortedShards()/Evacuate visit the shard map
// (shard ID strings). nil restores the default (ascending ID string).
func (e *StorageEngine) VerifSetShardOrder(ids []string) {
	e.mtx.Lock()
	defer e.mtx.Unlock()
	vmaps.SetOrder(e.shards, ids)
}

// VerifForgetShardOrder drops the plan (call before discarding the engine).
func (e *StorageEngine) VerifForgetShardOrder() {
	e.mtx.Lock()
	defer e.mtx.Unlock()
	vmaps.Forget(e.shards)
}

// VerifShard returns the shard object with the given ID string (nil if absent).
func (e *StorageEngine) VerifShard(id string) *shard.Shard {
	return e.getShard(id).Shard
}

// VerifUnsortedShardIDs returns the IDs in the order unsortedShards() yields them.
func (e *StorageEngine) VerifUnsortedShardIDs() []string {
	var r []string
	for _, sh := range e.unsortedShards() {
		r = append(r, sh.ID().String())
	}
	return r
}

// VerifSortedShardIDs returns the HRW visiting order for an object ID.
func (e *StorageEngine) VerifSortedShardIDs(id oid.ID) []string {
	var r []string
	for _, sh := range e.sortedShards(id) {
		r = append(r, sh.ID().String())
	}
	return r
}

// VerifExistsPhysical exposes the engine-level existence check used by Put.
func (e *StorageEngine) VerifExistsPhysical(addr oid.Address) (bool, error) {
	return e.existsPhysical(addr)
}

// VerifShardErrorCount returns the error counter of a shard (volatile engine state).
func (e *StorageEngine) VerifShardErrorCount(id string) uint32 {
	sh := e.getShard(id)
	if sh.errorCount == nil {
		return 0
	}
	return sh.errorCount.Load()
}

// VerifRemoveShards detaches (and closes) the given shards: the engine then consists of the
// remaining ones only.
func (e *StorageEngine) VerifRemoveShards(ids ...string) {
	e.removeShards(ids...)
}
