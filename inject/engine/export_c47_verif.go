//go:build verif

package engine

import "github.com/nspcc-dev/neofs-node/pkg/local_object_storage/shard"

// VerifC47Shards returns the engine's shard objects (any order).
func (e *StorageEngine) VerifC47Shards() []*shard.Shard {
	e.mtx.RLock()
	defer e.mtx.RUnlock()
	var r []*shard.Shard
	for _, sh := range e.shards {
		r = append(r, sh.Shard)
	}
	return r
}
