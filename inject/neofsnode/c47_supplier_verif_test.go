//go:build verif

package main

// C47, supplier side: the node's REAL paymentChecker (this package) between a scripted FS chain
// (morph client interposed at (*client.Client).TestInvoke) and the REAL shard new-epoch handler
// (worlds/shardworld). The file is layered into cmd/neofs-node through the overlay only; the C47 check
// binary builds this package's test binary at run time and runs TestVerifC47Supplier, which explores
// every history over the alphabet below up to a depth and writes the observed facts (what the chain
// really answered, which events arrived, whether the container's data was discarded, at which epoch)
// as JSON lines. The oracle lives in props/c47/main.go.

import (
	"encoding/json"
	"errors"
	"fmt"
	"os"
	"path/filepath"
	"strconv"
	"testing"
	"time"

	"github.com/nspcc-dev/neo-go/pkg/util"
	"github.com/nspcc-dev/neo-go/pkg/vm/stackitem"
	"github.com/nspcc-dev/neofs-node/pkg/morph/client"
	balanceClient "github.com/nspcc-dev/neofs-node/pkg/morph/client/balance"
	netmapClient "github.com/nspcc-dev/neofs-node/pkg/morph/client/netmap"
	fschaincontracts "github.com/nspcc-dev/neofs-node/pkg/morph/contracts"
	"github.com/nspcc-dev/neofs-node/pkg/morph/event"
	balanceEvent "github.com/nspcc-dev/neofs-node/pkg/morph/event/balance"
	sw "github.com/nspcc-dev/neofs-node/verif/worlds/shardworld"
	cid "github.com/nspcc-dev/neofs-sdk-go/container/id"
	"go.uber.org/zap"
)

type c47Info struct {
	Kind string // read-error | read-paid | read-unpaid | event-paid | event-unpaid | reset
	E    int64  `json:",omitempty"`
}

type c47Step struct {
	Op         string
	Epoch      uint64 // epoch announced so far (the processed one for an epoch op)
	Rate       string // on | zero | fail: what the chain answers for the basic income rate
	Infos      []c47Info
	EpochEvent bool
	Discarded  bool // container A's data gone after this step
	DiscardedB bool // control container (always paid) lost data
}

type c47History struct {
	Steps []c47Step
}

type c47Chain struct {
	a     string // fail | paid | unpaid
	e     int64
	rate  string
	infos []c47Info
}

// forwarder lets one long-lived shard talk to the payment checker of the current history.
type c47Fwd struct{ p *paymentChecker }

func (f *c47Fwd) PaymentsDisabled() bool              { return f.p.PaymentsDisabled() }
func (f *c47Fwd) UnpaidSince(c cid.ID) (int64, error) { return f.p.UnpaidSince(c) }

var c47Ops = []string{"chain:fail", "chain:paid", "chain:unpaid@0", "chain:unpaid@now", "chain:unpaid@now+1",
	"query", "event:unpaid@now", "event:paid", "reset", "rate:zero", "rate:fail", "rate:on", "epoch+1", "epoch+3"}

func c47IsEpochOp(op string) bool { return op == "epoch+1" || op == "epoch+3" }

func TestVerifC47Supplier(t *testing.T) {
	out := os.Getenv("C47_SUPPLIER_OUT")
	if out == "" {
		t.Skip("driven by /verif/check C47 only")
	}
	depth, _ := strconv.Atoi(os.Getenv("C47_SUPPLIER_DEPTH"))
	var deadline time.Time
	if ns, err := strconv.ParseInt(os.Getenv("C47_SUPPLIER_DEADLINE"), 10, 64); err == nil && ns > 0 {
		deadline = time.Unix(0, ns)
	}
	scratch := os.Getenv("C47_SUPPLIER_SCRATCH")
	f, err := os.Create(out)
	if err != nil {
		t.Fatal(err)
	}
	defer f.Close()
	enc := json.NewEncoder(f)

	cA := sw.CID("A")
	balSH, nmSH := util.Uint160{1}, util.Uint160{2}
	chain := &c47Chain{}
	client.VerifHook = func(_ *client.Client, name string, args []any) ([]any, bool) {
		if name != "TestInvoke" {
			return nil, false
		}
		method := args[1].(string)
		switch args[0].(util.Uint160) {
		case nmSH: // basic income rate
			switch chain.rate {
			case "fail":
				return []any{nil, errors.New("scripted chain: connection lost")}, true
			case "zero":
				return []any{[]stackitem.Item{stackitem.Make(0)}, nil}, true
			}
			return []any{[]stackitem.Item{stackitem.Make(100)}, nil}, true
		case balSH:
			if method != fschaincontracts.UnpaidBalanceMethod {
				t.Fatalf("unexpected balance method %s", method)
			}
			id := args[2].([]any)[0].([]byte)
			if string(id) != string(cA[:]) {
				return []any{[]stackitem.Item{stackitem.Make(-1)}, nil}, true // every other container is paid
			}
			switch chain.a {
			case "fail":
				chain.infos = append(chain.infos, c47Info{Kind: "read-error"})
				return []any{nil, errors.New("scripted chain: connection lost")}, true
			case "unpaid":
				chain.infos = append(chain.infos, c47Info{Kind: "read-unpaid", E: chain.e})
				return []any{[]stackitem.Item{stackitem.Make(chain.e)}, nil}, true
			}
			chain.infos = append(chain.infos, c47Info{Kind: "read-paid"})
			return []any{[]stackitem.Item{stackitem.Make(-1)}, nil}, true
		}
		return nil, false
	}
	defer func() { client.VerifHook = nil }()

	bCli, err := balanceClient.NewFromMorph(client.VerifNewClient(), balSH)
	if err != nil {
		t.Fatal(err)
	}
	nCli, err := netmapClient.NewFromMorph(client.VerifNewClient(), nmSH)
	if err != nil {
		t.Fatal(err)
	}
	typ := event.TypeFromString("ChangePaymentStatus")
	// newChecker builds the checker exactly as the node does (initPaymentChecker) and returns it
	// together with the node's own ChangePaymentStatus subscriber.
	newChecker := func() (*paymentChecker, event.Handler) {
		c := &cfg{}
		c.log = zap.NewNop()
		c.bCli, c.nCli = bCli, nCli
		c.cfgBalance = cfgBalance{parsers: map[event.Type]event.NotificationParser{}, subscribers: map[event.Type][]event.Handler{}}
		initPaymentChecker(c)
		hs := c.cfgBalance.subscribers[typ]
		if len(hs) != 1 || c.containerPayments == nil {
			t.Fatalf("initPaymentChecker registered %d ChangePaymentStatus subscribers", len(hs))
		}
		return c.containerPayments, hs[0]
	}

	// the real shard; objects of containers A (under test) and B (control)
	fwd := &c47Fwd{}
	objs := []sw.ObjSpec{{Cnr: "A", Label: "a1", Size: 40}, {Cnr: "A", Label: "a2", Size: 9}, {Cnr: "B", Label: "b1", Size: 40}}
	var w *sw.World
	worlds := 0
	openWorld := func() {
		if w != nil {
			_ = w.Close()
		}
		worlds++
		dir := filepath.Join(scratch, fmt.Sprintf("supplier-%d", worlds))
		w, err = sw.Open(sw.Config{Dir: dir, Payments: fwd})
		if err != nil {
			t.Fatal(err)
		}
		for _, sp := range objs {
			if err := w.Sh.Put(sw.NewObject(sp), nil); err != nil {
				t.Fatal(err)
			}
		}
	}
	readable := func(cnr string) bool {
		for _, sp := range objs {
			if sp.Cnr == cnr {
				if _, err := w.Sh.Get(sw.Addr(sp.Cnr, sp.Label), false); err != nil {
					return false
				}
			}
		}
		return true
	}
	// after a discard: let GC finish the removal, store the objects again, verify; else a new world
	restore := func() {
		for i := 0; i < 3; i++ {
			w.GCPass()
		}
		ok := true
		for _, sp := range objs {
			if _, err := w.Sh.Get(sw.Addr(sp.Cnr, sp.Label), false); err != nil {
				if err := w.Sh.Put(sw.NewObject(sp), nil); err != nil {
					ok = false
				}
			}
		}
		if !ok || !readable("A") || !readable("B") {
			openWorld()
		}
	}
	openWorld()
	defer func() { _ = w.Close() }()

	histories, complete := 0, true
	seq := make([]int, 0, depth)
	var only []string
	if s := os.Getenv("C47_SUPPLIER_ONLY"); s != "" { // replay of one history
		if err := json.Unmarshal([]byte(s), &only); err != nil {
			t.Fatal(err)
		}
		for _, n := range only {
			found := false
			for i, o := range c47Ops {
				if o == n {
					seq = append(seq, i)
					found = true
				}
			}
			if !found {
				t.Fatalf("unknown op %q", n)
			}
		}
		depth = len(seq)
	}
	var run func()
	run = func() {
		if !deadline.IsZero() && time.Now().After(deadline) {
			complete = false
			return
		}
		if len(seq) > 0 && (only != nil || c47IsEpochOp(c47Ops[seq[len(seq)-1]])) {
			// execute this history from scratch (histories ending in a non-epoch op are prefixes only)
			*chain = c47Chain{a: "paid", rate: "on"}
			p, onEvent := newChecker()
			fwd.p = p
			epoch := uint64(1)
			w.Epoch.Set(epoch)
			var h c47History
			discarded := false
			for _, oi := range seq {
				op := c47Ops[oi]
				chain.infos = nil
				st := c47Step{Op: op}
				switch op {
				case "chain:fail":
					chain.a = "fail"
				case "chain:paid":
					chain.a = "paid"
				case "chain:unpaid@0":
					chain.a, chain.e = "unpaid", 0
				case "chain:unpaid@now":
					chain.a, chain.e = "unpaid", int64(epoch)
				case "chain:unpaid@now+1":
					chain.a, chain.e = "unpaid", int64(epoch)+1
				case "query": // what the object PUT path does before accepting an object
					_, _ = p.UnpaidSince(cA)
				case "event:unpaid@now":
					onEvent(balanceEvent.ChangePaymentStatus{ContainerID: util.Uint256(cA), Epoch: epoch, Unpaid: true})
					chain.infos = append(chain.infos, c47Info{Kind: "event-unpaid", E: int64(epoch)})
				case "event:paid":
					onEvent(balanceEvent.ChangePaymentStatus{ContainerID: util.Uint256(cA), Epoch: epoch, Unpaid: false})
					chain.infos = append(chain.infos, c47Info{Kind: "event-paid"})
				case "reset": // morph client reconnected
					p.resetCache()
					chain.infos = append(chain.infos, c47Info{Kind: "reset"})
				case "rate:zero":
					chain.rate = "zero"
				case "rate:fail":
					chain.rate = "fail"
				case "rate:on":
					chain.rate = "on"
				case "epoch+1", "epoch+3":
					epoch++
					if op == "epoch+3" {
						epoch += 2
					}
					w.NewEpoch(epoch)
					st.EpochEvent = true
					st.Discarded = !readable("A")
					st.DiscardedB = !readable("B")
				}
				st.Epoch, st.Rate, st.Infos = epoch, chain.rate, chain.infos
				h.Steps = append(h.Steps, st)
				if st.Discarded || st.DiscardedB {
					discarded = true
					break
				}
			}
			histories++
			if err := enc.Encode(&h); err != nil {
				t.Fatal(err)
			}
			if discarded {
				*chain = c47Chain{a: "paid", rate: "on"}
				restore()
			}
		}
		if len(seq) == depth || only != nil {
			return
		}
		for i := range c47Ops {
			seq = append(seq, i)
			run()
			seq = seq[:len(seq)-1]
		}
	}
	run()
	if err := enc.Encode(map[string]any{"Done": true, "Complete": complete, "Histories": histories, "Worlds": worlds}); err != nil {
		t.Fatal(err)
	}
}
