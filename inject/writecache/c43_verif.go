//go:build verif

package writecache

import "github.com/nspcc-dev/neofs-node/pkg/local_object_storage/shard/mode"

// VerifC43Mode returns the write-cache's own mode.
func VerifC43Mode(c Cache) mode.Mode {
	cc, ok := c.(*cache)
	if !ok {
		return 0
	}
	cc.modeMtx.RLock()
	defer cc.modeMtx.RUnlock()
	return cc.mode
}
