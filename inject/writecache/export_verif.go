//go:build verif

package writecache

import (
	"sort"

	oid "github.com/nspcc-dev/neofs-sdk-go/object/id"
)

// VerifCountersSize returns the size the cache reports as used.
func VerifCountersSize(c Cache) uint64 { return c.(*cache).objCounters.Size() }

// VerifCountersMap returns the per-object accounting map.
func VerifCountersMap(c Cache) map[oid.Address]uint64 { return c.(*cache).objCounters.Map() }

// VerifFlushObjs lists addresses currently marked as being processed by the flusher.
func VerifFlushObjs(c Cache) []string {
	var r []string
	c.(*cache).flushObjs.Range(func(k, _ any) bool {
		r = append(r, k.(oid.Address).String())
		return true
	})
	sort.Strings(r)
	return r
}

// VerifFlushMarked reports whether addr is marked as being processed by the flusher; it is not a
// scheduling point (usable in wait conditions).
func VerifFlushMarked(c Cache, addr oid.Address) bool { return c.(*cache).flushObjs.Peek(addr) }
