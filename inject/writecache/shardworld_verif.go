//go:build verif

package writecache

import (
	"sort"

	oid "github.com/nspcc-dev/neofs-sdk-go/object/id"
)

// Exports for worlds/shardworld (identifiers are prefixed VerifSW to stay clear of other checks' files).

// VerifSWCounters returns the in-memory accounting of the cache: total size and the
// (address, size) list sorted by address string. ok=false if c is not the real cache.
func VerifSWCounters(c Cache) (size uint64, objs []string, sizes []uint64, ok bool) {
	cc, ok := c.(*cache)
	if !ok {
		return 0, nil, nil, false
	}
	m := cc.objCounters.Map()
	for a := range m {
		objs = append(objs, a.EncodeToString())
	}
	sort.Strings(objs)
	for _, s := range objs {
		var a oid.Address
		_ = a.DecodeString(s)
		sizes = append(sizes, m[a])
	}
	return cc.objCounters.Size(), objs, sizes, true
}

// VerifSWInFlight returns the number of addresses currently handed to (or queued for) flush workers.
func VerifSWInFlight(c Cache) int {
	cc, ok := c.(*cache)
	if !ok {
		return 0
	}
	n := 0
	cc.flushObjs.Range(func(_, _ any) bool { n++; return true })
	return n
}
