//go:build verif

package replicator

// VerifQuantity returns the number of copies the task asks for.
func (t Task) VerifQuantity() uint32 { return t.quantity }
