//go:build verif

package policer

import (
	"context"
	"io"

	objectcore "github.com/nspcc-dev/neofs-node/pkg/core/object"
	"github.com/nspcc-dev/neofs-node/pkg/services/replicator"
	cid "github.com/nspcc-dev/neofs-sdk-go/container/id"
	neofscrypto "github.com/nspcc-dev/neofs-sdk-go/crypto"
	"github.com/nspcc-dev/neofs-sdk-go/netmap"
	"github.com/nspcc-dev/neofs-sdk-go/object"
	oid "github.com/nspcc-dev/neofs-sdk-go/object/id"
	"go.uber.org/zap"
)

// VerifLocalStorage is the policer's (unexported) local storage interface; all its methods are exported.
type VerifLocalStorage = localStorage

// VerifReplicator is the policer's (unexported) replicator interface.
type VerifReplicator = replicatorIface

// VerifConns implements the unexported apiConnections interface by delegating to exported func fields.
type VerifConns struct {
	Head  func(ctx context.Context, node netmap.NodeInfo, addr oid.Address, checkOID bool, xs []string) (object.Object, error)
	Range func(ctx context.Context, node netmap.NodeInfo, cnr cid.ID, id oid.ID, off, ln uint64, xs []string) (io.ReadCloser, error)
}

func (x *VerifConns) headObject(ctx context.Context, node netmap.NodeInfo, addr oid.Address, checkOID bool, xs []string) (object.Object, error) {
	return x.Head(ctx, node, addr, checkOID, xs)
}

func (x *VerifConns) GetRange(ctx context.Context, node netmap.NodeInfo, cnr cid.ID, id oid.ID, off, ln uint64, xs []string) (io.ReadCloser, error) {
	return x.Range(ctx, node, cnr, id, off, ln, xs)
}

// VerifNewPolicer builds a Policer through the regular constructor and plugs the three
// dependencies that have no exported option accepting an interface.
func VerifNewPolicer(signer neofscrypto.Signer, net Network, ls VerifLocalStorage, conns *VerifConns, repl VerifReplicator, opts ...Option) *Policer {
	opts = append([]Option{WithLogger(zap.NewNop()), WithNetwork(net)}, opts...)
	p := New(signer, opts...)
	p.localStorage = ls
	p.apiConns = conns
	p.replicator = repl
	return p
}

// VerifProcessObject runs one real policy check of one locally stored object (what shardPolicyWorker
// does for every listed address).
func (p *Policer) VerifProcessObject(ctx context.Context, a objectcore.AddressWithAttributes) {
	p.processObject(ctx, a)
}

var _ = replicator.Task{}
