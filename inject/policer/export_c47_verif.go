//go:build verif

package policer

import (
	"context"

	objectcore "github.com/nspcc-dev/neofs-node/pkg/core/object"
)

// VerifC47ProcessObject runs the real per-object policy check (what the policer's worker loop does
// for every address listed from the local storage).
func (p *Policer) VerifC47ProcessObject(ctx context.Context, a objectcore.AddressWithAttributes) {
	p.processObject(ctx, a)
}
