//go:build verif

package governance

import "github.com/nspcc-dev/neo-go/pkg/crypto/keys"

func VerifNewAlphabetList(fsChain, mainnet keys.PublicKeys) (keys.PublicKeys, error) {
	return newAlphabetList(fsChain, mainnet)
}

func VerifUpdateInnerRing(innerRing, before, after keys.PublicKeys) (keys.PublicKeys, error) {
	return updateInnerRing(innerRing, before, after)
}
