//go:build verif

package fstree

// VerifUseGenericWriter makes t write through the portable writer, i.e. the state Init leaves
// behind when the O_TMPFILE probe of the linux writer fails.
func (t *FSTree) VerifUseGenericWriter() {
	t.writer = newGenericWriter(t.Permissions, t.noSync)
}
