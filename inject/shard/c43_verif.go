//go:build verif

package shard

import (
	"github.com/nspcc-dev/neofs-node/pkg/local_object_storage/shard/mode"
	"github.com/nspcc-dev/neofs-node/pkg/local_object_storage/writecache"
)

// VerifC43ComponentModes returns the modes the metabase and the write-cache are actually in
// (metaOpen=false: the bolt handle is closed). Used only to identify states, never as an oracle.
func (s *Shard) VerifC43ComponentModes() (metaMode mode.Mode, metaOpen bool, wcMode mode.Mode) {
	metaMode, metaOpen = s.metaBase.VerifC43Mode()
	if s.writeCache != nil {
		wcMode = writecache.VerifC43Mode(s.writeCache)
	}
	return
}
