//go:build verif

package shard

// VerifEWGCPass runs one garbage remover pass synchronously (exactly what gc.tickRemover runs on
// every timer tick: expired collection + physical removal of garbage-marked objects).
func (s *Shard) VerifEWGCPass() { s.gc.remover() }
