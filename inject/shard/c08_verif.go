//go:build verif

package shard

import meta "github.com/nspcc-dev/neofs-node/pkg/local_object_storage/metabase"

// Synchronous entry points to the shard's background GC jobs for the C08 check. Nothing is
// re-implemented: these call exactly what gc.listenEvents / gc.tickRemover call.

// VerifC08NewEpoch runs the new-epoch event handler in the caller's goroutine.
func (s *Shard) VerifC08NewEpoch(epoch uint64) { s.setEpochEventHandler(newEpoch{epoch: epoch}) }

// VerifC08GCPass runs one remover pass (expired collection incl. the engine's expired-objects
// callback, then garbage removal), as every timer tick does.
func (s *Shard) VerifC08GCPass() { s.gc.remover() }

// VerifC08GCEpochs returns the GC's volatile epoch variables (state identity only).
func (s *Shard) VerifC08GCEpochs() (current, processed uint64) {
	return s.gc.currentEpoch.Load(), s.gc.processedEpoch.Load()
}

// VerifC08Meta returns the shard's metabase (read-only use: ObjectStatus for state identity and
// for naming the mechanism of a failure).
func (s *Shard) VerifC08Meta() *meta.DB { return s.metaBase }
