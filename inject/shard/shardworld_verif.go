//go:build verif

package shard

import (
	"github.com/nspcc-dev/neofs-node/pkg/local_object_storage/writecache"
)

// Synchronous access to the shard's background jobs for the verification harness
// (worlds/shardworld). The bodies only call the unexported functions the background
// goroutines call; nothing is re-implemented here.

// VerifSWHandleNewEpoch runs the new-epoch event handler (what gc.listenEvents runs for an
// EventNewEpoch) synchronously in the caller's goroutine.
func (s *Shard) VerifSWHandleNewEpoch(epoch uint64) {
	s.setEpochEventHandler(newEpoch{epoch: epoch})
}

// VerifSWGCPass runs one garbage remover pass (what gc.tickRemover runs on every timer tick).
func (s *Shard) VerifSWGCPass() { s.gc.remover() }

// VerifSWGCEpochs returns the GC's volatile epoch variables.
func (s *Shard) VerifSWGCEpochs() (current, processed uint64) {
	return s.gc.currentEpoch.Load(), s.gc.processedEpoch.Load()
}

// VerifSWWriteCache returns the shard's write-cache (nil if disabled).
func (s *Shard) VerifSWWriteCache() writecache.Cache { return s.writeCache }

// VerifSWMetabaseReset wipes the metabase (meta.DB.Reset: drops every bucket, re-creates the static ones).
func (s *Shard) VerifSWMetabaseReset() error { return s.metaBase.Reset() }
