//go:build verif

package shard

import meta "github.com/nspcc-dev/neofs-node/pkg/local_object_storage/metabase"

// Synchronous entry points to the shard's background GC jobs for the C44 check. Nothing is
// re-implemented: these call exactly what gc.listenEvents / gc.tickRemover call.

// VerifC44NewEpoch runs the new-epoch event handler in the caller's goroutine.
func (s *Shard) VerifC44NewEpoch(epoch uint64) { s.setEpochEventHandler(newEpoch{epoch: epoch}) }

// VerifC44GCPass runs one remover pass (expired collection + garbage removal), as every timer tick does.
func (s *Shard) VerifC44GCPass() { s.gc.remover() }

// VerifC44Meta returns the shard's metabase.
func (s *Shard) VerifC44Meta() *meta.DB { return s.metaBase }
