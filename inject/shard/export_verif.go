//go:build verif

package shard

import (
	"github.com/nspcc-dev/neofs-node/pkg/local_object_storage/writecache"
)

// Synchronous access to the shard's background jobs for the verification harness
// (worlds/shardworld). The bodies only call the unexported functions the background
// goroutines call; nothing is re-implemented here.

// VerifHandleNewEpoch runs the new-epoch event handler (what gc.listenEvents runs for an
// EventNewEpoch) synchronously in the caller's goroutine.
func (s *Shard) VerifHandleNewEpoch(epoch uint64) {
	s.setEpochEventHandler(newEpoch{epoch: epoch})
}

// VerifGCPass runs one garbage remover pass (what gc.tickRemover runs on every timer tick).
func (s *Shard) VerifGCPass() { s.gc.remover() }

// VerifGCEpochs returns the GC's volatile epoch variables.
func (s *Shard) VerifGCEpochs() (current, processed uint64) {
	return s.gc.currentEpoch.Load(), s.gc.processedEpoch.Load()
}

// VerifWriteCache returns the shard's write-cache (nil if disabled).
func (s *Shard) VerifWriteCache() writecache.Cache { return s.writeCache }
