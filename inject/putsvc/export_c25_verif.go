//go:build verif

package putsvc

import (
	"bytes"
	"context"

	iec "github.com/nspcc-dev/neofs-node/internal/ec"
	objectcore "github.com/nspcc-dev/neofs-node/pkg/core/object"
	svcutil "github.com/nspcc-dev/neofs-node/pkg/services/object/util"
	neofscrypto "github.com/nspcc-dev/neofs-sdk-go/crypto"
	"github.com/nspcc-dev/neofs-sdk-go/netmap"
	"github.com/nspcc-dev/neofs-sdk-go/object"
	oid "github.com/nspcc-dev/neofs-sdk-go/object/id"
	"go.uber.org/zap"
)

// VerifTargetPrm carries what Streamer.newDistrubutedWriter takes from the service config and the
// prepared PUT parameters.
type VerifTargetPrm struct {
	Ctx                  context.Context
	Net                  NeoFSNetwork
	ContainerNodes       ContainerNodes
	LocalStorage         ObjectStorage
	Clients              ClientConstructor
	Transport            Transport
	KeyStorage           *svcutil.KeyStorage
	LocalNodeInContainer bool
	LocalNodeSigner      neofscrypto.Signer
	SessionSigner        neofscrypto.Signer // nil: object sealed by the client (untrusted PUT)
	ECPart               iec.PartInfo
	ECRules              []iec.Rule
	Initial              *netmap.InitialPlacementPolicy
	PostPlacement        PostPlacementReplicator
	Fmt                  *objectcore.FormatValidator // content validator (TOMBSTONE/LINK on a container node); nil is fine for REGULAR/LOCK
}

// VerifTarget is a distributedTarget assembled field by field like Streamer.newDistrubutedWriter does
// (meta-on-chain collection disabled: no __NEOFS__METAINFO_CONSISTENCY attribute).
type VerifTarget struct{ t *distributedTarget }

func VerifNewDistributedTarget(p VerifTargetPrm) *VerifTarget {
	return &VerifTarget{t: &distributedTarget{
		opCtx: p.Ctx,
		placementIterator: placementIterator{
			log:      zap.NewNop(),
			neoFSNet: p.Net,
		},
		localStorage:            p.LocalStorage,
		keyStorage:              p.KeyStorage,
		commonPrm:               new(svcutil.CommonPrm),
		clientConstructor:       p.Clients,
		transport:               p.Transport,
		containerNodes:          p.ContainerNodes,
		ecPart:                  p.ECPart,
		ecRules:                 p.ECRules,
		ecSplitOnlyObject:       p.ECPart.RuleIndex < 0 && len(p.ContainerNodes.PrimaryCounts()) == 0,
		localNodeInContainer:    p.LocalNodeInContainer,
		localNodeSigner:         p.LocalNodeSigner,
		sessionSigner:           p.SessionSigner,
		initialPolicy:           p.Initial,
		postPlacementReplicator: p.PostPlacement,
		fmt:                     p.Fmt,
	}}
}

// Put feeds one ready object exactly as slicingTarget/readyObjectWriter do for every object the
// slicer produces: split-chain modifier (node-side EC encoding, installed by initTarget iff EC rules
// apply and the request is not an EC part) -> WriteHeader -> Write -> Close.
func (x *VerifTarget) Put(hdr object.Object, payload []byte) (oid.ID, error) {
	if x.t.sessionSigner != nil && len(x.t.ecRules) > 0 && x.t.ecPart.RuleIndex < 0 {
		if err := x.t.modifyECParentObject(&hdr, bytes.NewReader(payload)); err != nil {
			return oid.ID{}, err
		}
	}
	if err := x.t.WriteHeader(&hdr); err != nil {
		return oid.ID{}, err
	}
	if _, err := x.t.Write(payload); err != nil {
		return oid.ID{}, err
	}
	return x.t.Close()
}
