//go:build verif

package putsvc

import (
	"io"
	"sync"

	iec "github.com/nspcc-dev/neofs-node/internal/ec"
	"github.com/nspcc-dev/neofs-sdk-go/object"
)

// VerifSetPayloadPool replaces the package payload pool by an empty one whose New hands out next()
// (deterministic replacement for whatever sync.Pool would return). Not safe for concurrent use.
func VerifSetPayloadPool(next func() []byte) {
	putBytesPool = &sync.Pool{New: func() any { return next() }}
}

// VerifEncodeECParent runs the real modifyECParentObject on a fresh distributedTarget with the given
// EC rules and returns what it left in the target: the kept payload and the encoded parts per rule.
func VerifEncodeECParent(rules []iec.Rule, hdr *object.Object, r io.Reader) (payload []byte, parts [][][]byte, err error) {
	t := &distributedTarget{ecRules: rules}
	err = t.modifyECParentObject(hdr, r)
	return t.objectPayload, t.encodedECParts, err
}
