//go:build verif

package meta

// VerifC18ResyncBatchSize is the number of objects ResyncFromBlobstor puts per transaction.
const VerifC18ResyncBatchSize = resyncBatchSize
