//go:build verif

package meta

import "github.com/nspcc-dev/bbolt"

// VerifDump feeds every (bucket, key, value) triple of the underlying bbolt file to f in bbolt's
// own (sorted) order. It is the raw logical dump used for state hashing and for the independent
// recount of the C01/C02 checks. Read-only.
func (db *DB) VerifDump(f func(bucket, k, v []byte)) error {
	return db.boltDB.View(func(tx *bbolt.Tx) error {
		return tx.ForEach(func(name []byte, b *bbolt.Bucket) error {
			return b.ForEach(func(k, v []byte) error {
				f(name, k, v)
				return nil
			})
		})
	})
}
