//go:build verif

package meta

import "github.com/nspcc-dev/bbolt"

// VerifC44Dump calls f for every key/value of every top-level bucket (read-only transaction).
func (db *DB) VerifC44Dump(f func(bucket, k, v []byte)) error {
	return db.boltDB.View(func(tx *bbolt.Tx) error {
		return tx.ForEach(func(name []byte, b *bbolt.Bucket) error {
			f(name, nil, nil)
			return b.ForEach(func(k, v []byte) error { f(name, k, v); return nil })
		})
	})
}
