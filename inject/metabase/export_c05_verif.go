//go:build verif

package meta

import "github.com/nspcc-dev/neofs-node/internal/signed256"

// VerifC05ParseInt exposes the reader deciding whether a stored attribute value is indexed as an integer.
func VerifC05ParseInt(s string) (signed256.Int, bool) { return parseInt(s) }
