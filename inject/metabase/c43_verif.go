//go:build verif

package meta

import "github.com/nspcc-dev/neofs-node/pkg/local_object_storage/shard/mode"

// VerifC43Mode returns the metabase's own mode and whether its bolt handle is usable.
func (db *DB) VerifC43Mode() (mode.Mode, bool) {
	db.modeMtx.RLock()
	defer db.modeMtx.RUnlock()
	open := false
	if db.boltDB != nil {
		// a closed bbolt handle refuses to begin a transaction
		if tx, err := db.boltDB.Begin(false); err == nil {
			_ = tx.Rollback()
			open = true
		}
	}
	return db.mode, open
}
