//go:build verif

package objectcore

import "github.com/nspcc-dev/neofs-node/internal/signed256"

// thin wrappers for the C05 check (decimal-integer readers of the search code).

func VerifC05SplitIntString(s string) (bool, string, error) { return splitIntString(s) }

func VerifC05CompareIntStrings(a, b string) (int, error) { return compareIntStrings(a, b) }

func VerifC05ParseNumericFilterValue(f SearchFilter) (signed256.Int, error) {
	return parseNumericFilterValue(f)
}
