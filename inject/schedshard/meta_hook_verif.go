//go:build verif

package meta

import "github.com/nspcc-dev/bbolt"

// VerifHook intercepts every exported *DB method at entry (ovgen hookfn): the scheduler-driven
// shard world uses it to make each metabase call a scheduling point and a crash-image point.
var VerifHook func(db *DB, name string, args []any) ([]any, bool)

// VerifSSTxID returns the id of the last committed bbolt write transaction (the on-disk metabase
// content changes exactly when it grows): a cheap, exact change detector for crash-image capture.
func (db *DB) VerifSSTxID() (id int) {
	_ = db.boltDB.View(func(tx *bbolt.Tx) error { id = tx.ID(); return nil })
	return id
}
