//go:build verif

package meta

// VerifHook intercepts every exported *DB method at entry (ovgen hookfn): the scheduler-driven
// shard world uses it to make each metabase call a scheduling point and a crash-image point.
var VerifHook func(db *DB, name string, args []any) ([]any, bool)
