//go:build verif

package fstree

// VerifHook intercepts the FSTree data methods at entry (ovgen hookfn): the scheduler-driven shard
// world uses it to make every write-cache file operation a scheduling point and a crash-image
// point (the blobstor tree is additionally wrapped by the world itself).
var VerifHook func(t *FSTree, name string, args []any) ([]any, bool)
