//go:build verif

package shard

import (
	meta "github.com/nspcc-dev/neofs-node/pkg/local_object_storage/metabase"
	"github.com/nspcc-dev/neofs-node/pkg/local_object_storage/writecache"
)

// Accessors for the scheduler-driven shard world (worlds/schedshard).

func (s *Shard) VerifSSMetabase() *meta.DB             { return s.metaBase }
func (s *Shard) VerifSSWriteCache() writecache.Cache   { return s.writeCache }
func (s *Shard) VerifSSGCPass()                        { s.gc.remover() }
func (s *Shard) VerifSSNewEpoch(e uint64)              { s.setEpochEventHandler(newEpoch{epoch: e}) }
