//go:build verif

package client

// VerifFnHook, when set, intercepts the hooked plain functions of this package (client.New) at entry.
var VerifFnHook func(name string, args []any) ([]any, bool)
