//go:build verif

package neofs

import "github.com/panjf2000/ants/v2"

// VerifHook intercepts (*Processor).ListenerNotificationHandlers at entry; the harness only uses it to
// learn the processor instances that innerring.New creates (it never short-circuits the call).
var VerifHook func(p *Processor, name string, args []any) ([]any, bool)

// VerifPool returns the processor's worker pool (the harness waits on it with a sentinel task).
func (p *Processor) VerifPool() *ants.Pool { return p.pool }
