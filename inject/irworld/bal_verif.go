//go:build verif

package balance

import "github.com/nspcc-dev/neofs-node/pkg/morph/client"

// VerifHook intercepts the typed read methods of *Client at entry (see tools/ovgen hookfn).
var VerifHook func(c *Client, name string, args []any) ([]any, bool)

// VerifMorph returns the raw client below the typed one.
func (c *Client) VerifMorph() *client.Client { return c.client.Morph() }
