//go:build verif

package event

import (
	"sort"

	"github.com/nspcc-dev/neo-go/pkg/core/block"
	"github.com/nspcc-dev/neo-go/pkg/core/state"
	"github.com/nspcc-dev/neo-go/pkg/neorpc/result"
	"github.com/nspcc-dev/neo-go/pkg/util"
)

// VerifKey names one registration of a listener.
type VerifKey struct {
	Contract util.Uint160
	Type     string
	Handlers int
}

// VerifHandleNotification runs the listener's real notification path synchronously.
func VerifHandleNotification(l Listener, e *state.ContainedNotificationEvent) {
	l.(*listener).parseAndHandleNotification(e)
}

// VerifHandleNotary runs the listener's real notary request path synchronously.
func VerifHandleNotary(l Listener, e *result.NotaryRequestEvent) {
	l.(*listener).parseAndHandleNotary(e)
}

// VerifHandleHeader calls the registered header handlers like listenForHeaders does.
func VerifHandleHeader(l Listener, h *block.Header) {
	for _, f := range l.(*listener).headerHandlers {
		f(h)
	}
}

// VerifNotificationKeys lists registered notification parsers with the number of handlers.
func VerifNotificationKeys(l Listener) []VerifKey {
	ll := l.(*listener)
	var r []VerifKey
	for k := range ll.notificationParsers {
		r = append(r, VerifKey{k.ScriptHash(), k.GetType().String(), len(ll.notificationHandlers[k])})
	}
	sort.Slice(r, func(i, j int) bool {
		if r[i].Contract != r[j].Contract {
			return r[i].Contract.Less(r[j].Contract)
		}
		return r[i].Type < r[j].Type
	})
	return r
}

// VerifNotaryKeys lists registered notary parsers with the number of handlers (0 or 1).
func VerifNotaryKeys(l Listener) []VerifKey {
	ll := l.(*listener)
	var r []VerifKey
	for k := range ll.notaryParsers {
		n := 0
		if _, ok := ll.notaryHandlers[k]; ok {
			n = 1
		}
		r = append(r, VerifKey{k.ScriptHash(), k.RequestType().String(), n})
	}
	sort.Slice(r, func(i, j int) bool {
		if r[i].Contract != r[j].Contract {
			return r[i].Contract.Less(r[j].Contract)
		}
		return r[i].Type < r[j].Type
	})
	return r
}
