//go:build verif

package external

// VerifHook replaces the HTTP call of the external validator (the validation service is the environment).
var VerifHook func(v *Validator, name string, args []any) ([]any, bool)
