//go:build verif

package netmap

// VerifHook intercepts the typed read methods of *Client at entry (see tools/ovgen hookfn).
var VerifHook func(c *Client, name string, args []any) ([]any, bool)
