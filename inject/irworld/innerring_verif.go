//go:build verif

package innerring

import (
	"context"

	"github.com/nspcc-dev/neo-go/pkg/crypto/keys"
	"github.com/nspcc-dev/neo-go/pkg/util"
	"github.com/nspcc-dev/neofs-node/pkg/morph/event"
)

// VerifFSListener returns the FS chain event listener of the server.
func (s *Server) VerifFSListener() event.Listener { return s.fsChainListener }

// VerifMainListener returns the main chain event listener of the server.
func (s *Server) VerifMainListener() event.Listener { return s.mainnetListener }

// VerifVote calls the unexported vote routine exactly like Start and the governance processor do.
func (s *Server) VerifVote(validators keys.PublicKeys, trigger *util.Uint256) error {
	return s.voteForFSChainValidator(context.Background(), validators, trigger)
}

// VerifRestartFSChain runs the RPC-reconnection callback body.
func (s *Server) VerifRestartFSChain() error { return s.restartFSChain() }

// VerifTimers renders the epoch timers state.
func (s *Server) VerifTimers() string { return s.epochTimers.VerifDump() }

var verifNNSHook func(x *neoFSNNS, name string, args []any) ([]any, bool)

// VerifSetNNSCheck answers neoFSNNS.CheckDomainRecord (an NNS contract read) from the harness.
func VerifSetNNSCheck(f func(domain, record string) error) {
	verifNNSHook = func(_ *neoFSNNS, _ string, a []any) ([]any, bool) {
		return []any{f(a[0].(string), a[1].(string))}, true
	}
}

// VerifExpireIndexerCache makes the next membership query refresh the lists, exactly like the cache
// timeout elapsing or restartFSChain do (innerRingIndexer.reset).
func (s *Server) VerifExpireIndexerCache() { s.statusIndex.reset() }
