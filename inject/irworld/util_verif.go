//go:build verif

package util

// VerifFnHook intercepts SingleAsyncExecutingInstance (the harness makes it synchronous).
var VerifFnHook func(name string, args []any) ([]any, bool)
