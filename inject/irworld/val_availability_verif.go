//go:build verif

package availability

// VerifHook replaces the network dial of the availability validator (the storage node is the environment).
var VerifHook func(v *Validator, name string, args []any) ([]any, bool)
