//go:build verif

package container

// VerifHook intercepts the typed read methods of *Client at entry (see tools/ovgen hookfn).
var VerifHook func(c *Client, name string, args []any) ([]any, bool)

// VerifContainerToStackItem exposes the conversion the real client uses for createV2 arguments.
var VerifContainerToStackItem = containerToStackItem
