//go:build verif

package timers

import (
	"fmt"
	"reflect"
	"strings"
)

// VerifDump renders the complete internal state (used as the explicit-state search key). It walks
// the structures by reflection (every integer and boolean field of EpochTimers and of its delta
// handlers, in declaration order), so that it does not depend on field names.
func (et *EpochTimers) VerifDump() string {
	et.m.Lock()
	defer et.m.Unlock()
	var b strings.Builder
	// legacy prefix "e:<next tick>/<done>" (parsed by C38): the last top-level unsigned field and
	// the first top-level boolean of the epoch timer
	v := reflect.ValueOf(et).Elem()
	var next uint64
	var done, haveDone bool
	for i := 0; i < v.NumField(); i++ {
		switch f := v.Field(i); f.Kind() {
		case reflect.Uint64:
			next = f.Uint()
		case reflect.Bool:
			if !haveDone {
				done, haveDone = f.Bool(), true
			}
		}
	}
	fmt.Fprintf(&b, "e:%d/%t ", next, done)
	verifDump(&b, v, 0)
	return b.String()
}

func verifDump(b *strings.Builder, v reflect.Value, depth int) {
	if depth > 4 {
		return
	}
	switch v.Kind() {
	case reflect.Bool:
		fmt.Fprintf(b, "%v ", v.Bool())
	case reflect.Int, reflect.Int8, reflect.Int16, reflect.Int32, reflect.Int64:
		fmt.Fprintf(b, "%d ", v.Int())
	case reflect.Uint, reflect.Uint8, reflect.Uint16, reflect.Uint32, reflect.Uint64:
		fmt.Fprintf(b, "%d ", v.Uint())
	case reflect.Pointer:
		if !v.IsNil() {
			verifDump(b, v.Elem(), depth+1)
		}
	case reflect.Slice, reflect.Array:
		b.WriteString("[")
		for i := 0; i < v.Len(); i++ {
			verifDump(b, v.Index(i), depth+1)
			b.WriteString("; ")
		}
		b.WriteString("]")
	case reflect.Struct:
		if strings.HasPrefix(v.Type().PkgPath(), "sync") {
			return // locks are not state
		}
		b.WriteString("{")
		for i := 0; i < v.NumField(); i++ {
			verifDump(b, v.Field(i), depth+1)
		}
		b.WriteString("}")
	}
}
