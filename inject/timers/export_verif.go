//go:build verif

package timers

import "fmt"

// VerifDump renders the complete internal state (used as the explicit-state search key).
func (et *EpochTimers) VerifDump() string {
	et.m.Lock()
	defer et.m.Unlock()
	s := fmt.Sprintf("e:%d/%v", et.nextTickAt, et.done)
	for _, dh := range et.deltaHandlers {
		s += fmt.Sprintf(" d:%d/%v", dh.nextTickAt, dh.done)
	}
	return s
}
