#!/bin/bash
# Build the framework offline from files on disk. Warms the Go build cache for every check.
set -u
cd "$(dirname "${BASH_SOURCE[0]}")"
export GOFLAGS=-mod=mod GOPROXY=off
cp /repo/go.sum ./go.sum
mkdir -p .build/bin evidence replays
go build -o .build/bin/ovgen ./tools/ovgen || exit 1
rc=0
ready=" $(cat ready.txt 2>/dev/null | tr 'A-Z\n' 'a-z ') "
build_one() {
  id="$1"
  ./.build/bin/ovgen -spec "props/$id/overlay.spec" -out ".build/$id" -repo /repo -root "$PWD" || return 1
  go build -tags verif -overlay ".build/$id/overlay.json" -o ".build/bin/$id" "./props/$id" 2> ".build/$id/build.log" || return 1
}
for d in props/*/; do
  id=$(basename "$d")
  [ -f "$d/main.go" ] || continue
  case "$ready" in *" $id "*) ;; *) continue;; esac   # only claimed checks are built here
  mkdir -p ".build/$id"
  if ! build_one "$id"; then
    echo "setup: building $id failed"; cat ".build/$id/build.log" 2>/dev/null | head -20
    rc=1
  fi
done
exit $rc
