#!/bin/bash
# Build the framework offline from files on disk. Warms the Go build cache for every check.
set -u
cd "$(dirname "${BASH_SOURCE[0]}")"
export GOFLAGS=-mod=mod GOPROXY=off
cp /repo/go.sum ./go.sum
mkdir -p .build/bin evidence replays
go build -o .build/bin/ovgen ./tools/ovgen || exit 1
rc=0
for d in props/*/; do
  id=$(basename "$d")
  [ -f "$d/main.go" ] || continue
  ./.build/bin/ovgen -spec "$d/overlay.spec" -out ".build/$id" -repo /repo -root "$PWD" || { rc=1; continue; }
  go build -tags verif -overlay ".build/$id/overlay.json" -o ".build/bin/$id" "./props/$id" || rc=1
done
exit $rc
