module github.com/nspcc-dev/neofs-node/verif

go 1.25.0

require github.com/nspcc-dev/neofs-node v0.0.0

require (
	github.com/decred/dcrd/crypto/ripemd160 v1.0.2 // indirect
	github.com/decred/dcrd/dcrec/secp256k1/v4 v4.4.1 // indirect
	github.com/google/uuid v1.6.0 // indirect
	github.com/hashicorp/golang-lru/v2 v2.0.7 // indirect
	github.com/klauspost/cpuid/v2 v2.3.0 // indirect
	github.com/klauspost/reedsolomon v1.13.2 // indirect
	github.com/mr-tron/base58 v1.2.0 // indirect
	github.com/mxschmitt/golang-combinations v1.2.0 // indirect
	github.com/nspcc-dev/neo-go v0.122.1-0.20260807115931-cfee8827ddfd // indirect
	github.com/nspcc-dev/neofs-sdk-go v1.0.0-rc.21.0.20260807155929-203994967075 // indirect
	github.com/nspcc-dev/rfc6979 v0.2.4 // indirect
	golang.org/x/net v0.55.0 // indirect
	golang.org/x/sys v0.45.0 // indirect
	golang.org/x/text v0.37.0 // indirect
	google.golang.org/genproto/googleapis/rpc v0.0.0-20260414002931-afd174a4e478 // indirect
	google.golang.org/grpc v1.82.1 // indirect
	google.golang.org/protobuf v1.36.11 // indirect
	gopkg.in/yaml.v3 v3.0.1 // indirect
)

replace github.com/nspcc-dev/neofs-node => /repo
