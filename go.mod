module github.com/nspcc-dev/neofs-node/verif

go 1.25.0

require (
	github.com/google/uuid v1.6.0
	github.com/hashicorp/golang-lru/v2 v2.0.7
	github.com/klauspost/compress v1.18.4
	github.com/mr-tron/base58 v1.2.0
	github.com/nspcc-dev/bbolt v0.0.0-20260404200350-24f70ceb2bd9
	github.com/nspcc-dev/locode-db v0.8.2
	github.com/nspcc-dev/neo-go v0.122.1-0.20260807115931-cfee8827ddfd
	github.com/nspcc-dev/neofs-contract v0.26.1
	github.com/nspcc-dev/neofs-node v0.0.0
	github.com/nspcc-dev/neofs-sdk-go v1.0.0-rc.21.0.20260807155929-203994967075
	github.com/nspcc-dev/rfc6979 v0.2.4
	github.com/panjf2000/ants/v2 v2.11.5
	go.uber.org/zap v1.27.1
	golang.org/x/sys v0.45.0
	google.golang.org/grpc v1.82.1
	google.golang.org/protobuf v1.36.11
)

require (
	github.com/antlr4-go/antlr/v4 v4.13.1 // indirect
	github.com/beorn7/perks v1.0.1 // indirect
	github.com/bits-and-blooms/bitset v1.24.0 // indirect
	github.com/cenkalti/backoff/v4 v4.3.0 // indirect
	github.com/cespare/xxhash/v2 v2.3.0 // indirect
	github.com/consensys/gnark-crypto v0.19.2 // indirect
	github.com/decred/dcrd/crypto/ripemd160 v1.0.2 // indirect
	github.com/decred/dcrd/dcrec/secp256k1/v4 v4.4.1 // indirect
	github.com/golang/snappy v0.0.4 // indirect
	github.com/gorilla/websocket v1.5.3 // indirect
	github.com/holiman/uint256 v1.3.2 // indirect
	github.com/ipfs/go-cid v0.4.1 // indirect
	github.com/klauspost/cpuid/v2 v2.3.0 // indirect
	github.com/klauspost/reedsolomon v1.13.2 // indirect
	github.com/multiformats/go-base32 v0.1.0 // indirect
	github.com/multiformats/go-base36 v0.2.0 // indirect
	github.com/multiformats/go-multiaddr v0.16.1 // indirect
	github.com/multiformats/go-multibase v0.2.0 // indirect
	github.com/multiformats/go-multihash v0.2.3 // indirect
	github.com/multiformats/go-varint v0.0.7 // indirect
	github.com/munnerz/goautoneg v0.0.0-20191010083416-a7dc8b61c822 // indirect
	github.com/mxschmitt/golang-combinations v1.2.0 // indirect
	github.com/nspcc-dev/dbft v0.4.0 // indirect
	github.com/nspcc-dev/go-ordered-json v0.0.0-20260302080601-ff7471f924b3 // indirect
	github.com/nspcc-dev/hrw/v2 v2.0.4 // indirect
	github.com/nspcc-dev/neo-go/pkg/interop v0.0.0-20260609115526-14bc7067ea2e // indirect
	github.com/nspcc-dev/neofs-api-go/v2 v2.14.1-0.20240827150555-5ce597aa14ea // indirect
	github.com/nspcc-dev/tzhash v1.8.4 // indirect
	github.com/pierrec/lz4 v2.6.1+incompatible // indirect
	github.com/prometheus/client_golang v1.23.2 // indirect
	github.com/prometheus/client_model v0.6.2 // indirect
	github.com/prometheus/common v0.66.1 // indirect
	github.com/prometheus/procfs v0.16.1 // indirect
	github.com/spaolacci/murmur3 v1.1.0 // indirect
	github.com/syndtr/goleveldb v1.0.1-0.20210305035536-64b5b1c73954 // indirect
	github.com/twmb/murmur3 v1.1.8 // indirect
	go.uber.org/multierr v1.11.0 // indirect
	go.yaml.in/yaml/v2 v2.4.2 // indirect
	golang.org/x/crypto v0.52.0 // indirect
	golang.org/x/exp v0.0.0-20250911091902-df9299821621 // indirect
	golang.org/x/net v0.55.0 // indirect
	golang.org/x/sync v0.20.0 // indirect
	golang.org/x/text v0.37.0 // indirect
	google.golang.org/genproto/googleapis/rpc v0.0.0-20260414002931-afd174a4e478 // indirect
	gopkg.in/yaml.v3 v3.0.1 // indirect
	lukechampine.com/blake3 v1.2.1 // indirect
)

replace github.com/nspcc-dev/neofs-node => /repo
