#!/usr/bin/env python3
"""Regenerate the per-property status table of DESIGN.md (section I.5) from check.json, evidence and known_findings."""
import json, glob, os, re
root = os.path.dirname(os.path.dirname(os.path.abspath(__file__)))
kf = json.load(open(os.path.join(root, "known_findings.json")))["findings"]
def num(v):
    return f"{v:,}" if isinstance(v, int) else (str(len(v)) if isinstance(v, list) else str(v))
rows = ["| prop | engine | level | quick evaluations | states (quick) | own mutants | fix commits | known-finding fingerprints |", "|---|---|---|---|---|---|---|---|"]
for i in range(1, 48):
    pid = f"C{i:02d}"
    cj = json.load(open(os.path.join(root, "props", pid.lower(), "check.json")))
    ev = {}
    try:
        ev = json.load(open(os.path.join(root, "evidence", pid + ".json")))
    except Exception:
        pass
    cov = ev.get("coverage", {})
    muts = len(glob.glob(os.path.join(root, "props", pid.lower(), "mutants", "*.spec")))
    fixed = sorted({f.get("commit", "") for f in kf if f["property"] == pid and f["status"] == "fixed" and f.get("commit")})
    known = sum(1 for f in kf if f["property"] == pid and f["status"] == "known")
    rows.append(f"| {pid} | {cj.get('engine','')} | {cj['level_claimed']['category']} | {num(cov.get('evaluations',0))} | {num(cov.get('states',0))} | {muts} | {', '.join(fixed) or '-'} | {known or '-'} |")
table = "\n".join(rows)
p = os.path.join(root, "DESIGN.md")
s = open(p).read()
a = s.index("| prop | engine | level |")
b = s.index('"own mutants" are the self-test')
s = s[:a] + table + "\n\n" + s[b:]
open(p, "w").write(s)
print(table[:600])
