package main

// Channel-operation rewriter (syntactic subset). Everything outside the subset panics with a
// clear message rather than being mis-translated.
//
//	chan T            -> *vchan.Chan[T]
//	make(chan T, n)   -> vchan.Make[T](n)
//	close(c)          -> vchan.Close(c)
//	len(c)            -> vchan.Len(c)      (only for expressions listed with len=...)
//	c <- v            -> c.Send(v)
//	<-c               -> c.Recv()
//	v, ok = <-c       -> v, ok = c.Recv2()
//	select {...}      -> switch vchan.Select(OnRecv/OnRecvInto/OnSend/Default...) { case i: ... }

import (
	"bytes"
	"fmt"
	"go/ast"
	"go/format"
	"go/token"
	"reflect"
)

var exprT = reflect.TypeOf((*ast.Expr)(nil)).Elem()
var stmtT = reflect.TypeOf((*ast.Stmt)(nil)).Elem()

func rewriteTree(n ast.Node, fe func(ast.Expr) ast.Expr, fs func(ast.Stmt) ast.Stmt) {
	var visit func(v reflect.Value)
	visit = func(v reflect.Value) {
		switch v.Kind() {
		case reflect.Ptr, reflect.Interface:
			if v.IsNil() {
				return
			}
			visit(v.Elem())
		case reflect.Struct:
			for i := 0; i < v.NumField(); i++ {
				f := v.Field(i)
				if !f.CanSet() {
					continue
				}
				if f.Type().Name() == "Object" || (f.Kind() == reflect.Ptr && (f.Type().Elem().Name() == "Object" || f.Type().Elem().Name() == "Scope")) {
					continue
				}
				visit(f)
				if f.Type() == exprT && !f.IsNil() {
					f.Set(reflect.ValueOf(fe(f.Interface().(ast.Expr))))
				} else if f.Type() == stmtT && !f.IsNil() {
					f.Set(reflect.ValueOf(fs(f.Interface().(ast.Stmt))))
				}
			}
		case reflect.Slice:
			for i := 0; i < v.Len(); i++ {
				e := v.Index(i)
				visit(e)
				if e.Type() == exprT && !e.IsNil() {
					e.Set(reflect.ValueOf(fe(e.Interface().(ast.Expr))))
				} else if e.Type() == stmtT && !e.IsNil() {
					e.Set(reflect.ValueOf(fs(e.Interface().(ast.Stmt))))
				}
			}
		}
	}
	visit(reflect.ValueOf(n))
}

func sel(pkg, name string) ast.Expr {
	return &ast.SelectorExpr{X: ast.NewIdent(pkg), Sel: ast.NewIdent(name)}
}
func call(fun ast.Expr, args ...ast.Expr) *ast.CallExpr { return &ast.CallExpr{Fun: fun, Args: args} }
func method(x ast.Expr, name string, args ...ast.Expr) *ast.CallExpr {
	return call(&ast.SelectorExpr{X: x, Sel: ast.NewIdent(name)}, args...)
}
func exprString(fset *token.FileSet, e ast.Expr) string {
	var b bytes.Buffer
	format.Node(&b, fset, e)
	return b.String()
}

func rewriteChans(fset *token.FileSet, f *ast.File, lenChans map[string]bool) bool {
	usesChan := false
	selN := 0
	chanElem := map[*ast.StarExpr]ast.Expr{}
	bad := func(pos token.Pos, msg string) {
		die("chan rewrite: %s: %s", fset.Position(pos), msg)
	}
	fe := func(e ast.Expr) ast.Expr {
		switch x := e.(type) {
		case *ast.ChanType:
			usesChan = true
			r := &ast.StarExpr{X: &ast.IndexExpr{X: sel("vchan", "Chan"), Index: x.Value}}
			chanElem[r] = x.Value
			return r
		case *ast.UnaryExpr:
			if x.Op == token.ARROW {
				usesChan = true
				return method(x.X, "Recv")
			}
		case *ast.CallExpr:
			if id, ok := x.Fun.(*ast.Ident); ok {
				switch id.Name {
				case "make":
					if st, ok := x.Args[0].(*ast.StarExpr); ok {
						if el, ok := chanElem[st]; ok {
							return call(&ast.IndexExpr{X: sel("vchan", "Make"), Index: el}, x.Args[1:]...)
						}
					}
				case "close":
					usesChan = true
					return call(sel("vchan", "Close"), x.Args...)
				case "len":
					if lenChans[exprString(fset, x.Args[0])] {
						return call(sel("vchan", "Len"), x.Args...)
					}
				}
			}
		}
		return e
	}
	var fs func(ast.Stmt) ast.Stmt
	fs = func(s ast.Stmt) ast.Stmt {
		switch x := s.(type) {
		case *ast.SendStmt:
			usesChan = true
			return &ast.ExprStmt{X: method(x.Chan, "Send", x.Value)}
		case *ast.AssignStmt:
			if len(x.Lhs) == 2 && len(x.Rhs) == 1 {
				if c, ok := x.Rhs[0].(*ast.CallExpr); ok {
					if se, ok := c.Fun.(*ast.SelectorExpr); ok && se.Sel.Name == "Recv" && len(c.Args) == 0 {
						se.Sel = ast.NewIdent("Recv2")
					}
				}
			}
		case *ast.RangeStmt:
			// `for v := range ch` over a channel is not in the subset; plain ranges are untouched.
		case *ast.GoStmt:
			// go f(...) -> vchan.Go(func(){ f(...) }) so that the goroutine becomes a controlled thread
			usesChan = true
			return &ast.ExprStmt{X: call(sel("vchan", "Go"), &ast.FuncLit{
				Type: &ast.FuncType{Params: &ast.FieldList{}},
				Body: &ast.BlockStmt{List: []ast.Stmt{&ast.ExprStmt{X: x.Call}}},
			})}
		case *ast.SelectStmt:
			usesChan = true
			var cases []ast.Expr
			var pre []ast.Stmt
			sw := &ast.SwitchStmt{Body: &ast.BlockStmt{}}
			for i, cl := range x.Body.List {
				cc := cl.(*ast.CommClause)
				var ce ast.Expr
				switch comm := cc.Comm.(type) {
				case nil:
					ce = call(sel("vchan", "Default"))
				case *ast.ExprStmt:
					c, ok := comm.X.(*ast.CallExpr)
					if !ok {
						bad(comm.Pos(), "unsupported select clause")
					}
					se := c.Fun.(*ast.SelectorExpr)
					if se.Sel.Name == "Send" {
						ce = call(sel("vchan", "OnSend"), se.X, c.Args[0])
					} else {
						ce = call(sel("vchan", "OnRecv"), se.X)
					}
				case *ast.AssignStmt:
					c := comm.Rhs[0].(*ast.CallExpr)
					se := c.Fun.(*ast.SelectorExpr)
					lhs := comm.Lhs
					if comm.Tok == token.DEFINE {
						// case v[, ok] := <-c:  ->  _vN := vchan.NewVar(c) before the switch, and
						// `v[, ok] := *_vN[, *_okN]` as first statement of the clause body
						selN++
						vn := ast.NewIdent(fmt.Sprintf("_selv%d", selN))
						pre = append(pre, &ast.AssignStmt{Lhs: []ast.Expr{vn}, Tok: token.DEFINE, Rhs: []ast.Expr{call(sel("vchan", "NewVar"), se.X)}})
						args := []ast.Expr{se.X, vn}
						vals := []ast.Expr{&ast.StarExpr{X: vn}}
						if len(lhs) == 2 {
							on := ast.NewIdent(fmt.Sprintf("_selok%d", selN))
							pre = append(pre, &ast.AssignStmt{Lhs: []ast.Expr{on}, Tok: token.DEFINE, Rhs: []ast.Expr{call(ast.NewIdent("new"), ast.NewIdent("bool"))}})
							args = append(args, on)
							vals = append(vals, &ast.StarExpr{X: on})
						} else {
							args = append(args, ast.NewIdent("nil"))
						}
						ce = call(sel("vchan", "OnRecvInto"), args...)
						var use []ast.Stmt
						use = append(use, &ast.AssignStmt{Lhs: lhs, Tok: token.DEFINE, Rhs: vals})
						for _, l := range lhs {
							use = append(use, &ast.AssignStmt{Lhs: []ast.Expr{ast.NewIdent("_")}, Tok: token.ASSIGN, Rhs: []ast.Expr{l}})
						}
						cc.Body = append(use, cc.Body...)
						break
					}
					args := []ast.Expr{se.X, &ast.UnaryExpr{Op: token.AND, X: lhs[0]}}
					if len(lhs) == 2 {
						args = append(args, &ast.UnaryExpr{Op: token.AND, X: lhs[1]})
					} else {
						args = append(args, ast.NewIdent("nil"))
					}
					ce = call(sel("vchan", "OnRecvInto"), args...)
				default:
					bad(cc.Pos(), fmt.Sprintf("unsupported comm %T", comm))
				}
				cases = append(cases, ce)
				sw.Body.List = append(sw.Body.List, &ast.CaseClause{
					List: []ast.Expr{&ast.BasicLit{Kind: token.INT, Value: fmt.Sprint(i)}},
					Body: cc.Body,
				})
			}
			sw.Tag = call(sel("vchan", "Select"), cases...)
			if len(pre) > 0 {
				return &ast.BlockStmt{List: append(pre, sw)}
			}
			return sw
		}
		return s
	}
	rewriteTree(f, fe, fs)
	return usesChan
}

// rewriteRangeKeys turns `for k := range E` (key only, E listed) into
// `for _, k := range vorder.SortedKeys(E)`.
func rewriteRangeKeys(fset *token.FileSet, f *ast.File, exprs map[string]bool) bool {
	changed := false
	ast.Inspect(f, func(n ast.Node) bool {
		rs, ok := n.(*ast.RangeStmt)
		if !ok || rs.Key == nil || rs.Value != nil {
			return true
		}
		if !exprs[exprString(fset, rs.X)] {
			return true
		}
		rs.Value = rs.Key
		rs.Key = ast.NewIdent("_")
		rs.X = call(sel("vorder", "SortedKeys"), rs.X)
		changed = true
		return true
	})
	return changed
}
