// ovgen builds a `go build -overlay` description from /repo's *current* working tree.
//
// usage: ovgen -spec props/cNN/overlay.spec -out .build/cNN [-repo /repo]
//
// Spec lines (blank lines and # comments ignored); paths are relative to the repo root:
//
//	inject <repo-pkg-dir> <verif-file> [as <name>]   add a file to a repo package (virtual path)
//	import <glob> <old-import-path>=<new-import-path> ...   rewrite imports in matching non-test files
//	chan   <glob> [len=<expr>,<expr>...]              rewrite channel operations to vchan (subset; see chan.go)
//	rangekeys <glob> <map-expr> ...                   `for k := range <map-expr>` iterates in sorted key order (owns Go's random map order)
//	replace <repo-file> <verif-file>                  replace a file wholesale (used by mutation self-tests only)
//
// The repo is never written. Output: <out>/overlay.json plus generated files under <out>/gen.
package main

import (
	"bytes"
	"encoding/json"
	"flag"
	"fmt"
	"go/ast"
	"go/format"
	"go/parser"
	"go/token"
	"os"
	"path/filepath"
	"strconv"
	"strings"
)

func die(f string, a ...any) {
	fmt.Fprintf(os.Stderr, "ovgen: "+f+"\n", a...)
	os.Exit(2)
}

type fileState struct {
	src     string // repo path
	imports map[string]string
	chans   bool
	lens    map[string]bool
	hooks   []hookSpec
	rangeks map[string]bool
}

func main() {
	spec := flag.String("spec", "", "spec file")
	out := flag.String("out", "", "output dir")
	repo := flag.String("repo", envOr("VERIF_REPO", "/repo"), "repo root")
	root := flag.String("root", envOr("VERIF_ROOT", "/verif"), "verif root")
	flag.Parse()
	if *out == "" {
		die("need -out")
	}
	os.RemoveAll(filepath.Join(*out, "gen"))
	os.MkdirAll(filepath.Join(*out, "gen"), 0o755)
	replace := map[string]string{}
	override := map[string]string{} // repo file -> replacement source (still subject to the transforms)
	files := map[string]*fileState{}
	get := func(p string) *fileState {
		if files[p] == nil {
			files[p] = &fileState{src: p, imports: map[string]string{}, lens: map[string]bool{}}
		}
		return files[p]
	}
	if *spec != "" {
		b, err := os.ReadFile(*spec)
		if err != nil && !os.IsNotExist(err) {
			die("%v", err)
		}
		for ln, line := range strings.Split(string(b), "\n") {
			if i := strings.Index(line, "#"); i >= 0 {
				line = line[:i]
			}
			f := strings.Fields(line)
			if len(f) == 0 {
				continue
			}
			switch f[0] {
			case "inject":
				if len(f) < 3 {
					die("%s:%d: inject <pkgdir> <file>", *spec, ln+1)
				}
				name := filepath.Base(f[2])
				if len(f) == 5 && f[3] == "as" {
					name = f[4]
				}
				src := f[2]
				if !filepath.IsAbs(src) {
					src = filepath.Join(*root, src)
				}
				if _, err := os.Stat(src); err != nil {
					die("%s:%d: %v", *spec, ln+1, err)
				}
				replace[filepath.Join(*repo, f[1], name)] = src
			case "replace":
				src := f[2]
				if !filepath.IsAbs(src) {
					src = filepath.Join(*root, src)
				}
				override[filepath.Join(*repo, f[1])] = src
			case "import", "chan", "hookfn", "rangekeys":
				ms, err := filepath.Glob(filepath.Join(*repo, f[1]))
				if err != nil || len(ms) == 0 {
					die("%s:%d: glob %s matches nothing", *spec, ln+1, f[1])
				}
				for _, m := range ms {
					if strings.HasSuffix(m, "_test.go") || !strings.HasSuffix(m, ".go") {
						continue
					}
					st := get(m)
					if f[0] == "chan" {
						st.chans = true
					}
					if f[0] == "rangekeys" {
						if st.rangeks == nil {
							st.rangeks = map[string]bool{}
						}
						for _, e := range f[2:] {
							st.rangeks[e] = true
						}
						continue
					}
					if f[0] == "hookfn" {
						st.hooks = append(st.hooks, parseHookArgs(f[2:]))
						continue
					}
					for _, kv := range f[2:] {
						k, v, ok := strings.Cut(kv, "=")
						if !ok {
							die("%s:%d: bad arg %q", *spec, ln+1, kv)
						}
						if f[0] == "chan" {
							if k != "len" {
								die("%s:%d: bad arg %q", *spec, ln+1, kv)
							}
							for _, e := range strings.Split(v, ",") {
								st.lens[e] = true
							}
						} else {
							st.imports[k] = v
						}
					}
				}
			default:
				die("%s:%d: unknown directive %q", *spec, ln+1, f[0])
			}
		}
	}
	n := 0
	for p, st := range files {
		srcPath := p
		if o, ok := override[p]; ok {
			srcPath = o
		}
		fset := token.NewFileSet()
		f, err := parser.ParseFile(fset, srcPath, nil, parser.ParseComments)
		if err != nil {
			die("parse %s: %v", p, err)
		}
		changed := false
		if st.chans {
			if rewriteChans(fset, f, st.lens) {
				changed = true
				addImport(f, "github.com/nspcc-dev/neofs-node/verif/shim/vchan")
			}
		}
		if len(st.rangeks) > 0 && rewriteRangeKeys(fset, f, st.rangeks) {
			changed = true
			addImport(f, "github.com/nspcc-dev/neofs-node/verif/shim/vorder")
		}
		if len(st.hooks) > 0 && applyHooks(f, st.hooks) {
			changed = true
			addImport(f, "github.com/nspcc-dev/neofs-node/verif/shim/vhook")
			f.Decls = append(f.Decls, &ast.GenDecl{Tok: token.VAR, Specs: []ast.Spec{&ast.ValueSpec{
				Names:  []*ast.Ident{ast.NewIdent("_")},
				Values: []ast.Expr{&ast.IndexExpr{X: &ast.SelectorExpr{X: ast.NewIdent("vhook"), Sel: ast.NewIdent("As")}, Index: ast.NewIdent("int")}},
			}}})
		}
		for _, imp := range f.Imports {
			old, _ := strconv.Unquote(imp.Path.Value)
			if nw, ok := st.imports[old]; ok {
				if imp.Name == nil {
					imp.Name = ast.NewIdent(filepath.Base(old))
				}
				imp.Path.Value = strconv.Quote(nw)
				changed = true
			}
		}
		if !changed {
			continue
		}
		var buf bytes.Buffer
		if err := format.Node(&buf, fset, f); err != nil {
			die("print %s: %v", p, err)
		}
		n++
		rel, _ := filepath.Rel(*repo, p)
		dst := filepath.Join(*out, "gen", strings.ReplaceAll(rel, "/", "__"))
		if err := os.WriteFile(dst, buf.Bytes(), 0o644); err != nil {
			die("%v", err)
		}
		replace[p] = dst
	}
	for p, o := range override {
		if _, done := replace[p]; !done {
			replace[p] = o
		}
	}
	b, _ := json.MarshalIndent(map[string]any{"Replace": replace}, "", " ")
	if err := os.WriteFile(filepath.Join(*out, "overlay.json"), b, 0o644); err != nil {
		die("%v", err)
	}
}

func envOr(k, d string) string {
	if v := os.Getenv(k); v != "" {
		return v
	}
	return d
}

func addImport(f *ast.File, path string) {
	spec := &ast.ImportSpec{Path: &ast.BasicLit{Kind: token.STRING, Value: strconv.Quote(path)}}
	f.Imports = append(f.Imports, spec)
	for _, d := range f.Decls {
		if gd, ok := d.(*ast.GenDecl); ok && gd.Tok == token.IMPORT {
			gd.Specs = append(gd.Specs, spec)
			return
		}
	}
	gd := &ast.GenDecl{Tok: token.IMPORT, Specs: []ast.Spec{spec}}
	f.Decls = append([]ast.Decl{gd}, f.Decls...)
}
