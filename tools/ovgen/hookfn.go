package main

// Function-entry interposition:
//
//	hookfn <glob> recv=<TypeName> hook=<VarName> [only=A,B,...] [skip=A,B,...]
//
// Every method with receiver *TypeName (or TypeName) in the matching files gets, as first statement,
//
//	if <VarName> != nil {
//		if _r, _ok := <VarName>(<recv>, "<Method>", []any{<params...>}); _ok {
//			return vhook.As[T0](_r, 0), ...
//		}
//	}
//
// <VarName> must be declared by an injected file as
// `var <VarName> func(recv *TypeName, name string, args []any) ([]any, bool)`.
// The original body is untouched. recv=- hooks plain functions (receiver argument nil is omitted:
// hook signature is then func(name string, args []any) ([]any, bool)).

import (
	"go/ast"
	"go/token"
	"strconv"
	"strings"
)

type hookSpec struct {
	recv, hook string
	only, skip map[string]bool
}

func parseHookArgs(args []string) hookSpec {
	h := hookSpec{only: map[string]bool{}, skip: map[string]bool{}}
	for _, kv := range args {
		k, v, _ := strings.Cut(kv, "=")
		switch k {
		case "recv":
			h.recv = v
		case "hook":
			h.hook = v
		case "only":
			for _, n := range strings.Split(v, ",") {
				h.only[n] = true
			}
		case "skip":
			for _, n := range strings.Split(v, ",") {
				h.skip[n] = true
			}
		default:
			die("hookfn: bad arg %q", kv)
		}
	}
	if h.recv == "" || h.hook == "" {
		die("hookfn: need recv= and hook=")
	}
	return h
}

func recvTypeName(fd *ast.FuncDecl) string {
	if fd.Recv == nil || len(fd.Recv.List) == 0 {
		return "-"
	}
	t := fd.Recv.List[0].Type
	if s, ok := t.(*ast.StarExpr); ok {
		t = s.X
	}
	if id, ok := t.(*ast.Ident); ok {
		return id.Name
	}
	return ""
}

func applyHooks(f *ast.File, hs []hookSpec) bool {
	changed := false
	for _, d := range f.Decls {
		fd, ok := d.(*ast.FuncDecl)
		if !ok || fd.Body == nil {
			continue
		}
		for _, h := range hs {
			if recvTypeName(fd) != h.recv {
				continue
			}
			if len(h.only) > 0 && !h.only[fd.Name.Name] {
				continue
			}
			if h.skip[fd.Name.Name] {
				continue
			}
			var recvExpr ast.Expr
			if fd.Recv != nil {
				fl := fd.Recv.List[0]
				if len(fl.Names) == 0 || fl.Names[0].Name == "_" {
					fl.Names = []*ast.Ident{ast.NewIdent("_vrecv")}
				}
				recvExpr = ast.NewIdent(fl.Names[0].Name)
				if _, isPtr := fl.Type.(*ast.StarExpr); !isPtr {
					recvExpr = &ast.UnaryExpr{Op: token.AND, X: recvExpr}
				}
			}
			var args []ast.Expr
			n := 0
			for _, p := range fd.Type.Params.List {
				if len(p.Names) == 0 {
					p.Names = []*ast.Ident{ast.NewIdent("_vp" + strconv.Itoa(n))}
					n++
				}
				for i, nm := range p.Names {
					if nm.Name == "_" {
						p.Names[i] = ast.NewIdent("_vp" + strconv.Itoa(n))
						n++
					}
					args = append(args, ast.NewIdent(p.Names[i].Name))
				}
			}
			hookArgs := []ast.Expr{}
			if recvExpr != nil {
				hookArgs = append(hookArgs, recvExpr)
			}
			hookArgs = append(hookArgs,
				&ast.BasicLit{Kind: token.STRING, Value: strconv.Quote(fd.Name.Name)},
				&ast.CompositeLit{Type: &ast.ArrayType{Elt: ast.NewIdent("any")}, Elts: args})
			ret := &ast.ReturnStmt{}
			if fd.Type.Results != nil {
				i := 0
				for _, rf := range fd.Type.Results.List {
					cnt := len(rf.Names)
					if cnt == 0 {
						cnt = 1
					}
					for k := 0; k < cnt; k++ {
						ret.Results = append(ret.Results, call(&ast.IndexExpr{X: sel("vhook", "As"), Index: rf.Type},
							ast.NewIdent("_r"), &ast.BasicLit{Kind: token.INT, Value: strconv.Itoa(i)}))
						i++
					}
				}
			}
			inner := &ast.IfStmt{
				Init: &ast.AssignStmt{Lhs: []ast.Expr{ast.NewIdent("_r"), ast.NewIdent("_ok")}, Tok: token.DEFINE,
					Rhs: []ast.Expr{call(ast.NewIdent(h.hook), hookArgs...)}},
				Cond: ast.NewIdent("_ok"),
				Body: &ast.BlockStmt{List: []ast.Stmt{&ast.ExprStmt{X: call(ast.NewIdent("_"+"vuse"), ast.NewIdent("_r"))}, ret}},
			}
			// `_r` may be unused when the function has no results: reference it via a blank assignment
			inner.Body.List[0] = &ast.AssignStmt{Lhs: []ast.Expr{ast.NewIdent("_")}, Tok: token.ASSIGN, Rhs: []ast.Expr{ast.NewIdent("_r")}}
			outer := &ast.IfStmt{
				Cond: &ast.BinaryExpr{X: ast.NewIdent(h.hook), Op: token.NEQ, Y: ast.NewIdent("nil")},
				Body: &ast.BlockStmt{List: []ast.Stmt{inner}},
			}
			fd.Body.List = append([]ast.Stmt{outer}, fd.Body.List...)
			changed = true
		}
	}
	return changed
}
