#!/usr/bin/env python3
"""Generate /verif/seeded/README.md from seeded/results.json and seeded/*/meta.json."""
import json, os, glob
root = os.path.dirname(os.path.dirname(os.path.abspath(__file__)))
res = json.load(open(os.path.join(root, "seeded", "results.json")))
lines = ["# Independently seeded property-breaking changes",
 "",
 "Each directory holds a change written by a fresh sub-agent that saw ONLY the property text and a scratch worktree",
 "(never /verif): `patch.diff`, the agent's demonstration (`demo/`, fails with the change, passes without — re-confirmed",
 "by tools/seedimport.sh, logs `demo_with.log` / `demo_without.log`) and `meta.json` (what it breaks, what it needs to",
 "manifest, commands run). The repository's own tests of the touched packages pass with every change.",
 "`tools/seedcheck.sh <dir> [tier] [checks...]` layers the patched files over /repo through the overlay (or `--apply`:",
 "git apply / checkout) and runs the checks. Nothing here is ever committed to /repo.",
 "",
 "| seed | property | what the change does | needs | caught by | missed by (history) |",
 "|---|---|---|---|---|---|"]
for d in sorted([d for d in glob.glob(os.path.join(root, "seeded", "*", "meta.json")) if "_not_kept" not in d]):
    name = os.path.basename(os.path.dirname(d))
    m = json.load(open(d))
    r = res.get(name, {})
    esc = lambda s: str(s).replace("|", "\\|").replace("\n", " ")
    lines.append(f"| {name} | {m.get('property')} | {esc(m.get('summary',''))[:260]} | {esc(m.get('needs',''))[:260]} | {esc('; '.join(r.get('caught', [])) or '-')} | {esc('; '.join(r.get('missed', [])) or '-')} |")
caught = sum(1 for r in res.values() if r.get("caught"))
lines += ["", f"{caught} of {len(res)} seeded changes are reported by at least one check (see the table for the tier).",
 "Where a check first missed a change it was strengthened for the whole class (not the constant) and re-run; the",
 "'missed by' column keeps that history."]
open(os.path.join(root, "seeded", "README.md"), "w").write("\n".join(lines) + "\n")
print("\n".join(lines[-4:]))
