#!/bin/bash
# usage: tools/seedcheck.sh [--apply] <seed-dir> [tier] [check ids...]
# Runs checks against a seeded change (/verif/seeded/<seed-dir>/patch.diff).
#  default mode : /repo is NOT touched; the patched files are produced in a scratch copy and layered over /repo through the
#                 same `replace` overlay directive the mutants use (safe while other work builds from /repo);
#  --apply mode : git -C /repo apply <patch>; run; git -C /repo checkout -- .   (the way the brief describes it).
# Exit 0 if some check reported a VIOLATION (seed caught), 1 if none did, 2 on errors.
set -u
cd "$(dirname "${BASH_SOURCE[0]}")/.."
MODE=overlay; [ "${1:-}" = "--apply" ] && { MODE=apply; shift; }
S="seeded/$1"; NAME="$1"; shift
TIER="${1:-quick}"; [ $# -gt 0 ] && shift
[ -f "$S/patch.diff" ] || { echo "no $S/patch.diff"; exit 2; }
if [ $# -eq 0 ]; then set -- $(python3 -c "import json;print(json.load(open('$S/meta.json'))['property'])"); fi
caught=1
if [ "$MODE" = apply ]; then
  [ -z "$(git -C /repo status --porcelain)" ] || { echo "/repo is dirty"; exit 2; }
  trap 'git -C /repo checkout -q -- .' EXIT
  git -C /repo apply "$S/patch.diff" || { echo "patch does not apply"; exit 2; }
else
  SC=".build/seed/$NAME"; rm -rf "$SC"; mkdir -p "$SC/src"
  FILES=$(grep '^+++ b/' "$S/patch.diff" | sed 's#^+++ b/##')
  for f in $FILES; do mkdir -p "$SC/src/$(dirname $f)"; cp "/repo/$f" "$SC/src/$f"; done
  (cd "$SC/src" && patch -s -p1 < "../../../../$S/patch.diff") || { echo "patch does not apply"; exit 2; }
fi
for c in "$@"; do
  lc=$(echo "$c" | tr 'A-Z' 'a-z')
  if [ "$MODE" = apply ]; then
    out=$(./check "$c" "$TIER" 2>&1); rc=$?
  else
    spec="$SC/$lc.spec"; cat "props/$lc/overlay.spec" 2>/dev/null > "$spec"
    for f in $FILES; do echo "replace $f $PWD/$SC/src/$f" >> "$spec"; done
    out=$(VERIF_SPEC="$PWD/$spec" ./check "$c" "$TIER" 2>&1); rc=$?
  fi
  echo "== $c $TIER exit=$rc"; echo "$out" | grep -E "^VIOLATION|class:|BUILD-ERROR|HARNESS-ERROR|tier=" | head -8
  [ $rc -eq 1 ] && caught=0
done
exit $caught
