#!/bin/bash
# usage: tools/seedcheck.sh <seed-dir> [tier] [check ids...]
# Applies /verif/seeded/<seed-dir>/patch.diff to /repo, runs the given checks (default: the property named in meta.json),
# prints their verdict lines, and ALWAYS restores /repo (git checkout -- .). Exit 0 if some check reported a VIOLATION.
set -u
cd "$(dirname "${BASH_SOURCE[0]}")/.."
S="seeded/$1"; shift
TIER="${1:-quick}"; [ $# -gt 0 ] && shift
[ -f "$S/patch.diff" ] || { echo "no $S/patch.diff"; exit 2; }
if [ $# -eq 0 ]; then set -- $(python3 -c "import json;print(json.load(open('$S/meta.json'))['property'])"); fi
[ -z "$(git -C /repo status --porcelain)" ] || { echo "/repo is dirty"; exit 2; }
trap 'git -C /repo checkout -q -- . ; git -C /repo clean -fdq' EXIT
git -C /repo apply "$S/patch.diff" || { echo "patch does not apply"; exit 2; }
caught=1
for c in "$@"; do
  out=$(./check "$c" "$TIER" 2>&1); rc=$?
  echo "== $c $TIER exit=$rc"; echo "$out" | grep -E "^VIOLATION|class:|BUILD-ERROR|HARNESS-ERROR|tier=" | head -8
  [ $rc -eq 1 ] && caught=0
done
exit $caught
