#!/bin/bash
# usage: tools/seedimport.sh <ID> [name]   — confirm a seeded change produced in /tmp/seeds/<ID> and copy it to /verif/seeded/<name>
# Confirms: patch applies to /repo HEAD; demo FAILS with the change and PASSES without it; touched packages' own tests pass with it.
set -u
ID="$1"; NAME="${2:-$1}"
W=/tmp/seeds/$ID; O=$W/_out
export GOFLAGS=-mod=mod GOPROXY=off
[ -f "$O/patch.diff" ] && [ -f "$O/meta.json" ] || { echo "missing deliverables in $O"; exit 2; }
git -C /repo apply --check "$O/patch.diff" || { echo "patch does not apply to /repo HEAD"; exit 2; }
cd "$W" || exit 2
# normalise the worktree: HEAD + patch + demo
git checkout -q -- . ; git apply "$O/patch.diff" || exit 2
(cd "$O/demo" && find . -type f | while read f; do mkdir -p "$W/$(dirname "$f")"; cp "$f" "$W/$f"; done)
DEMO=$(python3 -c "import json;print(json.load(open('$O/meta.json'))['demo_cmd'])")
echo "--- demo WITH change: $DEMO"
( eval "$DEMO" ) > "$O/demo_with.log" 2>&1; rc_with=$?
git apply -R "$O/patch.diff"
echo "--- demo WITHOUT change"
( eval "$DEMO" ) > "$O/demo_without.log" 2>&1; rc_without=$?
git apply "$O/patch.diff"
echo "demo exit with=$rc_with without=$rc_without"
[ $rc_with -ne 0 ] && [ $rc_without -eq 0 ] || { echo "DEMO DOES NOT DISCRIMINATE"; tail -5 "$O/demo_with.log" "$O/demo_without.log"; exit 1; }
PKGS=$(git diff --name-only | grep '\.go$' | xargs -n1 dirname | sort -u | sed 's#^#./#')
echo "--- existing tests of touched packages: $PKGS"
go test -count=1 -skip 'TestSeedDemo|ZzSeed|Seed' $PKGS > "$O/pkgtests.log" 2>&1
grep -E "^--- FAIL|^FAIL|^ok" "$O/pkgtests.log" | grep -v -E "TestShardOpen|TestDumpIgnoreErrors|TestExists|TestInitializationFailure|TestErrorReporting|TestFlush" | sort | uniq -c
mkdir -p /verif/seeded/$NAME && cp -r "$O/patch.diff" "$O/meta.json" "$O/demo" "$O/demo_with.log" "$O/demo_without.log" /verif/seeded/$NAME/ 2>/dev/null
echo "imported to /verif/seeded/$NAME"
