#!/usr/bin/env python3
"""Assemble /verif/MANIFEST.json from props/*/check.json fragments + manifest.base.json and validate it."""
import json, glob, os, sys
root = os.path.dirname(os.path.dirname(os.path.abspath(__file__)))
base = json.load(open(os.path.join(root, "manifest.base.json")))
checks = []
claimed = set()
ready = set(open(os.path.join(root, "ready.txt")).read().split())
for f in sorted(glob.glob(os.path.join(root, "props", "*", "check.json"))):
    c = json.load(open(f))
    pid = c["property_id"]
    if pid not in ready:
        continue
    claimed.add(pid)
    c.setdefault("quick_cmd", f"./check {pid} quick")
    c.setdefault("thorough_cmd", f"./check {pid} thorough")
    c.setdefault("evidence_file", f"/verif/evidence/{pid}.json")
    c.setdefault("replay_cmd_template", f"./check {pid} --replay {{path}}")
    checks.append(c)
base["checks"] = checks
props = [json.loads(l)["id"] for l in open(os.path.join(root, "properties.jsonl"))]
na = {x["property_id"]: x for x in base.get("not_applicable", [])}
out_na = []
for p in props:
    if p in claimed:
        continue
    out_na.append(na.get(p, {"property_id": p, "reason": "check not built yet in this session (planned, see DESIGN.md section 4); not claimed until its harness exists"}))
base["not_applicable"] = out_na
for e in base.get("engines", []):
    e["serves_properties"] = sorted(c["property_id"] for c in checks if c.get("engine") == e["name"])
json.dump(base, open(os.path.join(root, "MANIFEST.json"), "w"), indent=1)
try:
    import jsonschema
    jsonschema.validate(base, json.load(open("/root/.vp/MANIFEST.schema.json")))
    print("MANIFEST.json valid;", len(checks), "checks,", len(out_na), "not claimed")
except ImportError:
    print("jsonschema missing; not validated")
