package engineworld

import (
	"crypto/sha256"
	"strconv"

	iec "github.com/nspcc-dev/neofs-node/internal/ec"
	"github.com/nspcc-dev/neofs-sdk-go/checksum"
	cid "github.com/nspcc-dev/neofs-sdk-go/container/id"
	"github.com/nspcc-dev/neofs-sdk-go/object"
	oid "github.com/nspcc-dev/neofs-sdk-go/object/id"
	"github.com/nspcc-dev/neofs-sdk-go/user"
	"github.com/nspcc-dev/neofs-sdk-go/version"
)

// CID derives a container ID from a label.
func CID(label string) cid.ID { return cid.ID(sha256.Sum256([]byte("verif-cnr-" + label))) }

// OID derives an object ID from a label.
func OID(label string) oid.ID { return oid.ID(sha256.Sum256([]byte("verif-obj-" + label))) }

// OIDWithPrefix derives an object ID from a label and overrides its leading bytes (used to pick
// the HRW order — HRW reads the first 8 bytes — or the base58 length class).
func OIDWithPrefix(label string, prefix ...byte) oid.ID {
	id := OID(label)
	copy(id[:], prefix)
	return id
}

// Owner derives a (structurally valid: prefix + checksum) user ID from a label.
func Owner(label string) user.ID {
	h := sha256.Sum256([]byte("verif-owner-" + label))
	var b [user.IDSize]byte
	b[0] = 0x35 // NEO3 address version
	copy(b[1:21], h[:20])
	c := sha256.Sum256(b[:21])
	c = sha256.Sum256(c[:])
	copy(b[21:], c[:4])
	return user.ID(b)
}

// ObjSpec describes an object to build.
type ObjSpec struct {
	Cnr     cid.ID
	ID      oid.ID
	Owner   user.ID
	Payload []byte
	Type    object.Type
	Epoch   uint64      // creation epoch
	Attrs   [][2]string // user attributes in order
	// relations
	Parent   *object.Object // parent header to embed (split child / EC part)
	SplitID  *object.SplitID
	First    oid.ID // zero = unset
	Previous oid.ID
	// Associate target for TOMBSTONE/LOCK (or any type when non-zero).
	Associate oid.ID
	Children  []oid.ID
}

// Build makes a storage-valid object (version, owner, payload checksum) from the spec. No
// signature is set: the local storage does not verify it.
func Build(s ObjSpec) *object.Object {
	o := object.New(s.Cnr, s.Owner)
	v := version.Current()
	o.SetVersion(&v)
	o.SetID(s.ID)
	o.SetType(s.Type)
	o.SetCreationEpoch(s.Epoch)
	o.SetPayload(s.Payload)
	o.SetPayloadSize(uint64(len(s.Payload)))
	o.SetPayloadChecksum(checksum.NewSHA256(sha256.Sum256(s.Payload)))
	var as []object.Attribute
	for _, kv := range s.Attrs {
		as = append(as, object.NewAttribute(kv[0], kv[1]))
	}
	if len(as) > 0 {
		o.SetAttributes(as...)
	}
	if !s.Associate.IsZero() {
		switch s.Type {
		case object.TypeTombstone:
			o.AssociateDeleted(s.Associate)
		case object.TypeLock:
			o.AssociateLocked(s.Associate)
		default:
			o.AssociateObject(s.Associate)
		}
	}
	if s.SplitID != nil {
		o.SetSplitID(s.SplitID)
	}
	if !s.First.IsZero() {
		o.SetFirstID(s.First)
	}
	if !s.Previous.IsZero() {
		o.SetPreviousID(s.Previous)
	}
	if len(s.Children) > 0 {
		o.SetChildren(s.Children...)
	}
	if s.Parent != nil {
		o.SetParent(s.Parent)
		if id := s.Parent.GetID(); !id.IsZero() {
			o.SetParentID(id)
		}
	}
	return o
}

// SplitIDFrom derives a split ID (UUID bytes) from a label.
func SplitIDFrom(label string) *object.SplitID {
	h := sha256.Sum256([]byte("verif-split-" + label))
	h[6] = (h[6] & 0x0f) | 0x40 // version 4
	h[8] = (h[8] & 0x3f) | 0x80 // RFC 4122 variant
	return object.NewSplitIDFromV2(h[:16])
}

// ECPart builds an EC part object of parent (rule 0, part idx): its engine shard choice on Put is
// driven by the parent's ID while reads address the part's own ID.
func ECPart(id oid.ID, parent *object.Object, idx int, payload []byte) *object.Object {
	return Build(ObjSpec{Cnr: parent.GetContainerID(), ID: id, Owner: parent.Owner(), Payload: payload, Type: object.TypeRegular,
		Epoch: parent.CreationEpoch(), Parent: parent,
		Attrs: [][2]string{{iec.AttributeRuleIdx, "0"}, {iec.AttributePartIdx, strconv.Itoa(idx)}}})
}
