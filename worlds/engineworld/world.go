// Package engineworld is the shared fixture of the engine-level checks (C04, C06, C08, C11, C19, C20):
// a real engine.StorageEngine with 1–4 real shards (FSTree + metabase, bbolt NoSync, batch size 1,
// no write-cache) on /dev/shm, with
//
//   - fixed shard IDs (ShardID(i)) and deterministic object/container/owner IDs (ids.go),
//   - a per-shard fault plan in a common.Storage wrapper around the FSTree (FaultStorage:
//     fail the next k puts, fail every read),
//   - mode switching (World.SetMode),
//   - ownership of the order in which the engine visits its shard map (World.SetOrder; needs the
//     `maps`→vmaps import rewrite, see below). Without a pinned order the engine visits shards in
//     ascending shard-ID-string order, which is deterministic too. Code paths that sort by HRW
//     (get/head/exists/put/delete) are steered by choosing object IDs: World.HRWOrder(id).
//
// A check using this package must have in its overlay.spec (build tag `verif`):
//
//	import pkg/local_object_storage/engine/shards.go maps=github.com/nspcc-dev/neofs-node/verif/shim/vmaps
//	import pkg/local_object_storage/engine/evacuate.go maps=github.com/nspcc-dev/neofs-node/verif/shim/vmaps
//	inject pkg/local_object_storage/engine inject/engine/export_engineworld_verif.go
//
// The remaining direct `range e.shards` loops of the engine (SetShardMode, HandleNewEpoch, open/
// close, DumpInfo, container listing) are order-insensitive lookups or per-shard broadcasts whose
// results the checks compare as sets.
package engineworld

import (
	"crypto/sha256"
	"errors"
	"fmt"
	"os"
	"path/filepath"
	"sync/atomic"
	"time"

	"github.com/nspcc-dev/bbolt"
	"github.com/nspcc-dev/neofs-node/pkg/local_object_storage/blobstor/common"
	"github.com/nspcc-dev/neofs-node/pkg/local_object_storage/blobstor/fstree"
	"github.com/nspcc-dev/neofs-node/pkg/local_object_storage/engine"
	meta "github.com/nspcc-dev/neofs-node/pkg/local_object_storage/metabase"
	"github.com/nspcc-dev/neofs-node/pkg/local_object_storage/shard"
	"github.com/nspcc-dev/neofs-node/pkg/local_object_storage/shard/mode"
	cid "github.com/nspcc-dev/neofs-sdk-go/container/id"
	"go.uber.org/zap"
)

// MaxShards is the number of fixed shard identities available.
const MaxShards = 4

// ShardID returns the fixed identity of shard #i: the first 16 bytes of sha256("verif-shard-<i>").
// HRW uses only the first 8 bytes.
func ShardID(i int) common.ID {
	h := sha256.Sum256([]byte(fmt.Sprintf("verif-shard-%d", i)))
	id, err := common.NewIDFromBytes(h[:common.IDSize])
	if err != nil {
		panic(err)
	}
	return id
}

// Epoch is the harness-owned epoch source shared by all shards of a world.
type Epoch struct{ v atomic.Uint64 }

func (e *Epoch) CurrentEpoch() uint64 { return e.v.Load() }
func (e *Epoch) Set(v uint64)         { e.v.Store(v) }

type payments struct{}

func (payments) PaymentsDisabled() bool            { return true }
func (payments) UnpaidSince(cid.ID) (int64, error) { return -1, nil }

// Config of a world.
type Config struct {
	NumShards      int    // 1..MaxShards
	ErrorThreshold uint32 // engine.WithErrorThreshold (0 = never auto-degrade)
	BaseDir        string // parent of the scratch dir; default /dev/shm
	FSTreeDepth    uint64 // default 1
	// SearchIterationLimit for the metabases (0 = unlimited).
	SearchIterationLimit uint64
}

// Shard is one shard of the world.
type Shard struct {
	Index int
	ID    common.ID
	Stor  *FaultStorage
	Sh    *shard.Shard
	Dir   string
}

// World is a live engine plus handles on its shards.
type World struct {
	Eng    *engine.StorageEngine
	Shards []*Shard
	Dir    string
	Epoch  *Epoch
	cfg    Config
	closed bool
}

// New builds an engine with cfg.NumShards fresh shards in a new scratch directory.
func New(cfg Config) (*World, error) {
	if cfg.NumShards < 0 || cfg.NumShards > MaxShards {
		return nil, fmt.Errorf("engineworld: %d shards unsupported", cfg.NumShards)
	}
	if cfg.BaseDir == "" {
		cfg.BaseDir = "/dev/shm"
	}
	if cfg.FSTreeDepth == 0 {
		cfg.FSTreeDepth = 1
	}
	dir, err := os.MkdirTemp(cfg.BaseDir, "verif-ew-")
	if err != nil {
		return nil, err
	}
	w := &World{Dir: dir, Epoch: &Epoch{}, cfg: cfg}
	w.Eng = engine.New(engine.WithLogger(zap.NewNop()), engine.WithErrorThreshold(cfg.ErrorThreshold))
	for i := 0; i < cfg.NumShards; i++ {
		if _, err := w.AddShard(); err != nil {
			w.Close()
			return nil, err
		}
	}
	if err := w.Eng.Init(); err != nil {
		w.Close()
		return nil, err
	}
	return w, nil
}

// AddShard attaches the next fixed shard (index len(w.Shards)).
func (w *World) AddShard() (*Shard, error) {
	i := len(w.Shards)
	if i >= MaxShards {
		return nil, errors.New("engineworld: no more fixed shard IDs")
	}
	sd := filepath.Join(w.Dir, fmt.Sprintf("s%d", i))
	s := &Shard{Index: i, ID: ShardID(i), Dir: sd}
	s.Stor = NewFaultStorage(fstree.New(
		fstree.WithPath(filepath.Join(sd, "fstree")),
		fstree.WithDepth(w.cfg.FSTreeDepth),
		fstree.WithNoSync(true),
		fstree.WithLogger(zap.NewNop()),
	), s.ID)
	id, err := w.Eng.AddShard(
		shard.WithLogger(zap.NewNop()),
		shard.WithBlobstor(s.Stor),
		shard.WithMetaBaseOptions(
			meta.WithPath(filepath.Join(sd, "meta")),
			meta.WithPermissions(0o700),
			meta.WithEpochState(w.Epoch),
			meta.WithMaxBatchSize(1),
			meta.WithSearchIterationLimit(w.cfg.SearchIterationLimit),
			meta.WithBoltDBOptions(&bbolt.Options{NoSync: true, NoGrowSync: true, NoFreelistSync: true}),
			meta.WithLogger(zap.NewNop()),
		),
		shard.WithContainerPayments(payments{}),
		shard.WithGCRemoverSleepInterval(24*time.Hour),
	)
	if err != nil {
		return nil, err
	}
	if id != s.ID {
		return nil, fmt.Errorf("engineworld: shard came up with ID %s, want %s", id, s.ID)
	}
	w.attach(s)
	w.Shards = append(w.Shards, s)
	return s, nil
}

// SetMode switches shard #i through the engine API (error counter untouched).
func (w *World) SetMode(i int, m mode.Mode) error {
	return w.Eng.SetShardMode(w.Shards[i].ID, m, false)
}

// Mode of shard #i.
func (w *World) Mode(i int) mode.Mode { return w.Shards[i].Sh.GetMode() }

// Index returns the world index of a shard by its ID string (-1 if unknown).
func (w *World) Index(id string) int {
	for i, s := range w.Shards {
		if s.ID.String() == id {
			return i
		}
	}
	return -1
}

// Close shuts the engine down and removes the scratch directory.
func (w *World) Close() {
	if w.closed {
		return
	}
	w.closed = true
	w.forget()
	if w.Eng != nil {
		_ = w.Eng.Close()
	}
	_ = os.RemoveAll(w.Dir)
}
