//go:build !verif

package engineworld

// Instrumented reports whether the engine export file (build tag verif) is compiled in.
// Without it the package only builds plain engines (no shard handles, no order control).
const Instrumented = false

func (w *World) attach(*Shard) {}
func (w *World) forget()       {}
