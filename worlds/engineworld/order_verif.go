//go:build verif

package engineworld

import (
	"fmt"

	oid "github.com/nspcc-dev/neofs-sdk-go/object/id"
)

// Instrumented reports whether the engine export file (build tag verif) is compiled in.
const Instrumented = true

func (w *World) attach(s *Shard) {
	s.Sh = w.Eng.VerifShard(s.ID.String())
}

func (w *World) forget() {
	if w.Eng != nil {
		w.Eng.VerifForgetShardOrder()
	}
}

// SetOrder pins the order in which the engine's shard-map iterations (unsortedShards, Evacuate)
// visit the shards: perm lists world shard indexes. nil restores ascending ID-string order.
func (w *World) SetOrder(perm []int) {
	if perm == nil {
		w.Eng.VerifSetShardOrder(nil)
		return
	}
	ids := make([]string, len(perm))
	for i, p := range perm {
		ids[i] = w.Shards[p].ID.String()
	}
	w.Eng.VerifSetShardOrder(ids)
}

// UnsortedOrder returns the world indexes in the order unsortedShards() currently yields.
func (w *World) UnsortedOrder() []int {
	return w.idx(w.Eng.VerifUnsortedShardIDs())
}

// HRWOrder returns the world indexes in the engine's HRW visiting order for id.
func (w *World) HRWOrder(id oid.ID) []int {
	return w.idx(w.Eng.VerifSortedShardIDs(id))
}

// Exists is the engine-level existence check (the one Put uses).
func (w *World) Exists(addr oid.Address) (bool, error) {
	return w.Eng.VerifExistsPhysical(addr)
}

// ErrorCount of shard #i (volatile engine state).
func (w *World) ErrorCount(i int) uint32 {
	return w.Eng.VerifShardErrorCount(w.Shards[i].ID.String())
}

func (w *World) idx(ids []string) []int {
	r := make([]int, len(ids))
	for i, id := range ids {
		r[i] = w.Index(id)
	}
	return r
}

// OIDForHRW searches (deterministically: label#0, label#1, …) an object ID for which the engine's
// HRW order over the world's current shards equals want (world shard indexes).
func (w *World) OIDForHRW(label string, want []int) oid.ID {
	for n := 0; n < 100000; n++ {
		id := OID(fmt.Sprintf("%s#%d", label, n))
		got := w.HRWOrder(id)
		ok := len(got) == len(want)
		for i := 0; ok && i < len(got); i++ {
			ok = got[i] == want[i]
		}
		if ok {
			return id
		}
	}
	panic("engineworld: no object ID with the wanted HRW order")
}

// Detach removes the given shards (world indexes) from the engine and closes them; their
// directories stay until Close. The engine then serves from the remaining shards only.
func (w *World) Detach(idx ...int) {
	ids := make([]string, len(idx))
	for i, x := range idx {
		ids[i] = w.Shards[x].ID.String()
	}
	w.Eng.VerifRemoveShards(ids...)
}
