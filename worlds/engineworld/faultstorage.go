package engineworld

import (
	"errors"
	"io"
	"sync/atomic"

	"github.com/nspcc-dev/neofs-node/pkg/local_object_storage/blobstor/common"
	"github.com/nspcc-dev/neofs-sdk-go/object"
	oid "github.com/nspcc-dev/neofs-sdk-go/object/id"
)

// ErrInjectedWrite / ErrInjectedRead are the (non-logical, I/O-like) errors of the fault plan.
var (
	ErrInjectedWrite = errors.New("verif: injected write failure")
	ErrInjectedRead  = errors.New("verif: injected read failure")
)

// FaultStorage wraps the shard's real blob storage (an FSTree) and applies the per-shard fault
// plan: FailPuts(k) makes the next k Put/PutBatch calls fail before touching the disk,
// FailReads(true) makes every read-side call fail until switched off. It also pins the shard ID.
type FaultStorage struct {
	common.Storage
	id        common.ID
	failPuts  atomic.Int64
	failReads atomic.Bool
	puts      atomic.Int64
	reads     atomic.Int64
}

func NewFaultStorage(inner common.Storage, id common.ID) *FaultStorage {
	return &FaultStorage{Storage: inner, id: id}
}

// FailPuts arms the write fault for the next k puts (k<0: every put until FailPuts(0)).
func (s *FaultStorage) FailPuts(k int) { s.failPuts.Store(int64(k)) }

// PendingPutFaults returns the remaining armed put faults.
func (s *FaultStorage) PendingPutFaults() int { return int(s.failPuts.Load()) }

// FailReads switches the read fault.
func (s *FaultStorage) FailReads(on bool) { s.failReads.Store(on) }

// ReadsFailing reports the read-fault switch.
func (s *FaultStorage) ReadsFailing() bool { return s.failReads.Load() }

// Inner returns the wrapped storage.
func (s *FaultStorage) Inner() common.Storage { return s.Storage }

// Init pins the fixed shard ID whatever the shard passes.
func (s *FaultStorage) Init(common.ID) error { return s.Storage.Init(s.id) }

func (s *FaultStorage) wfail() bool {
	s.puts.Add(1)
	for {
		v := s.failPuts.Load()
		if v == 0 {
			return false
		}
		if v < 0 {
			return true
		}
		if s.failPuts.CompareAndSwap(v, v-1) {
			return true
		}
	}
}

func (s *FaultStorage) rfail() bool {
	s.reads.Add(1)
	return s.failReads.Load()
}

func (s *FaultStorage) Put(a oid.Address, b []byte) error {
	if s.wfail() {
		return ErrInjectedWrite
	}
	return s.Storage.Put(a, b)
}

func (s *FaultStorage) PutBatch(m map[oid.Address][]byte) error {
	if s.wfail() {
		return ErrInjectedWrite
	}
	return s.Storage.PutBatch(m)
}

func (s *FaultStorage) GetBytes(a oid.Address) ([]byte, error) {
	if s.rfail() {
		return nil, ErrInjectedRead
	}
	return s.Storage.GetBytes(a)
}

func (s *FaultStorage) Get(a oid.Address) (*object.Object, error) {
	if s.rfail() {
		return nil, ErrInjectedRead
	}
	return s.Storage.Get(a)
}

func (s *FaultStorage) GetRangeStream(a oid.Address, rng common.PayloadRange, readHeader bool) (*object.Object, uint64, io.ReadCloser, error) {
	if s.rfail() {
		return nil, 0, nil, ErrInjectedRead
	}
	return s.Storage.GetRangeStream(a, rng, readHeader)
}

func (s *FaultStorage) GetStream(a oid.Address) (*object.Object, io.ReadCloser, error) {
	if s.rfail() {
		return nil, nil, ErrInjectedRead
	}
	return s.Storage.GetStream(a)
}

func (s *FaultStorage) Head(a oid.Address) (*object.Object, error) {
	if s.rfail() {
		return nil, ErrInjectedRead
	}
	return s.Storage.Head(a)
}

func (s *FaultStorage) ReadHeader(a oid.Address, b []byte) (int, error) {
	if s.rfail() {
		return 0, ErrInjectedRead
	}
	return s.Storage.ReadHeader(a, b)
}

func (s *FaultStorage) ReadObject(a oid.Address, b []byte) (int, io.ReadCloser, error) {
	if s.rfail() {
		return 0, nil, ErrInjectedRead
	}
	return s.Storage.ReadObject(a, b)
}

func (s *FaultStorage) ReadPayloadRange(a oid.Address, off, ln uint64, b []byte, f func([]byte) error) (io.ReadCloser, error) {
	if s.rfail() {
		return nil, ErrInjectedRead
	}
	return s.Storage.ReadPayloadRange(a, off, ln, b, f)
}

func (s *FaultStorage) ReadObjectParts(buf []byte, a oid.Address, rng common.PayloadRange, f func([]byte) error) (int, io.ReadCloser, error) {
	if s.rfail() {
		return 0, nil, ErrInjectedRead
	}
	return s.Storage.ReadObjectParts(buf, a, rng, f)
}

func (s *FaultStorage) Exists(a oid.Address) (bool, error) {
	if s.rfail() {
		return false, ErrInjectedRead
	}
	return s.Storage.Exists(a)
}

func (s *FaultStorage) Iterate(f func(oid.Address, []byte) error, eh func(oid.Address, error) error) error {
	if s.rfail() {
		return ErrInjectedRead
	}
	return s.Storage.Iterate(f, eh)
}

func (s *FaultStorage) IterateAddresses(f func(oid.Address) error, ignoreErrors bool) error {
	if s.rfail() {
		return ErrInjectedRead
	}
	return s.Storage.IterateAddresses(f, ignoreErrors)
}
