package metaworld

import (
	"bytes"
	"errors"
	"fmt"
	"io"
	"os"
	"path/filepath"
	"sort"
	"strings"
	"sync/atomic"

	"github.com/nspcc-dev/bbolt"
	"github.com/nspcc-dev/neofs-node/pkg/local_object_storage/blobstor/common"
	meta "github.com/nspcc-dev/neofs-node/pkg/local_object_storage/metabase"
	apistatus "github.com/nspcc-dev/neofs-sdk-go/client/status"
	oid "github.com/nspcc-dev/neofs-sdk-go/object/id"
	"go.uber.org/zap"
)

// StartEpoch / MaxEpoch bound the harness-controlled epoch source. Expirations in the universe are
// 1..3, so every expiry/lock-expiry combination is reachable within three ticks.
const (
	StartEpoch = 1
	MaxEpoch   = 4
)

type epochSrc struct{ e atomic.Uint64 }

func (s *epochSrc) CurrentEpoch() uint64 { return s.e.Load() }

// World is one fresh metabase on tmpfs.
type World struct {
	DB    *meta.DB
	Dir   string
	Path  string
	epoch *epochSrc
}

var scratchRoot atomic.Value // string

// SetScratch sets the parent directory of all worlds (e.g. /dev/shm/verif-c01-<pid>); the caller
// removes it at exit.
func SetScratch(dir string) { scratchRoot.Store(dir) }

// MkScratch creates the per-process scratch root under /dev/shm (falls back to os.TempDir).
func MkScratch(prefix string) string {
	base := "/dev/shm"
	if st, err := os.Stat(base); err != nil || !st.IsDir() {
		base = os.TempDir()
	}
	d, err := os.MkdirTemp(base, prefix+"-")
	if err != nil {
		panic(err)
	}
	SetScratch(d)
	return d
}

func openDB(path string, ep *epochSrc, init bool) (*meta.DB, error) {
	db := meta.New(
		meta.WithPath(path),
		meta.WithPermissions(0o600),
		meta.WithEpochState(ep),
		meta.WithMaxBatchSize(1),
		meta.WithSearchIterationLimit(0),
		meta.WithLogger(zap.NewNop()),
		meta.WithBoltDBOptions(&bbolt.Options{NoSync: true, NoGrowSync: true, NoFreelistSync: true, InitialMmapSize: 1 << 20}),
	)
	if err := db.Open(false); err != nil {
		return nil, err
	}
	if init {
		if err := db.Init(common.ID{}); err != nil {
			db.Close()
			return nil, err
		}
	}
	return db, nil
}

// Open creates a fresh, initialised metabase at StartEpoch.
func Open() *World {
	root, _ := scratchRoot.Load().(string)
	if root == "" {
		panic("metaworld: SetScratch/MkScratch not called")
	}
	dir, err := os.MkdirTemp(root, "w")
	if err != nil {
		panic(err)
	}
	w := &World{Dir: dir, Path: filepath.Join(dir, "meta.db"), epoch: &epochSrc{}}
	w.epoch.e.Store(StartEpoch)
	w.DB, err = openDB(w.Path, w.epoch, true)
	if err != nil {
		panic(fmt.Sprintf("metaworld: open: %v", err))
	}
	return w
}

func (w *World) Close() {
	if w.DB != nil {
		w.DB.Close()
		w.DB = nil
	}
	os.RemoveAll(w.Dir)
}

func (w *World) Epoch() uint64 { return w.epoch.CurrentEpoch() }

// ---- operations -------------------------------------------------------------------------------

type OpKind int

const (
	OpPut OpKind = iota
	OpMarkDefault
	OpMarkRedundant
	OpDelete
	OpRevive
	OpInhumeCnr
	OpDeleteCnr
	OpEpoch
	OpMacro
)

func (k OpKind) String() string {
	return [...]string{"Put", "MarkGarbage", "MarkRedundant", "Delete", "Revive", "InhumeContainer", "DeleteContainer", "Epoch+1", "Macro"}[k]
}

// Op is one letter of the alphabet.
type Op struct {
	Kind OpKind
	Obj  string // universe member (object ops)
	Cnr  int    // container (container ops)
}

func (o Op) String() string {
	switch o.Kind {
	case OpEpoch:
		return "Epoch+1"
	case OpInhumeCnr, OpDeleteCnr:
		return fmt.Sprintf("%s(%s)", o.Kind, CnrNames[o.Cnr])
	}
	return fmt.Sprintf("%s(%s)", o.Kind, o.Obj)
}

// ParseOp is the inverse of Op.String.
func ParseOp(s string) (Op, error) {
	if s == "Epoch+1" {
		return Op{Kind: OpEpoch}, nil
	}
	i := strings.IndexByte(s, '(')
	if i < 0 || !strings.HasSuffix(s, ")") {
		return Op{}, fmt.Errorf("bad op %q", s)
	}
	arg := s[i+1 : len(s)-1]
	if s[:i] == "Macro" {
		if Macros[arg] == nil {
			return Op{}, fmt.Errorf("bad macro in %q", s)
		}
		return Op{Kind: OpMacro, Obj: arg}, nil
	}
	for k := OpPut; k <= OpDeleteCnr; k++ {
		if k.String() != s[:i] {
			continue
		}
		if k == OpInhumeCnr || k == OpDeleteCnr {
			for c, n := range CnrNames {
				if n == arg {
					return Op{Kind: k, Cnr: c}, nil
				}
			}
			return Op{}, fmt.Errorf("bad container in %q", s)
		}
		if ByName[arg] == nil {
			return Op{}, fmt.Errorf("bad object in %q", s)
		}
		return Op{Kind: k, Obj: arg}, nil
	}
	return Op{}, fmt.Errorf("bad op %q", s)
}

// Exec runs op on the real metabase and returns the implementation's verdict (nil = accepted).
func (w *World) Exec(o Op) error {
	switch o.Kind {
	case OpPut:
		return w.DB.Put(ByName[o.Obj].Obj)
	case OpMarkDefault, OpMarkRedundant:
		s := ByName[o.Obj]
		m := meta.GarbageMarkDefault
		if o.Kind == OpMarkRedundant {
			m = meta.GarbageMarkRedundant
		}
		_, err := w.DB.MarkGarbage(Cnrs[s.Cnr], []oid.ID{s.ID}, m)
		return err
	case OpDelete:
		s := ByName[o.Obj]
		_, _, err := w.DB.Delete(Cnrs[s.Cnr], []oid.ID{s.ID})
		return err
	case OpRevive:
		_, err := w.DB.ReviveObject(ByName[o.Obj].Addr())
		return err
	case OpInhumeCnr:
		_, err := w.DB.InhumeContainer(Cnrs[o.Cnr])
		return err
	case OpDeleteCnr:
		return w.DB.DeleteContainer(Cnrs[o.Cnr])
	case OpEpoch:
		w.epoch.e.Add(1)
		return nil
	}
	panic("unknown op")
}

// ErrClass normalises an implementation error for vacuity accounting / observations.
func ErrClass(err error) string {
	switch {
	case err == nil:
		return "ok"
	case errors.Is(err, apistatus.ErrObjectAlreadyRemoved):
		return "err:already-removed"
	case errors.Is(err, apistatus.ErrObjectLocked):
		return "err:locked"
	case errors.Is(err, meta.ErrObjectIsExpired):
		return "err:expired"
	case errors.Is(err, apistatus.ErrObjectNotFound):
		return "err:not-found"
	case errors.Is(err, meta.ErrLockObjectRemoval):
		return "err:lock-removal"
	case errors.Is(err, meta.ErrObjectWasNotRemoved):
		return "err:was-not-removed"
	case errors.Is(err, meta.ErrReviveFromContainerGarbage):
		return "err:container-garbage"
	case errors.As(err, new(apistatus.LockNonRegularObject)), errors.As(err, new(*apistatus.LockNonRegularObject)):
		return "err:lock-non-regular"
	}
	return "err:other"
}

// ---- raw logical dump -------------------------------------------------------------------------

// KV is one key/value of a bucket.
type KV struct{ K, V []byte }

// Dump is the complete logical content of the bbolt file (buckets and keys in sorted order).
type Dump struct {
	Buckets []string
	KVs     map[string][]KV
}

func (w *World) Dump() *Dump { return DumpDB(w.DB) }

func DumpDB(db *meta.DB) *Dump {
	d := &Dump{KVs: map[string][]KV{}}
	err := db.VerifDump(func(b, k, v []byte) {
		bs := string(b)
		if _, ok := d.KVs[bs]; !ok {
			d.Buckets = append(d.Buckets, bs)
		}
		d.KVs[bs] = append(d.KVs[bs], KV{bytes.Clone(k), bytes.Clone(v)})
	})
	if err != nil {
		panic(fmt.Sprintf("metaworld: dump: %v", err))
	}
	sort.Strings(d.Buckets)
	return d
}

// Canon renders the dump canonically (hash input for the explicit-state search).
func (d *Dump) Canon() string {
	var sb strings.Builder
	for _, b := range d.Buckets {
		fmt.Fprintf(&sb, "B%x\n", b)
		for _, kv := range d.KVs[b] {
			fmt.Fprintf(&sb, "%x=%x\n", kv.K, kv.V)
		}
	}
	return sb.String()
}

// Cnr returns the key/values of container c's metadata bucket (nil if the bucket does not exist).
func (d *Dump) Cnr(c int) ([]KV, bool) {
	name := string(append([]byte{0xFF}, Cnrs[c][:]...))
	kvs, ok := d.KVs[name]
	return kvs, ok
}

// CopyAndSync copies the live bbolt file (all transactions are committed and written through the
// page cache, the harness is single-threaded per world), opens the copy as a second metabase and
// runs the repository's own forced recount (DB.SyncCounters) on it. The returned DB must be closed
// by the caller with CloseCopy.
func (w *World) CopyAndSync() (*meta.DB, string, error) {
	cp := w.Path + ".copy"
	src, err := os.Open(w.Path)
	if err != nil {
		return nil, "", err
	}
	dst, err := os.Create(cp)
	if err != nil {
		src.Close()
		return nil, "", err
	}
	_, err = io.Copy(dst, src)
	src.Close()
	dst.Close()
	if err != nil {
		return nil, "", err
	}
	db, err := openDB(cp, w.epoch, false)
	if err != nil {
		return nil, "", err
	}
	if err := db.SyncCounters(); err != nil {
		db.Close()
		return nil, "", err
	}
	return db, cp, nil
}

// SyncInPlace runs the repository's forced recount on the live DB (the world must be discarded
// afterwards: its counters are no longer the incrementally kept ones).
func (w *World) SyncInPlace() error { return w.DB.SyncCounters() }

func CloseCopy(db *meta.DB, path string) {
	db.Close()
	os.Remove(path)
}
