package metaworld

import (
	"fmt"
)

// Sys is one fresh metabase plus the reference model riding along; it implements seqx.Sys. The
// oracle is supplied by the property (C01: views, C02: counters).
type Sys struct {
	W      *World
	M      *Model
	Ops    []Op
	Hist   []int   // indexes into Ops applied so far
	Errs   []error // implementation verdict of each applied op
	Oracle func(s *Sys) (fp, what string)
	// OnStep, if set, runs after every elementary operation (also inside a macro) with the
	// implementation's verdict; first is true for the first step of the current Apply call.
	OnStep func(s *Sys, o Op, err error, first bool)
	// Steps is the flattened list of elementary operations applied so far (macros expanded);
	// LastSteps is how many of them belong to the last Apply call.
	Steps     []Op
	LastSteps int
	frozenKey string
}

// NewSys opens a fresh world with the reference model at its initial state.
func NewSys(ops []Op, oracle func(*Sys) (string, string)) *Sys {
	return &Sys{W: Open(), M: NewModel(), Ops: ops, Oracle: oracle}
}

func (s *Sys) step(o Op, first bool) error {
	err := s.W.Exec(o)
	s.M.Apply(o, err == nil)
	s.Steps = append(s.Steps, o)
	if s.OnStep != nil {
		s.OnStep(s, o, err, first)
	}
	return err
}

// Apply implements seqx.Sys. A macro (a scripted prefix that seeds the search with a dense
// situation) is enabled only in the initial state; Epoch+1 only below MaxEpoch.
func (s *Sys) Apply(i int) (string, bool) {
	o := s.Ops[i]
	switch o.Kind {
	case OpEpoch:
		if s.W.Epoch() >= MaxEpoch {
			return "", false
		}
	case OpMacro:
		if len(s.Hist) != 0 {
			return "", false
		}
		obs := ""
		var last error
		s.LastSteps = len(Macros[o.Obj])
		for j, sub := range Macros[o.Obj] {
			last = s.step(sub, j == 0)
			obs += ErrClass(last)[:2]
		}
		s.Hist = append(s.Hist, i)
		s.Errs = append(s.Errs, last)
		return obs, true
	}
	s.LastSteps = 1
	err := s.step(o, true)
	s.Hist = append(s.Hist, i)
	s.Errs = append(s.Errs, err)
	return ErrClass(err), true
}

// Last returns the last applied operation and its verdict (ok=false at the root).
func (s *Sys) Last() (Op, error, bool) {
	if len(s.Hist) == 0 {
		return Op{}, nil, false
	}
	return s.Ops[s.Hist[len(s.Hist)-1]], s.Errs[len(s.Errs)-1], true
}

// Key implements seqx.Sys. FreezeKey computes it early for oracles that modify the world while
// judging it (seqx asks for the key after Check; the instance is discarded afterwards).
func (s *Sys) Key() string {
	if s.frozenKey != "" {
		return s.frozenKey
	}
	return s.W.Dump().Canon() + fmt.Sprintf("#%d#", s.W.Epoch()) + s.M.Key()
}

// FreezeKey fixes the state key at the current state.
func (s *Sys) FreezeKey() { s.frozenKey = ""; s.frozenKey = s.Key() }

func (s *Sys) Check() (string, string) { return s.Oracle(s) }

func (s *Sys) Close() { s.W.Close() }

// HistNames renders the history.
func (s *Sys) HistNames() []string {
	var r []string
	for _, i := range s.Hist {
		r = append(r, s.Ops[i].String())
	}
	return r
}

// ---- alphabets ---------------------------------------------------------------------------------

func objOps(k OpKind, names ...string) []Op {
	var r []Op
	for _, n := range names {
		if ByName[n] == nil {
			panic("unknown universe member " + n)
		}
		r = append(r, Op{Kind: k, Obj: n})
	}
	return r
}

// FullAlphabet is the complete operation alphabet, simplest first.
func FullAlphabet() []Op {
	var ops []Op
	for _, s := range Specs {
		if s.Put && !s.Extra {
			ops = append(ops, Op{Kind: OpPut, Obj: s.Name})
		}
	}
	ops = append(ops, Op{Kind: OpEpoch})
	ops = append(ops, objOps(OpMarkDefault, "R1", "R2", "P", "C2", "E", "E0", "L1", "T1", "R3", "Q", "X")...)
	ops = append(ops, objOps(OpMarkRedundant, "R1", "R2", "C2", "E0")...)
	ops = append(ops, objOps(OpDelete, "R1", "R2", "C1", "C2", "K", "E0", "E1", "T1", "T2", "L1", "R3", "D0")...)
	ops = append(ops, objOps(OpRevive, "R1", "R2", "P", "C1", "C2", "E", "E0", "R3", "D", "D0")...)
	for c := 0; c < NCnr; c++ {
		ops = append(ops, Op{Kind: OpInhumeCnr, Cnr: c})
	}
	for c := 0; c < NCnr; c++ {
		ops = append(ops, Op{Kind: OpDeleteCnr, Cnr: c})
	}
	return ops
}

// ChainAlphabet drives the chain-shape families (v2 chain with middle parts, v1 chain): puts of every
// member in any order and subset, parent expiry, tombstone / garbage mark on the parent, revival
// and deletion of parts.
func ChainAlphabet() []Op {
	return OpsByName("Put(Ga)", "Put(G2)", "Put(Gb)", "Put(GK)", "Put(Gc)", "Put(G1)", "Put(Va)", "Put(Vl)", "Put(Vb)",
		"Epoch+1", "Put(TG)", "Put(TW)", "MarkGarbage(G)", "MarkGarbage(W)",
		"Revive(G)", "Revive(Ga)", "Revive(Va)", "Delete(G2)", "Delete(Vl)")
}

// OpsByName resolves a list of rendered operations.
func OpsByName(names ...string) []Op {
	var r []Op
	for _, n := range names {
		o, err := ParseOp(n)
		if err != nil {
			panic(err)
		}
		r = append(r, o)
	}
	return r
}

// Macros are scripted prefixes offered as extra letters that are enabled in the initial state only;
// they put the search root into dense situations (locks + marks, split chain + tombstone, EC
// family, two-level family, expirations) so that a search of depth d covers these prefixes
// followed by every sequence of d-1 operations.
var Macros = map[string][]Op{}

func initMacros() { // called at the end of the universe's init (ByName must be filled)
	Macros["locks"] = OpsByName("Put(R1)", "Put(L1)", "Put(L4)", "Put(R2)", "Put(L3)")
	Macros["chain"] = OpsByName("Put(C1)", "Put(C2)", "Put(K)", "Put(L2)")
	Macros["chain-tomb"] = OpsByName("Put(C1)", "Put(C2)", "Put(K)", "Put(T2)")
	Macros["ec"] = OpsByName("Put(E0)", "Put(E1)", "Put(T5)")
	Macros["marks"] = OpsByName("Put(R1)", "Put(R2)", "MarkRedundant(R1)", "MarkGarbage(R2)", "Put(T1)")
	Macros["late"] = OpsByName("Epoch+1", "Epoch+1", "Put(R1)", "Put(L1)", "Put(E0)", "Put(D0)")
	Macros["cb"] = OpsByName("Put(R3)", "Put(D0)", "Put(T4)", "Put(R2)")
	// chain-shape prefixes (offered by the chain alphabet only)
	Macros["v2chain"] = OpsByName("Put(G1)", "Put(Ga)", "Put(Gb)", "Put(Gc)", "Put(G2)", "Put(GK)")
	Macros["v2chain-no-last"] = OpsByName("Put(Ga)", "Put(Gb)", "Put(Gc)", "Put(GK)")
	Macros["v1chain"] = OpsByName("Put(Va)", "Put(Vl)", "Put(Vb)")
	// families stored next to an unrelated object, their virtual parents marked through the parent ID
	// (offered by C02's parent-mark alphabet only)
	Macros["parents-marked"] = OpsByName("Put(R2)", "Put(C2)", "Put(K)", "Put(E0)", "Put(E1)", "MarkGarbage(P)", "MarkRedundant(E)")
	Macros["parents-marked-2"] = OpsByName("Put(R2)", "Put(C2)", "Put(K)", "Put(E0)", "Put(E1)", "MarkRedundant(P)", "MarkGarbage(E)")
}

// ChainMacroOps returns the chain-shape prefixes.
func ChainMacroOps() []Op {
	var r []Op
	for _, n := range []string{"v2chain", "v2chain-no-last", "v1chain"} {
		r = append(r, Op{Kind: OpMacro, Obj: n})
	}
	return r
}

// MacroOps returns the macro letters in a fixed order.
func MacroOps() []Op {
	var r []Op
	for _, n := range []string{"locks", "chain", "chain-tomb", "ec", "marks", "late", "cb"} {
		r = append(r, Op{Kind: OpMacro, Obj: n})
	}
	return r
}
