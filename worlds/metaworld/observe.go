package metaworld

import (
	"encoding/base64"
	"errors"
	"fmt"
	"sort"

	iec "github.com/nspcc-dev/neofs-node/internal/ec"
	ierrors "github.com/nspcc-dev/neofs-node/internal/errors"
	objectcore "github.com/nspcc-dev/neofs-node/pkg/core/object"
	meta "github.com/nspcc-dev/neofs-node/pkg/local_object_storage/metabase"
	apistatus "github.com/nspcc-dev/neofs-sdk-go/client/status"
	"github.com/nspcc-dev/neofs-sdk-go/object"
	oid "github.com/nspcc-dev/neofs-sdk-go/object/id"
)

// Cls is the class a read view puts an address into.
type Cls uint8

const (
	ClsPresent  Cls = iota // returned / exists=true
	ClsVirtual             // reported as a parent of stored parts (split info / EC parts error)
	ClsNotFound            // ObjectNotFound error, or plain "does not exist"
	ClsRemoved             // ObjectAlreadyRemoved
	ClsExpired             // ErrObjectIsExpired
	ClsOther               // anything else (always a failure)
)

func (c Cls) String() string {
	return [...]string{"present", "present(parent)", "not-found", "removed", "expired", "other-error"}[c]
}

// St maps a view class onto the status vocabulary of the model.
func (c Cls) St() St {
	switch c {
	case ClsPresent, ClsVirtual:
		return Avail
	case ClsNotFound:
		return NotFound
	case ClsRemoved:
		return Removed
	case ClsExpired:
		return Expired
	}
	return 0
}

func classify(present bool, err error) Cls {
	switch {
	case err == nil:
		if present {
			return ClsPresent
		}
		return ClsNotFound
	case errors.Is(err, apistatus.ErrObjectAlreadyRemoved):
		return ClsRemoved
	case errors.Is(err, meta.ErrObjectIsExpired):
		return ClsExpired
	case errors.Is(err, apistatus.ErrObjectNotFound):
		return ClsNotFound
	case errors.Is(err, ierrors.ErrParentObject), errors.As(err, new(*object.SplitInfoError)), errors.As(err, new(iec.ErrParts)):
		return ClsVirtual
	}
	return ClsOther
}

// AddrObs is what every view says about one address.
type AddrObs struct {
	Exists, ExistsNoExp                  Cls
	Get, GetRaw                          Cls
	GetHdrOK                             bool // returned header has the right ID, type and payload size
	Locked                               bool
	EC                                   Cls    // ResolveECPart(cnr, addr, rule 0 / index 0) error class
	ECPart                               string // resolved part (universe name), "" if none
	InAll, InRoot, InPhy, InAttr, InType bool   // search results: unfiltered, ROOT, PHY, kind=doc, type=REGULAR
	InList                               bool
	InExpired                            bool
	InGarbage                            bool // listed by garbage iteration of its container
	Errs                                 string
}

// Obs is one full observation of the world through its public read views.
type Obs struct {
	A          map[string]*AddrObs
	EC1        Cls // ResolveECPart(cA, E, rule 0 / index 1)
	EC1Part    string
	ListPaged  []string // ListWithCursor with count=2 pages, concatenated
	ListFull   []string
	CnrGarbage [NCnr]bool // GetGarbage reports the container as removable (empty object list)
	Foreign    []string   // anything a view returned that is not in the universe
}

// search is DB.Select (the repository's test wrapper around DB.Search: preprocess the query, page
// until the cursor is empty) with a page of 16 instead of 65535 results.
func (w *World) search(c int, fs object.SearchFilters) ([]oid.Address, error) {
	var (
		res    []oid.Address
		attrs  []string
		cursor string
	)
	if len(fs) > 0 {
		attrs = append(attrs, fs[0].Header())
	}
	for {
		ofs, cur, err := objectcore.PreprocessSearchQuery(fs, attrs, cursor)
		if err != nil {
			return nil, err
		}
		items, next, err := w.DB.Search(Cnrs[c], ofs, attrs, cur, 16)
		if err != nil {
			return nil, err
		}
		for i := range items {
			res = append(res, oid.NewAddress(Cnrs[c], items[i].ID))
		}
		if len(next) == 0 {
			return res, nil
		}
		cursor = base64.StdEncoding.EncodeToString(next)
	}
}

func (w *World) Observe() *Obs {
	o := &Obs{A: map[string]*AddrObs{}}
	for _, s := range Specs {
		o.A[s.Name] = &AddrObs{}
	}
	note := func(a *AddrObs, what string, err error) {
		if err != nil {
			a.Errs += fmt.Sprintf("%s: %v; ", what, err)
		}
	}
	for _, s := range Specs {
		a := o.A[s.Name]
		ex, err := w.DB.Exists(s.Addr(), false)
		a.Exists = classify(ex, err)
		if a.Exists == ClsOther {
			note(a, "Exists", err)
		}
		ex, err = w.DB.Exists(s.Addr(), true)
		a.ExistsNoExp = classify(ex, err)
		if a.ExistsNoExp == ClsOther {
			note(a, "Exists(ignoreExpiration)", err)
		}
		h, err := w.DB.Get(s.Addr(), false)
		a.Get = classify(h != nil, err)
		if a.Get == ClsOther {
			note(a, "Get", err)
		}
		if err == nil && h != nil {
			a.GetHdrOK = h.GetID() == s.ID && h.Type() == s.Type && h.PayloadSize() == s.Size && h.GetContainerID() == Cnrs[s.Cnr]
		}
		h, err = w.DB.Get(s.Addr(), true)
		a.GetRaw = classify(h != nil, err)
		if a.GetRaw == ClsOther {
			note(a, "Get(raw)", err)
		}
		a.Locked, err = w.DB.IsLocked(s.Addr())
		note(a, "IsLocked", err)
		id, err := w.DB.ResolveECPart(Cnrs[s.Cnr], s.ID, iec.PartInfo{RuleIndex: 0, Index: 0})
		a.EC = classify(err == nil, err)
		if err == nil {
			a.ECPart = NameOf(s.Cnr, id)
		}
	}
	id, err := w.DB.ResolveECPart(Cnrs[CA], ByName["E"].ID, iec.PartInfo{RuleIndex: 0, Index: 1})
	o.EC1 = classify(err == nil, err)
	if err == nil {
		o.EC1Part = NameOf(CA, id)
	}

	sel := func(c int, fs object.SearchFilters, set func(*AddrObs)) {
		res, err := w.search(c, fs)
		if err != nil {
			o.Foreign = append(o.Foreign, fmt.Sprintf("Search error: %v", err))
			return
		}
		for _, ad := range res {
			if s := Lookup(ad); s != nil {
				set(o.A[s.Name])
			} else {
				o.Foreign = append(o.Foreign, "search:"+ad.String())
			}
		}
	}
	for c := 0; c < NCnr; c++ {
		sel(c, nil, func(a *AddrObs) { a.InAll = true })
		var fr, fp, fa, ft object.SearchFilters
		fr.AddRootFilter()
		sel(c, fr, func(a *AddrObs) { a.InRoot = true })
		fp.AddPhyFilter()
		sel(c, fp, func(a *AddrObs) { a.InPhy = true })
		fa.AddFilter(UserAttr, "doc", object.MatchStringEqual)
		sel(c, fa, func(a *AddrObs) { a.InAttr = true })
		ft.AddFilter(object.FilterType, object.TypeRegular.String(), object.MatchStringEqual)
		sel(c, ft, func(a *AddrObs) { a.InType = true })
	}

	// listing: one big page, and pages of 2
	res, _, err := w.DB.ListWithCursor(1000, nil)
	if err != nil && !errors.Is(err, meta.ErrEndOfListing) {
		o.Foreign = append(o.Foreign, fmt.Sprintf("ListWithCursor error: %v", err))
	}
	for _, r := range res {
		if s := Lookup(r.Address); s != nil {
			o.A[s.Name].InList = true
			o.ListFull = append(o.ListFull, s.Name)
		} else {
			o.Foreign = append(o.Foreign, "list:"+r.Address.String())
		}
	}
	var cur *meta.Cursor
	for i := 0; i < 100; i++ {
		page, next, err := w.DB.ListWithCursor(2, cur)
		if err != nil {
			if !errors.Is(err, meta.ErrEndOfListing) {
				o.Foreign = append(o.Foreign, fmt.Sprintf("ListWithCursor(2) error: %v", err))
			}
			break
		}
		for _, r := range page {
			if s := Lookup(r.Address); s != nil {
				o.ListPaged = append(o.ListPaged, s.Name)
			}
		}
		cur = next
	}

	err = w.DB.IterateExpired(w.Epoch(), func(ad oid.Address, _ object.Type) error {
		if s := Lookup(ad); s != nil {
			o.A[s.Name].InExpired = true
		} else {
			o.Foreign = append(o.Foreign, "expired:"+ad.String())
		}
		return nil
	})
	if err != nil {
		o.Foreign = append(o.Foreign, fmt.Sprintf("IterateExpired error: %v", err))
	}

	bins, err := w.DB.GetGarbage(1000)
	if err != nil {
		o.Foreign = append(o.Foreign, fmt.Sprintf("GetGarbage error: %v", err))
	}
	for _, b := range bins {
		c := -1
		for i := range Cnrs {
			if Cnrs[i] == b.Container {
				c = i
			}
		}
		if c < 0 {
			o.Foreign = append(o.Foreign, "garbage container:"+b.Container.String())
			continue
		}
		if len(b.Objects) == 0 {
			o.CnrGarbage[c] = true
		}
		for _, id := range b.Objects {
			if s := Lookup(oid.NewAddress(b.Container, id)); s != nil {
				o.A[s.Name].InGarbage = true
			} else {
				o.Foreign = append(o.Foreign, "garbage:"+id.String())
			}
		}
	}
	sort.Strings(o.Foreign)
	return o
}
