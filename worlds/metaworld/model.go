package metaworld

import (
	"fmt"
	"sort"
	"strings"
)

// Reference model of the metabase, written from the text of properties C01/C02 and the documented
// effect of each operation -- not from the implementation's status code.
//
// * Acceptance of an operation is NOT re-derived: the implementation's return value (nil / error)
//   is an input of Apply; the model applies the operation's specified effect only when accepted.
// * The status oracle is the property's rule set verbatim (see Status).
// * Where the text is silent the model answers with a SET of allowed statuses instead of one value
//   (several removal reasons at once: any of them; tombstone + live lock: either; garbage mark
//   requested for an object that is not stored: marked or not).

// Mark is a garbage mark.
type Mark uint8

const (
	MarkNone Mark = iota
	MarkDefault
	MarkRedundant
)

// Rec is one indexed object (physical, or a parent header carried by a stored child).
type Rec struct {
	Name string
	Phys bool
}

// CnrState is the model of one container.
type CnrState struct {
	Removed bool            // the whole container was marked for removal
	Objs    map[string]*Rec // indexed objects by universe name
	Marks   map[string]Mark // definite garbage marks
	Unsure  map[string]bool // a mark was requested while the object was not stored: marked or not
	// ByTomb: the default mark of this part was placed by a tombstone put on its parent (it is the
	// mechanism of that removal, not a removal reason of its own) and not confirmed by an explicit mark.
	ByTomb map[string]bool
}

// Model is the reference state.
type Model struct {
	Epoch uint64
	C     [NCnr]CnrState
}

func NewModel() *Model {
	m := &Model{Epoch: StartEpoch}
	for c := range m.C {
		m.C[c] = newCnr()
	}
	return m
}

func newCnr() CnrState {
	return CnrState{Objs: map[string]*Rec{}, Marks: map[string]Mark{}, Unsure: map[string]bool{}, ByTomb: map[string]bool{}}
}

// Key is the canonical rendering of the model state.
func (m *Model) Key() string {
	var sb strings.Builder
	fmt.Fprintf(&sb, "e%d", m.Epoch)
	for c := range m.C {
		cs := &m.C[c]
		fmt.Fprintf(&sb, "|%v", cs.Removed)
		var ks []string
		for n, r := range cs.Objs {
			ks = append(ks, fmt.Sprintf("o%s:%v", n, r.Phys))
		}
		for n, mk := range cs.Marks {
			ks = append(ks, fmt.Sprintf("m%s:%d", n, mk))
		}
		for n := range cs.Unsure {
			ks = append(ks, "u"+n)
		}
		for n := range cs.ByTomb {
			ks = append(ks, "t"+n)
		}
		sort.Strings(ks)
		sb.WriteString(strings.Join(ks, ","))
	}
	return sb.String()
}

// ---- relations (from stored headers only: what is not stored cannot be known) -------------------

// headerParent is the parent named (with ID) by the stored header of x.
func (cs *CnrState) headerParent(x string) string {
	if cs.Objs[x] == nil {
		return ""
	}
	return ByName[x].Parent
}

// Children lists the stored members of p's family that p's stored descendants reveal: objects
// naming p as parent, the members of their split chain (same first-part ID, and that first part
// itself), and recursively the children of those.
func (cs *CnrState) Children(p string) []string {
	seen := map[string]bool{}
	var res []string
	add := func(n string) {
		if !seen[n] && n != p {
			seen[n] = true
			res = append(res, n)
		}
	}
	var direct []string
	for _, s := range Specs {
		if cs.Objs[s.Name] != nil && s.Parent == p {
			direct = append(direct, s.Name)
		}
	}
	for _, d := range direct {
		add(d)
		if f := ByName[d].First; f != "" {
			add(f) // the first part is addressed even if it is not stored (its mark is then moot)
			for _, s := range Specs {
				if cs.Objs[s.Name] != nil && s.First == f {
					add(s.Name)
				}
			}
		} else if sid := ByName[d].Split; sid != "" { // v1 chain: bound by the split ID
			for _, s := range Specs {
				if cs.Objs[s.Name] != nil && s.Split == sid {
					add(s.Name)
				}
			}
		}
	}
	for _, n := range append([]string(nil), res...) {
		for _, g := range cs.Children(n) {
			add(g)
		}
	}
	return res
}

// linkedParent is the parent of a stored part x that carries no parent header itself but names its
// chain in its own header (first-part ID of a v2 chain, split ID of a v1 chain), as revealed by any
// stored sibling naming the same chain and carrying the parent header -- whatever the order of
// their IDs.
func (cs *CnrState) linkedParent(x string) string {
	sx := ByName[x]
	if cs.Objs[x] == nil || sx.Parent != "" || (sx.First == "" && sx.Split == "") {
		return ""
	}
	for _, s := range Specs {
		if cs.Objs[s.Name] == nil || s.Parent == "" || s.Cnr != sx.Cnr {
			continue
		}
		if (sx.First != "" && s.First == sx.First) || (sx.Split != "" && s.Split == sx.Split) {
			return s.Parent
		}
	}
	return ""
}

// chainParent is the parent of a header-less first part x, if stored chain members reveal it.
func (cs *CnrState) chainParent(x string) string {
	for _, s := range Specs {
		if cs.Objs[s.Name] != nil && s.First == x && s.Parent != "" {
			return s.Parent
		}
	}
	return ""
}

// ---- operations --------------------------------------------------------------------------------

func (cs *CnrState) setMark(x string, mk Mark) {
	stored := cs.Objs[x] != nil
	cur, has := cs.Marks[x]
	switch {
	case !stored && !has:
		cs.Unsure[x] = true // requested for an object that is not stored: effect unspecified
	case mk == MarkDefault:
		cs.Marks[x] = MarkDefault
		delete(cs.Unsure, x)
		delete(cs.ByTomb, x) // now a removal reason of its own
	case !has || cur == MarkNone:
		if !cs.Unsure[x] {
			cs.Marks[x] = MarkRedundant
		}
	}
}

func (cs *CnrState) store(x string, phys bool) {
	if cs.Objs[x] != nil {
		return // already indexed: a repeated put changes nothing
	}
	cs.Objs[x] = &Rec{Name: x, Phys: phys}
	if p := ByName[x].Parent; p != "" {
		cs.store(p, false) // the parent header travels with the child
	}
}

// remove drops the index of x together with its mark; a parent header goes with its last child.
func (cs *CnrState) remove(x string) {
	delete(cs.Objs, x)
	delete(cs.Marks, x)
	delete(cs.Unsure, x)
	delete(cs.ByTomb, x)
	if p := ByName[x].Parent; p != "" && cs.Objs[p] != nil && !cs.Objs[p].Phys {
		for _, s := range Specs {
			if cs.Objs[s.Name] != nil && s.Parent == p {
				return
			}
		}
		cs.remove(p)
	}
}

// Apply applies the specified effect of op; accepted is the implementation's verdict.
func (m *Model) Apply(o Op, accepted bool) {
	if o.Kind == OpEpoch {
		m.Epoch++
		return
	}
	if !accepted {
		return
	}
	switch o.Kind {
	case OpInhumeCnr:
		m.C[o.Cnr].Removed = true
		return
	case OpDeleteCnr:
		m.C[o.Cnr] = newCnr()
		return
	}
	s := ByName[o.Obj]
	cs := &m.C[s.Cnr]
	switch o.Kind {
	case OpPut:
		if cs.Objs[s.Name] != nil {
			return
		}
		if s.Kind == KTomb { // a tombstone marks its target and every known part of it for removal
			for _, ch := range cs.Children(s.Target) {
				if cs.Marks[ch] != MarkDefault || cs.Unsure[ch] {
					cs.ByTomb[ch] = true
				}
				cs.Marks[ch] = MarkDefault
				delete(cs.Unsure, ch)
			}
			if cs.Marks[s.Target] != MarkDefault || cs.Unsure[s.Target] {
				cs.ByTomb[s.Target] = true
			}
			cs.Marks[s.Target] = MarkDefault
			delete(cs.Unsure, s.Target)
		}
		cs.store(s.Name, true)
	case OpMarkDefault, OpMarkRedundant:
		if cs.Removed {
			return
		}
		mk := MarkDefault
		if o.Kind == OpMarkRedundant {
			mk = MarkRedundant
		}
		for _, ch := range cs.Children(s.Name) {
			cs.setMark(ch, mk)
		}
		cs.setMark(s.Name, mk)
	case OpDelete:
		if r := cs.Objs[s.Name]; r != nil && !r.Phys {
			return // only physical objects can be deleted directly
		}
		cs.remove(s.Name)
	case OpRevive:
		for _, t := range Specs { // the tombstone goes away together with the marks
			if t.Kind == KTomb && t.Target == s.Name && t.Cnr == s.Cnr && cs.Objs[t.Name] != nil {
				cs.remove(t.Name)
				break
			}
		}
		delete(cs.Marks, s.Name)
		delete(cs.Unsure, s.Name)
		delete(cs.ByTomb, s.Name)
	}
}

// ---- status rules (the property text) ----------------------------------------------------------

// St is a set of statuses.
type St uint8

const (
	Avail    St = 1 << iota // no removal reason applies (present if indexed, plain absent otherwise)
	NotFound                // marked as garbage / container removed
	Removed                 // a tombstone targets it
	Expired                 // past its expiration epoch
)

func (s St) String() string {
	var p []string
	for i, n := range []string{"available", "not-found", "removed", "expired"} {
		if s&(1<<i) != 0 {
			p = append(p, n)
		}
	}
	return strings.Join(p, "|")
}

// Single reports whether exactly one status is allowed.
func (s St) Single() bool { return s != 0 && s&(s-1) == 0 }

// view is the model under one resolution of the unsure marks.
type view struct {
	m      *Model
	cs     *CnrState
	assume map[string]bool // unsure name -> marked (default) under this resolution
	noExp  bool            // ignore expiration (of the object itself)
}

func (v *view) markedDefault(x string) bool {
	if v.cs.Unsure[x] {
		return v.assume[x]
	}
	return v.cs.Marks[x] == MarkDefault
}

func (v *view) expired(x string) bool {
	e := ByName[x].Exp
	return v.cs.Objs[x] != nil && e >= 0 && v.m.Epoch > uint64(e)
}

func (v *view) tombstoned(x string) bool {
	for _, t := range Specs {
		if t.Kind == KTomb && t.Target == x && v.cs.Objs[t.Name] != nil {
			return true
		}
	}
	return false
}

// lockedLive: some stored, unexpired LOCK targets x and that lock itself is neither removed nor
// garbage-marked.
func (v *view) lockedLive(x string) bool {
	for _, l := range Specs {
		if l.Kind != KLock || l.Target != x || v.cs.Objs[l.Name] == nil {
			continue
		}
		if v.expired(l.Name) || v.tombstoned(l.Name) || v.markedDefault(l.Name) {
			continue
		}
		return true
	}
	return false
}

// own: the status of x by itself.
func (v *view) own(x string) St {
	var reasons St
	if !v.noExp && v.expired(x) {
		reasons |= Expired
	}
	if v.tombstoned(x) {
		reasons |= Removed
	}
	if v.markedDefault(x) && !(v.cs.ByTomb[x] && !v.cs.Unsure[x] && v.tombstoned(x)) {
		// (the mark a tombstone put placed on its own target is no second reason while the
		// tombstone is there)
		reasons |= NotFound
	}
	if reasons == 0 {
		return Avail
	}
	if v.lockedLive(x) { // a live lock overrides expiry and garbage marks
		if reasons&Removed != 0 {
			return Avail | Removed // the text does not say which of lock and tombstone wins
		}
		return Avail
	}
	return reasons // several reasons at once: the text gives no precedence, any is fine
}

func combine(own, par St) St {
	var r St
	for _, a := range []St{Avail, NotFound, Removed, Expired} {
		if own&a == 0 {
			continue
		}
		for _, b := range []St{Avail, NotFound, Removed, Expired} {
			if par&b == 0 {
				continue
			}
			switch {
			case a == Avail:
				r |= b // a child inherits a worse status from its parent
			case b == Avail:
				r |= a
			default:
				r |= a | b // both bad: "worse" is not ordered by the text
			}
		}
	}
	return r
}

// inherit combines the own status of x with its parent's. A default mark that a tombstone put on
// the parent placed on x is the mechanism of that removal, not a reason of its own: whatever worse
// status the parent has wins over it (the mark alone remains once the parent is fine again).
func (v *view) inherit(x string, own, par St) St {
	if own == NotFound && v.cs.ByTomb[x] && !v.cs.Unsure[x] {
		var r St
		for _, b := range []St{Avail, NotFound, Removed, Expired} {
			if par&b == 0 {
				continue
			}
			if b == Avail {
				r |= NotFound
			} else {
				r |= b
			}
		}
		return r
	}
	return combine(own, par)
}

func (v *view) full(x string, depth int) St {
	o := v.own(x)
	if depth >= 2 {
		return o
	}
	if p := v.cs.headerParent(x); p != "" {
		return v.inherit(x, o, v.full(p, depth+1))
	}
	if p := v.cs.linkedParent(x); p != "" {
		// x names its chain in its own header: it is a child of the parent the chain reveals
		return v.inherit(x, o, v.full(p, depth+1))
	}
	if p := v.cs.chainParent(x); p != "" {
		// x carries neither a parent header nor a chain reference (first part of a v2 chain): the
		// text speaks of children put with split headers, so inheriting here is allowed, not demanded.
		return o | combine(o, v.full(p, depth+1))
	}
	return o
}

// resolutions enumerates the assignments of the unsure marks of container c (capped).
func (m *Model) resolutions(c int) []map[string]bool {
	var names []string
	for n := range m.C[c].Unsure {
		names = append(names, n)
	}
	sort.Strings(names)
	if len(names) > 6 {
		return nil
	}
	var res []map[string]bool
	for bits := 0; bits < 1<<len(names); bits++ {
		a := map[string]bool{}
		for i, n := range names {
			a[n] = bits&(1<<i) != 0
		}
		res = append(res, a)
	}
	return res
}

// Status returns the set of statuses the rules allow for x (0 = not judged). With ignoreExp the
// object's own expiration (and that of its parents) is disregarded.
func (m *Model) Status(x string, ignoreExp bool) St {
	s := ByName[x]
	cs := &m.C[s.Cnr]
	if cs.Removed {
		return NotFound
	}
	rs := m.resolutions(s.Cnr)
	if rs == nil {
		return 0
	}
	var r St
	for _, a := range rs {
		v := &view{m: m, cs: cs, assume: a, noExp: ignoreExp}
		r |= v.full(x, 0)
	}
	return r
}

// Tri is a three-valued answer.
type Tri uint8

const (
	No Tri = iota
	Yes
	Either
)

func (m *Model) tri(c int, f func(v *view) bool) Tri {
	rs := m.resolutions(c)
	if rs == nil {
		return Either
	}
	var y, n bool
	for _, a := range rs {
		if f(&view{m: m, cs: &m.C[c], assume: a}) {
			y = true
		} else {
			n = true
		}
	}
	switch {
	case y && n:
		return Either
	case y:
		return Yes
	}
	return No
}

// Locked: is x protected by a live lock.
func (m *Model) Locked(x string) Tri {
	return m.tri(ByName[x].Cnr, func(v *view) bool { return v.lockedLive(x) })
}

// OwnExpiredUnlocked: x is indexed, past its own expiration epoch and not live-locked.
func (m *Model) OwnExpiredUnlocked(x string) Tri {
	return m.tri(ByName[x].Cnr, func(v *view) bool { return v.expired(x) && !v.lockedLive(x) })
}

// Stored reports whether x is indexed (phys tells whether as a physical object).
func (m *Model) Stored(x string) (stored, phys bool) {
	r := m.C[ByName[x].Cnr].Objs[x]
	if r == nil {
		return false, false
	}
	return true, r.Phys
}

// HasExpiredLock reports whether a stored lock of x's container is past its expiration.
func (m *Model) HasExpiredLock(c int) bool {
	v := &view{m: m, cs: &m.C[c]}
	for _, l := range Specs {
		if l.Kind == KLock && l.Cnr == c && v.expired(l.Name) {
			return true
		}
	}
	return false
}

// MarkOf returns the definite mark of x and whether it is unsure.
func (m *Model) MarkOf(x string) (Mark, bool) {
	cs := &m.C[ByName[x].Cnr]
	return cs.Marks[x], cs.Unsure[x]
}

// Tombstoned reports whether a stored tombstone targets x.
func (m *Model) Tombstoned(x string) bool {
	v := &view{m: m, cs: &m.C[ByName[x].Cnr]}
	return v.tombstoned(x)
}

// ParentOf returns the parent that stored headers reveal for x ("" if none) and whether x itself
// carries the parent header.
func (m *Model) ParentOf(x string) (string, bool) {
	cs := &m.C[ByName[x].Cnr]
	if p := cs.headerParent(x); p != "" {
		return p, true
	}
	if p := cs.linkedParent(x); p != "" {
		return p, true
	}
	return cs.chainParent(x), false
}

// LockInfo counts the stored locks targeting x and how many of them are certainly live.
func (m *Model) LockInfo(x string) (stored, live int) {
	cs := &m.C[ByName[x].Cnr]
	v := &view{m: m, cs: cs, assume: map[string]bool{}}
	for _, l := range Specs {
		if l.Kind != KLock || l.Target != x || cs.Objs[l.Name] == nil {
			continue
		}
		stored++
		if !v.expired(l.Name) && !v.tombstoned(l.Name) && !v.markedDefault(l.Name) && !cs.Unsure[l.Name] {
			live++ // a lock whose own mark is unsure is not counted as certainly live
		}
	}
	return
}

// OwnStatus is the status of x by its own marks/tombstones/expiry/locks, without inheritance.
func (m *Model) OwnStatus(x string) St {
	s := ByName[x]
	cs := &m.C[s.Cnr]
	if cs.Removed {
		return NotFound
	}
	var r St
	for _, a := range m.resolutions(s.Cnr) {
		r |= (&view{m: m, cs: cs, assume: a}).own(x)
	}
	return r
}
