package metaworld

import (
	"encoding/binary"
	"strconv"

	"github.com/nspcc-dev/neofs-sdk-go/object"
)

// Independent recount of one container from the raw dump (layout: metabase/VERSION.md).

// Raw key prefixes of the container metadata bucket (VERSION.md, "Metadata bucket").
const (
	pfxID       = 0x00
	pfxIDAttr   = 0x03
	pfxCnrGC    = 0x04
	pfxGarbage  = 0x05
	pfxCntPhy   = 0x06
	pfxCntRoot  = 0x07
	pfxCntTS    = 0x08
	pfxCntLock  = 0x09
	pfxCntLink  = 0x0A
	pfxCntGC    = 0x0B
	pfxCntPayld = 0x0C
)

// CounterNames are the stored per-container counters in key order 6..12.
var CounterNames = [7]string{"phy", "root", "ts", "lock", "link", "gc", "payload"}

// CnrCount is what the raw dump of one container says.
type CnrCount struct {
	Exists  bool
	Removed bool
	Keys    int
	// Stored are the stored counters (keys 6..12); missing keys read as 0.
	Stored [7]uint64
	// Recounted from the object indexes:
	Phy, Root, TS, Lock, Link uint64
	Marks                     uint64 // garbage keys
	MarksNonPhys              uint64 // garbage keys of addresses that are not indexed as physical
	MarksRedundant            uint64 // garbage keys with the "redundant" value
	LiveNumber, LiveSize      uint64 // physical objects without any garbage mark, and their payload
	Indexed                   int
}

// Recount parses container c out of the dump.
func (d *Dump) Recount(c int) CnrCount {
	var r CnrCount
	kvs, ok := d.Cnr(c)
	if !ok {
		return r
	}
	r.Exists = true
	r.Keys = len(kvs)
	type oinfo struct {
		phy, root bool
		typ       string
		size      uint64
	}
	objs := map[string]*oinfo{}
	marked := map[string]bool{}
	for _, kv := range kvs {
		k := kv.K
		switch {
		case len(k) == 1 && k[0] == pfxCnrGC:
			r.Removed = true
		case len(k) == 1 && k[0] >= pfxCntPhy && k[0] <= pfxCntPayld:
			if len(kv.V) == 8 {
				r.Stored[k[0]-pfxCntPhy] = binary.LittleEndian.Uint64(kv.V)
			}
		case len(k) == 33 && k[0] == pfxID:
			id := string(k[1:])
			if objs[id] == nil {
				objs[id] = &oinfo{}
			}
		case len(k) == 33 && k[0] == pfxGarbage:
			marked[string(k[1:])] = true
			r.Marks++
			if len(kv.V) > 0 {
				r.MarksRedundant++
			}
		case len(k) > 34 && k[0] == pfxIDAttr:
			id := string(k[1:33])
			rest := k[33:]
			sep := -1
			for i, b := range rest {
				if b == 0 {
					sep = i
					break
				}
			}
			if sep < 0 {
				continue
			}
			attr, val := string(rest[:sep]), string(rest[sep+1:])
			o := objs[id]
			if o == nil {
				o = &oinfo{}
				objs[id] = o
			}
			switch attr {
			case object.FilterPhysical:
				o.phy = val == "1"
			case object.FilterRoot:
				o.root = val == "1"
			case object.FilterType:
				o.typ = val
			case object.FilterPayloadSize:
				o.size, _ = strconv.ParseUint(val, 10, 64)
			}
		}
	}
	r.Indexed = len(objs)
	for id := range marked {
		if o := objs[id]; o == nil || !o.phy {
			r.MarksNonPhys++
		}
	}
	for id, o := range objs {
		if o.phy {
			r.Phy++
			if !marked[id] {
				r.LiveNumber++
				r.LiveSize += o.size
			}
		}
		if o.root {
			r.Root++
		}
		switch o.typ {
		case object.TypeTombstone.String():
			r.TS++
		case object.TypeLock.String():
			r.Lock++
		case object.TypeLink.String():
			r.Link++
		}
	}
	return r
}

// ObjectFacts tells how an address is stored ("physical", "header-only", "unstored") and marked
// ("", "marked", "marked-redundant") according to the raw dump.
func (d *Dump) ObjectFacts(c int, id [32]byte) (stored, mark string) {
	stored = "unstored"
	kvs, ok := d.Cnr(c)
	if !ok {
		return
	}
	phyKey := append(append([]byte{pfxIDAttr}, id[:]...), []byte(object.FilterPhysical+"\x001")...)
	for _, kv := range kvs {
		k := kv.K
		switch {
		case len(k) == 33 && k[0] == pfxID && string(k[1:]) == string(id[:]):
			if stored == "unstored" {
				stored = "header-only"
			}
		case len(k) == 33 && k[0] == pfxGarbage && string(k[1:]) == string(id[:]):
			mark = "marked"
			if len(kv.V) > 0 {
				mark = "marked-redundant"
			}
		case string(k) == string(phyKey):
			stored = "physical"
		}
	}
	return
}
