// Package metaworld is the shared world of the metabase checks (C01, C02, ...): a fixed universe of
// containers/objects with dense relations, the operation alphabet over the real
// pkg/local_object_storage/metabase.DB, a raw logical dump of the bbolt file and the reference
// model written from the property text.
package metaworld

import (
	"crypto/sha256"
	"fmt"
	"strconv"

	"github.com/nspcc-dev/neo-go/pkg/util"
	iec "github.com/nspcc-dev/neofs-node/internal/ec"
	"github.com/nspcc-dev/neofs-sdk-go/checksum"
	cid "github.com/nspcc-dev/neofs-sdk-go/container/id"
	"github.com/nspcc-dev/neofs-sdk-go/object"
	oid "github.com/nspcc-dev/neofs-sdk-go/object/id"
	"github.com/nspcc-dev/neofs-sdk-go/user"
)

// Kind is the structural class of a universe member.
type Kind int

const (
	KRegular   Kind = iota // plain regular object
	KFirst                 // first part of a v2 split chain (carries no parent ID, no first ID)
	KLast                  // last part of a split chain (first ID + parent header)
	KLink                  // LINK object (first ID + parent header)
	KECPart                // EC part (parent header + EC attributes)
	KTomb                  // TOMBSTONE
	KLock                  // LOCK
	KVirtSplit             // size-split parent, stored only as a header carried by its children
	KVirtEC                // EC parent, stored only as a header carried by its parts
	KNever                 // an address that is never stored
	KMiddle                // middle part of a v2 split chain: first ID only, no parent header
	KV1Part                // non-last part of a v1 split chain: split ID only, no parent header
	KV1Last                // last part of a v1 split chain: split ID + parent header
)

func (k Kind) String() string {
	return [...]string{"regular", "split-first", "split-last", "link", "ec-part", "tombstone", "lock", "split-parent", "ec-parent", "never-stored", "split-middle", "v1-part", "v1-last"}[k]
}

// Spec is the ground truth about one universe member (what its header says).
type Spec struct {
	Name   string
	Cnr    int
	ID     oid.ID
	Kind   Kind
	Type   object.Type
	Exp    int64  // expiration epoch, -1 = none
	Size   uint64 // payload size in the header
	Target string // tombstone/lock target
	Parent string // parent whose header (with ID) this object carries
	First  string // first-part ID carried in the split header
	Split  string // v1 split ID carried in the split header (named after the chain's root)
	Extra  bool   // member of the chain-shape families: driven by the chain alphabet only
	Chain  string // split/EC family root this member belongs to (ground truth, "" if none)
	Attr   string // value of the user attribute "kind" ("" = absent)
	ECIdx  int    // EC part index (rule 0)
	Put    bool   // can be put directly (has a physical form)
	Obj    *object.Object
}

const (
	CA = 0
	CB = 1
	// NCnr is the number of containers in the universe.
	NCnr = 2
	// UserAttr is the user attribute carried by some regular objects.
	UserAttr = "kind"
)

var (
	// Cnrs are the container IDs, cA < cB.
	Cnrs [NCnr]cid.ID
	// CnrNames are the printable names.
	CnrNames = [NCnr]string{"cA", "cB"}
	// Specs lists the universe in a fixed order.
	Specs []*Spec
	// ByName indexes Specs.
	ByName = map[string]*Spec{}
	byID   = map[oid.Address]*Spec{}
	owner  user.ID
)

// mkID builds a 32-byte ID with a hand-picked first byte (ordering) and a label-derived tail.
func mkID(first byte, label string) (id [32]byte) {
	h := sha256.Sum256([]byte("verif-metaworld-" + label))
	copy(id[:], h[:])
	id[0] = first
	return
}

func init() {
	Cnrs[CA] = cid.ID(mkID(0x0A, "cA"))
	Cnrs[CB] = cid.ID(mkID(0x0B, "cB"))
	var sh util.Uint160
	h := sha256.Sum256([]byte("verif-metaworld-owner"))
	copy(sh[:], h[:20])
	owner = user.NewFromScriptHash(sh)

	// first bytes: tombstones/locks sort both before and after their targets; C1/C2 share a first byte.
	add := func(s Spec, first byte) {
		s.ID = oid.ID(mkID(first, s.Name))
		if s.Kind == KLast && !s.Extra { // share two leading bytes with C1 (fstree directory collision)
			c1 := ByName[s.First]
			s.ID[0], s.ID[1] = c1.ID[0], c1.ID[1]
		}
		sp := s
		Specs = append(Specs, &sp)
		ByName[s.Name] = &sp
	}
	reg := object.TypeRegular
	//                                                             exp size
	add(Spec{Name: "R1", Cnr: CA, Kind: KRegular, Type: reg, Exp: 1, Size: 10, Attr: "doc", Put: true}, 0x50)
	add(Spec{Name: "R2", Cnr: CA, Kind: KRegular, Type: reg, Exp: -1, Size: 20, Attr: "doc", Put: true}, 0x52)
	add(Spec{Name: "P", Cnr: CA, Kind: KVirtSplit, Type: reg, Exp: -1, Size: 100, Chain: "P", Attr: "big"}, 0x60)
	add(Spec{Name: "C1", Cnr: CA, Kind: KFirst, Type: reg, Exp: -1, Size: 40, Chain: "P", Put: true}, 0x61)
	add(Spec{Name: "C2", Cnr: CA, Kind: KLast, Type: reg, Exp: -1, Size: 60, Parent: "P", First: "C1", Chain: "P", Put: true}, 0x61)
	add(Spec{Name: "K", Cnr: CA, Kind: KLink, Type: object.TypeLink, Exp: -1, Size: 5, Parent: "P", First: "C1", Chain: "P", Put: true}, 0x70)
	add(Spec{Name: "E", Cnr: CA, Kind: KVirtEC, Type: reg, Exp: 2, Size: 50, Chain: "E", Attr: "ec"}, 0x80)
	add(Spec{Name: "E0", Cnr: CA, Kind: KECPart, Type: reg, Exp: -1, Size: 25, Parent: "E", Chain: "E", ECIdx: 0, Put: true}, 0x81)
	add(Spec{Name: "E1", Cnr: CA, Kind: KECPart, Type: reg, Exp: -1, Size: 26, Parent: "E", Chain: "E", ECIdx: 1, Put: true}, 0x7F)
	add(Spec{Name: "T1", Cnr: CA, Kind: KTomb, Type: object.TypeTombstone, Exp: -1, Target: "R1", Put: true}, 0x10)
	add(Spec{Name: "T2", Cnr: CA, Kind: KTomb, Type: object.TypeTombstone, Exp: -1, Target: "P", Put: true}, 0x65)
	add(Spec{Name: "T3", Cnr: CA, Kind: KTomb, Type: object.TypeTombstone, Exp: 3, Target: "R2", Put: true}, 0x90)
	add(Spec{Name: "T5", Cnr: CA, Kind: KTomb, Type: object.TypeTombstone, Exp: -1, Target: "E0", Put: true}, 0x85)
	add(Spec{Name: "L1", Cnr: CA, Kind: KLock, Type: object.TypeLock, Exp: 2, Target: "R1", Put: true}, 0x20)
	add(Spec{Name: "L2", Cnr: CA, Kind: KLock, Type: object.TypeLock, Exp: -1, Target: "C1", Put: true}, 0x30)
	add(Spec{Name: "L3", Cnr: CA, Kind: KLock, Type: object.TypeLock, Exp: -1, Target: "R2", Put: true}, 0xA0)
	add(Spec{Name: "L4", Cnr: CA, Kind: KLock, Type: object.TypeLock, Exp: -1, Target: "R1", Put: true}, 0x28)
	add(Spec{Name: "X", Cnr: CA, Kind: KNever, Type: reg, Exp: -1}, 0x55)
	// container cB: one regular object with a tombstone sorting before it, and a two-level family
	// Q (root, expiring) <- D (split child, header only) <- D0 (EC part of D, physical).
	add(Spec{Name: "R3", Cnr: CB, Kind: KRegular, Type: reg, Exp: -1, Size: 30, Attr: "doc", Put: true}, 0x50)
	add(Spec{Name: "T4", Cnr: CB, Kind: KTomb, Type: object.TypeTombstone, Exp: -1, Target: "R3", Put: true}, 0x40)
	add(Spec{Name: "Q", Cnr: CB, Kind: KVirtSplit, Type: reg, Exp: 2, Size: 70, Chain: "Q", Attr: "big"}, 0x60)
	add(Spec{Name: "DF", Cnr: CB, Kind: KNever, Type: reg, Exp: -1, Chain: "Q"}, 0x61) // first part of Q's chain, never stored here
	add(Spec{Name: "D", Cnr: CB, Kind: KVirtEC, Type: reg, Exp: -1, Size: 70, Parent: "Q", First: "DF", Chain: "Q"}, 0x62)
	add(Spec{Name: "D0", Cnr: CB, Kind: KECPart, Type: reg, Exp: -1, Size: 35, Parent: "D", Chain: "Q", ECIdx: 0, Put: true}, 0x63)

	// Chain-shape families (container cB), explored by the chain alphabet. The parts that carry NO
	// parent header of their own are bound to the chain only by the first-part ID (v2) or the split
	// ID (v1); their IDs are forced to sort before, between and after the siblings that do carry the
	// parent header, and the search stores every subset of them, so the ID order among the stored
	// siblings is an explored dimension.
	//   v2: G (root, expiring) <- G1 first, Ga/Gb/Gc middle, G2 last, GK link; tombstone TG -> G
	//   order by ID: Ga < G1 < G2 < Gb < GK < Gc
	add(Spec{Name: "G", Cnr: CB, Kind: KVirtSplit, Type: reg, Exp: 1, Size: 300, Chain: "G", Attr: "big", Extra: true}, 0x2F)
	add(Spec{Name: "G1", Cnr: CB, Kind: KFirst, Type: reg, Exp: -1, Size: 41, Chain: "G", Put: true, Extra: true}, 0x22)
	add(Spec{Name: "Ga", Cnr: CB, Kind: KMiddle, Type: reg, Exp: -1, Size: 42, First: "G1", Chain: "G", Put: true, Extra: true}, 0x21)
	add(Spec{Name: "G2", Cnr: CB, Kind: KLast, Type: reg, Exp: -1, Size: 43, Parent: "G", First: "G1", Chain: "G", Put: true, Extra: true}, 0x23)
	add(Spec{Name: "Gb", Cnr: CB, Kind: KMiddle, Type: reg, Exp: -1, Size: 44, First: "G1", Chain: "G", Put: true, Extra: true}, 0x24)
	add(Spec{Name: "GK", Cnr: CB, Kind: KLink, Type: object.TypeLink, Exp: -1, Size: 6, Parent: "G", First: "G1", Chain: "G", Put: true, Extra: true}, 0x25)
	add(Spec{Name: "Gc", Cnr: CB, Kind: KMiddle, Type: reg, Exp: -1, Size: 45, First: "G1", Chain: "G", Put: true, Extra: true}, 0x27)
	add(Spec{Name: "TG", Cnr: CB, Kind: KTomb, Type: object.TypeTombstone, Exp: -1, Target: "G", Put: true, Extra: true}, 0x26)
	//   v1: W (root, expiring) <- Va, Vb non-last parts, Vl last part; tombstone TW -> W; Va < Vl < Vb
	add(Spec{Name: "W", Cnr: CB, Kind: KVirtSplit, Type: reg, Exp: 1, Size: 200, Chain: "W", Attr: "big", Extra: true}, 0x3F)
	add(Spec{Name: "Va", Cnr: CB, Kind: KV1Part, Type: reg, Exp: -1, Size: 51, Split: "W", Chain: "W", Put: true, Extra: true}, 0x31)
	add(Spec{Name: "Vl", Cnr: CB, Kind: KV1Last, Type: reg, Exp: -1, Size: 52, Parent: "W", Split: "W", Chain: "W", Put: true, Extra: true}, 0x33)
	add(Spec{Name: "Vb", Cnr: CB, Kind: KV1Part, Type: reg, Exp: -1, Size: 53, Split: "W", Chain: "W", Put: true, Extra: true}, 0x35)
	add(Spec{Name: "TW", Cnr: CB, Kind: KTomb, Type: object.TypeTombstone, Exp: -1, Target: "W", Put: true, Extra: true}, 0x32)

	for _, s := range Specs {
		build(s)
		byID[oid.NewAddress(Cnrs[s.Cnr], s.ID)] = s
	}
	initMacros()
}

func blank(s *Spec) *object.Object {
	o := object.New(Cnrs[s.Cnr], owner)
	o.SetID(s.ID)
	o.SetType(s.Type)
	o.SetPayloadSize(s.Size)
	o.SetPayloadChecksum(checksum.NewSHA256(sha256.Sum256([]byte("payload-" + s.Name))))
	var attrs []object.Attribute
	if s.Attr != "" {
		attrs = append(attrs, object.NewAttribute(UserAttr, s.Attr))
	}
	if s.Exp >= 0 {
		attrs = append(attrs, object.NewAttribute(object.AttributeExpirationEpoch, strconv.FormatInt(s.Exp, 10)))
	}
	o.SetAttributes(attrs...)
	return o
}

// build constructs the header the way the repository's own tests and the EC/split writers do.
func build(s *Spec) {
	if s.Obj != nil {
		return
	}
	o := blank(s)
	switch s.Kind {
	case KFirst:
		// v2 split: the first part carries the parent header without ID ("no useful info").
		par := blank(ByName[s.Chain])
		par.SetID(oid.ID{})
		o.SetParent(par)
		o.SetParentID(oid.ID{})
	case KLast, KLink:
		build(ByName[s.Parent])
		o.SetParent(ByName[s.Parent].Obj)
		o.SetParentID(ByName[s.Parent].ID)
		o.SetFirstID(ByName[s.First].ID)
		if s.Kind == KLast {
			o.SetPreviousID(ByName[s.First].ID)
		} else {
			var ch []oid.ID
			for _, m := range Specs {
				if m.Chain == s.Chain && m.Put && m.Kind != KLink && m.Kind != KTomb {
					ch = append(ch, m.ID)
				}
			}
			o.SetChildren(ch...)
		}
	case KMiddle:
		o.SetFirstID(ByName[s.First].ID)
		o.SetPreviousID(ByName[s.First].ID)
	case KV1Part:
		o.SetSplitID(splitID(s.Split))
	case KV1Last:
		build(ByName[s.Parent])
		o.SetParent(ByName[s.Parent].Obj)
		o.SetParentID(ByName[s.Parent].ID)
		o.SetSplitID(splitID(s.Split))
	case KECPart:
		build(ByName[s.Parent])
		part, err := iec.FormObjectForECPart(nil, *ByName[s.Parent].Obj, nil, iec.PartInfo{RuleIndex: 0, Index: s.ECIdx})
		if err != nil {
			panic(err)
		}
		part.SetID(s.ID)
		part.SetPayloadSize(s.Size)
		part.SetPayloadChecksum(checksum.NewSHA256(sha256.Sum256([]byte("payload-" + s.Name))))
		o = &part
	case KTomb:
		o.AssociateDeleted(ByName[s.Target].ID)
	case KLock:
		o.AssociateLocked(ByName[s.Target].ID)
	case KVirtEC:
		if s.Parent != "" { // split child that is itself EC-encoded: last part of its chain
			build(ByName[s.Parent])
			o.SetParent(ByName[s.Parent].Obj)
			o.SetParentID(ByName[s.Parent].ID)
			o.SetFirstID(ByName[s.First].ID)
		}
	}
	s.Obj = o
}

// splitID derives the fixed v1 split ID of a chain.
func splitID(chain string) *object.SplitID {
	h := sha256.Sum256([]byte("verif-metaworld-split-" + chain))
	return object.NewSplitIDFromV2(h[:16])
}

// Addr is the address of a universe member.
func (s *Spec) Addr() oid.Address { return oid.NewAddress(Cnrs[s.Cnr], s.ID) }

// Lookup maps an address back to the universe ("" if foreign).
func Lookup(a oid.Address) *Spec { return byID[a] }

// NameOf renders an ID of container c by universe name.
func NameOf(c int, id oid.ID) string {
	if s := byID[oid.NewAddress(Cnrs[c], id)]; s != nil {
		return s.Name
	}
	return fmt.Sprintf("?%x", id[:3])
}

// InCnr lists the members of container c in universe order.
func InCnr(c int) []*Spec {
	var r []*Spec
	for _, s := range Specs {
		if s.Cnr == c {
			r = append(r, s)
		}
	}
	return r
}
