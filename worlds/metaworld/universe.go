// Package metaworld is the shared world of the metabase checks (C01, C02, ...): a fixed universe of
// containers/objects with dense relations, the operation alphabet over the real
// pkg/local_object_storage/metabase.DB, a raw logical dump of the bbolt file and the reference
// model written from the property text.
package metaworld

import (
	"crypto/sha256"
	"fmt"
	"strconv"

	"github.com/nspcc-dev/neo-go/pkg/util"
	iec "github.com/nspcc-dev/neofs-node/internal/ec"
	"github.com/nspcc-dev/neofs-sdk-go/checksum"
	cid "github.com/nspcc-dev/neofs-sdk-go/container/id"
	"github.com/nspcc-dev/neofs-sdk-go/object"
	oid "github.com/nspcc-dev/neofs-sdk-go/object/id"
	"github.com/nspcc-dev/neofs-sdk-go/user"
)

// Kind is the structural class of a universe member.
type Kind int

const (
	KRegular   Kind = iota // plain regular object
	KFirst                 // first part of a v2 split chain (carries no parent ID, no first ID)
	KLast                  // last part of a split chain (first ID + parent header)
	KLink                  // LINK object (first ID + parent header)
	KECPart                // EC part (parent header + EC attributes)
	KTomb                  // TOMBSTONE
	KLock                  // LOCK
	KVirtSplit             // size-split parent, stored only as a header carried by its children
	KVirtEC                // EC parent, stored only as a header carried by its parts
	KNever                 // an address that is never stored
)

func (k Kind) String() string {
	return [...]string{"regular", "split-first", "split-last", "link", "ec-part", "tombstone", "lock", "split-parent", "ec-parent", "never-stored"}[k]
}

// Spec is the ground truth about one universe member (what its header says).
type Spec struct {
	Name   string
	Cnr    int
	ID     oid.ID
	Kind   Kind
	Type   object.Type
	Exp    int64  // expiration epoch, -1 = none
	Size   uint64 // payload size in the header
	Target string // tombstone/lock target
	Parent string // parent whose header (with ID) this object carries
	First  string // first-part ID carried in the split header
	Chain  string // split/EC family root this member belongs to (ground truth, "" if none)
	Attr   string // value of the user attribute "kind" ("" = absent)
	ECIdx  int    // EC part index (rule 0)
	Put    bool   // can be put directly (has a physical form)
	Obj    *object.Object
}

const (
	CA = 0
	CB = 1
	// NCnr is the number of containers in the universe.
	NCnr = 2
	// UserAttr is the user attribute carried by some regular objects.
	UserAttr = "kind"
)

var (
	// Cnrs are the container IDs, cA < cB.
	Cnrs [NCnr]cid.ID
	// CnrNames are the printable names.
	CnrNames = [NCnr]string{"cA", "cB"}
	// Specs lists the universe in a fixed order.
	Specs []*Spec
	// ByName indexes Specs.
	ByName = map[string]*Spec{}
	byID   = map[oid.Address]*Spec{}
	owner  user.ID
)

// mkID builds a 32-byte ID with a hand-picked first byte (ordering) and a label-derived tail.
func mkID(first byte, label string) (id [32]byte) {
	h := sha256.Sum256([]byte("verif-metaworld-" + label))
	copy(id[:], h[:])
	id[0] = first
	return
}

func init() {
	Cnrs[CA] = cid.ID(mkID(0x0A, "cA"))
	Cnrs[CB] = cid.ID(mkID(0x0B, "cB"))
	var sh util.Uint160
	h := sha256.Sum256([]byte("verif-metaworld-owner"))
	copy(sh[:], h[:20])
	owner = user.NewFromScriptHash(sh)

	// first bytes: tombstones/locks sort both before and after their targets; C1/C2 share a first byte.
	add := func(s Spec, first byte) {
		s.ID = oid.ID(mkID(first, s.Name))
		if s.Kind == KLast { // share two leading bytes with C1 (fstree directory collision)
			c1 := ByName[s.First]
			s.ID[0], s.ID[1] = c1.ID[0], c1.ID[1]
		}
		sp := s
		Specs = append(Specs, &sp)
		ByName[s.Name] = &sp
	}
	reg := object.TypeRegular
	//                                                             exp size
	add(Spec{Name: "R1", Cnr: CA, Kind: KRegular, Type: reg, Exp: 1, Size: 10, Attr: "doc", Put: true}, 0x50)
	add(Spec{Name: "R2", Cnr: CA, Kind: KRegular, Type: reg, Exp: -1, Size: 20, Attr: "doc", Put: true}, 0x52)
	add(Spec{Name: "P", Cnr: CA, Kind: KVirtSplit, Type: reg, Exp: -1, Size: 100, Chain: "P", Attr: "big"}, 0x60)
	add(Spec{Name: "C1", Cnr: CA, Kind: KFirst, Type: reg, Exp: -1, Size: 40, Chain: "P", Put: true}, 0x61)
	add(Spec{Name: "C2", Cnr: CA, Kind: KLast, Type: reg, Exp: -1, Size: 60, Parent: "P", First: "C1", Chain: "P", Put: true}, 0x61)
	add(Spec{Name: "K", Cnr: CA, Kind: KLink, Type: object.TypeLink, Exp: -1, Size: 5, Parent: "P", First: "C1", Chain: "P", Put: true}, 0x70)
	add(Spec{Name: "E", Cnr: CA, Kind: KVirtEC, Type: reg, Exp: 2, Size: 50, Chain: "E", Attr: "ec"}, 0x80)
	add(Spec{Name: "E0", Cnr: CA, Kind: KECPart, Type: reg, Exp: -1, Size: 25, Parent: "E", Chain: "E", ECIdx: 0, Put: true}, 0x81)
	add(Spec{Name: "E1", Cnr: CA, Kind: KECPart, Type: reg, Exp: -1, Size: 26, Parent: "E", Chain: "E", ECIdx: 1, Put: true}, 0x7F)
	add(Spec{Name: "T1", Cnr: CA, Kind: KTomb, Type: object.TypeTombstone, Exp: -1, Target: "R1", Put: true}, 0x10)
	add(Spec{Name: "T2", Cnr: CA, Kind: KTomb, Type: object.TypeTombstone, Exp: -1, Target: "P", Put: true}, 0x65)
	add(Spec{Name: "T3", Cnr: CA, Kind: KTomb, Type: object.TypeTombstone, Exp: 3, Target: "R2", Put: true}, 0x90)
	add(Spec{Name: "T5", Cnr: CA, Kind: KTomb, Type: object.TypeTombstone, Exp: -1, Target: "E0", Put: true}, 0x85)
	add(Spec{Name: "L1", Cnr: CA, Kind: KLock, Type: object.TypeLock, Exp: 2, Target: "R1", Put: true}, 0x20)
	add(Spec{Name: "L2", Cnr: CA, Kind: KLock, Type: object.TypeLock, Exp: -1, Target: "C1", Put: true}, 0x30)
	add(Spec{Name: "L3", Cnr: CA, Kind: KLock, Type: object.TypeLock, Exp: -1, Target: "R2", Put: true}, 0xA0)
	add(Spec{Name: "L4", Cnr: CA, Kind: KLock, Type: object.TypeLock, Exp: -1, Target: "R1", Put: true}, 0x28)
	add(Spec{Name: "X", Cnr: CA, Kind: KNever, Type: reg, Exp: -1}, 0x55)
	// container cB: one regular object with a tombstone sorting before it, and a two-level family
	// Q (root, expiring) <- D (split child, header only) <- D0 (EC part of D, physical).
	add(Spec{Name: "R3", Cnr: CB, Kind: KRegular, Type: reg, Exp: -1, Size: 30, Attr: "doc", Put: true}, 0x50)
	add(Spec{Name: "T4", Cnr: CB, Kind: KTomb, Type: object.TypeTombstone, Exp: -1, Target: "R3", Put: true}, 0x40)
	add(Spec{Name: "Q", Cnr: CB, Kind: KVirtSplit, Type: reg, Exp: 2, Size: 70, Chain: "Q", Attr: "big"}, 0x60)
	add(Spec{Name: "DF", Cnr: CB, Kind: KNever, Type: reg, Exp: -1, Chain: "Q"}, 0x61) // first part of Q's chain, never stored here
	add(Spec{Name: "D", Cnr: CB, Kind: KVirtEC, Type: reg, Exp: -1, Size: 70, Parent: "Q", First: "DF", Chain: "Q"}, 0x62)
	add(Spec{Name: "D0", Cnr: CB, Kind: KECPart, Type: reg, Exp: -1, Size: 35, Parent: "D", Chain: "Q", ECIdx: 0, Put: true}, 0x63)

	for _, s := range Specs {
		build(s)
		byID[oid.NewAddress(Cnrs[s.Cnr], s.ID)] = s
	}
	initMacros()
}

func blank(s *Spec) *object.Object {
	o := object.New(Cnrs[s.Cnr], owner)
	o.SetID(s.ID)
	o.SetType(s.Type)
	o.SetPayloadSize(s.Size)
	o.SetPayloadChecksum(checksum.NewSHA256(sha256.Sum256([]byte("payload-" + s.Name))))
	var attrs []object.Attribute
	if s.Attr != "" {
		attrs = append(attrs, object.NewAttribute(UserAttr, s.Attr))
	}
	if s.Exp >= 0 {
		attrs = append(attrs, object.NewAttribute(object.AttributeExpirationEpoch, strconv.FormatInt(s.Exp, 10)))
	}
	o.SetAttributes(attrs...)
	return o
}

// build constructs the header the way the repository's own tests and the EC/split writers do.
func build(s *Spec) {
	if s.Obj != nil {
		return
	}
	o := blank(s)
	switch s.Kind {
	case KFirst:
		// v2 split: the first part carries the parent header without ID ("no useful info").
		par := blank(ByName[s.Chain])
		par.SetID(oid.ID{})
		o.SetParent(par)
		o.SetParentID(oid.ID{})
	case KLast, KLink:
		build(ByName[s.Parent])
		o.SetParent(ByName[s.Parent].Obj)
		o.SetParentID(ByName[s.Parent].ID)
		o.SetFirstID(ByName[s.First].ID)
		if s.Kind == KLast {
			o.SetPreviousID(ByName[s.First].ID)
		} else {
			o.SetChildren(ByName["C1"].ID, ByName["C2"].ID)
		}
	case KECPart:
		build(ByName[s.Parent])
		part, err := iec.FormObjectForECPart(nil, *ByName[s.Parent].Obj, nil, iec.PartInfo{RuleIndex: 0, Index: s.ECIdx})
		if err != nil {
			panic(err)
		}
		part.SetID(s.ID)
		part.SetPayloadSize(s.Size)
		part.SetPayloadChecksum(checksum.NewSHA256(sha256.Sum256([]byte("payload-" + s.Name))))
		o = &part
	case KTomb:
		o.AssociateDeleted(ByName[s.Target].ID)
	case KLock:
		o.AssociateLocked(ByName[s.Target].ID)
	case KVirtEC:
		if s.Parent != "" { // split child that is itself EC-encoded: last part of its chain
			build(ByName[s.Parent])
			o.SetParent(ByName[s.Parent].Obj)
			o.SetParentID(ByName[s.Parent].ID)
			o.SetFirstID(ByName[s.First].ID)
		}
	}
	s.Obj = o
}

// Addr is the address of a universe member.
func (s *Spec) Addr() oid.Address { return oid.NewAddress(Cnrs[s.Cnr], s.ID) }

// Lookup maps an address back to the universe ("" if foreign).
func Lookup(a oid.Address) *Spec { return byID[a] }

// NameOf renders an ID of container c by universe name.
func NameOf(c int, id oid.ID) string {
	if s := byID[oid.NewAddress(Cnrs[c], id)]; s != nil {
		return s.Name
	}
	return fmt.Sprintf("?%x", id[:3])
}

// InCnr lists the members of container c in universe order.
func InCnr(c int) []*Spec {
	var r []*Spec
	for _, s := range Specs {
		if s.Cnr == c {
			r = append(r, s)
		}
	}
	return r
}
