package shardworld

import (
	"sync"

	"github.com/nspcc-dev/neofs-node/pkg/local_object_storage/blobstor/common"
	oid "github.com/nspcc-dev/neofs-sdk-go/object/id"
)

// FaultyStorage wraps a real common.Storage (normally the FSTree) and lets the harness make the
// next Open / Init / Close / Put call fail once. Everything else is delegated untouched. It also
// remembers how the wrapped storage was last opened. Use it through Config.WrapStorage:
//
//	var fs *shardworld.FaultyStorage
//	cfg.WrapStorage = func(s common.Storage) common.Storage { fs = shardworld.NewFaultyStorage(s); return fs }
type FaultyStorage struct {
	common.Storage

	mu sync.Mutex
	// one-shot injected errors (cleared when consumed)
	FailOpen, FailInit, FailClose, FailPut error
	// FailWrites, while non-nil, makes every Put and PutBatch fail (not one-shot: arm it for the
	// duration of a step with ArmWrites(err), heal it with ArmWrites(nil))
	FailWrites error
	// WriteFailures counts the writes refused because of FailPut / FailWrites
	WriteFailures int

	// observed life cycle of the wrapped storage
	Opens, Closes int
	ReadOnly      bool // argument of the last successful Open
	Closed        bool // last life-cycle call was a successful Close
}

func NewFaultyStorage(s common.Storage) *FaultyStorage { return &FaultyStorage{Storage: s} }

func take(e *error) error { err := *e; *e = nil; return err }

// Arm sets the one-shot errors under the lock.
func (f *FaultyStorage) Arm(open, init, closeErr, put error) {
	f.mu.Lock()
	f.FailOpen, f.FailInit, f.FailClose, f.FailPut = open, init, closeErr, put
	f.mu.Unlock()
}

func (f *FaultyStorage) Open(ro bool) error {
	f.mu.Lock()
	err := take(&f.FailOpen)
	f.mu.Unlock()
	if err != nil {
		return err
	}
	if err := f.Storage.Open(ro); err != nil {
		return err
	}
	f.mu.Lock()
	f.Opens++
	f.ReadOnly, f.Closed = ro, false
	f.mu.Unlock()
	return nil
}

func (f *FaultyStorage) Init(id common.ID) error {
	f.mu.Lock()
	err := take(&f.FailInit)
	f.mu.Unlock()
	if err != nil {
		return err
	}
	return f.Storage.Init(id)
}

func (f *FaultyStorage) Close() error {
	f.mu.Lock()
	err := take(&f.FailClose)
	f.mu.Unlock()
	if err != nil {
		return err
	}
	if err := f.Storage.Close(); err != nil {
		return err
	}
	f.mu.Lock()
	f.Closes++
	f.Closed = true
	f.mu.Unlock()
	return nil
}

// ArmWrites sets (or, with nil, clears) the persistent write failure.
func (f *FaultyStorage) ArmWrites(err error) {
	f.mu.Lock()
	f.FailWrites = err
	f.mu.Unlock()
}

func (f *FaultyStorage) writeErr() error {
	f.mu.Lock()
	defer f.mu.Unlock()
	err := take(&f.FailPut)
	if err == nil {
		err = f.FailWrites
	}
	if err != nil {
		f.WriteFailures++
	}
	return err
}

func (f *FaultyStorage) Put(a oid.Address, b []byte) error {
	if err := f.writeErr(); err != nil {
		return err
	}
	return f.Storage.Put(a, b)
}

func (f *FaultyStorage) PutBatch(m map[oid.Address][]byte) error {
	if err := f.writeErr(); err != nil {
		return err
	}
	return f.Storage.PutBatch(m)
}

// State returns (read-only?, closed?) of the wrapped storage as last driven through the wrapper.
func (f *FaultyStorage) State() (ro, closed bool) {
	f.mu.Lock()
	defer f.mu.Unlock()
	return f.ReadOnly, f.Closed
}
