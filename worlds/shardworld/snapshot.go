package shardworld

import (
	"crypto/sha256"
	"encoding/hex"
	"fmt"
	"io"
	"io/fs"
	"os"
	"path/filepath"
	"sort"
	"strings"

	"github.com/nspcc-dev/bbolt"
)

// Snapshot is a byte-level picture of a directory tree: relative path -> "d" for directories or
// "f:<size>:<sha256>" for regular files. Two snapshots are equal iff the trees have the same paths
// and the same file contents (permissions and timestamps are not part of the picture).
type Snapshot map[string]string

// SnapTree snapshots dir (which may be missing: empty snapshot).
func SnapTree(dir string) (Snapshot, error) {
	s := Snapshot{}
	err := filepath.WalkDir(dir, func(p string, d fs.DirEntry, err error) error {
		if err != nil {
			if os.IsNotExist(err) && p == dir {
				return filepath.SkipAll
			}
			return err
		}
		rel, _ := filepath.Rel(dir, p)
		if d.IsDir() {
			s[rel] = "d"
			return nil
		}
		b, err := os.ReadFile(p)
		if err != nil {
			return err
		}
		sum := sha256.Sum256(b)
		s[rel] = fmt.Sprintf("f:%d:%s", len(b), hex.EncodeToString(sum[:]))
		return nil
	})
	return s, err
}

// Diff lists the differences between two snapshots ("+path", "-path", "~path"), sorted; empty = identical.
func (a Snapshot) Diff(b Snapshot) []string {
	var out []string
	for p, v := range a {
		w, ok := b[p]
		switch {
		case !ok:
			out = append(out, "-"+p)
		case v != w:
			out = append(out, "~"+p)
		}
	}
	for p := range b {
		if _, ok := a[p]; !ok {
			out = append(out, "+"+p)
		}
	}
	sort.Strings(out)
	return out
}

// Hash is a digest of the snapshot.
func (a Snapshot) Hash() string {
	keys := make([]string, 0, len(a))
	for k := range a {
		keys = append(keys, k)
	}
	sort.Strings(keys)
	hh := sha256.New()
	for _, k := range keys {
		fmt.Fprintf(hh, "%s=%s\n", k, a[k])
	}
	return hex.EncodeToString(hh.Sum(nil))
}

// Files returns the sorted list of regular files in the snapshot.
func (a Snapshot) Files() []string {
	var out []string
	for p, v := range a {
		if v != "d" {
			out = append(out, p)
		}
	}
	sort.Strings(out)
	return out
}

// CopyTree copies a directory tree (regular files and directories only).
func CopyTree(src, dst string) error {
	return filepath.WalkDir(src, func(p string, d fs.DirEntry, err error) error {
		if err != nil {
			return err
		}
		rel, _ := filepath.Rel(src, p)
		t := filepath.Join(dst, rel)
		if d.IsDir() {
			return os.MkdirAll(t, 0o700)
		}
		return copyFile(p, t)
	})
}

func copyFile(src, dst string) error {
	in, err := os.Open(src)
	if err != nil {
		return err
	}
	defer in.Close()
	out, err := os.OpenFile(dst, os.O_CREATE|os.O_TRUNC|os.O_WRONLY, 0o600)
	if err != nil {
		return err
	}
	if _, err := io.Copy(out, in); err != nil {
		out.Close()
		return err
	}
	return out.Close()
}

// BoltDump returns the *logical* content of a bbolt file: every bucket path, key and value in key
// order, one per line, hex encoded. The file is copied first, so it may belong to a live (quiescent)
// database. Page layout and free-list are not part of the dump (they cannot influence any API result).
// A missing file dumps as "<missing>".
func BoltDump(path string) (string, error) {
	if _, err := os.Stat(path); os.IsNotExist(err) {
		return "<missing>", nil
	}
	tmp, err := os.CreateTemp(filepath.Dir(filepath.Dir(path)), ".boltdump-*")
	if err != nil {
		return "", err
	}
	tmp.Close()
	defer os.Remove(tmp.Name())
	if err := copyFile(path, tmp.Name()); err != nil {
		return "", err
	}
	db, err := bbolt.Open(tmp.Name(), 0o600, &bbolt.Options{ReadOnly: true})
	if err != nil {
		return "", fmt.Errorf("bolt dump open: %w", err)
	}
	defer db.Close()
	var sb strings.Builder
	err = db.View(func(tx *bbolt.Tx) error {
		return tx.ForEach(func(name []byte, b *bbolt.Bucket) error {
			return dumpBucket(&sb, hex.EncodeToString(name), b)
		})
	})
	return sb.String(), err
}

func dumpBucket(sb *strings.Builder, prefix string, b *bbolt.Bucket) error {
	fmt.Fprintf(sb, "[%s]\n", prefix)
	return b.ForEach(func(k, v []byte) error {
		if v == nil {
			if nb := b.Bucket(k); nb != nil {
				return dumpBucket(sb, prefix+"/"+hex.EncodeToString(k), nb)
			}
		}
		fmt.Fprintf(sb, "%s %s=%s\n", prefix, hex.EncodeToString(k), hex.EncodeToString(v))
		return nil
	})
}

// State is the persistent state of a shard directory: byte-level snapshots of the blobstor and
// write-cache trees, the raw metabase file digest and its logical dump.
type State struct {
	Blob, WC Snapshot
	MetaRaw  string // "f:<size>:<sha256>" of meta.db, or "" if missing
	MetaDump string // logical dump
}

// SnapState captures the persistent state under dir (shard may be open if it is quiescent).
func SnapState(dir string) (State, error) { return snapState(dir, true) }

// SnapStateRaw is SnapState without the logical metabase dump (MetaDump stays ""): enough for
// "byte-identical" comparisons and much cheaper (no bbolt open).
func SnapStateRaw(dir string) (State, error) { return snapState(dir, false) }

func snapState(dir string, dump bool) (State, error) {
	var st State
	var err error
	if st.Blob, err = SnapTree(BlobDir(dir)); err != nil {
		return st, err
	}
	if st.WC, err = SnapTree(WCDir(dir)); err != nil {
		return st, err
	}
	m, err := SnapTree(filepath.Dir(MetaPath(dir)))
	if err != nil {
		return st, err
	}
	st.MetaRaw = m[filepath.Base(MetaPath(dir))]
	if dump {
		st.MetaDump, err = BoltDump(MetaPath(dir))
	}
	return st, err
}

// DiffBytes compares two states byte for byte (including the raw metabase file); empty = identical.
func (a State) DiffBytes(b State) []string {
	var out []string
	for _, d := range a.Blob.Diff(b.Blob) {
		out = append(out, "blob:"+d)
	}
	for _, d := range a.WC.Diff(b.WC) {
		out = append(out, "wc:"+d)
	}
	if a.MetaRaw != b.MetaRaw {
		out = append(out, "meta.db:raw-bytes-differ")
	}
	if a.MetaDump != b.MetaDump {
		out = append(out, "meta.db:logical-content-differs")
	}
	return out
}

// DiffLogical is DiffBytes without the raw metabase bytes (page layout may legitimately differ
// between two histories that store the same data).
func (a State) DiffLogical(b State) []string {
	var out []string
	for _, d := range a.DiffBytes(b) {
		if d != "meta.db:raw-bytes-differ" {
			out = append(out, d)
		}
	}
	return out
}

// RawHash digests the byte-level persistent state.
func (a State) RawHash() string {
	hh := sha256.New()
	fmt.Fprintf(hh, "%s|%s|%s", a.Blob.Hash(), a.WC.Hash(), a.MetaRaw)
	return hex.EncodeToString(hh.Sum(nil))
}

// LogicalHash digests the logical persistent state (for state deduplication).
func (a State) LogicalHash() string {
	hh := sha256.New()
	fmt.Fprintf(hh, "%s|%s|", a.Blob.Hash(), a.WC.Hash())
	hh.Write([]byte(a.MetaDump))
	return hex.EncodeToString(hh.Sum(nil))
}

// Persisted is the persisted state of a shard directory in the form the "nothing may change"
// oracles need: byte-level pictures of the blobstor and write-cache trees plus the raw metabase
// bytes (kept in memory so that the logical content can be dumped later, and only if needed).
type Persisted struct {
	Blob, WC Snapshot
	Meta     []byte // nil: no metabase file
}

// SnapPersisted captures dir (the shard may be open if it is quiescent).
func SnapPersisted(dir string) (Persisted, error) {
	var p Persisted
	var err error
	if p.Blob, err = SnapTree(BlobDir(dir)); err != nil {
		return p, err
	}
	if p.WC, err = SnapTree(WCDir(dir)); err != nil {
		return p, err
	}
	p.Meta, err = os.ReadFile(MetaPath(dir))
	if os.IsNotExist(err) {
		p.Meta, err = nil, nil
	}
	return p, err
}

// Diff lists what differs between two captures: object trees byte for byte, the metabase by its
// LOGICAL content (bucket/key/value dump) - identical raw bytes are the shortcut, otherwise both
// files are dumped through temporary copies under tmpDir. Empty = nothing changed.
func (a Persisted) Diff(b Persisted, tmpDir string) ([]string, error) {
	var out []string
	for _, d := range a.Blob.Diff(b.Blob) {
		out = append(out, "blob:"+d)
	}
	for _, d := range a.WC.Diff(b.WC) {
		out = append(out, "wc:"+d)
	}
	if string(a.Meta) != string(b.Meta) {
		da, err := boltDumpBytes(a.Meta, tmpDir)
		if err != nil {
			return nil, err
		}
		db, err := boltDumpBytes(b.Meta, tmpDir)
		if err != nil {
			return nil, err
		}
		if da != db {
			out = append(out, "meta.db:logical-content-differs")
		}
	}
	return out, nil
}

func boltDumpBytes(b []byte, tmpDir string) (string, error) {
	if b == nil {
		return "<missing>", nil
	}
	d, err := os.MkdirTemp(tmpDir, ".boltbytes-*")
	if err != nil {
		return "", err
	}
	defer os.RemoveAll(d)
	// BoltDump puts its scratch copy two levels above the file: keep everything inside d
	if err := os.MkdirAll(filepath.Join(d, "x"), 0o700); err != nil {
		return "", err
	}
	p := filepath.Join(d, "x", "meta.db")
	if err := os.WriteFile(p, b, 0o600); err != nil {
		return "", err
	}
	return BoltDump(p)
}
