// Package procpool runs harness jobs in a pool of child *processes* instead of goroutines.
//
// Why: every job of the shard checks opens and closes a bbolt database (mmap/munmap). Inside one
// process all threads share one address space, munmap takes the process-wide mmap lock and has to
// shoot down the TLBs of every CPU the process runs on; measured on the shared 16-core box this
// serialises the whole run (16 goroutine workers were not faster than 2). Separate processes have
// separate address spaces and scale linearly.
//
// Usage (single pool per check binary):
//
//	r := ev.Start(...)                    // flags parsed in parent and children alike
//	... deterministic, cheap set-up (runs in the parent AND in every child) ...
//	pool := procpool.Start(func(j Job) Res { ... })   // in a child this call never returns
//	res := pool.Map(jobs)                 // parent only; results in job order
//	pool.Close()
//
// The child processes are re-executions of the same binary with the same arguments and
// VERIF_POOL_CHILD set; jobs and results travel as JSON lines over two inherited pipes (fd 3 / fd 4).
// A panic in a job is reported back and re-raised in the parent. Jobs are handed out one at a time
// to whichever child is free; results do not depend on the distribution as long as fn is a function
// of its job only.
package procpool

import (
	"bufio"
	"encoding/json"
	"fmt"
	"os"
	"os/exec"
	"runtime"
	"runtime/debug"
	"strconv"
	"sync"
)

const envChild = "VERIF_POOL_CHILD"

// IsChild reports whether this process is a pool worker.
func IsChild() bool { return os.Getenv(envChild) != "" }

type req[J any] struct {
	I int
	J J
}
type resp[R any] struct {
	I     int
	R     R
	Panic string `json:",omitempty"`
}

type child struct {
	cmd *exec.Cmd
	enc *json.Encoder
	dec *json.Decoder
	w   *os.File
	r   *os.File
}

// Pool is the parent's handle.
type Pool[J, R any] struct {
	kids []*child
}

const envScratch = "VERIF_POOL_SCRATCH"

// Scratch returns a private scratch directory on /dev/shm (or the temp dir). The parent creates a
// fresh one (and must remove it before exiting); every child gets a sub-directory of the parent's,
// so the parent's final RemoveAll also cleans up after the workers.
func Scratch(prefix string) string {
	if IsChild() {
		d := os.Getenv(envScratch) + "/child-" + os.Getenv(envChild)
		if err := os.MkdirAll(d, 0o700); err != nil {
			fail("scratch: %v", err)
		}
		return d
	}
	base := "/dev/shm"
	if b := os.Getenv("VERIF_SCRATCH_BASE"); b != "" {
		base = b
	}
	if st, err := os.Stat(base); err != nil || !st.IsDir() {
		base = ""
	}
	d, err := os.MkdirTemp(base, prefix)
	if err != nil {
		fail("scratch: %v", err)
	}
	os.Setenv(envScratch, d)
	return d
}

// Procs returns the number of worker processes used (VERIF_POOL_PROCS or the CPU count, max 16).
func Procs() int {
	if s := os.Getenv("VERIF_POOL_PROCS"); s != "" {
		if n, err := strconv.Atoi(s); err == nil && n > 0 {
			return n
		}
	}
	n := runtime.NumCPU()
	if n > 16 {
		n = 16
	}
	return n
}

// Start turns the process into a worker (child: serves jobs until the parent closes the pipe, then
// exits 0) or spawns the workers (parent).
func Start[J, R any](fn func(J) R) *Pool[J, R] {
	if IsChild() {
		serve(fn)
		os.Exit(0)
	}
	exe, err := os.Executable()
	if err != nil {
		fail("executable: %v", err)
	}
	p := &Pool[J, R]{}
	for k := 0; k < Procs(); k++ {
		jr, jw, err := os.Pipe()
		if err != nil {
			fail("pipe: %v", err)
		}
		rr, rw, err := os.Pipe()
		if err != nil {
			fail("pipe: %v", err)
		}
		cmd := exec.Command(exe, os.Args[1:]...)
		cmd.Env = append(os.Environ(), envChild+"="+strconv.Itoa(k+1), "GOMAXPROCS=2")
		cmd.Stdout = os.Stderr
		cmd.Stderr = os.Stderr
		cmd.ExtraFiles = []*os.File{jr, rw}
		if err := cmd.Start(); err != nil {
			fail("start worker: %v", err)
		}
		jr.Close()
		rw.Close()
		p.kids = append(p.kids, &child{cmd: cmd, enc: json.NewEncoder(jw), dec: json.NewDecoder(bufio.NewReaderSize(rr, 1<<16)), w: jw, r: rr})
	}
	return p
}

func serve[J, R any](fn func(J) R) {
	in := os.NewFile(3, "jobs")
	out := os.NewFile(4, "results")
	dec := json.NewDecoder(bufio.NewReaderSize(in, 1<<16))
	bw := bufio.NewWriter(out)
	enc := json.NewEncoder(bw)
	for {
		var q req[J]
		if err := dec.Decode(&q); err != nil {
			return // EOF: parent is done
		}
		var a resp[R]
		a.I = q.I
		func() {
			defer func() {
				if x := recover(); x != nil {
					a.Panic = fmt.Sprintf("%v\n%s", x, debug.Stack())
				}
			}()
			a.R = fn(q.J)
		}()
		if err := enc.Encode(&a); err != nil {
			fmt.Fprintln(os.Stderr, "procpool worker: encode:", err)
			os.Exit(2)
		}
		bw.Flush()
	}
}

// Map runs fn over jobs in the workers and returns the results in job order. stop, if non-nil, is
// polled before handing out each job; when it returns true the remaining jobs are skipped and their
// done flag stays false.
func (p *Pool[J, R]) Map(jobs []J, stop func() bool) (res []R, done []bool) {
	res = make([]R, len(jobs))
	done = make([]bool, len(jobs))
	var mu sync.Mutex
	next := 0
	var wg sync.WaitGroup
	for _, c := range p.kids {
		wg.Add(1)
		go func(c *child) {
			defer wg.Done()
			for {
				mu.Lock()
				i := next
				next++
				mu.Unlock()
				if i >= len(jobs) || (stop != nil && stop()) {
					return
				}
				if err := c.enc.Encode(req[J]{I: i, J: jobs[i]}); err != nil {
					fail("worker pipe: %v", err)
				}
				var a resp[R]
				if err := c.dec.Decode(&a); err != nil {
					fail("worker died while running job %d (%v)", i, err)
				}
				if a.Panic != "" {
					fail("job %d panicked in worker: %s", i, a.Panic)
				}
				if a.I != i {
					fail("worker protocol error")
				}
				res[i] = a.R
				done[i] = true
			}
		}(c)
	}
	wg.Wait()
	return res, done
}

// Close ends the workers.
func (p *Pool[J, R]) Close() {
	for _, c := range p.kids {
		c.w.Close()
	}
	for _, c := range p.kids {
		_ = c.cmd.Wait()
		c.r.Close()
	}
	p.kids = nil
}

func fail(f string, a ...any) {
	fmt.Printf("HARNESS-ERROR procpool: %s\n", fmt.Sprintf(f, a...))
	os.Exit(2)
}
