// Package shardworld is the shared fixture that builds a *real* shard.Shard for the verification
// checks (C07, C09, C14, C15, C16, C17, C43, C44, C46, C47 ...).
//
// What you get from Open(Config):
//
//   - a real FSTree blobstor (depth 2, no combined files: CombinedCountLimit(1), so every object is
//     one file and the on-disk layout is a pure function of the stored set), optionally wrapped by a
//     harness common.Storage (Config.WrapStorage; FaultyStorage in faulty.go injects one-shot
//     Open/Init/Close/Put failures);
//   - a real metabase (bbolt NoSync, MaxBatchSize 1 => Batch runs synchronously in the caller,
//     optional OpenFile hook Config.MetaOpenFile for open-failure injection);
//   - optionally the real write-cache (1 flush worker, tiny batch limits);
//   - a fixed shard ID (the FSTree descriptor is written before Init), fixed object IDs (ids.go);
//   - a harness-owned epoch (Epoch) and container-payments stub (Payments);
//   - the GC timer disabled (24 h); GC passes and the new-epoch handler are invoked synchronously
//     through World.GCPass / World.NewEpoch / World.HandleEpochEvent (injected export file
//     inject/shard/shardworld_verif.go: thin wrappers around the functions the goroutines run);
//   - the write-cache flush ticker virtual (vtime/: never fires by itself; World.Tick fires it and
//     waits for the flush worker to become idle) when the check's overlay.spec rewires flush.go's "time".
//
// Required overlay.spec lines for a check that uses this package:
//
//	inject pkg/local_object_storage/shard inject/shard/shardworld_verif.go
//	inject pkg/local_object_storage/writecache inject/writecache/shardworld_verif.go
//	import pkg/local_object_storage/writecache/flush.go time=github.com/nspcc-dev/neofs-node/verif/worlds/shardworld/vtime
//
// Files: world.go (Config/Open/World), ids.go (deterministic IDs and objects), snapshot.go
// (SnapTree / SnapState / BoltDump / CopyTree: byte-level and logical pictures of a shard directory),
// content.go (RawObjects: read the FSTrees directly; World.ResetEmpty), faulty.go (FaultyStorage),
// vtime/ (virtual ticker), procpool/ (run jobs in child processes: bbolt open/close does not scale
// across goroutines of one process).
//
// Directory layout under Config.Dir:  blob/ (FSTree)  meta/meta.db (bbolt)  wc/ (write-cache).
//
// Caveats learnt the hard way: (1) the raw bytes of meta.db are NOT reproducible between two
// instances that executed the same read-write history (bbolt page layout varies), compare raw bytes
// only within one instance and use BoltDump / State.LogicalHash across instances; (2) ev.Run.Finish
// calls os.Exit, so remove scratch directories explicitly before it.
package shardworld

import (
	"errors"
	"fmt"
	"os"
	"path/filepath"
	"runtime"
	"sync"
	"sync/atomic"
	"time"

	"github.com/nspcc-dev/bbolt"
	"github.com/nspcc-dev/neofs-node/pkg/local_object_storage/blobstor/common"
	"github.com/nspcc-dev/neofs-node/pkg/local_object_storage/blobstor/fstree"
	meta "github.com/nspcc-dev/neofs-node/pkg/local_object_storage/metabase"
	"github.com/nspcc-dev/neofs-node/pkg/local_object_storage/shard"
	"github.com/nspcc-dev/neofs-node/pkg/local_object_storage/shard/mode"
	"github.com/nspcc-dev/neofs-node/pkg/local_object_storage/writecache"
	"github.com/nspcc-dev/neofs-node/verif/worlds/shardworld/vtime"
	cid "github.com/nspcc-dev/neofs-sdk-go/container/id"
	oid "github.com/nspcc-dev/neofs-sdk-go/object/id"
	"go.uber.org/zap"
)

// Epoch is the harness-controlled epoch source handed to the metabase (meta.EpochState).
// Note that the shard GC keeps its own "current epoch" which only World.NewEpoch changes.
type Epoch struct{ v atomic.Uint64 }

func (e *Epoch) CurrentEpoch() uint64 { return e.v.Load() }
func (e *Epoch) Set(v uint64)         { e.v.Store(v) }

// Payments is a table-driven shard.ContainerPayments.
type Payments struct {
	Disabled bool
	// Unpaid maps a container to its unpaid-since value; containers not listed are paid (-1).
	Unpaid map[cid.ID]int64
	// Err maps a container to the error UnpaidSince must return for it.
	Err map[cid.ID]error

	mu    sync.Mutex
	Calls []cid.ID // containers UnpaidSince was asked about
}

func (p *Payments) PaymentsDisabled() bool { return p.Disabled }
func (p *Payments) UnpaidSince(c cid.ID) (int64, error) {
	p.mu.Lock()
	p.Calls = append(p.Calls, c)
	p.mu.Unlock()
	if err := p.Err[c]; err != nil {
		return 0, err
	}
	if v, ok := p.Unpaid[c]; ok {
		return v, nil
	}
	return -1, nil
}

// Config describes the shard to build. Zero value + Dir = plain shard without write-cache.
type Config struct {
	Dir        string // root directory (must exist or be creatable; use NewDir)
	WriteCache bool
	ShardIDNum int // ShardID(ShardIDNum) is pinned into the FSTree descriptor

	Epoch    *Epoch                  // nil => a fresh Epoch at 0
	Payments shard.ContainerPayments // nil => &Payments{Disabled: true}

	// WrapStorage, if set, wraps the FSTree before it is handed to the shard (fault injection).
	WrapStorage func(common.Storage) common.Storage
	// MetaOpenFile, if set, is installed as bbolt.Options.OpenFile of the metabase; returning an
	// error makes the next metabase open fail.
	MetaOpenFile func(path string, flag int, perm os.FileMode) (*os.File, error)
	// WrapWriteCache is not available: the write-cache is constructed inside shard.New.

	ExpiredObjects func([]oid.Address) // shard.WithExpiredObjectsCallback
	ExpiredLocks   func([]oid.Address)
	DeletedLocks   func([]oid.Address)
	ReportError    func(shardID, msg string, err error)
	RemoverBatch   int // shard.WithRemoverBatchSize (0 => default 100)

	Logger *zap.Logger // nil => Nop
	Extra  []shard.Option
}

// World is one live shard plus the pieces the harness owns.
type World struct {
	Cfg      Config
	Sh       *shard.Shard
	FST      *fstree.FSTree // the real FSTree under the (optional) wrapper
	Epoch    *Epoch
	Payments shard.ContainerPayments

	tk     *vtime.Ticker // virtual flush ticker (nil: no write-cache, or "time" not rewired)
	stop   chan struct{}
	closed bool
}

// Sub-directories.
func BlobDir(dir string) string  { return filepath.Join(dir, "blob") }
func MetaPath(dir string) string { return filepath.Join(dir, "meta", "meta.db") }
func WCDir(dir string) string    { return filepath.Join(dir, "wc") }

// NewDir creates a scratch directory on /dev/shm (falls back to os.TempDir); remove it yourself.
func NewDir(prefix string) string {
	base := "/dev/shm"
	if st, err := os.Stat(base); err != nil || !st.IsDir() {
		base = ""
	}
	d, err := os.MkdirTemp(base, prefix)
	if err != nil {
		panic(err)
	}
	return d
}

const fstreeDepth = 2

// pinShardID writes the FSTree descriptor so that Init adopts a fixed shard ID instead of a random one.
func pinShardID(blobDir string, id common.ID) error {
	p := filepath.Join(blobDir, ".fstree.json")
	if _, err := os.Stat(p); err == nil {
		return nil
	}
	if err := os.MkdirAll(blobDir, 0o700); err != nil {
		return err
	}
	d := fmt.Sprintf(`{"version":3,"depth":%d,"shard_id":%q,"subtype":%q}`, fstreeDepth, id.String(), fstree.SubtypeBlobstor)
	return os.WriteFile(p, []byte(d), 0o600)
}

// initMu serialises shard.Init calls of write-cache shards so that the virtual ticker created by
// the flush scheduler goroutine can be attributed to the shard being initialised.
var initMu sync.Mutex

// ShardOptions returns the shard.Option list Build uses (for worlds that let a StorageEngine
// construct the shard itself via AddShard) together with the defaulted Config and the real FSTree.
// The FSTree descriptor pinning the shard ID is written as a side effect.
func ShardOptions(cfg Config) ([]shard.Option, Config, *fstree.FSTree, error) {
	if cfg.Epoch == nil {
		cfg.Epoch = &Epoch{}
	}
	if cfg.Payments == nil {
		cfg.Payments = &Payments{Disabled: true}
	}
	if cfg.Logger == nil {
		cfg.Logger = zap.NewNop()
	}
	if err := pinShardID(BlobDir(cfg.Dir), ShardID(cfg.ShardIDNum)); err != nil {
		return nil, cfg, nil, err
	}
	fst := fstree.New(
		fstree.WithPath(BlobDir(cfg.Dir)),
		fstree.WithDepth(fstreeDepth),
		fstree.WithNoSync(true),
		fstree.WithCombinedCountLimit(1),
		fstree.WithLogger(cfg.Logger),
	)
	var st common.Storage = fst
	if cfg.WrapStorage != nil {
		st = cfg.WrapStorage(fst)
	}
	bo := *bbolt.DefaultOptions
	bo.NoSync = true
	bo.Timeout = 2 * time.Second // never wait forever for a file lock held by a leaked handle
	bo.OpenFile = cfg.MetaOpenFile
	opts := []shard.Option{
		shard.WithLogger(cfg.Logger),
		shard.WithBlobstor(st),
		shard.WithMetaBaseOptions(
			meta.WithPath(MetaPath(cfg.Dir)),
			meta.WithEpochState(cfg.Epoch),
			meta.WithLogger(cfg.Logger),
			meta.WithMaxBatchSize(1),
			meta.WithMaxBatchDelay(time.Microsecond),
			meta.WithBoltDBOptions(&bo),
			meta.WithPermissions(0o700),
		),
		shard.WithWriteCache(cfg.WriteCache),
		shard.WithWriteCacheOptions(
			writecache.WithPath(WCDir(cfg.Dir)),
			writecache.WithLogger(cfg.Logger),
			writecache.WithNoSync(true),
			writecache.WithFlushWorkersCount(1),
			writecache.WithMaxFlushBatchThreshold(64),
			writecache.WithMaxFlushBatchCount(2),
			writecache.WithMaxFlushBatchSize(128),
		),
		shard.WithGCRemoverSleepInterval(24 * time.Hour),
		shard.WithContainerPayments(cfg.Payments),
	}
	if cfg.RemoverBatch > 0 {
		opts = append(opts, shard.WithRemoverBatchSize(cfg.RemoverBatch))
	}
	if cfg.ExpiredObjects != nil {
		opts = append(opts, shard.WithExpiredObjectsCallback(cfg.ExpiredObjects))
	}
	if cfg.ExpiredLocks != nil {
		opts = append(opts, shard.WithExpiredLocksCallback(cfg.ExpiredLocks))
	}
	if cfg.DeletedLocks != nil {
		opts = append(opts, shard.WithDeletedLockCallback(cfg.DeletedLocks))
	}
	if cfg.ReportError != nil {
		opts = append(opts, shard.WithReportErrorFunc(cfg.ReportError))
	}
	opts = append(opts, cfg.Extra...)
	return opts, cfg, fst, nil
}

// Build constructs the shard (shard.New) without opening it.
func Build(cfg Config) (*World, error) {
	opts, cfg, fst, err := ShardOptions(cfg)
	if err != nil {
		return nil, err
	}
	return &World{Cfg: cfg, Sh: shard.New(opts...), FST: fst, Epoch: cfg.Epoch, Payments: cfg.Payments, stop: make(chan struct{})}, nil
}

// Open = Build + Shard.Open + Shard.Init. On error the shard is closed.
func Open(cfg Config) (*World, error) {
	w, err := Build(cfg)
	if err != nil {
		return nil, err
	}
	if err := w.Sh.Open(); err != nil {
		_ = w.Sh.Close()
		return nil, fmt.Errorf("shard open: %w", err)
	}
	if err := w.Init(); err != nil {
		_ = w.Sh.Close()
		return nil, fmt.Errorf("shard init: %w", err)
	}
	return w, nil
}

// Init runs Shard.Init and adopts the virtual flush ticker of the shard's write-cache.
func (w *World) Init() error {
	if !w.Cfg.WriteCache {
		return w.Sh.Init()
	}
	initMu.Lock()
	defer initMu.Unlock()
	vtime.Drain()
	if err := w.Sh.Init(); err != nil {
		return err
	}
	// The flush scheduler goroutine creates its ticker right after it starts. Wait for that
	// definite event (bounded, in case flush.go's "time" import is not rewired in this build).
	for i := 0; vtime.Pending() == 0 && i < 300000; i++ { // <= ~30 s on a badly overloaded box
		if i < 100 {
			runtime.Gosched()
		} else {
			time.Sleep(100 * time.Microsecond)
		}
	}
	if tks := vtime.Drain(); len(tks) == 1 {
		w.tk = tks[0]
	} else if len(tks) > 1 {
		return errors.New("shardworld: more than one flush ticker appeared during Init")
	}
	return nil
}

// VirtualTicker reports whether the write-cache flush ticker is under harness control.
func (w *World) VirtualTicker() bool { return w.tk != nil }

// Close closes the shard (components + GC).
func (w *World) Close() error {
	if w.closed {
		return nil
	}
	w.closed = true
	close(w.stop)
	return w.Sh.Close()
}

// SetMode = Shard.SetMode.
func (w *World) SetMode(m mode.Mode) error { return w.Sh.SetMode(m) }

// NewEpoch sets the harness epoch (metabase view) and runs the shard's new-epoch handler synchronously.
func (w *World) NewEpoch(e uint64) {
	w.Epoch.Set(e)
	w.Sh.VerifSWHandleNewEpoch(e)
}

// HandleEpochEvent runs the new-epoch handler for epoch e WITHOUT touching the metabase epoch source
// (models a delayed event: the handler processes e while the node is already further).
func (w *World) HandleEpochEvent(e uint64) { w.Sh.VerifSWHandleNewEpoch(e) }

// GCPass runs one garbage remover pass synchronously (expired collection + garbage removal).
func (w *World) GCPass() { w.Sh.VerifSWGCPass() }

// GCEpochs returns the GC's (current, processed) epochs.
func (w *World) GCEpochs() (uint64, uint64) { return w.Sh.VerifSWGCEpochs() }

// Tick fires the virtual write-cache flush ticker and returns once the flush scheduler has handed
// a complete round of batches to the worker and the worker is idle again. Mechanism: the ticker
// channel is unbuffered, so the 2nd Fire returns only when the scheduler is back in its select,
// i.e. the round started by the 1st tick has been queued completely; every queued address sits in
// the cache's in-flight set until its batch has been processed, so "in-flight set empty" afterwards
// means the first round is done. (The 2nd tick starts another, idempotent round.)
// Returns false if the ticker is not virtual or the world is closed.
func (w *World) Tick() bool {
	if w.tk == nil || w.closed {
		return false
	}
	if !w.tk.Fire(w.stop) || !w.tk.Fire(w.stop) {
		return false
	}
	wc := w.Sh.VerifSWWriteCache()
	for i := 0; writecache.VerifSWInFlight(wc) != 0; i++ {
		if i < 100 {
			runtime.Gosched()
		} else {
			time.Sleep(50 * time.Microsecond)
		}
	}
	return true
}

// WCCounters returns a printable form of the write-cache's in-memory accounting ("" without cache).
func (w *World) WCCounters() string {
	if !w.Cfg.WriteCache {
		return ""
	}
	sz, objs, sizes, ok := writecache.VerifSWCounters(w.Sh.VerifSWWriteCache())
	if !ok {
		return "?"
	}
	s := fmt.Sprintf("size=%d", sz)
	for i := range objs {
		s += fmt.Sprintf(" %s:%d", objs[i][:8], sizes[i])
	}
	return s
}

func writecacheCounters(w *World) (uint64, []string, []uint64, bool) {
	return writecache.VerifSWCounters(w.Sh.VerifSWWriteCache())
}
