package shardworld

import (
	"crypto/sha256"
	"strconv"

	"github.com/nspcc-dev/neo-go/pkg/util"
	"github.com/nspcc-dev/neofs-node/pkg/local_object_storage/blobstor/common"
	"github.com/nspcc-dev/neofs-sdk-go/checksum"
	cid "github.com/nspcc-dev/neofs-sdk-go/container/id"
	"github.com/nspcc-dev/neofs-sdk-go/object"
	oid "github.com/nspcc-dev/neofs-sdk-go/object/id"
	"github.com/nspcc-dev/neofs-sdk-go/user"
	"github.com/nspcc-dev/neofs-sdk-go/version"
)

// All identifiers are derived from SHA-256 of a label, so every run sees the same bytes.

func h(label string) [32]byte { return sha256.Sum256([]byte("verif-shardworld-" + label)) }

// CID returns the fixed container ID for a label ("A", "B", ...).
func CID(label string) cid.ID { return cid.ID(h("cid-" + label)) }

// OID returns the fixed object ID for a label.
func OID(label string) oid.ID { return oid.ID(h("oid-" + label)) }

// Addr returns the address of object `obj` in container `cnr` (both labels).
func Addr(cnr, obj string) oid.Address { return oid.NewAddress(CID(cnr), OID(obj)) }

// Owner is the fixed owner of every generated object.
func Owner() user.ID {
	x := h("owner")
	var u util.Uint160
	copy(u[:], x[:20])
	return user.NewFromScriptHash(u)
}

// ShardID is the fixed shard ID number n (0 = the default one used by Open).
func ShardID(n int) common.ID {
	x := h("shard-" + strconv.Itoa(n))
	id, err := common.NewIDFromBytes(x[:common.IDSize])
	if err != nil {
		panic(err)
	}
	return id
}

// Payload returns n deterministic bytes for a label.
func Payload(label string, n int) []byte {
	out := make([]byte, 0, n+32)
	for i := 0; len(out) < n; i++ {
		x := h("payload-" + label + "-" + strconv.Itoa(i))
		out = append(out, x[:]...)
	}
	return out[:n]
}

// ObjSpec describes one generated object.
type ObjSpec struct {
	Cnr, Label string      // container / object labels (IDs are CID(Cnr), OID(Label))
	Size       int         // payload size (deterministic bytes); ignored for tombstone/lock
	Type       object.Type // default regular
	Target     string      // label of the associated object for tombstone / lock
	Exp        uint64      // expiration epoch attribute (0 = none)
	Attrs      [][2]string // extra attributes
}

// NewObject builds the object described by sp. It carries everything the metabase demands
// (container, owner, SHA-256 payload checksum, version) but no signature.
func NewObject(sp ObjSpec) *object.Object {
	o := object.New(CID(sp.Cnr), Owner())
	v := version.Current()
	o.SetVersion(&v)
	o.SetID(OID(sp.Label))
	o.SetCreationEpoch(1)
	var pl []byte
	if sp.Type == object.TypeRegular || sp.Type == object.TypeLink {
		pl = Payload(sp.Label, sp.Size)
	}
	o.SetPayload(pl)
	o.SetPayloadSize(uint64(len(pl)))
	o.SetPayloadChecksum(checksum.NewSHA256(sha256.Sum256(pl)))
	var attrs []object.Attribute
	for _, kv := range sp.Attrs {
		attrs = append(attrs, object.NewAttribute(kv[0], kv[1]))
	}
	if sp.Exp != 0 {
		attrs = append(attrs, object.NewAttribute(object.AttributeExpirationEpoch, strconv.FormatUint(sp.Exp, 10)))
	}
	if len(attrs) > 0 {
		o.SetAttributes(attrs...)
	}
	switch sp.Type {
	case object.TypeTombstone:
		o.AssociateDeleted(OID(sp.Target))
	case object.TypeLock:
		o.AssociateLocked(OID(sp.Target))
	default:
		o.SetType(sp.Type)
	}
	return o
}
