// Package vtime is a drop-in replacement for the few identifiers of package "time" used by
// pkg/local_object_storage/writecache/flush.go. It makes the flush scheduler's ticker *virtual*:
// it never fires by itself, only when the harness calls Ticker.Fire. time.Sleep (the 10 s pause of
// the scheduler after a flush error) returns immediately.
//
// Wire it with an overlay.spec line
//
//	import pkg/local_object_storage/writecache/flush.go time=github.com/nspcc-dev/neofs-node/verif/worlds/shardworld/vtime
//
// shardworld.Open collects the ticker created by the shard it builds (see world.go).
package vtime

import (
	"sync"
	"sync/atomic"
	"time"
)

type (
	Duration = time.Duration
	Time     = time.Time
)

const (
	Nanosecond  = time.Nanosecond
	Microsecond = time.Microsecond
	Millisecond = time.Millisecond
	Second      = time.Second
	Minute      = time.Minute
	Hour        = time.Hour
)

// Ticker mimics time.Ticker; C is fed only by Fire.
type Ticker struct {
	C <-chan Time
	c chan Time
}

var (
	mu      sync.Mutex
	pending []*Ticker
	// Sleeps counts virtual Sleep calls (each one = "the scheduler paused after a flush error").
	Sleeps atomic.Int64
	// Wired is set as soon as any code calls into this package (= the import rewrite is active).
	Wired atomic.Bool
)

func NewTicker(Duration) *Ticker {
	Wired.Store(true)
	c := make(chan Time) // unbuffered: Fire returns when the receiver took the tick
	t := &Ticker{C: c, c: c}
	mu.Lock()
	pending = append(pending, t)
	mu.Unlock()
	return t
}

func (t *Ticker) Stop()          {}
func (t *Ticker) Reset(Duration) {}

// Fire delivers one tick; it blocks until the ticker's owner received it, or returns false when
// stop is closed first.
func (t *Ticker) Fire(stop <-chan struct{}) bool {
	select {
	case t.c <- time.Time{}:
		return true
	case <-stop:
		return false
	}
}

func Sleep(Duration) { Wired.Store(true); Sleeps.Add(1) }

// Drain returns and forgets the tickers created since the previous Drain.
func Drain() []*Ticker {
	mu.Lock()
	defer mu.Unlock()
	r := pending
	pending = nil
	return r
}

// Pending returns how many tickers were created since the previous Drain.
func Pending() int {
	mu.Lock()
	defer mu.Unlock()
	return len(pending)
}
