package shardworld

import (
	"fmt"
	"os"

	"github.com/nspcc-dev/neofs-node/pkg/local_object_storage/blobstor/common"
	"github.com/nspcc-dev/neofs-node/pkg/local_object_storage/blobstor/fstree"
	oid "github.com/nspcc-dev/neofs-sdk-go/object/id"
)

// RawObjects reads the objects physically stored under a (closed or quiescent) shard directory
// straight from the two FSTrees, bypassing shard, metabase and write-cache code: address string ->
// stored bytes, separately for the blobstor and the write-cache.
func RawObjects(dir string) (blob, wc map[string][]byte, err error) {
	blob, err = rawTree(BlobDir(dir), fstreeDepth)
	if err != nil {
		return nil, nil, fmt.Errorf("blobstor tree: %w", err)
	}
	wc, err = rawTree(WCDir(dir), 1)
	if err != nil {
		return nil, nil, fmt.Errorf("write-cache tree: %w", err)
	}
	return blob, wc, nil
}

func rawTree(path string, depth uint64) (map[string][]byte, error) {
	out := map[string][]byte{}
	if _, err := os.Stat(path); os.IsNotExist(err) {
		return out, nil
	}
	t := fstree.New(fstree.WithPath(path), fstree.WithDepth(depth))
	if err := t.Open(true); err != nil {
		return nil, err
	}
	// no Init: it would insist on a descriptor; iteration only needs path and depth
	err := t.Iterate(func(a oid.Address, data []byte) error {
		out[a.EncodeToString()] = append([]byte(nil), data...)
		return nil
	}, nil)
	return out, err
}

var _ common.Storage = (*fstree.FSTree)(nil)
