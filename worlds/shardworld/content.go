package shardworld

import (
	"fmt"
	"os"

	"github.com/nspcc-dev/neofs-node/pkg/local_object_storage/blobstor/common"
	"github.com/nspcc-dev/neofs-node/pkg/local_object_storage/blobstor/fstree"
	oid "github.com/nspcc-dev/neofs-sdk-go/object/id"
)

// RawObjects reads the objects physically stored under a (closed or quiescent) shard directory
// straight from the two FSTrees, bypassing shard, metabase and write-cache code: address string ->
// stored bytes, separately for the blobstor and the write-cache.
func RawObjects(dir string) (blob, wc map[string][]byte, err error) {
	blob, err = rawTree(BlobDir(dir), fstreeDepth)
	if err != nil {
		return nil, nil, fmt.Errorf("blobstor tree: %w", err)
	}
	wc, err = rawTree(WCDir(dir), 1)
	if err != nil {
		return nil, nil, fmt.Errorf("write-cache tree: %w", err)
	}
	return blob, wc, nil
}

func rawTree(path string, depth uint64) (map[string][]byte, error) {
	out := map[string][]byte{}
	if _, err := os.Stat(path); os.IsNotExist(err) {
		return out, nil
	}
	t := fstree.New(fstree.WithPath(path), fstree.WithDepth(depth))
	if err := t.Open(true); err != nil {
		return nil, err
	}
	// no Init: it would insist on a descriptor; iteration only needs path and depth
	err := t.Iterate(func(a oid.Address, data []byte) error {
		out[a.EncodeToString()] = append([]byte(nil), data...)
		return nil
	}, nil)
	return out, err
}

var _ common.Storage = (*fstree.FSTree)(nil)

// ResetEmpty turns an open read-write shard back into an empty one without closing it: every
// object file is removed from the write-cache (through the cache, so its accounting follows) and
// from the blobstor FSTree, the metabase is wiped with meta.DB.Reset, and the result is verified
// (no object file left). Cheaper than building a fresh shard; the volatile GC state is not touched.
func (w *World) ResetEmpty() error {
	blob, wc, err := RawObjects(w.Cfg.Dir)
	if err != nil {
		return err
	}
	for a := range wc {
		var addr oid.Address
		if err := addr.DecodeString(a); err != nil {
			return err
		}
		if err := w.Sh.VerifSWWriteCache().Delete(addr); err != nil {
			return fmt.Errorf("reset: write-cache delete: %w", err)
		}
	}
	for a := range blob {
		var addr oid.Address
		if err := addr.DecodeString(a); err != nil {
			return err
		}
		if err := w.FST.Delete(addr); err != nil {
			return fmt.Errorf("reset: blobstor delete: %w", err)
		}
	}
	if err := w.Sh.VerifSWMetabaseReset(); err != nil {
		return fmt.Errorf("reset: metabase: %w", err)
	}
	blob, wc, err = RawObjects(w.Cfg.Dir)
	if err != nil {
		return err
	}
	if len(blob)+len(wc) != 0 {
		return fmt.Errorf("reset: %d objects left", len(blob)+len(wc))
	}
	if w.Cfg.WriteCache {
		if sz, objs, _, _ := writecacheCounters(w); sz != 0 || len(objs) != 0 {
			return fmt.Errorf("reset: write-cache still accounts %d bytes / %d objects", sz, len(objs))
		}
	}
	return nil
}
