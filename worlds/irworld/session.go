package irworld

import (
	"crypto/sha256"
	"time"

	"github.com/google/uuid"
	cid "github.com/nspcc-dev/neofs-sdk-go/container/id"
	neofsecdsa "github.com/nspcc-dev/neofs-sdk-go/crypto/ecdsa"
	"github.com/nspcc-dev/neofs-sdk-go/session"
	sessionv2 "github.com/nspcc-dev/neofs-sdk-go/session/v2"
	"github.com/nspcc-dev/neofs-sdk-go/user"
)

func fixedUUID(label string) uuid.UUID {
	h := sha256.Sum256([]byte("irworld-uuid/" + label))
	var u uuid.UUID
	copy(u[:], h[:16])
	u[6] = (u[6] & 0x0f) | 0x40
	u[8] = (u[8] & 0x3f) | 0x80
	return u
}

// SessionV1 builds a V1 container session token issued and signed by issuer for subject's key.
// cnr == nil: not bound to a container. forge: the signature is made by another key.
func SessionV1(issuer, subject User, verb session.ContainerVerb, cnr *cid.ID, iat, nbf, exp uint64, forge bool) session.Container {
	var t session.Container
	t.SetID(fixedUUID("v1"))
	t.SetAuthKey((*neofsecdsa.PublicKeyRFC6979)(&subject.Key.PrivateKey.PublicKey))
	t.ForVerb(verb)
	if cnr != nil {
		t.ApplyOnlyTo(*cnr)
	}
	t.SetIat(iat)
	t.SetNbf(nbf)
	t.SetExp(exp)
	signer := user.NewAutoIDSignerRFC6979(issuer.Key.PrivateKey)
	if forge {
		// issuer field says `issuer`, signature is by a stranger
		t.SetIssuer(issuer.ID)
		if err := t.SetSignature(neofsecdsa.SignerRFC6979(NewUser("forger").Key.PrivateKey)); err != nil {
			panic(err)
		}
		return t
	}
	if err := t.Sign(signer); err != nil {
		panic(err)
	}
	return t
}

// SessionV2 builds a V2 session token issued by issuer to subject for the verbs on cnr.
func SessionV2(issuer, subject User, verbs []sessionv2.Verb, cnr cid.ID, iat, nbf, exp time.Time, forge bool) sessionv2.Token {
	var t sessionv2.Token
	t.SetVersion(sessionv2.TokenCurrentVersion)
	ctx, err := sessionv2.NewContext(cnr, verbs)
	if err != nil {
		panic(err)
	}
	if err = t.SetContexts([]sessionv2.Context{ctx}); err != nil {
		panic(err)
	}
	if err = t.SetSubjects([]sessionv2.Target{sessionv2.NewTargetUser(subject.ID)}); err != nil {
		panic(err)
	}
	t.SetIat(iat)
	t.SetNbf(nbf)
	t.SetExp(exp)
	t.SetFinal(true)
	if forge {
		t.SetIssuer(issuer.ID)
		if err = t.Sign(user.NewSigner(neofsecdsa.SignerRFC6979(NewUser("forger").Key.PrivateKey), issuer.ID)); err != nil {
			panic(err)
		}
		return t
	}
	if err = t.Sign(user.NewAutoIDSignerRFC6979(issuer.Key.PrivateKey)); err != nil {
		panic(err)
	}
	return t
}

// SessionV2Chain builds a delegation chain of len(issuers) genuinely signed V2 tokens: token 0 is issued by
// issuers[0] to issuers[1], token k by issuers[k] (a subject of token k-1, embedded as origin) to issuers[k+1],
// the last one to presenter. All levels carry the same context and lifetime; only the outermost is final.
// The outermost token is returned.
func SessionV2Chain(issuers []User, presenter User, verbs []sessionv2.Verb, cnr cid.ID, iat, nbf, exp time.Time) sessionv2.Token {
	var prev *sessionv2.Token
	for k, is := range issuers {
		subj := presenter
		if k+1 < len(issuers) {
			subj = issuers[k+1]
		}
		var t sessionv2.Token
		t.SetVersion(sessionv2.TokenCurrentVersion)
		ctx, err := sessionv2.NewContext(cnr, verbs)
		if err != nil {
			panic(err)
		}
		if err = t.SetContexts([]sessionv2.Context{ctx}); err != nil {
			panic(err)
		}
		if err = t.SetSubjects([]sessionv2.Target{sessionv2.NewTargetUser(subj.ID)}); err != nil {
			panic(err)
		}
		t.SetIat(iat)
		t.SetNbf(nbf)
		t.SetExp(exp)
		t.SetFinal(k == len(issuers)-1)
		if prev != nil {
			t.SetOrigin(prev)
		}
		if err = t.Sign(user.NewAutoIDSignerRFC6979(is.Key.PrivateKey)); err != nil {
			panic(err)
		}
		c := t
		prev = &c
	}
	return *prev
}
