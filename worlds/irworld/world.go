// Package irworld is the shared inner-ring fixture of C34, C35, C37, C38.
//
// A World is one *real* innerring.Server built by the real innerring.New and started by the real
// Server.Start. The only substituted parts are:
//   - pkg/morph/client.New and every (*client.Client) method (function-entry interposition, ovgen hookfn):
//     chain reads are answered from the World's tables, chain-mutating calls are recorded;
//   - the typed read wrappers of pkg/morph/client/{container,netmap,balance} (answered from typed tables);
//   - util.SingleAsyncExecutingInstance (timer tick executor) runs the task inline;
//   - the processors' ants worker pools are real (capacity 2: a parked harness anchor + one event); after each
//     delivery the world waits until every pool is back to the anchor only (see Quiesce: exact, no sleeping).
//
// Events are delivered as raw chain artefacts (state.ContainedNotificationEvent, result.NotaryRequestEvent,
// block.Header) to the real event listener code (preparator, parsers, registered handlers).
package irworld

import (
	"context"
	"crypto/sha256"
	"errors"
	"fmt"
	"os"
	"path/filepath"
	"runtime"
	"sort"
	"strings"
	"sync"
	"sync/atomic"
	"time"

	"github.com/nspcc-dev/neo-go/pkg/core/block"
	"github.com/nspcc-dev/neo-go/pkg/core/state"
	"github.com/nspcc-dev/neo-go/pkg/core/transaction"
	"github.com/nspcc-dev/neo-go/pkg/crypto/keys"
	"github.com/nspcc-dev/neo-go/pkg/encoding/fixedn"
	"github.com/nspcc-dev/neo-go/pkg/neorpc/result"
	"github.com/nspcc-dev/neo-go/pkg/util"
	"github.com/nspcc-dev/neo-go/pkg/vm/stackitem"
	"github.com/nspcc-dev/neo-go/pkg/wallet"
	"github.com/nspcc-dev/neofs-node/pkg/innerring"
	irconfig "github.com/nspcc-dev/neofs-node/pkg/innerring/config"
	"github.com/nspcc-dev/neofs-node/pkg/morph/client"
	balcli "github.com/nspcc-dev/neofs-node/pkg/morph/client/balance"
	cntcli "github.com/nspcc-dev/neofs-node/pkg/morph/client/container"
	nmcli "github.com/nspcc-dev/neofs-node/pkg/morph/client/netmap"
	nodeutil "github.com/nspcc-dev/neofs-node/pkg/util"
	"github.com/nspcc-dev/neofs-sdk-go/container"
	cid "github.com/nspcc-dev/neofs-sdk-go/container/id"
	"github.com/nspcc-dev/neofs-sdk-go/netmap"
	"github.com/nspcc-dev/neofs-sdk-go/user"
	"github.com/panjf2000/ants/v2"
	palphabet "github.com/nspcc-dev/neofs-node/pkg/innerring/processors/alphabet"
	pbalance "github.com/nspcc-dev/neofs-node/pkg/innerring/processors/balance"
	pcontainer "github.com/nspcc-dev/neofs-node/pkg/innerring/processors/container"
	pgovernance "github.com/nspcc-dev/neofs-node/pkg/innerring/processors/governance"
	pneofs "github.com/nspcc-dev/neofs-node/pkg/innerring/processors/neofs"
	pnetmap "github.com/nspcc-dev/neofs-node/pkg/innerring/processors/netmap"
	preputation "github.com/nspcc-dev/neofs-node/pkg/innerring/processors/reputation"
	"github.com/nspcc-dev/neofs-node/pkg/innerring/processors/netmap/nodevalidation/availability"
	"github.com/nspcc-dev/neofs-node/pkg/innerring/processors/netmap/nodevalidation/external"
	"github.com/nspcc-dev/neofs-node/pkg/innerring/processors/netmap/nodevalidation/privatedomains"
	"go.uber.org/zap"
)

// Key returns the deterministic P-256 key derived from label.
func Key(label string) *keys.PrivateKey {
	for i := 0; ; i++ {
		h := sha256.Sum256([]byte(fmt.Sprintf("irworld-key/%s/%d", label, i)))
		k, err := keys.NewPrivateKeyFromBytes(h[:])
		if err == nil {
			return k
		}
	}
}

// Hash160 returns a deterministic 20-byte hash derived from label.
func Hash160(label string) util.Uint160 {
	h := sha256.Sum256([]byte("irworld-h160/" + label))
	var u util.Uint160
	copy(u[:], h[:20])
	return u
}

// Hash256 returns a deterministic 32-byte hash derived from label.
func Hash256(label string) util.Uint256 {
	return util.Uint256(sha256.Sum256([]byte("irworld-h256/" + label)))
}

// Call is one recorded chain-mutating call of the morph client.
type Call struct {
	Chain    string `json:"chain"`            // "fs" | "main"
	Method   string `json:"method"`           // morph client method (Invoke, NotaryInvoke, NotarySignAndInvokeTX, ...)
	Contract string `json:"contract"`         // logical contract name (or hex hash)
	Op       string `json:"op"`               // contract method, if any
	Args     string `json:"args"`             // rendered arguments (deterministic)
	Class    string `json:"class"`            // "alphabet" (needs alphabet authority) | "own" (the node's own account only)
	TxHash   string `json:"tx_hash,omitempty"` // main transaction hash for NotarySignAndInvokeTX
	MainTx   *transaction.Transaction `json:"-"`
}

func (c Call) String() string {
	return fmt.Sprintf("%s.%s %s.%s(%s)", c.Chain, c.Method, c.Contract, c.Op, c.Args)
}

// Tables answers chain reads. All fields may be changed between deliveries (under World.Lock).
type Tables struct {
	Committee    keys.PublicKeys // FS chain committee = alphabet
	CommitteeErr error
	IRList       keys.PublicKeys // NeoFSAlphabet role in FS chain = inner ring list
	IRListErr    error
	MainAlphabet keys.PublicKeys // NeoFSAlphabet role in main chain

	Epoch          uint64
	EpochDuration  uint64 // seconds
	LastEpochBlock uint32
	BlockCount     uint32
	BlockTimeMs    uint64 // timestamp of block i is i*BlockTimeMs
	BasicIncome    uint64

	NetMap     *netmap.NetMap
	Containers map[cid.ID]container.Container
	ContainerErr error

	TxHeight    map[util.Uint256]uint32
	ValidScript bool
	ValidScriptErr error
	GasBalance  int64
	Votes       map[util.Uint160]*keys.PublicKey // alphabet contract -> current vote
	NNSUsers    map[string]bool                  // name+"/"+scripthash -> registered

	// one-shot read fault: the FailNth-th (1-based) read named FailRead (e.g. "netmap.NetMap", "fs.TxHeight")
	// after the plan was set fails with ErrInjected; the plan then disarms itself.
	FailRead string
	FailNth  int
	failSeen int
}

// ErrInjected is returned by a read that the fault plan makes fail.
var ErrInjected = errors.New("irworld: injected chain read failure")

// SetReadFault arms the one-shot read fault plan ("" disarms).
func (t *Tables) SetReadFault(name string, nth int) { t.FailRead, t.FailNth, t.failSeen = name, nth, 0 }

// faultLocked reports whether this read must fail (w.mu held).
func (w *World) faultLocked(name string) bool {
	if w.T.FailRead == "" || w.T.FailRead != name {
		return false
	}
	w.T.failSeen++
	if w.T.failSeen == w.T.FailNth {
		w.T.FailRead = ""
		return true
	}
	return false
}

// FaultableRead tells whether the fault plan can make the named read fail.
func FaultableRead(name string) bool {
	switch name {
	case "fs.TxHeight", "fs.GetBlockHeader", "fs.BlockCount", "container.Get", "container.List":
		return true
	}
	return strings.HasPrefix(name, "netmap.")
}

// World is one inner ring node with its recording chain.
type World struct {
	ID      int
	NodeKey *keys.PrivateKey
	Srv     *innerring.Server
	FS      *client.Client
	Main    *client.Client

	// contract addresses
	Netmap, Balance, Container, Reputation, Proxy, NNS util.Uint160
	NeoFS, Processing, Designate                        util.Uint160
	Alphabet                                            []util.Uint160

	mu     sync.Mutex
	T      Tables
	calls  []Call
	reads  []string
	nCli   int
	dir    string
	cancel context.CancelFunc
	ctx    context.Context
	errCh  chan error
	names  map[util.Uint160]string
	pools     []*ants.Pool
	poolNames []string
	poolRank  map[*ants.Pool]int
	anchor    chan struct{}

	StartErr   error
	TraceReads bool // record the names of answered reads (diagnostics only)
}

var (
	worlds     sync.Map // *client.Client -> *World
	buildMu    sync.Mutex // innerring.New runs for one world at a time
	building   *World
	hooksOnce  sync.Once
	worldCount atomic.Int64
)

// HarnessPanic is raised when the code under test calls a chain method the world does not model.
type HarnessPanic struct{ Msg string }

func (h HarnessPanic) Error() string { return h.Msg }

func installHooks() {
	client.VerifFnHook = func(name string, args []any) ([]any, bool) {
		if name != "New" {
			return nil, false
		}
		w := building
		if w == nil || !args[0].(*keys.PrivateKey).PublicKey().Equal(w.NodeKey.PublicKey()) {
			panic(HarnessPanic{"client.New outside of world construction"})
		}
		c := client.VerifNewClient()
		w.mu.Lock()
		switch w.nCli {
		case 0:
			w.FS = c
		case 1:
			w.Main = c
		default:
			w.mu.Unlock()
			panic(HarnessPanic{"third client.New call"})
		}
		w.nCli++
		w.mu.Unlock()
		worlds.Store(c, w)
		return []any{c, nil}, true
	}
	client.VerifHook = func(c *client.Client, name string, args []any) ([]any, bool) {
		wv, ok := worlds.Load(c)
		if !ok {
			if name == "Close" {
				return nil, true
			}
			panic(HarnessPanic{"morph client method " + name + " on a client without world"})
		}
		return wv.(*World).onClient(c, name, args), true
	}
	cntcli.VerifHook = func(c *cntcli.Client, name string, args []any) ([]any, bool) {
		wv, ok := worlds.Load(c.Morph())
		if !ok {
			panic(HarnessPanic{"container client without world"})
		}
		return wv.(*World).onContainer(name, args), true
	}
	nmcli.VerifHook = func(c *nmcli.Client, name string, args []any) ([]any, bool) {
		wv, ok := worlds.Load(c.Morph())
		if !ok {
			panic(HarnessPanic{"netmap client without world"})
		}
		return wv.(*World).onNetmap(name, args), true
	}
	balcli.VerifHook = func(c *balcli.Client, name string, args []any) ([]any, bool) {
		wv, ok := worlds.Load(c.VerifMorph())
		if !ok {
			panic(HarnessPanic{"balance client without world"})
		}
		return wv.(*World).onBalance(name, args), true
	}
	// node validators that talk to the outside world answer as a pure function of the node descriptor
	availability.VerifHook = func(_ *availability.Validator, _ string, a []any) ([]any, bool) {
		return []any{Reachability(a[0].(netmap.NodeInfo))}, true
	}
	external.VerifHook = func(_ *external.Validator, _ string, a []any) ([]any, bool) {
		return []any{ExternalVerdict(a[0].(netmap.NodeInfo))}, true
	}
	innerring.VerifSetNNSCheck(NNSCheck)
	// learn the processors' worker pools
	addPool := func(n string, p *ants.Pool) {
		if building == nil {
			return
		}
		for _, q := range building.pools {
			if q == p {
				return
			}
		}
		building.pools = append(building.pools, p)
		building.poolNames = append(building.poolNames, n)
		if building.poolRank == nil {
			building.poolRank = map[*ants.Pool]int{}
		}
		building.poolRank[p] = map[string]int{"netmap": 0, "governance": 1}[n] + 2*map[bool]int{true: 0, false: 1}[n == "netmap" || n == "governance"]
	}
	palphabet.VerifHook = func(p *palphabet.Processor, _ string, _ []any) ([]any, bool) { addPool("alphabet", p.VerifPool()); return nil, false }
	pbalance.VerifHook = func(p *pbalance.Processor, _ string, _ []any) ([]any, bool) { addPool("balance", p.VerifPool()); return nil, false }
	pcontainer.VerifHook = func(p *pcontainer.Processor, _ string, _ []any) ([]any, bool) { addPool("container", p.VerifPool()); return nil, false }
	pgovernance.VerifHook = func(p *pgovernance.Processor, _ string, _ []any) ([]any, bool) { addPool("governance", p.VerifPool()); return nil, false }
	pneofs.VerifHook = func(p *pneofs.Processor, _ string, _ []any) ([]any, bool) { addPool("neofs", p.VerifPool()); return nil, false }
	pnetmap.VerifHook = func(p *pnetmap.Processor, _ string, _ []any) ([]any, bool) { addPool("netmap", p.VerifPool()); return nil, false }
	preputation.VerifHook = func(p *preputation.Processor, _ string, _ []any) ([]any, bool) { addPool("reputation", p.VerifPool()); return nil, false }
	nodeutil.VerifFnHook = func(name string, args []any) ([]any, bool) {
		if name != "SingleAsyncExecutingInstance" {
			return nil, false
		}
		f := args[0].(func())
		return []any{func() { f() }, func() {}}, true
	}
}

// Options of a world.
type Options struct {
	CommitteeSize int  // number of alphabet keys (and alphabet contracts); default 4
	Validators    keys.PublicKeys // fschain.validators (start-up vote); default: the committee
	StorageEmission uint64
	AllowEC       bool
	Log           *zap.Logger
	NoStart       bool // build only (Server.Start is not called)
	ExternalValidator bool // configure sn_validator (the external node validator)
	IndexerCacheTimeout time.Duration // indexer.cache_timeout (0 = every membership query refreshes)
}

// AlphabetKey returns the i-th alphabet key of every world (shared universe).
func AlphabetKey(i int) *keys.PrivateKey { return Key(fmt.Sprintf("alphabet-%d", i)) }

// New builds a world whose node key is derived from label. Initially the node is NOT in any list;
// use SetMember/SetNonMember/... before delivering events. The start-up state is given by init (may be nil),
// applied to the tables before innerring.New runs.
func New(label string, o Options, init func(w *World)) (w *World, err error) {
	hooksOnce.Do(installHooks)
	if o.CommitteeSize == 0 {
		o.CommitteeSize = 4
	}
	if o.Log == nil {
		o.Log = zap.NewNop()
	}
	w = &World{ID: int(worldCount.Add(1)), NodeKey: Key("node/" + label), names: map[util.Uint160]string{}}
	name := func(n string) util.Uint160 { h := Hash160("contract/" + n); w.names[h] = n; return h }
	w.Netmap, w.Balance, w.Container, w.Reputation = name("netmap"), name("balance"), name("container"), name("reputation")
	w.Proxy, w.NNS, w.NeoFS, w.Processing, w.Designate = name("proxy"), name("nns"), name("neofs"), name("processing"), name("designate")
	for i := 0; i < o.CommitteeSize; i++ {
		w.Alphabet = append(w.Alphabet, name(fmt.Sprintf("alphabet%d", i)))
	}
	w.T = Tables{
		Epoch: 10, EpochDuration: 100, LastEpochBlock: 50, BlockCount: 60, BlockTimeMs: 1000, BasicIncome: 1,
		NetMap: new(netmap.NetMap), Containers: map[cid.ID]container.Container{}, TxHeight: map[util.Uint256]uint32{},
		ValidScript: true, GasBalance: 1_000_0000_0000, Votes: map[util.Uint160]*keys.PublicKey{}, NNSUsers: map[string]bool{},
	}
	for i := 0; i < o.CommitteeSize; i++ {
		w.T.Committee = append(w.T.Committee, AlphabetKey(i).PublicKey())
	}
	sort.Sort(w.T.Committee)
	w.T.IRList = append(keys.PublicKeys{}, w.T.Committee...)
	w.T.MainAlphabet = append(keys.PublicKeys{}, w.T.Committee...)
	if init != nil {
		init(w)
	}

	defer func() {
		if r := recover(); r != nil {
			if hp, ok := r.(HarnessPanic); ok {
				err = hp
				return
			}
			panic(r)
		}
	}()

	sweepOnce.Do(sweepStale)
	w.dir, err = os.MkdirTemp("/dev/shm", fmt.Sprintf("verif-irworld-%d-", os.Getpid()))
	if err != nil {
		return nil, err
	}
	live.Store(w, struct{}{})
	wpath := filepath.Join(w.dir, "wallet.json")
	wl, err := wallet.NewWallet(wpath)
	if err != nil {
		return nil, err
	}
	wl.Scrypt = keys.ScryptParams{N: 2, R: 1, P: 1}
	acc := wallet.NewAccountFromPrivateKey(w.NodeKey)
	if err = acc.Encrypt("", wl.Scrypt); err != nil {
		return nil, err
	}
	wl.AddAccount(acc)
	if err = wl.Save(); err != nil {
		return nil, err
	}

	var cfg irconfig.Config
	cfg.Wallet = irconfig.Wallet{Path: wpath, Address: acc.Address, Password: ""}
	cfg.FSChain.Endpoints = []string{"ws://verif.invalid:1"}
	cfg.FSChain.DisableAutodeploy = true
	cfg.FSChain.Validators = o.Validators
	if cfg.FSChain.Validators == nil {
		cfg.FSChain.Validators = append(keys.PublicKeys{}, w.T.Committee...)
	}
	cfg.Mainnet.Enabled = true
	cfg.Mainnet.Endpoints = []string{"ws://verif.invalid:2"}
	cfg.Mainnet.Contracts = irconfig.Contracts{NeoFS: w.NeoFS.StringLE(), Processing: w.Processing.StringLE()}
	cfg.Node.PersistentState.Path = filepath.Join(w.dir, "state.db")
	cfg.Timers.CollectBasicIncome = irconfig.BasicTimer{Mul: 1, Div: 2}
	cfg.Emit.Storage.Amount = o.StorageEmission
	cfg.Emit.Mint = irconfig.Mint{Value: 20000000, CacheSize: 100, Threshold: 1}
	cfg.Emit.Gas.BalanceThreshold = 0
	cfg.Workers = irconfig.Workers{Alphabet: 2, Balance: 2, Container: 2, NeoFS: 2, Netmap: 2, Reputation: 2}
	cfg.Indexer.CacheTimeout = o.IndexerCacheTimeout
	cfg.Experimental.AllowEC = o.AllowEC
	if o.ExternalValidator {
		cfg.Validator = irconfig.Validator{Enabled: true, URL: "http://verif.invalid/validate"}
	}

	ctx, cancel := context.WithCancel(context.Background())
	w.cancel = cancel
	errCh := make(chan error, 16)
	buildMu.Lock()
	building = w
	func() {
		defer func() { building = nil; buildMu.Unlock() }()
		w.Srv, err = innerring.New(ctx, o.Log, &cfg, errCh)
	}()
	if err != nil {
		w.Close()
		return nil, fmt.Errorf("innerring.New: %w", err)
	}
	if len(w.pools) != 7 {
		w.Close()
		return nil, fmt.Errorf("expected 7 processor pools, learnt %v", w.poolNames)
	}
	sort.SliceStable(w.pools, func(i, j int) bool { return w.poolRank[w.pools[i]] < w.poolRank[w.pools[j]] })
	sort.Strings(w.poolNames) // names only used in diagnostics
	w.anchor = make(chan struct{})
	for _, p := range w.pools {
		p.Tune(2) // the governance pool is created with capacity 1
		if err = p.Submit(func() { <-w.anchor }); err != nil {
			w.Close()
			return nil, fmt.Errorf("anchor task: %w", err)
		}
	}
	w.ctx, w.errCh = ctx, errCh
	if !o.NoStart {
		w.Start()
	}
	return w, nil
}

// Start runs the real Server.Start (once) and waits for the pools.
func (w *World) Start() error {
	w.StartErr = w.Srv.Start(w.ctx, w.errCh)
	w.Quiesce()
	return w.StartErr
}

var (
	live      sync.Map // *World -> struct{}: worlds not yet closed
	sweepOnce sync.Once
)

// sweepStale removes scratch directories left by irworld processes that no longer exist
// (a check that ends through a fatal harness error cannot run its clean-up).
func sweepStale() {
	ds, _ := filepath.Glob("/dev/shm/verif-irworld-*")
	for _, d := range ds {
		var pid int
		if _, err := fmt.Sscanf(filepath.Base(d), "verif-irworld-%d-", &pid); err != nil || pid <= 0 {
			continue
		}
		if _, err := os.Stat(fmt.Sprintf("/proc/%d", pid)); os.IsNotExist(err) {
			os.RemoveAll(d)
		}
	}
}

// CloseAll closes every world that is still open (call before the check exits).
func CloseAll() {
	live.Range(func(k, _ any) bool { k.(*World).Close(); return true })
}

// Close releases the world's resources.
func (w *World) Close() {
	if _, open := live.LoadAndDelete(w); !open && w.dir != "" {
		return
	}
	if w.Srv != nil {
		w.Srv.Stop()
	}
	if w.cancel != nil {
		w.cancel()
	}
	if w.anchor != nil {
		close(w.anchor)
		w.anchor = nil
	}
	// the clients stay registered: the listeners' goroutines started by Server.Start may still call
	// lifecycle methods (Notifications, Receive*, Close) after this point
	if w.dir != "" {
		os.RemoveAll(w.dir)
	}
}

// Lock gives exclusive access to the tables.
func (w *World) Lock(f func(t *Tables)) {
	w.mu.Lock()
	defer w.mu.Unlock()
	f(&w.T)
}

// TakeCalls returns and clears the recorded mutating calls.
func (w *World) TakeCalls() []Call {
	w.mu.Lock()
	defer w.mu.Unlock()
	c := w.calls
	w.calls = nil
	return c
}

// TakeReads returns and clears the names of answered reads (diagnostics).
func (w *World) TakeReads() []string {
	w.mu.Lock()
	defer w.mu.Unlock()
	c := w.reads
	w.reads = nil
	return c
}

func (w *World) contractName(h util.Uint160) string {
	if n, ok := w.names[h]; ok {
		return n
	}
	return h.StringLE()
}

// ContractName is the exported logical name lookup.
func (w *World) ContractName(h util.Uint160) string { return w.contractName(h) }

func render(v any) string {
	switch x := v.(type) {
	case []any:
		var s []string
		for _, e := range x {
			s = append(s, render(e))
		}
		return "[" + strings.Join(s, ",") + "]"
	case []byte:
		if len(x) > 12 {
			h := sha256.Sum256(x)
			return fmt.Sprintf("bytes%d:%x", len(x), h[:4])
		}
		return fmt.Sprintf("%x", x)
	case keys.PublicKeys:
		var s []string
		for _, k := range x {
			s = append(s, k.StringCompressed()[:10])
		}
		return "keys[" + strings.Join(s, ",") + "]"
	case *keys.PublicKey:
		return "key:" + x.StringCompressed()[:10]
	case util.Uint160:
		return x.StringLE()[:10]
	case util.Uint256:
		return x.StringLE()[:10]
	case [][]byte:
		var s []string
		for _, e := range x {
			s = append(s, render(e))
		}
		return "[" + strings.Join(s, ",") + "]"
	case *uint32:
		if x == nil {
			return "nil"
		}
		return fmt.Sprint(*x)
	case context.Context:
		return "ctx"
	default:
		return fmt.Sprint(v)
	}
}

func (w *World) record(c Call) {
	w.mu.Lock()
	w.calls = append(w.calls, c)
	w.mu.Unlock()
}

func (w *World) chainOf(c *client.Client) string {
	if c == w.Main {
		return "main"
	}
	return "fs"
}

var errNoSuch = errors.New("irworld: no such record")

// onClient answers / records one morph client call. Unknown methods are a harness error, never ignored.
func (w *World) onClient(c *client.Client, name string, a []any) []any {
	chain := w.chainOf(c)
	rd := func() bool {
		w.mu.Lock()
		defer w.mu.Unlock()
		if w.TraceReads {
			w.reads = append(w.reads, chain+"."+name)
		}
		return w.faultLocked(chain + "." + name)
	}
	switch name {
	// ---- mutating calls needing alphabet authority ----
	case "Invoke": // ctx, contract, await, payByProxy, fee, method, args...
		w.record(Call{Chain: chain, Method: name, Contract: w.contractName(a[1].(util.Uint160)), Op: a[5].(string), Args: render(a[6]), Class: "alphabet"})
		return []any{nil}
	case "NotaryInvoke": // ctx, contract, await, fee, nonce, vub, method, args...
		w.record(Call{Chain: chain, Method: name, Contract: w.contractName(a[1].(util.Uint160)), Op: a[6].(string), Args: render(a[7]), Class: "alphabet"})
		return []any{Hash256("notary-invoke"), nil}
	case "NotaryInvokeNotAlpha": // contract, await, fee, method, args...
		w.record(Call{Chain: chain, Method: name, Contract: w.contractName(a[0].(util.Uint160)), Op: a[3].(string), Args: render(a[4]), Class: "alphabet"})
		return []any{nil}
	case "CallWithAlphabetWitness": // ctx, contract, method, args
		w.record(Call{Chain: chain, Method: name, Contract: w.contractName(a[1].(util.Uint160)), Op: a[2].(string), Args: render(a[3]), Class: "alphabet"})
		return []any{nil}
	case "NotarySignAndInvokeTX": // mainTx, await
		tx := a[0].(*transaction.Transaction)
		w.record(Call{Chain: chain, Method: name, Contract: "-", Op: "-", Args: fmt.Sprintf("script:%x", sha256.Sum256(tx.Script))[:23], Class: "alphabet", TxHash: tx.Hash().StringLE(), MainTx: tx})
		return []any{nil}
	case "TransferGas": // receiver, amount
		w.record(Call{Chain: chain, Method: name, Contract: "gas", Op: "transfer", Args: render(a[0]) + "," + fmt.Sprint(int64(a[1].(fixedn.Fixed8))), Class: "alphabet"})
		return []any{nil}
	case "UpdateNotaryList", "UpdateNeoFSAlphabetList": // keys, txHash
		w.record(Call{Chain: chain, Method: name, Contract: "designate", Op: "designateAsRole", Args: render(a[0]), Class: "alphabet"})
		return []any{nil}
	case "runAlphabetNotaryScript": // ctx, script, nonce, await, invokedByAlpha
		w.record(Call{Chain: chain, Method: name, Contract: "-", Op: "script", Args: render(a[1]), Class: "alphabet"})
		return []any{nil}
	// ---- mutating calls on the node's own account ----
	case "DepositNotary", "DepositEndlessNotary":
		w.record(Call{Chain: chain, Method: name, Contract: "notary", Op: "deposit", Args: "", Class: "own"})
		return []any{nil}
	case "SendRawTransaction", "SubmitP2PNotaryRequest":
		panic(HarnessPanic{"raw transaction submission " + name + " reached below the modelled client API"})

	// ---- reads ----
	case "Committee", "GetCommittee":
		rd()
		w.mu.Lock()
		defer w.mu.Unlock()
		if w.T.CommitteeErr != nil {
			return []any{nil, w.T.CommitteeErr}
		}
		return []any{append(keys.PublicKeys{}, w.T.Committee...), nil}
	case "NeoFSAlphabetList":
		rd()
		w.mu.Lock()
		defer w.mu.Unlock()
		if chain == "main" {
			return []any{append(keys.PublicKeys{}, w.T.MainAlphabet...), nil}
		}
		if w.T.IRListErr != nil {
			return []any{nil, w.T.IRListErr}
		}
		return []any{append(keys.PublicKeys{}, w.T.IRList...), nil}
	case "GasBalance":
		rd()
		w.mu.Lock()
		defer w.mu.Unlock()
		return []any{w.T.GasBalance, nil}
	case "GetNotaryDeposit":
		return []any{int64(0), nil}
	case "TxHeight":
		if rd() {
			return []any{uint32(0), ErrInjected}
		}
		w.mu.Lock()
		defer w.mu.Unlock()
		if h, ok := w.T.TxHeight[a[0].(util.Uint256)]; ok {
			return []any{h, nil}
		}
		return []any{uint32(0), errNoSuch}
	case "TxHalt":
		return []any{true, nil}
	case "BlockCount", "GetBlockCount":
		if rd() {
			return []any{uint32(0), ErrInjected}
		}
		w.mu.Lock()
		defer w.mu.Unlock()
		return []any{w.T.BlockCount, nil}
	case "GetBlockHeader":
		if rd() {
			return []any{nil, ErrInjected}
		}
		w.mu.Lock()
		defer w.mu.Unlock()
		i := a[0].(uint32)
		return []any{&block.Header{Index: i, Timestamp: uint64(i) * w.T.BlockTimeMs}, nil}
	case "MsPerBlock":
		w.mu.Lock()
		defer w.mu.Unlock()
		return []any{int64(w.T.BlockTimeMs), nil}
	case "MagicNumber":
		return []any{uint32(0x4e454f46), nil}
	case "IsValidScript":
		rd()
		w.mu.Lock()
		defer w.mu.Unlock()
		return []any{w.T.ValidScript, w.T.ValidScriptErr}
	case "AccountVote":
		rd()
		w.mu.Lock()
		defer w.mu.Unlock()
		return []any{w.T.Votes[a[0].(util.Uint160)], nil}
	case "CalculateNonceAndVUB":
		return []any{uint32(7), uint32(1000), nil}
	case "GetDesignateHash":
		return []any{w.Designate}
	case "NNSHash":
		return []any{w.NNS, nil}
	case "NNSContractAddress":
		n := a[0].(string)
		m := map[string]util.Uint160{
			client.NNSNetmapContractName: w.Netmap, client.NNSBalanceContractName: w.Balance,
			client.NNSContainerContractName: w.Container, client.NNSReputationContractName: w.Reputation,
			client.NNSProxyContractName: w.Proxy,
		}
		if h, ok := m[n]; ok {
			return []any{h, nil}
		}
		for i, h := range w.Alphabet {
			if n == client.NNSAlphabetContractName(i) {
				return []any{h, nil}
			}
		}
		return []any{util.Uint160{}, client.ErrNNSRecordNotFound}
	case "HasUserInNNS":
		rd()
		w.mu.Lock()
		defer w.mu.Unlock()
		return []any{w.T.NNSUsers[a[0].(string)+"/"+a[1].(util.Uint160).StringLE()], nil}
	case "InvokeContainedScript":
		// N3 contract-account witnesses are not modelled: the chain never confirms one
		rd()
		return []any{&result.Invoke{State: "HALT", Stack: []stackitem.Item{stackitem.NewBool(false)}}, nil}
	case "ProbeNotary", "IsNotaryEnabled":
		return []any{true}
	case "EnableNotarySupport", "InitFSChainScope", "ReceiveExecutionNotifications", "ReceiveHeaders",
		"ReceiveNotaryRequests", "ReceiveAllNotaryRequests", "UnsubscribeAll":
		return []any{nil}
	case "Notifications":
		return []any{(<-chan *state.ContainedNotificationEvent)(make(chan *state.ContainedNotificationEvent)),
			(<-chan *block.Header)(make(chan *block.Header)),
			(<-chan *result.NotaryRequestEvent)(make(chan *result.NotaryRequestEvent))}
	case "Close", "Reload":
		return nil
	}
	panic(HarnessPanic{fmt.Sprintf("unmodelled morph client method %s.%s(%d args)", chain, name, len(a))})
}

func (w *World) onContainer(name string, a []any) []any {
	w.mu.Lock()
	defer w.mu.Unlock()
	if w.TraceReads {
		w.reads = append(w.reads, "container."+name)
	}
	if w.faultLocked("container." + name) {
		if name == "Get" {
			return []any{container.Container{}, ErrInjected}
		}
		return []any{nil, ErrInjected}
	}
	switch name {
	case "Get":
		if w.T.ContainerErr != nil {
			return []any{container.Container{}, w.T.ContainerErr}
		}
		var id cid.ID
		if err := id.Decode(a[0].([]byte)); err != nil {
			return []any{container.Container{}, err}
		}
		c, ok := w.T.Containers[id]
		if !ok {
			return []any{container.Container{}, errNoSuch}
		}
		return []any{c, nil}
	case "List":
		var ids []cid.ID
		var owner *user.ID
		if len(a) > 0 {
			owner, _ = a[0].(*user.ID)
		}
		for id, c := range w.T.Containers {
			if owner == nil || c.Owner() == *owner {
				ids = append(ids, id)
			}
		}
		sort.Slice(ids, func(i, j int) bool { return string(ids[i][:]) < string(ids[j][:]) })
		return []any{ids, nil}
	}
	panic(HarnessPanic{"unmodelled container client read " + name})
}

func (w *World) onNetmap(name string, a []any) []any {
	w.mu.Lock()
	defer w.mu.Unlock()
	if w.TraceReads {
		w.reads = append(w.reads, "netmap."+name)
	}
	if w.faultLocked("netmap." + name) {
		switch name {
		case "Epoch", "EpochDuration", "BasicIncomeRate":
			return []any{uint64(0), ErrInjected}
		case "LastEpochBlock", "GetEpochBlock", "GetEpochBlockByTime":
			return []any{uint32(0), ErrInjected}
		default:
			return []any{nil, ErrInjected}
		}
	}
	switch name {
	case "Epoch":
		return []any{w.T.Epoch, nil}
	case "EpochDuration":
		return []any{w.T.EpochDuration, nil}
	case "LastEpochBlock":
		return []any{w.T.LastEpochBlock, nil}
	case "GetEpochBlock":
		return []any{w.T.LastEpochBlock, nil}
	case "GetEpochBlockByTime":
		return []any{w.T.LastEpochBlock, nil}
	case "BasicIncomeRate":
		return []any{w.T.BasicIncome, nil}
	case "NetMap", "GetNetMapByEpoch":
		nm := new(netmap.NetMap)
		nm.SetNodes(append([]netmap.NodeInfo{}, w.T.NetMap.Nodes()...))
		if name == "GetNetMapByEpoch" {
			nm.SetEpoch(a[0].(uint64))
		} else {
			nm.SetEpoch(w.T.Epoch)
		}
		return []any{nm, nil}
	case "GetCandidates":
		return []any{append([]netmap.NodeInfo{}, w.T.NetMap.Nodes()...), nil}
	}
	panic(HarnessPanic{"unmodelled netmap client read " + name})
}

func (w *World) onBalance(name string, _ []any) []any {
	switch name {
	case "Decimals":
		return []any{uint32(12), nil}
	}
	panic(HarnessPanic{"unmodelled balance client read " + name})
}


// Quiesce returns when every task submitted to a processor pool before the call (and every task those tasks
// submitted to other pools) has completed. It is exact, not time based. Every pool permanently hosts one
// parked "anchor" task of the harness (capacity is 2: anchor + one event). A pool with more than one live
// worker is closed (Release): a closed pool makes each worker exit as soon as its current task returns; the
// worker count falling back to 1 (the anchor) is awaited by yielding; then the pool is reopened (Reboot).
// The anchor keeps the count above zero, so ants' own "last worker gone" bookkeeping never runs concurrently
// with Reboot. The netmap pool is visited before the governance pool (the only cross-pool submission) and two
// consecutive passes must find every pool with the anchor only. Deliveries are made by the goroutine that
// calls Quiesce, so no handler ever meets a closed pool.
func (w *World) Quiesce() {
	clean := 0
	for clean < 2 {
		busy := false
		for i, p := range w.pools {
			if p.Running() <= 1 {
				continue
			}
			busy = true
			p.Release()
			for n := 0; p.Running() > 1; n++ {
				runtime.Gosched()
				if n > 1<<36 {
					panic(HarnessPanic{"pool never becomes idle: " + w.poolNames[i]})
				}
			}
			p.Reboot()
		}
		if busy {
			clean = 0
		} else {
			clean++
		}
	}
}

// ---- environment of the node validators (pure functions of the descriptor) ----

// Reachability models dialling the candidate: hosts containing "down" do not answer, hosts containing
// "liar" answer with different node information.
func Reachability(ni netmap.NodeInfo) error {
	for e := range ni.NetworkEndpoints() {
		if strings.Contains(e, "down") {
			return errors.New("irworld: node does not answer on " + e)
		}
		if strings.Contains(e, "liar") {
			return errors.New("irworld: node on " + e + " reports different information")
		}
	}
	return nil
}

// ExternalVerdict models the external validation service: it rejects nodes with attribute ExternalVerdict=reject.
func ExternalVerdict(ni netmap.NodeInfo) error {
	if ni.Attribute("ExternalVerdict") == "reject" {
		return errors.New("irworld: external validator says no")
	}
	return nil
}

// VerifiedDomain is the only NNS domain with records; it lists exactly the node with label "listed".
const VerifiedDomain = "nodes.verified"

// NNSCheck models the NNS contract: VerifiedDomain has one TXT record (the Neo address of node "listed").
func NNSCheck(domain, record string) error {
	if domain != VerifiedDomain {
		return errors.New("irworld: domain not found")
	}
	_, k := Node("listed")
	if record == "address="+k.PublicKey().Address() {
		return nil
	}
	return privatedomains.ErrMissingDomainRecord
}
