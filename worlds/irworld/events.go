package irworld

import (
	"crypto/ecdsa"
	"crypto/sha256"
	"fmt"
	"math/big"

	"github.com/nspcc-dev/neo-go/pkg/core/block"
	"github.com/nspcc-dev/neo-go/pkg/core/native/noderoles"
	"github.com/nspcc-dev/neo-go/pkg/core/state"
	"github.com/nspcc-dev/neo-go/pkg/core/transaction"
	"github.com/nspcc-dev/neo-go/pkg/crypto/hash"
	"github.com/nspcc-dev/neo-go/pkg/crypto/keys"
	"github.com/nspcc-dev/neo-go/pkg/neorpc"
	"github.com/nspcc-dev/neo-go/pkg/neorpc/result"
	"github.com/nspcc-dev/neo-go/pkg/network/payload"
	"github.com/nspcc-dev/neo-go/pkg/smartcontract"
	"github.com/nspcc-dev/neo-go/pkg/util"
	"github.com/nspcc-dev/neo-go/pkg/vm/opcode"
	"github.com/nspcc-dev/neo-go/pkg/vm/stackitem"
	netmaprpc "github.com/nspcc-dev/neofs-contract/rpc/netmap"
	cntcli "github.com/nspcc-dev/neofs-node/pkg/morph/client/container"
	"github.com/nspcc-dev/neofs-node/pkg/morph/event"
	sdkclient "github.com/nspcc-dev/neofs-sdk-go/client"
	"github.com/nspcc-dev/neofs-sdk-go/container"
	"github.com/nspcc-dev/neofs-sdk-go/container/acl"
	cid "github.com/nspcc-dev/neofs-sdk-go/container/id"
	neofsecdsa "github.com/nspcc-dev/neofs-sdk-go/crypto/ecdsa"
	"github.com/nspcc-dev/neofs-sdk-go/eacl"
	"github.com/nspcc-dev/neofs-sdk-go/netmap"
	"github.com/nspcc-dev/neofs-sdk-go/reputation"
	"github.com/nspcc-dev/neofs-sdk-go/session"
	"github.com/nspcc-dev/neofs-sdk-go/user"
	"time"
)

// ---------- delivery ----------

// Notify delivers a raw contract notification to the FS ("fs") or main ("main") chain listener and
// returns when it is completely processed.
func (w *World) Notify(chain string, contract util.Uint160, name string, tx util.Uint256, items ...stackitem.Item) {
	ev := &state.ContainedNotificationEvent{Container: tx,
		NotificationEvent: state.NotificationEvent{ScriptHash: contract, Name: name, Item: stackitem.NewArray(items)}}
	l := w.Srv.VerifFSListener()
	if chain == "main" {
		l = w.Srv.VerifMainListener()
	}
	event.VerifHandleNotification(l, ev)
	w.Quiesce()
}

// Notary delivers a raw notary request to the FS chain listener and returns when it is processed.
func (w *World) Notary(nr *payload.P2PNotaryRequest) {
	event.VerifHandleNotary(w.Srv.VerifFSListener(), &result.NotaryRequestEvent{Type: 0, NotaryRequest: nr})
	w.Quiesce()
}

// Header delivers a block header (index i, timestamp i*BlockTimeMs) to the FS chain listener's header handlers.
func (w *World) Header(i uint32) {
	var ts uint64
	w.Lock(func(t *Tables) { ts = uint64(i) * t.BlockTimeMs; t.BlockCount = i + 1 })
	event.VerifHandleHeader(w.Srv.VerifFSListener(), &block.Header{Index: i, Timestamp: ts})
	w.Quiesce()
}

// ---------- notary request construction ----------

// NROpt tweaks a notary request away from the well-formed shape.
type NROpt struct {
	Invoker        bool   // add the optional invoker signer/witness
	NVB            uint32 // fallback NotValidBefore height (0 = far in the future)
	WrongAlphabet  bool   // second signer/witness is not the current alphabet multisig
	WrongAlphaWit  bool   // alphabet signer account is right, but its witness carries another verification script
	ProxyWitness   bool   // non-empty witness for the proxy signer
	EmptyInvokerW  bool   // invoker present but its witness is empty
	BadPlaceholder bool   // notary placeholder witness has a verification script
	NKeysDelta     int    // NotaryAssisted.NKeys deviation
	ExtraAttr      bool   // second main tx attribute
	NoAttr         bool   // no main tx attribute
	FBAttrs        int    // number of fallback attributes (0 = 3)
	ExtraSigner    bool   // one more signer than witnesses
	SignedAlphabet bool   // alphabet witness already carries an invocation script
	Nonce          uint32
	FromLocal      bool // fallback signed by the node itself
}

func multisig(ks keys.PublicKeys) []byte {
	s, err := smartcontract.CreateMultiSigRedeemScript(len(ks)*2/3+1, ks.Copy())
	if err != nil {
		panic(err)
	}
	return s
}

// Script builds an invocation script of the given calls exactly like the morph client does.
type CallSpec struct {
	Contract util.Uint160
	Method   string
	Args     []any
}

func Script(calls ...CallSpec) []byte {
	b := smartcontract.NewBuilder()
	for _, c := range calls {
		b.InvokeMethod(c.Contract, c.Method, c.Args...)
	}
	s, err := b.Script()
	if err != nil {
		panic(err)
	}
	return s
}

// Request builds a notary request around script for the world's *current* committee.
func (w *World) Request(script []byte, o NROpt) *payload.P2PNotaryRequest {
	var committee keys.PublicKeys
	var height uint32
	w.Lock(func(t *Tables) { committee = t.Committee.Copy(); height = t.BlockCount })
	if o.WrongAlphabet {
		committee = keys.PublicKeys{Key("wrong-alphabet").PublicKey()}
	}
	ms := multisig(committee)
	invoker := Key("invoker")
	signers := []transaction.Signer{{Account: w.Proxy}, {Account: hash.Hash160(ms)}}
	wits := []transaction.Witness{{}, {VerificationScript: ms, InvocationScript: []byte{}}}
	if o.WrongAlphaWit {
		wits[1].VerificationScript = multisig(keys.PublicKeys{Key("wrong-alphabet").PublicKey()})
	}
	if o.ProxyWitness {
		wits[0].InvocationScript = []byte{byte(opcode.PUSH1)}
	}
	if o.SignedAlphabet {
		wits[1].InvocationScript = append([]byte{byte(opcode.PUSHDATA1), 64}, make([]byte, 64)...)
	}
	n := len(committee)
	if o.Invoker {
		signers = append(signers, transaction.Signer{Account: invoker.GetScriptHash()})
		iw := transaction.Witness{VerificationScript: invoker.PublicKey().GetVerificationScript(),
			InvocationScript: append([]byte{byte(opcode.PUSHDATA1), 64}, make([]byte, 64)...)}
		if o.EmptyInvokerW {
			iw = transaction.Witness{}
		}
		wits = append(wits, iw)
		n++
	}
	signers = append(signers, transaction.Signer{Account: Hash160("notary-native")})
	last := transaction.Witness{InvocationScript: append([]byte{byte(opcode.PUSHDATA1), 64}, make([]byte, 64)...)}
	if o.BadPlaceholder {
		last.VerificationScript = []byte{byte(opcode.PUSH1)}
	}
	wits = append(wits, last)
	if o.ExtraSigner {
		signers = append(signers, transaction.Signer{Account: Hash160("extra-signer")})
	}
	var attrs []transaction.Attribute
	if !o.NoAttr {
		attrs = append(attrs, transaction.Attribute{Type: transaction.NotaryAssistedT, Value: &transaction.NotaryAssisted{NKeys: uint8(n + o.NKeysDelta)}})
	}
	if o.ExtraAttr {
		attrs = append(attrs, transaction.Attribute{Type: transaction.HighPriority})
	}
	nvb := o.NVB
	if nvb == 0 {
		nvb = height + 1000
	}
	fbSigner := Key("requester").GetScriptHash()
	if o.FromLocal {
		fbSigner = w.NodeKey.GetScriptHash()
	}
	fbAttrs := []transaction.Attribute{
		{Type: transaction.NotaryAssistedT, Value: &transaction.NotaryAssisted{NKeys: 0}},
		{Type: transaction.NotValidBeforeT, Value: &transaction.NotValidBefore{Height: nvb}},
		{Type: transaction.ConflictsT, Value: &transaction.Conflicts{Hash: Hash256("main")}},
	}
	if o.FBAttrs != 0 {
		for len(fbAttrs) > o.FBAttrs {
			fbAttrs = fbAttrs[:len(fbAttrs)-1]
		}
		for len(fbAttrs) < o.FBAttrs {
			fbAttrs = append(fbAttrs, transaction.Attribute{Type: transaction.HighPriority})
		}
	}
	return &payload.P2PNotaryRequest{
		MainTransaction: &transaction.Transaction{Nonce: o.Nonce, ValidUntilBlock: height + 100, Script: script,
			Signers: signers, Scripts: wits, Attributes: attrs},
		FallbackTransaction: &transaction.Transaction{ValidUntilBlock: height + 100, Script: []byte{byte(opcode.RET)},
			Signers:    []transaction.Signer{{Account: Hash160("notary-native")}, {Account: fbSigner}},
			Scripts:    []transaction.Witness{{}, {}},
			Attributes: fbAttrs},
	}
}

var _ = neorpc.ErrUnknownContract

// ---------- users, containers, nodes ----------

// User is a deterministic NeoFS user.
type User struct {
	Key *keys.PrivateKey
	ID  user.ID
}

func NewUser(label string) User {
	k := Key("user/" + label)
	return User{Key: k, ID: user.NewFromECDSAPublicKey(k.PrivateKey.PublicKey)}
}

// SignRFC6979 signs data like container requests are signed (deterministic ECDSA, SHA-256).
func (u User) SignRFC6979(data []byte) []byte {
	s, err := neofsecdsa.SignerRFC6979(u.Key.PrivateKey).Sign(data)
	if err != nil {
		panic(err)
	}
	return s
}

// PubBytes returns the compressed public key (used as "verification script" of container requests).
func (u User) PubBytes() []byte { return u.Key.PublicKey().Bytes() }

func (u User) ECDSA() ecdsa.PrivateKey { return u.Key.PrivateKey }

// Container builds a deterministic container (fixed nonce derived from label).
func Container(owner user.ID, label, policy string, basic acl.Basic, attrs ...string) container.Container {
	var c container.Container
	c.Init()
	c.SetOwner(owner)
	c.SetBasicACL(basic)
	var pp netmap.PlacementPolicy
	if err := pp.DecodeString(policy); err != nil {
		panic(fmt.Sprintf("policy %q: %v", policy, err))
	}
	c.SetPlacementPolicy(pp)
	for i := 0; i+1 < len(attrs); i += 2 {
		c.SetAttribute(attrs[i], attrs[i+1])
	}
	m := c.ProtoMessage()
	h := sha256.Sum256([]byte("irworld-nonce/" + label))
	m.Nonce = h[:16]
	m.Nonce[6] = (m.Nonce[6] & 0x0f) | 0x40 // UUID v4
	m.Nonce[8] = (m.Nonce[8] & 0x3f) | 0x80
	var r container.Container
	if err := r.FromProtoMessage(m); err != nil {
		panic(err)
	}
	return r
}

// CID is the identifier of a container.
func CID(c container.Container) cid.ID { return cid.NewFromMarshalledContainer(c.Marshal()) }

// Node builds a deterministic storage node descriptor.
func Node(label string, attrs ...string) (netmap.NodeInfo, *keys.PrivateKey) {
	k := Key("sn/" + label)
	var ni netmap.NodeInfo
	ni.SetPublicKey(k.PublicKey().Bytes())
	ni.SetNetworkEndpoints("/dns4/" + label + ".example/tcp/8080")
	ni.SetOnline()
	for i := 0; i+1 < len(attrs); i += 2 {
		ni.SetAttribute(attrs[i], attrs[i+1])
	}
	return ni, k
}

// Node2 converts a node descriptor to the contract structure (as netmap client AddPeer does).
func Node2(ni netmap.NodeInfo, state *big.Int) *netmaprpc.NetmapNode2 {
	n := &netmaprpc.NetmapNode2{Attributes: map[string]string{}, State: state}
	for a := range ni.NetworkEndpoints() {
		n.Addresses = append(n.Addresses, a)
	}
	for k, v := range ni.Attributes() {
		n.Attributes[k] = v
	}
	pk, err := keys.NewPublicKeyFromBytes(ni.PublicKey(), nil)
	if err == nil {
		n.Key = pk
	}
	return n
}

// FarFuture is a fixed "valid until" far beyond any wall clock this check will ever run under.
var FarFuture = time.Date(2200, 1, 1, 0, 0, 0, 0, time.UTC)

// ---------- well-formed events, one per registration ----------

// Fixture holds the shared state used by the canonical events.
type Fixture struct {
	Owner    User
	Cnr      container.Container // stored, extendable ACL, REP 2
	CnrID    cid.ID
	NewCnr   container.Container // to be created
	Nodes    []netmap.NodeInfo
	NodeKeys []*keys.PrivateKey
}

// InstallFixture puts two storage nodes and one container into the tables.
func (w *World) InstallFixture() *Fixture {
	f := &Fixture{Owner: NewUser("owner")}
	for _, l := range []string{"a", "b"} {
		ni, k := Node(l)
		f.Nodes = append(f.Nodes, ni)
		f.NodeKeys = append(f.NodeKeys, k)
	}
	f.Cnr = Container(f.Owner.ID, "stored", "REP 2", acl.PublicRWExtended)
	f.CnrID = CID(f.Cnr)
	f.NewCnr = Container(f.Owner.ID, "new", "REP 1", acl.PublicRWExtended, "Name", "fresh")
	w.Lock(func(t *Tables) {
		nm := new(netmap.NetMap)
		nm.SetNodes(f.Nodes)
		t.NetMap = nm
		t.Containers[f.CnrID] = f.Cnr
	})
	return f
}

// Delivery is one well-formed event of a registered kind.
type Delivery struct {
	Source string // "fs-notification" | "main-notification" | "fs-notary" | "timer" | "startup"
	Contract string
	Type   string
	Run    func(w *World)
}

// CanonicalNotaryScript returns the script of the well-formed request for a registered notary type.
func (w *World) CanonicalNotaryScript(f *Fixture, contract util.Uint160, typ string) ([]byte, bool) {
	o := f.Owner
	cb := f.NewCnr.Marshal()
	switch {
	case contract == w.Netmap && typ == "addNode":
		ni, _ := Node("c")
		return Script(CallSpec{contract, typ, []any{Node2(ni, netmaprpc.NodeStateOnline)}}), true
	case contract == w.Netmap && typ == "updateState":
		return Script(CallSpec{contract, typ, []any{int64(2), f.NodeKeys[0].PublicKey().Bytes()}}), true // 2 = offline
	case contract == w.Reputation && typ == "put":
		var gt reputation.GlobalTrust
		gt.Init()
		var peer, mgr reputation.PeerID
		peer.SetPublicKey(f.NodeKeys[0].PublicKey().Bytes())
		mgr.SetPublicKey(f.NodeKeys[1].PublicKey().Bytes())
		var tr reputation.Trust
		tr.SetPeer(peer)
		tr.SetValue(0.5)
		gt.SetManager(mgr)
		gt.SetTrust(tr)
		if err := gt.Sign(neofsecdsa.SignerRFC6979(f.NodeKeys[1].PrivateKey)); err != nil {
			panic(err)
		}
		var ep uint64
		w.Lock(func(t *Tables) { ep = t.Epoch })
		return Script(CallSpec{contract, typ, []any{int64(ep - 1), f.NodeKeys[0].PublicKey().Bytes(), gt.Marshal()}}), true
	case contract != w.Container:
		return nil, false
	}
	switch typ {
	case "put":
		return Script(CallSpec{contract, typ, []any{cb, o.SignRFC6979(cb), o.PubBytes(), []byte{}}}), true
	case "putNamed":
		c := Container(o.ID, "named", "REP 1", acl.PublicRWExtended)
		var d container.Domain
		d.SetName("mycnr")
		d.SetZone("container")
		c.WriteDomain(d)
		b := c.Marshal()
		return Script(CallSpec{contract, typ, []any{b, o.SignRFC6979(b), o.PubBytes(), []byte{}, "mycnr", "container"}}), true
	case "create":
		return Script(CallSpec{contract, typ, []any{cb, o.SignRFC6979(cb), o.PubBytes(), []byte{}, "", "", false}}), true
	case "createV2":
		return Script(CallSpec{contract, typ, []any{cntcli.VerifContainerToStackItem(f.NewCnr), o.SignRFC6979(cb), o.PubBytes(), []byte{}}}), true
	case "delete":
		// the legacy method has no key argument: only a session token can authorise it (see DeliveryNote)
		sess := NewUser("session")
		var ep uint64
		w.Lock(func(t *Tables) { ep = t.Epoch })
		tok := SessionV1(o, sess, session.VerbContainerDelete, &f.CnrID, ep, ep, ep+10, false)
		return Script(CallSpec{contract, typ, []any{f.CnrID[:], sess.SignRFC6979(f.CnrID[:]), tok.Marshal()}}), true
	case "remove":
		return Script(CallSpec{contract, typ, []any{f.CnrID[:], o.SignRFC6979(f.CnrID[:]), o.PubBytes(), []byte{}}}), true
	case "setEACL", "putEACL":
		tb := eacl.NewTableForContainer(f.CnrID, []eacl.Record{eacl.ConstructRecord(eacl.ActionDeny, eacl.OperationPut,
			[]eacl.Target{eacl.NewTargetByRole(eacl.RoleOthers)})}).Marshal()
		return Script(CallSpec{contract, typ, []any{tb, o.SignRFC6979(tb), o.PubBytes(), []byte{}}}), true
	case "putReport":
		return Script(CallSpec{contract, typ, []any{f.CnrID[:], int64(100), int64(3), f.NodeKeys[0].PublicKey().Bytes()}}), true
	case "setAttribute":
		sd := sdkclient.GetSignedSetContainerAttributeParameters(sdkclient.SetContainerAttributeParameters{
			ID: f.CnrID, Attribute: "color", Value: "red", ValidUntil: FarFuture})
		return Script(CallSpec{contract, typ, []any{f.CnrID[:], "color", "red", FarFuture.Unix(), o.SignRFC6979(sd), o.PubBytes(), []byte{}}}), true
	case "removeAttribute":
		sd := sdkclient.GetSignedRemoveContainerAttributeParameters(sdkclient.RemoveContainerAttributeParameters{
			ID: f.CnrID, Attribute: "color", ValidUntil: FarFuture})
		return Script(CallSpec{contract, typ, []any{f.CnrID[:], "color", FarFuture.Unix(), o.SignRFC6979(sd), o.PubBytes(), []byte{}}}), true
	}
	return nil, false
}

// CanonicalNotification returns the items of the well-formed notification for a registered type.
func (w *World) CanonicalNotification(chain string, contract util.Uint160, typ string) ([]stackitem.Item, bool) {
	bs := func(b []byte) stackitem.Item { return stackitem.NewByteArray(b) }
	in := func(i int64) stackitem.Item { return stackitem.NewBigInteger(big.NewInt(i)) }
	usr := Hash160("some-user")
	lock := Hash160("lock-account")
	id := Hash256("event-id")
	switch {
	case chain == "fs" && contract == w.Netmap && typ == "NewEpoch":
		var ep uint64
		w.Lock(func(t *Tables) { ep = t.Epoch })
		return []stackitem.Item{in(int64(ep + 1))}, true
	case chain == "fs" && contract == w.Balance && typ == "Lock":
		return []stackitem.Item{bs(id.BytesBE()), bs(usr.BytesBE()), bs(lock.BytesBE()), in(500), in(30)}, true
	case chain == "main" && contract == w.NeoFS && typ == "Deposit":
		return []stackitem.Item{bs(usr.BytesBE()), in(1000), bs(usr.BytesBE()), bs(id.BytesBE())}, true
	case chain == "main" && contract == w.NeoFS && typ == "Withdraw":
		return []stackitem.Item{bs(usr.BytesBE()), in(1000), bs(id.BytesBE())}, true
	case chain == "main" && contract == w.NeoFS && typ == "Cheque":
		return []stackitem.Item{bs(id.BytesBE()), bs(usr.BytesBE()), in(1000), bs(lock.BytesBE())}, true
	case chain == "main" && contract == w.NeoFS && typ == "SetConfig":
		return []stackitem.Item{bs(id.BytesBE()), bs([]byte("MaxObjectSize")), bs([]byte{0, 0, 1})}, true
	case chain == "main" && contract == w.Designate && typ == "Designation":
		return []stackitem.Item{in(int64(noderoles.NeoFSAlphabet)), in(100), stackitem.NewArray(nil), stackitem.NewArray(nil)}, true
	}
	return nil, false
}
