package svcworld

import (
	"context"
	"errors"
	"fmt"
	"io"
	"reflect"
	"sort"

	neofscrypto "github.com/nspcc-dev/neofs-sdk-go/crypto"
	protosession "github.com/nspcc-dev/neofs-sdk-go/proto/session"
	"google.golang.org/grpc"
	"google.golang.org/grpc/mem"
	"google.golang.org/grpc/metadata"
	"google.golang.org/protobuf/proto"
)

// Methods returns the sorted method names of a gRPC server interface type, e.g.
// Methods(reflect.TypeOf((*protoobject.ObjectServiceServer)(nil)).Elem()). Unexported methods
// (mustEmbedUnimplemented..., testEmbeddedByValue) are skipped.
func Methods(iface reflect.Type) []string {
	var r []string
	for i := 0; i < iface.NumMethod(); i++ {
		m := iface.Method(i)
		if m.PkgPath != "" { // unexported
			continue
		}
		r = append(r, m.Name)
	}
	sort.Strings(r)
	return r
}

// Kind of an RPC handler method, derived from its Go signature.
type Kind int

const (
	Unary        Kind = iota // func(ctx, *Req) (*Resp, error)
	ServerStream             // func(*Req, grpc.ServerStreamingServer[Resp]) error
	ClientStream             // func(grpc.ClientStreamingServer[Req, Resp]) error
	Unsupported
)

var (
	ctxType = reflect.TypeOf((*context.Context)(nil)).Elem()
	errType = reflect.TypeOf((*error)(nil)).Elem()
)

// Signature describes a handler method.
type Signature struct {
	Kind Kind
	Req  reflect.Type // *Req
	Resp reflect.Type // *Resp
	// Stream is the stream interface parameter type for streaming kinds.
	Stream reflect.Type
}

// SignatureOf inspects method name of the server interface type.
func SignatureOf(iface reflect.Type, name string) Signature {
	m, ok := iface.MethodByName(name)
	if !ok {
		return Signature{Kind: Unsupported}
	}
	t := m.Type // interface method: no receiver
	switch {
	case t.NumIn() == 2 && t.In(0) == ctxType && t.NumOut() == 2 && t.Out(1) == errType:
		return Signature{Kind: Unary, Req: t.In(1), Resp: t.Out(0)}
	case t.NumIn() == 2 && t.In(1).Kind() == reflect.Interface && t.NumOut() == 1 && t.Out(0) == errType:
		st := t.In(1)
		send, ok := st.MethodByName("Send")
		if !ok || send.Type.NumIn() != 1 {
			return Signature{Kind: Unsupported}
		}
		return Signature{Kind: ServerStream, Req: t.In(0), Resp: send.Type.In(0), Stream: st}
	case t.NumIn() == 1 && t.In(0).Kind() == reflect.Interface && t.NumOut() == 1 && t.Out(0) == errType:
		st := t.In(0)
		recv, ok1 := st.MethodByName("Recv")
		sac, ok2 := st.MethodByName("SendAndClose")
		if !ok1 || !ok2 {
			return Signature{Kind: Unsupported}
		}
		return Signature{Kind: ClientStream, Req: recv.Type.Out(0), Resp: sac.Type.In(0), Stream: st}
	}
	return Signature{Kind: Unsupported}
}

// ---------- fake streams ----------

type baseStream struct {
	ctx  context.Context
	sent []any // everything passed to Send / SendMsg / SendAndClose, in order (buffers copied)
}

func (s *baseStream) SetHeader(metadata.MD) error  { return nil }
func (s *baseStream) SendHeader(metadata.MD) error { return nil }
func (s *baseStream) SetTrailer(metadata.MD)       {}
func (s *baseStream) Context() context.Context     { return s.ctx }
func (s *baseStream) RecvMsg(any) error            { return errors.New("verif: RecvMsg not supported") }
func (s *baseStream) SendMsg(m any) error {
	// emulate gRPC: consume (copy) and release custom buffers
	switch v := m.(type) {
	case mem.BufferSlice:
		s.sent = append(s.sent, RawMessage(v.Materialize()))
		v.Free()
	case mem.Buffer:
		s.sent = append(s.sent, RawMessage(append([]byte(nil), v.ReadOnlyData()...)))
		v.Free()
	default:
		s.sent = append(s.sent, m)
	}
	return nil
}

// RawMessage is an encoded response message sent through SendMsg.
type RawMessage []byte

// SrvStream implements grpc.ServerStreamingServer[T].
type SrvStream[T any] struct{ baseStream }

func (s *SrvStream[T]) Send(m *T) error { s.sent = append(s.sent, m); return nil }

// CliStream implements grpc.ClientStreamingServer[Req, Resp]: Recv yields the prepared requests
// then io.EOF.
type CliStream[Req, Resp any] struct {
	baseStream
	reqs []*Req
	next int
}

func (s *CliStream[Req, Resp]) Recv() (*Req, error) {
	if s.next >= len(s.reqs) {
		return nil, io.EOF
	}
	s.next++
	return s.reqs[s.next-1], nil
}
func (s *CliStream[Req, Resp]) SendAndClose(m *Resp) error { s.sent = append(s.sent, m); return nil }

type streamFactory func(ctx context.Context, reqs []any) (stream any, sent func() []any)

var streamFactories = map[reflect.Type]streamFactory{}

// RegisterServerStream makes server-streaming RPCs with response type T invocable.
func RegisterServerStream[T any]() {
	var s grpc.ServerStreamingServer[T] = (*SrvStream[T])(nil)
	_ = s
	streamFactories[reflect.TypeOf((*T)(nil))] = func(ctx context.Context, _ []any) (any, func() []any) {
		st := &SrvStream[T]{baseStream{ctx: ctx}}
		return st, func() []any { return st.sent }
	}
}

// RegisterClientStream makes client-streaming RPCs with request type Req invocable.
func RegisterClientStream[Req, Resp any]() {
	var s grpc.ClientStreamingServer[Req, Resp] = (*CliStream[Req, Resp])(nil)
	_ = s
	streamFactories[reflect.TypeOf((*Req)(nil))] = func(ctx context.Context, reqs []any) (any, func() []any) {
		st := &CliStream[Req, Resp]{baseStream: baseStream{ctx: ctx}}
		for _, r := range reqs {
			st.reqs = append(st.reqs, r.(*Req))
		}
		return st, func() []any { return st.sent }
	}
}

// Result of one invocation.
type Result struct {
	Err      error           // error returned by the handler (gRPC-level)
	Panic    any             // recovered panic value
	Messages []proto.Message // decoded response messages in sending order
}

// Invoke calls method name of srv (a value implementing iface) with the given request message(s)
// (one for unary / server-stream, one or more for client-stream). If srv has a method
// <name>Buffered(ctx, *Req) any (the node replaces Head/SearchV2 handlers with those when it
// registers the service), that one is called, as cmd/neofs-node does.
func Invoke(srv any, iface reflect.Type, name string, reqs []any) (res Result, harnessErr error) {
	return InvokeCtx(context.Background(), srv, iface, name, reqs)
}

// InvokeCtx is Invoke with the caller's context (e.g. one carrying an authenticated gRPC peer).
func InvokeCtx(ctx context.Context, srv any, iface reflect.Type, name string, reqs []any) (res Result, harnessErr error) {
	sig := SignatureOf(iface, name)
	sv := reflect.ValueOf(srv)
	defer func() {
		if p := recover(); p != nil {
			res.Panic = p
		}
	}()
	decode := func(x any) (proto.Message, error) {
		switch v := x.(type) {
		case RawMessage:
			m := reflect.New(sig.Resp.Elem()).Interface().(proto.Message)
			if err := proto.Unmarshal(v, m); err != nil {
				return nil, fmt.Errorf("undecodable raw response of %s: %w", name, err)
			}
			return m, nil
		case proto.Message:
			if reflect.ValueOf(v).IsNil() {
				return nil, nil
			}
			return v, nil
		}
		return nil, fmt.Errorf("unexpected response value %T from %s", x, name)
	}
	switch sig.Kind {
	case Unary:
		if len(reqs) != 1 {
			return res, fmt.Errorf("%s: need exactly one request", name)
		}
		if bm := sv.MethodByName(name + "Buffered"); bm.IsValid() {
			out := bm.Call([]reflect.Value{reflect.ValueOf(ctx), reflect.ValueOf(reqs[0])})
			var x any = out[0].Interface()
			switch v := x.(type) {
			case mem.BufferSlice:
				b := v.Materialize()
				v.Free()
				x = RawMessage(b)
			case mem.Buffer:
				b := append([]byte(nil), v.ReadOnlyData()...)
				v.Free()
				x = RawMessage(b)
			}
			m, err := decode(x)
			if err != nil {
				return res, err
			}
			if m != nil {
				res.Messages = append(res.Messages, m)
			}
			return res, nil
		}
		out := sv.MethodByName(name).Call([]reflect.Value{reflect.ValueOf(ctx), reflect.ValueOf(reqs[0])})
		if e, _ := out[1].Interface().(error); e != nil {
			res.Err = e
		}
		if !out[0].IsNil() {
			m, err := decode(out[0].Interface())
			if err != nil {
				return res, err
			}
			res.Messages = append(res.Messages, m)
		}
		return res, nil
	case ServerStream, ClientStream:
		key := sig.Resp
		if sig.Kind == ClientStream {
			key = sig.Req
		}
		f, ok := streamFactories[key]
		if !ok {
			return res, fmt.Errorf("%s: no fake stream registered for %v (new streaming RPC needs svcworld.Register*Stream)", name, key)
		}
		st, sent := f(ctx, reqs)
		var out []reflect.Value
		if sig.Kind == ServerStream {
			if len(reqs) != 1 {
				return res, fmt.Errorf("%s: need exactly one request", name)
			}
			out = sv.MethodByName(name).Call([]reflect.Value{reflect.ValueOf(reqs[0]), reflect.ValueOf(st)})
		} else {
			out = sv.MethodByName(name).Call([]reflect.Value{reflect.ValueOf(st)})
		}
		if e, _ := out[0].Interface().(error); e != nil {
			res.Err = e
		}
		for _, x := range sent() {
			m, err := decode(x)
			if err != nil {
				return res, err
			}
			if m != nil {
				res.Messages = append(res.Messages, m)
			}
		}
		return res, nil
	}
	return res, fmt.Errorf("%s: unsupported handler signature", name)
}

// ---------- generic NeoFS API message access ----------

// StatusOf returns the NeoFS status code and message (with detail values appended) of a response message (0 = OK); ok=false if
// the message has no meta header accessor.
func StatusOf(m proto.Message) (code uint32, msg string, ok bool) {
	g := reflect.ValueOf(m).MethodByName("GetMetaHeader")
	if !g.IsValid() {
		return 0, "", false
	}
	mh, _ := g.Call(nil)[0].Interface().(*protosession.ResponseMetaHeader)
	for mh.GetOrigin() != nil {
		mh = mh.GetOrigin()
	}
	msg = mh.GetStatus().GetMessage()
	for _, d := range mh.GetStatus().GetDetails() { // e.g. the reason of ACCESS_DENIED
		msg += " | " + string(d.GetValue())
	}
	return mh.GetStatus().GetCode(), msg, true
}

// BodySize returns the encoded size of the message's body field (0 if absent/empty).
func BodySize(m proto.Message) int {
	g := reflect.ValueOf(m).MethodByName("GetBody")
	if !g.IsValid() {
		return 0
	}
	b := g.Call(nil)[0]
	if b.IsNil() {
		return 0
	}
	pm, ok := b.Interface().(neofscrypto.ProtoMessage)
	if !ok {
		return 0
	}
	return pm.MarshaledSize()
}

type anyRequest struct {
	body neofscrypto.ProtoMessage
	meta *protosession.RequestMetaHeader
	vh   *protosession.RequestVerificationHeader
}

func (a anyRequest) GetBody() neofscrypto.ProtoMessage                        { return a.body }
func (a anyRequest) GetMetaHeader() *protosession.RequestMetaHeader           { return a.meta }
func (a anyRequest) GetVerifyHeader() *protosession.RequestVerificationHeader { return a.vh }

// nilBody marshals as the empty message (what the SDK signs for a nil typed body).
type nilBody struct{}

func (nilBody) MarshaledSize() int   { return 0 }
func (nilBody) MarshalStable([]byte) {}

// SignRequest signs any NeoFS API request message (fields Body, MetaHeader, VerifyHeader) with the
// signer, exactly as neofscrypto.SignRequestWithBuffer does for the typed request, and attaches the
// verification header.
func SignRequest(req any, signer neofscrypto.Signer) error {
	v := reflect.ValueOf(req)
	bodyV := v.MethodByName("GetBody").Call(nil)[0]
	var body neofscrypto.ProtoMessage = nilBody{}
	if !bodyV.IsNil() {
		body = bodyV.Interface().(neofscrypto.ProtoMessage)
	}
	mh, _ := v.MethodByName("GetMetaHeader").Call(nil)[0].Interface().(*protosession.RequestMetaHeader)
	vh, _ := v.MethodByName("GetVerifyHeader").Call(nil)[0].Interface().(*protosession.RequestVerificationHeader)
	nvh, err := neofscrypto.SignRequestWithBuffer[neofscrypto.ProtoMessage](signer, anyRequest{body, mh, vh}, nil)
	if err != nil {
		return err
	}
	v.Elem().FieldByName("VerifyHeader").Set(reflect.ValueOf(nvh))
	return nil
}
