package svcworld

import (
	"context"
	"crypto/ecdsa"
	"crypto/sha256"
	"encoding/hex"
	"errors"
	"fmt"
	"io/fs"
	"os"
	"path/filepath"
	"sort"
	"sync"
	"sync/atomic"
	"time"
	"unicode"

	"github.com/nspcc-dev/bbolt"
	isessions "github.com/nspcc-dev/neofs-node/internal/sessions"
	objectcore "github.com/nspcc-dev/neofs-node/pkg/core/object"
	"github.com/nspcc-dev/neofs-node/pkg/local_object_storage/blobstor/fstree"
	"github.com/nspcc-dev/neofs-node/pkg/local_object_storage/engine"
	meta "github.com/nspcc-dev/neofs-node/pkg/local_object_storage/metabase"
	"github.com/nspcc-dev/neofs-node/pkg/local_object_storage/shard"
	objectsvc "github.com/nspcc-dev/neofs-node/pkg/services/object"
	aclchk "github.com/nspcc-dev/neofs-node/pkg/services/object/acl"
	aclsvc "github.com/nspcc-dev/neofs-node/pkg/services/object/acl/v2"
	deletesvc "github.com/nspcc-dev/neofs-node/pkg/services/object/delete"
	getsvc "github.com/nspcc-dev/neofs-node/pkg/services/object/get"
	putsvc "github.com/nspcc-dev/neofs-node/pkg/services/object/put"
	"github.com/nspcc-dev/neofs-node/pkg/services/object/split"
	"github.com/nspcc-dev/neofs-node/pkg/services/object/tombstone"
	objutil "github.com/nspcc-dev/neofs-node/pkg/services/object/util"
	"github.com/nspcc-dev/neofs-sdk-go/client"
	"github.com/nspcc-dev/neofs-sdk-go/container/acl"
	cid "github.com/nspcc-dev/neofs-sdk-go/container/id"
	"github.com/nspcc-dev/neofs-sdk-go/eacl"
	"github.com/nspcc-dev/neofs-sdk-go/object"
	oid "github.com/nspcc-dev/neofs-sdk-go/object/id"
	protoobject "github.com/nspcc-dev/neofs-sdk-go/proto/object"
	sessionv2 "github.com/nspcc-dev/neofs-sdk-go/session/v2"
	"github.com/nspcc-dev/neofs-sdk-go/stat"
	"github.com/nspcc-dev/neofs-sdk-go/user"
	"go.uber.org/zap"
)

// engine hook routing: one recorder per engine instance (worlds may run in parallel).
var engineRecorders sync.Map // *engine.StorageEngine -> *Recorder

func init() {
	engine.VerifSvcHook = func(e *engine.StorageEngine, name string, _ []any) ([]any, bool) {
		if !unicode.IsUpper(rune(name[0])) {
			return nil, false
		}
		if r, ok := engineRecorders.Load(e); ok {
			r.(*Recorder).Add("storage", "%s", name)
		}
		return nil, false
	}
}

// RecordEngine routes the method-entry events of e (exported methods) to rec as "storage" events.
func RecordEngine(e *engine.StorageEngine, rec *Recorder) { engineRecorders.Store(e, rec) }

// UnrecordEngine stops recording e.
func UnrecordEngine(e *engine.StorageEngine) { engineRecorders.Delete(e) }

// Engine method classes (entry points recorded by the hook).
var (
	// HeaderReads are the engine methods that return header-only data (what an eACL check on the
	// object's header legitimately needs).
	HeaderReads = map[string]bool{"Head": true, "ReadHeader": true, "HeadECPart": true, "ReadECPartHeader": true}
)

// Config of an object-service world.
type Config struct {
	BasicACL            acl.Basic
	EACL                *eacl.Table
	LocalInContainer    bool
	Maintenance         bool
	ACLSeesLocalHeaders bool // false: the ACL checker has no local storage (header known only once a handler produced it)
	// RemoteHolds: the local node is a container node but does not hold the objects; the two other
	// container nodes (reachable fake nodes) do. Implies LocalInContainer.
	RemoteHolds bool
	Shards      int // default 1
	// RealVerifiers: the put service validates tombstone targets and link split chains with the real
	// tombstone.Verifier / split.Verifier over the real get service and the server's search (as
	// cmd/neofs-node wires them) instead of accepting stubs.
	RealVerifiers bool
	// NoSeed: do not store R1/R2 in the engine.
	NoSeed bool
	// Chain tuning (see Chain).
	SoloCurrent    bool
	PrevEpochExtra []string
	ECCnrID        cid.ID
	MaxObjSize     uint64
}

// World is one live object service over a real engine with recording boundaries.
type World struct {
	Cfg   Config
	Rec   *Recorder
	Dir   string
	Eng   *engine.StorageEngine
	Chain *Chain
	Net   *Net
	Srv   *objectsvc.Server
	Put   *putsvc.Service
	// R1 is the stored regular object of the world (attribute cls=secret); R2 is a second stored
	// object (attribute cls=public) that no deny rule of the fault worlds matches.
	R1, R2 *object.Object
}

type handlers struct {
	rec *Recorder
	get *getsvc.Service
	put *putsvc.Service
	del *deletesvc.Service
}

func (h *handlers) Get(ctx context.Context, p getsvc.Prm) error {
	h.rec.Add("handler", "Get")
	return h.get.Get(ctx, p)
}
func (h *handlers) Put(ctx context.Context) (*putsvc.Streamer, error) {
	h.rec.Add("handler-open", "Put") // allocation of the internal streamer only: not an effect
	return h.put.Put(ctx)
}
func (h *handlers) Head(ctx context.Context, p getsvc.HeadPrm) error {
	h.rec.Add("handler", "Head")
	return h.get.Head(ctx, p)
}
func (h *handlers) Delete(ctx context.Context, p deletesvc.Prm) error {
	h.rec.Add("handler", "Delete")
	return h.del.Delete(ctx, p)
}
func (h *handlers) GetRange(ctx context.Context, p getsvc.RangePrm) error {
	h.rec.Add("handler", "GetRange")
	return h.get.GetRange(ctx, p)
}

// storage mirrors cmd/neofs-node's storageForObjectService.
type storage struct {
	rec  *Recorder
	eng  *engine.StorageEngine
	put  *putsvc.Service
	keys *objutil.KeyStorage
}

func (x storage) SearchObjects(ctx context.Context, c cid.ID, fs []objectcore.SearchFilter, attrs []string, cur *objectcore.SearchCursor, n uint16) ([]client.SearchResultItem, []byte, error) {
	return x.eng.Search(ctx, c, fs, attrs, cur, n)
}
func (x storage) VerifyAndStoreObjectLocally(ctx context.Context, obj object.Object) error {
	x.rec.Add("storage-svc", "VerifyAndStoreObjectLocally")
	return x.put.ValidateAndStoreObjectLocally(ctx, obj)
}
func (x storage) GetSessionPrivateKey(u user.ID) (ecdsa.PrivateKey, error) {
	k, err := x.keys.GetKey(&u)
	if err != nil {
		return ecdsa.PrivateKey{}, err
	}
	return *k, nil
}
func (x storage) GetSessionV2PrivateKey(s []sessionv2.Target) (ecdsa.PrivateKey, error) {
	k, err := x.keys.GetKeyBySubjects(s)
	if err != nil {
		return ecdsa.PrivateKey{}, err
	}
	return *k, nil
}

// objSource mirrors cmd/neofs-node's objectSource (what the real tombstone verifier reads from).
type objSource struct {
	get *getsvc.Service
	w   *World
}

type hdrWriter struct{ h *object.Object }

func (h *hdrWriter) WriteHeader(o *object.Object) error { h.h = o; return nil }

func (o objSource) Head(ctx context.Context, addr oid.Address) (*object.Object, error) {
	var hw hdrWriter
	var p getsvc.HeadPrm
	p.SetHeaderWriter(&hw)
	p.WithAddress(addr)
	p.WithRawFlag(true)
	err := o.get.Head(ctx, p)
	return hw.h, err
}

func (o objSource) SearchOne(ctx context.Context, cnr cid.ID, filters object.SearchFilters) (oid.ID, error) {
	req := &protoobject.SearchV2Request{Body: &protoobject.SearchV2Request_Body{
		ContainerId: cnr.ProtoMessage(), Version: 1, Filters: filters.ProtoMessage(), Count: 1}}
	res, _, err := o.w.Srv.ProcessSearch(ctx, req, false, false, cnr)
	if err != nil {
		return oid.ID{}, err
	}
	if len(res) == 1 {
		return res[0].ID, nil
	}
	return oid.ID{}, nil
}

type headerSource struct{ rec *Recorder }

func (h headerSource) Head(context.Context, oid.Address) (*object.Object, error) {
	h.rec.Add("storage", "HeaderSource.Head")
	return nil, errors.New("verif: header source not available")
}

type metrics struct{}

func (metrics) HandleOpExecResult(stat.Method, bool, time.Duration) {}
func (metrics) AddPutPayload(int)                                   {}
func (metrics) AddGetPayload(int)                                   {}

// R1Payload is the payload of the stored object.
var R1Payload = []byte("SECRET-PAYLOAD-0123456789abcdef0123456789abcdef0123456789abcdef!")

// NewObject builds an owner-signed regular object of the world's container.
func NewObject(cnr cid.ID, attr, val string, payload []byte) *object.Object {
	o := object.New(cnr, UserOf(Owner))
	o.SetCreationEpoch(Epoch - 1)
	o.SetAttributes(object.NewAttribute(attr, val))
	o.SetPayload(payload)
	o.SetPayloadSize(uint64(len(payload)))
	if err := o.SetVerificationFields(Signer(Owner)); err != nil {
		panic(err)
	}
	return o
}

// NewEngine creates a real engine with n shards (FSTree + metabase, no write-cache) under dir.
func NewEngine(dir string, n int, epoch meta.EpochState) (*engine.StorageEngine, error) {
	e := engine.New(engine.WithLogger(zap.NewNop()))
	for i := 0; i < n; i++ {
		sd := filepath.Join(dir, fmt.Sprintf("s%d", i))
		_, err := e.AddShard(
			shard.WithLogger(zap.NewNop()),
			shard.WithBlobstor(fstree.New(
				fstree.WithPath(filepath.Join(sd, "fstree")),
				fstree.WithDepth(1),
				fstree.WithNoSync(true),
				fstree.WithLogger(zap.NewNop()),
			)),
			shard.WithMetaBaseOptions(
				meta.WithPath(filepath.Join(sd, "meta")),
				meta.WithPermissions(0o700),
				meta.WithEpochState(epoch),
				meta.WithMaxBatchSize(1),
				meta.WithBoltDBOptions(&bbolt.Options{NoSync: true, NoGrowSync: true, NoFreelistSync: true}),
				meta.WithLogger(zap.NewNop()),
			),
			shard.WithGCRemoverSleepInterval(24*time.Hour),
		)
		if err != nil {
			return nil, err
		}
	}
	if err := e.Init(); err != nil {
		return nil, err
	}
	return e, nil
}

// New builds the world: engine with R1 stored (when the local node is a container node), real
// get/put/delete services, real ACL services, real object server.
func New(cfg Config) (*World, error) {
	if cfg.Shards == 0 {
		cfg.Shards = 1
	}
	if cleaned.Load() {
		return nil, errors.New("svcworld: process is shutting down")
	}
	dir, err := os.MkdirTemp("/dev/shm", ScratchPrefix())
	if err != nil {
		return nil, err
	}
	w := &World{Cfg: cfg, Rec: &Recorder{}, Dir: dir}
	if cfg.RemoteHolds {
		cfg.LocalInContainer = true
		w.Cfg = cfg
	}
	w.Chain = &Chain{Rec: w.Rec, CnrID: CID("A"), BasicACL: cfg.BasicACL, EACL: cfg.EACL,
		LocalInContainer: cfg.LocalInContainer, ThreeNodes: cfg.RemoteHolds, Maintenance: cfg.Maintenance,
		SoloCurrent: cfg.SoloCurrent, PrevEpochExtra: cfg.PrevEpochExtra, ECCnrID: cfg.ECCnrID, MaxObjSize: cfg.MaxObjSize}
	w.Net = &Net{Rec: w.Rec, Remotes: map[string]*RemoteNode{}}
	w.Eng, err = NewEngine(dir, cfg.Shards, w.Chain)
	if err != nil {
		w.Close()
		return nil, err
	}
	w.R1 = NewObject(w.Chain.CnrID, SecretAttr, SecretVal, R1Payload)
	w.R2 = NewObject(w.Chain.CnrID, SecretAttr, "public", []byte("public-payload-0123456789abcdef0123456789abcdef0123456789abcdef!"))
	if cfg.RemoteHolds {
		for _, l := range []string{RemoteA, RemoteB} {
			rn, err := NewRemoteNode(l, w.Rec, w.R1, w.R2)
			if err != nil {
				w.Close()
				return nil, err
			}
			w.Net.Remotes[string(Pub(l))] = rn
		}
	} else if cfg.LocalInContainer && !cfg.NoSeed {
		for _, o := range []*object.Object{w.R1, w.R2} {
			if err := w.Eng.Put(context.Background(), o, nil); err != nil {
				w.Close()
				return nil, err
			}
		}
	}

	nodeKey := ECDSA(LocalNode)
	keys := objutil.NewKeyStorage(&nodeKey, sessions{}, w.Chain)
	log := zap.NewNop()

	sGet := getsvc.New(w.Chain,
		getsvc.WithLogger(log),
		getsvc.WithLocalStorageEngine(w.Eng),
		getsvc.WithClientConstructor(w.Net),
		getsvc.WithKeyStorage(keys),
	)
	sessionsCache := isessions.NewObjectSessionsCache(64)
	var splitV objectcore.SplitVerifier = w.Chain
	var tombV objectcore.TombVerifier = w.Chain
	if cfg.RealVerifiers {
		splitV = split.NewVerifier(sGet)
		tombV = tombstone.NewVerifier(objSource{get: sGet, w: w})
	}
	sPut := putsvc.NewService(w.Net, w.Chain, nil, w.Chain, w.Chain,
		putsvc.WithKeyStorage(keys),
		putsvc.WithClientConstructor(w.Net),
		putsvc.WithMaxSizeSource(w.Chain),
		putsvc.WithObjectStorage(w.Eng),
		putsvc.WithContainerSource(w.Chain),
		putsvc.WithNetworkState(w.Chain),
		putsvc.WithSessionsCache(sessionsCache),
		putsvc.WithLogger(log),
		putsvc.WithSplitChainVerifier(splitV),
		putsvc.WithTombstoneVerifier(tombV),
	)
	w.Put = sPut
	sDel := deletesvc.New(
		deletesvc.WithLogger(log),
		deletesvc.WithPutService(sPut),
		deletesvc.WithNetworkInfo(w.Chain),
		deletesvc.WithKeyStorage(keys),
	)
	aclSvc := aclsvc.New(w.Chain, sessionsCache,
		aclsvc.WithLogger(log),
		aclsvc.WithIRFetcher(w.Chain),
		aclsvc.WithNetmapper(w.Chain),
		aclsvc.WithContainerSource(w.Chain),
		aclsvc.WithTimeProvider(w.Chain),
	)
	var aclEngine *engine.StorageEngine // nil engine = the checker cannot read local headers
	if cfg.ACLSeesLocalHeaders {
		aclEngine = w.Eng
	}
	checker := aclchk.NewChecker(new(aclchk.CheckerPrm).
		SetEACLSource(w.Chain).
		SetValidator(eacl.NewValidator()).
		SetLocalStorage(aclEngine).
		SetHeaderSource(headerSource{w.Rec}),
	)
	st := storage{rec: w.Rec, eng: w.Eng, put: sPut, keys: keys}
	w.Srv = objectsvc.New(&handlers{rec: w.Rec, get: sGet, put: sPut, del: sDel}, w.Chain, st, nil,
		nodeKey, metrics{}, checker, aclSvc, w.Net, log)

	// start recording only now: seeding is not part of any case
	engineRecorders.Store(w.Eng, w.Rec)
	w.Rec.Reset()
	return w, nil
}

var cleaned atomic.Bool

// ScratchPrefix is the per-process name prefix of every scratch directory of this package.
func ScratchPrefix() string { return fmt.Sprintf("verif-svcworld-%d-", os.Getpid()) }

// Cleanup removes every scratch directory this process created (call before exiting, also on
// harness errors: os.Exit skips deferred World.Close calls of cases still running in parallel).
func Cleanup() {
	cleaned.Store(true) // cases still running in parallel must not create new directories any more
	ms, _ := filepath.Glob(filepath.Join("/dev/shm", ScratchPrefix()+"*"))
	for _, m := range ms {
		_ = os.RemoveAll(m)
	}
}

// Close stops the engine and removes the scratch directory.
func (w *World) Close() {
	if w.Net != nil {
		for _, r := range w.Net.Remotes {
			r.Close()
		}
	}
	if w.Eng != nil {
		engineRecorders.Delete(w.Eng)
		_ = w.Eng.Close()
	}
	_ = os.RemoveAll(w.Dir)
}

// ShardState returns the sum of the shard error counters and the shard modes (sorted by shard ID),
// without recording the inspection itself.
func (w *World) ShardState() (errs uint32, modes []string) {
	engineRecorders.Delete(w.Eng)
	defer engineRecorders.Store(w.Eng, w.Rec)
	info := w.Eng.DumpInfo()
	for _, sh := range info.Shards {
		errs += sh.ErrorCount
		modes = append(modes, sh.ID.String()+"="+sh.Mode.String())
	}
	sort.Strings(modes)
	return
}

// Effects returns the recorded object-data effects: engine entries ("storage"), attempts to reach
// other nodes ("net"). Chain reads, handler dispatch markers and the allocation-only Put handler
// open are not effects.
func (w *World) Effects() []string { return w.Rec.Of("storage", "net") }

// SnapTree is a byte-level picture of a directory tree: relative path -> "d" | "f:<size>:<sha256>".
func SnapTree(dir string) (map[string]string, error) {
	s := map[string]string{}
	err := filepath.WalkDir(dir, func(p string, d fs.DirEntry, err error) error {
		if err != nil {
			return err
		}
		rel, _ := filepath.Rel(dir, p)
		if d.IsDir() {
			s[rel] = "d"
			return nil
		}
		b, err := os.ReadFile(p)
		if err != nil {
			return err
		}
		sum := sha256.Sum256(b)
		s[rel] = fmt.Sprintf("f:%d:%s", len(b), hex.EncodeToString(sum[:8]))
		return nil
	})
	return s, err
}

// DiffTree lists differences between two tree pictures (empty = byte-identical).
func DiffTree(a, b map[string]string) []string {
	var out []string
	for p, v := range a {
		if w, ok := b[p]; !ok {
			out = append(out, "-"+p)
		} else if v != w {
			out = append(out, "~"+p)
		}
	}
	for p := range b {
		if _, ok := a[p]; !ok {
			out = append(out, "+"+p)
		}
	}
	sort.Strings(out)
	return out
}
