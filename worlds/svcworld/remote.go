package svcworld

import (
	"context"
	"fmt"
	"net"

	clientcore "github.com/nspcc-dev/neofs-node/pkg/core/client"
	neofscrypto "github.com/nspcc-dev/neofs-sdk-go/crypto"
	neofsecdsa "github.com/nspcc-dev/neofs-sdk-go/crypto/ecdsa"
	"github.com/nspcc-dev/neofs-sdk-go/object"
	protoobject "github.com/nspcc-dev/neofs-sdk-go/proto/object"
	iprotobuf "github.com/nspcc-dev/neofs-sdk-go/proto/protobuf"
	"github.com/nspcc-dev/neofs-sdk-go/proto/refs"
	protosession "github.com/nspcc-dev/neofs-sdk-go/proto/session"
	protostatus "github.com/nspcc-dev/neofs-sdk-go/proto/status"
	"github.com/nspcc-dev/neofs-sdk-go/version"
	"google.golang.org/grpc"
	"google.golang.org/grpc/credentials/insecure"
	"google.golang.org/grpc/test/bufconn"
)

// RemoteNode is a fake storage node reachable through an in-memory gRPC connection: it holds a
// fixed set of objects and serves ObjectService Get / Head / GetRange for them (any request is
// served: access control is the business of the node under test). Every call is recorded as a
// "remote" event with the number of payload bytes it returned.
type RemoteNode struct {
	clientcore.MultiAddressClient // nil: only ForAnyGRPCConn / APIVersion are usable

	label string
	rec   *Recorder
	objs  map[string]*object.Object
	srv   *grpc.Server
	conn  *grpc.ClientConn
}

func (r *RemoteNode) ForAnyGRPCConn(ctx context.Context, f func(context.Context, *grpc.ClientConn) error) error {
	return f(ctx, r.conn)
}
func (r *RemoteNode) APIVersion() *refs.Version { return version.Current().ProtoMessage() }

// Close stops the fake node.
func (r *RemoteNode) Close() {
	_ = r.conn.Close()
	r.srv.Stop()
}

func (r *RemoteNode) find(a *refs.Address) *object.Object {
	return r.objs[string(a.GetContainerId().GetValue())+string(a.GetObjectId().GetValue())]
}

func notFoundMeta() *protosession.ResponseMetaHeader {
	return &protosession.ResponseMetaHeader{Version: version.Current().ProtoMessage(),
		Status: &protostatus.Status{Code: protostatus.ObjectNotFound, Message: "object not found"}}
}

// NewRemoteNode starts a fake node holding objs.
func NewRemoteNode(label string, rec *Recorder, objs ...*object.Object) (*RemoteNode, error) {
	r := &RemoteNode{label: label, rec: rec, objs: map[string]*object.Object{}}
	for _, o := range objs {
		c, id := o.GetContainerID(), o.GetID()
		r.objs[string(c[:])+string(id[:])] = o
	}
	signer := neofsecdsa.Signer(ECDSA(label))
	lis := bufconn.Listen(256 << 10)
	r.srv = grpc.NewServer(grpc.ForceServerCodecV2(iprotobuf.BufferedCodec{}))
	r.srv.RegisterService(&grpc.ServiceDesc{
		ServiceName: protoobject.ObjectService_ServiceDesc.ServiceName,
		HandlerType: (*any)(nil),
		Methods: []grpc.MethodDesc{{
			MethodName: "Head",
			Handler: func(_ any, _ context.Context, dec func(any) error, _ grpc.UnaryServerInterceptor) (any, error) {
				var req protoobject.HeadRequest
				if err := dec(&req); err != nil {
					return nil, err
				}
				o := r.find(req.GetBody().GetAddress())
				resp := &protoobject.HeadResponse{MetaHeader: &protosession.ResponseMetaHeader{Version: version.Current().ProtoMessage()}}
				if o == nil {
					r.rec.Add("remote", "%s.Head -> not found", label)
					resp.MetaHeader = notFoundMeta()
				} else {
					r.rec.Add("remote", "%s.Head -> header", label)
					m := o.ProtoMessage()
					resp.Body = &protoobject.HeadResponse_Body{Head: &protoobject.HeadResponse_Body_Header{
						Header: &protoobject.HeaderWithSignature{Header: m.Header, Signature: m.Signature}}}
				}
				var err error
				resp.VerifyHeader, err = neofscrypto.SignResponseWithBuffer[*protoobject.HeadResponse_Body](signer, resp, nil)
				return resp, err
			},
		}},
		Streams: []grpc.StreamDesc{
			{
				StreamName:    "Get",
				ServerStreams: true,
				Handler: func(_ any, stream grpc.ServerStream) error {
					var req protoobject.GetRequest
					if err := stream.RecvMsg(&req); err != nil {
						return err
					}
					o := r.find(req.GetBody().GetAddress())
					send := func(resp *protoobject.GetResponse) error {
						var err error
						resp.VerifyHeader, err = neofscrypto.SignResponseWithBuffer[*protoobject.GetResponse_Body](signer, resp, nil)
						if err != nil {
							return err
						}
						return stream.SendMsg(resp)
					}
					if o == nil {
						r.rec.Add("remote", "%s.Get -> not found", label)
						return send(&protoobject.GetResponse{MetaHeader: notFoundMeta()})
					}
					m := o.ProtoMessage()
					pld := m.Payload
					if rng := req.GetBody().GetRange(); rng != nil && rng.Length > 0 {
						pld = pld[rng.Offset : rng.Offset+rng.Length]
					}
					r.rec.Add("remote", "%s.Get -> header + %d payload bytes", label, len(pld))
					if !req.GetBody().GetPayloadOnly() {
						if err := send(&protoobject.GetResponse{Body: &protoobject.GetResponse_Body{ObjectPart: &protoobject.GetResponse_Body_Init_{
							Init: &protoobject.GetResponse_Body_Init{ObjectId: m.ObjectId, Signature: m.Signature, Header: m.Header}}}}); err != nil {
							return err
						}
					}
					return send(&protoobject.GetResponse{Body: &protoobject.GetResponse_Body{ObjectPart: &protoobject.GetResponse_Body_Chunk{Chunk: pld}}})
				},
			},
			{
				StreamName:    "GetRange",
				ServerStreams: true,
				Handler: func(_ any, stream grpc.ServerStream) error {
					var req protoobject.GetRangeRequest
					if err := stream.RecvMsg(&req); err != nil {
						return err
					}
					o := r.find(req.GetBody().GetAddress())
					send := func(resp *protoobject.GetRangeResponse) error {
						var err error
						resp.VerifyHeader, err = neofscrypto.SignResponseWithBuffer[*protoobject.GetRangeResponse_Body](signer, resp, nil)
						if err != nil {
							return err
						}
						return stream.SendMsg(resp)
					}
					if o == nil {
						r.rec.Add("remote", "%s.GetRange -> not found", label)
						return send(&protoobject.GetRangeResponse{MetaHeader: notFoundMeta()})
					}
					pld := o.Payload()
					if rng := req.GetBody().GetRange(); rng != nil && rng.Length > 0 {
						pld = pld[rng.Offset : rng.Offset+rng.Length]
					}
					r.rec.Add("remote", "%s.GetRange -> %d payload bytes", label, len(pld))
					return send(&protoobject.GetRangeResponse{Body: &protoobject.GetRangeResponse_Body{RangePart: &protoobject.GetRangeResponse_Body_Chunk{Chunk: pld}}})
				},
			},
		},
	}, nil)
	go func() { _ = r.srv.Serve(lis) }()
	var err error
	r.conn, err = grpc.NewClient("passthrough:///"+label,
		grpc.WithContextDialer(func(ctx context.Context, _ string) (net.Conn, error) { return lis.DialContext(ctx) }),
		grpc.WithTransportCredentials(insecure.NewCredentials()))
	if err != nil {
		r.srv.Stop()
		return nil, fmt.Errorf("remote node %s: %w", label, err)
	}
	return r, nil
}
