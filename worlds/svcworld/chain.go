package svcworld

import (
	"bytes"
	"context"
	"errors"
	"math"
	"time"

	"github.com/nspcc-dev/neo-go/pkg/core/block"
	"github.com/nspcc-dev/neo-go/pkg/core/transaction"
	"github.com/nspcc-dev/neo-go/pkg/neorpc/result"
	"github.com/nspcc-dev/neo-go/pkg/smartcontract/trigger"
	"github.com/nspcc-dev/neo-go/pkg/util"
	iec "github.com/nspcc-dev/neofs-node/internal/ec"
	clientcore "github.com/nspcc-dev/neofs-node/pkg/core/client"
	putsvc "github.com/nspcc-dev/neofs-node/pkg/services/object/put"
	statesession "github.com/nspcc-dev/neofs-node/pkg/util/state/session"
	apistatus "github.com/nspcc-dev/neofs-sdk-go/client/status"
	"github.com/nspcc-dev/neofs-sdk-go/container"
	"github.com/nspcc-dev/neofs-sdk-go/container/acl"
	cid "github.com/nspcc-dev/neofs-sdk-go/container/id"
	"github.com/nspcc-dev/neofs-sdk-go/eacl"
	"github.com/nspcc-dev/neofs-sdk-go/netmap"
	"github.com/nspcc-dev/neofs-sdk-go/object"
	oid "github.com/nspcc-dev/neofs-sdk-go/object/id"
	sessionv2 "github.com/nspcc-dev/neofs-sdk-go/session/v2"
	"github.com/nspcc-dev/neofs-sdk-go/user"
)

// World constants.
const (
	Epoch         = 10
	EpochDuration = 240
	// key labels
	LocalNode = "node-local"
	RemoteA   = "node-remote-a"
	RemoteB   = "node-remote-b"
	Owner     = "owner"
	Stranger  = "stranger"
	IRNode    = "ir-0"
)

// ChainTime is the fixed FS chain time of the world (for V2 session tokens).
var ChainTime = time.Unix(1_750_000_000, 0)

var errNoN3 = errors.New("verif: no N3 witnesses in svcworld")

// Chain is the fake FS chain / network view of the local node. It implements every chain-side
// interface the object services need (objectsvc.FSChain, aclsvc FSChain+Netmapper+TimeProvider+
// InnerRingFetcher, getsvc/putsvc NeoFSNetwork, container+eACL sources, deletesvc.NetworkInfo,
// the metabase epoch state). Reads are recorded as "chain" events (they are not object data
// effects); nothing here is mutable except Maintenance.
type Chain struct {
	Rec *Recorder

	CnrID            cid.ID
	BasicACL         acl.Basic
	EACL             *eacl.Table // nil = no eACL table set for the container
	LocalInContainer bool
	// SoloCurrent: in the current epoch the container consists of the local node only; the labels of
	// PrevEpochExtra were container nodes in the previous epoch (replication senders).
	SoloCurrent    bool
	PrevEpochExtra []string
	// ECCnrID (optional): a second container with the EC 2/1 policy over {local, remote A, remote B}.
	ECCnrID cid.ID
	// MaxObjSize overrides the maximum object payload size (0 = 1 MiB).
	MaxObjSize uint64
	// ThreeNodes: the container spans {local, remote A, remote B} (used with remotely held objects).
	ThreeNodes  bool
	Maintenance bool
	// MaintenanceSkip: the first MaintenanceSkip maintenance queries still answer false (the node
	// enters maintenance in the middle of a stream).
	MaintenanceSkip int
	maintQueries    int
}

func nodeInfo(label string) netmap.NodeInfo {
	var n netmap.NodeInfo
	n.SetPublicKey(Pub(label))
	n.SetNetworkEndpoints("/dns4/" + label + ".verif/tcp/8080")
	return n
}

func (c *Chain) nodeLabels() []string {
	if c.SoloCurrent {
		return []string{LocalNode}
	}
	if c.ThreeNodes {
		return []string{LocalNode, RemoteA, RemoteB}
	}
	if c.LocalInContainer {
		return []string{LocalNode, RemoteA}
	}
	return []string{RemoteA, RemoteB}
}

func (c *Chain) nodes() []netmap.NodeInfo { return nodeInfos(c.nodeLabels()) }

func nodeInfos(labels []string) []netmap.NodeInfo {
	var r []netmap.NodeInfo
	for _, l := range labels {
		r = append(r, nodeInfo(l))
	}
	return r
}

var ecLabels = []string{LocalNode, RemoteA, RemoteB}

func (c *Chain) isEC(id cid.ID) bool { return !c.ECCnrID.IsZero() && id == c.ECCnrID }

// ECContainer returns the EC 2/1 container of the world.
func (c *Chain) ECContainer() container.Container {
	var cnr container.Container
	cnr.SetOwner(UserOf(Owner))
	cnr.SetBasicACL(c.BasicACL)
	var pp netmap.PlacementPolicy
	pp.SetECRules([]netmap.ECRule{netmap.NewECRule(2, 1)})
	cnr.SetPlacementPolicy(pp)
	return cnr
}

// Container returns the container of the world.
func (c *Chain) Container() container.Container {
	var cnr container.Container
	cnr.SetOwner(UserOf(Owner))
	cnr.SetBasicACL(c.BasicACL)
	var pp netmap.PlacementPolicy
	var rd netmap.ReplicaDescriptor
	rd.SetNumberOfObjects(1)
	pp.SetReplicas([]netmap.ReplicaDescriptor{rd})
	cnr.SetPlacementPolicy(pp)
	return cnr
}

// containercore.Source
func (c *Chain) Get(id cid.ID) (container.Container, error) {
	c.Rec.Add("chain", "Container.Get")
	if c.isEC(id) {
		return c.ECContainer(), nil
	}
	if id != c.CnrID {
		return container.Container{}, apistatus.ErrContainerNotFound
	}
	return c.Container(), nil
}

// containercore.EACLSource
func (c *Chain) GetEACL(id cid.ID) (eacl.Table, error) {
	c.Rec.Add("chain", "GetEACL")
	if id != c.CnrID || c.EACL == nil {
		return eacl.Table{}, apistatus.ErrEACLNotFound
	}
	return *c.EACL, nil
}

// netmapcore.StateDetailed / metabase EpochState
func (c *Chain) CurrentEpoch() uint64         { return Epoch }
func (c *Chain) CurrentBlock() uint32         { return Epoch * EpochDuration }
func (c *Chain) CurrentEpochDuration() uint64 { return EpochDuration }

// netmapcore.Source
func (c *Chain) Epoch() (uint64, error) { return Epoch, nil }
func (c *Chain) NetMap() (*netmap.NetMap, error) {
	var nm netmap.NetMap
	nm.SetEpoch(Epoch)
	nm.SetNodes([]netmap.NodeInfo{nodeInfo(LocalNode), nodeInfo(RemoteA), nodeInfo(RemoteB)})
	return &nm, nil
}
func (c *Chain) GetNetMapByEpoch(uint64) (*netmap.NetMap, error) { return c.NetMap() }

func (c *Chain) InvokeContainedScript(*transaction.Transaction, *block.Header, *trigger.Type, *bool) (*result.Invoke, error) {
	c.Rec.Add("chain", "InvokeContainedScript")
	return nil, errNoN3
}
func (c *Chain) HasUserInNNS(string, util.Uint160) (bool, error) { return false, nil }

func (c *Chain) forEachKey(id cid.ID, prev bool, f func([]byte) bool) error {
	labels := c.nodeLabels()
	if c.isEC(id) {
		labels = ecLabels
	} else if id != c.CnrID {
		return apistatus.ErrContainerNotFound
	}
	if prev {
		labels = append(append([]string(nil), labels...), c.PrevEpochExtra...)
	}
	for _, l := range labels {
		if !f(Pub(l)) {
			return nil
		}
	}
	return nil
}

// objectsvc.FSChain
func (c *Chain) ForEachContainerNodePublicKey(id cid.ID, f func([]byte) bool) error {
	c.Rec.Add("chain", "ForEachContainerNodePublicKey")
	return c.forEachKey(id, false, f)
}
func (c *Chain) ForEachContainerNodePublicKeyInLastTwoEpochs(id cid.ID, f func([]byte) bool) error {
	c.Rec.Add("chain", "ForEachContainerNodePublicKeyInLastTwoEpochs")
	return c.forEachKey(id, true, f)
}
func (c *Chain) SelectContainerNodes(id cid.ID) ([][]netmap.NodeInfo, []uint, []iec.Rule, error) {
	c.Rec.Add("chain", "SelectContainerNodes")
	if c.isEC(id) {
		return [][]netmap.NodeInfo{nodeInfos(ecLabels)}, nil, []iec.Rule{{DataPartNum: 2, ParityPartNum: 1}}, nil
	}
	if id != c.CnrID {
		return nil, nil, nil, apistatus.ErrContainerNotFound
	}
	return [][]netmap.NodeInfo{c.nodes()}, []uint{1}, nil, nil
}
func (c *Chain) IsOwnPublicKey(k []byte) bool { return bytes.Equal(k, Pub(LocalNode)) }
func (c *Chain) LocalNodeUnderMaintenance() bool {
	c.Rec.Add("chain", "LocalNodeUnderMaintenance")
	c.maintQueries++
	return c.Maintenance && c.maintQueries > c.MaintenanceSkip
}

// aclsvc.FSChain
func (c *Chain) InContainerInLastTwoEpochs(id cid.ID, pub []byte) (bool, error) {
	found := false
	err := c.forEachKey(id, true, func(k []byte) bool { found = bytes.Equal(k, pub); return !found })
	return found, err
}

// aclsvc.Netmapper
func (c *Chain) ServerInContainer(id cid.ID) (bool, error) {
	return c.InContainerInLastTwoEpochs(id, Pub(LocalNode))
}
func (c *Chain) GetEpochBlock(e uint64) (uint32, error)       { return uint32(e * EpochDuration), nil }
func (c *Chain) GetEpochBlockByTime(t uint32) (uint32, error) { return t, nil }

// aclsvc.TimeProvider
func (c *Chain) Now() time.Time { return ChainTime }

// aclsvc.InnerRingFetcher
func (c *Chain) InnerRingKeys() [][]byte { return [][]byte{Pub(IRNode)} }

// getsvc.NeoFSNetwork
func (c *Chain) GetNodesForObject(a oid.Address) ([][]netmap.NodeInfo, []uint, []iec.Rule, error) {
	c.Rec.Add("chain", "GetNodesForObject")
	if c.isEC(a.Container()) {
		return [][]netmap.NodeInfo{nodeInfos(ecLabels)}, nil, []iec.Rule{{DataPartNum: 2, ParityPartNum: 1}}, nil
	}
	if a.Container() != c.CnrID {
		return nil, nil, nil, apistatus.ErrContainerNotFound
	}
	return [][]netmap.NodeInfo{c.nodes()}, []uint{1}, nil, nil
}
func (c *Chain) IsLocalNodePublicKey(k []byte) bool { return bytes.Equal(k, Pub(LocalNode)) }

type cnrNodes struct {
	n  []netmap.NodeInfo
	ec bool
}

func (x cnrNodes) Unsorted() [][]netmap.NodeInfo { return [][]netmap.NodeInfo{x.n} }
func (x cnrNodes) SortForObject(oid.ID) ([][]netmap.NodeInfo, error) {
	return [][]netmap.NodeInfo{x.n}, nil
}
func (x cnrNodes) PrimaryCounts() []uint {
	if x.ec {
		return nil
	}
	return []uint{1}
}
func (x cnrNodes) ECRules() []iec.Rule {
	if x.ec {
		return []iec.Rule{{DataPartNum: 2, ParityPartNum: 1}}
	}
	return nil
}

// putsvc.NeoFSNetwork
func (c *Chain) GetContainerNodes(id cid.ID) (putsvc.ContainerNodes, error) {
	c.Rec.Add("chain", "GetContainerNodes")
	if c.isEC(id) {
		return cnrNodes{nodeInfos(ecLabels), true}, nil
	}
	if id != c.CnrID {
		return nil, apistatus.ErrContainerNotFound
	}
	return cnrNodes{c.nodes(), false}, nil
}

// deletesvc.NetworkInfo
func (c *Chain) TombstoneLifetime() (uint64, error) { return 5, nil }
func (c *Chain) LocalNodeID() user.ID               { return UserOf(LocalNode) }

// putsvc.MaxSizeSource
func (c *Chain) MaxObjectSize() uint64 {
	if c.MaxObjSize != 0 {
		return c.MaxObjSize
	}
	return 1 << 20
}

// putsvc.QuotaLimiter / PaymentChecker
func (c *Chain) AvailableQuotasLeft(cid.ID, user.ID) (uint64, uint64, error) {
	return math.MaxUint64, math.MaxUint64, nil
}
func (c *Chain) UnpaidSince(cid.ID) (int64, error) { return -1, nil }

// objectcore.SplitVerifier / TombVerifier (no-op: the targets of the world are plain objects)
func (c *Chain) VerifySplit(context.Context, cid.ID, oid.ID, []object.MeasuredObject) error {
	return nil
}
func (c *Chain) VerifyTombStoneWithoutPayload(context.Context, object.Object) error { return nil }

// Net is the recording "other nodes" side: every attempt to obtain a connection or to send a
// replication request is recorded as a "net" event and fails (there is no network in this world).
type Net struct {
	Rec *Recorder
	// Remotes are the reachable fake nodes by public key (string of the compressed key).
	Remotes map[string]*RemoteNode
}

var ErrNoNetwork = errors.New("verif: remote node contacted (no network in svcworld)")

func (n *Net) Get(_ context.Context, node netmap.NodeInfo) (clientcore.MultiAddressClient, error) {
	n.Rec.Add("net", "ClientConstructor.Get(%x)", node.PublicKey()[:4])
	if r, ok := n.Remotes[string(node.PublicKey())]; ok {
		return r, nil
	}
	return nil, ErrNoNetwork
}
func (n *Net) SendReplicationRequestToNode(_ context.Context, _ []byte, node netmap.NodeInfo) ([]byte, error) {
	n.Rec.Add("net", "SendReplicationRequestToNode(%x)", node.PublicKey()[:4])
	return nil, ErrNoNetwork
}

// sessions is the node-side private session token store: it holds the key of the one session the
// world uses (label SessionKey), never expiring.
type sessions struct{}

// SessionKey is the label of the session key pair known to the node.
const SessionKey = "session-key"

func (sessions) GetToken(u user.ID) *statesession.PrivateToken {
	if u == UserOf(SessionKey) {
		k := ECDSA(SessionKey)
		return statesession.NewPrivateToken(&k, math.MaxUint64)
	}
	return nil
}
func (sessions) FindTokenBySubjects(subjects []sessionv2.Target) *statesession.PrivateToken {
	for _, s := range subjects {
		if s.IsUserID() && s.UserID() == UserOf(SessionKey) {
			k := ECDSA(SessionKey)
			return statesession.NewPrivateToken(&k, math.MaxUint64)
		}
	}
	return nil
}
