// Package svcworld is the shared fixture for the service-level checks (C29, C31, C32, C45):
// deterministic keys and IDs, a recording event log, and real service objects with fakes supplied
// through their *exported* interfaces. Nothing here is random: every key/ID is derived from the
// SHA-256 of a label. The overlay-free part (keys, IDs, recorder) lives in svcworld/det.
//
// A check importing this package needs the overlay lines of worlds/svcworld/overlay.inc
// (engine method-entry hook used as a pure recorder).
package svcworld

import (
	"crypto/ecdsa"

	"github.com/nspcc-dev/neo-go/pkg/crypto/keys"
	"github.com/nspcc-dev/neofs-node/verif/worlds/svcworld/det"
	cid "github.com/nspcc-dev/neofs-sdk-go/container/id"
	oid "github.com/nspcc-dev/neofs-sdk-go/object/id"
	"github.com/nspcc-dev/neofs-sdk-go/user"
)

type (
	Recorder = det.Recorder
	Event    = det.Event
)

func Key(label string) *keys.PrivateKey   { return det.Key(label) }
func ECDSA(label string) ecdsa.PrivateKey { return det.ECDSA(label) }
func Pub(label string) []byte             { return det.Pub(label) }
func UserOf(label string) user.ID         { return det.UserOf(label) }
func Signer(label string) user.Signer     { return det.Signer(label) }
func CID(label string) cid.ID             { return det.CID(label) }
func OID(label string) oid.ID             { return det.OID(label) }
