// Package det holds the overlay-free part of svcworld: deterministic keys/IDs and the event recorder.
// deterministic keys and IDs, a recording event log, and fakes supplied through the *exported*
// interfaces of the real service objects. Nothing here is random: every key/ID is derived from
// the SHA-256 of a label.
package det

import (
	"crypto/ecdsa"
	"crypto/sha256"
	"fmt"
	"sort"
	"strings"
	"sync"

	"github.com/nspcc-dev/neo-go/pkg/crypto/keys"
	cid "github.com/nspcc-dev/neofs-sdk-go/container/id"
	oid "github.com/nspcc-dev/neofs-sdk-go/object/id"
	"github.com/nspcc-dev/neofs-sdk-go/user"
)

// Key returns the deterministic private key for a label.
func Key(label string) *keys.PrivateKey {
	for i := 0; ; i++ {
		h := sha256.Sum256([]byte(fmt.Sprintf("verif-svcworld-key:%s:%d", label, i)))
		k, err := keys.NewPrivateKeyFromBytes(h[:])
		if err == nil {
			return k
		}
	}
}

// ECDSA returns the deterministic ECDSA private key for a label.
func ECDSA(label string) ecdsa.PrivateKey { return Key(label).PrivateKey }

// Pub returns the compressed public key bytes for a label.
func Pub(label string) []byte { return Key(label).PublicKey().Bytes() }

// UserOf returns the user ID of the labelled key.
func UserOf(label string) user.ID { return user.NewFromECDSAPublicKey(Key(label).PrivateKey.PublicKey) }

// Signer returns the user signer (ECDSA_DETERMINISTIC_SHA256, deterministic) of the labelled key.
func Signer(label string) user.Signer { return user.NewAutoIDSignerRFC6979(ECDSA(label)) }

// CID returns the deterministic container ID for a label.
func CID(label string) cid.ID { return cid.ID(sha256.Sum256([]byte("verif-svcworld-cid:" + label))) }

// OID returns the deterministic object ID for a label.
func OID(label string) oid.ID { return oid.ID(sha256.Sum256([]byte("verif-svcworld-oid:" + label))) }

// Event is one recorded interaction with a dependency.
type Event struct {
	Kind   string // "storage", "net", "chain", "handler", "state", ...
	Detail string
}

// Recorder is a thread-safe, ordered event log.
type Recorder struct {
	mu sync.Mutex
	ev []Event
}

func (r *Recorder) Add(kind, format string, a ...any) {
	if r == nil {
		return
	}
	r.mu.Lock()
	r.ev = append(r.ev, Event{kind, fmt.Sprintf(format, a...)})
	r.mu.Unlock()
}

func (r *Recorder) Reset() {
	r.mu.Lock()
	r.ev = nil
	r.mu.Unlock()
}

func (r *Recorder) Events() []Event {
	r.mu.Lock()
	defer r.mu.Unlock()
	return append([]Event(nil), r.ev...)
}

// Count returns the number of events of the given kinds (all if none given).
func (r *Recorder) Count(kinds ...string) int {
	n := 0
	for _, e := range r.Events() {
		if len(kinds) == 0 {
			n++
			continue
		}
		for _, k := range kinds {
			if e.Kind == k {
				n++
			}
		}
	}
	return n
}

// Of returns the details of the events of the given kinds, in order.
func (r *Recorder) Of(kinds ...string) []string {
	var res []string
	for _, e := range r.Events() {
		for _, k := range kinds {
			if e.Kind == k {
				res = append(res, e.Kind+":"+e.Detail)
			}
		}
	}
	return res
}

// Names returns the sorted distinct "kind:firstword" classes of the recorded events.
func (r *Recorder) Names(kinds ...string) []string {
	m := map[string]bool{}
	for _, s := range r.Of(kinds...) {
		if i := strings.IndexAny(s, " ("); i > 0 {
			s = s[:i]
		}
		m[s] = true
	}
	res := make([]string, 0, len(m))
	for k := range m {
		res = append(res, k)
	}
	sort.Strings(res)
	return res
}
