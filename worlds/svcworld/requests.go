package svcworld

import (
	"context"
	"fmt"
	"reflect"

	"github.com/google/uuid"
	"github.com/nspcc-dev/neofs-node/pkg/network/peerauth"
	"github.com/nspcc-dev/neofs-sdk-go/bearer"
	"github.com/nspcc-dev/neofs-sdk-go/container/acl"
	cid "github.com/nspcc-dev/neofs-sdk-go/container/id"
	neofscrypto "github.com/nspcc-dev/neofs-sdk-go/crypto"
	neofsecdsa "github.com/nspcc-dev/neofs-sdk-go/crypto/ecdsa"
	"github.com/nspcc-dev/neofs-sdk-go/eacl"
	"github.com/nspcc-dev/neofs-sdk-go/object"
	oid "github.com/nspcc-dev/neofs-sdk-go/object/id"
	protoacl "github.com/nspcc-dev/neofs-sdk-go/proto/acl"
	protoobject "github.com/nspcc-dev/neofs-sdk-go/proto/object"
	"github.com/nspcc-dev/neofs-sdk-go/proto/refs"
	protosession "github.com/nspcc-dev/neofs-sdk-go/proto/session"
	"github.com/nspcc-dev/neofs-sdk-go/session"
	"github.com/nspcc-dev/neofs-sdk-go/version"
	"google.golang.org/grpc/peer"
)

func init() {
	RegisterServerStream[protoobject.GetResponse]()
	RegisterServerStream[protoobject.GetRangeResponse]()
	RegisterServerStream[protoobject.SearchResponse]()
	RegisterClientStream[protoobject.PutRequest, protoobject.PutResponse]()
}

// ObjectServiceIface is the reflected gRPC server interface of the object service.
var ObjectServiceIface = reflect.TypeOf((*protoobject.ObjectServiceServer)(nil)).Elem()

// AllowAllACL returns an extendable basic ACL that allows every operation to owner, others and
// container nodes and bearer rules for every operation.
func AllowAllACL() acl.Basic {
	var b acl.Basic
	for op := acl.OpObjectGet; op <= acl.OpObjectHash; op++ {
		b.AllowOp(op, acl.RoleOwner)
		b.AllowOp(op, acl.RoleOthers)
		b.AllowBearerRules(op)
	}
	// the replication operations are always open to container nodes; these two are configurable
	b.AllowOp(acl.OpObjectDelete, acl.RoleContainer)
	b.AllowOp(acl.OpObjectRange, acl.RoleContainer)
	return b
}

// PeerContext returns a context as the node's gRPC transport produces for a connection whose peer
// was authenticated by mutual TLS with the labelled key (peerauth.AuthInfo). Unsigned requests with
// TTL 1 are accepted from such peers.
func PeerContext(label string) context.Context {
	return peer.NewContext(context.Background(), &peer.Peer{AuthInfo: peerauth.AuthInfo{PublicKey: Key(label).PublicKey()}})
}

// OwnerOnlyACL allows every operation to the owner only (others denied by the basic ACL).
func OwnerOnlyACL() acl.Basic {
	var b acl.Basic
	for op := acl.OpObjectGet; op <= acl.OpObjectHash; op++ {
		b.AllowOp(op, acl.RoleOwner)
		b.AllowBearerRules(op)
	}
	return b
}

var allEACLOps = []eacl.Operation{eacl.OperationGet, eacl.OperationHead, eacl.OperationPut, eacl.OperationDelete,
	eacl.OperationSearch, eacl.OperationRange, eacl.OperationRangeHash}

// DenyOthersTable builds an eACL table with, for every operation, one DENY record for role OTHERS
// restricted by the given filters (none = unconditional).
func DenyOthersTable(cnr cid.ID, f ...eacl.Filter) *eacl.Table {
	var rs []eacl.Record
	for _, op := range allEACLOps {
		rs = append(rs, eacl.ConstructRecord(eacl.ActionDeny, op, []eacl.Target{eacl.NewTargetByRole(eacl.RoleOthers)}, f...))
	}
	t := eacl.NewTableForContainer(cnr, rs)
	return &t
}

// AllowOthersTable builds an eACL table allowing every operation to OTHERS (used in bearer tokens).
func AllowOthersTable(cnr cid.ID) eacl.Table {
	var rs []eacl.Record
	for _, op := range allEACLOps {
		rs = append(rs, eacl.ConstructRecord(eacl.ActionAllow, op, []eacl.Target{eacl.NewTargetByRole(eacl.RoleOthers)}))
	}
	return eacl.NewTableForContainer(cnr, rs)
}

// Filters used by the eACL fault worlds.
const (
	DenyXHeaderKey = "X-Verif-Deny"
	DenyXHeaderVal = "1"
	SecretAttr     = "cls"
	SecretVal      = "secret"
)

func RequestHeaderFilter() eacl.Filter {
	return eacl.ConstructFilter(eacl.HeaderFromRequest, DenyXHeaderKey, eacl.MatchStringEqual, DenyXHeaderVal)
}
func ObjectAttrFilter() eacl.Filter {
	return eacl.ConstructFilter(eacl.HeaderFromObject, SecretAttr, eacl.MatchStringEqual, SecretVal)
}
func ObjectIDFilter(id oid.ID) eacl.Filter { return eacl.NewFilterObjectWithID(id) }

// SessionV1 issues a V1 object session token: issuer = owner, session key = SessionKey (held by the
// node), bound to the container, for the given verb, lifetime [iat,nbf..exp].
func SessionV1(cnr cid.ID, verb session.ObjectVerb, exp uint64) *protosession.SessionToken {
	var t session.Object
	t.SetID(uuid.UUID{0x5e, 0x55, 1, 2, 3, 4, 0x45, 6, 0x87, 8, 9, 10, 11, 12, 13, 14}) // fixed, version 4 layout
	t.SetAuthKey((*neofsecdsa.PublicKey)(&Key(SessionKey).PrivateKey.PublicKey))
	t.SetIat(1)
	t.SetNbf(1)
	t.SetExp(exp)
	t.BindContainer(cnr)
	t.ForVerb(verb)
	if err := t.Sign(Signer(Owner)); err != nil {
		panic(err)
	}
	return t.ProtoMessage()
}

// Bearer issues a bearer token by issuerLabel for the user of forLabel carrying an allow-all table.
func Bearer(cnr cid.ID, issuerLabel, forLabel string, exp uint64) *protoacl.BearerToken {
	var t bearer.Token
	t.SetIat(1)
	t.SetNbf(1)
	t.SetExp(exp)
	t.SetEACLTable(AllowOthersTable(cnr))
	t.ForUser(UserOf(forLabel))
	if err := t.Sign(Signer(issuerLabel)); err != nil {
		panic(err)
	}
	return t.ProtoMessage()
}

// VerbOf maps an object service method to the session verb of its requests.
func VerbOf(method string) session.ObjectVerb {
	switch method {
	case "Get":
		return session.VerbObjectGet
	case "Head":
		return session.VerbObjectHead
	case "Put":
		return session.VerbObjectPut
	case "Delete":
		return session.VerbObjectDelete
	case "GetRange":
		return session.VerbObjectRange
	case "GetRangeHash":
		return session.VerbObjectRangeHash
	case "Search", "SearchV2":
		return session.VerbObjectSearch
	}
	return 0
}

// Params of a client request.
type Params struct {
	Signer    string // label of the key that signs the request
	TTL       uint32
	SessionV1 *protosession.SessionToken
	Bearer    *protoacl.BearerToken
	XHeaders  [][2]string
	Shape     string // Get: "" | "payload-only" | "range"
	Target    oid.ID // addressed object (Get/Head/GetRange/Delete); zero = the world's R1
	PutAttr   string // value of attribute cls of the object a Put carries; "" = secret
	Raw       bool   // raw flag of Get/Head/GetRange
}

func (p Params) meta() *protosession.RequestMetaHeader {
	m := &protosession.RequestMetaHeader{Version: version.Current().ProtoMessage(), Ttl: p.TTL,
		SessionToken: p.SessionV1, BearerToken: p.Bearer}
	for _, x := range p.XHeaders {
		m.XHeaders = append(m.XHeaders, &protosession.XHeader{Key: x[0], Value: x[1]})
	}
	return m
}

// NewPutObject is the object client PUT requests carry: owner-signed, attribute cls=secret (so the
// object-header eACL rule matches it), 40-byte payload.
func NewPutObject(cnr cid.ID, attrVal string) *object.Object {
	if attrVal == "" {
		attrVal = SecretVal
	}
	return NewObject(cnr, SecretAttr, attrVal, []byte("new-object-payload-0123456789-0123456789"))
}

// BuildRequests returns the unsigned request message(s) of a valid client call of the method:
// one message, or [init, chunk] for Put. Unknown methods get a generic request (Body with the
// address / container ID fields filled when present).
func (w *World) BuildRequests(method string, p Params) ([]any, error) {
	cnr := w.Chain.CnrID
	target := p.Target
	if target.IsZero() {
		target = w.R1.GetID()
	}
	addr := oid.NewAddress(cnr, target).ProtoMessage()
	switch method {
	case "Get":
		b := &protoobject.GetRequest_Body{Address: addr, Raw: p.Raw}
		switch p.Shape {
		case "payload-only":
			b.PayloadOnly = true
		case "range":
			b.Range = &protoobject.Range{Offset: 4, Length: 16}
		}
		return []any{&protoobject.GetRequest{Body: b, MetaHeader: p.meta()}}, nil
	case "Head":
		return []any{&protoobject.HeadRequest{Body: &protoobject.HeadRequest_Body{Address: addr, Raw: p.Raw}, MetaHeader: p.meta()}}, nil
	case "GetRange":
		return []any{&protoobject.GetRangeRequest{Body: &protoobject.GetRangeRequest_Body{Address: addr, Raw: p.Raw,
			Range: &protoobject.Range{Offset: 4, Length: 16}}, MetaHeader: p.meta()}}, nil
	case "GetRangeHash":
		return []any{&protoobject.GetRangeHashRequest{Body: &protoobject.GetRangeHashRequest_Body{Address: addr,
			Ranges: []*protoobject.Range{{Offset: 0, Length: 8}}}, MetaHeader: p.meta()}}, nil
	case "Delete":
		return []any{&protoobject.DeleteRequest{Body: &protoobject.DeleteRequest_Body{Address: addr}, MetaHeader: p.meta()}}, nil
	case "Search":
		return []any{&protoobject.SearchRequest{Body: &protoobject.SearchRequest_Body{ContainerId: cnr.ProtoMessage(), Version: 1},
			MetaHeader: p.meta()}}, nil
	case "SearchV2":
		return []any{&protoobject.SearchV2Request{Body: &protoobject.SearchV2Request_Body{ContainerId: cnr.ProtoMessage(), Version: 1,
			Count: 10, Filters: []*protoobject.SearchFilter{{Key: SecretAttr, MatchType: protoobject.MatchType_STRING_EQUAL, Value: SecretVal}},
			Attributes: []string{SecretAttr}}, MetaHeader: p.meta()}}, nil
	case "Put":
		o := NewPutObject(cnr, p.PutAttr)
		m := o.ProtoMessage()
		init := &protoobject.PutRequest{Body: &protoobject.PutRequest_Body{ObjectPart: &protoobject.PutRequest_Body_Init_{
			Init: &protoobject.PutRequest_Body_Init{ObjectId: m.ObjectId, Signature: m.Signature, Header: m.Header}}},
			MetaHeader: p.meta()}
		chunk := &protoobject.PutRequest{Body: &protoobject.PutRequest_Body{ObjectPart: &protoobject.PutRequest_Body_Chunk{Chunk: m.Payload}},
			MetaHeader: p.meta()}
		return []any{init, chunk}, nil
	}
	// generic fallback for an RPC this fixture does not know yet
	sig := SignatureOf(ObjectServiceIface, method)
	if sig.Kind != Unary && sig.Kind != ServerStream {
		return nil, fmt.Errorf("no request builder for new RPC %s", method)
	}
	req := reflect.New(sig.Req.Elem())
	bf := req.Elem().FieldByName("Body")
	mf := req.Elem().FieldByName("MetaHeader")
	if !bf.IsValid() || !mf.IsValid() || bf.Kind() != reflect.Pointer {
		return nil, fmt.Errorf("no request builder for new RPC %s (no Body/MetaHeader fields)", method)
	}
	body := reflect.New(bf.Type().Elem())
	for i := 0; i < body.Elem().NumField(); i++ {
		f := body.Elem().Field(i)
		if !f.CanSet() {
			continue
		}
		switch f.Interface().(type) {
		case *refs.Address:
			f.Set(reflect.ValueOf(addr))
		case *refs.ContainerID:
			f.Set(reflect.ValueOf(cnr.ProtoMessage()))
		case *refs.ObjectID:
			f.Set(reflect.ValueOf(target.ProtoMessage()))
		}
	}
	bf.Set(body)
	mf.Set(reflect.ValueOf(p.meta()))
	return []any{req.Interface()}, nil
}

// SignAll signs every request message with the labelled key (ECDSA_SHA512 scheme).
func SignAll(reqs []any, label string) error { return SignAllScheme(reqs, label, "") }

// SignAllScheme signs every request message with the labelled key using the scheme
// "" / "sha512" (ECDSA_SHA512), "rfc6979" (ECDSA_DETERMINISTIC_SHA256) or "walletconnect".
func SignAllScheme(reqs []any, label, scheme string) error {
	var signer neofscrypto.Signer
	switch scheme {
	case "", "sha512":
		signer = neofsecdsa.Signer(ECDSA(label))
	case "rfc6979":
		signer = neofsecdsa.SignerRFC6979(ECDSA(label))
	case "walletconnect":
		signer = neofsecdsa.SignerWalletConnect(ECDSA(label))
	default:
		return fmt.Errorf("unknown signature scheme %q", scheme)
	}
	for _, r := range reqs {
		if err := SignRequest(r, signer); err != nil {
			return err
		}
	}
	return nil
}

// ReplicateRequest builds a valid replication request for a fresh object of the container signed by
// the labelled node key.
func (w *World) ReplicateRequest(nodeLabel string) (*protoobject.ReplicateRequest, *object.Object) {
	o := NewObject(w.Chain.CnrID, "k", "replicated", []byte("replicated-payload"))
	id := o.GetID()
	sig, err := neofsecdsa.SignerRFC6979(ECDSA(nodeLabel)).Sign(id[:])
	if err != nil {
		panic(err)
	}
	return &protoobject.ReplicateRequest{Object: o.ProtoMessage(), Signature: &refs.Signature{
		Key: Pub(nodeLabel), Sign: sig, Scheme: refs.SignatureScheme(neofscrypto.ECDSA_DETERMINISTIC_SHA256)}}, o
}

// CorruptBody changes the request body after it was signed (one byte of the addressed object /
// container ID, of the put header attribute or of the payload chunk). For an unknown request type
// the first address / container ID field found in the body is changed.
func CorruptBody(req any) error {
	flipOID := func(a *refs.Address) {
		v := append([]byte(nil), a.ObjectId.Value...)
		v[0] ^= 1
		a.ObjectId = &refs.ObjectID{Value: v}
	}
	flipCID := func(c *refs.ContainerID) *refs.ContainerID {
		v := append([]byte(nil), c.Value...)
		v[0] ^= 1
		return &refs.ContainerID{Value: v}
	}
	switch r := req.(type) {
	case *protoobject.PutRequest:
		switch p := r.Body.ObjectPart.(type) {
		case *protoobject.PutRequest_Body_Init_:
			p.Init.CopiesNumber++
		case *protoobject.PutRequest_Body_Chunk:
			c := append([]byte(nil), p.Chunk...)
			c[0] ^= 1
			p.Chunk = c
		}
		return nil
	}
	body := reflect.ValueOf(req).Elem().FieldByName("Body")
	if !body.IsValid() || body.IsNil() {
		return fmt.Errorf("no body to corrupt in %T", req)
	}
	for i := 0; i < body.Elem().NumField(); i++ {
		f := body.Elem().Field(i)
		if !f.CanSet() {
			continue
		}
		switch v := f.Interface().(type) {
		case *refs.Address:
			if v != nil {
				flipOID(v)
				return nil
			}
		case *refs.ContainerID:
			if v != nil {
				f.Set(reflect.ValueOf(flipCID(v)))
				return nil
			}
		}
	}
	return fmt.Errorf("do not know how to corrupt the body of %T", req)
}

// CorruptMeta changes the meta header after signing (adds an X-header).
func CorruptMeta(req any) {
	mh := reflect.ValueOf(req).MethodByName("GetMetaHeader").Call(nil)[0].Interface().(*protosession.RequestMetaHeader)
	mh.XHeaders = append(mh.XHeaders, &protosession.XHeader{Key: "X-Added-After-Signing", Value: "1"})
}

// ClaimKey overwrites the public key of every signature of the request's verification header
// (the signatures then do not verify under the claimed key).
func ClaimKey(req any, pub []byte) {
	vh := reflect.ValueOf(req).MethodByName("GetVerifyHeader").Call(nil)[0].Interface().(*protosession.RequestVerificationHeader)
	for ; vh != nil; vh = vh.Origin {
		for _, s := range []*refs.Signature{vh.BodySignature, vh.MetaSignature, vh.OriginSignature} {
			if s != nil {
				s.Key = pub
			}
		}
	}
}

// Unsign removes the verification header.
func Unsign(req any) {
	f := reflect.ValueOf(req).Elem().FieldByName("VerifyHeader")
	f.Set(reflect.Zero(f.Type()))
}
