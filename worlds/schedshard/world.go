//go:build verif

// Package schedshard builds a real shard.Shard (real FSTree blobstor behind a scheduling/fault
// wrapper, real metabase, optional real write-cache, real GC goroutines) INSIDE a controlled
// execution of lib/sched: the write-cache and shard packages are rewritten by the overlay (see
// overlay.inc) so that their locks, wait groups, channels, tickers and timers are scheduling
// points; every blobstor and metabase call is a scheduling point and a crash-image point.
package schedshard

import (
	"bytes"
	"crypto/sha256"
	"errors"
	"fmt"
	"io"
	"os"
	"path/filepath"
	"strings"
	"time"

	"github.com/nspcc-dev/bbolt"
	"github.com/nspcc-dev/neo-go/pkg/util"
	"github.com/nspcc-dev/neofs-node/pkg/local_object_storage/blobstor/fstree"
	meta "github.com/nspcc-dev/neofs-node/pkg/local_object_storage/metabase"
	"github.com/nspcc-dev/neofs-node/pkg/local_object_storage/shard"
	"github.com/nspcc-dev/neofs-node/pkg/local_object_storage/writecache"
	"github.com/nspcc-dev/neofs-node/verif/lib/sched"
	"github.com/nspcc-dev/neofs-sdk-go/checksum"
	cid "github.com/nspcc-dev/neofs-sdk-go/container/id"
	"github.com/nspcc-dev/neofs-sdk-go/object"
	oid "github.com/nspcc-dev/neofs-sdk-go/object/id"
	"github.com/nspcc-dev/neofs-sdk-go/user"
	"github.com/nspcc-dev/neofs-sdk-go/version"
	"go.uber.org/zap"
)

// Epoch is the harness-owned epoch source.
type Epoch struct{ E uint64 }

func (e *Epoch) CurrentEpoch() uint64 { return e.E }

// payments is the container payments stub: payments disabled (no container is ever unpaid).
type payments struct{}

func (payments) PaymentsDisabled() bool            { return true }
func (payments) UnpaidSince(cid.ID) (int64, error) { return -1, nil }

// Stor wraps the real FSTree: every call is a scheduling point; writes may fail by plan.
type Stor struct {
	*fstree.FSTree
	w *World
}

var ErrInjected = errors.New("injected blobstor failure")

func (m Stor) pt(what string) {
	if m.w.Counts != nil {
		m.w.Counts[what]++
	}
	if m.w.OnStep != nil {
		m.w.OnStep("blob." + what)
	}
	if s := sched.Active(); s != nil {
		s.Point("blob." + what)
	}
}
func (m Stor) fail(what string) bool {
	if m.w.FailWrites != nil && m.w.FailWrites(what) {
		return true
	}
	return false
}
func (m Stor) Put(a oid.Address, d []byte) error {
	m.pt("Put")
	if m.fail("Put") {
		return ErrInjected
	}
	err := m.FSTree.Put(a, d)
	if m.w.OnStep != nil {
		m.w.OnStep("blob.Put.done")
	}
	return err
}
func (m Stor) PutBatch(o map[oid.Address][]byte) error {
	m.pt("PutBatch")
	if m.fail("PutBatch") {
		return ErrInjected
	}
	err := m.FSTree.PutBatch(o)
	if m.w.OnStep != nil {
		m.w.OnStep("blob.PutBatch.done")
	}
	return err
}
func (m Stor) Delete(a oid.Address) error { m.pt("Delete"); return m.FSTree.Delete(a) }
func (m Stor) Get(a oid.Address) (*object.Object, error) {
	m.pt("Get")
	return m.FSTree.Get(a)
}
func (m Stor) GetBytes(a oid.Address) ([]byte, error) { m.pt("GetBytes"); return m.FSTree.GetBytes(a) }
func (m Stor) GetStream(a oid.Address) (*object.Object, io.ReadCloser, error) {
	m.pt("GetStream")
	return m.FSTree.GetStream(a)
}
func (m Stor) Exists(a oid.Address) (bool, error) { m.pt("Exists"); return m.FSTree.Exists(a) }

type Opts struct {
	WriteCache   bool
	Workers      int    // flush workers (default 1)
	BatchCount   int    // write-cache flush batch count limit (default 2)
	Threshold    uint64 // write-cache batch threshold in marshaled bytes (default: empty-payload object + 30)
	RmBatch      int    // GC remover batch size (default 100)
	WCMaxSize    uint64 // write-cache capacity in bytes (0 = the package default): larger objects bypass the cache
	RemoverTicks bool   // let the GC remover timer fire (otherwise its interval never elapses... it is still armed once)
	// EngineExpiredCallback installs the engine's handling of expired objects at shard level:
	// skip locked objects, delete the others (mirrors StorageEngine.processExpiredObjects).
	EngineExpiredCallback bool
	// Build, when set, creates+opens+initialises the shard from the options (e.g. a real
	// StorageEngine with this single shard, so that the engine's own expired-objects handling is
	// the code under test); it returns the shard and a function closing the whole thing.
	Build func(opts []shard.Option) (*shard.Shard, func(), error)
}

type World struct {
	S      *sched.S
	Root   string
	Sh     *shard.Shard
	FST    *fstree.FSTree
	Epoch  *Epoch
	Opts   Opts
	closed bool

	// Counts, when non-nil, counts blobstor calls by name (vacuity evidence).
	Counts map[string]int
	// FailWrites decides whether a blobstor write fails (may call S.Choose).
	FailWrites func(what string) bool
	// Quiet suspends the metabase hook (harness reads of the live metabase from inside an observer).
	Quiet bool
	// OnMeta is called at the entry of every hooked metabase call with its arguments.
	OnMeta func(name string, args []any)
	closer func()
	// OnStep is called at every blobstor / metabase call boundary (crash-image capture).
	OnStep func(label string)
}

func (w *World) BlobDir() string  { return filepath.Join(w.Root, "blob") }
func (w *World) MetaPath() string { return filepath.Join(w.Root, "meta") }
func (w *World) WCDir() string    { return filepath.Join(w.Root, "wc") }

func metaOpts(path string, ep *Epoch) []meta.Option {
	return []meta.Option{
		meta.WithPath(path), meta.WithEpochState(ep), meta.WithPermissions(0o600),
		meta.WithMaxBatchSize(1), meta.WithMaxBatchDelay(time.Microsecond),
		meta.WithBoltDBOptions(&bbolt.Options{NoSync: true, NoFreelistSync: true, Timeout: time.Second}),
		meta.WithLogger(zap.NewNop()),
	}
}

// New builds and opens the shard. Must be called from a controlled thread (inside sched body);
// background threads (flush scheduler/workers, GC) become controlled daemon threads.
func New(s *sched.S, root string, o Opts) (*World, error) {
	if o.Workers == 0 {
		o.Workers = 1
	}
	if o.BatchCount == 0 {
		o.BatchCount = 2
	}
	if o.Threshold == 0 {
		// the write-cache sizes objects by their marshaled length (header included): objects with a
		// payload of up to ~25 bytes are "small" (batched), a payload of 60 bytes is "big" (flushed alone)
		o.Threshold = uint64(len(Obj(0, 0).Marshal())) + 30
	}
	if o.RmBatch == 0 {
		o.RmBatch = 100
	}
	w := &World{S: s, Root: root, Epoch: &Epoch{}, Opts: o, Counts: map[string]int{}}
	w.FST = fstree.New(fstree.WithPath(w.BlobDir()), fstree.WithDepth(1), fstree.WithPerm(0o700),
		fstree.WithCombinedCountLimit(1), fstree.WithNoSync(true))
	meta.VerifHook = func(db *meta.DB, name string, args []any) ([]any, bool) {
		if w.Quiet {
			return nil, false
		}
		if w.OnMeta != nil {
			w.OnMeta(name, args)
		}
		if w.OnStep != nil {
			w.OnStep("meta." + name)
		}
		if s := sched.Active(); s != nil {
			s.Point("meta." + name)
		}
		return nil, false
	}
	// every file operation of the write-cache's own FSTree is a scheduling point and a step boundary
	// (the blobstor FSTree is wrapped by Stor, harness-owned trees are not touched)
	wcDir := w.WCDir()
	fstree.VerifHook = func(t *fstree.FSTree, name string, args []any) ([]any, bool) {
		if w.Quiet || t == w.FST || !strings.HasPrefix(t.RootPath, wcDir) {
			return nil, false
		}
		if w.Counts != nil {
			w.Counts["wc."+name]++
		}
		if w.OnStep != nil {
			w.OnStep("wc." + name)
		}
		if s := sched.Active(); s != nil {
			s.Point("wc." + name)
		}
		return nil, false
	}
	wcOpts := []writecache.Option{writecache.WithPath(w.WCDir()), writecache.WithFlushWorkersCount(o.Workers),
		writecache.WithMaxFlushBatchCount(o.BatchCount), writecache.WithMaxFlushBatchThreshold(o.Threshold),
		writecache.WithNoSync(true), writecache.WithLogger(zap.NewNop())}
	if o.WCMaxSize > 0 {
		wcOpts = append(wcOpts, writecache.WithMaxCacheSize(o.WCMaxSize))
	}
	opts := []shard.Option{
		shard.WithLogger(zap.NewNop()),
		shard.WithBlobstor(Stor{w.FST, w}),
		shard.WithMetaBaseOptions(metaOpts(w.MetaPath(), w.Epoch)...),
		shard.WithWriteCache(o.WriteCache),
		shard.WithWriteCacheOptions(wcOpts...),
		shard.WithRemoverBatchSize(o.RmBatch),
		shard.WithGCRemoverSleepInterval(time.Hour),
		shard.WithContainerPayments(payments{}),
	}
	if o.EngineExpiredCallback {
		opts = append(opts, shard.WithExpiredObjectsCallback(func(addrs []oid.Address) {
			for _, a := range addrs {
				if locked, err := w.Sh.IsLocked(a); err == nil && locked {
					continue
				}
				w.Sh.Delete(a.Container(), []oid.ID{a.Object()})
			}
		}))
	}
	if o.Build != nil {
		// the shard is created, opened and initialised by its owner (the real storage engine)
		sh, closer, err := o.Build(opts)
		if err != nil {
			return nil, err
		}
		w.Sh, w.closer = sh, closer
		return w, nil
	}
	w.Sh = shard.New(opts...)
	if err := w.Sh.Open(); err != nil {
		return nil, err
	}
	if err := w.Sh.Init(); err != nil {
		return nil, err
	}
	return w, nil
}

// Close shuts the shard down (controlled), or — when the execution is being aborted — only
// releases the bbolt file so that descriptors do not leak.
func (w *World) Close() {
	if w.closed {
		return
	}
	w.closed = true
	if os.Getenv("VERIF_DEBUG_COUNTS") != "" && w.Counts != nil {
		fmt.Fprintf(os.Stderr, "COUNTS PutBatch=%d Put=%d\n", w.Counts["PutBatch"], w.Counts["Put"])
	}
	if sched.Active() == nil {
		defer func() { recover() }()
		meta.VerifHook = nil
		fstree.VerifHook = nil
		w.Sh.VerifSSMetabase().Close()
		return
	}
	if w.closer != nil {
		w.closer()
	} else {
		w.Sh.Close()
	}
	meta.VerifHook = nil
	fstree.VerifHook = nil
}

// ---- objects ----

var Cnr = func() cid.ID { var c cid.ID; c[0] = 0xC5; return c }()
var owner = user.NewFromScriptHash(util.Uint160{7, 7, 7})

func OID(i int) oid.ID {
	var id oid.ID
	id[0] = byte(0x30 + i)
	id[31] = byte(i + 1)
	return id
}

func Addr(i int) oid.Address { return oid.NewAddress(Cnr, OID(i)) }

// Obj builds regular object #i with a payload of n bytes (deterministic).
func Obj(i, n int) *object.Object {
	o := object.New(Cnr, owner)
	o.SetID(OID(i))
	v := version.Current()
	o.SetVersion(&v)
	p := bytes.Repeat([]byte{byte('a' + i)}, n)
	o.SetPayload(p)
	o.SetPayloadSize(uint64(n))
	o.SetPayloadChecksum(checksum.NewSHA256(sha256.Sum256(p)))
	return o
}

// Tombstone builds tombstone #i targeting object #target, expiring at exp.
func Tombstone(i, target int, exp uint64) *object.Object {
	o := object.New(Cnr, owner)
	o.SetID(OID(i))
	v := version.Current()
	o.SetVersion(&v)
	o.AssociateDeleted(OID(target))
	o.SetPayloadChecksum(checksum.NewSHA256(sha256.Sum256(nil)))
	if exp > 0 {
		o.SetAttributes(append(o.Attributes(), object.NewAttribute(object.AttributeExpirationEpoch, fmt.Sprint(exp)))...)
	}
	return o
}

// Lock builds lock #i protecting object #target, expiring at exp (0 = never).
func Lock(i, target int, exp uint64) *object.Object {
	o := object.New(Cnr, owner)
	o.SetID(OID(i))
	v := version.Current()
	o.SetVersion(&v)
	o.AssociateLocked(OID(target))
	o.SetPayloadChecksum(checksum.NewSHA256(sha256.Sum256(nil)))
	if exp > 0 {
		o.SetAttributes(append(o.Attributes(), object.NewAttribute(object.AttributeExpirationEpoch, fmt.Sprint(exp)))...)
	}
	return o
}

// ObjExp is Obj with an expiration epoch.
func ObjExp(i, n int, exp uint64) *object.Object {
	o := Obj(i, n)
	o.SetAttributes(append(o.Attributes(), object.NewAttribute(object.AttributeExpirationEpoch, fmt.Sprint(exp)))...)
	return o
}

// CopyTree copies a directory tree (crash image). Files vanishing concurrently are skipped.
func CopyTree(src, dst string) error {
	return filepath.Walk(src, func(p string, info os.FileInfo, err error) error {
		if err != nil {
			return nil
		}
		rel, _ := filepath.Rel(src, p)
		t := filepath.Join(dst, rel)
		if info.IsDir() {
			return os.MkdirAll(t, 0o700)
		}
		b, err := os.ReadFile(p)
		if err != nil {
			return nil
		}
		return os.WriteFile(t, b, 0o600)
	})
}

// Reopen opens a fresh, free-running (uncontrolled) shard over a crash image directory with the
// same layout; background jobs are real goroutines with long intervals (they do nothing).
func Reopen(root string, epoch uint64, writeCache bool) (*shard.Shard, *fstree.FSTree, error) {
	ep := &Epoch{E: epoch}
	fst := fstree.New(fstree.WithPath(filepath.Join(root, "blob")), fstree.WithDepth(1), fstree.WithPerm(0o700),
		fstree.WithCombinedCountLimit(1), fstree.WithNoSync(true))
	sh := shard.New(
		shard.WithLogger(zap.NewNop()),
		shard.WithBlobstor(fst),
		shard.WithMetaBaseOptions(metaOpts(filepath.Join(root, "meta"), ep)...),
		shard.WithWriteCache(writeCache),
		shard.WithWriteCacheOptions(writecache.WithPath(filepath.Join(root, "wc")), writecache.WithNoSync(true),
			writecache.WithFlushWorkersCount(1), writecache.WithLogger(zap.NewNop())),
		shard.WithGCRemoverSleepInterval(time.Hour),
		shard.WithContainerPayments(payments{}),
	)
	if err := sh.Open(); err != nil {
		return nil, nil, err
	}
	if err := sh.Init(); err != nil {
		return nil, nil, err
	}
	return sh, fst, nil
}
