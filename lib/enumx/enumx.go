// Package enumx: exhaustive enumerators (products, subsets, permutations, bounded sequences)
// and a deterministic parallel driver. No randomness anywhere.
package enumx

import (
	"runtime"
	"sync"
)

// Product calls f for every index vector of the cartesian product of the given sizes,
// in lexicographic order. f must not retain idx. Stops early if f returns false.
func Product(sizes []int, f func(idx []int) bool) {
	for _, s := range sizes {
		if s == 0 {
			return
		}
	}
	idx := make([]int, len(sizes))
	for {
		if !f(idx) {
			return
		}
		i := len(sizes) - 1
		for i >= 0 {
			idx[i]++
			if idx[i] < sizes[i] {
				break
			}
			idx[i] = 0
			i--
		}
		if i < 0 {
			return
		}
	}
}

// Perms calls f with every permutation of 0..n-1 (Heap's algorithm is avoided to keep
// lexicographic order: identity first).
func Perms(n int, f func(p []int) bool) {
	p := make([]int, n)
	for i := range p {
		p[i] = i
	}
	for {
		if !f(p) {
			return
		}
		i := n - 2
		for i >= 0 && p[i] >= p[i+1] {
			i--
		}
		if i < 0 {
			return
		}
		j := n - 1
		for p[j] <= p[i] {
			j--
		}
		p[i], p[j] = p[j], p[i]
		for a, b := i+1, n-1; a < b; a, b = a+1, b-1 {
			p[a], p[b] = p[b], p[a]
		}
	}
}

// Subsets calls f with every subset of 0..n-1 as a bit mask, ascending (empty first).
func Subsets(n int, f func(mask uint64) bool) {
	for m := uint64(0); m < 1<<uint(n); m++ {
		if !f(m) {
			return
		}
	}
}

// Bits returns the indices set in mask.
func Bits(mask uint64) []int {
	var r []int
	for i := 0; mask != 0; i, mask = i+1, mask>>1 {
		if mask&1 != 0 {
			r = append(r, i)
		}
	}
	return r
}

// Seqs calls f with every sequence over 0..k-1 of length exactly n.
func Seqs(k, n int, f func(s []int) bool) {
	sz := make([]int, n)
	for i := range sz {
		sz[i] = k
	}
	if n == 0 {
		f(nil)
		return
	}
	Product(sz, f)
}

// Compositions calls f with every composition (ordered split) of n into positive parts.
func Compositions(n int, f func(parts []int) bool) {
	if n == 0 {
		f(nil)
		return
	}
	for m := uint64(0); m < 1<<uint(n-1); m++ {
		var parts []int
		cur := 1
		for i := 0; i < n-1; i++ {
			if m&(1<<uint(i)) != 0 {
				parts = append(parts, cur)
				cur = 1
			} else {
				cur++
			}
		}
		parts = append(parts, cur)
		if !f(parts) {
			return
		}
	}
}

// Parallel runs f(i) for i in [0,n) on all cores; work is handed out in index order.
func Parallel(n int, f func(i int)) {
	w := runtime.GOMAXPROCS(0)
	if w > n {
		w = n
	}
	if w <= 1 {
		for i := 0; i < n; i++ {
			f(i)
		}
		return
	}
	var wg sync.WaitGroup
	var mu sync.Mutex
	next := 0
	for k := 0; k < w; k++ {
		wg.Add(1)
		go func() {
			defer wg.Done()
			for {
				mu.Lock()
				i := next
				next++
				mu.Unlock()
				if i >= n {
					return
				}
				f(i)
			}
		}()
	}
	wg.Wait()
}
