// Package sched is a cooperative controlled scheduler with a stateless DFS explorer
// (iterative-context-bounding style): one thread runs at a time, every shim operation
// (lock, wait group, channel, timer, hooked syscall) is a scheduling point, environment
// answers (faults, select among ready cases, ...) are explored choices.
//
// One execution at a time per process (the shims find the execution through Active()).
package sched

import (
	"fmt"
	"runtime/debug"
	"sync/atomic"
)

// Cost classes of an alternative at a decision point.
const (
	Free    = 0 // forced switch (running thread blocked/finished) or a free environment choice
	Preempt = 1 // switching away from a still-enabled thread
	Fault   = 2 // non-default environment answer counted against the fault/deviation bound
)

type T struct {
	ID      int
	Name    string
	Daemon  bool
	wake    chan struct{}
	ready   func() bool
	blocked string
	done    bool
	started bool
	LowPrio bool // see enabled()
	idle    bool // waiting for quiescence: enabled only when nothing else is
	f       func()
}

// PointInfo is one recorded decision (only decisions with >1 alternative are recorded).
type PointInfo struct {
	N      int
	Chosen int
	Class  uint8 // cost class of every non-zero alternative
	Label  string
}

type S struct {
	threads []*T
	cur     *T
	prefix  []int
	Points  []PointInfo
	steps   int
	maxStep int

	aborting bool
	finished chan struct{}
	ack      chan struct{}
	aborter  *T

	Deadlock   bool
	Horizon    bool
	Diverged   string
	Panics     []string
	BlockedAt  []string
	Trace      []string
	KeepTrace  bool
	Result     any
	Now        int64 // virtual clock (ns), advanced by the time shim
	TimerFires int   // per-execution cap for ticker fires (time shim)
	OnPoint    func(label string)
	User       any
}

var active atomic.Pointer[S]

// Active returns the current controlled execution, or nil when code runs free.
func Active() *S {
	s := active.Load()
	if s == nil || s.aborting {
		return nil
	}
	return s
}

type abortSignal struct{}

func (s *S) Cur() *T { return s.cur }

func (s *S) trace(f string, a ...any) {
	if s.KeepTrace {
		s.Trace = append(s.Trace, fmt.Sprintf("t%d:", s.cur.ID)+fmt.Sprintf(f, a...))
	}
}

// Go registers a new controlled thread; it runs only when scheduled.
func (s *S) Go(name string, daemon bool, f func()) *T {
	t := &T{ID: len(s.threads), Name: name, Daemon: daemon, wake: make(chan struct{}), f: f}
	s.threads = append(s.threads, t)
	return t
}

// Cancel marks a never-started thread as finished (timer stop). Returns false if it already started.
func (s *S) Cancel(t *T) bool {
	if t.started || t.done {
		return false
	}
	t.done = true
	return true
}

func (s *S) enabled() []*T {
	var r []*T
	curEnabled := false
	if c := s.cur; c != nil && !c.done && !c.idle && (c.ready == nil || c.ready()) {
		r = append(r, c)
		curEnabled = true
	}
	var low []*T
	for _, t := range s.threads {
		if t == s.cur || t.done || t.idle {
			continue
		}
		if t.ready == nil || t.ready() {
			if t.LowPrio {
				low = append(low, t)
			} else {
				r = append(r, t)
			}
		}
	}
	// Low-priority threads (periodic tickers = "time passes") run when nothing else can, or as a
	// costed preemption of the running thread; they are not offered as free alternatives, which
	// would let an unfair schedule burn all ticks before the other threads ever run.
	if curEnabled || len(r) == 0 {
		r = append(r, low...)
	}
	if len(r) == 0 { // quiescent: threads awaiting quiescence may go on
		for _, t := range s.threads {
			if t.idle && !t.done {
				r = append(r, t)
			}
		}
	}
	return r
}

// AwaitQuiescence suspends the running thread until no other thread is enabled (all others are
// finished or blocked, timers and tickers exhausted): the fair-suffix end of an execution.
func (s *S) AwaitQuiescence() {
	if s.aborting {
		return
	}
	s.cur.idle = true
	s.cur.blocked = "await quiescence"
	s.schedule("await-quiescence")
	s.cur.idle = false
	s.cur.blocked = ""
}

func (s *S) decide(n int, class uint8, label string) int {
	if n <= 1 {
		return 0
	}
	c := 0
	i := len(s.Points)
	if i < len(s.prefix) {
		c = s.prefix[i]
		if c >= n {
			s.Diverged = fmt.Sprintf("replayed choice %d out of range %d at point %d (%s)", c, n, i, label)
			c = 0
		}
	}
	s.Points = append(s.Points, PointInfo{N: n, Chosen: c, Class: class, Label: label})
	return c
}

// Choose is an explored environment answer in [0,n); alternative 0 is the default.
func (s *S) Choose(n int, class uint8, label string) int {
	c := s.decide(n, class, "choose:"+label)
	s.trace("choose %s=%d", label, c)
	return c
}

// Point is a scheduling point of the running thread.
func (s *S) Point(label string) {
	if s.aborting {
		return
	}
	if s.OnPoint != nil {
		s.OnPoint(label)
	}
	s.trace("%s", label)
	s.steps++
	if s.steps > s.maxStep {
		s.Horizon = true
		s.abortFrom()
	}
	s.schedule(label)
}

// Block suspends the running thread until ready() holds (evaluated by the scheduler).
func (s *S) Block(label string, ready func() bool) {
	if s.aborting {
		return
	}
	if ready() {
		return
	}
	s.cur.ready = ready
	s.cur.blocked = label
	s.schedule("block:" + label)
	s.cur.ready = nil
	s.cur.blocked = ""
}

func (s *S) schedule(label string) {
	en := s.enabled()
	me := s.cur
	if len(en) == 0 {
		s.endOrDeadlock()
		return
	}
	class := uint8(Free)
	if en[0] == me {
		class = Preempt
	}
	next := en[s.decide(len(en), class, label)]
	s.switchTo(next)
}

func (s *S) switchTo(next *T) {
	me := s.cur
	if next == me {
		return
	}
	s.cur = next
	if !next.started {
		next.started = true
		go s.threadMain(next)
	} else {
		next.wake <- struct{}{}
	}
	if me != nil && !me.done {
		<-me.wake
		if s.aborting {
			panic(abortSignal{})
		}
	}
}

func (s *S) threadMain(t *T) {
	defer func() {
		if r := recover(); r != nil {
			if _, ok := r.(abortSignal); !ok {
				s.Panics = append(s.Panics, fmt.Sprintf("thread %d (%s): %v\n%s", t.ID, t.Name, r, debug.Stack()))
			}
		}
		t.done = true
		t.ready = nil
		if s.aborting {
			if s.aborter != t {
				s.ack <- struct{}{}
			} else {
				close(s.finished) // the aborter has fully unwound: the execution is over
			}
			return
		}
		if len(s.Panics) > 0 {
			s.abortFrom()
			return
		}
		en := s.enabled()
		if len(en) == 0 {
			s.endOrDeadlock()
			return
		}
		next := en[s.decide(len(en), Free, "exit")]
		s.switchTo(next)
	}()
	t.f()
}

var _ = debug.Stack

func (s *S) endOrDeadlock() {
	for _, t := range s.threads {
		if !t.done && !t.Daemon {
			s.Deadlock = true
			s.BlockedAt = append(s.BlockedAt, fmt.Sprintf("thread %d (%s) blocked at %s", t.ID, t.Name, t.blocked))
		}
	}
	s.abortFrom()
}

// abortFrom ends the execution from inside the running thread: every other started thread is
// unwound with a panic caught at its root; the running thread unwinds last.
func (s *S) abortFrom() {
	if s.aborting {
		return
	}
	s.aborting = true
	me := s.cur
	s.aborter = me
	for _, t := range s.threads {
		if t == me || !t.started || t.done {
			continue
		}
		t.wake <- struct{}{}
		<-s.ack
	}
	if me != nil && !me.done {
		panic(abortSignal{}) // unwinds to threadMain, which closes s.finished
	}
	close(s.finished)
}

// Exec is the outcome of one execution.
type Exec struct {
	Choices  []int
	Points   []PointInfo
	Deadlock bool
	Horizon  bool
	Diverged string
	Panics   []string
	Blocked  []string
	Trace    []string
	Result   any
}

// RunOnce performs one execution following choices (then defaults). body runs as thread 0.
func RunOnce(choices []int, maxSteps int, keepTrace bool, setup func(s *S), body func(s *S) any) *Exec {
	if maxSteps == 0 {
		maxSteps = 20000
	}
	s := &S{prefix: choices, maxStep: maxSteps, finished: make(chan struct{}), KeepTrace: keepTrace, TimerFires: 2}
	s.ack = make(chan struct{})
	if setup != nil {
		setup(s)
	}
	t0 := s.Go("main", false, func() { s.Result = body(s) })
	if !active.CompareAndSwap(nil, s) {
		panic("sched: an execution is already active in this process")
	}
	s.cur = t0
	t0.started = true
	go s.threadMain(t0)
	<-s.finished
	active.Store(nil)
	x := &Exec{Points: s.Points, Deadlock: s.Deadlock, Horizon: s.Horizon, Diverged: s.Diverged,
		Panics: s.Panics, Blocked: s.BlockedAt, Trace: s.Trace, Result: s.Result}
	x.Choices = make([]int, len(s.Points))
	for i, p := range s.Points {
		x.Choices[i] = p.Chosen
	}
	return x
}
