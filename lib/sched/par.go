package sched

import (
	"bufio"
	"encoding/json"
	"fmt"
	"os"
	"os/exec"
	"reflect"
	"runtime"
	"sort"
	"strconv"
	"strings"
	"sync"
	"time"

	"github.com/nspcc-dev/neofs-node/verif/lib/ev"
)

// Scenario is one closed harness explored exhaustively within its bounds.
type Scenario struct {
	Name string
	Opt  Options
	Body func(s *S) any
	// Check is the oracle for one complete execution; fp=="" means the property held.
	Check func(x *Exec) (fp, what string)
	// Outcome classifies the execution for vacuity accounting (distinct observed outcomes).
	Outcome func(x *Exec) string
	// Discard releases what an execution left behind when it is not checked (see Options.Discard).
	Discard func(x *Exec)
	// Counters returns additive per-execution counts (e.g. crash images checked) for the evidence.
	Counters func(x *Exec) map[string]int
}

type viol struct {
	Scenario string
	FP, What string
	Choices  []int
}

type shardResult struct {
	Scenario   string
	Stats      Stats
	Viol       []viol
	Outcomes   map[string]int
	Counters   map[string]int
	SampleRuns [][]int
}

type replayArt struct {
	Scenario string
	Choices  []int
}

// Main drives scenarios: parent process shards the exploration over child processes (the
// scheduler is process-global), aggregates counts into r, confirms every violation by two
// further deterministic replays, and finishes the run.
func Main(r *ev.Run, scenarios []Scenario, shards int) {
	byName := map[string]*Scenario{}
	for i := range scenarios {
		byName[scenarios[i].Name] = &scenarios[i]
	}
	if env := os.Getenv("VERIF_SHARD"); env != "" {
		a, b, _ := strings.Cut(env, "/")
		i, _ := strconv.Atoi(a)
		n, _ := strconv.Atoi(b)
		child(r, scenarios, i, n)
		return
	}
	if r.Replay != "" {
		var art replayArt
		r.LoadReplay(&art)
		sc := byName[art.Scenario]
		if sc == nil {
			r.Fatal("unknown scenario %q", art.Scenario)
		}
		x := RunOnce(art.Choices, sc.Opt.MaxSteps, true, sc.Opt.Setup, sc.Body)
		for _, l := range x.Trace {
			fmt.Println("  ", l)
		}
		fp, what := judge(sc, x)
		fmt.Printf("replay scenario=%s points=%d deadlock=%v panics=%d -> %q %s\n", sc.Name, len(x.Points), x.Deadlock, len(x.Panics), fp, what)
		if fp != "" {
			r.Violation(fp, what, art)
		}
		r.Finish()
	}
	if shards <= 0 {
		shards = runtime.NumCPU()
	}
	var mu sync.Mutex
	var results []shardResult
	var wg sync.WaitGroup
	failed := ""
	for i := 0; i < shards; i++ {
		wg.Add(1)
		go func(i int) {
			defer wg.Done()
			cmd := exec.Command(os.Args[0], "-tier", r.Tier, "-budget", r.Budget.String())
			cmd.Env = append(os.Environ(), fmt.Sprintf("VERIF_SHARD=%d/%d", i, shards), "GOMAXPROCS=2")
			cmd.Stderr = os.Stderr
			out, err := cmd.StdoutPipe()
			if err != nil {
				mu.Lock()
				failed = err.Error()
				mu.Unlock()
				return
			}
			if err := cmd.Start(); err != nil {
				mu.Lock()
				failed = err.Error()
				mu.Unlock()
				return
			}
			sc := bufio.NewScanner(out)
			sc.Buffer(make([]byte, 1<<20), 1<<28)
			got := 0
			for sc.Scan() {
				line := sc.Text()
				if rest, ok := strings.CutPrefix(line, "SHARD-RESULT "); ok {
					var sr shardResult
					if err := json.Unmarshal([]byte(rest), &sr); err != nil {
						mu.Lock()
						failed = "bad shard result: " + err.Error()
						mu.Unlock()
						continue
					}
					mu.Lock()
					results = append(results, sr)
					mu.Unlock()
					got++
				}
			}
			if err := cmd.Wait(); err != nil || got != len(scenarios) {
				mu.Lock()
				failed = fmt.Sprintf("shard %d: %v (results %d/%d)", i, err, got, len(scenarios))
				mu.Unlock()
			}
		}(i)
	}
	wg.Wait()
	if failed != "" {
		r.Fatal("worker failure: %s", failed)
	}
	exhaustive := true
	outcomes := map[string]int{}
	counters := map[string]int{}
	perScenario := map[string]map[string]any{}
	var viols []viol
	for _, sr := range results {
		if sr.Stats.Nondeterm != "" {
			r.Fatal("NONDETERMINISM in scenario %s: %s", sr.Scenario, sr.Stats.Nondeterm)
		}
		r.Eval(sr.Stats.Executions)
		r.Transition(sr.Stats.Points)
		r.State(sr.Stats.Executions)
		r.TraceOK(sr.Stats.Executions)
		if !sr.Stats.Exhaustive {
			exhaustive = false
		}
		ps := perScenario[sr.Scenario]
		if ps == nil {
			ps = map[string]any{"executions": 0, "max_points": 0, "deadlocks": 0, "by_cost": map[string]int{}, "redundant_discovery_runs": 0}
			perScenario[sr.Scenario] = ps
		}
		ps["executions"] = ps["executions"].(int) + sr.Stats.Executions
		ps["deadlocks"] = ps["deadlocks"].(int) + sr.Stats.Deadlocks
		ps["redundant_discovery_runs"] = ps["redundant_discovery_runs"].(int) + sr.Stats.Redundant
		if sr.Stats.MaxPoints > ps["max_points"].(int) {
			ps["max_points"] = sr.Stats.MaxPoints
		}
		for k, v := range sr.Stats.ByCost {
			ps["by_cost"].(map[string]int)[k] += v
		}
		for k, v := range sr.Outcomes {
			outcomes[sr.Scenario+": "+k] += v
			r.Nontrivial(sr.Scenario + ": " + k)
		}
		for k, v := range sr.Counters {
			counters[k] += v
		}
		for _, c := range sr.SampleRuns {
			r.Sample(map[string]any{"scenario": sr.Scenario, "choices": c})
		}
		viols = append(viols, sr.Viol...)
	}
	sort.Slice(viols, func(i, j int) bool {
		if viols[i].FP != viols[j].FP {
			return viols[i].FP < viols[j].FP
		}
		return len(viols[i].Choices) < len(viols[j].Choices)
	})
	seen := map[string]bool{}
	for _, v := range viols {
		if seen[v.FP] {
			r.Violation(v.FP, v.What, replayArt{v.Scenario, v.Choices}) // counted, not re-printed
			continue
		}
		seen[v.FP] = true
		sc := byName[v.Scenario]
		// replay discipline: the same schedule must fail identically twice more
		for k := 0; k < 2; k++ {
			x := RunOnce(v.Choices, sc.Opt.MaxSteps, false, sc.Opt.Setup, sc.Body)
			fp, _ := judge(sc, x)
			if fp != v.FP || !reflect.DeepEqual(x.Choices, v.Choices) && len(x.Choices) < len(v.Choices) {
				r.Fatal("NONDETERMINISM: violation %q of scenario %s did not reproduce on replay (got %q)", v.FP, v.Scenario, fp)
			}
		}
		r.Violation(v.FP, v.What, replayArt{v.Scenario, v.Choices})
	}
	r.Set("scenarios", perScenario)
	r.Set("outcome_classes", outcomes)
	if len(counters) > 0 {
		r.Set("counters", counters)
	}
	r.Set("workers", shards)
	r.Exhaustive(exhaustive)
	r.Finish()
}

func judge(sc *Scenario, x *Exec) (string, string) {
	if x.Diverged != "" {
		return "", ""
	}
	return sc.Check(x)
}

func child(r *ev.Run, scenarios []Scenario, shard, shards int) {
	w := bufio.NewWriter(os.Stdout)
	start := time.Now()
	for i := range scenarios {
		sc := &scenarios[i]
		// the wall-clock budget is shared: a scenario may use whatever is left except a reserve of
		// budget/(2n) for each scenario still to come (no scenario is starved by an earlier one, and an
		// early expensive one is not cut short while time is plentiful)
		n := time.Duration(len(scenarios))
		deadline := start.Add(r.Budget - time.Duration(len(scenarios)-1-i)*r.Budget/(2*n))
		sr := shardResult{Scenario: sc.Name, Outcomes: map[string]int{}, Counters: map[string]int{}}
		opt := sc.Opt
		opt.Shard, opt.Shards = shard, shards
		opt.Expired = func() bool { return time.Now().After(deadline) }
		opt.Discard = sc.Discard
		sr.Stats = Explore(opt, sc.Body, func(x *Exec) {
			if fp, what := judge(sc, x); fp != "" {
				if len(sr.Viol) < 50 {
					sr.Viol = append(sr.Viol, viol{sc.Name, fp, what, x.Choices})
				}
			}
			if sc.Outcome != nil {
				sr.Outcomes[sc.Outcome(x)]++
			}
			if sc.Counters != nil {
				for k, v := range sc.Counters(x) {
					sr.Counters[k] += v
				}
			}
			if len(sr.SampleRuns) < 1 && shard == 0 && len(x.Choices) > 0 {
				sr.SampleRuns = append(sr.SampleRuns, x.Choices)
			}
		})
		b, _ := json.Marshal(sr)
		fmt.Fprintf(w, "SHARD-RESULT %s\n", b)
		w.Flush()
	}
	os.Exit(0)
}
