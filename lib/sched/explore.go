package sched

import (
	"fmt"
)

type Options struct {
	PreemptBound int
	FaultBound   int
	// FreeBound bounds non-default choices at forced switches (running thread blocked or finished);
	// 0 means unlimited (the classic preemption-bounded search), a negative value allows none. A positive bound makes the search
	// tractable when many daemon threads are runnable at every blocking point.
	FreeBound int
	MaxSteps  int
	MaxExecs  int // 0 = unlimited
	Shard     int // this worker
	Shards    int // number of workers (0/1 = no sharding)
	Expired   func() bool
	// Discard is called for executions that are run only to discover the tree (another worker
	// owns and checks them): release whatever the body left behind (scratch directories).
	Discard func(x *Exec)
	Setup   func(s *S)
}

type Stats struct {
	Executions int // executions owned (checked) by this worker
	Redundant  int // executions run only to discover the tree (sharding overhead)
	Points     int
	MaxPoints  int
	Deadlocks  int
	Horizons   int
	ByCost     map[string]int
	Exhaustive bool
	Nondeterm  string
}

func costs(points []PointInfo, upto int) (pre, flt int) {
	pre, flt, _ = costs3(points, upto)
	return
}

// Costs returns the number of preemptions, faults and non-default forced switches an execution used.
func Costs(x *Exec) (pre, flt, free int) { return costs3(x.Points, len(x.Points)) }

func costs3(points []PointInfo, upto int) (pre, flt, free int) {
	for i := 0; i < upto; i++ {
		if points[i].Chosen != 0 {
			switch points[i].Class {
			case Preempt:
				pre++
			case Fault:
				flt++
			case Free:
				free++
			}
		}
	}
	return
}

// Explore enumerates every execution of body within the bounds and calls check on each one.
// The deciding step is the exhaustive enumeration of schedules/choices; no sampling.
func Explore(opt Options, body func(s *S) any, check func(x *Exec)) Stats {
	st := Stats{ByCost: map[string]int{}, Exhaustive: true}
	if opt.Shards < 1 {
		opt.Shards = 1
	}
	type item struct {
		prefix []int
		depth  int // number of non-default choices in prefix
		owner  int // worker owning this subtree (-1 = shared upper part)
	}
	unit := 0
	stack := []item{{nil, 0, -1}}
	for len(stack) > 0 {
		it := stack[len(stack)-1]
		stack = stack[:len(stack)-1]
		if opt.Expired != nil && opt.Expired() || (opt.MaxExecs > 0 && st.Executions+st.Redundant >= opt.MaxExecs) {
			st.Exhaustive = false
			break
		}
		owned := it.owner == opt.Shard || (it.owner == -1 && opt.Shard == 0)
		x := RunOnce(it.prefix, opt.MaxSteps, false, opt.Setup, body)
		if x.Diverged != "" {
			st.Nondeterm = x.Diverged
			st.Exhaustive = false
			return st
		}
		if owned {
			st.Executions++
			st.Points += len(x.Points)
			if len(x.Points) > st.MaxPoints {
				st.MaxPoints = len(x.Points)
			}
			if x.Deadlock {
				st.Deadlocks++
			}
			if x.Horizon {
				st.Horizons++
				st.Exhaustive = false
			}
			p, f, fr := costs3(x.Points, len(x.Points))
			if opt.FreeBound > 0 {
				st.ByCost[fmt.Sprintf("preempt=%d,fault=%d,free-switch=%d", p, f, fr)]++
			} else {
				st.ByCost[fmt.Sprintf("preempt=%d,fault=%d", p, f)]++
			}
			check(x)
		} else {
			st.Redundant++
			if opt.Discard != nil {
				opt.Discard(x) // executions run only to discover the tree still own scratch state
			}
		}
		// children: deviate at every later point
		var kids []item
		for i := len(it.prefix); i < len(x.Points); i++ {
			pi := x.Points[i]
			pre, flt, free := costs3(x.Points, i)
			switch pi.Class {
			case Preempt:
				pre++
			case Fault:
				flt++
			case Free:
				free++
			}
			if pre > opt.PreemptBound || flt > opt.FaultBound || (opt.FreeBound > 0 && free > opt.FreeBound) || (opt.FreeBound < 0 && free > 0) {
				continue
			}
			for alt := 1; alt < pi.N; alt++ {
				np := make([]int, i+1)
				copy(np, x.Choices[:i])
				np[i] = alt
				k := item{np, it.depth + 1, it.owner}
				if it.owner == -1 && k.depth == 2 && opt.Shards > 1 {
					k.owner = unit % opt.Shards
					unit++
				} else if it.owner == -1 && opt.Shards == 1 {
					k.owner = -1
				}
				if k.owner >= 0 && k.owner != opt.Shard {
					continue // someone else's subtree
				}
				kids = append(kids, k)
			}
		}
		// push in reverse so that the simplest deviation is explored first
		for i := len(kids) - 1; i >= 0; i-- {
			stack = append(stack, kids[i])
		}
	}
	return st
}
