// Package ev is the common run/evidence/violation interface of every check.
//
// A check binary does:
//
//	r := ev.Start("C22", ev.Exploration)
//	... r.Eval(n) / r.Nontrivial(key) / r.Sample(x) / r.Violation(fp, what, replay) ...
//	r.Finish()
//
// Finish writes /verif/evidence/<id>.json (schema EVIDENCE.schema.json) and exits
// 0 (held on everything explored, known findings only) or 1 (a VIOLATION line was
// printed). Exit 2 is reserved for harness/engine errors (never a violation).
package ev

import (
	"crypto/sha256"
	"encoding/hex"
	"encoding/json"
	"flag"
	"fmt"
	"hash/fnv"
	"os"
	"path/filepath"
	"sort"
	"strconv"
	"sync"
	"sync/atomic"
	"syscall"
	"time"
)

const (
	Exploration     = "exploration"
	FaultEnum       = "fault_enumeration"
	ModelChecking   = "model_checking"
	maxPrintedViols = 5
)

// Root is the verification tree root (where evidence/, replays/, known_findings.json live).
func Root() string {
	if r := os.Getenv("VERIF_ROOT"); r != "" {
		return r
	}
	return "/verif"
}

type finding struct {
	Property    string `json:"property"`
	Fingerprint string `json:"fingerprint"`
	What        string `json:"what"`
	Status      string `json:"status"` // "known" | "fixed"
	Commit      string `json:"commit,omitempty"`
	Line        string `json:"line,omitempty"`
}

type Run struct {
	Prop   string
	Tier   string
	Seed   int64
	Level  string
	Replay string // path given with -replay (empty = explore)
	Budget time.Duration

	start time.Time
	evals atomic.Int64

	mu          sync.Mutex
	nontrivial  map[uint64]struct{}
	samples     []any
	maxSamples  int
	violations  int
	violKeys    map[string]bool
	knownHit    map[string]bool
	extra       map[string]any
	assumptions []string
	rule        string
	findings    []finding
	evidence    string
	exhaustive  *bool
	states      atomic.Int64
	transitions atomic.Int64
	traces      atomic.Int64
}

// Start parses the common flags. Extra flags may be registered on flag.CommandLine before calling it.
func Start(prop, level string) *Run {
	r := &Run{Prop: prop, Level: level, start: time.Now(), nontrivial: map[uint64]struct{}{},
		maxSamples: 8, extra: map[string]any{}, violKeys: map[string]bool{}, knownHit: map[string]bool{}}
	tier := flag.String("tier", envOr("VERIF_TIER", "quick"), "quick|thorough")
	replay := flag.String("replay", "", "replay artefact instead of exploring")
	evid := flag.String("evidence", "", "evidence file (default <root>/evidence/<id>.json)")
	budget := flag.Duration("budget", 0, "internal wall-clock budget (0 = tier default)")
	flag.Parse()
	r.Tier = *tier
	if r.Tier != "quick" && r.Tier != "thorough" {
		fmt.Fprintln(os.Stderr, "bad tier", r.Tier)
		os.Exit(2)
	}
	r.Replay = *replay
	r.evidence = *evid
	if r.evidence == "" {
		r.evidence = filepath.Join(Root(), "evidence", prop+".json")
	}
	r.Budget = *budget
	if r.Budget == 0 {
		if r.Tier == "quick" {
			r.Budget = 90 * time.Second
		} else {
			r.Budget = 20 * time.Minute
		}
	}
	if s := os.Getenv("VERIF_SEED"); s != "" {
		r.Seed, _ = strconv.ParseInt(s, 10, 64)
	}
	if free, ok := scratchFree(); ok && free < 1<<30 && os.Getenv("VERIF_SHARD") == "" {
		r.Fatal("scratch file system /dev/shm has only %d MiB free: checks need up to 1 GiB of scratch space", free>>20)
	}
	r.loadFindings()
	// last-resort watchdog: a check that is still running long after its internal budget (code under
	// test that never returns) ends as a harness error (exit 2, no verdict) instead of hanging forever
	limit := 3*r.Budget + 10*time.Minute
	time.AfterFunc(limit, func() {
		fmt.Printf("HARNESS-ERROR property=%s: watchdog: still running after %v (budget %v); no verdict\n", r.Prop, limit, r.Budget)
		os.Exit(2)
	})
	return r
}

func envOr(k, d string) string {
	if v := os.Getenv(k); v != "" {
		return v
	}
	return d
}

func (r *Run) loadFindings() {
	b, err := os.ReadFile(filepath.Join(Root(), "known_findings.json"))
	if err != nil {
		return
	}
	var f struct {
		Findings []finding `json:"findings"`
	}
	if err := json.Unmarshal(b, &f); err != nil {
		fmt.Fprintln(os.Stderr, "known_findings.json:", err)
		os.Exit(2)
	}
	for _, x := range f.Findings {
		if x.Property == r.Prop {
			r.findings = append(r.findings, x)
		}
	}
}

func (r *Run) Quick() bool    { return r.Tier == "quick" }
func (r *Run) Thorough() bool { return r.Tier == "thorough" }

// Expired reports whether the internal budget is used up (caller stops, marks non-exhaustive).
func (r *Run) Expired() bool { return time.Since(r.start) > r.Budget }

func (r *Run) Eval(n int)         { r.evals.Add(int64(n)) }
func (r *Run) Evals() int64       { return r.evals.Load() }
func (r *Run) State(n int)        { r.states.Add(int64(n)) }
func (r *Run) Transition(n int)   { r.transitions.Add(int64(n)) }
func (r *Run) TraceOK(n int)      { r.traces.Add(int64(n)) }
func (r *Run) Rule(s string)      { r.rule = s }
func (r *Run) Assume(s ...string) { r.assumptions = append(r.assumptions, s...) }
func (r *Run) Exhaustive(b bool)  { r.exhaustive = &b }
func (r *Run) Set(k string, v any) {
	r.mu.Lock()
	r.extra[k] = v
	r.mu.Unlock()
}

// Nontrivial records one distinct non-trivial case (by key); duplicates are not counted twice.
func (r *Run) Nontrivial(key string) {
	h := fnv.New64a()
	h.Write([]byte(key))
	k := h.Sum64()
	r.mu.Lock()
	r.nontrivial[k] = struct{}{}
	r.mu.Unlock()
}

// Sample keeps up to maxSamples actual cases for the evidence file.
func (r *Run) Sample(x any) {
	r.mu.Lock()
	if len(r.samples) < r.maxSamples {
		r.samples = append(r.samples, x)
	}
	r.mu.Unlock()
}

func (r *Run) WantSample() bool {
	r.mu.Lock()
	defer r.mu.Unlock()
	return len(r.samples) < r.maxSamples
}

// Violation reports a property violation of class fp (a normalised fingerprint of the failing
// input / call site / history). Returns true if it is a new (unlisted) violation.
func (r *Run) Violation(fp, what string, replay any) bool {
	r.mu.Lock()
	defer r.mu.Unlock()
	for _, f := range r.findings {
		if f.Status == "known" && f.Fingerprint == fp {
			if !r.knownHit[fp] {
				r.knownHit[fp] = true
				fmt.Printf("KNOWN-FINDING: property=%s %s\n", r.Prop, f.What)
			}
			return false
		}
	}
	r.violations++
	if r.violKeys[fp] {
		return true
	}
	r.violKeys[fp] = true
	if len(r.violKeys) > maxPrintedViols {
		return true
	}
	art := map[string]any{"property": r.Prop, "fingerprint": fp, "what": what, "replay": replay}
	b, _ := json.MarshalIndent(art, "", " ")
	sum := sha256.Sum256([]byte(fp))
	dir := filepath.Join(Root(), "replays")
	os.MkdirAll(dir, 0o755)
	p := filepath.Join(dir, r.Prop+"-"+hex.EncodeToString(sum[:6])+".json")
	os.WriteFile(p, b, 0o644)
	fmt.Printf("VIOLATION property=%s replay=%s\n", r.Prop, p)
	fmt.Printf("  class: %s\n  what: %s\n", fp, what)
	return true
}

func (r *Run) Violations() int { r.mu.Lock(); defer r.mu.Unlock(); return r.violations }

// Fatal is a harness error: exit 2, never a violation.
func (r *Run) Fatal(format string, a ...any) {
	fmt.Printf("HARNESS-ERROR property=%s: %s\n", r.Prop, fmt.Sprintf(format, a...))
	os.Exit(2)
}

// LoadReplay decodes the "replay" member of an artefact written by Violation.
func (r *Run) LoadReplay(into any) {
	b, err := os.ReadFile(r.Replay)
	if err != nil {
		r.Fatal("replay: %v", err)
	}
	var art struct {
		Replay json.RawMessage `json:"replay"`
	}
	if err := json.Unmarshal(b, &art); err != nil {
		r.Fatal("replay: %v", err)
	}
	if err := json.Unmarshal(art.Replay, into); err != nil {
		r.Fatal("replay: %v", err)
	}
}

// scratchFree returns the free bytes of the scratch file system every check works on (/dev/shm).
func scratchFree() (uint64, bool) {
	var st syscall.Statfs_t
	if err := syscall.Statfs("/dev/shm", &st); err != nil {
		return 0, false
	}
	return st.Bavail * uint64(st.Bsize), true
}

func (r *Run) Finish() {
	// a scratch file system that ran full makes writes of the code under test fail for reasons that
	// have nothing to do with it: no verdict is given then
	if r.Replay == "" {
		if free, ok := scratchFree(); ok && free < 256<<20 {
			r.Fatal("scratch file system /dev/shm is (nearly) full (%d MiB free): the run cannot be judged", free>>20)
		}
	}
	r.mu.Lock()
	cov := map[string]any{}
	for k, v := range r.extra {
		cov[k] = v
	}
	cov["evaluations"] = r.evals.Load()
	cov["distinct_nontrivial"] = len(r.nontrivial)
	cov["rule"] = r.rule
	if len(r.samples) == 0 {
		r.samples = append(r.samples, "no sample recorded")
	}
	cov["samples"] = r.samples
	if r.Level == ModelChecking || r.states.Load() > 0 {
		cov["states"] = r.states.Load()
		cov["transitions"] = r.transitions.Load()
		cov["traces_validated_against_impl"] = r.traces.Load()
	}
	if r.exhaustive != nil {
		cov["exhaustive"] = *r.exhaustive
	}
	var known []string
	for k := range r.knownHit {
		known = append(known, k)
	}
	sort.Strings(known)
	if len(known) > 0 {
		cov["known_findings_hit"] = known
	}
	out := map[string]any{
		"property_id": r.Prop, "tier": r.Tier, "seed": r.Seed, "level": r.Level,
		"coverage": cov, "assumptions": r.assumptions,
		"wall_s": time.Since(r.start).Seconds(), "violations": r.violations,
	}
	v := r.violations
	r.mu.Unlock()
	if r.Replay == "" {
		b, _ := json.MarshalIndent(out, "", " ")
		os.MkdirAll(filepath.Dir(r.evidence), 0o755)
		if err := os.WriteFile(r.evidence, append(b, '\n'), 0o644); err != nil {
			fmt.Println("HARNESS-ERROR cannot write evidence:", err)
			os.Exit(2)
		}
	}
	fmt.Printf("%s tier=%s evaluations=%d distinct_nontrivial=%d states=%d transitions=%d violations=%d wall=%.1fs\n",
		r.Prop, r.Tier, r.evals.Load(), len(r.nontrivial), r.states.Load(), r.transitions.Load(), v, time.Since(r.start).Seconds())
	if v > 0 {
		os.Exit(1)
	}
	os.Exit(0)
}
