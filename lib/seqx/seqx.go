// Package seqx: explicit-state breadth-first search over the *real* implementation.
//
// A state is identified by a canonical key computed from the real object (plus the reference
// model riding along). Real objects cannot be cloned, so a successor is computed by replaying the
// shortest known path on a fresh instance and applying one more operation. The oracle (Check)
// runs after every transition. Exploration is deterministic: results are merged in frontier order.
package seqx

import (
	"crypto/sha256"
	"fmt"
	"runtime"
	"sync"
	"time"

	"github.com/nspcc-dev/neofs-node/verif/lib/ev"
)

// Sys is one fresh instance of the system under test together with its reference model.
type Sys interface {
	// Apply performs operation op; it returns a short observation (return-value class) used for
	// vacuity accounting, and ok=false if the op is not enabled in this state (no transition).
	Apply(op int) (obs string, ok bool)
	// Key is the canonical digest source of the current state (impl + model).
	Key() string
	// Check evaluates the oracle in the current state; fp=="" means fine.
	Check() (fp, what string)
	Close()
}

type Config struct {
	NumOps   int
	OpName   func(op int) string
	New      func() Sys
	MaxDepth int // 0 = until fixpoint
	Workers  int
	// CheckInit runs the oracle on the initial state too.
	CheckInit bool
	// MaxStates caps the search (0 = none); hitting it makes the run non-exhaustive.
	MaxStates int
}

type Result struct {
	States, Transitions int
	DepthCompleted      int
	Exhaustive          bool // frontier emptied (fixpoint) or only the depth bound cut the search
	Fixpoint            bool
	ObsClasses          int
}

type succ struct {
	op   int
	key  [20]byte
	obs  string
	fp   string
	what string
	ok   bool
}

func hashKey(s string) (k [20]byte) {
	h := sha256.Sum256([]byte(s))
	copy(k[:], h[:20])
	return
}

func (c *Config) names(path []uint8) []string {
	r := make([]string, len(path))
	for i, o := range path {
		r[i] = c.OpName(int(o))
	}
	return r
}

// OpTimeout is the liveness watchdog limit for replaying one path plus one operation.
var OpTimeout = 180 * time.Second

// Replay runs a path (as op names) on a fresh instance and returns the first oracle failure.
func Replay(cfg Config, names []string) (fp, what string, err error) {
	type res struct {
		fp, what string
		err      error
	}
	ch := make(chan res, 1)
	go func() {
		fp, what, err := replay(cfg, names)
		ch <- res{fp, what, err}
	}()
	select {
	case x := <-ch:
		return x.fp, x.what, x.err
	case <-time.After(OpTimeout):
		return "operation-did-not-return", fmt.Sprintf("replaying %v did not finish within %v", names, OpTimeout), nil
	}
}

func replay(cfg Config, names []string) (fp, what string, err error) {
	idx := map[string]int{}
	for i := 0; i < cfg.NumOps; i++ {
		idx[cfg.OpName(i)] = i
	}
	s := cfg.New()
	defer s.Close()
	for _, n := range names {
		op, ok := idx[n]
		if !ok {
			return "", "", fmt.Errorf("unknown op %q", n)
		}
		s.Apply(op)
		if fp, what = s.Check(); fp != "" {
			return fp, what, nil
		}
	}
	return "", "", nil
}

func Run(r *ev.Run, cfg Config) Result {
	if cfg.Workers == 0 {
		cfg.Workers = runtime.GOMAXPROCS(0)
	}
	seen := map[[20]byte]struct{}{}
	obsSet := map[string]struct{}{}
	var res Result
	init := cfg.New()
	seen[hashKey(init.Key())] = struct{}{}
	if cfg.CheckInit {
		if fp, what := init.Check(); fp != "" {
			r.Violation(fp, what, map[string]any{"ops": []string{}})
		}
	}
	init.Close()
	res.States = 1
	r.State(1)
	frontier := [][]uint8{{}}
	depth := 0
	capped := false
	for len(frontier) > 0 && (cfg.MaxDepth == 0 || depth < cfg.MaxDepth) {
		if r.Expired() {
			capped = true
			break
		}
		out := make([][]succ, len(frontier))
		var wg sync.WaitGroup
		var mu sync.Mutex
		next := 0
		expired := false
		for w := 0; w < cfg.Workers; w++ {
			wg.Add(1)
			go func() {
				defer wg.Done()
				for {
					mu.Lock()
					i := next
					next++
					mu.Unlock()
					if i >= len(frontier) {
						return
					}
					if r.Expired() {
						mu.Lock()
						expired = true
						mu.Unlock()
						return
					}
					path := frontier[i]
					ss := make([]succ, 0, cfg.NumOps)
					for op := 0; op < cfg.NumOps; op++ {
						// liveness watchdog: an operation of the real object that does not return at all (a
						// deadlock in the code under test) is reported instead of hanging the check; the limit
						// is orders of magnitude above the milliseconds a replayed path takes
						np := append(append(make([]uint8, 0, len(path)+1), path...), uint8(op))
						wd := time.AfterFunc(OpTimeout, func() {
							r.Violation("operation-did-not-return", fmt.Sprintf("replaying %v on a fresh instance did not finish within %v (last operation %s)", cfg.names(np), OpTimeout, cfg.OpName(op)), map[string]any{"ops": cfg.names(np)})
							r.Finish()
						})
						s := cfg.New()
						for _, o := range path {
							s.Apply(int(o))
						}
						obs, ok := s.Apply(op)
						if !ok {
							s.Close()
							wd.Stop()
							continue
						}
						fp, what := s.Check()
						ss = append(ss, succ{op: op, key: hashKey(s.Key()), obs: obs, fp: fp, what: what, ok: true})
						s.Close()
						wd.Stop()
					}
					out[i] = ss
				}
			}()
		}
		wg.Wait()
		var nf [][]uint8
		for i, ss := range out {
			for _, sc := range ss {
				res.Transitions++
				r.Transition(1)
				r.TraceOK(1)
				r.Eval(1)
				obsSet[cfg.OpName(sc.op)+"→"+sc.obs] = struct{}{}
				np := append(append(make([]uint8, 0, len(frontier[i])+1), frontier[i]...), uint8(sc.op))
				if sc.fp != "" {
					r.Violation(sc.fp, sc.what, map[string]any{"ops": cfg.names(np)})
				}
				if _, dup := seen[sc.key]; dup {
					continue
				}
				seen[sc.key] = struct{}{}
				res.States++
				r.State(1)
				r.Nontrivial(string(sc.key[:]))
				if r.WantSample() && len(np) >= 2 {
					r.Sample(map[string]any{"ops": cfg.names(np), "last_observation": sc.obs})
				}
				nf = append(nf, np)
			}
		}
		if expired {
			capped = true
			break
		}
		depth++
		res.DepthCompleted = depth
		frontier = nf
		if cfg.MaxStates > 0 && res.States >= cfg.MaxStates {
			capped = len(frontier) > 0
			break
		}
	}
	res.Fixpoint = len(frontier) == 0 && !capped
	res.Exhaustive = !capped
	res.ObsClasses = len(obsSet)
	r.Set("depth_completed", res.DepthCompleted)
	r.Set("fixpoint_reached", res.Fixpoint)
	r.Set("distinct_observation_classes", res.ObsClasses)
	r.Set("frontier_left", len(frontier))
	r.Exhaustive(res.Exhaustive)
	return res
}
