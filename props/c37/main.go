// C37: the inner ring approves container changes only when the owner authorised them.
//
// Exhaustive product of container requests (create, createV2, remove, legacy delete, putEACL, setAttribute,
// removeAttribute) x authorisation variants (direct signature; V1 session token; V2 session token, each with
// all combinations of issuer, token signature, verb, container binding, lifetime and request signature) x
// operation specific variants (placement policy, system attributes, eACL table, basic ACL), delivered as raw
// notary requests to a real inner ring server in alphabet-member state.
// Oracle (one-directional, as the property says "only if"): request co-signed => reference predicate holds.
package main

import (
	"fmt"
	"sort"
	"strings"
	"sync"
	"time"

	"github.com/nspcc-dev/neo-go/pkg/crypto/keys"
	cntcli "github.com/nspcc-dev/neofs-node/pkg/morph/client/container"
	"github.com/nspcc-dev/neofs-node/verif/lib/enumx"
	"github.com/nspcc-dev/neofs-node/verif/lib/ev"
	"github.com/nspcc-dev/neofs-node/verif/worlds/irworld"
	sdkclient "github.com/nspcc-dev/neofs-sdk-go/client"
	"github.com/nspcc-dev/neofs-sdk-go/container"
	"github.com/nspcc-dev/neofs-sdk-go/container/acl"
	cid "github.com/nspcc-dev/neofs-sdk-go/container/id"
	"github.com/nspcc-dev/neofs-sdk-go/eacl"
	"github.com/nspcc-dev/neofs-sdk-go/netmap"
	"github.com/nspcc-dev/neofs-sdk-go/session"
	sessionv2 "github.com/nspcc-dev/neofs-sdk-go/session/v2"
)

const (
	epoch   = 10
	nowSec  = 2000 // chain time in seconds (block 2000, 1 s blocks)
	opCount = 7
)

var opNames = []string{"create", "createV2", "remove", "delete", "putEACL", "setAttribute", "removeAttribute"}

// verb of each operation (index into verbNames)
var opVerb = []int{0, 0, 1, 1, 2, 3, 4}
var verbNames = []string{"put", "delete", "setEACL", "setAttribute", "removeAttribute"}
var v1Verbs = []session.ContainerVerb{session.VerbContainerPut, session.VerbContainerDelete, session.VerbContainerSetEACL, session.VerbContainerSetAttribute, session.VerbContainerRemoveAttribute}
var v2Verbs = []sessionv2.Verb{sessionv2.VerbContainerPut, sessionv2.VerbContainerDelete, sessionv2.VerbContainerSetEACL, sessionv2.VerbContainerSetAttribute, sessionv2.VerbContainerRemoveAttribute}

// ---- authorisation menu ----

type auth struct {
	Kind string // direct | v1 | v2
	// direct
	Direct string // owner | owner-key-bad-sig | other-user | owner-key-sig-by-other
	// tokens
	Issuer   string // owner | other
	TokSig   string // ok | forged
	Verb     int    // v1: verb index; v2: 0 = op's verb, 1 = another verb, 2 = both
	Binding  string // v1: unbound | this | other ; v2: this | other | wildcard
	Lifetime string // ok | exp-1 | exp=now | nbf+1 | iat+1
	ReqSig   string // v1: session-key | other-key ; v2: n/a
	Chain    string // v2chain: issuers from the root to the presented token, letters o(wner) s(tranger) t(hird party)
}

func (a auth) String() string {
	if a.Kind == "direct" {
		return "direct:" + a.Direct
	}
	if a.Kind == "v2chain" {
		return fmt.Sprintf("v2chain:issuers=%s,verb=%d", a.Chain, a.Verb)
	}
	return fmt.Sprintf("%s:issuer=%s,toksig=%s,verb=%d,binding=%s,life=%s,reqsig=%s", a.Kind, a.Issuer, a.TokSig, a.Verb, a.Binding, a.Lifetime, a.ReqSig)
}

func authMenu() []auth {
	var m []auth
	for _, d := range []string{"owner", "owner-key-bad-sig", "other-user", "owner-key-sig-by-other"} {
		m = append(m, auth{Kind: "direct", Direct: d})
	}
	lifes := []string{"ok", "exp-1", "exp=now", "nbf+1", "iat+1"}
	for _, is := range []string{"owner", "other"} {
		for _, ts := range []string{"ok", "forged"} {
			for _, lf := range lifes {
				for v := 0; v < 5; v++ {
					for _, b := range []string{"unbound", "this", "other"} {
						for _, rs := range []string{"session-key", "other-key"} {
							m = append(m, auth{Kind: "v1", Issuer: is, TokSig: ts, Verb: v, Binding: b, Lifetime: lf, ReqSig: rs})
						}
					}
				}
				for v := 0; v < 3; v++ {
					for _, b := range []string{"this", "other", "wildcard"} {
						m = append(m, auth{Kind: "v2", Issuer: is, TokSig: ts, Verb: v, Binding: b, Lifetime: lf})
					}
				}
			}
		}
	}
	// V2 delegation chains of 2 and 3 genuinely signed tokens: every placement of {owner, stranger, third party}
	// as root issuer / intermediate issuer(s) / issuer of the presented token; the op's verb or another one;
	// context = this container (wildcard for creation), valid lifetime
	parties := "ost"
	for l := 2; l <= 3; l++ {
		n := 1
		for i := 0; i < l; i++ {
			n *= 3
		}
		for x := 0; x < n; x++ {
			ch := ""
			for i, y := 0, x; i < l; i, y = i+1, y/3 {
				ch += string(parties[y%3])
			}
			for v := 0; v < 2; v++ {
				m = append(m, auth{Kind: "v2chain", Chain: ch, Verb: v, TokSig: "ok", Lifetime: "ok", Binding: "this"})
			}
		}
	}
	return m
}

// ---- operation specific menu ----

type xvar struct {
	Name string
	// put
	Policy string // rep | rep-select | ec | rep+ec | missing-selector | too-many-replicas
	Attr   string // none | NAME | ZONE | LOCK_UNTIL | METAINFO | FOO
	// eacl
	Table string // ok | system-role | other-owners-container
	ACL   string // extendable | final
	// attributes
	AttrName string
}

var xMenus = func() (r [opCount][]xvar) {
	for op := 0; op < opCount; op++ {
		r[op] = buildXMenu(op)
	}
	return
}()

func xMenu(op int) []xvar { return xMenus[op] }

func buildXMenu(op int) []xvar {
	var m []xvar
	switch opNames[op] {
	case "create", "createV2":
		for _, p := range []string{"rep", "rep-select", "ec", "rep+ec", "missing-selector", "too-many-replicas"} {
			for _, a := range []string{"none", "NAME+ZONE", "LOCK_UNTIL", "METAINFO", "FOO"} {
				m = append(m, xvar{Name: p + "/" + a, Policy: p, Attr: a})
			}
		}
	case "putEACL":
		for _, t := range []string{"ok", "system-role", "system-role-second-record"} {
			for _, a := range []string{"extendable", "final"} {
				m = append(m, xvar{Name: t + "/" + a, Table: t, ACL: a})
			}
		}
	case "setAttribute", "removeAttribute":
		for _, n := range []string{"color", "__NEOFS__LOCK_UNTIL", "__NEOFS__FOO"} {
			m = append(m, xvar{Name: n, AttrName: n})
		}
	default:
		m = append(m, xvar{Name: "-"})
	}
	return m
}

type ccase struct {
	Op, Auth, X int
	AllowEC     bool
}

// ---- fixture ----

type fix struct {
	owner, other, sess, subj irworld.User
	ext, final               container.Container // stored containers of owner (extendable / final basic ACL)
	extID, finalID           cid.ID
	foreign                  container.Container // stored container of `other`
	foreignID                cid.ID
}

func newFix(w *irworld.World) *fix {
	f := &fix{owner: irworld.NewUser("owner"), other: irworld.NewUser("other"), sess: irworld.NewUser("session"), subj: irworld.NewUser("subject")}
	f.ext = irworld.Container(f.owner.ID, "ext", "REP 1", acl.PublicRWExtended, "Name", "ext")
	f.final = irworld.Container(f.owner.ID, "final", "REP 1", acl.PublicRW, "Name", "final")
	f.foreign = irworld.Container(f.other.ID, "foreign", "REP 1", acl.PublicRWExtended, "Name", "foreign")
	f.extID, f.finalID, f.foreignID = irworld.CID(f.ext), irworld.CID(f.final), irworld.CID(f.foreign)
	na, _ := irworld.Node("a")
	nb, _ := irworld.Node("b")
	w.Lock(func(t *irworld.Tables) {
		t.Containers[f.extID], t.Containers[f.finalID], t.Containers[f.foreignID] = f.ext, f.final, f.foreign
		nm := new(netmap.NetMap)
		nm.SetNodes([]netmap.NodeInfo{na, nb})
		t.NetMap = nm
		t.Epoch = epoch
	})
	return f
}

func policy(kind string) netmap.PlacementPolicy {
	var p netmap.PlacementPolicy
	dec := func(s string) {
		if err := p.DecodeString(s); err != nil {
			panic(err)
		}
	}
	switch kind {
	case "rep":
		dec("REP 1")
	case "rep-select":
		dec("REP 1 IN X CBF 1 SELECT 1 FROM * AS X")
	case "ec":
		dec("EC 1/1")
	case "rep+ec":
		dec("REP 1 EC 1/1")
	case "missing-selector":
		var rd netmap.ReplicaDescriptor
		rd.SetNumberOfObjects(1)
		rd.SetSelectorName("NOSUCH")
		p.SetReplicas([]netmap.ReplicaDescriptor{rd})
	case "too-many-replicas":
		var rd netmap.ReplicaDescriptor
		rd.SetNumberOfObjects(9)
		p.SetReplicas([]netmap.ReplicaDescriptor{rd})
	}
	return p
}

// request builds the notary request script and the facts the reference predicate needs.
type facts struct {
	owner        irworld.User
	cnrID        cid.ID // container the operation is about (zero for creation)
	signed       []byte
	policyValid  bool
	sysAttrsOK   bool
	eaclOK       bool // basic ACL extendable and no system role
	ambiguous    string
}

func build(w *irworld.World, f *fix, c ccase, am []auth) (script []byte, ft facts) {
	a := am[c.Auth]
	x := xMenu(c.Op)[c.X]
	ft = facts{owner: f.owner, policyValid: true, sysAttrsOK: true, eaclOK: true}
	var newCnr container.Container
	var table []byte
	attrName := x.AttrName
	switch opNames[c.Op] {
	case "create", "createV2":
		attrs := []string{"Name", "fresh"}
		switch x.Attr {
		case "NAME+ZONE":
			attrs = append(attrs, "__NEOFS__NAME", "fresh", "__NEOFS__ZONE", "container")
		case "LOCK_UNTIL":
			attrs = append(attrs, "__NEOFS__LOCK_UNTIL", "4102444800")
		case "METAINFO":
			// permitted by the list, but only when the metadata chain is enabled (it is not in this world)
			attrs = append(attrs, "__NEOFS__METAINFO_CONSISTENCY", "strict")
			ft.sysAttrsOK = false
		case "FOO":
			attrs = append(attrs, "__NEOFS__FOO", "bar")
			ft.sysAttrsOK = false
		}
		newCnr = irworld.Container(f.owner.ID, "new", "REP 1", acl.PublicRWExtended, attrs...)
		newCnr.SetPlacementPolicy(policy(x.Policy))
		ft.policyValid = newCnr.PlacementPolicy().Verify() == nil
		if x.Policy == "missing-selector" || x.Policy == "too-many-replicas" {
			if ft.policyValid {
				panic("fixture: policy " + x.Policy + " is expected to be invalid")
			}
		}
		ft.signed = newCnr.Marshal()
		ft.cnrID = irworld.CID(newCnr)
	case "remove", "delete":
		ft.cnrID = f.extID
		ft.signed = f.extID[:]
	case "putEACL":
		ft.cnrID = f.extID
		if x.ACL == "final" {
			ft.cnrID = f.finalID
			ft.eaclOK = false
		}
		recs := []eacl.Record{eacl.ConstructRecord(eacl.ActionDeny, eacl.OperationPut, []eacl.Target{eacl.NewTargetByRole(eacl.RoleOthers)})}
		sys := eacl.ConstructRecord(eacl.ActionAllow, eacl.OperationGet, []eacl.Target{eacl.NewTargetByRole(eacl.RoleOthers), eacl.NewTargetByRole(eacl.RoleSystem)})
		switch x.Table {
		case "system-role":
			recs = []eacl.Record{sys}
			ft.eaclOK = false
		case "system-role-second-record":
			recs = append(recs, sys)
			ft.eaclOK = false
		}
		table = eacl.NewTableForContainer(ft.cnrID, recs).Marshal()
		ft.signed = table
	case "setAttribute":
		ft.cnrID = f.extID
		ft.signed = sdkclient.GetSignedSetContainerAttributeParameters(sdkclient.SetContainerAttributeParameters{ID: f.extID, Attribute: attrName, Value: "v", ValidUntil: irworld.FarFuture})
	case "removeAttribute":
		ft.cnrID = f.extID
		ft.signed = sdkclient.GetSignedRemoveContainerAttributeParameters(sdkclient.RemoveContainerAttributeParameters{ID: f.extID, Attribute: attrName, ValidUntil: irworld.FarFuture})
	}

	// authorisation material
	var sig, key, tok []byte
	switch a.Kind {
	case "direct":
		switch a.Direct {
		case "owner":
			sig, key = f.owner.SignRFC6979(ft.signed), f.owner.PubBytes()
		case "owner-key-bad-sig":
			sig, key = f.owner.SignRFC6979(ft.signed), f.owner.PubBytes()
			sig[5] ^= 0x40
		case "other-user":
			sig, key = f.other.SignRFC6979(ft.signed), f.other.PubBytes()
		case "owner-key-sig-by-other":
			sig, key = f.other.SignRFC6979(ft.signed), f.owner.PubBytes()
		}
	case "v1":
		issuer := f.owner
		if a.Issuer == "other" {
			issuer = f.other
		}
		var bind *cid.ID
		switch a.Binding {
		case "this":
			id := ft.cnrID
			bind = &id
		case "other":
			id := f.finalID
			if ft.cnrID == f.finalID {
				id = f.extID
			}
			bind = &id
		}
		iat, nbf, exp := uint64(epoch), uint64(epoch), uint64(epoch+5)
		switch a.Lifetime {
		case "exp-1":
			iat, nbf, exp = epoch-3, epoch-3, epoch-1
		case "exp=now":
			exp = epoch
		case "nbf+1":
			nbf = epoch + 1
		case "iat+1":
			iat = epoch + 1
		}
		t := irworld.SessionV1(issuer, f.sess, v1Verbs[a.Verb], bind, iat, nbf, exp, a.TokSig == "forged")
		if a.TokSig == "forged" && a.Issuer == "other" {
			// "forged" always claims the owner as issuer
			t = irworld.SessionV1(f.owner, f.sess, v1Verbs[a.Verb], bind, iat, nbf, exp, true)
		}
		tok = t.Marshal()
		signer := f.sess
		if a.ReqSig == "other-key" {
			signer = f.other
		}
		sig, key = signer.SignRFC6979(ft.signed), f.sess.PubBytes()
	case "v2":
		issuer := f.owner
		if a.Issuer == "other" {
			issuer = f.other
		}
		var verbs []sessionv2.Verb
		ov := opVerb[c.Op]
		another := (ov + 1) % 5
		switch a.Verb {
		case 0:
			verbs = []sessionv2.Verb{v2Verbs[ov]}
		case 1:
			verbs = []sessionv2.Verb{v2Verbs[another]}
		case 2:
			verbs = []sessionv2.Verb{v2Verbs[ov], v2Verbs[another]}
			sort.Slice(verbs, func(i, j int) bool { return verbs[i] < verbs[j] })
		}
		var cnr cid.ID
		switch a.Binding {
		case "this":
			cnr = ft.cnrID
		case "other":
			cnr = f.finalID
			if ft.cnrID == f.finalID {
				cnr = f.extID
			}
		}
		sec := func(s int64) time.Time { return time.Unix(s, 0) }
		iat, nbf, exp := sec(nowSec-10), sec(nowSec-10), sec(nowSec+10)
		switch a.Lifetime {
		case "exp-1":
			exp = sec(nowSec - 1)
		case "exp=now":
			exp = sec(nowSec)
		case "nbf+1":
			nbf = sec(nowSec + 1)
		case "iat+1":
			iat = sec(nowSec + 1)
		}
		forged := a.TokSig == "forged"
		is := issuer
		if forged {
			is = f.owner
		}
		t := irworld.SessionV2(is, f.subj, verbs, cnr, iat, nbf, exp, forged)
		tok = t.Marshal()
		sig, key = f.subj.SignRFC6979(ft.signed), f.subj.PubBytes()
	}
	if a.Kind == "v2chain" {
		third := irworld.NewUser("third")
		var issuers []irworld.User
		for _, ch := range a.Chain {
			issuers = append(issuers, map[rune]irworld.User{'o': f.owner, 's': f.other, 't': third}[ch])
		}
		ov := opVerb[c.Op]
		verbs := []sessionv2.Verb{v2Verbs[ov]}
		if a.Verb == 1 {
			verbs = []sessionv2.Verb{v2Verbs[(ov+1)%5]}
		}
		var cnr cid.ID // wildcard for creation
		if ov != 0 {
			cnr = ft.cnrID
		}
		sec := func(s int64) time.Time { return time.Unix(s, 0) }
		t := irworld.SessionV2Chain(issuers, f.subj, verbs, cnr, sec(nowSec-10), sec(nowSec-10), sec(nowSec+10))
		tok = t.Marshal()
		sig, key = f.subj.SignRFC6979(ft.signed), f.subj.PubBytes()
	}
	if tok == nil {
		tok = []byte{}
	}

	cc := w.Container
	switch opNames[c.Op] {
	case "create":
		script = irworld.Script(irworld.CallSpec{Contract: cc, Method: "create", Args: []any{ft.signed, sig, key, tok, "", "", false}})
	case "createV2":
		script = irworld.Script(irworld.CallSpec{Contract: cc, Method: "createV2", Args: []any{cntcli.VerifContainerToStackItem(newCnr), sig, key, tok}})
	case "remove":
		script = irworld.Script(irworld.CallSpec{Contract: cc, Method: "remove", Args: []any{ft.signed, sig, key, tok}})
	case "delete":
		script = irworld.Script(irworld.CallSpec{Contract: cc, Method: "delete", Args: []any{ft.signed, sig, tok}})
	case "putEACL":
		script = irworld.Script(irworld.CallSpec{Contract: cc, Method: "putEACL", Args: []any{table, sig, key, tok}})
	case "setAttribute":
		script = irworld.Script(irworld.CallSpec{Contract: cc, Method: "setAttribute", Args: []any{ft.cnrID[:], attrName, "v", irworld.FarFuture.Unix(), sig, key, tok}})
	case "removeAttribute":
		script = irworld.Script(irworld.CallSpec{Contract: cc, Method: "removeAttribute", Args: []any{ft.cnrID[:], attrName, irworld.FarFuture.Unix(), sig, key, tok}})
	}
	return
}

// authorised is the reference predicate written from the property text:
// "a direct owner signature, or a valid, unexpired session token from the owner for that verb and container".
// The second result names a reading of the text that is ambiguous for the case (then it is not judged).
func authorised(c ccase, a auth) (bool, string) {
	isPut := opVerb[c.Op] == 0
	lifeOK := a.Lifetime == "ok" || a.Lifetime == "exp=now" // valid while nbf <= now, iat <= now, now <= exp
	switch a.Kind {
	case "direct":
		if opNames[c.Op] == "delete" {
			return false, "" // the legacy method carries no key: a bare signature cannot be attributed to the owner
		}
		return a.Direct == "owner", ""
	case "v1":
		ok := a.Issuer == "owner" && a.TokSig == "ok" && a.Verb == opVerb[c.Op] && lifeOK && a.ReqSig == "session-key"
		switch {
		case a.Binding == "other" && !isPut:
			ok = false
		case a.Binding != "unbound" && isPut && ok:
			return ok, "creation with a token bound to a container id"
		}
		return ok, ""
	case "v2chain":
		// the owner stands behind a delegation chain only if the owner issued its ROOT token
		return a.Chain[0] == 'o' && a.Verb == 0, ""
	case "v2":
		verbOK := a.Verb == 0 || a.Verb == 2
		ok := a.Issuer == "owner" && a.TokSig == "ok" && verbOK && lifeOK
		switch {
		case a.Binding == "other" && !isPut:
			ok = false
		case a.Binding != "wildcard" && isPut && ok:
			return ok, "creation with a token context naming a container id"
		}
		return ok, ""
	}
	return false, ""
}

var (
	clsMu   sync.Mutex
	classes = map[string]int{}
)

func check(r *ev.Run, w *irworld.World, f *fix, am []auth, c ccase, nonce uint32) {
	a := am[c.Auth]
	x := xMenu(c.Op)[c.X]
	script, ft := build(w, f, c, am)
	nr := w.Request(script, irworld.NROpt{Nonce: nonce})
	w.Notary(nr)
	approved := false
	for _, call := range w.TakeCalls() {
		if call.Method == "NotarySignAndInvokeTX" && call.TxHash == nr.MainTransaction.Hash().StringLE() {
			approved = true
		}
	}
	r.Eval(1)
	authOK, amb := authorised(c, a)
	var missing []string
	if !authOK {
		missing = append(missing, "owner-authorisation")
	}
	if !ft.policyValid {
		missing = append(missing, "valid-policy")
	}
	if !ft.sysAttrsOK {
		missing = append(missing, "permitted-system-attributes")
	}
	if !ft.eaclOK {
		missing = append(missing, "eacl-allowed")
	}
	cls := fmt.Sprintf("%s/%s/approved=%v/missing=%s", opNames[c.Op], a.Kind, approved, strings.Join(missing, "+"))
	if amb != "" {
		cls += "/unjudged:" + amb
	}
	clsMu.Lock()
	classes[cls]++
	clsMu.Unlock()
	if approved {
		r.Nontrivial(fmt.Sprintf("approved/%s/%s/%s/ec=%v", opNames[c.Op], a, x.Name, c.AllowEC))
	} else if len(missing) == 1 {
		r.Nontrivial(fmt.Sprintf("refused-for-one-reason/%s/%s/%s/ec=%v", opNames[c.Op], a, x.Name, c.AllowEC))
	}
	if approved && len(missing) > 0 && amb == "" {
		kind := a.Kind
		if a.Kind == "v2chain" && missing[0] == "owner-authorisation" {
			var why []string
			if a.Chain[0] != 'o' {
				why = append(why, fmt.Sprintf("root-issuer-not-owner(len=%d,owner-in-chain=%v)", len(a.Chain), strings.Contains(a.Chain, "o")))
			}
			if a.Verb != 0 {
				why = append(why, "wrong-verb")
			}
			kind += ":" + strings.Join(why, "+")
		} else if a.Kind != "direct" && missing[0] == "owner-authorisation" {
			var why []string
			if a.Issuer != "owner" {
				why = append(why, "issuer-not-owner")
			}
			if a.TokSig != "ok" {
				why = append(why, "token-signature-forged")
			}
			if (a.Kind == "v1" && a.Verb != opVerb[c.Op]) || (a.Kind == "v2" && a.Verb == 1) {
				why = append(why, "wrong-verb")
			}
			if a.Binding == "other" {
				why = append(why, "other-container")
			}
			if a.Lifetime != "ok" && a.Lifetime != "exp=now" {
				why = append(why, "lifetime:"+a.Lifetime)
			}
			if a.Kind == "v1" && a.ReqSig != "session-key" {
				why = append(why, "request-not-signed-by-session-key")
			}
			kind += ":" + strings.Join(why, "+")
		} else if a.Kind == "direct" {
			kind += ":" + a.Direct
		}
		r.Violation(fmt.Sprintf("approved-without/%s/%s/%s", strings.Join(missing, "+"), opNames[c.Op], kind),
			fmt.Sprintf("%s approved although %v is missing: auth=%s variant=%s allowEC=%v", opNames[c.Op], missing, a, x.Name, c.AllowEC), c)
	}
	if approved && r.WantSample() && a.Kind != "direct" {
		r.Sample(map[string]any{"op": opNames[c.Op], "auth": a.String(), "variant": x.Name, "approved": approved})
	}
}

// ---------- bundled payloads: createV2 + putEACL in one request ----------

var (
	bCID    = []string{"new-container", "zero", "foreign-owners-container", "requesters-other-container", "non-existent"}
	bSigner = []string{"requester", "foreign-owner", "stranger"}
	bACL    = []string{"extendable", "final"}
	bTable  = []string{"plain", "system-role"}
	bCreate = []string{"owner-signed", "bad-signature"}
)

// bcase: a createV2 request by the owner of the new container that carries an eACL table as second call.
type bcase struct{ CID, Signer, ACL, Table, Create int }

func (c bcase) String() string {
	return fmt.Sprintf("bundled-eacl: table-cid=%s table-signer=%s new-container-acl=%s table=%s creation=%s", bCID[c.CID], bSigner[c.Signer], bACL[c.ACL], bTable[c.Table], bCreate[c.Create])
}

func checkBundle(r *ev.Run, w *irworld.World, f *fix, c bcase, nonce uint32) {
	basic := acl.PublicRWExtended
	if bACL[c.ACL] == "final" {
		basic = acl.PublicRW
	}
	newCnr := irworld.Container(f.owner.ID, "bundled-new", "REP 1", basic, "Name", "bundled")
	newID := irworld.CID(newCnr)
	cb := newCnr.Marshal()
	csig := f.owner.SignRFC6979(cb)
	if bCreate[c.Create] == "bad-signature" {
		csig[9] ^= 0x10
	}
	var tcid cid.ID
	switch bCID[c.CID] {
	case "new-container":
		tcid = newID
	case "foreign-owners-container":
		tcid = f.foreignID
	case "requesters-other-container":
		tcid = f.extID
	case "non-existent":
		tcid = irworld.CID(irworld.Container(f.other.ID, "never-stored", "REP 1", acl.PublicRWExtended, "Name", "ghost"))
	}
	recs := []eacl.Record{eacl.ConstructRecord(eacl.ActionDeny, eacl.OperationPut, []eacl.Target{eacl.NewTargetByRole(eacl.RoleOthers)})}
	if bTable[c.Table] == "system-role" {
		recs = []eacl.Record{eacl.ConstructRecord(eacl.ActionAllow, eacl.OperationGet, []eacl.Target{eacl.NewTargetByRole(eacl.RoleSystem)})}
	}
	var tb []byte
	if bCID[c.CID] == "zero" {
		tb = eacl.ConstructTable(recs).Marshal()
	} else {
		tb = eacl.NewTableForContainer(tcid, recs).Marshal()
	}
	signer := map[string]irworld.User{"requester": f.owner, "foreign-owner": f.other, "stranger": irworld.NewUser("third")}[bSigner[c.Signer]]
	script := irworld.Script(
		irworld.CallSpec{Contract: w.Container, Method: "createV2", Args: []any{cntcli.VerifContainerToStackItem(newCnr), csig, f.owner.PubBytes(), []byte{}}},
		irworld.CallSpec{Contract: w.Container, Method: "putEACL", Args: []any{tb, signer.SignRFC6979(tb), signer.PubBytes(), []byte{}}})
	nr := w.Request(script, irworld.NROpt{Nonce: nonce})
	w.Notary(nr)
	approved := false
	for _, call := range w.TakeCalls() {
		if call.Method == "NotarySignAndInvokeTX" && call.TxHash == nr.MainTransaction.Hash().StringLE() {
			approved = true
		}
	}
	r.Eval(1)
	// reference: every payload must be authorised by the owner of the container it affects. The table affects the
	// container whose id it carries; the only container the creator of a NEW container may target here is that new one.
	var missing []string
	if bCreate[c.Create] != "owner-signed" {
		missing = append(missing, "creation-not-authorised")
	}
	switch bCID[c.CID] {
	case "new-container":
		if bSigner[c.Signer] != "requester" {
			missing = append(missing, "table-not-signed-by-owner-of-affected-container")
		}
	case "zero":
		missing = append(missing, "table-names-no-container")
	default:
		missing = append(missing, "table-affects-another-container:"+bCID[c.CID])
	}
	if bACL[c.ACL] != "extendable" || bTable[c.Table] != "plain" {
		missing = append(missing, "eacl-not-allowed")
	}
	cls := fmt.Sprintf("bundled-eacl/approved=%v/missing=%s", approved, strings.Join(missing, "+"))
	clsMu.Lock()
	classes[cls]++
	clsMu.Unlock()
	if approved || len(missing) == 1 {
		r.Nontrivial(c.String())
	}
	if approved && len(missing) > 0 {
		r.Violation("approved-bundled-eacl-without/"+strings.Join(missing, "+")+"/signer="+bSigner[c.Signer],
			"createV2 with a bundled eACL table was approved although "+strings.Join(missing, ", ")+": "+c.String(), c)
	}
	if !approved && len(missing) == 0 {
		r.Violation("refused-fully-authorised-bundled-eacl", c.String(), c)
	}
	if approved {
		r.Sample(map[string]any{"bundled": c.String(), "approved": true})
	}
}

func newWorld(label string, allowEC bool) (*irworld.World, *fix, error) {
	w, err := irworld.New(label, irworld.Options{AllowEC: allowEC, NoStart: true}, nil)
	if err != nil {
		return nil, nil, err
	}
	w.Lock(func(t *irworld.Tables) {
		var alpha keys.PublicKeys
		for i := 0; i < len(w.Alphabet); i++ {
			alpha = append(alpha, irworld.AlphabetKey(i).PublicKey())
		}
		alpha[0] = w.NodeKey.PublicKey()
		t.Committee, t.IRList, t.MainAlphabet = alpha, alpha.Copy(), alpha.Copy()
		t.Epoch = epoch
	})
	f := newFix(w)
	if err := w.Start(); err != nil {
		return nil, nil, err
	}
	w.Header(nowSec) // chain time := 2000 s (also fires the epoch timers once; those calls are discarded)
	w.TakeCalls()
	return w, f, nil
}

func main() {
	r := ev.Start("C37", ev.Exploration)
	am := authMenu()
	if r.Replay != "" {
		var raw map[string]any
		r.LoadReplay(&raw)
		if _, ok := raw["Signer"]; ok {
			var c bcase
			r.LoadReplay(&c)
			w, f, err := newWorld("replay", false)
			if err != nil {
				r.Fatal("%v", err)
			}
			checkBundle(r, w, f, c, 1)
			fmt.Println("replayed", c)
			irworld.CloseAll()
			r.Finish()
		}
		var c ccase
		r.LoadReplay(&c)
		w, f, err := newWorld("replay", c.AllowEC)
		if err != nil {
			r.Fatal("%v", err)
		}
		check(r, w, f, am, c, 1)
		fmt.Printf("replayed %s auth=%s variant=%s\n", opNames[c.Op], am[c.Auth], xMenu(c.Op)[c.X].Name)
		irworld.CloseAll()
	r.Finish()
	}
	var cases []ccase
	for op := 0; op < opCount; op++ {
		xs := xMenu(op)
		for ai := range am {
			for xi := range xs {
				cases = append(cases, ccase{op, ai, xi, false})
				if opVerb[op] == 0 && (xs[xi].Policy == "ec" || xs[xi].Policy == "rep+ec") {
					cases = append(cases, ccase{op, ai, xi, true})
				}
			}
		}
	}
	const shards = 32
	exhaustive := true
	enumx.Parallel(shards, func(s int) {
		ws := map[bool]*irworld.World{}
		fs := map[bool]*fix{}
		var nonce uint32
		for i := s; i < len(cases); i += shards {
			if r.Expired() {
				exhaustive = false
				break
			}
			c := cases[i]
			if ws[c.AllowEC] == nil {
				w, f, err := newWorld(fmt.Sprintf("c37/%d/%v", s, c.AllowEC), c.AllowEC)
				if err != nil {
					r.Fatal("world: %v", err)
				}
				ws[c.AllowEC], fs[c.AllowEC] = w, f
			}
			nonce++
			check(r, ws[c.AllowEC], fs[c.AllowEC], am, c, nonce)
		}
		for _, w := range ws {
			w.Close()
		}
	})
	// bundled secondary payload
	{
		w, f, err := newWorld("c37/bundle", false)
		if err != nil {
			r.Fatal("world: %v", err)
		}
		n := uint32(0)
		enumx.Product([]int{len(bCID), len(bSigner), len(bACL), len(bTable), len(bCreate)}, func(i []int) bool {
			n++
			checkBundle(r, w, f, bcase{i[0], i[1], i[2], i[3], i[4]}, n)
			return true
		})
		w.Close()
		r.Set("bundled_eacl_cases", int(n))
		if classes["bundled-eacl/approved=true/missing="] == 0 {
			r.Fatal("vacuous: the fully authorised createV2+putEACL bundle was not approved")
		}
	}
	var cl []string
	approvedClasses := 0
	for k, n := range classes {
		cl = append(cl, fmt.Sprintf("%s x%d", k, n))
		if strings.Contains(k, "approved=true") {
			approvedClasses++
		}
	}
	sort.Strings(cl)
	r.Set("outcome_classes", len(cl))
	r.Set("outcome_class_list", cl)
	r.Set("auth_variants", len(am))
	r.Set("cases", len(cases))
	if approvedClasses < opCount {
		r.Fatal("vacuous: only %d approved classes", approvedClasses)
	}
	r.Rule("cases = operation{create, createV2, remove, legacy delete, putEACL, setAttribute, removeAttribute} x authorisation{4 direct-signature variants; V1 token: issuer{owner,other} x token signature{ok,forged} x verb{5} x binding{unbound,this,other} x lifetime{ok, exp=e-1, exp=e, nbf=e+1, iat=e+1} x request signature{session key, other key}; V2 token: issuer x signature x verbs{the op's, another, both} x context container{this, other, wildcard} x lifetime (seconds around chain time); V2 delegation chains of 2 and 3 genuinely signed tokens: all 9+27 placements of {owner, stranger, third party} as root/intermediate/presented-token issuer x verb{the op's, another}} x operation variant{create: 6 policies x 5 attribute sets (x allowEC for EC policies); putEACL: 3 tables x 2 basic ACLs; attributes: 3 names}; non-trivial = approved case or case refused with exactly one missing condition. Bundled payloads: createV2 by the new container's owner carrying an eACL table as second call x table container id{the new container, zero, a stored container of another owner, another stored container of the requester, non-existent} x table signer{requester, the foreign owner, stranger} x new container basic ACL{extendable, final} x table{plain, system role} x creation signature{genuine, corrupted}")
	r.Exhaustive(exhaustive)
	r.Assume("bundled eACL: the table affects the container whose id it carries; a creation request may only carry a table for the container being created, signed by its owner (judged in both directions for the fully authorised bundle)",
		"owners and token issuers are ECDSA users (N3 contract-account witnesses are never confirmed by the modelled chain)",
		"oracle is one-directional (approved => authorised, valid policy, permitted system attributes, eACL allowed), as the property states 'only if'",
		"'only permitted system attributes may be present' is applied to the created container; names given to setAttribute/removeAttribute are enumerated but only authorisation is judged for them",
		"creation with a token bound to / naming a container id is executed but not judged (the text does not say what 'that container' is before creation)",
		"chain time 2000 s, epoch 10; requests' ValidUntil is far in the future")
	irworld.CloseAll()
	r.Finish()
}
