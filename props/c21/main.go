// C21: erasure coding restores the payload from any sufficient subset of parts.
//
// Part A (direct, internal/ec): every rule d/p in the tier's range x every payload length of the
// boundary set x 2 contents: Encode, then for EVERY erasure set E with |E| <= p: Decode, DecodeIndexes
// for every non-empty requested set R subset of E, DecodeRange for every index interval; plus every
// erasure set of size p+1 (must be refused, never answered with wrong bytes).
// Part B (multi-rule): the real putsvc.(*distributedTarget).modifyECParentObject (reached through an
// injected wrapper) with every rule sequence of length 1..3 (thorough 1..4) over a rule menu, payload
// lengths around the pooled buffer capacity, several deterministic pool states (spare capacity, dirty
// bytes) and reader shapes exactly as the SDK slicer passes them (io.MultiReader over bytes.Reader).
// Part C: buffer handed back to the pool by Close (first part of first rule) is reused by a next object.
//
// Oracle (from the property text): equal part lengths; announced hashes = SHA-256(part); any >= d parts
// decode to the original; partial reconstruction restores the requested parts byte-exactly and leaves
// present parts untouched; after all rules are encoded every rule's parts still decode to the original
// and still match their announced hashes.
package main

import (
	"bytes"
	"crypto/sha256"
	"encoding/hex"
	"fmt"
	"io"
	"math/bits"
	"sort"
	"strings"
	"sync"
	"sync/atomic"

	iec "github.com/nspcc-dev/neofs-node/internal/ec"
	putsvc "github.com/nspcc-dev/neofs-node/pkg/services/object/put"
	"github.com/nspcc-dev/neofs-node/verif/lib/enumx"
	"github.com/nspcc-dev/neofs-node/verif/lib/ev"
	"github.com/nspcc-dev/neofs-sdk-go/object"
)

type caseA struct {
	D, P    int
	Len     int
	Content int
}

type caseB struct {
	Rules   [][2]int // d,p
	Len     int
	Content int
	Pool    int   // pool variant
	Cuts    []int // payload buffer boundaries given to io.MultiReader
	PrevLen int   // part C: length of the previous object whose first part is reused (-1 = none)
}

type replay struct {
	A *caseA `json:",omitempty"`
	B *caseB `json:",omitempty"`
}

var r *ev.Run

var classes sync.Map

func class(s string) { classes.Store(s, true) }

func gen(n, content int) []byte {
	b := make([]byte, n) // cap == len, as modifyECParentObject guarantees for the EC library
	for i := range b {
		switch content {
		case 0:
			b[i] = byte(1 + (i*31+7)%251) // no zero bytes: padding is distinguishable
		default:
			// zero-heavy content with a zero tail: payload zeros vs alignment zeros
			if i%3 == 0 && i < n-2 {
				b[i] = 0xFF
			}
		}
	}
	return b
}

func clone2(p [][]byte) [][]byte {
	c := make([][]byte, len(p))
	for i := range p {
		if p[i] != nil {
			c[i] = bytes.Clone(p[i])
		}
	}
	return c
}

func erase(snapshot [][]byte, mask uint64) [][]byte {
	c := clone2(snapshot)
	for _, i := range enumx.Bits(mask) {
		c[i] = nil
	}
	return c
}

func eclass(mask uint64, d int) string {
	dm := mask & (1<<uint(d) - 1)
	pm := mask >> uint(d)
	switch {
	case mask == 0:
		return "none"
	case pm == 0:
		return "data-only"
	case dm == 0:
		return "parity-only"
	}
	return "data+parity"
}

func lenClass(l, d int) string {
	switch {
	case l == 0:
		return "len=0"
	case l < d:
		return "len<d"
	case l%d == 0:
		return "len%d=0"
	}
	return "len%d!=0"
}

func shaHex(b []byte) string { s := sha256.Sum256(b); return hex.EncodeToString(s[:]) }

// checkParts: structural checks on one rule's encoding. Returns false on violation.
func checkParts(where string, rule iec.Rule, orig []byte, parts [][]byte, hashes []string, rp any) bool {
	d, p := int(rule.DataPartNum), int(rule.ParityPartNum)
	lc := lenClass(len(orig), d)
	if len(parts) != d+p {
		r.Violation(where+":wrong-part-count:"+lc, fmt.Sprintf("rule %s len %d: %d parts", rule, len(orig), len(parts)), rp)
		return false
	}
	if len(hashes) != d+p {
		r.Violation(where+":wrong-hash-count:"+lc, fmt.Sprintf("rule %s len %d: %d hashes", rule, len(orig), len(hashes)), rp)
		return false
	}
	for i := range parts {
		if len(parts[i]) != len(parts[0]) {
			r.Violation(where+":unequal-part-lengths:"+lc, fmt.Sprintf("rule %s len %d: part %d has %d bytes, part 0 has %d", rule, len(orig), i, len(parts[i]), len(parts[0])), rp)
			return false
		}
	}
	for i := range parts {
		if hashes[i] != shaHex(parts[i]) {
			r.Violation(where+":announced-hash-mismatch:"+lc, fmt.Sprintf("rule %s len %d: hash of part %d announced %s, part hashes to %s", rule, len(orig), i, hashes[i], shaHex(parts[i])), rp)
			return false
		}
	}
	if len(parts[0])*d < len(orig) {
		r.Violation(where+":data-parts-shorter-than-payload:"+lc, fmt.Sprintf("rule %s len %d: part len %d", rule, len(orig), len(parts[0])), rp)
		return false
	}
	if got := iec.ConcatDataParts(rule, uint64(len(orig)), clone2(parts)); !bytes.Equal(got, orig) {
		r.Violation(where+":data-parts-do-not-concat-to-payload:"+lc, fmt.Sprintf("rule %s len %d", rule, len(orig)), rp)
		return false
	}
	return true
}

// decodeAll: every erasure set of size <= maxErase on a snapshot of parts; full Decode only unless partial.
func decodeAll(where string, rule iec.Rule, orig []byte, snapshot [][]byte, partial bool, key string, rp any) {
	// partial == false (multi-rule part): parts were already compared byte-for-byte with a private encoding, so only
	// the no-erasure and every single-erasure decode are run (the full erasure enumeration is part A's job)
	d, p := int(rule.DataPartNum), int(rule.ParityPartNum)
	n := d + p
	lc := lenClass(len(orig), d)
	if len(orig) == 0 {
		// documented: all parts are nil; readers never decode an empty parent (get service returns on PayloadSize()==0)
		class("empty-payload")
		return
	}
	same := func(a, b []byte) bool { return len(a) == len(b) && bytes.Equal(a, b) }
	for mask := uint64(0); mask < 1<<uint(n); mask++ {
		k := bits.OnesCount64(mask)
		if k > p+1 || (!partial && k > 1) {
			continue
		}
		ec := eclass(mask, d)
		if k == p+1 {
			// fewer than d parts: must be refused
			in := erase(snapshot, mask)
			got, err := iec.Decode(rule, uint64(len(orig)), in)
			r.Eval(1)
			if err == nil {
				what := "wrong bytes"
				if bytes.Equal(got, orig) {
					what = "the payload (impossible information-theoretically unless parts are redundant)"
					// d parts of data all present -> cannot happen since k=p+1 erased leaves d-1 parts
				}
				r.Violation(where+":decode-accepts-fewer-than-d-parts:"+lc, fmt.Sprintf("rule %s len %d erased %v: Decode returned %s without error", rule, len(orig), enumx.Bits(mask), what), rp)
				return
			}
			class("refused-too-few-parts")
			continue
		}
		in := erase(snapshot, mask)
		got, err := iec.Decode(rule, uint64(len(orig)), in)
		r.Eval(1)
		if err != nil {
			r.Violation(where+":decode-error:"+ec+":"+lc, fmt.Sprintf("rule %s len %d erased %v: %v", rule, len(orig), enumx.Bits(mask), err), rp)
			return
		}
		if !bytes.Equal(got, orig) {
			r.Violation(where+":decode-wrong-payload:"+ec+":"+lc, fmt.Sprintf("rule %s len %d erased %v: got %x want %x", rule, len(orig), enumx.Bits(mask), trunc(got), trunc(orig)), rp)
			return
		}
		for i := range in {
			if mask&(1<<uint(i)) == 0 && !same(in[i], snapshot[i]) {
				r.Violation(where+":decode-modified-present-part:"+ec+":"+lc, fmt.Sprintf("rule %s len %d erased %v: present part %d changed", rule, len(orig), enumx.Bits(mask), i), rp)
				return
			}
		}
		class("decode:" + ec + ":" + lc)
		if k > 0 && partial {
			r.Nontrivial(fmt.Sprintf("%s|%s|%x", where, key, mask))
		}
		if !partial {
			continue
		}
		// partial reconstruction; requested sets
		verify := func(fn string, in [][]byte, req uint64, err error) bool {
			r.Eval(1)
			rc := "req-subset-of-erased"
			if req&^mask != 0 {
				rc = "req-includes-present"
			}
			if err != nil {
				r.Violation(where+":"+fn+"-error:"+ec+":"+rc+":"+lc, fmt.Sprintf("rule %s len %d erased %v requested %v: %v", rule, len(orig), enumx.Bits(mask), enumx.Bits(req), err), rp)
				return false
			}
			for i := range in {
				bit := uint64(1) << uint(i)
				switch {
				case req&bit != 0:
					if !same(in[i], snapshot[i]) {
						r.Violation(where+":"+fn+"-requested-part-wrong:"+ec+":"+rc+":"+lc, fmt.Sprintf("rule %s len %d erased %v requested %v: part %d = %x want %x", rule, len(orig), enumx.Bits(mask), enumx.Bits(req), i, trunc(in[i]), trunc(snapshot[i])), rp)
						return false
					}
				case mask&bit == 0:
					if !same(in[i], snapshot[i]) {
						r.Violation(where+":"+fn+"-modified-present-part:"+ec+":"+lc, fmt.Sprintf("rule %s len %d erased %v requested %v: present part %d changed", rule, len(orig), enumx.Bits(mask), enumx.Bits(req), i), rp)
						return false
					}
				default: // erased, not requested: absent or exact, never garbage
					if len(in[i]) != 0 {
						if !same(in[i], snapshot[i]) {
							r.Violation(where+":"+fn+"-unrequested-part-garbage:"+ec+":"+lc, fmt.Sprintf("rule %s len %d erased %v requested %v: part %d filled with wrong bytes", rule, len(orig), enumx.Bits(mask), enumx.Bits(req), i), rp)
							return false
						}
						class(fn + ":unrequested-erased-part-also-restored")
					} else {
						class(fn + ":unrequested-erased-part-left-absent")
					}
				}
			}
			class(fn + ":" + ec + ":" + rc)
			return true
		}
		// DecodeIndexes: every non-empty R subset of E (policer: missingIdx)
		for req := mask; req > 0; req = (req - 1) & mask {
			in := erase(snapshot, mask)
			err := iec.DecodeIndexes(rule, in, enumx.Bits(req))
			if !verify("decodeindexes", in, req, err) {
				return
			}
		}
		// DecodeRange: every interval [from,to] of part indexes (get service: data part interval, failed part inside)
		for from := 0; from < n; from++ {
			for to := from; to < n; to++ {
				req := (uint64(1)<<uint(to+1) - 1) &^ (uint64(1)<<uint(from) - 1)
				in := erase(snapshot, mask)
				err := iec.DecodeRange(rule, from, to, in)
				if !verify("decoderange", in, req, err) {
					return
				}
			}
		}
	}
}

func trunc(b []byte) []byte {
	if len(b) > 40 {
		return b[:40]
	}
	return b
}

func checkA(c caseA) {
	rule := iec.Rule{DataPartNum: uint8(c.D), ParityPartNum: uint8(c.P)}
	orig := gen(c.Len, c.Content)
	data := bytes.Clone(orig)
	data = data[:len(data):len(data)]
	rp := replay{A: &c}
	parts, hashes, err := iec.Encode(rule, data)
	r.Eval(1)
	lc := lenClass(c.Len, c.D)
	if err != nil {
		r.Violation("A:encode-error:"+lc, fmt.Sprintf("%+v: %v", c, err), rp)
		return
	}
	if !bytes.Equal(data, orig) {
		r.Violation("A:encode-modified-input:"+lc, fmt.Sprintf("%+v", c), rp)
		return
	}
	if !checkParts("A", rule, orig, parts, hashes, rp) {
		return
	}
	class("encode:" + lc)
	if r.WantSample() && c.Len == 5 && c.D == 3 && c.P == 2 {
		r.Sample(map[string]any{"case": c, "part_len": len(parts[0]), "hashes": hashes})
	}
	decodeAll("A", rule, orig, clone2(parts), true, fmt.Sprintf("%d/%d|%d|%d", c.D, c.P, c.Len, c.Content), rp)
}

var poolNames = []string{"default-1024-clean", "exact-cap-dirty", "cap=len+1-dirty", "cap=2len+64-dirty", "cap=len-1-dirty", "reuse-prev-first-part"}

func checkB(c caseB, mu *sync.Mutex) {
	rules := make([]iec.Rule, len(c.Rules))
	for i, x := range c.Rules {
		rules[i] = iec.Rule{DataPartNum: uint8(x[0]), ParityPartNum: uint8(x[1])}
	}
	rp := replay{B: &c}
	orig := gen(c.Len, c.Content)
	src := bytes.Clone(orig)
	var readers []io.Reader
	prev := 0
	for _, cut := range append(append([]int{}, c.Cuts...), c.Len) {
		readers = append(readers, bytes.NewReader(src[prev:cut]))
		prev = cut
	}
	var hdr object.Object
	hdr.SetPayloadSize(uint64(c.Len))
	hdr.SetAttributes(object.NewAttribute("k", "v"))

	dirty := func(n int) []byte {
		if n < 0 {
			n = 0
		}
		b := make([]byte, n)
		for i := range b {
			b[i] = 0xAA
		}
		return b[:0]
	}
	mu.Lock()
	var prevParts [][][]byte
	var prevOrig []byte
	if c.PrevLen >= 0 {
		// part C: previous object through the same code, then the buffer Close() gives back to the pool
		prevOrig = gen(c.PrevLen, 1-c.Content)
		var ph object.Object
		ph.SetPayloadSize(uint64(c.PrevLen))
		putsvc.VerifSetPayloadPool(func() []byte { return make([]byte, 0, 1024) })
		var err error
		_, prevParts, err = putsvc.VerifEncodeECParent(rules, &ph, io.MultiReader(bytes.NewReader(bytes.Clone(prevOrig))))
		if err != nil {
			mu.Unlock()
			r.Violation("C:previous-object-encode-error", fmt.Sprintf("%+v: %v", c, err), rp)
			return
		}
	}
	first := true
	putsvc.VerifSetPayloadPool(func() []byte {
		if !first {
			return make([]byte, 0, 1024)
		}
		first = false
		switch c.Pool {
		case 0:
			return make([]byte, 0, 1024)
		case 1:
			return dirty(c.Len)
		case 2:
			return dirty(c.Len + 1)
		case 3:
			return dirty(2*c.Len + 64)
		case 4:
			return dirty(c.Len - 1)
		default:
			if len(prevParts) > 0 && len(prevParts[0]) > 0 && prevParts[0][0] != nil {
				return prevParts[0][0][:0] // what distributedTarget.Close hands to putPayload
			}
			return make([]byte, 0, 1024)
		}
	})
	payload, parts, err := putsvc.VerifEncodeECParent(rules, &hdr, io.MultiReader(readers...))
	mu.Unlock()
	r.Eval(1)
	where := "B"
	if c.PrevLen >= 0 {
		where = "C"
	}
	if err != nil {
		r.Violation(where+":modify-error", fmt.Sprintf("%+v: %v", c, err), rp)
		return
	}
	if !bytes.Equal(payload, orig) {
		r.Violation(where+":kept-payload-differs", fmt.Sprintf("%+v: kept %x want %x", c, trunc(payload), trunc(orig)), rp)
		return
	}
	if len(parts) != len(rules) {
		r.Violation(where+":wrong-rule-count", fmt.Sprintf("%+v: %d part sets", c, len(parts)), rp)
		return
	}
	var announced []string
	nAttr := 0
	for _, a := range hdr.Attributes() {
		if a.Key() == iec.AttributePartsHashes {
			nAttr++
			announced = strings.Split(a.Value(), ",")
		}
	}
	total := 0
	for _, x := range rules {
		total += int(x.DataPartNum) + int(x.ParityPartNum)
	}
	if nAttr != 1 || len(announced) != total {
		r.Violation(where+":announced-hash-list-malformed", fmt.Sprintf("%+v: %d attributes, %d hashes, %d parts", c, nAttr, len(announced), total), rp)
		return
	}
	off := 0
	for i, rule := range rules {
		n := int(rule.DataPartNum) + int(rule.ParityPartNum)
		pos := "rule#first"
		if i > 0 && i == len(rules)-1 {
			pos = "rule#last"
		} else if i > 0 {
			pos = "rule#middle"
		}
		w := where + ":" + pos
		if !checkParts(w, rule, orig, parts[i], announced[off:off+n], rp) {
			return
		}
		off += n
		// differential: a fresh encoding of a private copy gives the same parts
		fresh, _, err := iec.Encode(rule, bytes.Clone(orig)[:len(orig):len(orig)])
		if err != nil {
			r.Violation(w+":fresh-encode-error", fmt.Sprintf("%+v: %v", c, err), rp)
			return
		}
		for j := range fresh {
			if !bytes.Equal(fresh[j], parts[i][j]) {
				r.Violation(w+":part-differs-from-private-encoding", fmt.Sprintf("%+v: rule %d (%s) part %d = %x, private encoding gives %x", c, i, rule, j, trunc(parts[i][j]), trunc(fresh[j])), rp)
				return
			}
		}
		decodeAll(w, rule, orig, clone2(parts[i]), false, fmt.Sprintf("%v|%d|%d|%d|%v|%d|%d", c.Rules, c.Len, c.Content, c.Pool, c.Cuts, c.PrevLen, i), rp)
	}
	// shared-memory classes seen (informative): do any two rules' data parts alias the same buffer?
	if len(rules) > 1 && c.Len > 0 {
		class("multi-rule:pool=" + poolNames[c.Pool])
		r.Nontrivial(fmt.Sprintf("B|%v|%d|%d|%d|%v|%d", c.Rules, c.Len, c.Content, c.Pool, c.Cuts, c.PrevLen))
	}
	if c.PrevLen >= 0 {
		// the previous object's parts are dead after Close; nothing to check on them, but the
		// new object must not depend on what the reused buffer contained (checked above).
		_ = prevOrig
	}
	if r.WantSample() && len(rules) == 3 && c.Len == 10 && c.Pool == 3 {
		r.Sample(map[string]any{"case": c, "announced": announced})
	}
}

func main() {
	r = ev.Start("C21", ev.Exploration)
	var mu sync.Mutex
	if r.Replay != "" {
		var c replay
		r.LoadReplay(&c)
		if c.A != nil {
			checkA(*c.A)
		}
		if c.B != nil {
			checkB(*c.B, &mu)
		}
		r.Finish()
	}
	maxD, maxP := 6, 3
	if r.Thorough() {
		maxD, maxP = 8, 4
	}
	var notExhaustive atomic.Bool

	// ---- Part A
	var as []caseA
	for d := 1; d <= maxD; d++ {
		for p := 0; p <= maxP; p++ {
			lens := []int{}
			for l := 0; l <= 4*d+3; l++ {
				lens = append(lens, l)
			}
			lens = append(lens, 255, 256, 257, 4096)
			if r.Thorough() {
				lens = append(lens, 1023, 1024, 1025, 4095, 4097)
			}
			for _, l := range lens {
				for c := 0; c < 2; c++ {
					as = append(as, caseA{d, p, l, c})
				}
			}
		}
	}
	enumx.Parallel(len(as), func(i int) {
		if r.Expired() {
			notExhaustive.Store(true)
			return
		}
		checkA(as[i])
	})

	// ---- Part B / C
	menu := [][2]int{{2, 1}, {3, 1}, {2, 2}, {4, 2}, {1, 1}}
	maxSeq := 3
	baseMenu := len(menu)
	if r.Thorough() {
		menu = append(menu, [2]int{6, 3}, [2]int{5, 1}, [2]int{8, 4})
		maxSeq = 4 // policy allows at most 4 EC rules; 4-sequences only over the 5-rule base menu
	}
	var seqs [][][2]int
	for n := 1; n <= maxSeq; n++ {
		k := len(menu)
		if n == 4 {
			k = baseMenu
		}
		enumx.Seqs(k, n, func(s []int) bool {
			q := make([][2]int, n)
			for i, x := range s {
				q[i] = menu[x]
			}
			seqs = append(seqs, q)
			return true
		})
	}
	var lensB []int
	for l := 0; l <= 27; l++ {
		lensB = append(lensB, l)
	}
	lensB = append(lensB, 255, 256, 257, 1023, 1024, 1025, 4096)
	var bs []caseB
	for _, s := range seqs {
		for _, l := range lensB {
			cutsets := [][]int{nil}
			if l >= 2 && l <= 12 && len(s) <= 2 {
				for c := 1; c < l; c++ {
					cutsets = append(cutsets, []int{c})
				}
			} else if l >= 2 {
				cutsets = append(cutsets, []int{l / 2}, []int{1, l - 1})
			}
			for pool := 0; pool <= 4; pool++ {
				for _, cuts := range cutsets {
					if len(cuts) > 0 && pool != 0 && pool != 3 {
						continue // reader shape x pool state: full product only for the two extreme pool states
					}
					bs = append(bs, caseB{Rules: s, Len: l, Content: (l + pool) % 2, Pool: pool, Cuts: cuts, PrevLen: -1})
				}
			}
			if len(s) <= 3 {
				for _, pl := range []int{1, 7, 12, 27, 256, 2048} {
					bs = append(bs, caseB{Rules: s, Len: l, Content: l % 2, Pool: 5, PrevLen: pl})
				}
			}
		}
	}
	enumx.Parallel(len(bs), func(i int) {
		if r.Expired() {
			notExhaustive.Store(true)
			return
		}
		checkB(bs[i], &mu)
	})

	n := 0
	var names []string
	classes.Range(func(k, _ any) bool { n++; names = append(names, k.(string)); return true })
	sort.Strings(names)
	r.Set("outcome_classes", n)
	r.Set("outcome_class_names", names)
	r.Set("cases_direct", len(as))
	r.Set("cases_multi_rule", len(bs))
	r.Set("rule_sequences", len(seqs))
	r.Rule(fmt.Sprintf("A: rules d 1..%d x p 0..%d, lengths 0..4d+3 + {255,256,257,4096}(+5 thorough), 2 contents; per case every erasure mask of size <= p+1 (size p+1 must be refused), every non-empty requested subset of the erased set for DecodeIndexes, every index interval for DecodeRange. "+
		"B: every rule sequence of length 1..%d (length 4: over the first 5 rules) over a %d-rule menu through the real modifyECParentObject, each rule's parts compared with a private encoding and decoded under every single erasure, x %d lengths x 5 deterministic pool states x reader cut sets; C: reuse of the buffer Close() returns to the pool (6 previous lengths). "+
		"one evaluation = one Encode/Decode/DecodeIndexes/DecodeRange/modifyECParentObject call checked; non-trivial = distinct (case, non-empty erasure mask) that decoded, or multi-rule case with non-empty payload", maxD, maxP, maxSeq, len(menu), len(lensB)))
	r.Exhaustive(!notExhaustive.Load())
	r.Assume("p=0 rules are outside what netmap policy verification admits (parity >= 1); they are included because internal/ec accepts them",
		"empty payload: Encode documents all-nil parts; Decode is not required to work on them (the get service never decodes an empty parent)",
		"modifyECParentObject is fed the reader shape the SDK slicer uses (io.MultiReader over bytes.Reader -> WriterTo path, bytes.Buffer never grows); a reader without WriteTo is not a production input",
		"sync.Pool is replaced per call by an empty pool with a deterministic New (pool scheduling nondeterminism is owned by the harness)",
		"payload contents: 2 fixed patterns; lengths above 4096 (thorough 4097) not explored")
	r.Finish()
}
