// C07: a live lock protects its object from tombstones, expiry and garbage collection.
// (A) every history of <=N operations over puts of the object (expiring at epoch 1), two locks
//
//	with different expirations, a tombstone of the object, a tombstone of a lock, a garbage mark
//	of a lock, a forced garbage mark of the object, epoch advances and GC passes, on a real shard
//	(metabase + blobstor + GC with the engine's expired-objects handling) under the controlled
//	scheduler; oracle after every operation.
//
// (B) lock and tombstone arriving concurrently with a GC pass: all schedules within the bound;
//
//	the outcome must be one of the sequential ones (never "locked and removed").
package main

import (
	"fmt"
	"os"
	"strings"

	"github.com/nspcc-dev/neofs-node/pkg/local_object_storage/engine"
	meta "github.com/nspcc-dev/neofs-node/pkg/local_object_storage/metabase"
	"github.com/nspcc-dev/neofs-node/pkg/local_object_storage/shard"
	"github.com/nspcc-dev/neofs-node/verif/lib/ev"
	"github.com/nspcc-dev/neofs-node/verif/lib/sched"
	ss "github.com/nspcc-dev/neofs-node/verif/worlds/schedshard"
	oid "github.com/nspcc-dev/neofs-sdk-go/object/id"
	"go.uber.org/zap"
)

// engineBuild attaches the shard to a real StorageEngine: expired objects found by the shard's GC
// are handled by the engine's own processExpiredObjects (lock check across shards, then removal).
func engineBuild(opts []shard.Option) (*shard.Shard, func(), error) {
	e := engine.New(engine.WithLogger(zap.NewNop()))
	if _, err := e.AddShard(opts...); err != nil {
		return nil, nil, err
	}
	if err := e.Init(); err != nil {
		return nil, nil, err
	}
	return e.VerifC47Shards()[0], func() { e.Close() }, nil
}

const (
	R, L1, L2, T1, TL  = 0, 1, 2, 3, 4
	expR, expL1, expL2 = 1, 2, 4
)

type lockM struct {
	accepted bool
	exp      uint64
	marked   bool // marked as garbage / tombstoned itself (then it is not live)
}

type model struct {
	epoch     uint64
	stored    bool
	locks     [2]lockM
	tomb      bool // tombstone of R accepted
	forced    bool // forced garbage mark of R accepted
	Violation string
	What      string
	Trace     []string
}

func (m *model) anyLive() bool {
	for _, l := range m.locks {
		if l.accepted && !l.marked && m.epoch <= l.exp {
			return true
		}
	}
	return false
}

func (m *model) fail(fp, what string) {
	if m.Violation == "" {
		m.Violation, m.What = fp, what
	}
}

type world struct {
	w *ss.World
	m *model
}

func (x *world) check(after string) {
	m := x.m
	_, gerr := x.w.Sh.Get(ss.Addr(R), false)
	ex, eerr := x.w.Sh.Exists(ss.Addr(R), false)
	_, berr := x.w.FST.GetBytes(ss.Addr(R))
	m.Trace = append(m.Trace, fmt.Sprintf("%s[e=%d get=%v exists=%v blob=%v]", after, m.epoch, gerr == nil, ex && eerr == nil, berr == nil))
	if m.stored && m.anyLive() && !m.forced && !m.tomb {
		cls := ""
		switch {
		case gerr != nil:
			cls = "Get:" + errClass(gerr)
		case eerr != nil || !ex:
			cls = "Exists"
		case berr != nil:
			cls = "blob-physically-deleted"
		}
		if cls != "" {
			m.fail("live-lock-but-object-not-served:"+cls+":after="+after, strings.Join(m.Trace, " "))
		}
	}
}

func errClass(err error) string {
	s := err.Error()
	switch {
	case strings.Contains(s, "expired"):
		return "expired"
	case strings.Contains(s, "already removed"):
		return "removed"
	case strings.Contains(s, "not found"):
		return "not-found"
	}
	return "other"
}

type opT struct {
	Name string
	Do   func(x *world)
}

func ids(i int) []oid.ID { return []oid.ID{ss.OID(i)} }

func putLock(x *world, k, id int, exp uint64) {
	err := x.w.Sh.Put(ss.Lock(id, R, exp), nil)
	m := x.m
	if err != nil {
		m.Trace = append(m.Trace, "lock-put-error:"+err.Error())
		if os.Getenv("VERIF_DEBUG") != "" {
			fmt.Fprintln(os.Stderr, "DBG lock put:", err)
		}
	}
	if err == nil {
		if !m.anyLive() {
			// protection starts here: an object that is physically gone by now (e.g. the copy of an
			// expired, unprotected object was dropped when its repeated put was refused) is not stored
			if _, berr := x.w.FST.GetBytes(ss.Addr(R)); berr != nil {
				m.stored = false
			}
		}
		if m.tomb && !m.locks[k].accepted { // a repeated put of an already stored lock is a duplicate, not a new lock
			m.fail("lock-accepted-for-already-tombstoned-object", strings.Join(m.Trace, " "))
		}
		m.locks[k].accepted = true
		m.locks[k].exp = exp
	}
}

var alphabet = []opT{
	{"Put(R,exp=1)", func(x *world) {
		if err := x.w.Sh.Put(ss.ObjExp(R, 10, expR), nil); err == nil {
			x.m.stored = true
		}
	}},
	{"Put(L1,exp=2)", func(x *world) { putLock(x, 0, L1, expL1) }},
	{"Put(L2,exp=4)", func(x *world) { putLock(x, 1, L2, expL2) }},
	{"Put(T->R)", func(x *world) {
		live := x.m.anyLive() && x.m.stored
		if err := x.w.Sh.Put(ss.Tombstone(T1, R, 0), nil); err == nil {
			if live {
				x.m.fail("tombstone-accepted-while-live-lock", strings.Join(x.m.Trace, " "))
			}
			x.m.tomb = true
		}
	}},
	{"Put(T->L1)", func(x *world) {
		had := x.m.locks[0].accepted && !x.m.locks[0].marked
		if err := x.w.Sh.Put(ss.Tombstone(TL, L1, 0), nil); err == nil {
			if had {
				x.m.fail("lock-object-tombstoned", strings.Join(x.m.Trace, " "))
			}
			x.m.locks[0].marked = true // lenient: from now on L1 is not counted as live
		}
	}},
	{"MarkGarbage(L1)", func(x *world) {
		// the lock itself is removed by an operator: it does not protect any more
		x.m.locks[0].marked = true
		x.w.Sh.MarkGarbage(ss.Cnr, ids(L1), meta.GarbageMarkDefault)
	}},
	{"ForceMark(R)", func(x *world) {
		x.m.forced = true // an operator mark, also one placed before the object arrived, may lead to deletion
		x.w.Sh.MarkGarbage(ss.Cnr, ids(R), meta.GarbageMarkDefault)
	}},
	{"Epoch+1", func(x *world) {
		x.m.epoch++
		x.w.Epoch.E = x.m.epoch
		x.w.Sh.VerifSSNewEpoch(x.m.epoch)
	}},
	{"GCPass", func(x *world) { x.w.Sh.VerifSSGCPass() }},
}

type result struct {
	History  []string
	M        *model
	LockOK   bool
	TombOK   bool
	Readable bool
	Conc     bool
	// expiry scenario
	Expiry                    bool
	Checks                    int
	R2Deleted                 bool
	DeletedAfterLockAck       bool
	StaleAcrossOtherDeletions bool
}

func historyScenario(depth int, prefix ...int) sched.Scenario {
	body := func(s *sched.S) any {
		root, err := os.MkdirTemp("/dev/shm", "verif-c07-")
		if err != nil {
			panic(err)
		}
		defer os.RemoveAll(root)
		res := &result{M: &model{}}
		s.Result = res
		w, err := ss.New(s, root, ss.Opts{RmBatch: 10, Build: engineBuild})
		if err != nil {
			panic(err)
		}
		defer w.Close()
		x := &world{w, res.M}
		for _, k := range prefix {
			o := alphabet[k]
			res.History = append(res.History, o.Name)
			o.Do(x)
			x.check(o.Name)
		}
		for step := 0; step < depth; step++ {
			k := s.Choose(len(alphabet)+1, sched.Fault, fmt.Sprintf("op%d", step))
			if k == 0 {
				break
			}
			o := alphabet[k-1]
			res.History = append(res.History, o.Name)
			o.Do(x)
			x.check(o.Name)
		}
		// closing moves: expiry handling and GC must not delete a still protected object
		alphabet[8].Do(x)
		x.check("final-GCPass")
		return res
	}
	name := fmt.Sprintf("histories<=%d", depth)
	if len(prefix) > 0 {
		name += fmt.Sprintf(" after prefix %v", prefix)
	}
	return sched.Scenario{Name: name,
		Opt:  sched.Options{FaultBound: depth, FreeBound: -1, MaxSteps: 12000, Setup: func(s *sched.S) { s.TimerFires = 1 }},
		Body: body, Check: checkRes, Outcome: func(x *sched.Exec) string {
			res, _ := x.Result.(*result)
			if res == nil {
				return "aborted"
			}
			m := res.M
			return fmt.Sprintf("stored=%v live=%v tomb=%v forced=%v epoch=%d", m.stored, m.anyLive(), m.tomb, m.forced, m.epoch)
		}}
}

func checkRes(x *sched.Exec) (string, string) {
	if len(x.Panics) > 0 {
		return "panic", x.Panics[0]
	}
	res, _ := x.Result.(*result)
	if res == nil || x.Horizon {
		return "", ""
	}
	if x.Deadlock {
		return "deadlock", strings.Join(x.Blocked, ";")
	}
	if res.M.Violation != "" {
		return res.M.Violation, fmt.Sprintf("history %v: %s", res.History, res.M.What)
	}
	if res.Expiry {
		if res.DeletedAfterLockAck {
			// the verdict "not locked" was used after the lock had been acknowledged
			if res.StaleAcrossOtherDeletions {
				return "expiry:locked-object-deleted:lock-acknowledged-before-the-deletion-began:verdict-kept-across-the-removal-of-other-objects", fmt.Sprintf("%+v", res)
			}
			return "expiry:locked-object-deleted:lock-acknowledged-before-the-deletion-began:between-the-object's-own-lock-check-and-its-removal", fmt.Sprintf("%+v", res)
		}
		if res.LockOK && !res.R2Deleted && !res.Readable {
			return "expiry:lock-accepted-object-not-deleted-but-not-served", fmt.Sprintf("%+v", res)
		}
		return "", ""
	}
	if res.Conc && res.LockOK && res.TombOK {
		return "concurrent:lock-and-tombstone-both-accepted", fmt.Sprintf("%+v", res)
	}
	if res.Conc && res.LockOK && !res.Readable {
		return "concurrent:lock-accepted-but-object-not-served", fmt.Sprintf("%+v", res)
	}
	return "", ""
}

func concScenario(pre int) sched.Scenario {
	body := func(s *sched.S) any {
		root, err := os.MkdirTemp("/dev/shm", "verif-c07-")
		if err != nil {
			panic(err)
		}
		defer os.RemoveAll(root)
		res := &result{M: &model{}, Conc: true, History: []string{"Put(R)", "Put(L)||Put(T)||GCPass"}}
		s.Result = res
		w, err := ss.New(s, root, ss.Opts{RmBatch: 10, Build: engineBuild})
		if err != nil {
			panic(err)
		}
		defer w.Close()
		if err := w.Sh.Put(ss.Obj(R, 10), nil); err != nil {
			panic(err)
		}
		n := 0
		s.Go("locker", false, func() { res.LockOK = w.Sh.Put(ss.Lock(L2, R, expL2), nil) == nil; n++ })
		s.Go("remover", false, func() { res.TombOK = w.Sh.Put(ss.Tombstone(T1, R, 0), nil) == nil; n++ })
		s.Go("gc", false, func() { w.Sh.VerifSSGCPass(); n++ })
		s.Block("join", func() bool { return n == 3 })
		w.Sh.VerifSSGCPass()
		_, gerr := w.Sh.Get(ss.Addr(R), false)
		_, berr := w.FST.GetBytes(ss.Addr(R))
		res.Readable = gerr == nil && berr == nil
		return res
	}
	return sched.Scenario{Name: "lock || tombstone || GC pass",
		Opt:  sched.Options{PreemptBound: pre, FreeBound: pre, MaxSteps: 12000, Setup: func(s *sched.S) { s.TimerFires = 1 }},
		Body: body, Check: checkRes, Outcome: func(x *sched.Exec) string {
			res, _ := x.Result.(*result)
			if res == nil {
				return "aborted"
			}
			return fmt.Sprintf("conc lock=%v tomb=%v readable=%v", res.LockOK, res.TombOK, res.Readable)
		}}
}

// expiryScenario: two expired objects (R, then R2 in the GC's batch order) are handled by a GC pass
// while a lock for R2 arrives. If the lock was acknowledged before the removal of R2 began, R2
// was deleted although a live lock protected it.
const R2, LR2 = 5, 6

func expiryScenario(pre int) sched.Scenario {
	body := func(s *sched.S) any {
		root, err := os.MkdirTemp("/dev/shm", "verif-c07-")
		if err != nil {
			panic(err)
		}
		defer os.RemoveAll(root)
		res := &result{M: &model{}, Conc: true, Expiry: true, History: []string{"Put(R,exp=1)", "Put(R2,exp=1)", "Epoch=2", "GCPass||Put(L->R2,exp=4)"}}
		s.Result = res
		w, err := ss.New(s, root, ss.Opts{RmBatch: 10, Build: engineBuild})
		if err != nil {
			panic(err)
		}
		defer w.Close()
		for _, i := range []int{R, R2} {
			if err := w.Sh.Put(ss.ObjExp(i, 10, expR), nil); err != nil {
				panic(err)
			}
		}
		w.Epoch.E = 2
		w.Sh.VerifSSNewEpoch(2)
		lockAcked, otherDeletions := false, 0
		w.OnMeta = func(name string, args []any) {
			switch name {
			case "IsLocked":
				if a, ok := args[0].(oid.Address); ok && a.Object() == ss.OID(R2) {
					otherDeletions = 0 // a fresh verdict for R2
					res.Checks++
				}
			case "Delete":
				idl, _ := args[1].([]oid.ID)
				for _, id := range idl {
					if id != ss.OID(R2) {
						otherDeletions++
						continue
					}
					res.R2Deleted = true
					if lockAcked {
						res.DeletedAfterLockAck = true
						res.StaleAcrossOtherDeletions = otherDeletions > 0
					}
				}
			}
		}
		n := 0
		s.Go("locker", false, func() {
			res.LockOK = w.Sh.Put(ss.Lock(LR2, R2, expL2), nil) == nil
			lockAcked = res.LockOK
			n++
		})
		s.Go("gc", false, func() { w.Sh.VerifSSGCPass(); n++ })
		s.Block("join", func() bool { return n == 2 })
		w.OnMeta = nil
		_, gerr := w.Sh.Get(ss.Addr(R2), false)
		_, berr := w.FST.GetBytes(ss.Addr(R2))
		res.Readable = gerr == nil && berr == nil
		return res
	}
	return sched.Scenario{Name: "GC pass over two expired objects || lock for the second one",
		Opt:  sched.Options{PreemptBound: pre, FreeBound: pre, MaxSteps: 12000, Setup: func(s *sched.S) { s.TimerFires = 1 }},
		Body: body, Check: checkRes, Outcome: func(x *sched.Exec) string {
			res, _ := x.Result.(*result)
			if res == nil {
				return "aborted"
			}
			return fmt.Sprintf("expiry lock=%v deleted=%v readable=%v", res.LockOK, res.R2Deleted, res.Readable)
		}}
}

func main() {
	r := ev.Start("C07", ev.ModelChecking)
	depth, pre := 4, 1
	list := func(depth, pre int, tag string) []sched.Scenario {
		l := []sched.Scenario{concScenario(pre), expiryScenario(pre), historyScenario(depth), historyScenario(depth-1, 0, 1, 2)}
		for i := range l {
			l[i].Name += tag
		}
		return l
	}
	scs := list(depth, pre, "")
	if r.Thorough() {
		// deeper bounds after the quick ones (the budget is shared per scenario, leftovers roll on)
		depth, pre = 5, 2
		scs = append(scs, list(depth, pre, " [deep]")...)
	}
	r.Rule(fmt.Sprintf("(A) every history of <=%d operations over %d operations (and every history one shorter after the prefix Put(R),Put(L1),Put(L2)) followed by a GC pass, oracle after each operation; (B) all schedules with <=%d preemptions of Put(lock) || Put(tombstone) || GC pass on a stored object, and of a GC pass over two expired objects || Put(lock for the second); non-trivial = distinct (stored, live lock, tombstoned, forced, epoch) final model classes", depth, len(alphabet), pre))
	r.Assume("the shard is attached to a real single-shard StorageEngine: expired objects are handled by the engine's own processExpiredObjects", "a lock that was itself marked as garbage or tombstoned is not counted as live (lenient)")
	sched.Main(r, scs, 0)
}
