// C45: while the local node is in maintenance, every client object operation is refused with the
// maintenance status and touches neither local storage nor other nodes; Replicate (not a client
// operation) is not refused.
//
// Enumeration (enumx): every method of the gRPC server interface protoobject.ObjectServiceServer
// obtained by reflection (a newly added RPC joins automatically; Replicate is the one non-client
// method, excluded by name as the property states) x request shape x requester (owner / stranger)
// x TTL (1 = local only, 2 = may forward) x local node inside / outside the container, each with a
// valid signed request. The server is the real objectsvc.Server over the real get/put/delete
// services, a real storage engine (every engine method entry recorded) and a recording "network"
// (every attempt to obtain a connection to another node recorded).
//
// Oracle: with maintenance on, the response status is NODE_UNDER_MAINTENANCE, zero engine entries,
// zero network attempts, engine directory byte-identical. Non-vacuity control for every case: the
// same request with maintenance off produces at least one storage/network effect.
package main

import (
	"context"
	"errors"
	"fmt"
	"sort"
	"strings"
	"sync"

	"github.com/nspcc-dev/neofs-node/verif/lib/enumx"
	"github.com/nspcc-dev/neofs-node/verif/lib/ev"
	sw "github.com/nspcc-dev/neofs-node/verif/worlds/svcworld"
	apistatus "github.com/nspcc-dev/neofs-sdk-go/client/status"
	protostatus "github.com/nspcc-dev/neofs-sdk-go/proto/status"
	grpcstatus "google.golang.org/grpc/status"
)

// notClientOps are the methods of the service that are not client operations (property text:
// "Replicate is not a client op").
var notClientOps = map[string]bool{"Replicate": true}

// requesters using the unsigned authentication path
const (
	mtlsNode  = "unsigned-from-mtls-authenticated-container-node"
	mtlsOther = "unsigned-from-mtls-authenticated-other-peer"
)

type tcase struct {
	Method    string
	Shape     string // request shape: Get: ""|payload-only|range; Put: ""|maintenance-starts-before-chunk
	Requester string
	TTL       uint32
	LocalIn   bool
	Scheme    string // thorough: request signature scheme ("" = ECDSA_SHA512)
}

func (c tcase) String() string {
	s := c.Method
	if c.Shape != "" {
		s += "[" + c.Shape + "]"
	}
	if c.Scheme != "" {
		s += " scheme=" + c.Scheme
	}
	return fmt.Sprintf("%s by=%s ttl=%d localInContainer=%v", s, c.Requester, c.TTL, c.LocalIn)
}

type outcome struct {
	Status   string // "OK" | "MAINTENANCE" | "status:<code>" | "grpc:<code>" | "panic" | "no-response"
	Detail   string
	Effects  []string
	TreeDiff []string
	BodySize int
}

func statusOf(res sw.Result) (string, string) {
	if res.Panic != nil {
		return "panic", fmt.Sprint(res.Panic)
	}
	if res.Err != nil {
		return "grpc:" + grpcstatus.Code(res.Err).String(), res.Err.Error()
	}
	if len(res.Messages) == 0 {
		return "no-response", ""
	}
	// the status of a stream is the status of its last message
	last := res.Messages[len(res.Messages)-1]
	code, msg, ok := sw.StatusOf(last)
	if !ok {
		return "no-status-field", ""
	}
	if code == 0 {
		return "OK", ""
	}
	if errors.Is(apistatus.ToError(&protostatus.Status{Code: code, Message: msg}), apistatus.ErrNodeUnderMaintenance) {
		return "MAINTENANCE", msg
	}
	return fmt.Sprintf("status:%d", code), msg
}

func run(c tcase, maintenance bool) (outcome, error) {
	cfg := sw.Config{BasicACL: sw.AllowAllACL(), LocalInContainer: c.LocalIn, Maintenance: maintenance, ACLSeesLocalHeaders: true}
	w, err := sw.New(cfg)
	if err != nil {
		return outcome{}, err
	}
	defer w.Close()
	if c.Shape == "maintenance-starts-before-chunk" {
		w.Chain.MaintenanceSkip = 1
	}
	shape := c.Shape
	if c.Method != "Get" {
		shape = ""
	}
	p := sw.Params{Signer: c.Requester, TTL: c.TTL, Shape: shape}
	switch c.Requester {
	case "session": // thorough: request carried by a valid V1 session token of the owner
		p.Signer = sw.SessionKey
		if v := sw.VerbOf(c.Method); v != 0 {
			p.SessionV1 = sw.SessionV1(w.Chain.CnrID, v, sw.Epoch+5)
		}
	case "bearer": // thorough: stranger with a valid bearer token of the owner
		p.Signer = sw.Stranger
		p.Bearer = sw.Bearer(w.Chain.CnrID, sw.Owner, sw.Stranger, sw.Epoch+5)
	}
	reqs, err := w.BuildRequests(c.Method, p)
	if err != nil {
		return outcome{}, err
	}
	ctx := context.Background()
	switch c.Requester {
	case mtlsNode, mtlsOther:
		// the other authentication path the server accepts: NO verification header, TTL 1, gRPC peer
		// authenticated by mutual TLS (a container node / some other key)
		label := sw.RemoteA
		if c.Requester == mtlsOther {
			label = sw.Stranger
		}
		ctx = sw.PeerContext(label)
	default:
		if err := sw.SignAllScheme(reqs, p.Signer, c.Scheme); err != nil {
			return outcome{}, err
		}
	}
	before, err := sw.SnapTree(w.Dir)
	if err != nil {
		return outcome{}, err
	}
	w.Rec.Reset()
	res, herr := sw.InvokeCtx(ctx, w.Srv, sw.ObjectServiceIface, c.Method, reqs)
	if herr != nil {
		return outcome{}, herr
	}
	var o outcome
	o.Status, o.Detail = statusOf(res)
	o.Effects = w.Effects()
	after, err := sw.SnapTree(w.Dir)
	if err != nil {
		return outcome{}, err
	}
	o.TreeDiff = sw.DiffTree(before, after)
	for _, m := range res.Messages {
		o.BodySize += sw.BodySize(m)
	}
	return o, nil
}

func effectClasses(eff []string) string {
	m := map[string]bool{}
	for _, e := range eff {
		if i := strings.IndexByte(e, '('); i > 0 {
			e = e[:i]
		}
		m[e] = true
	}
	var r []string
	for k := range m {
		r = append(r, k)
	}
	sort.Strings(r)
	return strings.Join(r, ",")
}

func main() {
	r := ev.Start("C45", ev.Exploration)
	fatal := func(format string, a ...any) {
		sw.Cleanup()
		r.Fatal(format, a...)
	}
	var mu sync.Mutex
	classes := map[string]int{}
	controls := map[string]string{}
	removed := map[string]bool{}
	vacuous := map[string]string{}
	perMethod := map[string]int{}

	check := func(c tcase) {
		r.Eval(1)
		ctl, err := run(c, false)
		if err != nil {
			fatal("%s (control): %v", c, err)
		}
		got, err := run(c, true)
		if err != nil {
			fatal("%s: %v", c, err)
		}
		desc := fmt.Sprintf("%s: maintenance ON -> status=%s %q effects=%v treeDiff=%v bodyBytes=%d; maintenance OFF -> status=%s effects=%v",
			c, got.Status, got.Detail, got.Effects, got.TreeDiff, got.BodySize, ctl.Status, effectClasses(ctl.Effects))
		cls := ""
		if c.Shape != "" {
			cls = "[" + c.Shape + "]"
		}
		if c.Requester == mtlsNode || c.Requester == mtlsOther {
			cls += "[unsigned-ttl1-mtls-peer]"
		}
		unimplemented := ctl.Status == "grpc:Unimplemented" && len(ctl.Effects) == 0
		midStream := c.Shape == "maintenance-starts-before-chunk"
		if midStream {
			// the init message is served before maintenance starts (its effects are legitimate); the
			// chunk must be refused and the object must not reach the storage or another node
			var bad []string
			for _, e := range got.Effects {
				if strings.HasPrefix(e, "net:") || e == "storage:Put" {
					bad = append(bad, e)
				}
			}
			got.Effects = bad
		}
		switch {
		case midStream && len(ctl.Effects) == 0 && len(got.Effects) == 0 && len(got.TreeDiff) == 0:
			// init refused for another reason before the chunk was looked at: nothing to refuse
		case len(got.Effects) > 0:
			kind := "storage"
			if strings.Contains(strings.Join(got.Effects, " "), "net:") {
				kind = "network"
				if strings.Contains(strings.Join(got.Effects, " "), "storage:") {
					kind = "storage+network"
				}
			}
			r.Violation(fmt.Sprintf("effect-under-maintenance:%s%s:%s", c.Method, cls, kind), desc, c)
		case len(got.TreeDiff) > 0:
			r.Violation(fmt.Sprintf("storage-changed-under-maintenance:%s%s", c.Method, cls), desc, c)
		case unimplemented && got.Status == "grpc:Unimplemented":
			// removed RPC: not an operation of this program; refused without any effect either way
			mu.Lock()
			removed[c.Method] = true
			mu.Unlock()
		case got.Status != "MAINTENANCE":
			r.Violation(fmt.Sprintf("not-refused-with-maintenance-status:%s%s:%s", c.Method, cls, strings.SplitN(got.Status, ":", 2)[0]), desc, c)
		case got.BodySize > 0:
			r.Violation(fmt.Sprintf("data-in-maintenance-response:%s%s", c.Method, cls), desc, c)
		}
		mu.Lock()
		classes[c.Method+cls+" -> "+got.Status]++
		controls[c.String()] = ctl.Status + " " + effectClasses(ctl.Effects)
		mu.Unlock()
		if !unimplemented {
			// status 1 = INCOMPLETE: the local part succeeded, the other container node is unreachable (no network)
			if c.LocalIn && c.Shape != "maintenance-starts-before-chunk" && ctl.Status != "OK" && ctl.Status != "status:1" {
				fatal("%s: control run (maintenance off, node in container) is not OK: %s %q", c, ctl.Status, ctl.Detail)
			}
			if len(ctl.Effects) == 0 {
				// e.g. a local-only PUT/DELETE on a node outside the container is refused before any effect
				// even without maintenance: the case is still checked, but it is not counted as non-trivial
				mu.Lock()
				vacuous[c.String()] = ctl.Status + " " + ctl.Detail
				mu.Unlock()
				return
			}
			mu.Lock()
			perMethod[c.Method]++
			mu.Unlock()
			r.Nontrivial(c.String())
			r.Sample(map[string]any{"case": c.String(), "maintenance_on": got.Status, "maintenance_off": ctl.Status, "maintenance_off_effects": effectClasses(ctl.Effects)})
		}
	}

	// Replicate must keep working: same outcome with and without maintenance.
	checkReplicate := func(method string) {
		r.Eval(1)
		res := map[bool]string{}
		for _, maint := range []bool{false, true} {
			w, err := sw.New(sw.Config{BasicACL: sw.AllowAllACL(), LocalInContainer: true, Maintenance: maint, ACLSeesLocalHeaders: true})
			if err != nil {
				fatal("%v", err)
			}
			req, _ := w.ReplicateRequest(sw.RemoteA)
			out, herr := sw.Invoke(w.Srv, sw.ObjectServiceIface, method, []any{req})
			if herr != nil {
				fatal("%v", herr)
			}
			st := "grpc-error"
			if out.Err == nil && len(out.Messages) == 1 {
				rr := out.Messages[0].(interface{ GetStatus() *protostatus.Status })
				st = fmt.Sprintf("code=%d %s", rr.GetStatus().GetCode(), rr.GetStatus().GetMessage())
			}
			res[maint] = fmt.Sprintf("%s stored=%v", st, strings.Contains(strings.Join(w.Effects(), " "), "storage:Put"))
			w.Close()
		}
		if res[false] != "code=0  stored=true" {
			fatal("replicate control (maintenance off) not accepted: %s", res[false])
		}
		if res[true] != res[false] {
			r.Violation("non-client-op-refused-under-maintenance:"+method,
				fmt.Sprintf("%s with maintenance on: %s; off: %s", method, res[true], res[false]), tcase{Method: method})
		}
		r.Nontrivial(method + "-under-maintenance")
		mu.Lock()
		classes[method+" (not a client op) -> "+res[true]]++
		mu.Unlock()
	}

	if r.Replay != "" {
		var c tcase
		r.LoadReplay(&c)
		fmt.Println("replaying", c)
		if notClientOps[c.Method] {
			checkReplicate(c.Method)
		} else {
			check(c)
		}
		sw.Cleanup()
		r.Finish()
	}

	methods := sw.Methods(sw.ObjectServiceIface)
	var cases []tcase
	for _, m := range methods {
		if notClientOps[m] {
			continue
		}
		shapes := []string{""}
		switch m {
		case "Get":
			shapes = []string{"", "payload-only", "range"}
		case "Put":
			shapes = []string{"", "maintenance-starts-before-chunk"}
		}
		for _, sh := range shapes {
			who := []string{sw.Owner, sw.Stranger}
			schemes := []string{""}
			if r.Thorough() {
				who = append(who, "session", "bearer")
				schemes = append(schemes, "rfc6979", "walletconnect")
			}
			for _, who := range who {
				for _, scheme := range schemes {
					for _, ttl := range []uint32{1, 2} {
						for _, in := range []bool{true, false} {
							cases = append(cases, tcase{Method: m, Shape: sh, Requester: who, TTL: ttl, LocalIn: in, Scheme: scheme})
						}
					}
				}
			}
			// unsigned requests are accepted with TTL 1 from mutually authenticated peers only
			for _, who := range []string{mtlsNode, mtlsOther} {
				for _, in := range []bool{true, false} {
					cases = append(cases, tcase{Method: m, Shape: sh, Requester: who, TTL: 1, LocalIn: in})
				}
			}
		}
	}
	enumx.Parallel(len(cases), func(i int) { check(cases[i]) })
	for m := range notClientOps {
		checkReplicate(m)
	}

	for _, m := range methods {
		if !notClientOps[m] && !removed[m] && perMethod[m] == 0 {
			fatal("no case of method %s has a control run (maintenance off) with a storage/network effect: the harness cannot observe this operation (new RPC needs a request builder in worlds/svcworld?)", m)
		}
	}
	var rm []string
	for m := range removed {
		rm = append(rm, m)
	}
	sort.Strings(rm)
	r.Set("methods_by_reflection", methods)
	r.Set("not_client_ops", []string{"Replicate"})
	r.Set("removed_rpcs_unimplemented_regardless_of_maintenance", rm)
	r.Set("outcome_classes", len(classes))
	r.Set("outcome_class_counts", classes)
	r.Set("controls_maintenance_off", controls)
	r.Set("cases_without_effect_even_without_maintenance", vacuous)
	r.Set("nontrivial_cases_per_method", perMethod)
	r.Rule("every exported method of protoobject.ObjectServiceServer (reflection) except Replicate x request shape x authentication path {signed by owner / stranger with TTL 1,2; NO verification header + TTL 1 + gRPC peer authenticated by mutual TLS as a container node / as another key} x local node {inside,outside} the container; non-trivial = the same request with maintenance off produced a storage or network effect (checked, otherwise harness error); distinct = distinct case tuple")
	r.Assume("effects are observed at the engine method entries (overlay hook, pure recorder), at the client-constructor / replication transport (network) and as byte-level changes of the engine directory",
		"FS chain reads (container, netmap, maintenance flag) are not counted as touching local storage or other nodes",
		"opening the internal put streamer (Handlers.Put) before the first message is verified is an allocation only and is not counted as an effect",
		"RPCs that answer gRPC Unimplemented with and without maintenance (removed from the protocol) are not client operations of this program",
		"static dominance of the maintenance check over effects in the program text is not decided; what is decided is the dynamic product above over the actual method set")
	r.Exhaustive(true)
	sw.Cleanup()
	r.Finish()
}
