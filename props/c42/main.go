// C42: opening a metabase written in an older supported format (9, 10) upgrades it to the current one;
// statuses, attributes, search results and counters are what they were; an interrupted upgrade can be resumed.
//
// The final state of every short operation history (and one bulk state that makes every 1000-entry
// migration batch loop run several times, with exact batch-boundary container sizes) is written by the
// current code, then DOWN-converted to format 10 and 9 exactly as VERSION.md describes. Each old file is
// upgraded by the real DB.Init (a) uninterrupted and (b) with an init context whose Done() channel closes at
// the k-th poll, for EVERY k, followed by a resume (thorough: also a second interruption at every k2).
// Oracle: upgraded == never-downgraded DB (observables through the public API and the raw bbolt
// contents), resumed == uninterrupted.
package main

import (
	"bytes"
	"context"
	"crypto/sha256"
	"encoding/binary"
	"encoding/hex"
	"errors"
	"fmt"
	"os"
	"path/filepath"
	"sort"
	"strings"
	"sync"
	"sync/atomic"
	"time"

	"github.com/nspcc-dev/bbolt"
	ierrors "github.com/nspcc-dev/neofs-node/internal/errors"
	objectcore "github.com/nspcc-dev/neofs-node/pkg/core/object"
	"github.com/nspcc-dev/neofs-node/pkg/local_object_storage/blobstor/common"
	meta "github.com/nspcc-dev/neofs-node/pkg/local_object_storage/metabase"
	"github.com/nspcc-dev/neofs-node/verif/lib/enumx"
	"github.com/nspcc-dev/neofs-node/verif/lib/ev"
	"github.com/nspcc-dev/neofs-sdk-go/checksum"
	apistatus "github.com/nspcc-dev/neofs-sdk-go/client/status"
	cid "github.com/nspcc-dev/neofs-sdk-go/container/id"
	"github.com/nspcc-dev/neofs-sdk-go/object"
	oid "github.com/nspcc-dev/neofs-sdk-go/object/id"
	"github.com/nspcc-dev/neofs-sdk-go/user"
	"go.uber.org/zap"
)

const (
	attrAssoc = object.AttributeAssociatedObject
	//nolint:staticcheck // the deprecated index is exactly what format <= 10 contained
	attrHomo = object.FilterPayloadHomomorphicHash
)

// ---------------------------------------------------------------------------------------------
// objects

type kind int

const (
	kReg kind = iota
	kFirst
	kLast
	kTomb
	kLock
	kVirtual
)

type uobj struct {
	name   string
	k      kind
	cnr    int
	exp    uint64
	target string
	parent string
	first  string
	homo   bool // old formats indexed a homomorphic payload hash for this object
	attrs  [][2]string

	id   oid.ID
	addr oid.Address
	obj  *object.Object
	hh   []byte
}

var (
	cnrs  [3]cid.ID
	owner user.ID
)

func h32(label string) [32]byte { return sha256.Sum256([]byte("verif-c42-" + label)) }

func mkID(name string) oid.ID { return oid.ID(h32("oid-" + name)) }

func homoHash(name string) []byte {
	a, b := h32("hh1-"+name), h32("hh2-"+name)
	h := append(a[:], b[:]...)
	h[5] = 0 // real TZ hashes do contain zero bytes (the key delimiter)
	return h
}

func (u *uobj) build(idOf func(string) oid.ID) {
	u.id = idOf(u.name)
	c := cnrs[u.cnr]
	u.addr = oid.NewAddress(c, u.id)
	if u.k == kVirtual {
		return
	}
	base := func(id oid.ID, name string, typ object.Type, exp uint64, attrs [][2]string) *object.Object {
		o := object.New(c, owner)
		o.SetID(id)
		o.SetType(typ)
		pl := []byte("payload-of-" + name)
		if typ == object.TypeTombstone || typ == object.TypeLock {
			pl = nil
		}
		o.SetPayload(pl)
		o.SetPayloadSize(uint64(len(pl)))
		o.SetPayloadChecksum(checksum.NewSHA256(sha256.Sum256(pl)))
		o.SetCreationEpoch(1)
		var as []object.Attribute
		if exp != 0 {
			as = append(as, object.NewAttribute(object.AttributeExpirationEpoch, fmt.Sprint(exp)))
		}
		for _, kv := range attrs {
			as = append(as, object.NewAttribute(kv[0], kv[1]))
		}
		if len(as) > 0 {
			o.SetAttributes(as...)
		}
		return o
	}
	parentHdr := func(name string) *object.Object {
		p := base(idOf(name), name, object.TypeRegular, 0, [][2]string{{"FileName", name + ".bin"}})
		p.SetPayload(nil)
		p.SetPayloadSize(64)
		return p
	}
	switch u.k {
	case kReg:
		u.obj = base(u.id, u.name, object.TypeRegular, u.exp, u.attrs)
	case kFirst:
		u.obj = base(u.id, u.name, object.TypeRegular, u.exp, u.attrs)
		u.obj.SetParent(parentHdr(u.parent))
		u.obj.SetParentID(oid.ID{})
	case kLast:
		u.obj = base(u.id, u.name, object.TypeRegular, u.exp, u.attrs)
		u.obj.SetFirstID(idOf(u.first))
		u.obj.SetPreviousID(idOf(u.first))
		par := parentHdr(u.parent)
		u.obj.SetParent(par)
		u.obj.SetParentID(par.GetID())
	case kTomb:
		u.obj = base(u.id, u.name, object.TypeTombstone, u.exp, u.attrs)
		u.obj.AssociateDeleted(idOf(u.target))
	case kLock:
		u.obj = base(u.id, u.name, object.TypeLock, u.exp, u.attrs)
		u.obj.AssociateLocked(idOf(u.target))
	}
	if u.homo {
		u.hh = homoHash(u.name)
	}
}

// small universe for the exhaustive histories
func smallUniverse() []*uobj {
	us := []*uobj{
		{name: "R1", k: kReg, exp: 2, homo: true, attrs: [][2]string{{"k", "v"}, {"n", "42"}}},
		{name: "R2", k: kReg, homo: true, attrs: [][2]string{{"k", "w"}, {"n", "-7"}}},
		{name: "C1", k: kFirst, parent: "P", homo: true},
		{name: "C2", k: kLast, parent: "P", first: "C1", homo: true},
		{name: "R3", k: kReg, cnr: 1, homo: true, attrs: [][2]string{{"k", "v"}}},
		{name: "T2", k: kTomb, target: "R2", exp: 9},
		{name: "TP", k: kTomb, target: "P", exp: 9},
		{name: "TX", k: kTomb, target: "X", exp: 3},
		{name: "L1", k: kLock, target: "R1", exp: 6},
		{name: "L3", k: kLock, target: "R3", cnr: 1},
		{name: "P", k: kVirtual},
		{name: "X", k: kVirtual},
	}
	for _, u := range us {
		u.build(mkID)
	}
	return us
}

// ---------------------------------------------------------------------------------------------
// metabase handling

type epochSrc struct{ v atomic.Uint64 }

func (e *epochSrc) CurrentEpoch() uint64 { return e.v.Load() }

type allContainers struct{}

func (allContainers) Exists(cid.ID) (bool, error) { return true, nil }

// pollCtx: Done() closes its channel at the k-th call (k <= 0: never).
type pollCtx struct {
	mu     sync.Mutex
	n, k   int
	ch     chan struct{}
	closed bool
}

func newPollCtx(k int) *pollCtx { return &pollCtx{k: k, ch: make(chan struct{})} }
func (c *pollCtx) Done() <-chan struct{} {
	c.mu.Lock()
	defer c.mu.Unlock()
	c.n++
	if c.k > 0 && c.n >= c.k && !c.closed {
		close(c.ch)
		c.closed = true
	}
	return c.ch
}
func (c *pollCtx) Err() error {
	c.mu.Lock()
	defer c.mu.Unlock()
	if c.closed {
		return context.Canceled
	}
	return nil
}
func (c *pollCtx) Deadline() (time.Time, bool) { return time.Time{}, false }
func (c *pollCtx) Value(any) any               { return nil }
func (c *pollCtx) polls() int                  { c.mu.Lock(); defer c.mu.Unlock(); return c.n }

func boltOpts() *bbolt.Options {
	o := *bbolt.DefaultOptions
	o.NoSync = true
	o.NoFreelistSync = true
	return &o
}

func openMeta(path string, ep *epochSrc, ctx context.Context) (*meta.DB, error) {
	db := meta.New(
		meta.WithPath(path),
		meta.WithEpochState(ep),
		meta.WithMaxBatchSize(1),
		meta.WithBoltDBOptions(boltOpts()),
		meta.WithLogger(zap.NewNop()),
		meta.WithContainers(allContainers{}),
		meta.WithInitContext(ctx),
	)
	if err := db.Open(false); err != nil {
		return nil, err
	}
	if err := db.Init(common.ID{}); err != nil {
		db.Close()
		return nil, err
	}
	return db, nil
}

type kv struct{ b, k, v string }

func rawDump(path string) ([]kv, error) {
	bo := boltOpts()
	bo.ReadOnly = true
	db, err := bbolt.Open(path, 0o600, bo)
	if err != nil {
		return nil, err
	}
	defer db.Close()
	var out []kv
	err = db.View(func(tx *bbolt.Tx) error {
		return tx.ForEach(func(name []byte, b *bbolt.Bucket) error {
			out = append(out, kv{b: string(name)})
			return walk(b, string(name), &out)
		})
	})
	return out, err
}

func walk(b *bbolt.Bucket, name string, out *[]kv) error {
	return b.ForEach(func(k, v []byte) error {
		if v == nil {
			if sub := b.Bucket(k); sub != nil {
				*out = append(*out, kv{b: name + "/" + string(k)})
				return walk(sub, name+"/"+string(k), out)
			}
		}
		*out = append(*out, kv{b: name, k: string(k), v: string(v)})
		return nil
	})
}

func dumpHash(d []kv) string {
	h := sha256.New()
	for _, e := range d {
		fmt.Fprintf(h, "%d:%s%d:%s%d:%s", len(e.b), e.b, len(e.k), e.k, len(e.v), e.v)
	}
	return hex.EncodeToString(h.Sum(nil)[:12])
}

func describeKey(e kv) string {
	if len(e.b) == 33 && e.b[0] == 255 {
		if len(e.k) == 0 {
			return "container-bucket"
		}
		switch e.k[0] {
		case 0:
			return "object-id-key"
		case 1:
			return "int-attribute-index:" + strings.SplitN(e.k[1:], "\x00", 2)[0]
		case 2:
			return "attribute-index:" + strings.SplitN(e.k[1:], "\x00", 2)[0]
		case 3:
			if len(e.k) > 33 {
				return "object-attribute:" + strings.SplitN(e.k[33:], "\x00", 2)[0]
			}
		case 4:
			return "container-gc-mark"
		case 5:
			return "garbage-mark"
		case 6, 7, 8, 9, 10, 11, 12:
			return fmt.Sprintf("counter-%d", e.k[0])
		}
		return fmt.Sprintf("meta-key-prefix-%d", e.k[0])
	}
	if len(e.b) >= 1 && e.b[0] == 5 {
		return "shard-info:" + e.k
	}
	return fmt.Sprintf("bucket-%d", e.b[0])
}

// first difference between two dumps, as a class
func dumpDiff(a, b []kv) (string, string) {
	if len(a) == len(b) && dumpHash(a) == dumpHash(b) {
		return "", ""
	}
	am := map[kv]bool{}
	for _, e := range a {
		am[e] = true
	}
	bm := map[kv]bool{}
	for _, e := range b {
		bm[e] = true
	}
	for _, e := range a {
		if !bm[e] {
			return "missing:" + describeKey(e), fmt.Sprintf("key %x (value %x) of bucket %x is absent/different", e.k, e.v, e.b)
		}
	}
	for _, e := range b {
		if !am[e] {
			return "extra:" + describeKey(e), fmt.Sprintf("unexpected key %x (value %x) in bucket %x", e.k, e.v, e.b)
		}
	}
	return "", ""
}

// ---------------------------------------------------------------------------------------------
// down-conversion (VERSION.md): current -> 10 -> 9, directly on the bbolt file

func downconvert(path string, to int, us []*uobj) error {
	db, err := bbolt.Open(path, 0o600, boltOpts())
	if err != nil {
		return err
	}
	defer db.Close()
	hh := map[oid.ID][]byte{}
	for _, u := range us {
		if u.hh != nil {
			hh[u.id] = u.hh
		}
	}
	return db.Update(func(tx *bbolt.Tx) error {
		var names [][]byte
		if err := tx.ForEach(func(name []byte, _ *bbolt.Bucket) error {
			if len(name) == 33 && name[0] == 255 {
				names = append(names, bytes.Clone(name))
			}
			return nil
		}); err != nil {
			return err
		}
		var phyTotal, logicTotal uint64
		type vol struct {
			cnr       []byte
			size, num uint64
		}
		var vols []vol
		for _, name := range names {
			b := tx.Bucket(name)
			var del, put [][]byte
			var ids []oid.ID
			prefAI := append(append([]byte{2}, attrAssoc...), 0)
			if err := b.ForEach(func(k, _ []byte) error {
				switch {
				case len(k) == 33 && k[0] == 0:
					ids = append(ids, oid.ID(k[1:]))
				case bytes.HasPrefix(k, prefAI) && len(k) == len(prefAI)+32+1+32:
					// 2 | attr | 0 | raw target | 0 | id   ->   2 | attr | 0 | base58(target) | 0 | id
					val, id := k[len(prefAI):len(prefAI)+32], k[len(k)-32:]
					s := oid.ID(val).EncodeToString()
					nk := append(append(append(bytes.Clone(prefAI), s...), 0), id...)
					del = append(del, bytes.Clone(k))
					put = append(put, nk)
				case k[0] == 3 && len(k) == 33+len(attrAssoc)+1+32 && bytes.Equal(k[33:33+len(attrAssoc)+1], append([]byte(attrAssoc), 0)):
					val := k[len(k)-32:]
					s := oid.ID(val).EncodeToString()
					nk := append(bytes.Clone(k[:len(k)-32]), s...)
					del = append(del, bytes.Clone(k))
					put = append(put, nk)
				}
				return nil
			}); err != nil {
				return err
			}
			for _, k := range del {
				if err := b.Delete(k); err != nil {
					return err
				}
			}
			for _, k := range put {
				if err := b.Put(k, nil); err != nil {
					return err
				}
			}
			// homomorphic hash indexes of format <= 10
			for _, id := range ids {
				h, ok := hh[id]
				if !ok {
					continue
				}
				k1 := append(append(append(append(append([]byte{2}, attrHomo...), 0), h...), 0), id[:]...)
				k2 := append(append(append(append([]byte{3}, id[:]...), attrHomo...), 0), h...)
				if err := b.Put(k1, nil); err != nil {
					return err
				}
				if err := b.Put(k2, nil); err != nil {
					return err
				}
			}
			if to <= 9 {
				// per-container counters did not exist; global counters + container volume bucket did
				get := func(p byte) uint64 {
					v := b.Get([]byte{p})
					if len(v) == 8 {
						return binary.LittleEndian.Uint64(v)
					}
					return 0
				}
				phy, gc, payload := get(6), get(11), get(12)
				phyTotal += phy
				if phy > gc {
					logicTotal += phy - gc
				}
				vols = append(vols, vol{cnr: name[1:], size: payload, num: phy})
				for p := byte(6); p <= 12; p++ {
					if err := b.Delete([]byte{p}); err != nil {
						return err
					}
				}
			}
		}
		info, err := tx.CreateBucketIfNotExists([]byte{5})
		if err != nil {
			return err
		}
		le := func(v uint64) []byte { b := make([]byte, 8); binary.LittleEndian.PutUint64(b, v); return b }
		if to <= 9 {
			if err := info.Put([]byte("phy_counter"), le(phyTotal)); err != nil {
				return err
			}
			if err := info.Put([]byte("logic_counter"), le(logicTotal)); err != nil {
				return err
			}
			vb, err := tx.CreateBucketIfNotExists([]byte{3})
			if err != nil {
				return err
			}
			for _, v := range vols {
				cb, err := vb.CreateBucketIfNotExists(v.cnr)
				if err != nil {
					return err
				}
				if err := cb.Put([]byte{0}, le(v.size)); err != nil {
					return err
				}
				if err := cb.Put([]byte{1}, le(v.num)); err != nil {
					return err
				}
			}
		}
		return info.Put([]byte("version"), le(uint64(to)))
	})
}

// ---------------------------------------------------------------------------------------------
// observables through the public API

func cls(present bool, err error) string {
	switch {
	case err == nil && present:
		return "A"
	case err == nil:
		return "M"
	case errors.Is(err, ierrors.ErrParentObject), errors.As(err, new(*object.SplitInfoError)):
		return "P"
	case errors.Is(err, apistatus.ErrObjectAlreadyRemoved):
		return "R"
	case errors.Is(err, meta.ErrObjectIsExpired):
		return "E"
	case errors.Is(err, apistatus.ErrObjectNotFound):
		return "M"
	}
	return "ERR(" + err.Error() + ")"
}

type query struct {
	name  string
	cnr   int
	fs    object.SearchFilters
	attrs []string
}

func mkQueries(us []*uobj, ncnr int) []query {
	var qs []query
	add := func(name string, c int, attrs []string, f func(fs *object.SearchFilters)) {
		var fs object.SearchFilters
		if f != nil {
			f(&fs)
		}
		qs = append(qs, query{name: fmt.Sprintf("c%d:%s", c, name), cnr: c, fs: fs, attrs: attrs})
	}
	targets := map[string]oid.ID{}
	for _, u := range us {
		if u.target != "" && len(targets) < 6 {
			for _, t := range us {
				if t.name == u.target {
					targets[u.target] = t.id
				}
			}
		}
	}
	var tnames []string
	for n := range targets {
		tnames = append(tnames, n)
	}
	sort.Strings(tnames)
	for c := 0; c < ncnr; c++ {
		add("all", c, nil, nil)
		for _, t := range []object.Type{object.TypeRegular, object.TypeTombstone, object.TypeLock} {
			t := t
			add("type="+t.String(), c, nil, func(fs *object.SearchFilters) { fs.AddTypeFilter(object.MatchStringEqual, t) })
		}
		add("root", c, nil, func(fs *object.SearchFilters) { fs.AddRootFilter() })
		add("phy", c, nil, func(fs *object.SearchFilters) { fs.AddPhyFilter() })
		add("assoc-present", c, []string{attrAssoc}, func(fs *object.SearchFilters) { fs.AddFilter(attrAssoc, "", object.MatchCommonPrefix) })
		add("assoc-absent", c, nil, func(fs *object.SearchFilters) { fs.AddFilter(attrAssoc, "", object.MatchNotPresent) })
		for _, tn := range tnames {
			id := targets[tn]
			add("assoc="+tn, c, []string{attrAssoc}, func(fs *object.SearchFilters) { fs.AddFilter(attrAssoc, id.EncodeToString(), object.MatchStringEqual) })
			add("assoc="+tn+"/oid-sorted", c, nil, func(fs *object.SearchFilters) { fs.AddFilter(attrAssoc, id.EncodeToString(), object.MatchStringEqual) })
		}
		add("k=v", c, []string{"k"}, func(fs *object.SearchFilters) { fs.AddFilter("k", "v", object.MatchStringEqual) })
		add("n>=0", c, []string{"n"}, func(fs *object.SearchFilters) { fs.AddFilter("n", "0", object.MatchNumGE) })
		add("n<0", c, []string{"n"}, func(fs *object.SearchFilters) { fs.AddFilter("n", "0", object.MatchNumLT) })
		add("exp-present", c, []string{object.AttributeExpirationEpoch}, func(fs *object.SearchFilters) {
			fs.AddFilter(object.AttributeExpirationEpoch, "0", object.MatchNumGE)
		})
		add("homo-present", c, []string{attrHomo}, func(fs *object.SearchFilters) { fs.AddFilter(attrHomo, "", object.MatchCommonPrefix) })
	}
	return qs
}

func observe(db *meta.DB, ep *epochSrc, epochs []uint64, us []*uobj, qs []query, ncnr int) (map[string]string, error) {
	o := map[string]string{}
	for _, e := range epochs {
		ep.v.Store(e)
		pre := fmt.Sprintf("e%d/", e)
		for _, u := range us {
			ok, err := db.Exists(u.addr, false)
			s := cls(ok, err)
			if l, err := db.IsLocked(u.addr); err != nil {
				s += "+LERR"
			} else if l {
				s += "+L"
			}
			o[pre+"status/"+u.name] = s
			hdr, err := db.Get(u.addr, false)
			if err != nil {
				o[pre+"header/"+u.name] = cls(false, err)
			} else {
				sum := sha256.Sum256(hdr.Marshal())
				o[pre+"header/"+u.name] = hex.EncodeToString(sum[:8])
			}
		}
		for _, q := range qs {
			ofs, cur, err := objectcore.PreprocessSearchQuery(q.fs, q.attrs, "")
			if err != nil {
				o[pre+"search/"+q.name] = "preprocess:" + err.Error()
				continue
			}
			res, _, err := db.Search(cnrs[q.cnr], ofs, q.attrs, cur, 1000)
			if err != nil {
				o[pre+"search/"+q.name] = "error:" + err.Error()
				continue
			}
			h := sha256.New()
			for _, it := range res {
				h.Write(it.ID[:])
				for _, a := range it.Attributes {
					fmt.Fprintf(h, "|%d:%s", len(a), a)
				}
			}
			o[pre+"search/"+q.name] = fmt.Sprintf("%d:%x", len(res), h.Sum(nil)[:6])
		}
		var exp []string
		if err := db.IterateExpired(e, func(a oid.Address, t object.Type) error {
			exp = append(exp, a.String()+":"+t.String())
			return nil
		}); err != nil {
			return nil, err
		}
		sort.Strings(exp)
		hs := sha256.Sum256([]byte(strings.Join(exp, ",")))
		o[pre+"expired-iteration"] = fmt.Sprintf("%d:%x", len(exp), hs[:6])
	}
	cc, err := db.ObjectCounters()
	if err != nil {
		return nil, err
	}
	o["counters/total"] = fmt.Sprintf("%+v", cc)
	for c := 0; c < ncnr; c++ {
		ci, err := db.GetContainerInfo(cnrs[c])
		if err != nil {
			return nil, err
		}
		o[fmt.Sprintf("counters/container-info/c%d", c)] = fmt.Sprintf("%+v", ci)
	}
	cl, err := db.Containers()
	if err != nil {
		return nil, err
	}
	var cs []string
	for _, c := range cl {
		cs = append(cs, c.String())
	}
	sort.Strings(cs)
	o["containers"] = strings.Join(cs, ",")
	bins, err := db.GetGarbage(100000)
	if err != nil {
		return nil, err
	}
	var gs []string
	for _, b := range bins {
		if len(b.Objects) == 0 {
			gs = append(gs, b.Container.String()+"/*")
		}
		for _, id := range b.Objects {
			gs = append(gs, b.Container.String()+"/"+id.String())
		}
	}
	sort.Strings(gs)
	hs := sha256.Sum256([]byte(strings.Join(gs, ",")))
	o["garbage"] = fmt.Sprintf("%d:%x", len(gs), hs[:6])
	return o, nil
}

func obsDiff(ref, got map[string]string) (string, string) {
	var ks []string
	for k := range ref {
		ks = append(ks, k)
	}
	sort.Strings(ks)
	for _, k := range ks {
		if ref[k] != got[k] {
			parts := strings.Split(k, "/")
			c := parts[0]
			if strings.HasPrefix(c, "e") && len(parts) > 1 {
				c = parts[1]
				if c == "search" && len(parts) > 2 {
					q := parts[2]
					if i := strings.Index(q, ":"); i >= 0 {
						q = q[i+1:]
					}
					if strings.HasPrefix(q, "assoc=") {
						q = "assoc=<target>" + strings.TrimLeft(strings.TrimPrefix(q, "assoc="), "ABCDEFGHIJKLMNOPQRSTUVWXYZabcdefghijklmnopqrstuvwxyz0123456789-")
					}
					c += ":" + q
				}
			} else if len(parts) > 1 {
				c += ":" + parts[1]
			}
			return c, fmt.Sprintf("%s: never-downgraded=%q, upgraded=%q", k, ref[k], got[k])
		}
	}
	return "", ""
}

// ---------------------------------------------------------------------------------------------
// the experiment on one state

type stateCase struct {
	Label string   // "history" or "bulk"
	Ops   []string // history
}

type checker struct {
	r         *ev.Run
	scratch   string
	seq       atomic.Int64
	pollsSeen sync.Map
	obsSeen   sync.Map
	maxPolls  atomic.Int64
}

func (c *checker) tmp() string {
	return filepath.Join(c.scratch, fmt.Sprintf("db-%d", c.seq.Add(1)))
}

func copyFile(dst string, data []byte) error { return os.WriteFile(dst, data, 0o600) }

// upgrade opens the file with an init context interrupting at the k-th poll. Returns whether Init
// succeeded, the number of polls seen, and the observables/dump after closing.
func (c *checker) upgrade(path string, k int, ep *epochSrc) (ok bool, polls int, err error) {
	ctx := newPollCtx(k)
	db, err := openMeta(path, ep, ctx)
	polls = ctx.polls()
	if err != nil {
		if errors.Is(err, context.Canceled) {
			return false, polls, nil
		}
		return false, polls, err
	}
	return true, polls, db.Close()
}

func fileVersion(d []kv) uint64 {
	for _, e := range d {
		if e.b == "\x05" && e.k == "version" && len(e.v) == 8 {
			return binary.LittleEndian.Uint64([]byte(e.v))
		}
	}
	return 0
}

func (c *checker) experiment(sc stateCase, orig []byte, us []*uobj, qs []query, ncnr int, epochs []uint64, double, par bool) {
	r := c.r
	ep := &epochSrc{}
	what := func(s string, a ...any) string {
		h := sc.Label
		if len(sc.Ops) > 0 {
			h = "history [" + strings.Join(sc.Ops, "; ") + "]"
		}
		return h + ": " + fmt.Sprintf(s, a...)
	}
	// reference: the never-downgraded DB, opened by the current code
	refPath := c.tmp()
	defer os.Remove(refPath)
	if err := copyFile(refPath, orig); err != nil {
		r.Fatal("%v", err)
	}
	db, err := openMeta(refPath, ep, context.Background())
	if err != nil {
		r.Fatal("open reference: %v", err)
	}
	refObs, err := observe(db, ep, epochs, us, qs, ncnr)
	if err != nil {
		r.Fatal("observe reference: %v", err)
	}
	db.Close()
	{
		var ks []string
		for k, v := range refObs {
			if strings.Contains(k, "/status/") || strings.HasPrefix(k, "counters/total") {
				ks = append(ks, k[strings.Index(k, "/")+1:]+"="+v)
			}
		}
		sort.Strings(ks)
		c.obsSeen.Store(strings.Join(ks, ";"), true)
	}
	refDump, err := rawDump(refPath)
	if err != nil {
		r.Fatal("%v", err)
	}
	forEach := func(n int, f func(i int)) {
		if par {
			enumx.Parallel(n, f)
			return
		}
		for i := 0; i < n; i++ {
			f(i)
		}
	}
	forEach(2, func(vi int) {
		ver := []int{10, 9}[vi]
		ep := &epochSrc{} // per-version epoch source (versions may run concurrently)
		oldPath := c.tmp()
		if err := copyFile(oldPath, orig); err != nil {
			r.Fatal("%v", err)
		}
		if err := downconvert(oldPath, ver, us); err != nil {
			r.Fatal("downconvert: %v", err)
		}
		old, err := os.ReadFile(oldPath)
		if err != nil {
			r.Fatal("%v", err)
		}
		os.Remove(oldPath)
		fpv := fmt.Sprintf("from-v%d:", ver)
		// (a) uninterrupted
		up := c.tmp()
		copyFile(up, old)
		ok, npolls, err := c.upgrade(up, 0, ep)
		r.Eval(1)
		if err != nil || !ok {
			r.Violation(fpv+"upgrade-fails", what("uninterrupted upgrade from format %d failed: ok=%v err=%v", ver, ok, err), sc)
			os.Remove(up)
			return
		}
		c.pollsSeen.Store(fmt.Sprintf("v%d/%d", ver, npolls), true)
		for {
			o := c.maxPolls.Load()
			if int64(npolls) <= o || c.maxPolls.CompareAndSwap(o, int64(npolls)) {
				break
			}
		}
		upDump, err := rawDump(up)
		if err != nil {
			r.Fatal("%v", err)
		}
		if v := fileVersion(upDump); v != 11 {
			r.Violation(fpv+"version-not-current", what("after the upgrade from format %d the stored version is %d", ver, v), sc)
		}
		db, err := openMeta(up, ep, context.Background())
		if err != nil {
			r.Violation(fpv+"upgraded-db-does-not-open", what("reopen after upgrade from %d: %v", ver, err), sc)
			os.Remove(up)
			return
		}
		upObs, err := observe(db, ep, epochs, us, qs, ncnr)
		db.Close()
		if err != nil {
			r.Fatal("observe: %v", err)
		}
		if cl, w := obsDiff(refObs, upObs); cl != "" {
			r.Violation(fpv+"observable-changed:"+cl, what("upgrade from format %d changed %s", ver, w), sc)
		}
		if cl, w := dumpDiff(refDump, upDump); cl != "" {
			r.Violation(fpv+"raw-content-differs:"+cl, what("after upgrade from format %d, compared with the never-downgraded file: %s", ver, w), sc)
		}
		os.Remove(up)
		// (b) interrupted at every poll k, then resumed
		var ks [][]int
		for k := 1; k <= npolls; k++ {
			ks = append(ks, []int{k})
			if double {
				for k2 := 1; k2 <= npolls; k2++ {
					ks = append(ks, []int{k, k2})
				}
			}
		}
		forEach(len(ks), func(ki int) {
			kk := ks[ki]
			ep := &epochSrc{}
			p := c.tmp()
			copyFile(p, old)
			r.Eval(1)
			bad := false
			for i, k := range kk {
				ok, _, err := c.upgrade(p, k, ep)
				if err != nil {
					r.Violation(fpv+"interrupted-upgrade-error", what("upgrade from %d interrupted at polls %v (step %d): unexpected error %v", ver, kk, i, err), sc)
					bad = true
					break
				}
				if ok && i == 0 {
					// the k-th poll exists (k <= npolls of the uninterrupted run), so Init must have been interrupted
					r.Violation(fpv+"interruption-ignored", what("upgrade from %d: context closed at poll %d of %d but Init succeeded", ver, k, npolls), sc)
				}
				if ok {
					break
				}
				mid, err := rawDump(p)
				if err != nil {
					r.Violation(fpv+"file-unreadable-after-interruption", what("upgrade from %d interrupted at %v: %v", ver, kk, err), sc)
					bad = true
					break
				}
				if v := fileVersion(mid); v == 11 {
					r.Violation(fpv+"version-bumped-by-interrupted-upgrade", what("upgrade from %d interrupted at poll %v returned an error but the stored version is already 11", ver, kk), sc)
				}
			}
			if bad {
				os.Remove(p)
				return
			}
			ok, _, err := c.upgrade(p, 0, ep)
			if err != nil || !ok {
				r.Violation(fpv+"resume-fails", what("upgrade from %d interrupted at polls %v cannot be resumed: ok=%v err=%v", ver, kk, ok, err), sc)
				os.Remove(p)
				return
			}
			d, err := rawDump(p)
			if err != nil {
				r.Fatal("%v", err)
			}
			if cl, w := dumpDiff(upDump, d); cl != "" {
				r.Violation(fpv+"resumed-differs-from-uninterrupted:"+cl, what("upgrade from %d interrupted at polls %v then resumed, compared with the uninterrupted upgrade: %s", ver, kk, w), sc)
			}
			os.Remove(p)
		})
	})
}

// ---------------------------------------------------------------------------------------------
// histories

type hop struct {
	name string
	do   func(db *meta.DB, ep *epochSrc) error
}

func mkAlphabet(us []*uobj) []hop {
	by := map[string]*uobj{}
	for _, u := range us {
		by[u.name] = u
	}
	var a []hop
	for _, u := range us {
		if u.k == kVirtual {
			continue
		}
		u := u
		a = append(a, hop{"Put(" + u.name + ")", func(db *meta.DB, _ *epochSrc) error { return db.Put(u.obj) }})
	}
	a = append(a,
		hop{"MarkGarbage(R1)", func(db *meta.DB, _ *epochSrc) error {
			_, err := db.MarkGarbage(cnrs[0], []oid.ID{by["R1"].id}, meta.GarbageMarkDefault)
			return err
		}},
		hop{"MarkRedundant(R3)", func(db *meta.DB, _ *epochSrc) error {
			_, err := db.MarkGarbage(cnrs[1], []oid.ID{by["R3"].id}, meta.GarbageMarkRedundant)
			return err
		}},
		hop{"Delete(R2)", func(db *meta.DB, _ *epochSrc) error {
			_, _, err := db.Delete(cnrs[0], []oid.ID{by["R2"].id})
			return err
		}},
		hop{"InhumeContainer(cB)", func(db *meta.DB, _ *epochSrc) error { _, err := db.InhumeContainer(cnrs[1]); return err }},
		hop{"Epoch+4", func(_ *meta.DB, ep *epochSrc) error { ep.v.Add(4); return nil }},
	)
	return a
}

func (c *checker) buildHistory(alpha []hop, seq []int) ([]byte, []string, uint64) {
	p := c.tmp()
	defer os.Remove(p)
	ep := &epochSrc{}
	db, err := openMeta(p, ep, context.Background())
	if err != nil {
		c.r.Fatal("open: %v", err)
	}
	var ops []string
	for _, i := range seq {
		res := "ok"
		if err := alpha[i].do(db, ep); err != nil {
			res = "rejected"
		}
		ops = append(ops, alpha[i].name+"="+res)
	}
	db.Close()
	data, err := os.ReadFile(p)
	if err != nil {
		c.r.Fatal("%v", err)
	}
	return data, ops, ep.v.Load()
}

// ---------------------------------------------------------------------------------------------
// bulk state: sizes chosen so that batches end exactly at a container boundary (1000), inside a
// container, and so that both migration loops need several transactions.

func bulkUniverse(scale int) ([]*uobj, func(db *meta.DB) error) {
	var us []*uobj
	type plan struct {
		cnr          int
		regs, assocs int
	}
	plans := []plan{{0, 1000 * scale, 1000 * scale}, {1, 1200 * scale, 700 * scale}, {2, 400 * scale, 800 * scale}}
	for _, pl := range plans {
		for i := 0; i < pl.regs; i++ {
			u := &uobj{name: fmt.Sprintf("b%d-R%d", pl.cnr, i), k: kReg, cnr: pl.cnr, homo: true}
			if i%7 == 0 {
				u.exp = uint64(2 + i%5)
			}
			if i%5 == 0 {
				u.attrs = [][2]string{{"k", "v"}, {"n", fmt.Sprint(i - 50)}}
			}
			us = append(us, u)
		}
		for i := 0; i < pl.assocs; i++ {
			tgt := fmt.Sprintf("b%d-R%d", pl.cnr, i%max(pl.regs, 1))
			if i%11 == 0 {
				tgt = fmt.Sprintf("b%d-absent%d", pl.cnr, i)
			}
			u := &uobj{name: fmt.Sprintf("b%d-A%d", pl.cnr, i), cnr: pl.cnr, target: tgt}
			if i%2 == 0 {
				u.k = kLock
				if i%4 == 0 {
					u.exp = 6
				}
			} else {
				u.k = kTomb
				u.exp = 9
			}
			us = append(us, u)
		}
	}
	for _, u := range us {
		u.build(mkID)
	}
	put := func(db *meta.DB) error {
		var batch []*object.Object
		for _, u := range us {
			batch = append(batch, u.obj)
			if len(batch) == 500 {
				if err := db.PutBatch(batch); err != nil {
					return err
				}
				batch = batch[:0]
			}
		}
		if err := db.PutBatch(batch); err != nil {
			return err
		}
		// a few garbage marks
		var ids []oid.ID
		for _, u := range us[:40] {
			if u.k == kReg {
				ids = append(ids, u.id)
			}
		}
		_, err := db.MarkGarbage(cnrs[0], ids[:10], meta.GarbageMarkDefault)
		return err
	}
	return us, put
}

func main() {
	r := ev.Start("C42", ev.FaultEnum)
	scratch, err := os.MkdirTemp("/dev/shm", "verif-c42-")
	if err != nil {
		r.Fatal("scratch: %v", err)
	}
	defer os.RemoveAll(scratch)
	for i := range cnrs {
		cnrs[i] = cid.ID(h32(fmt.Sprintf("cnr-%d", i)))
		cnrs[i][0] = byte(0x20 * (i + 1))
	}
	h := h32("owner")
	owner = user.NewFromScriptHash([20]byte(h[:20]))
	c := &checker{r: r, scratch: scratch}
	us := smallUniverse()
	qs := mkQueries(us, 2)
	alpha := mkAlphabet(us)
	opIdx := map[string]int{}
	for i, a := range alpha {
		opIdx[a.name] = i
	}
	finish := func() { os.RemoveAll(scratch); r.Finish() }

	bulkEpochs := []uint64{7}
	if r.Thorough() {
		bulkEpochs = []uint64{1, 7}
	}
	runBulk := func(scale int) {
		bus, put := bulkUniverse(scale)
		p := c.tmp()
		ep := &epochSrc{}
		ep.v.Store(1)
		db, err := openMeta(p, ep, context.Background())
		if err != nil {
			r.Fatal("bulk open: %v", err)
		}
		if err := put(db); err != nil {
			r.Fatal("bulk put: %v", err)
		}
		db.Close()
		data, _ := os.ReadFile(p)
		os.Remove(p)
		c.experiment(stateCase{Label: fmt.Sprintf("bulk state x%d (per container regular/association objects: 1000/1000, 1200/700, 400/800)", scale)},
			data, bus, mkQueries(bus, 3), 3, bulkEpochs, r.Thorough(), true)
		r.Nontrivial("bulk")
	}

	if r.Replay != "" {
		var sc stateCase
		r.LoadReplay(&sc)
		if strings.HasPrefix(sc.Label, "bulk") {
			runBulk(1)
			finish()
		}
		var seq []int
		for _, o := range sc.Ops {
			n := o[:strings.LastIndex(o, "=")]
			i, ok := opIdx[n]
			if !ok {
				r.Fatal("unknown op %q", n)
			}
			seq = append(seq, i)
		}
		data, ops, e := c.buildHistory(alpha, seq)
		c.experiment(stateCase{Label: "history", Ops: ops}, data, us, qs, 2, []uint64{e, e + 5}, true, false)
		finish()
	}

	// bulk first (it is the part that exercises the batch loops)
	var bulkWG sync.WaitGroup
	bulkWG.Add(1)
	go func() {
		defer bulkWG.Done()
		tb := time.Now()
		runBulk(1)
		if os.Getenv("VERIF_DEBUG") != "" {
			fmt.Println("bulk took", time.Since(tb))
		}
	}()

	maxDepth := 2
	if r.Thorough() {
		maxDepth = 3
	}
	exhaustive := true
	seen := sync.Map{}
	var nstates atomic.Int64
	depthDone := -1
	for d := 0; d <= maxDepth; d++ {
		var seqs [][]int
		last := len(alpha) - 1
		enumx.Seqs(len(alpha), d, func(s []int) bool {
			var used uint64
			for _, o := range s {
				if o != last && used&(1<<uint(o)) != 0 {
					return true // repeating a put/mark/delete is a no-op
				}
				used |= 1 << uint(o)
			}
			seqs = append(seqs, append([]int(nil), s...))
			return true
		})
		var aborted atomic.Bool
		enumx.Parallel(len(seqs), func(i int) {
			if r.Expired() {
				aborted.Store(true)
				return
			}
			data, ops, e := c.buildHistory(alpha, seqs[i])
			// state identity: logical content + epoch
			p := c.tmp()
			copyFile(p, data)
			d, err := rawDump(p)
			os.Remove(p)
			if err != nil {
				r.Fatal("%v", err)
			}
			key := fmt.Sprintf("%s/%d", dumpHash(d), e)
			if _, dup := seen.LoadOrStore(key, true); dup {
				return
			}
			nstates.Add(1)
			hasAssoc := false
			for _, x := range d {
				if strings.Contains(x.k, attrAssoc) {
					hasAssoc = true
				}
			}
			if hasAssoc {
				r.Nontrivial(key)
			}
			sc := stateCase{Label: "history", Ops: ops}
			c.experiment(sc, data, us, qs, 2, []uint64{e, e + 5}, r.Thorough(), false)
			if hasAssoc && len(ops) >= 3 {
				r.Sample(map[string]any{"history": ops, "epoch": e, "raw_keys": len(d)})
			}
		})
		if aborted.Load() {
			exhaustive = false
			break
		}
		depthDone = d
	}
	bulkWG.Wait()
	var pc []string
	c.pollsSeen.Range(func(k, _ any) bool { pc = append(pc, k.(string)); return true })
	sort.Strings(pc)
	r.Set("distinct_final_states", nstates.Load())
	r.Set("depth_completed", depthDone)
	r.Set("poll_counts_seen(version/polls)", pc)
	r.Set("max_interruption_points", c.maxPolls.Load())
	nobs := 0
	c.obsSeen.Range(func(_, _ any) bool { nobs++; return true })
	r.Set("outcome_classes", nobs)
	r.Set("outcome_classes_note", "distinct (status vector, counters) of the never-downgraded reference databases")
	r.Rule("every operation sequence of length <= depth over 16 ops (10 puts incl. split children, tombstones, locks, absent target; garbage marks; Delete; InhumeContainer; epoch+4) on the real metabase, deduplicated by raw content -> for each distinct final state and for the bulk state (5900 objects in 3 containers, 2500 association entries and 2600 homomorphic index entries, container sizes hitting the 1000-entry batch boundary exactly): down-convert to format 10 and 9, upgrade uninterrupted and interrupted at EVERY poll k of the init context (and every second interruption k2), resume; evaluation = one upgrade run; non-trivial = state containing at least one association entry (the bulk state counts as one)")
	r.Exhaustive(exhaustive)
	r.Assume("old formats are fabricated from VERSION.md: base58 association values, homomorphic hash indexes, (format 9) global counters + container volume bucket 3 and no per-container counters; counters in the old file are the correct ones (a real old file may carry wrong counters, which the upgrade deliberately recomputes)",
		"every container still exists (Containers.Exists = true); interruption = graceful cancellation between migration transactions (process crashes inside a transaction are bbolt's atomicity)")
	finish()
}
