// C43: shard behaviour always matches its reported mode, after any sequence of mode changes including
// ones where a component fails to switch; returning to read-write restores full service.
//
// seqx BFS over SetMode(m) x one injected component failure per step on a real shard (FSTree behind
// a fault wrapper, bbolt metabase with an OpenFile hook, optional real write-cache whose directory
// can be made un-openable). After every step, on that very (disposable) instance:
//  1. a probe battery (put / get / head / delete / mark garbage / list / flush) must be answered as
//     the mode table (docs/shard-modes.md) says for the mode Shard.GetMode() reports;
//  2. SetMode(read-write) without any fault must succeed, after which every object stored before the
//     mode changes reads back byte-identical and the read-write battery passes.
package main

import (
	"bytes"
	"errors"
	"fmt"
	"os"
	"path/filepath"
	"sort"
	"strings"
	"sync"
	"sync/atomic"

	"github.com/nspcc-dev/neofs-node/pkg/local_object_storage/blobstor/common"
	meta "github.com/nspcc-dev/neofs-node/pkg/local_object_storage/metabase"
	"github.com/nspcc-dev/neofs-node/pkg/local_object_storage/shard"
	"github.com/nspcc-dev/neofs-node/pkg/local_object_storage/shard/mode"
	"github.com/nspcc-dev/neofs-node/verif/lib/ev"
	"github.com/nspcc-dev/neofs-node/verif/lib/seqx"
	sw "github.com/nspcc-dev/neofs-node/verif/worlds/shardworld"
	apistatus "github.com/nspcc-dev/neofs-sdk-go/client/status"
	cid "github.com/nspcc-dev/neofs-sdk-go/container/id"
	"github.com/nspcc-dev/neofs-sdk-go/object"
	oid "github.com/nspcc-dev/neofs-sdk-go/object/id"
)

var modes = []mode.Mode{mode.ReadWrite, mode.ReadOnly, mode.Degraded, mode.DegradedReadOnly}

func mname(m mode.Mode) string {
	switch m {
	case mode.ReadWrite:
		return "RW"
	case mode.ReadOnly:
		return "RO"
	case mode.Degraded:
		return "DEG"
	case mode.DegradedReadOnly:
		return "DRO"
	}
	return m.String()
}

const (
	fNone = iota
	fMetaOpen
	fBlobClose
	fBlobOpen
	fBlobInit
	fWCDir
	fBlobWrite
	nFaults
)

var faultName = []string{"none", "metabase-open-fails", "blobstor-close-fails", "blobstor-open-fails", "blobstor-init-fails", "write-cache-dir-unopenable", "blobstor-write-fails"}

type config struct {
	WC   bool
	dir  string
	objs map[string][]byte // objects stored before the mode changes
}

func (c *config) name() string {
	if c.WC {
		return "wc"
	}
	return "nowc"
}

var (
	scratch  string
	seqN     atomic.Int64
	maxDepth int
	image    = []sw.ObjSpec{{Cnr: "A", Label: "a1", Size: 40}, {Cnr: "A", Label: "a2", Size: 70}, {Cnr: "B", Label: "b1", Size: 10}}
	errInj   = errors.New("injected component failure")
)

func newDir(n string) string { return filepath.Join(scratch, fmt.Sprintf("%s-%d", n, seqN.Add(1))) }

type sys struct {
	c        *config
	dir      string
	w        *sw.World
	fs       *sw.FaultyStorage
	metaFail atomic.Bool
	key      string
	lastErr  bool // the most recent SetMode returned an error
	// the mode the shard reports now was put in place by a SetMode call that returned an error
	modeSetByFailed bool
	steps           []string
}

func die(f string, a ...any) {
	fmt.Printf("HARNESS-ERROR property=C43: %s\n", fmt.Sprintf(f, a...))
	os.RemoveAll(scratch)
	os.Exit(2)
}

func (c *config) open(dir string, s *sys) (*sw.World, error) {
	// payments on, container A unpaid since epoch 0: a new-epoch event wants to drop it
	cfg := sw.Config{Dir: dir, WriteCache: c.WC, Payments: &sw.Payments{Unpaid: map[cid.ID]int64{sw.CID("A"): 0}}}
	if s != nil {
		cfg.WrapStorage = func(st common.Storage) common.Storage { s.fs = sw.NewFaultyStorage(st); return s.fs }
		cfg.MetaOpenFile = func(p string, flag int, perm os.FileMode) (*os.File, error) {
			if s.metaFail.Swap(false) {
				return nil, errInj
			}
			return os.OpenFile(p, flag, perm)
		}
	}
	return sw.Open(cfg)
}

func (c *config) build() {
	c.dir = newDir("image")
	w, err := c.open(c.dir, nil)
	if err != nil {
		die("image: %v", err)
	}
	for i, sp := range image {
		if err := w.Sh.Put(sw.NewObject(sp), nil); err != nil {
			die("image put: %v", err)
		}
		if i == 0 && c.WC && !w.Tick() {
			die("virtual flush ticker unavailable")
		}
	}
	if err := w.Close(); err != nil {
		die("image close: %v", err)
	}
	blob, wc, err := sw.RawObjects(c.dir)
	if err != nil {
		die("%v", err)
	}
	c.objs = map[string][]byte{}
	for a, b := range blob {
		c.objs[a] = b
	}
	for a, b := range wc {
		c.objs[a] = b
	}
	if len(c.objs) != len(image) || (c.WC && (len(wc) != 2 || len(blob) != 1)) {
		die("image %s: %d blob + %d cached objects", c.name(), len(blob), len(wc))
	}
}

func (c *config) newSys() *sys {
	s := &sys{c: c, dir: newDir("run")}
	if err := sw.CopyTree(c.dir, s.dir); err != nil {
		die("%v", err)
	}
	w, err := c.open(s.dir, s)
	if err != nil {
		die("open: %v", err)
	}
	s.w = w
	s.computeKey()
	return s
}

func (s *sys) Close() {
	s.w.Close()
	os.RemoveAll(s.dir)
}

func (s *sys) components() string {
	mm, mo, wm := s.w.Sh.VerifC43ComponentModes()
	ro, closed := s.fs.State()
	b := "rw"
	if ro {
		b = "ro"
	}
	if closed {
		b += "/closed"
	}
	ms := mname(mm)
	if !mo && !mm.NoMetabase() {
		ms += "/closed"
	}
	out := "meta=" + ms + " blob=" + b
	if s.c.WC {
		out += " wc=" + mname(wm)
	}
	return out
}

// deviation names the primary way the components differ from the mode the shard reports
// ("" = every component is in the reported mode).
func (s *sys) deviation() string {
	m := s.w.Sh.GetMode()
	mm, mo, wm := s.w.Sh.VerifC43ComponentModes()
	ro, closed := s.fs.State()
	switch {
	case !m.NoMetabase() && !mo:
		return "metabase-handle-closed"
	case !m.ReadOnly() && ro:
		return "blobstor-read-only-under-writable-mode"
	case closed:
		return "blobstor-closed"
	case m.ReadOnly() && !ro:
		return "blobstor-writable-under-read-only-mode"
	case mm != m:
		return "metabase-in-other-mode"
	case s.c.WC && wm != m:
		return "write-cache-in-other-mode"
	}
	return ""
}

func (s *sys) computeKey() {
	blob, err := sw.SnapTree(sw.BlobDir(s.dir))
	if err != nil {
		die("%v", err)
	}
	wc, err := sw.SnapTree(sw.WCDir(s.dir))
	if err != nil {
		die("%v", err)
	}
	s.key = fmt.Sprintf("reported=%s %s |blob=%s wc=%s wcacct=%s", mname(s.w.Sh.GetMode()), s.components(), blob.Hash()[:12], wc.Hash()[:12], s.w.WCCounters())
}

func opName(c *config, i int) string {
	return fmt.Sprintf("[%s] SetMode(%s)+%s", c.name(), mname(modes[i/nFaults]), faultName[i%nFaults])
}

func (s *sys) Apply(i int) (string, bool) {
	m, f := modes[i/nFaults], i%nFaults
	if f == fWCDir && !s.c.WC {
		return "", false
	}
	wcDir, away := sw.WCDir(s.dir), sw.WCDir(s.dir)+".away"
	switch f {
	case fMetaOpen:
		s.metaFail.Store(true)
	case fBlobClose:
		s.fs.Arm(nil, nil, errInj, nil)
	case fBlobOpen:
		s.fs.Arm(errInj, nil, nil, nil)
	case fBlobInit:
		s.fs.Arm(nil, errInj, nil, nil)
	case fBlobWrite: // every Put/PutBatch into the blobstor fails while the switch runs (e.g. a flush)
		s.fs.ArmWrites(errInj)
	case fWCDir: // a regular file sits where the cache directory should be
		if err := os.Rename(wcDir, away); err != nil {
			die("%v", err)
		}
		if err := os.WriteFile(wcDir, []byte("x"), 0o600); err != nil {
			die("%v", err)
		}
	}
	reportedBefore := s.w.Sh.GetMode()
	err := safe(func() error { return s.w.SetMode(m) })
	switch {
	case err == nil:
		s.modeSetByFailed = false
	case s.w.Sh.GetMode() != reportedBefore:
		s.modeSetByFailed = true
	}
	// the fault lasts for this step only
	s.metaFail.Store(false)
	s.fs.Arm(nil, nil, nil, nil)
	s.fs.ArmWrites(nil)
	if f == fWCDir {
		if e := os.Remove(wcDir); e != nil {
			die("%v", e)
		}
		if e := os.Rename(away, wcDir); e != nil {
			die("%v", e)
		}
	}
	obs := "ok"
	s.lastErr = err != nil
	if err != nil {
		obs = "error"
	}
	s.steps = append(s.steps, fmt.Sprintf("SetMode(%s)+%s -> %s; now reported=%s %s", mname(m), faultName[f], obs, mname(s.w.Sh.GetMode()), s.components()))
	s.computeKey()
	return obs + "/reported=" + mname(s.w.Sh.GetMode()), true
}

func (s *sys) Key() string { return s.key }

// ---------- probe battery ----------

type panicErr struct{ v any }

func (p panicErr) Error() string { return fmt.Sprintf("PANIC: %v", p.v) }

// safe runs one shard call and turns a panic inside the implementation into an error.
func safe(f func() error) (err error) {
	defer func() {
		if x := recover(); x != nil {
			err = panicErr{x}
		}
	}()
	return f()
}

func cls(err error) string {
	var pe panicErr
	switch {
	case err == nil:
		return "ok"
	case errors.As(err, &pe):
		return "PANIC"
	case errors.Is(err, shard.ErrReadOnlyMode):
		return "ErrReadOnlyMode"
	case errors.Is(err, shard.ErrDegradedMode):
		return "ErrDegradedMode"
	case errors.Is(err, apistatus.ErrObjectNotFound):
		return "not-found"
	case errors.Is(err, meta.ErrReadOnlyMode), errors.Is(err, meta.ErrDegradedMode):
		return "metabase-mode-error"
	default:
		return "other-error"
	}
}

type probe struct {
	Name, Got, Want, Detail string
}

func (s *sys) get(a oid.Address, want []byte) (string, string) {
	var o *object.Object
	err := safe(func() (e error) { o, e = s.w.Sh.Get(a, false); return })
	if err != nil {
		return cls(err), err.Error()
	}
	if !bytes.Equal(o.Marshal(), want) {
		return "wrong-bytes", ""
	}
	return "ok", ""
}

// battery probes the live shard and returns the probes whose answer differs from what mode m promises.
// tag keeps the probe objects of the two batteries apart.
func (s *sys) battery(m mode.Mode, tag string) []probe {
	var out []probe
	exp := func(name, got, detail string, want ...string) {
		for _, w := range want {
			if got == w {
				return
			}
		}
		out = append(out, probe{name, got, strings.Join(want, "|"), detail})
	}
	sh := s.w.Sh
	// reads of the objects stored before the mode changes work in every mode
	for a, b := range s.c.objs {
		var addr oid.Address
		_ = addr.DecodeString(a)
		g, d := s.get(addr, b)
		exp("Get(stored)", g, d, "ok")
		err := safe(func() error { _, e := sh.Head(addr, false); return e })
		exp("Head(stored)", cls(err), fmt.Sprint(err), "ok")
	}
	err := safe(func() error { _, e := sh.List(); return e })
	if m.NoMetabase() {
		exp("List", cls(err), fmt.Sprint(err), "ErrDegradedMode")
	} else {
		exp("List", cls(err), fmt.Sprint(err), "ok")
	}
	p1 := sw.ObjSpec{Cnr: "A", Label: "probe1-" + tag, Size: 21}
	p2 := sw.ObjSpec{Cnr: "B", Label: "probe2-" + tag, Size: 5}
	o1, o2 := sw.NewObject(p1), sw.NewObject(p2)
	e1 := safe(func() error { return sh.Put(o1, nil) })
	e2 := safe(func() error { return sh.Put(o2, nil) })
	switch {
	case m.ReadOnly():
		exp("Put", cls(e1), fmt.Sprint(e1), "ErrReadOnlyMode")
		exp("Put", cls(e2), fmt.Sprint(e2), "ErrReadOnlyMode")
		err = safe(func() error { return sh.Delete(sw.CID("A"), []oid.ID{sw.OID("a1")}) })
		exp("Delete", cls(err), fmt.Sprint(err), "ErrReadOnlyMode")
		err = safe(func() error { return sh.MarkGarbage(sw.CID("A"), []oid.ID{sw.OID("a1")}, meta.GarbageMarkDefault) })
		exp("MarkGarbage", cls(err), fmt.Sprint(err), "ErrReadOnlyMode")
		err = safe(func() error { return sh.InhumeContainer(sw.CID("B")) })
		exp("InhumeContainer", cls(err), fmt.Sprint(err), "ErrReadOnlyMode")
		if s.c.WC {
			err = safe(func() error { return sh.FlushWriteCache(false) })
			exp("FlushWriteCache", cls(err), fmt.Sprint(err), "ErrReadOnlyMode")
		}
	default:
		exp("Put", cls(e1), fmt.Sprint(e1), "ok")
		exp("Put", cls(e2), fmt.Sprint(e2), "ok")
		if e1 == nil {
			g, d := s.get(o1.Address(), o1.Marshal())
			exp("Get(just put)", g, d, "ok")
		}
		err = safe(func() error { return sh.Delete(o2.GetContainerID(), []oid.ID{o2.GetID()}) })
		err2 := safe(func() error {
			return sh.MarkGarbage(o1.GetContainerID(), []oid.ID{o1.GetID()}, meta.GarbageMarkRedundant)
		})
		if m.NoMetabase() {
			exp("Delete", cls(err), fmt.Sprint(err), "ErrDegradedMode")
			exp("MarkGarbage", cls(err2), fmt.Sprint(err2), "ErrDegradedMode")
		} else {
			exp("Delete", cls(err), fmt.Sprint(err), "ok")
			exp("MarkGarbage", cls(err2), fmt.Sprint(err2), "ok")
			if err == nil && e2 == nil {
				g, d := s.get(o2.Address(), nil)
				exp("Get(just deleted)", g, d, "not-found")
			}
			if s.c.WC {
				err = safe(func() error { return sh.FlushWriteCache(false) })
				exp("FlushWriteCache", cls(err), fmt.Sprint(err), "ok")
			}
		}
	}
	return out
}

var (
	fpMu  sync.Mutex
	fpAll = map[string]string{}
)

func (s *sys) Check() (fp string, what string) {
	defer func() {
		if fp != "" {
			fpMu.Lock()
			if old, ok := fpAll[fp]; !ok || len(what) < len(old) {
				fpAll[fp] = what
			}
			fpMu.Unlock()
		}
	}()
	m := s.w.Sh.GetMode()
	// class = did the last SetMode claim success? + what is off underneath
	how := "last-SetMode-returned-ok"
	if s.lastErr {
		how = "last-SetMode-returned-error"
	}
	if d := s.deviation(); d != "" {
		how += ":" + d
	} else {
		how += ":all-components-in-reported-mode"
	}
	trail := strings.Join(s.steps, " ; ")
	// While the shard REPORTS a read-only mode its background jobs must not touch stored data,
	// whatever the components underneath are really doing (C14's snapshot oracle, after every step).
	if m.ReadOnly() {
		before, err := sw.SnapPersisted(s.dir)
		if err != nil {
			die("%v", err)
		}
		wcBefore := s.w.WCCounters()
		var bg []string
		if s.c.WC && s.w.Tick() {
			bg = append(bg, "flush tick")
		}
		if perr := safe(func() error { s.w.GCPass(); return nil }); perr != nil {
			return how + ":reported=" + mname(m) + ":GCPass=PANIC", fmt.Sprintf("[%s] %s || %v", s.c.name(), trail, perr)
		}
		if perr := safe(func() error { s.w.NewEpoch(5); return nil }); perr != nil {
			return how + ":reported=" + mname(m) + ":NewEpoch=PANIC", fmt.Sprintf("[%s] %s || %v", s.c.name(), trail, perr)
		}
		bg = append(bg, "GC pass", "new-epoch event")
		after, err := sw.SnapPersisted(s.dir)
		if err != nil {
			die("%v", err)
		}
		d, err := before.Diff(after, s.dir)
		if err != nil {
			die("%v", err)
		}
		if wcAfter := s.w.WCCounters(); wcAfter != wcBefore {
			d = append(d, "write-cache-accounting:"+wcBefore+"->"+wcAfter)
		}
		if len(d) > 0 {
			_, _, wm := s.w.Sh.VerifC43ComponentModes()
			wcWritable := s.c.WC && !wm.ReadOnly()
			cause := "other(" + how + ")"
			switch {
			case s.modeSetByFailed:
				cause = "reported-mode-was-set-by-a-SetMode-that-returned-an-error"
			case wcWritable && s.lastErr:
				cause = "write-cache-left-writable-by-a-failed-SetMode"
			case wcWritable:
				cause = "write-cache-writable-after-a-successful-SetMode"
			}
			return fmt.Sprintf("reported=%s:background-jobs-changed-stored-data:%s", mname(m), cause),
				fmt.Sprintf("[%s] %s || shard reports %s (%s) but %s changed the persisted state: %v", s.c.name(), trail, mname(m), s.components(), strings.Join(bg, " + "), d)
		}
	}
	if bad := s.battery(m, "x"); len(bad) > 0 {
		p := bad[0]
		return fmt.Sprintf("%s:reported=%s:%s=%s", how, mname(m), p.Name, p.Got),
			fmt.Sprintf("[%s] %s || shard reports %s (%s) but %s answered %s, the mode table says %s (%s); %d probe(s) off", s.c.name(), trail, mname(m), s.components(), p.Name, p.Got, p.Want, p.Detail, len(bad))
	}
	// back to read-write, no faults
	if err := safe(func() error { return s.w.SetMode(mode.ReadWrite) }); err != nil {
		return how + ":return-to-read-write-refused", fmt.Sprintf("[%s] %s || final SetMode(RW): %v", s.c.name(), trail, err)
	}
	if got := s.w.Sh.GetMode(); got != mode.ReadWrite {
		return how + ":return-to-read-write-not-reported", fmt.Sprintf("[%s] %s || reports %s", s.c.name(), trail, mname(got))
	}
	if bad := s.battery(mode.ReadWrite, "y"); len(bad) > 0 {
		p := bad[0]
		return fmt.Sprintf("%s:after-return-to-read-write:%s=%s", how, p.Name, p.Got),
			fmt.Sprintf("[%s] %s ; SetMode(RW) -> ok (%s) || %s answered %s, want %s (%s); %d probe(s) off", s.c.name(), trail, s.components(), p.Name, p.Got, p.Want, p.Detail, len(bad))
	}
	return "", ""
}

// ---------- main ----------

func seqCfg(c *config) seqx.Config {
	return seqx.Config{NumOps: len(modes) * nFaults, OpName: func(i int) string { return opName(c, i) },
		New: func() seqx.Sys { return c.newSys() }, CheckInit: true, MaxDepth: maxDepth}
}

func main() {
	r := ev.Start("C43", ev.ModelChecking)
	scratch = sw.NewDir("verif-c43-")
	finish := func() { os.RemoveAll(scratch); r.Finish() }
	maxDepth = 3
	if r.Thorough() {
		maxDepth = 0 // until no new state appears (observed: depth 6, ~350 states)
	}
	cfgs := []*config{{WC: false}, {WC: true}}
	for _, c := range cfgs {
		c.build()
	}
	if r.Replay != "" {
		var rp struct{ Ops []string }
		r.LoadReplay(&rp)
		for _, c := range cfgs {
			if len(rp.Ops) > 0 && !strings.HasPrefix(rp.Ops[0], "["+c.name()+"] ") {
				continue
			}
			s := c.newSys()
			for _, n := range rp.Ops {
				found := false
				for i := 0; i < len(modes)*nFaults; i++ {
					if opName(c, i) == n {
						s.Apply(i)
						found = true
					}
				}
				if !found {
					die("unknown op %q", n)
				}
			}
			if fp, what := s.Check(); fp != "" {
				r.Violation(fp, what, rp)
			}
			s.Close()
		}
		finish()
	}
	exhaustive := true
	states, obs := 0, 0
	for _, c := range cfgs {
		res := seqx.Run(r, seqCfg(c))
		exhaustive = exhaustive && res.Exhaustive
		states += res.States
		obs += res.ObsClasses
		r.Set("states:"+c.name(), res.States)
		r.Set("fixpoint:"+c.name(), res.Fixpoint)
		r.Set("depth_completed:"+c.name(), res.DepthCompleted)
	}
	r.Set("distinct_observation_classes", obs)
	var fps []string
	for k := range fpAll {
		fps = append(fps, k)
	}
	sort.Strings(fps)
	r.Set("violation_classes", fps)
	if os.Getenv("C43_LIST") != "" {
		for _, k := range fps {
			fmt.Fprintf(os.Stderr, "CLASS %s\n   e.g. %s\n", k, fpAll[k])
		}
	}
	r.Exhaustive(exhaustive)
	r.Rule(fmt.Sprintf("2 shards (without / with write-cache holding flushed and cached objects) x BFS over SetMode(m), m in {RW, RO, DEG, DRO}, each with one injected failure in {none, metabase open, blobstor close, blobstor open, blobstor init, write-cache directory, every blobstor write fails while the switch runs} up to depth %d (0 = to fixpoint), deduplicated by (reported mode, actual component modes, on-disk files); after every step, on that instance: if the reported mode is read-only / degraded-read-only, one flush tick + GC pass + new-epoch event (unpaid container) must leave blobstor tree, write-cache tree, metabase logical content and write-cache accounting unchanged; then the probe battery; then the return-to-read-write check; non-trivial = new state", maxDepth))
	r.Assume("probe objects accepted in degraded mode (no metabase) are not required to be visible after returning to read-write (docs/shard-modes.md warns about that mode)",
		"failures are injected at the component boundary: bbolt OpenFile hook, a common.Storage wrapper around the FSTree, a regular file in place of the write-cache directory; one failure per step, healed before the next step",
		"single-threaded: no requests race with the mode change")
	finish()
}
