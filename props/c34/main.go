// C34: the inner ring co-signs only notary transactions whose calls it fully validated.
//
// Every script of 1..3 contract calls over a menu of calls (registered contract x registered method with valid
// content, with content its handler must refuse, with a wrong argument shape; unregistered methods of registered
// contracts; other contracts; each also in an "eACL-shaped" form carrying perfectly valid eACL material) x every
// main/fallback transaction structure variant, delivered as raw notary requests to a real inner ring server
// (listener, preparator, parsers, handlers, processors) in alphabet-member state.
// Oracle (one-directional, "only if"): NotarySignAndInvokeTX(main tx) recorded => the structure is the required
// one (signers, witnesses, attribute, unexpired fallback) AND every call of the script,
// delivered ALONE in a canonical request, is co-signed too (i.e. it is an expected contract+method and its handler
// accepts it).
package main

import (
	"fmt"
	"sort"
	"strings"
	"sync"

	"github.com/nspcc-dev/neo-go/pkg/crypto/keys"
	"github.com/nspcc-dev/neo-go/pkg/vm/opcode"
	netmaprpc "github.com/nspcc-dev/neofs-contract/rpc/netmap"
	cntcli "github.com/nspcc-dev/neofs-node/pkg/morph/client/container"
	"github.com/nspcc-dev/neofs-node/verif/lib/enumx"
	"github.com/nspcc-dev/neofs-node/verif/lib/ev"
	"github.com/nspcc-dev/neofs-node/verif/worlds/irworld"
	sdkclient "github.com/nspcc-dev/neofs-sdk-go/client"
	"github.com/nspcc-dev/neofs-sdk-go/eacl"
)

type mcall struct {
	Name  string
	Class string // registered-valid | registered-refused | registered-bad-shape | unregistered-method | unregistered-contract
	Spec  func(w *irworld.World, f *irworld.Fixture) irworld.CallSpec
}

func eaclFor(f *irworld.Fixture, forNew bool) (tb, sig, key []byte) {
	id := f.CnrID
	if forNew {
		id = irworld.CID(f.NewCnr)
	}
	tb = eacl.NewTableForContainer(id, []eacl.Record{eacl.ConstructRecord(eacl.ActionDeny, eacl.OperationPut,
		[]eacl.Target{eacl.NewTargetByRole(eacl.RoleOthers)})}).Marshal()
	return tb, f.Owner.SignRFC6979(tb), f.Owner.PubBytes()
}

func menu() []mcall {
	bad := func(b []byte) []byte { c := append([]byte{}, b...); c[7] ^= 1; return c }
	return []mcall{
		{"container.createV2(valid)", "registered-valid", func(w *irworld.World, f *irworld.Fixture) irworld.CallSpec {
			cb := f.NewCnr.Marshal()
			return irworld.CallSpec{Contract: w.Container, Method: "createV2", Args: []any{cntcli.VerifContainerToStackItem(f.NewCnr), f.Owner.SignRFC6979(cb), f.Owner.PubBytes(), []byte{}}}
		}},
		{"container.putEACL(valid,new container)", "registered-valid", func(w *irworld.World, f *irworld.Fixture) irworld.CallSpec {
			tb, sig, key := eaclFor(f, true)
			return irworld.CallSpec{Contract: w.Container, Method: "putEACL", Args: []any{tb, sig, key, []byte{}}}
		}},
		{"container.putEACL(valid,stored container)", "registered-valid", func(w *irworld.World, f *irworld.Fixture) irworld.CallSpec {
			tb, sig, key := eaclFor(f, false)
			return irworld.CallSpec{Contract: w.Container, Method: "putEACL", Args: []any{tb, sig, key, []byte{}}}
		}},
		{"container.remove(valid)", "registered-valid", func(w *irworld.World, f *irworld.Fixture) irworld.CallSpec {
			return irworld.CallSpec{Contract: w.Container, Method: "remove", Args: []any{f.CnrID[:], f.Owner.SignRFC6979(f.CnrID[:]), f.Owner.PubBytes(), []byte{}}}
		}},
		{"container.setAttribute(valid)", "registered-valid", func(w *irworld.World, f *irworld.Fixture) irworld.CallSpec {
			sd := sdkclient.GetSignedSetContainerAttributeParameters(sdkclient.SetContainerAttributeParameters{ID: f.CnrID, Attribute: "color", Value: "red", ValidUntil: irworld.FarFuture})
			return irworld.CallSpec{Contract: w.Container, Method: "setAttribute", Args: []any{f.CnrID[:], "color", "red", irworld.FarFuture.Unix(), f.Owner.SignRFC6979(sd), f.Owner.PubBytes(), []byte{}}}
		}},
		{"netmap.updateState(valid)", "registered-valid", func(w *irworld.World, f *irworld.Fixture) irworld.CallSpec {
			return irworld.CallSpec{Contract: w.Netmap, Method: "updateState", Args: []any{int64(2), f.NodeKeys[0].PublicKey().Bytes()}}
		}},
		{"netmap.addNode(valid)", "registered-valid", func(w *irworld.World, f *irworld.Fixture) irworld.CallSpec {
			ni, _ := irworld.Node("c")
			return irworld.CallSpec{Contract: w.Netmap, Method: "addNode", Args: []any{irworld.Node2(ni, netmaprpc.NodeStateOnline)}}
		}},
		{"container.createV2(bad signature)", "registered-refused", func(w *irworld.World, f *irworld.Fixture) irworld.CallSpec {
			cb := f.NewCnr.Marshal()
			return irworld.CallSpec{Contract: w.Container, Method: "createV2", Args: []any{cntcli.VerifContainerToStackItem(f.NewCnr), bad(f.Owner.SignRFC6979(cb)), f.Owner.PubBytes(), []byte{}}}
		}},
		{"container.putEACL(bad signature,new container)", "registered-refused", func(w *irworld.World, f *irworld.Fixture) irworld.CallSpec {
			tb, sig, key := eaclFor(f, true)
			return irworld.CallSpec{Contract: w.Container, Method: "putEACL", Args: []any{tb, bad(sig), key, []byte{}}}
		}},
		{"container.remove(bad signature)", "registered-refused", func(w *irworld.World, f *irworld.Fixture) irworld.CallSpec {
			return irworld.CallSpec{Contract: w.Container, Method: "remove", Args: []any{f.CnrID[:], bad(f.Owner.SignRFC6979(f.CnrID[:])), f.Owner.PubBytes(), []byte{}}}
		}},
		{"container.remove(3 args)", "registered-bad-shape", func(w *irworld.World, f *irworld.Fixture) irworld.CallSpec {
			return irworld.CallSpec{Contract: w.Container, Method: "remove", Args: []any{f.CnrID[:], f.Owner.SignRFC6979(f.CnrID[:]), f.Owner.PubBytes()}}
		}},
		{"container.putEACL(int instead of table)", "registered-bad-shape", func(w *irworld.World, f *irworld.Fixture) irworld.CallSpec {
			_, sig, key := eaclFor(f, true)
			return irworld.CallSpec{Contract: w.Container, Method: "putEACL", Args: []any{int64(42), sig, key, []byte{}}}
		}},
		{"container.update(eACL-shaped args,new container)", "unregistered-method", func(w *irworld.World, f *irworld.Fixture) irworld.CallSpec {
			tb, sig, key := eaclFor(f, true)
			return irworld.CallSpec{Contract: w.Container, Method: "update", Args: []any{tb, sig, key, []byte{}}}
		}},
		{"netmap.newEpoch(11)", "unregistered-method", func(w *irworld.World, f *irworld.Fixture) irworld.CallSpec {
			return irworld.CallSpec{Contract: w.Netmap, Method: "newEpoch", Args: []any{int64(11)}}
		}},
		{"balance.mint(eACL-shaped args,new container)", "unregistered-contract", func(w *irworld.World, f *irworld.Fixture) irworld.CallSpec {
			tb, sig, key := eaclFor(f, true)
			return irworld.CallSpec{Contract: w.Balance, Method: "mint", Args: []any{tb, sig, key, []byte{}}}
		}},
		{"alphabet0.vote(eACL-shaped args,new container)", "unregistered-contract", func(w *irworld.World, f *irworld.Fixture) irworld.CallSpec {
			tb, sig, key := eaclFor(f, true)
			return irworld.CallSpec{Contract: w.Alphabet[0], Method: "vote", Args: []any{tb, sig, key, []byte{}}}
		}},
		{"foreign.putEACL(eACL-shaped args,new container)", "unregistered-contract", func(w *irworld.World, f *irworld.Fixture) irworld.CallSpec {
			tb, sig, key := eaclFor(f, true)
			return irworld.CallSpec{Contract: irworld.Hash160("foreign-contract"), Method: "putEACL", Args: []any{tb, sig, key, []byte{}}}
		}},
	}
}

// structure variants
type svar struct {
	Name  string
	Valid bool // has the required signers, witnesses, attribute and an unexpired fallback
	Opt   irworld.NROpt
	Tail  []byte // appended to the script
	Head  []byte // prepended to the script
}

func svars(height uint32) []svar {
	return []svar{
		{Name: "canonical", Valid: true},
		{Name: "with-invoker", Valid: true, Opt: irworld.NROpt{Invoker: true}},
		{Name: "alphabet-witness-already-signed", Valid: true, Opt: irworld.NROpt{SignedAlphabet: true}},
		{Name: "wrong-alphabet-signer", Opt: irworld.NROpt{WrongAlphabet: true}},
		{Name: "alphabet-witness-with-other-verification-script", Opt: irworld.NROpt{WrongAlphaWit: true}},
		{Name: "proxy-witness-not-empty", Opt: irworld.NROpt{ProxyWitness: true}},
		{Name: "invoker-witness-empty", Opt: irworld.NROpt{Invoker: true, EmptyInvokerW: true}},
		{Name: "notary-placeholder-has-verification", Opt: irworld.NROpt{BadPlaceholder: true}},
		{Name: "nkeys+1", Opt: irworld.NROpt{NKeysDelta: 1}},
		{Name: "nkeys-1", Opt: irworld.NROpt{NKeysDelta: -1}},
		{Name: "nkeys-without-invoker-but-invoker-present", Opt: irworld.NROpt{Invoker: true, NKeysDelta: -1}},
		{Name: "no-attribute", Opt: irworld.NROpt{NoAttr: true}},
		{Name: "two-attributes", Opt: irworld.NROpt{ExtraAttr: true}},
		{Name: "signers-exceed-witnesses", Opt: irworld.NROpt{ExtraSigner: true}},
		{Name: "fallback-2-attributes", Opt: irworld.NROpt{FBAttrs: 2}},
		{Name: "fallback-4-attributes", Opt: irworld.NROpt{FBAttrs: 4}},
		{Name: "fallback-valid-at-current-height", Opt: irworld.NROpt{NVB: height}},
		{Name: "fallback-valid-since-previous-block", Opt: irworld.NROpt{NVB: height - 1}},
		{Name: "fallback-valid-from-next-block", Valid: true, Opt: irworld.NROpt{NVB: height + 1}},
		{Name: "request-by-this-node", Opt: irworld.NROpt{FromLocal: true}},
		// extra opcodes that add no contract call: the property's conditions do not speak about them, so these
		// count as structurally fine (if co-signed, the calls are judged as usual)
		{Name: "script-with-trailing-RET", Valid: true, Tail: []byte{byte(opcode.RET)}},
		{Name: "script-with-leading-NOP", Valid: true, Head: []byte{byte(opcode.NOP)}},
		{Name: "script-with-trailing-PUSH1", Valid: true, Tail: []byte{byte(opcode.PUSH1)}},
	}
}

type tcase struct {
	Calls []int
	S     int
}

type world struct {
	w     *irworld.World
	f     *irworld.Fixture
	nonce uint32
}

func newWorld(label string, storeNew bool) (*world, error) {
	w, err := irworld.New(label, irworld.Options{NoStart: true}, nil)
	if err != nil {
		return nil, err
	}
	w.Lock(func(t *irworld.Tables) {
		var alpha keys.PublicKeys
		for i := 0; i < len(w.Alphabet); i++ {
			alpha = append(alpha, irworld.AlphabetKey(i).PublicKey())
		}
		alpha[3] = w.NodeKey.PublicKey()
		t.Committee, t.IRList, t.MainAlphabet = alpha, alpha.Copy(), alpha.Copy()
	})
	f := w.InstallFixture()
	if storeNew {
		w.Lock(func(t *irworld.Tables) { t.Containers[irworld.CID(f.NewCnr)] = f.NewCnr })
	}
	if err := w.Start(); err != nil {
		return nil, err
	}
	w.TakeCalls()
	return &world{w: w, f: f}, nil
}

// deliver returns whether exactly this main transaction was co-signed, and other alphabet-authority calls made.
func (x *world) deliver(script []byte, o irworld.NROpt) (bool, []string) {
	x.nonce++
	o.Nonce = x.nonce
	nr := x.w.Request(script, o)
	x.w.Notary(nr)
	approved := false
	var other []string
	for _, c := range x.w.TakeCalls() {
		switch {
		case c.Method == "NotarySignAndInvokeTX" && c.TxHash == nr.MainTransaction.Hash().StringLE():
			approved = true
		case c.Method == "NotarySignAndInvokeTX":
			other = append(other, "signed a different transaction "+c.TxHash)
		}
	}
	return approved, other
}

var (
	clsMu   sync.Mutex
	classes = map[string]int{}
)

func main() {
	r := ev.Start("C34", ev.Exploration)
	m := menu()

	// reference: each call alone, canonical structure, in a world where the container being created is known
	ow, err := newWorld("oracle", true)
	if err != nil {
		r.Fatal("%v", err)
	}
	single := make([]bool, len(m))
	for i, c := range m {
		ok, _ := ow.deliver(irworld.Script(c.Spec(ow.w, ow.f)), irworld.NROpt{Invoker: true})
		single[i] = ok
		if ok != (c.Class == "registered-valid") {
			r.Fatal("menu call %q (%s): alone it is co-signed=%v", c.Name, c.Class, ok)
		}
	}
	var height uint32
	ow.w.Lock(func(t *irworld.Tables) { height = t.BlockCount })
	sv := svars(height)
	ow.w.Close()

	check := func(x *world, c tcase) {
		var specs []irworld.CallSpec
		var names []string
		allSingle := true
		for _, i := range c.Calls {
			specs = append(specs, m[i].Spec(x.w, x.f))
			names = append(names, m[i].Name)
			allSingle = allSingle && single[i]
		}
		s := sv[c.S]
		script := append(append(append([]byte{}, s.Head...), irworld.Script(specs...)...), s.Tail...)
		approved, other := x.deliver(script, s.Opt)
		r.Eval(1)
		var cls []string
		for _, i := range c.Calls {
			cls = append(cls, m[i].Class)
		}
		k := fmt.Sprintf("approved=%v/structure-valid=%v/calls=%s", approved, s.Valid, strings.Join(cls, ","))
		clsMu.Lock()
		classes[k]++
		clsMu.Unlock()
		if approved || (s.Valid && allSingle) {
			r.Nontrivial(fmt.Sprintf("%v/%s/%v", approved, s.Name, c.Calls))
		}
		switch {
		case len(other) > 0:
			r.Violation("cosigned-a-different-transaction", fmt.Sprintf("%v structure=%s: %v", names, s.Name, other), c)
		case approved && !s.Valid:
			r.Violation("cosigned-with-invalid-structure/"+s.Name, fmt.Sprintf("calls=%v structure=%s", names, s.Name), c)
		case approved && !allSingle:
			var badc []string
			for n, i := range c.Calls {
				if !single[i] {
					badc = append(badc, fmt.Sprintf("#%d:%s", n, m[i].Class))
				}
			}
			r.Violation(fmt.Sprintf("cosigned-script-with-unvalidated-call/first=%s/%s", m[c.Calls[0]].Name, strings.Join(badc, ",")),
				fmt.Sprintf("co-signed script %v (structure %s) although these calls are not co-signed alone: %v", names, s.Name, badc), c)
		}
		if approved && len(c.Calls) > 1 {
			r.Sample(map[string]any{"calls": names, "structure": s.Name, "approved": approved})
		}
	}

	if r.Replay != "" {
		var c tcase
		r.LoadReplay(&c)
		x, err := newWorld("replay", false)
		if err != nil {
			r.Fatal("%v", err)
		}
		check(x, c)
		irworld.CloseAll()
	r.Finish()
	}

	var cases []tcase
	maxLen := 3
	for l := 1; l <= maxLen; l++ {
		enumx.Seqs(len(m), l, func(s []int) bool {
			for si := range sv {
				// 3-call scripts: every structure variant only for scripts starting with a co-signable call
				if l == 3 && si > 1 && !single[s[0]] {
					continue
				}
				cases = append(cases, tcase{append([]int{}, s...), si})
			}
			return true
		})
	}
	const shards = 32
	exhaustive := true
	enumx.Parallel(shards, func(s int) {
		x, err := newWorld(fmt.Sprintf("c34/%d", s), false)
		if err != nil {
			r.Fatal("world: %v", err)
		}
		defer x.w.Close()
		for i := s; i < len(cases); i += shards {
			if r.Expired() {
				exhaustive = false
				return
			}
			check(x, cases[i])
		}
	})
	var cl []string
	appr := 0
	for k, n := range classes {
		cl = append(cl, fmt.Sprintf("%s x%d", k, n))
		if strings.HasPrefix(k, "approved=true") {
			appr += n
		}
	}
	sort.Strings(cl)
	if appr == 0 {
		r.Fatal("vacuous: nothing was co-signed")
	}
	r.Set("outcome_classes", len(cl))
	r.Set("outcome_class_list", cl)
	r.Set("cosigned", appr)
	r.Set("menu", func() (n []string) {
		for _, c := range m {
			n = append(n, c.Name+" ["+c.Class+"]")
		}
		return
	}())
	r.Set("structure_variants", func() (n []string) {
		for _, s := range sv {
			n = append(n, s.Name)
		}
		return
	}())
	r.Rule("scripts = every sequence of 1..3 calls over the 17-call menu; x 23 structure variants (for 3-call scripts whose first call is not co-signable alone only the 2 plain valid structures); non-trivial = co-signed, or structure valid and every call co-signable alone")
	r.Exhaustive(exhaustive)
	r.Assume("reference for 'validated by its handler' = the same call delivered alone in a canonical request to a server that already knows the container being created is co-signed (checked against the menu's intended classes at start)",
		"oracle is one-directional ('only if')", "alphabet-member state; every chain mutation succeeds; chain says every script is valid (IsValidScript)")
	irworld.CloseAll()
	r.Finish()
}
