// C14: read-only and degraded-read-only shard modes never change stored data.
//
// seqx BFS to fixpoint over a real shard (FSTree + bbolt metabase + optional write-cache) that was
// pre-populated in read-write mode and then switched to read-only / degraded-read-only. Alphabet =
// every mutating shard API plus the background jobs (GC pass, new-epoch event with an unpaid
// container, write-cache flush tick), run synchronously. After EVERY transition:
//   - the persistent state (blobstor tree, write-cache tree, raw metabase file) is byte-identical to
//     the state right after the mode switch, and the write-cache accounting is unchanged;
//   - a mutating request returned the shard's mode error;
//   - the read battery answers what docs/shard-modes.md promises for the mode.
//
// No transition may change the persistent state, so the reachable set is the handful of volatile
// variants (announced epoch, GC processed epoch); the BFS runs until no new state appears, which
// covers operation sequences of every length.
package main

import (
	"bytes"
	"context"
	"errors"
	"fmt"
	"os"
	"path/filepath"
	"sort"
	"strings"
	"sync"
	"sync/atomic"

	"github.com/nspcc-dev/neofs-node/pkg/local_object_storage/blobstor/common"
	meta "github.com/nspcc-dev/neofs-node/pkg/local_object_storage/metabase"
	"github.com/nspcc-dev/neofs-node/pkg/local_object_storage/shard"
	"github.com/nspcc-dev/neofs-node/pkg/local_object_storage/shard/mode"
	"github.com/nspcc-dev/neofs-node/verif/lib/ev"
	"github.com/nspcc-dev/neofs-node/verif/lib/seqx"
	sw "github.com/nspcc-dev/neofs-node/verif/worlds/shardworld"
	apistatus "github.com/nspcc-dev/neofs-sdk-go/client/status"
	cid "github.com/nspcc-dev/neofs-sdk-go/container/id"
	"github.com/nspcc-dev/neofs-sdk-go/object"
	oid "github.com/nspcc-dev/neofs-sdk-go/object/id"
)

// ---------- images ----------

type read struct {
	Cnr, Obj string
	RO       func(epoch uint64) string // expected answer class in read-only mode
}

func always(c string) func(uint64) string { return func(uint64) string { return c } }

type image struct {
	Name  string
	Build func(w *sw.World, flushPoint func()) error
	Reads []read
}

func put(w *sw.World, sp sw.ObjSpec) error {
	if sp.Size == 0 && sp.Type == object.TypeRegular {
		sp.Size = 40
	}
	return w.Sh.Put(sw.NewObject(sp), nil)
}

func putAll(w *sw.World, flush func(), specs ...sw.ObjSpec) error {
	for i, sp := range specs {
		if err := put(w, sp); err != nil {
			return fmt.Errorf("put %s: %w", sp.Label, err)
		}
		if i == 1 {
			flush() // with a write-cache: the first two objects get flushed, the rest stay cached
		}
	}
	return nil
}

var plain = []sw.ObjSpec{{Cnr: "A", Label: "a1"}, {Cnr: "A", Label: "a2"}, {Cnr: "A", Label: "a3"}, {Cnr: "B", Label: "b1"}}

var images = []image{
	{Name: "plain",
		Build: func(w *sw.World, f func()) error { return putAll(w, f, plain...) },
		Reads: []read{{"A", "a1", always("ok")}, {"A", "a2", always("ok")}, {"A", "a3", always("ok")}, {"B", "b1", always("ok")}}},
	{Name: "pending-gc", // plenty of work a read-write GC would do: tombstoned, expired, garbage-marked objects
		Build: func(w *sw.World, f func()) error {
			if err := putAll(w, f, append(append([]sw.ObjSpec(nil), plain...),
				sw.ObjSpec{Cnr: "A", Label: "a4", Exp: 2},
				sw.ObjSpec{Cnr: "A", Label: "a5"},
				sw.ObjSpec{Cnr: "A", Label: "L", Type: object.TypeLock, Target: "a3", Exp: 100},
				sw.ObjSpec{Cnr: "A", Label: "T", Type: object.TypeTombstone, Target: "a2", Exp: 100},
				sw.ObjSpec{Cnr: "B", Label: "T9", Type: object.TypeTombstone, Target: "never-stored", Exp: 2})...); err != nil {
				return err
			}
			if err := w.Sh.MarkGarbage(sw.CID("B"), []oid.ID{sw.OID("b1")}, meta.GarbageMarkDefault); err != nil {
				return err
			}
			return w.Sh.MarkGarbage(sw.CID("A"), []oid.ID{sw.OID("a5")}, meta.GarbageMarkRedundant)
		},
		Reads: []read{{"A", "a1", always("ok")}, {"A", "a2", always("removed")}, {"A", "a3", always("ok")},
			{"A", "a4", func(e uint64) string {
				if e > 2 {
					return "expired"
				}
				return "ok"
			}},
			{"A", "a5", always("ok")}, {"B", "b1", always("notfound")}, {"A", "L", always("ok")}, {"A", "T", always("ok")}}},
	{Name: "container-gc", // whole containers marked for removal, nothing collected yet
		Build: func(w *sw.World, f func()) error {
			if err := putAll(w, f, append(append([]sw.ObjSpec(nil), plain...), sw.ObjSpec{Cnr: "C", Label: "c1"})...); err != nil {
				return err
			}
			if err := w.Sh.InhumeContainer(sw.CID("B")); err != nil {
				return err
			}
			return w.Sh.DeleteContainer(context.Background(), sw.CID("C"))
		},
		Reads: []read{{"A", "a1", always("ok")}, {"A", "a2", always("ok")}, {"A", "a3", always("ok")},
			{"B", "b1", always("gone")}, {"C", "c1", always("gone")}}},
}

func init() {
	images = append(images, image{Name: "container-collected", // a removed container whose objects are gone already; only its metadata is left for the next GC pass
		Build: func(w *sw.World, f func()) error {
			if err := putAll(w, f, append(append([]sw.ObjSpec(nil), plain...), sw.ObjSpec{Cnr: "C", Label: "c1"}, sw.ObjSpec{Cnr: "C", Label: "c2"})...); err != nil {
				return err
			}
			if err := w.Sh.InhumeContainer(sw.CID("C")); err != nil {
				return err
			}
			w.GCPass() // removes c1, c2; the emptied container itself is dropped by the NEXT pass
			for _, l := range []string{"c1", "c2"} {
				if _, err := w.Sh.Get(sw.Addr("C", l), true); err == nil {
					return fmt.Errorf("object %s of the removed container survived the GC pass", l)
				}
			}
			cs, err := w.Sh.ListContainers()
			if err != nil {
				return err
			}
			for _, c := range cs {
				if c == sw.CID("C") {
					return nil
				}
			}
			return errors.New("the removed container is already forgotten after one GC pass: the image does not hold the pending clean-up")
		},
		Reads: []read{{"A", "a1", always("ok")}, {"A", "a2", always("ok")}, {"A", "a3", always("ok")}, {"B", "b1", always("ok")}}})
}

// ---------- configs ----------

// How the read-only mode is entered: always through Shard.SetMode from read-write (the write-cache
// images hold unflushed objects at that moment), either cleanly or with one component failing during
// the switch. A failed switch normally leaves the shard reporting read-write - then the property's
// premise is not established and the configuration is only counted; whenever the shard DOES report a
// read-only mode afterwards, whatever happened underneath, the whole oracle applies.
const (
	eClean = iota
	eBlobWrite
	eBlobInit
	eMetaOpen
	eWCDir
	eConfig // the shard STARTS in the mode: populated in read-write, closed, reopened with shard.WithMode(m)
	nEntries
)

var entryName = []string{"", "blobstor-write-fails", "blobstor-init-fails", "metabase-open-fails", "write-cache-dir-unopenable", "configured-mode"}

var errInj = errors.New("injected component failure")

type config struct {
	Img     int
	WC      bool
	Mode    mode.Mode
	Entry   int
	premise bool              // the shard reports a read-only mode after the entry switch
	dir     string            // closed pre-populated image (read-write history only)
	logical string            // digest of the logical persistent state right after the mode switch
	objs    map[string][]byte // physically stored objects (address -> bytes)
}

func modeName(m mode.Mode) string {
	if m == mode.DegradedReadOnly {
		return "DRO"
	}
	if m == mode.ReadOnly {
		return "RO"
	}
	return m.String()
}

// entryClass is the fingerprint's view of how the mode was reached.
func (c *config) entryClass() string {
	wc := "no-write-cache"
	if c.WC {
		wc = "write-cache"
	}
	switch c.Entry {
	case eClean:
		return "entered-by-SetMode:" + wc
	case eConfig:
		return "configured-mode:" + wc
	}
	return "entered-by-failing-SetMode(" + entryName[c.Entry] + "):" + wc
}

func (c *config) name() string {
	m := "RO"
	if c.Mode == mode.DegradedReadOnly {
		m = "DRO"
	}
	wc := "nowc"
	if c.WC {
		wc = "wc"
	}
	n := images[c.Img].Name + "/" + wc + "/" + m
	if c.Entry != eClean {
		n += "/entry:" + entryName[c.Entry]
	}
	return n
}

var (
	scratch string
	seq     atomic.Int64
	dumpOne []byte // a valid one-object dump for the Restore op
)

func newDir(n string) string { return filepath.Join(scratch, fmt.Sprintf("%s-%d", n, seq.Add(1))) }

func payments() *sw.Payments {
	return &sw.Payments{Unpaid: map[cid.ID]int64{sw.CID("A"): 0}} // payments on, container A unpaid since epoch 0
}

func (c *config) open(dir string, s *sys) (*sw.World, error) {
	ep := &sw.Epoch{}
	ep.Set(1)
	cfg := sw.Config{Dir: dir, WriteCache: c.WC, Epoch: ep, Payments: payments()}
	if s != nil && c.Entry == eConfig {
		cfg.Extra = []shard.Option{shard.WithMode(c.Mode)}
	}
	if s != nil {
		cfg.WrapStorage = func(st common.Storage) common.Storage { s.fs = sw.NewFaultyStorage(st); return s.fs }
		cfg.MetaOpenFile = func(p string, flag int, perm os.FileMode) (*os.File, error) {
			if s.metaFail.Swap(false) {
				return nil, errInj
			}
			return os.OpenFile(p, flag, perm)
		}
	}
	return sw.Open(cfg)
}

func (c *config) buildImage() error {
	c.dir = newDir("image")
	w, err := c.open(c.dir, nil)
	if err != nil {
		return err
	}
	flush := func() {
		if c.WC {
			w.Tick()
		}
	}
	if err := images[c.Img].Build(w, flush); err != nil {
		w.Close()
		return fmt.Errorf("image %s: %w", c.name(), err)
	}
	if err := w.Close(); err != nil {
		return err
	}
	blob, wc, err := sw.RawObjects(c.dir)
	if err != nil {
		return err
	}
	c.objs = map[string][]byte{}
	for a, b := range blob {
		c.objs[a] = b
	}
	for a, b := range wc {
		c.objs[a] = b
	}
	if c.WC && (len(wc) == 0 || len(blob) == 0) {
		return fmt.Errorf("image %s: want both cached and flushed objects, have %d / %d", c.name(), len(wc), len(blob))
	}
	return nil
}

// ---------- system under test ----------

type opDef struct {
	Name     string
	Mutating bool // must be refused with the mode error
	Run      func(s *sys) error
}

var newObj = sw.ObjSpec{Cnr: "A", Label: "new", Size: 33}

var ops = []opDef{
	{"Put(new)", true, func(s *sys) error { return put(s.w, newObj) }},
	{"Put(existing a1)", true, func(s *sys) error { return put(s.w, sw.ObjSpec{Cnr: "A", Label: "a1"}) }},
	{"Put(tombstone->a1)", true, func(s *sys) error {
		return put(s.w, sw.ObjSpec{Cnr: "A", Label: "T2", Type: object.TypeTombstone, Target: "a1", Exp: 100})
	}},
	{"Put(lock->a1)", true, func(s *sys) error {
		return put(s.w, sw.ObjSpec{Cnr: "A", Label: "L2", Type: object.TypeLock, Target: "a1", Exp: 100})
	}},
	{"Delete(a1)", true, func(s *sys) error { return s.w.Sh.Delete(sw.CID("A"), []oid.ID{sw.OID("a1")}) }},
	{"MarkGarbage(a1,default)", true, func(s *sys) error {
		return s.w.Sh.MarkGarbage(sw.CID("A"), []oid.ID{sw.OID("a1")}, meta.GarbageMarkDefault)
	}},
	{"MarkGarbage(a3,redundant)", true, func(s *sys) error {
		return s.w.Sh.MarkGarbage(sw.CID("A"), []oid.ID{sw.OID("a3")}, meta.GarbageMarkRedundant)
	}},
	{"InhumeContainer(A)", true, func(s *sys) error { return s.w.Sh.InhumeContainer(sw.CID("A")) }},
	{"DeleteContainer(A)", true, func(s *sys) error { return s.w.Sh.DeleteContainer(context.Background(), sw.CID("A")) }},
	{"Restore(1-object dump)", true, func(s *sys) error {
		_, _, err := s.w.Sh.Restore(bytes.NewReader(dumpOne), false)
		return err
	}},
	{"ReviveObject(a2)", true, func(s *sys) error { _, err := s.w.Sh.ReviveObject(sw.Addr("A", "a2")); return err }},
	{"FlushWriteCache", true, func(s *sys) error { return s.w.Sh.FlushWriteCache(false) }},
	{"GCPass", false, func(s *sys) error { s.w.GCPass(); return nil }},
	{"NewEpoch(3)", false, func(s *sys) error { s.w.NewEpoch(3); return nil }},
	{"NewEpoch(10)", false, func(s *sys) error { s.w.NewEpoch(10); return nil }},
	{"FlushTick", false, func(s *sys) error {
		if s.c.WC && !s.w.Tick() {
			return errors.New("harness: virtual flush ticker unavailable")
		}
		return nil
	}},
	{"Dump", false, func(s *sys) error {
		var b bytes.Buffer
		n, err := s.w.Sh.Dump(&b, false)
		if err == nil && n != len(s.c.objs) {
			err = fmt.Errorf("dump wrote %d objects, shard stores %d", n, len(s.c.objs))
		}
		return err
	}},
}

type sys struct {
	c        *config
	w        *sw.World
	fs       *sw.FaultyStorage
	metaFail atomic.Bool
	mode     mode.Mode // the mode the shard reports after the entry switch
	// first operation after which the on-disk state differed from the baseline, and how
	changedBy  string
	changeDiff []string
	faultFired bool // the entry fault was actually hit during the entry switch
	dir        string
	base       sw.State // byte-level persistent state of THIS instance right after the mode switch
	wcb        string   // write-cache accounting at that moment
	fp         string
	msg        string
}

func (c *config) newSys() *sys {
	s := &sys{c: c, dir: newDir("run")}
	fail := func(err error) *sys {
		fmt.Printf("HARNESS-ERROR property=C14: %s: %v\n", c.name(), err)
		os.RemoveAll(scratch)
		os.Exit(2)
		return nil
	}
	if err := sw.CopyTree(c.dir, s.dir); err != nil {
		return fail(err)
	}
	w, err := c.open(s.dir, s)
	if err != nil {
		return fail(err)
	}
	s.w = w
	if c.Entry == eConfig {
		// read-only by configuration (`mode:` in the shard config -> shard.WithMode): Shard.Open opens
		// every component read-write, only the shard-level mode restricts anything
		s.mode = w.Sh.GetMode()
		if s.mode != c.Mode {
			return fail(fmt.Errorf("shard configured with mode %s reports %s", c.Mode, s.mode))
		}
		if s.base, err = sw.SnapStateRaw(s.dir); err != nil {
			return fail(err)
		}
		s.wcb = w.WCCounters()
		return s
	}
	// enter the mode through SetMode, from read-write, with the entry fault armed for that one call
	wcDir, away := sw.WCDir(s.dir), sw.WCDir(s.dir)+".away"
	switch c.Entry {
	case eBlobWrite:
		s.fs.ArmWrites(errInj)
	case eBlobInit:
		s.fs.Arm(nil, errInj, nil, nil)
	case eMetaOpen:
		s.metaFail.Store(true)
	case eWCDir:
		if err := os.Rename(wcDir, away); err != nil {
			return fail(err)
		}
		if err := os.WriteFile(wcDir, []byte("x"), 0o600); err != nil {
			return fail(err)
		}
	}
	err = w.SetMode(c.Mode)
	// did the armed fault fire at all? (if not, this entry is the clean one again)
	switch c.Entry {
	case eBlobWrite:
		s.faultFired = s.fs.WriteFailures > 0
	case eBlobInit:
		s.faultFired = s.fs.FailInit == nil
	case eMetaOpen:
		s.faultFired = !s.metaFail.Load()
	default:
		s.faultFired = true
	}
	s.fs.ArmWrites(nil)
	s.fs.Arm(nil, nil, nil, nil)
	s.metaFail.Store(false)
	if c.Entry == eWCDir {
		if err := os.Remove(wcDir); err != nil {
			return fail(err)
		}
		if err := os.Rename(away, wcDir); err != nil {
			return fail(err)
		}
	}
	if err != nil && c.Entry == eClean {
		return fail(fmt.Errorf("switch to mode: %w", err))
	}
	s.mode = w.Sh.GetMode()
	// The baseline is taken per instance: the read-write prelude (open + init + switch) stores the
	// same logical content in every instance but bbolt's page layout is not reproducible.
	if s.base, err = sw.SnapStateRaw(s.dir); err != nil {
		return fail(err)
	}
	s.wcb = w.WCCounters()
	return s
}

func (s *sys) Close() {
	s.w.Close()
	os.RemoveAll(s.dir)
}

func errClass(err error) string {
	switch {
	case err == nil:
		return "ok"
	case errors.Is(err, shard.ErrReadOnlyMode):
		return "shard.ErrReadOnlyMode"
	case errors.Is(err, shard.ErrDegradedMode):
		return "shard.ErrDegradedMode"
	case errors.Is(err, meta.ErrReadOnlyMode):
		return "meta.ErrReadOnlyMode"
	case errors.Is(err, meta.ErrDegradedMode):
		return "meta.ErrDegradedMode"
	case strings.Contains(err.Error(), "write-cache is disabled"):
		return "write-cache-disabled"
	case strings.HasPrefix(err.Error(), "harness:"):
		return err.Error()
	default:
		return "other-error"
	}
}

func (s *sys) Apply(i int) (string, bool) {
	o := ops[i]
	err := o.Run(s)
	cls := errClass(err)
	if strings.HasPrefix(cls, "harness:") {
		fmt.Printf("HARNESS-ERROR property=C14: %s\n", cls)
		os.RemoveAll(scratch)
		os.Exit(2)
	}
	if s.changedBy == "" {
		if st, err := sw.SnapStateRaw(s.dir); err == nil {
			if d := s.base.DiffBytes(st); len(d) > 0 {
				s.changedBy, s.changeDiff = strings.SplitN(o.Name, "(", 2)[0], d
			}
		}
	}
	if s.fp != "" {
		return cls, true
	}
	switch {
	case o.Mutating:
		okErr := cls == "shard.ErrReadOnlyMode" || (s.mode == mode.DegradedReadOnly && cls == "shard.ErrDegradedMode") ||
			(o.Name == "FlushWriteCache" && !s.c.WC && cls == "write-cache-disabled")
		if !okErr {
			s.fp = "mutating-request-not-refused-with-mode-error:" + strings.SplitN(o.Name, "(", 2)[0]
			s.msg = fmt.Sprintf("%s: %s returned %s (%v)", s.c.name(), o.Name, cls, err)
		}
	case err != nil:
		s.fp = "background-or-read-op-failed:" + o.Name + ":mode=" + modeName(s.mode) + ":" + s.c.entryClass()
		s.msg = fmt.Sprintf("%s: %s: %v", s.c.name(), o.Name, err)
	}
	return cls, true
}

func (s *sys) Key() string {
	st, err := sw.SnapStateRaw(s.dir)
	if err != nil {
		return "snap-error:" + err.Error()
	}
	cur, done := s.w.GCEpochs()
	// persistent part of the key: the config's logical content (constant) + how this instance differs from its baseline
	return fmt.Sprintf("%s|changed=%v|%s|gc=%d/%d|epoch=%d|fp=%s", s.c.logical, s.base.DiffBytes(st), s.w.WCCounters(), cur, done, s.w.Epoch.CurrentEpoch(), s.fp)
}

func getClass(o *object.Object, err error, want []byte) string {
	switch {
	case err == nil && bytes.Equal(o.Marshal(), want):
		return "ok"
	case err == nil:
		return "wrong-bytes"
	case errors.Is(err, apistatus.ErrObjectAlreadyRemoved):
		return "removed"
	case shard.IsErrObjectExpired(err):
		return "expired"
	case errors.Is(err, apistatus.ErrObjectNotFound):
		return "notfound"
	default:
		return "error(" + err.Error() + ")"
	}
}

var (
	fpMu  sync.Mutex
	fpAll = map[string]string{}
)

func (s *sys) Check() (string, string) {
	fp, what := s.check()
	if fp != "" {
		fpMu.Lock()
		if old, ok := fpAll[fp]; !ok || len(what) < len(old) {
			fpAll[fp] = what
		}
		fpMu.Unlock()
	}
	return fp, what
}

func (s *sys) check() (string, string) {
	c := s.c
	if m := s.w.Sh.GetMode(); m != s.mode {
		return "mode-changed", fmt.Sprintf("%s: shard now reports %s", c.name(), m)
	}
	st, err := sw.SnapStateRaw(s.dir)
	if err != nil {
		return "harness-snapshot", err.Error()
	}
	if d := s.base.DiffBytes(st); len(d) > 0 {
		by, first := s.changedBy, d
		if by == "" {
			by = "nothing"
		} else {
			first = s.changeDiff
		}
		// class = what changed : which operation did it : how the shard got into the mode
		return fmt.Sprintf("persistent-state-changed:%s:by=%s:mode=%s:%s", strings.SplitN(first[0], ":", 2)[0], by, modeName(s.mode), c.entryClass()),
			fmt.Sprintf("%s: on-disk state differs from the state at which the shard started reporting %s (first changed by %s: %v; now: %v)", c.name(), modeName(s.mode), by, first, d)
	}
	if wcs := s.w.WCCounters(); wcs != s.wcb {
		return "write-cache-accounting-changed", fmt.Sprintf("%s: %q -> %q", c.name(), s.wcb, wcs)
	}
	if s.fp != "" { // a request was answered wrongly (the data itself is intact)
		return s.fp, s.msg
	}
	// reads
	ep := s.w.Epoch.CurrentEpoch()
	for _, rd := range images[c.Img].Reads {
		a := sw.Addr(rd.Cnr, rd.Obj)
		want := rd.RO(ep)
		if s.mode == mode.DegradedReadOnly { // no metabase: whatever is physically stored is served
			want = "ok"
			if _, stored := c.objs[a.EncodeToString()]; !stored {
				want = "notfound" // e.g. a cached object dropped from the write-cache by MarkGarbage
			}
		}
		o, err := s.w.Sh.Get(a, false)
		got := getClass(o, err, c.objs[a.EncodeToString()])
		if want == "gone" && (got == "removed" || got == "notfound") {
			got = "gone"
		}
		if got != want {
			return "read:" + want + "-expected", fmt.Sprintf("%s epoch %d: Get(%s/%s) = %s, want %s", c.name(), ep, rd.Cnr, rd.Obj, got, want)
		}
		if want == "ok" {
			if b, err := s.w.Sh.GetBytes(a); err != nil || !bytes.Equal(b, c.objs[a.EncodeToString()]) {
				return "read:getbytes", fmt.Sprintf("%s: GetBytes(%s/%s): err %v", c.name(), rd.Cnr, rd.Obj, err)
			}
			if h, err := s.w.Sh.Head(a, false); err != nil || h.GetID() != a.Object() {
				return "read:head", fmt.Sprintf("%s: Head(%s/%s): err %v", c.name(), rd.Cnr, rd.Obj, err)
			}
		}
	}
	// metabase-backed listings: served in read-only mode, refused with the degraded error otherwise
	_, lerr := s.w.Sh.ListContainers()
	if s.mode == mode.ReadOnly && lerr != nil || s.mode == mode.DegradedReadOnly && !errors.Is(lerr, shard.ErrDegradedMode) {
		return "read:list-containers", fmt.Sprintf("%s: ListContainers: %v", c.name(), lerr)
	}
	return "", ""
}

// ---------- main ----------

func seqCfg(c *config) seqx.Config {
	return seqx.Config{NumOps: len(ops), OpName: func(i int) string { return "[" + c.name() + "] " + ops[i].Name },
		New: func() seqx.Sys { return c.newSys() }, CheckInit: true}
}

func main() {
	r := ev.Start("C14", ev.ModelChecking)
	scratch = sw.NewDir("verif-c14-")
	finish := func() { os.RemoveAll(scratch); r.Finish() }
	fatal := func(f string, a ...any) { os.RemoveAll(scratch); r.Fatal(f, a...) }

	// a valid dump for the Restore op
	{
		dir := newDir("dumpsrc")
		w, err := sw.Open(sw.Config{Dir: dir})
		if err != nil {
			fatal("%v", err)
		}
		var b bytes.Buffer
		if err = put(w, newObj); err == nil {
			if err = w.SetMode(mode.ReadOnly); err == nil {
				_, err = w.Sh.Dump(&b, false)
			}
		}
		w.Close()
		if err != nil || b.Len() < 50 {
			fatal("dump for the Restore op: %v", err)
		}
		dumpOne = b.Bytes()
	}

	var cfgs []*config
	notFired := 0
	var notReached []string // failed entry switch left the shard reporting a writable mode: premise not established
	for img := range images {
		for _, wc := range []bool{false, true} {
			for _, m := range []mode.Mode{mode.ReadOnly, mode.DegradedReadOnly} {
				// configured-mode shards first: their components stay read-write, nothing but the
				// shard-level checks protects the data there
				for _, e := range []int{eConfig, eClean, eBlobWrite, eBlobInit, eMetaOpen, eWCDir} {
					if e == eWCDir && !wc {
						continue
					}
					cfgs = append(cfgs, &config{Img: img, WC: wc, Mode: m, Entry: e})
				}
			}
		}
	}
	for _, c := range cfgs {
		if err := c.buildImage(); err != nil {
			fatal("%v", err)
		}
		s := c.newSys()
		c.premise = s.mode.ReadOnly()
		if !c.premise {
			notReached = append(notReached, c.name())
		} else if c.Entry != eClean && c.Entry != eConfig && !s.faultFired {
			// the switch never touched the failing call: same history as the clean entry
			c.premise = false
			notFired++
		}
		st, err := sw.SnapState(s.dir)
		if err != nil {
			fatal("%v", err)
		}
		c.logical = st.LogicalHash()
		if c.WC && !s.w.VirtualTicker() {
			fatal("write-cache flush ticker is not virtual (overlay.spec must rewire flush.go's time import)")
		}
		s.Close()
	}

	if r.Replay != "" {
		var rp struct{ Ops []string }
		r.LoadReplay(&rp)
		for _, c := range cfgs {
			if !c.premise || (len(rp.Ops) > 0 && !strings.HasPrefix(rp.Ops[0], "["+c.name()+"] ")) {
				continue
			}
			cfg := seqCfg(c)
			if len(rp.Ops) == 0 {
				s := c.newSys()
				if fp, what := s.Check(); fp != "" {
					r.Violation(fp, what, rp)
				}
				s.Close()
				continue
			}
			fp, what, err := seqx.Replay(cfg, rp.Ops)
			if err != nil {
				fatal("%v", err)
			}
			if fp != "" {
				r.Violation(fp, what, rp)
			}
		}
		finish()
	}

	exhaustive, fix := true, true
	states, trans, obs := 0, 0, 0
	run := 0
	for _, c := range cfgs {
		if !c.premise {
			continue
		}
		run++
		res := seqx.Run(r, seqCfg(c))
		exhaustive = exhaustive && res.Exhaustive
		fix = fix && res.Fixpoint
		states += res.States
		trans += res.Transitions
		obs += res.ObsClasses
		r.Set("states:"+c.name(), res.States)
	}
	var fps []string
	for k := range fpAll {
		fps = append(fps, k)
	}
	sort.Strings(fps)
	r.Set("violation_classes", fps)
	if os.Getenv("C14_LIST") != "" {
		for _, k := range fps {
			fmt.Fprintf(os.Stderr, "CLASS %s\n   e.g. %.400s\n", k, fpAll[k])
		}
	}
	r.Set("fixpoint_reached", fix)
	r.Set("configurations_explored", run)
	r.Set("configurations_where_failed_entry_left_a_writable_mode", len(notReached))
	r.Set("configurations_where_the_entry_fault_was_never_hit", notFired)
	r.Set("distinct_observation_classes", obs)
	r.Exhaustive(exhaustive)
	r.Rule(fmt.Sprintf("%d configurations = 4 pre-populated images (plain; pending GC work: tombstoned/expired/locked/garbage-marked objects and an expiring tombstone; containers marked for removal with their objects still there; a removed container whose objects were already collected, only its metadata pending) x write-cache off/on (cached + flushed objects) x {read-only, degraded-read-only} x entry {shard STARTED in the mode via shard.WithMode after being populated in read-write and closed; clean SetMode from read-write; SetMode with blobstor writes failing, blobstor init failing, metabase open failing, write-cache directory unopenable}; a configuration is explored iff the shard REPORTS a read-only mode afterwards and, for the failing entries, the fault was actually hit (otherwise it is the clean entry again; counted); BFS over %d operations (12 mutating APIs, GC pass, 2 epoch events with an unpaid container, flush tick, dump) until no new state appears (fixpoint=%v); state = byte-level on-disk state + write-cache accounting + GC epochs; oracle after every transition", len(cfgs), len(ops), fix))
	r.Assume("background jobs are run synchronously through the injected wrappers (same functions the goroutines call); the write-cache flush ticker is virtual and fired by the harness",
		"single-threaded histories: no concurrency between requests and background jobs",
		"the mode error of a mutating request is shard.ErrReadOnlyMode (read-only) or shard.ErrReadOnlyMode/ErrDegradedMode (degraded-read-only), the identities the engine dispatches on")
	finish()
}
