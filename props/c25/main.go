// C25: a successful PUT means the storage policy's copies were acknowledged.
//
// Exhaustive product: policies (1-3 REP rules with overlapping node lists over a 5-node universe, EC
// rules, REP+EC, initial placement policies with limits / MaxReplicas / PreferLocal) x position of the
// local node x ALL 2^n per-node success/failure vectors, every case driven through the REAL
// distributedTarget (WriteHeader, Write, Close -> saveObject -> handleREPRule / applyECRule) built by an
// injected constructor that mirrors Streamer.newDistrubutedWriter. Nodes are reached through the real
// transport seams (local ObjectStorage, Transport.SendReplicationRequestToNode, ClientConstructor).
// Oracle (from the property text): Close returned nil => every rule has the required number of distinct
// acknowledging nodes of its own list (initial policy: limits / total instead; EC: every part on distinct
// nodes of the rule's list).
package main

import (
	"context"
	"crypto/ecdsa"
	"crypto/elliptic"
	"crypto/sha256"
	"errors"
	"fmt"
	"io"
	"math/big"
	"math/bits"
	"os"
	"runtime/pprof"
	"sort"
	"strconv"
	"sync"
	"sync/atomic"

	iec "github.com/nspcc-dev/neofs-node/internal/ec"
	clientcore "github.com/nspcc-dev/neofs-node/pkg/core/client"
	objectcore "github.com/nspcc-dev/neofs-node/pkg/core/object"
	putsvc "github.com/nspcc-dev/neofs-node/pkg/services/object/put"
	objutil "github.com/nspcc-dev/neofs-node/pkg/services/object/util"
	"github.com/nspcc-dev/neofs-node/verif/lib/enumx"
	"github.com/nspcc-dev/neofs-node/verif/lib/ev"
	"github.com/nspcc-dev/neofs-sdk-go/client"
	apistatus "github.com/nspcc-dev/neofs-sdk-go/client/status"
	cid "github.com/nspcc-dev/neofs-sdk-go/container/id"
	neofsecdsa "github.com/nspcc-dev/neofs-sdk-go/crypto/ecdsa"
	"github.com/nspcc-dev/neofs-sdk-go/netmap"
	"github.com/nspcc-dev/neofs-sdk-go/object"
	oid "github.com/nspcc-dev/neofs-sdk-go/object/id"
	protoobject "github.com/nspcc-dev/neofs-sdk-go/proto/object"
	"github.com/nspcc-dev/neofs-sdk-go/user"
	"github.com/nspcc-dev/neofs-sdk-go/version"
	"google.golang.org/protobuf/proto"
)

const U = 5 // node universe

var (
	nodes   [U]netmap.NodeInfo
	nodeIdx = map[string]int{}
	cnrID   cid.ID
	key     *ecdsa.PrivateKey
	owner   user.ID
	payload = []byte("verif-c25-object-payload")
	errNode = errors.New("verif: node refused the object")
)

func init() {
	for i := range nodes {
		h := sha256.Sum256([]byte("verif-put-node-" + strconv.Itoa(i)))
		pk := append([]byte{3}, h[:]...)
		nodes[i].SetPublicKey(pk)
		nodes[i].SetNetworkEndpoints("localhost:" + strconv.Itoa(20000+i))
		nodeIdx[string(pk)] = i
	}
	h := sha256.Sum256([]byte("verif-put-cnr"))
	copy(cnrID[:], h[:])
	h = sha256.Sum256([]byte("verif-put-key"))
	d := new(big.Int).SetBytes(h[:])
	key = &ecdsa.PrivateKey{D: d}
	key.Curve = elliptic.P256()
	key.X, key.Y = key.Curve.ScalarBaseMult(d.Bytes())
	owner = user.NewFromECDSAPublicKey(key.PublicKey)
	keyStorage = objutil.NewKeyStorage(key, nil, nil)
}

type policy struct {
	Lists       [][]int  // REP lists, then EC lists (node ids)
	Reps        []int    // copies per REP rule
	EC          [][2]int // (data, parity) per EC rule
	Initial     bool
	Limits      []int // nil = not set; else one per rule (REP then EC)
	MaxReplicas int
	PreferLocal bool
}

func (p policy) String() string {
	s := fmt.Sprintf("REP%v EC%v lists=%v", p.Reps, p.EC, p.Lists)
	if p.Initial {
		s += fmt.Sprintf(" initial{limits=%v max=%d preferLocal=%v}", p.Limits, p.MaxReplicas, p.PreferLocal)
	}
	return s
}

type tcase struct {
	Policy   policy
	Local    int    // node id of the local node, -1 = local node is in no list
	OK       uint32 // bit n: node n stores what it is sent
	Kind     string // trusted | sealed | lock | ec-part
	PartRule int
	PartIdx  int
}

func (c tcase) String() string {
	return fmt.Sprintf("%s %v local=%d healthy=%0*b", c.Kind, c.Policy, c.Local, U, c.OK)
}

// ---- fakes at the node edges ---------------------------------------------------------------------

type stored struct {
	node       int
	rule, part int // -1,-1: the whole object
}

type world struct {
	c     tcase
	mu    sync.Mutex
	acks  []stored
	sends int
	post  int
	bad   []string
}

func (w *world) deliver(node int, attrs func(yield func(k, v string))) error {
	st := stored{node: node, rule: -1, part: -1}
	attrs(func(k, v string) {
		switch k {
		case iec.AttributeRuleIdx:
			st.rule, _ = strconv.Atoi(v)
		case iec.AttributePartIdx:
			st.part, _ = strconv.Atoi(v)
		}
	})
	w.mu.Lock()
	defer w.mu.Unlock()
	w.sends++
	if w.c.OK&(1<<uint(node)) == 0 {
		return errNode
	}
	w.acks = append(w.acks, st)
	return nil
}

func objAttrs(o *object.Object) func(func(k, v string)) {
	return func(y func(k, v string)) {
		for _, a := range o.Attributes() {
			y(a.Key(), a.Value())
		}
	}
}

// local storage of the local node
func (w *world) Put(_ context.Context, o *object.Object, _ []byte) error {
	if w.c.Local < 0 {
		w.mu.Lock()
		w.bad = append(w.bad, "local Put although the local node is in no list")
		w.mu.Unlock()
		return errNode
	}
	return w.deliver(w.c.Local, objAttrs(o))
}
func (w *world) IsLocked(context.Context, oid.Address) (bool, error) { return false, nil }

// Transport (used when the local node is a container node: prepared ReplicateRequest)
func (w *world) SendReplicationRequestToNode(_ context.Context, req []byte, n netmap.NodeInfo) ([]byte, error) {
	var m protoobject.ReplicateRequest
	if err := proto.Unmarshal(req, &m); err != nil || m.Object == nil || m.Object.Header == nil {
		w.mu.Lock()
		w.bad = append(w.bad, fmt.Sprintf("undecodable replicate request: %v", err))
		w.mu.Unlock()
		return nil, errNode
	}
	return nil, w.deliver(nodeIdx[string(n.PublicKey())], func(y func(k, v string)) {
		for _, a := range m.Object.Header.Attributes {
			y(a.Key, a.Value)
		}
	})
}

// ClientConstructor (used when the local node is outside the container: regular PUT stream)
func (w *world) Get(_ context.Context, n netmap.NodeInfo) (clientcore.MultiAddressClient, error) {
	return &fakeClient{w: w, node: nodeIdx[string(n.PublicKey())]}, nil
}

type fakeClient struct {
	clientcore.MultiAddressClient
	w    *world
	node int
}

type fakeWriter struct {
	c   *fakeClient
	hdr object.Object
}

func (c *fakeClient) ObjectPutInit(_ context.Context, hdr object.Object, _ user.Signer, _ client.PrmObjectPutInit) (client.ObjectWriter, error) {
	return &fakeWriter{c: c, hdr: hdr}, nil
}
func (x *fakeWriter) Write(p []byte) (int, error)          { return len(p), nil }
func (x *fakeWriter) ReadFrom(r io.Reader) (int64, error)  { return io.Copy(io.Discard, r) }
func (x *fakeWriter) GetResult() (res client.ResObjectPut) { return }
func (x *fakeWriter) Close() error                         { return x.c.w.deliver(x.c.node, objAttrs(&x.hdr)) }

func (w *world) HandlePostPlacement(*object.Object, []netmap.NodeInfo) {
	w.mu.Lock()
	w.post++
	w.mu.Unlock()
}

// NeoFSNetwork
func (w *world) IsLocalNodePublicKey(pk []byte) bool {
	return w.c.Local >= 0 && string(pk) == string(nodes[w.c.Local].PublicKey())
}
func (w *world) GetContainerNodes(cid.ID) (putsvc.ContainerNodes, error) { panic("unused") }
func (w *world) GetEpochBlock(uint64) (uint32, error)                    { panic("unused") }
func (w *world) GetEpochBlockByTime(uint32) (uint32, error)              { panic("unused") }

type cnrNodes struct {
	lists [][]netmap.NodeInfo
	reps  []uint
	ec    []iec.Rule
}

func (x cnrNodes) Unsorted() [][]netmap.NodeInfo                     { return x.lists }
func (x cnrNodes) SortForObject(oid.ID) ([][]netmap.NodeInfo, error) { return x.lists, nil }
func (x cnrNodes) PrimaryCounts() []uint                             { return x.reps }
func (x cnrNodes) ECRules() []iec.Rule                               { return x.ec }

// cheapSigner keeps the real key material (public key, scheme) but returns a constant signature: the
// request signature is never verified by the fake nodes, and ECDSA signing would dominate the run time.
type cheapSigner struct{ neofsecdsa.Signer }

var constSig = make([]byte, 64)

func (cheapSigner) Sign([]byte) ([]byte, error) { return constSig, nil }

// ---- one case --------------------------------------------------------------------------------------

var (
	keyStorage *objutil.KeyStorage
	partCache  sync.Map
)

func baseObject(typ object.Type) object.Object {
	var o object.Object
	v := version.Current()
	o.SetVersion(&v)
	o.SetContainerID(cnrID)
	o.SetOwner(owner)
	o.SetType(typ)
	var target oid.ID
	target[0] = 7
	switch typ {
	case object.TypeRegular:
		o.SetPayloadSize(uint64(len(payload)))
	case object.TypeLock:
		o.AssociateLocked(target)
	case object.TypeTombstone:
		o.AssociateDeleted(target)
	case object.TypeLink:
		var mo object.MeasuredObject
		mo.SetObjectID(target)
		mo.SetObjectSize(1)
		var l object.Link
		l.SetObjects([]object.MeasuredObject{mo})
		o.WriteLink(l)
		o.SetPayloadSize(uint64(len(o.Payload())))
		o.SetFirstID(target)
	}
	h := sha256.Sum256([]byte("verif-put-obj-" + typ.String()))
	o.SetID(oid.ID(h))
	return o
}

// broadcast kinds: objects the policy wants on every part position of every EC list and on REP nodes
var broadcastType = map[string]object.Type{"lock": object.TypeLock, "tombstone": object.TypeTombstone, "link": object.TypeLink, "children": object.TypeRegular}

// content validation of TOMBSTONE / LINK objects on a container node is not under test: accept everything
type okVerifier struct{}

func (okVerifier) VerifyTombStoneWithoutPayload(context.Context, object.Object) error { return nil }
func (okVerifier) VerifySplit(context.Context, cid.ID, oid.ID, []object.MeasuredObject) error {
	return nil
}

var fmtValidator = objectcore.NewFormatValidator(nil, nil, nil, objectcore.WithTombVerifier(okVerifier{}), objectcore.WithSplitVerifier(okVerifier{}))

type result struct {
	err      error
	panicked string
	w        *world
}

func exec(c tcase) (res result) {
	w := &world{c: c}
	res.w = w
	p := c.Policy
	cn := cnrNodes{}
	for _, l := range p.Lists {
		nl := make([]netmap.NodeInfo, len(l))
		for i, n := range l {
			nl[i] = nodes[n]
		}
		cn.lists = append(cn.lists, nl)
	}
	cn.reps = make([]uint, len(p.Reps)) // non-nil like the production implementation
	for i, r := range p.Reps {
		cn.reps[i] = uint(r)
	}
	for _, e := range p.EC {
		cn.ec = append(cn.ec, iec.Rule{DataPartNum: uint8(e[0]), ParityPartNum: uint8(e[1])})
	}
	signer := cheapSigner{neofsecdsa.Signer(*key)}
	prm := putsvc.VerifTargetPrm{
		Ctx: context.Background(), Net: w, ContainerNodes: cn, LocalStorage: w, Clients: w, Transport: w,
		KeyStorage: keyStorage, LocalNodeSigner: signer, PostPlacement: w,
		ECPart: iec.PartInfo{RuleIndex: -1, Index: -1}, Fmt: fmtValidator,
	}
	if p.Initial {
		var ip netmap.InitialPlacementPolicy
		if p.Limits != nil {
			ls := make([]uint32, len(p.Limits))
			for i, l := range p.Limits {
				ls[i] = uint32(l)
			}
			ip.SetReplicaLimits(ls)
		}
		ip.SetMaxReplicas(uint32(p.MaxReplicas))
		ip.SetPreferLocal(p.PreferLocal)
		prm.Initial = &ip
	}
	typ := object.TypeRegular
	if t, ok := broadcastType[c.Kind]; ok {
		typ = t
	}
	hdr := baseObject(typ)
	pl := payload
	if c.Kind == "children" { // client-sealed REGULAR object that lists children (legacy split parent/linking object)
		var ch oid.ID
		ch[0] = 9
		hdr.SetChildren(ch)
	}
	if typ == object.TypeLink {
		pl = hdr.Payload()
		hdr.SetPayload(nil)
	}
	regular := typ == object.TypeRegular
	// as Streamer.preparePrm
	inSets := func(ls [][]int) bool {
		for _, l := range ls {
			for _, n := range l {
				if n == c.Local {
					return true
				}
			}
		}
		return false
	}
	prm.LocalNodeInContainer = c.Local >= 0 && inSets(p.Lists)
	if len(p.EC) > 0 && regular {
		prm.ECRules = cn.ec
		if c.Kind == "ec-part" {
			prm.ECPart = iec.PartInfo{RuleIndex: c.PartRule, Index: c.PartIdx}
			prm.LocalNodeInContainer = c.Local >= 0 && inSets(p.Lists[len(p.Reps)+c.PartRule:][:1])
			k := [4]int{p.EC[c.PartRule][0], p.EC[c.PartRule][1], c.PartRule, c.PartIdx}
			v, ok := partCache.Load(k)
			if !ok {
				parts, _, err := iec.Encode(cn.ec[c.PartRule], payload)
				if err != nil {
					panic(err)
				}
				po, err := iec.FormObjectForECPart(signer, baseObject(object.TypeRegular), parts[c.PartIdx], iec.PartInfo{RuleIndex: c.PartRule, Index: c.PartIdx})
				if err != nil {
					panic(err)
				}
				v, _ = partCache.LoadOrStore(k, po)
			}
			po := v.(object.Object)
			pl = po.Payload()
			hdr = po
			hdr.SetPayload(nil)
		}
	}
	if c.Kind == "trusted" || c.Kind == "lock" || c.Kind == "tombstone" || c.Kind == "link" {
		prm.SessionSigner = signer
	}
	if !regular && typ != object.TypeLink {
		pl = nil
	}
	func() {
		defer func() {
			if r := recover(); r != nil {
				res.panicked = fmt.Sprint(r)
			}
		}()
		_, res.err = putsvc.VerifNewDistributedTarget(prm).Put(hdr, pl)
	}()
	return res
}

// ---- oracle ----------------------------------------------------------------------------------------------

type verdict struct {
	fp, what string
	class    string
}

func ackSet(w *world, rule, part int) (m uint32) {
	for _, s := range w.acks {
		if s.rule == rule && s.part == part {
			m |= 1 << uint(s.node)
		}
	}
	return
}

func listMask(l []int) (m uint32) {
	for _, n := range l {
		m |= 1 << uint(n)
	}
	return
}

// ecComplete: every part of EC rule j acknowledged by a node of list, the parts on pairwise distinct nodes.
func ecComplete(w *world, j, total int, list uint32) (ok bool, why string) {
	sets := make([]uint32, total)
	for p := 0; p < total; p++ {
		sets[p] = ackSet(w, j, p) & list
		if sets[p] == 0 {
			return false, fmt.Sprintf("part %d of EC rule #%d acknowledged by no node of the rule's list (acks anywhere: %05b)", p, j, ackSet(w, j, p))
		}
	}
	// system of distinct representatives (tiny backtracking)
	var rec func(p int, used uint32) bool
	rec = func(p int, used uint32) bool {
		if p == total {
			return true
		}
		for n := 0; n < U; n++ {
			if sets[p]&(1<<uint(n)) != 0 && used&(1<<uint(n)) == 0 && rec(p+1, used|1<<uint(n)) {
				return true
			}
		}
		return false
	}
	if !rec(0, 0) {
		return false, fmt.Sprintf("parts of EC rule #%d are not on distinct nodes: %05b", j, sets)
	}
	return true, ""
}

func judge(c tcase, r result) (v verdict) {
	w := r.w
	p := c.Policy
	fail := func(fp, f string, a ...any) verdict {
		v.fp = fp
		v.what = c.String() + ": " + fmt.Sprintf(f, a...) + fmt.Sprintf(" [result: %v; acknowledgements (node,rule,part): %v]", r.err, w.acks)
		return v
	}
	if len(w.bad) > 0 {
		return fail("harness:"+w.bad[0], "%v", w.bad)
	}
	if r.panicked != "" {
		v.class = "panic"
		return fail("panic:"+c.Kind+":"+panicClass(r.panicked, p), "PUT panicked instead of returning a result: %s", r.panicked)
	}
	if r.err != nil {
		if errors.Is(r.err, apistatus.ErrIncomplete) {
			v.class = "incomplete"
		} else {
			v.class = "error"
		}
		return v
	}
	v.class = "success"
	full := ackSet(w, -1, -1)
	nRep := len(p.Reps)
	switch c.Kind {
	case "ec-part":
		j := c.PartRule
		lm := listMask(p.Lists[nRep+j])
		if p.Initial && p.Limits != nil && p.Limits[nRep+j] == 0 {
			v.class = "success-deferred-to-post-placement"
			if w.post == 0 {
				return fail("ec-part:initial-limit-0:neither-stored-nor-handed-to-post-placement", "nothing stored and nothing scheduled")
			}
			return v
		}
		if ackSet(w, j, c.PartIdx)&lm == 0 {
			return fail("ec-part:success-without-acknowledgement-from-the-rule-list", "EC part %d/%d acknowledged by no node of its list", j, c.PartIdx)
		}
		return v
	case "lock", "sealed", "tombstone", "link", "children":
		for i := 0; i < nRep; i++ {
			if got := bits.OnesCount32(full & listMask(p.Lists[i])); got < p.Reps[i] {
				return fail("rep:success-with-fewer-acknowledgements-than-required:"+c.Kind, "REP rule #%d needs %d nodes of %v, %d acknowledged", i, p.Reps[i], p.Lists[i], got)
			}
		}
		if _, ok := broadcastType[c.Kind]; ok {
			// TOMBSTONE/LOCK/LINK (and objects with children) are wanted on every part position of every EC
			// list: a successful PUT needs DataPartNum+ParityPartNum acknowledging nodes of that list
			for j, e := range p.EC {
				if got := bits.OnesCount32(full & listMask(p.Lists[nRep+j])); got < e[0]+e[1] {
					return fail("broadcast:success-with-fewer-acknowledgements-than-part-positions-on-an-EC-list", "%s: EC rule #%d (%d/%d over %v) needs %d acknowledging nodes of its list, %d acknowledged", c.Kind, j, e[0], e[1], p.Lists[nRep+j], e[0]+e[1], got)
				}
			}
		}
		return v
	}
	// trusted REGULAR object: REP rules + node-side EC
	limit := func(i int) int { // per-rule requirement (initial limits replace the main numbers)
		if p.Initial && p.Limits != nil {
			return p.Limits[i]
		}
		if i < nRep {
			return p.Reps[i]
		}
		return 1
	}
	total := 0
	for i := 0; i < nRep; i++ {
		got := bits.OnesCount32(full & listMask(p.Lists[i]))
		lim := limit(i)
		if !p.Initial || p.MaxReplicas == 0 {
			if got < lim {
				cls := "rep:success-with-fewer-acknowledgements-than-required:trusted"
				if p.Initial {
					cls = "initial:success-with-fewer-acknowledgements-than-the-rule-limit"
				}
				return fail(cls, "REP rule #%d needs %d nodes of %v, %d acknowledged", i, lim, p.Lists[i], got)
			}
		}
		total += min(got, lim)
	}
	for j, e := range p.EC {
		lim := limit(nRep + j)
		ok, why := ecComplete(w, j, e[0]+e[1], listMask(p.Lists[nRep+j]))
		if ok && lim > 0 {
			total++
		}
		if (!p.Initial || p.MaxReplicas == 0) && lim > 0 && !ok {
			if !anyPart(w, j, e[0]+e[1]) {
				return fail("ec:success-although-an-enabled-rule-was-never-placed"+dupClass(p, j), "no part of EC rule #%d was acknowledged by any node (%s)", j, why)
			}
			return fail("ec:success-with-"+ecClass(why)+dupClass(p, j), "%s", why)
		}
		// a part acknowledged outside its rule's list / twice on a node is a placement error whenever the rule was applied
		if !ok && anyPart(w, j, e[0]+e[1]) && partsComplete(w, j, e[0]+e[1]) {
			return fail("ec:success-with-"+ecClass(why)+dupClass(p, j), "%s", why)
		}
	}
	if p.Initial && p.MaxReplicas > 0 && total < p.MaxReplicas {
		dup := ""
		for j := range p.EC {
			if d := dupClass(p, j); d != "" {
				dup = ":policy-repeats-an-identical-EC-rule"
			}
		}
		if dup == "" && p.PreferLocal {
			for j, e := range p.EC {
				if ok, _ := ecComplete(w, j, e[0]+e[1], listMask(p.Lists[nRep+j])); !ok && limit(nRep+j) > 0 {
					dup = ":prefer-local-rule-reordering:EC-rule-failure-tolerated"
				}
			}
		}
		return fail("initial:success-with-fewer-replicas-than-max-replicas"+dup, "MaxReplicas=%d but only %d replicas (sum over rules of min(acknowledging nodes of the list, limit) + complete EC rules)", p.MaxReplicas, total)
	}
	return v
}

func anyPart(w *world, j, total int) bool {
	for p := 0; p < total; p++ {
		if ackSet(w, j, p) != 0 {
			return true
		}
	}
	return false
}

func partsComplete(w *world, j, total int) bool {
	for p := 0; p < total; p++ {
		if ackSet(w, j, p) == 0 {
			return false
		}
	}
	return true
}

func ecClass(why string) string {
	if len(why) > 5 && why[:5] == "parts" {
		return "two-parts-of-a-rule-on-one-node"
	}
	return "a-part-not-on-the-rule's-node-list"
}

func dupClass(p policy, j int) string {
	for k := 0; k < j; k++ {
		if p.EC[k] == p.EC[j] {
			return ":rule-repeats-an-earlier-identical-EC-rule"
		}
	}
	return ""
}

func panicClass(msg string, p policy) string {
	cls := "other"
	if len(msg) >= 27 && msg[:27] == "runtime error: index out of" {
		cls = "index-out-of-range"
	}
	if len(p.Reps) > 0 && len(p.EC) > 0 {
		cls += ":REP+EC-policy"
	}
	return cls
}

// ---- enumeration ---------------------------------------------------------------------------------------

// genLists: every tuple of ordered lists of distinct nodes with the given lengths over U nodes, up to
// renaming of nodes (nodes numbered by first appearance).
func genLists(lens []int, f func(lists [][]int, k int)) {
	cur := make([][]int, 0, len(lens))
	var rec func(li, k int)
	rec = func(li, k int) {
		if li == len(lens) {
			cp := make([][]int, len(cur))
			for i := range cur {
				cp[i] = append([]int(nil), cur[i]...)
			}
			f(cp, k)
			return
		}
		list := make([]int, 0, lens[li])
		var fill func(k2 int)
		fill = func(k2 int) {
			if len(list) == lens[li] {
				cur = append(cur, list)
				rec(li+1, k2)
				cur = cur[:len(cur)-1]
				return
			}
			for id := 0; id <= k2 && id < U; id++ {
				dup := false
				for _, x := range list {
					dup = dup || x == id
				}
				if dup {
					continue
				}
				list = append(list, id)
				nk := k2
				if id == k2 {
					nk = id + 1
				}
				fill(nk)
				list = list[:len(list)-1]
			}
		}
		fill(k)
	}
	rec(0, 0)
}

type job struct {
	p     policy
	k     int
	kinds []string
}

// initial policy variants valid per netmap.InitialPlacementPolicy rules.
func initialVariants(p policy, f func(policy)) {
	n := len(p.Reps) + len(p.EC)
	maxes := make([]int, n)
	for i := range maxes {
		if i < len(p.Reps) {
			maxes[i] = p.Reps[i]
		} else {
			maxes[i] = 1
		}
	}
	emit := func(limits []int, sum int, differs bool) {
		for m := 0; m <= sum; m++ {
			if m == 0 && (limits == nil || !differs) {
				continue
			}
			q := p
			q.Initial, q.Limits, q.MaxReplicas = true, limits, m
			f(q)
			if m > 0 {
				q.PreferLocal = true
				f(q)
			}
		}
	}
	sum := 0
	for _, m := range maxes {
		sum += m
	}
	emit(nil, sum, false)
	sizes := make([]int, n)
	for i := range sizes {
		sizes[i] = maxes[i] + 1
	}
	enumx.Product(sizes, func(idx []int) bool {
		s, differs := 0, false
		for i, v := range idx {
			s += v
			differs = differs || v < maxes[i]
		}
		if s == 0 {
			return true
		}
		emit(append([]int(nil), idx...), s, differs)
		return true
	})
}

var stopProf = func() {}

func main() {
	r := ev.Start("C25", ev.Exploration)
	if pf := os.Getenv("VERIF_PROF"); pf != "" { // developer aid only
		f, _ := os.Create(pf)
		pprof.StartCPUProfile(f)
		stopProf = pprof.StopCPUProfile
	}
	if r.Replay != "" {
		var c tcase
		r.LoadReplay(&c)
		res := exec(c)
		r.Eval(1)
		v := judge(c, res)
		fmt.Println("replay:", c, "->", v.class, res.err, res.w.acks)
		if v.fp != "" {
			r.Violation(v.fp, v.what, c)
		}
		r.Finish()
	}
	thorough := r.Thorough()
	var jobs []job
	repKinds := []string{"trusted", "sealed", "lock"}
	var addRep func(lens []int, maxRep int, withInitial bool)
	// initial-policy variants are generated for policies whose copies sum up to at most initSum
	initSum := 3
	if thorough {
		initSum = 5
	}
	sumOf := func(xs []int) (n int) {
		for _, x := range xs {
			n += x
		}
		return
	}
	addRep = func(lens []int, maxRep int, withInitial bool) {
		genLists(lens, func(lists [][]int, k int) {
			sizes := make([]int, len(lens))
			for i, l := range lens {
				sizes[i] = min(l, maxRep)
			}
			enumx.Product(sizes, func(idx []int) bool {
				reps := make([]int, len(idx))
				for i, v := range idx {
					reps[i] = v + 1
				}
				if len(lens) == 3 && k > 4 {
					return false // three-rule policies over at most 4 distinct nodes
				}
				p := policy{Lists: lists, Reps: reps}
				kinds := repKinds
				if !thorough && len(lens) == 2 && (lens[0] == 4 || lens[1] == 4) {
					kinds = repKinds[:1] // quick: the two other kinds only for lists of up to 3 nodes
				}
				jobs = append(jobs, job{p, k, kinds})
				if withInitial && sumOf(reps) <= initSum {
					initialVariants(p, func(q policy) { jobs = append(jobs, job{q, k, []string{"trusted"}}) })
				}
				return true
			})
		})
	}
	// one REP rule: lists of 1..4 nodes, 1..4 copies, with every valid initial policy
	initSumSaved := initSum
	initSum = 4
	for a := 1; a <= 4; a++ {
		addRep([]int{a}, 4, true)
	}
	initSum = initSumSaved
	nMain1 := len(jobs)
	// two REP rules: lists of 1..4 nodes, 1..4 copies
	for a := 1; a <= 4; a++ {
		for b := 1; b <= 4; b++ {
			addRep([]int{a, b}, 4, a <= 3 && b <= 3)
		}
	}
	nMain2 := len(jobs) - nMain1
	// three REP rules
	max3, rep3 := 2, 2
	if thorough {
		max3, rep3 = 3, 2
	}
	for a := 1; a <= max3; a++ {
		for b := 1; b <= max3; b++ {
			for c := 1; c <= max3; c++ {
				addRep([]int{a, b, c}, rep3, thorough && a <= 2 && b <= 2 && c <= 2)
			}
		}
	}
	nMain3 := len(jobs) - nMain1 - nMain2
	// EC-only: one or two rules (2/1, 1/1), lists of total..4 (thorough ..5) nodes; two identical rules included
	ecRules := [][2]int{{2, 1}, {1, 1}}
	maxEC := 4
	if thorough {
		maxEC = 5
	}
	addEC := func(rules [][2]int, lens []int, nRep int, reps []int, withInitial bool) {
		genLists(lens, func(lists [][]int, k int) {
			p := policy{Lists: lists, Reps: reps, EC: rules}
			kinds := []string{"trusted", "lock", "tombstone", "link", "ec-part"}
			if nRep > 0 {
				kinds = append(kinds, "sealed")
			}
			jobs = append(jobs, job{p, k, kinds})
			if withInitial {
				ik := []string{"trusted", "ec-part"}
				if !thorough && len(lens) > 1 {
					ik = ik[:1]
				}
				initialVariants(p, func(q policy) { jobs = append(jobs, job{q, k, ik}) })
			}
		})
	}
	for _, e := range ecRules {
		for l := e[0] + e[1]; l <= maxEC; l++ {
			addEC([][2]int{e}, []int{l}, 0, nil, true)
		}
	}
	for _, e1 := range ecRules {
		for _, e2 := range ecRules {
			for l1 := e1[0] + e1[1]; l1 <= 3; l1++ {
				for l2 := e2[0] + e2[1]; l2 <= 3; l2++ {
					addEC([][2]int{e1, e2}, []int{l1, l2}, 0, nil, thorough || (l1 == e1[0]+e1[1] && l2 == e2[0]+e2[1]))
				}
			}
		}
	}
	// REP+EC policies: the Inner Ring refuses such containers today ("REP+EC rules are not supported yet"),
	// and a trusted REGULAR PUT into one panics (t.encodedECParts is indexed by the global rule index), so
	// that kind is not enumerated for them. The other kinds (LOCK broadcast, client-sealed REGULAR, sealed EC
	// part) are: they exercise the "EC list = list #(number of REP rules + i)" indexing with REP lists
	// shorter and longer than the EC lists.
	mixedKinds := []string{"lock", "tombstone", "sealed", "ec-part"}
	if thorough {
		mixedKinds = []string{"lock", "tombstone", "link", "children", "sealed", "ec-part"}
	}
	addMixed := func(rules [][2]int, lens []int, reps []int) {
		genLists(lens, func(lists [][]int, k int) {
			jobs = append(jobs, job{policy{Lists: lists, Reps: reps, EC: rules}, k, mixedKinds})
		})
	}
	for _, e := range ecRules {
		for a := 1; a <= 3; a++ {
			for rp := 1; rp <= a && rp <= 2; rp++ {
				for l := e[0] + e[1]; l <= 4; l++ {
					addMixed([][2]int{e}, []int{a, l}, []int{rp})
				}
			}
		}
	}
	for a := 1; a <= 2; a++ {
		for b := 1; b <= 2; b++ {
			for l := 2; l <= 3; l++ {
				addMixed([][2]int{{1, 1}}, []int{a, b, l}, []int{1, min(b, 2)})
			}
		}
	}
	_ = addEC
	nEC := len(jobs) - nMain1 - nMain2 - nMain3

	if os.Getenv("VERIF_COUNT") != "" { // developer aid: size of the space per group
		cnt := func(js []job) (n int64) {
			for _, j := range js {
				for _, kind := range j.kinds {
					m := int64(1)
					if kind == "ec-part" {
						m = 0
						for _, e := range j.p.EC {
							m += int64(e[0] + e[1])
						}
					}
					n += m * int64(j.k+1) << uint(j.k)
				}
			}
			return
		}
		var mainJ, initJ []job
		for _, j := range jobs {
			if j.p.Initial {
				initJ = append(initJ, j)
			} else {
				mainJ = append(mainJ, j)
			}
		}
		fmt.Println("main policies:", len(mainJ), cnt(mainJ), "initial variants:", len(initJ), cnt(initJ))
		fmt.Println("1 rule:", nMain1, cnt(jobs[:nMain1]), "2 rules:", nMain2, cnt(jobs[nMain1:nMain1+nMain2]), "3 rules:", nMain3, cnt(jobs[nMain1+nMain2:nMain1+nMain2+nMain3]), "ec:", nEC, cnt(jobs[nMain1+nMain2+nMain3:]))
		os.Exit(0)
	}
	var mu sync.Mutex
	classes := map[string]int64{}
	violClasses := map[string]int64{}
	violFirst := map[string]string{}
	nontriv := map[uint64]struct{}{}
	var expired atomic.Bool
	enumx.Parallel(len(jobs), func(ji int) {
		if r.Expired() {
			expired.Store(true)
			return
		}
		j := jobs[ji]
		lcl := map[string]int64{}
		lnt := map[uint64]struct{}{}
		nRep := len(j.p.Reps)
		for _, kind := range j.kinds {
			type pr struct{ rule, part int }
			parts := []pr{{0, 0}}
			if kind == "ec-part" {
				parts = nil
				for ri, e := range j.p.EC {
					for pi := 0; pi < e[0]+e[1]; pi++ {
						parts = append(parts, pr{ri, pi})
					}
				}
			}
			_ = nRep
			for _, pp := range parts {
				for local := -1; local < j.k; local++ {
					for ok := uint32(0); ok < 1<<uint(j.k); ok++ {
						c := tcase{Policy: j.p, Local: local, OK: ok, Kind: kind, PartRule: pp.rule, PartIdx: pp.part}
						res := exec(c)
						r.Eval(1)
						v := judge(c, res)
						lcl[kind+":"+v.class]++
						if res.w.sends > 0 && ok != 0 && ok != 1<<uint(j.k)-1 {
							// non-trivial: some nodes fail and some succeed, and something was sent
							h := uint64(14695981039346656037)
							for _, b := range []byte(fmt.Sprint(c.Policy, c.Kind, c.Local, c.OK, pp)) {
								h = (h ^ uint64(b)) * 1099511628211
							}
							lnt[h] = struct{}{}
						}
						if v.fp != "" {
							r.Violation(v.fp, v.what, c)
							mu.Lock()
							if violClasses[v.fp] == 0 {
								violFirst[v.fp] = v.what
							}
							violClasses[v.fp]++
							mu.Unlock()
						} else if v.class == "success" && len(c.Policy.Lists) >= 2 && bits.OnesCount32(ok) < j.k && r.WantSample() {
							r.Sample(map[string]any{"case": c.String(), "result": "success", "acknowledgements(node,rule,part)": fmt.Sprint(res.w.acks)})
						}
					}
				}
			}
		}
		mu.Lock()
		for k, v := range lcl {
			classes[k] += v
		}
		for k := range lnt {
			nontriv[k] = struct{}{}
		}
		mu.Unlock()
	})
	for k := range nontriv {
		r.Nontrivial(strconv.FormatUint(k, 16))
	}
	var cl, vc []string
	for k, v := range classes {
		cl = append(cl, fmt.Sprintf("%s=%d", k, v))
	}
	sort.Strings(cl)
	for k, v := range violClasses {
		vc = append(vc, fmt.Sprintf("%s  x%d  first: %s", k, v, violFirst[k]))
	}
	sort.Strings(vc)
	for _, l := range vc {
		fmt.Println("violation-class:", l)
	}
	r.Set("violation_classes", vc)
	r.Set("outcome_classes", len(classes))
	r.Set("outcome_class_counts", cl)
	r.Set("policies", map[string]int{"one_rep_rule": nMain1, "two_rep_rules": nMain2, "three_rep_rules": nMain3, "ec": nEC})
	r.Rule(fmt.Sprintf("policies up to renaming of the 5 universe nodes (lists = ordered tuples of distinct nodes, overlapping in every way): 1 REP rule lists 1..4 copies 1..4; 2 REP rules lists 1..4 copies 1..4; 3 REP rules lists 1..%d copies 1..%d (3-rule policies use at most 4 distinct nodes; quick: 2-rule lists of 4 only with the trusted kind); EC-only 2/1 and 1/1 (one rule over total..%d nodes, two rules incl. identical ones over total..3 nodes); REP+EC (1 REP list of 1..3 nodes + EC over total..4 nodes, 2 REP lists of 1..2 + EC 1/1 over 2..3; kinds LOCK, TOMBSTONE, sealed REGULAR, sealed EC part; thorough also LINK and a sealed REGULAR object with children); EC-only policies also with TOMBSTONE and LINK; for REP policies whose copies sum to <= %d (one rule: 4) and the smaller EC policies EVERY valid initial placement policy (all limit vectors, every MaxReplicas, PreferLocal on/off); x object kind (trusted REGULAR = node-side EC, client-sealed REGULAR, broadcast objects LOCK/TOMBSTONE/LINK/REGULAR-with-children, sealed EC part of every rule/index) x local node = every node of the policy or none x ALL 2^n healthy-node vectors. distinct non-trivial = distinct cases with a mixed healthy vector (neither all nor none) in which at least one node was contacted", max3, rep3, maxEC, initSum))
	r.Exhaustive(!expired.Load())
	r.Assume("each node answers deterministically (stores everything it is sent or refuses everything); the real code contacts nodes concurrently (WaitGroup.Go / errgroup), one Go-scheduler interleaving is observed per case - the oracle is schedule-independent (it only uses who acknowledged what)",
		"the distribution target is assembled by an injected constructor mirroring Streamer.newDistrubutedWriter and driven like slicingTarget drives it (EC split modifier, WriteHeader, Write, Close); payload slicing, signature/format validation and the on-chain meta collection are outside this check",
		"initial policy with MaxReplicas: a REP rule contributes min(#acknowledging nodes of its list, its limit), a completely placed EC rule contributes 1; a node shared by two lists counts for both (the reading most favourable to the implementation)")
	stopProf()
	r.Finish()
}
