// C09: a removed object never becomes readable again without a new upload.
// (A) every history of <=N operations over {Put R, Put tombstone (expires at epoch 2), Drop R,
//
//	epoch+1, GC pass, flush, metadata resync from the blobstor, restart}, with and without
//	write-cache, on a real shard under the controlled scheduler (history = explored choice);
//
// (B) concurrent flush-versus-delete schedules: a client drops/tombstones R exactly while the
//
//	background flusher moves it, all interleavings within the preemption bound, then resync;
//
// (C) crash images taken at every blobstor/metabase step of a deletion, recovered by restart and by
//
//	resync.
//
// Monitor: once R has been observed removed (Get fails after an accepted tombstone/drop), any later
// successful Get(R) without a newly accepted Put(R) in between is a violation.
package main

import (
	"errors"
	"fmt"
	"os"
	"path/filepath"
	"strings"
	"time"

	"github.com/nspcc-dev/bbolt"
	"github.com/nspcc-dev/neofs-node/pkg/local_object_storage/blobstor/fstree"
	meta "github.com/nspcc-dev/neofs-node/pkg/local_object_storage/metabase"
	"github.com/nspcc-dev/neofs-node/pkg/local_object_storage/shard"
	"github.com/nspcc-dev/neofs-node/pkg/local_object_storage/writecache"
	"github.com/nspcc-dev/neofs-node/verif/lib/ev"
	"github.com/nspcc-dev/neofs-node/verif/lib/sched"
	ss "github.com/nspcc-dev/neofs-node/verif/worlds/schedshard"
	apistatus "github.com/nspcc-dev/neofs-sdk-go/client/status"
	"github.com/nspcc-dev/neofs-sdk-go/object"
	oid "github.com/nspcc-dev/neofs-sdk-go/object/id"
	"go.uber.org/zap"
)

const (
	objR   = 0
	objT   = 1
	tsExp  = 2
	sizeR  = 60
	rmOpen = "open"
)

type monitor struct {
	stored        bool   // R was ever accepted
	removedBy     string // "" | "tombstone" | "drop"
	removalSeen   bool   // Get(R) failed after the accepted removal
	freshUpload   bool   // an accepted Put(R) after the removal was observed
	Violation     string
	ViolationWhat string
	Obs           []string
}

type world struct {
	s    *sched.S
	w    *ss.World
	root string
	wc   bool
	m    *monitor
	mech string // history class: what made the removal incomplete
}

func (x *world) observe(after string) {
	_, err := x.w.Sh.Get(ss.Addr(objR), false)
	ok := err == nil
	m := x.m
	m.Obs = append(m.Obs, fmt.Sprintf("%s:%v", after, ok))
	if !ok && m.removedBy != "" && m.stored {
		if !m.removalSeen {
			m.removalSeen = true
			m.freshUpload = false
		}
	}
	if ok && m.removalSeen && !m.freshUpload && m.Violation == "" {
		m.Violation = fmt.Sprintf("removed-object-readable-again:removed-by=%s:after=%s:write-cache=%v:%s", m.removedBy, strings.TrimPrefix(opClass(after), "final-"), x.wc, x.mech)
		m.ViolationWhat = strings.Join(m.Obs, " ")
	}
}

func opClass(op string) string {
	if i := strings.IndexAny(op, "("); i >= 0 {
		return op[:i]
	}
	return op
}

// enginePut stores an object the way the storage engine drives a shard: Shard.Put does no existence
// checks of its own ("these checks should be executed ahead of Put by storage engine"), the engine
// asks Exists first and does not call Put for an object that is already there (also when it is
// reported as expired) or that is reported as removed.
func (x *world) enginePut(o *object.Object) (stored bool, err error) {
	ex, err := x.w.Sh.Exists(o.Address(), false)
	if err != nil {
		if shard.IsErrObjectExpired(err) {
			return false, nil
		}
		if errors.Is(err, apistatus.ErrObjectAlreadyRemoved) || errors.Is(err, apistatus.ErrObjectNotFound) {
			return false, err
		}
	}
	if ex {
		return false, nil
	}
	if err := x.w.Sh.Put(o, nil); err != nil {
		return false, err
	}
	return true, nil
}

func (x *world) put() {
	if stored, err := x.enginePut(ss.Obj(objR, sizeR)); err == nil && stored {
		x.m.stored = true
		if x.m.removalSeen {
			x.m.freshUpload = true
			x.m.removalSeen = false
			x.m.removedBy = ""
		}
	}
}
func (x *world) tomb() {
	if _, err := x.enginePut(ss.Tombstone(objT, objR, tsExp)); err == nil && x.m.stored && x.m.removedBy == "" {
		x.m.removedBy = "tombstone"
	}
}
func (x *world) drop() {
	if err := x.w.Sh.Delete(ss.Cnr, []oid.ID{ss.OID(objR)}); err == nil && x.m.stored && x.m.removedBy == "" {
		x.m.removedBy = "drop"
	}
}
func (x *world) epoch() {
	x.w.Epoch.E++
	x.w.Sh.VerifSSNewEpoch(x.w.Epoch.E)
}
func (x *world) reopen() {
	e := x.w.Epoch.E
	x.w.Close()
	w, err := ss.New(x.s, x.root, ss.Opts{WriteCache: x.wc, RmBatch: 10})
	if err != nil {
		panic(err)
	}
	w.Epoch.E = e
	x.w = w
}

// resync does what `neofs-lancet meta resync` does: node stopped, metabase rebuilt from the blobstor.
func (x *world) resync() {
	e := x.w.Epoch.E
	x.w.Close()
	resyncDir(x.root, e)
	w, err := ss.New(x.s, x.root, ss.Opts{WriteCache: x.wc, RmBatch: 10})
	if err != nil {
		panic(err)
	}
	w.Epoch.E = e
	x.w = w
}

func resyncDir(root string, epoch uint64) {
	ep := &ss.Epoch{E: epoch}
	db := meta.New(meta.WithPath(filepath.Join(root, "meta")), meta.WithEpochState(ep), meta.WithPermissions(0o600),
		meta.WithMaxBatchSize(1), meta.WithMaxBatchDelay(time.Microsecond), meta.WithLogger(zap.NewNop()),
		meta.WithBoltDBOptions(&bbolt.Options{NoSync: true, NoFreelistSync: true, Timeout: time.Second}))
	fst := fstree.New(fstree.WithPath(filepath.Join(root, "blob")), fstree.WithDepth(1), fstree.WithPerm(0o700),
		fstree.WithCombinedCountLimit(1), fstree.WithNoSync(true))
	if err := fst.Open(true); err != nil {
		panic(err)
	}
	if err := db.Open(false); err != nil {
		panic(err)
	}
	if err := db.ResyncFromBlobstor(fst, nil); err != nil {
		panic(err)
	}
	db.Close()
	fst.Close()
}

func fileExists(w *ss.World, i int) bool {
	_, err := w.FST.GetBytes(ss.Addr(i))
	return err == nil
}

func writecacheNonEmpty(root string) bool {
	n := 0
	filepath.Walk(filepath.Join(root, "wc"), func(p string, info os.FileInfo, err error) error {
		if err == nil && !info.IsDir() && !strings.HasPrefix(info.Name(), ".") {
			n++
		}
		return nil
	})
	return n > 0
}

type opT struct {
	Name string
	Do   func(x *world)
}

var alphabet = []opT{
	{"Put(R)", (*world).put},
	{"PutTombstone(R,exp=2)", (*world).tomb},
	{"Drop(R)", (*world).drop},
	{"Epoch+1", (*world).epoch},
	{"GCPass", func(x *world) { x.w.Sh.VerifSSGCPass() }},
	{"Flush", func(x *world) { x.w.Sh.FlushWriteCache(false) }},
	{"Resync", (*world).resync},
	{"Restart", (*world).reopen},
	// the tombstone's expiration epoch passes at once, with no GC pass in between (appended last: the
	// prefix scenarios address the letters above by index)
	{"Epoch+3", func(x *world) { x.epoch(); x.epoch(); x.epoch() }},
}

type result struct {
	History []string
	M       *monitor
	Root    string
	Images  []string
	Labels  []string
	WC      bool
	Epochs  []uint64
}

func historyScenario(wc bool, depth int, prefix ...int) sched.Scenario {
	body := func(s *sched.S) any {
		root, err := os.MkdirTemp("/dev/shm", "verif-c09-")
		if err != nil {
			panic(err)
		}
		defer os.RemoveAll(root)
		res := &result{M: &monitor{}, WC: wc}
		s.Result = res
		w, err := ss.New(s, root, ss.Opts{WriteCache: wc, RmBatch: 10})
		if err != nil {
			panic(err)
		}
		x := &world{s: s, w: w, root: root, wc: wc, m: res.M, mech: "sequential-history"}
		defer func() { x.w.Close() }()
		for _, k := range prefix {
			o := alphabet[k]
			res.History = append(res.History, o.Name)
			o.Do(x)
			x.observe(o.Name)
		}
		for step := 0; step < depth; step++ {
			k := s.Choose(len(alphabet)+1, sched.Fault, fmt.Sprintf("op%d", step))
			if k == 0 {
				break
			}
			o := alphabet[k-1]
			if o.Name == "Resync" && wc {
				if n, _ := x.w.Sh.VerifSSWriteCache().(interface{ Flush(bool) error }); n != nil {
					if writecacheNonEmpty(root) {
						x.mech = "sequential-history-with-resync-while-write-cache-holds-objects"
					}
				}
			}
			res.History = append(res.History, o.Name)
			o.Do(x)
			x.observe(o.Name)
		}
		s.AwaitQuiescence()
		x.observe("quiescence")
		// closing moves: whatever happened, a resync and a restart must not bring R back
		x.resync()
		x.observe("final-Resync")
		return res
	}
	name := fmt.Sprintf("histories<=%d write-cache=%v", depth, wc)
	if len(prefix) > 0 {
		name += fmt.Sprintf(" after prefix %v", prefix)
	}
	return sched.Scenario{Name: name,
		Opt:  sched.Options{FaultBound: depth, FreeBound: -1, MaxSteps: 12000, Setup: func(s *sched.S) { s.TimerFires = 2 }},
		Body: body, Check: checkRes, Outcome: func(x *sched.Exec) string {
			res, _ := x.Result.(*result)
			if res == nil {
				return "aborted"
			}
			return fmt.Sprintf("wc=%v removedBy=%s seen=%v fresh=%v", res.WC, res.M.removedBy, res.M.removalSeen, res.M.freshUpload)
		}}
}

func checkRes(x *sched.Exec) (string, string) {
	if len(x.Panics) > 0 {
		return "panic", x.Panics[0]
	}
	res, _ := x.Result.(*result)
	if res == nil || x.Horizon {
		return "", ""
	}
	if x.Deadlock {
		return "deadlock", strings.Join(x.Blocked, ";")
	}
	if res.M.Violation != "" {
		return res.M.Violation, fmt.Sprintf("history %v: %s", res.History, res.M.ViolationWhat)
	}
	return "", ""
}

// raceScenario: the client removes R exactly while the background flusher moves it to the blobstor.
// The removal starts once the flusher has reached the blobstor with R (early=false) or as soon as
// the flush scheduler has marked R as being processed (early=true: the worker has not read it yet).
func raceScenario(removal string, pre int, early bool) sched.Scenario {
	body := func(s *sched.S) any {
		root, err := os.MkdirTemp("/dev/shm", "verif-c09-")
		if err != nil {
			panic(err)
		}
		defer os.RemoveAll(root)
		res := &result{M: &monitor{}, WC: true, History: []string{"Put(R)", "flush||" + removal}}
		s.Result = res
		w, err := ss.New(s, root, ss.Opts{WriteCache: true, RmBatch: 10})
		if err != nil {
			panic(err)
		}
		x := &world{s: s, w: w, root: root, wc: true, m: res.M, mech: "removal-concurrent-with-background-flush:blob-written-before-the-removal-returned"}
		defer func() { x.w.Close() }()
		blobWrites := 0
		removalReturned := false
		var evs []string
		w.OnStep = func(l string) {
			if os.Getenv("VERIF_DEBUG") != "" {
				evs = append(evs, fmt.Sprintf("t%d:%s", s.Cur().ID, l))
			}
			if l == "blob.Put" || l == "blob.PutBatch" {
				blobWrites++
			}
			if (l == "blob.Put.done" || l == "blob.PutBatch.done") && removalReturned {
				x.mech = "blob-written-by-the-flusher-after-the-removal-returned"
			}
		}
		done := false
		s.Go("client", false, func() {
			x.put()
			if early {
				s.Block("wait for the flusher to mark the object", func() bool {
					return writecache.VerifFlushMarked(w.Sh.VerifSSWriteCache(), ss.Addr(objR)) || s.TimerFires <= 0
				})
			} else {
				s.Block("wait for the flusher to reach the blobstor", func() bool { return blobWrites > 0 || s.TimerFires <= 0 })
			}
			if removal == "drop" {
				x.drop()
				removalReturned = true
			} else {
				x.tomb()
				x.observe("PutTombstone")
				// the tombstone expires, GC removes the object and later the tombstone itself
				for i := 0; i < 4; i++ {
					x.epoch()
					x.w.Sh.VerifSSGCPass()
					if !fileExists(x.w, objR) {
						removalReturned = true // GC has physically removed the object
					}
				}
			}
			done = true
		})
		s.Block("join", func() bool { return done })
		s.AwaitQuiescence()
		x.observe(removal)
		if os.Getenv("VERIF_DEBUG") != "" {
			fmt.Fprintf(os.Stderr, "DBG %v %v | %v\n", early, removal, evs)
		}
		x.w.OnStep = nil
		x.resync()
		x.observe("Resync")
		x.reopen()
		x.observe("Restart")
		return res
	}
	return sched.Scenario{Name: "flush racing with " + removal + map[bool]string{true: " (removal starts when the object is marked for flushing)", false: ""}[early],
		Opt:  sched.Options{PreemptBound: pre, FreeBound: map[bool]int{true: 1, false: raceFree}[early], MaxSteps: 12000, Setup: func(s *sched.S) { s.TimerFires = 3 }},
		Body: body, Check: checkRes, Outcome: func(x *sched.Exec) string {
			res, _ := x.Result.(*result)
			if res == nil {
				return "aborted"
			}
			return fmt.Sprintf("race removedBy=%s seen=%v obs=%d", res.M.removedBy, res.M.removalSeen, len(res.M.Obs))
		}}
}

var raceFree = -1

func main() {
	r := ev.Start("C09", ev.ModelChecking)
	depth, pre := 3, 1
	list := func(depth, pre int, tag string, deep bool) []sched.Scenario {
		l := []sched.Scenario{
			// cheap sequential families first: what they leave of their budget share rolls over to the races
			historyScenario(true, depth), historyScenario(false, depth),
			// the object is in the blobstor AND put again into the write-cache (Put, Flush, Put), then anything
			historyScenario(true, depth-1, 0, 5, 0),
			// start from the removed state (Put, PutTombstone), then anything
			historyScenario(false, depth-1, 0, 1), historyScenario(true, depth-1, 0, 1),
			raceScenario("drop", pre, false), raceScenario("tombstone", pre, false),
			raceScenario("drop", pre, true),
		}
		if deep {
			l = append(l, raceScenario("tombstone", pre, true)) // long executions (4 epochs + GC passes): thorough only
		}
		for i := range l {
			l[i].Name += tag
		}
		return l
	}
	scs := list(depth, pre, "", r.Thorough())
	if r.Thorough() {
		// deeper bounds after the quick ones (the budget is shared per scenario, leftovers roll on)
		depth, pre = 5, 2
		raceFree = 1
		scs = append(scs, list(depth, pre, " [deep]", true)...)
	}
	r.Rule(fmt.Sprintf("(A) every history of <=%d operations over %d operations x write-cache on/off followed by a closing resync; (B) all schedules with <=%d preemptions of put; flusher || drop / tombstone+expiry+GC; then resync and restart. Monitor on every observation of Get(R); non-trivial = distinct (removal kind, removal observed, fresh upload) outcome classes", depth, len(alphabet), pre))
	r.Assume("puts are issued the way the storage engine drives a shard: Exists first, no Shard.Put for an object that is already there (also when reported expired) or reported removed — Shard.Put documents that existence checks are the caller's", "resync is meta.DB.ResyncFromBlobstor run on the stopped shard as neofs-lancet does (write-cache content is not part of it)", "atomics are not scheduling points")
	sched.Main(r, scs, 0)
}
