// C11: payload range reads return exactly the requested bytes or out-of-range, with the same answer
// from every storage layer, file format and API, with or without header interception.
//
// Exhaustive enumeration: payload lengths 0..64 (plus lengths that put the end of the payload / of the
// file around the 20 KiB and 40 KiB header-buffer boundaries, and 100 000) x every range mode with every
// (first, second) in 0..len+2 plus {2^63-1, 2^63, 2^64-len, 2^64-1} x file format {plain, plain zstd,
// single-member combined file, 3-member combined file (all positions), the same zstd-compressed} x API
// {GetRangeStream +-header, ReadPayloadRange +-interceptor, ReadObjectParts +-interceptor} x layer
// {FSTree, write-cache, shard (+-write-cache), engine}. Oracle: a reference slice function written from
// the PayloadRange doc comments and RFC 7233 range semantics the property text refers to.
package main

import (
	"bytes"
	"context"
	"crypto/sha256"
	"encoding/binary"
	"errors"
	"fmt"
	"io"
	"math"
	"os"
	"path/filepath"
	"runtime/pprof"
	"sort"
	"strconv"
	"strings"
	"sync"

	"github.com/klauspost/compress/zstd"
	"github.com/nspcc-dev/neo-go/pkg/util"
	iobject "github.com/nspcc-dev/neofs-node/internal/object"
	"github.com/nspcc-dev/neofs-node/pkg/local_object_storage/blobstor/common"
	"github.com/nspcc-dev/neofs-node/pkg/local_object_storage/blobstor/fstree"
	"github.com/nspcc-dev/neofs-node/verif/lib/enumx"
	"github.com/nspcc-dev/neofs-node/verif/lib/ev"
	"github.com/nspcc-dev/neofs-sdk-go/checksum"
	apistatus "github.com/nspcc-dev/neofs-sdk-go/client/status"
	cid "github.com/nspcc-dev/neofs-sdk-go/container/id"
	"github.com/nspcc-dev/neofs-sdk-go/object"
	oid "github.com/nspcc-dev/neofs-sdk-go/object/id"
	"github.com/nspcc-dev/neofs-sdk-go/user"
	"github.com/nspcc-dev/neofs-sdk-go/version"
)

const hbuf = iobject.NonPayloadFieldsBufferLength // 20 KiB

// ---------- reference ----------

type expect struct {
	Off, Ln uint64
	OOR     bool   // out of range
	Unspec  bool   // not determined by the documentation: only cross-API/layer consistency is demanded
	Class   string // structural class for fingerprints / vacuity
}

// refRange is the reference slice function.
//
//	none            -> whole payload
//	offset+length   -> [off, off+len); (0,0) means the whole payload ("zero range means full payload");
//	                   unsatisfiable if it does not lie inside the payload; (off!=0, len=0) is not specified
//	bounds first-last (inclusive positions, RFC 7233 byte-range-spec): unsatisfiable iff first>last or
//	                   first>=len; last is clamped to len-1
//	from first      -> [first, len), unsatisfiable iff first>=len
//	suffix n        -> last min(n,len) bytes, unsatisfiable iff n==0
func refRange(L uint64, r common.PayloadRange) expect {
	switch r.Mode {
	case common.PayloadRangeModeNone:
		return expect{Ln: L, Class: "none"}
	case common.PayloadRangeModeOffsetLength:
		off, ln := r.First, r.Second
		if ln == 0 {
			if off == 0 {
				return expect{Ln: L, Class: "zero-range=full"}
			}
			return expect{Unspec: true, Class: "zero-length-at-nonzero-offset"}
		}
		if off > L || ln > L-off {
			return expect{OOR: true, Class: "off+len>payload"}
		}
		return expect{Off: off, Ln: ln, Class: "inside"}
	case common.PayloadRangeModeBounds:
		if r.First > r.Second {
			return expect{OOR: true, Class: "first>last"}
		}
		if r.First >= L {
			return expect{OOR: true, Class: "first>=payload"}
		}
		last := r.Second
		cl := "inside"
		if last > L-1 {
			last, cl = L-1, "last-clamped"
		}
		return expect{Off: r.First, Ln: last - r.First + 1, Class: cl}
	case common.PayloadRangeModeFrom:
		if r.First >= L {
			return expect{OOR: true, Class: "first>=payload"}
		}
		return expect{Off: r.First, Ln: L - r.First, Class: "inside"}
	case common.PayloadRangeModeSuffix:
		if r.First == 0 {
			return expect{OOR: true, Class: "zero-suffix"}
		}
		n, cl := r.First, "inside"
		if n > L {
			n, cl = L, "suffix-clamped"
		}
		return expect{Off: L - n, Ln: n, Class: cl}
	}
	panic("bad mode")
}

var modeNames = map[common.PayloadRangeMode]string{
	common.PayloadRangeModeNone: "none", common.PayloadRangeModeOffsetLength: "offset-length",
	common.PayloadRangeModeBounds: "bounds", common.PayloadRangeModeFrom: "from", common.PayloadRangeModeSuffix: "suffix",
}

// posClass describes where the expected slice lies relative to the payload bytes buffered with the header.
func posClass(e expect, L, pfx uint64) string {
	if e.OOR || e.Unspec {
		return e.Class
	}
	rel := func(x uint64) string {
		switch {
		case x == 0:
			return "0"
		case x == L:
			return "end"
		case x < pfx:
			return "<buf"
		case x == pfx:
			return "=buf"
		}
		return ">buf"
	}
	return e.Class + "[" + rel(e.Off) + ".." + rel(e.Off+e.Ln) + "]"
}

// ---------- objects ----------

func h32(label string) [32]byte { return sha256.Sum256([]byte("verif-c11-" + label)) }

type tobj struct {
	Format  string
	L       int
	Pattern string
	addr    oid.Address
	enc     []byte // canonical encoding
	hdrVal  []byte // header message bytes
	hdrObj  []byte // canonical encoding of the payload-less object
	payload []byte
	pfx     uint64     // payload bytes that fit the first buffered read of a plain file
	stored  int        // stored (possibly compressed) size
	sweep   *sweepCase // set for members of boundary-sweep files
	size    *sizeCase  // set for objects of the header-buffer size sweep
}

func (t *tobj) swept() bool { return t.sweep != nil || t.size != nil }

// shape is the storage shape class used in fingerprints: raw/zstd and how the stored and decoded sizes
// relate to the 20 KiB first read and the 40 KiB caller buffer.
func (t *tobj) shape() string {
	sz := func(n int) string {
		switch {
		case n < hbuf:
			return "<20KiB"
		case n == hbuf:
			return "=20KiB"
		case n <= 2*hbuf:
			return "20..40KiB"
		}
		return ">40KiB"
	}
	if t.stored == len(t.enc) {
		lay := "plain-file"
		switch {
		case t.size != nil:
			lay = "size-sweep:" + t.size.Family + ":" + t.size.Layout
		case t.sweep != nil:
			lay = "boundary-sweep:" + t.sweep.fpKind() + ":" + t.sweep.fpClass()
		case strings.Contains(t.Format, "combined-single"):
			lay = "sole-member"
		case strings.Contains(t.Format, "combined-3"):
			lay = "one-of-3-members"
		case strings.Contains(t.Format, "put"):
			lay = "stored-by-put"
		}
		return "raw:object" + sz(len(t.enc)) + "," + lay
	}
	if t.size != nil {
		return "zstd:stored" + sz(t.stored) + ",object" + sz(len(t.enc)) + ",size-sweep:" + t.size.Family + ":" + t.size.Layout
	}
	return "zstd:stored" + sz(t.stored) + ",object" + sz(len(t.enc))
}

func mkPayload(pattern string, n int) []byte {
	p := make([]byte, n)
	if r, ok := strings.CutPrefix(pattern, "mixed:"); ok { // incompressible head of r bytes, compressible tail
		k, _ := strconv.Atoi(r)
		q := mkPayload("periodic", n)
		copy(q[:min(k, n)], mkPayload("random", min(k, n)))
		return q
	}
	if pattern == "periodic" {
		for i := range p {
			p[i] = byte(i%251) ^ 0x5a
		}
		return p
	}
	for i := 0; i < n; i += 32 {
		h := h32(fmt.Sprintf("pld-%d", i/32))
		copy(p[i:], h[:])
	}
	return p
}

var (
	cnrByFormat = map[string]cid.ID{}
	ownerID     user.ID
)

var hdrPad int

func mkObject(format string, L int, pattern string, k int) *tobj {
	cnr, ok := cnrByFormat[format]
	if !ok {
		cnr = cid.ID(h32("cnr-" + format))
		cnrByFormat[format] = cnr
	}
	var o object.Object
	v := version.Current()
	o.SetVersion(&v)
	o.SetContainerID(cnr)
	o.SetOwner(ownerID)
	o.SetType(object.TypeRegular)
	o.SetCreationEpoch(1)
	if hdrPad > 0 { // experiment only (VERIF_C11_HDRSWEEP): header beyond the 16 KiB protocol limit
		o.SetAttributes(object.NewAttribute("pad", strings.Repeat("p", hdrPad)))
	}
	pld := mkPayload(pattern, L)
	o.SetPayload(pld)
	o.SetPayloadSize(uint64(L))
	o.SetPayloadChecksum(checksum.NewSHA256(sha256.Sum256(pld)))
	o.SetID(oid.ID(h32(fmt.Sprintf("obj-%s-%d-%s-%d", format, L, pattern, k))))
	t := &tobj{Format: format, L: L, Pattern: pattern, addr: o.Address(), enc: o.Marshal(), payload: pld}
	t.stored = len(t.enc)
	t.hdrObj = o.CutPayload().Marshal()
	pm := o.ProtoMessage().Header
	t.hdrVal = make([]byte, pm.MarshaledSize())
	pm.MarshalStable(t.hdrVal)
	dataOff := len(t.enc) - L
	if dataOff < hbuf {
		t.pfx = uint64(min(L, hbuf-dataOff))
	}
	return t
}

var zenc, _ = zstd.NewWriter(nil)

func compress(b []byte) []byte { return zenc.EncodeAll(b, nil) }

// data returns the bytes to store for t (compressed or not) and records the stored size.
func (t *tobj) data(z bool) []byte {
	if !z {
		return t.enc
	}
	d := compress(t.enc)
	t.stored = len(d)
	return d
}

// ---------- layers ----------

type interceptFn = func([]byte) error

type layer interface {
	Name() string
	GRS(a oid.Address, r common.PayloadRange, hdr bool) (*object.Object, uint64, io.ReadCloser, error)
	RPR(a oid.Address, off, ln uint64, buf []byte, f interceptFn) (io.ReadCloser, error)
	ROP(buf []byte, a oid.Address, r common.PayloadRange, f interceptFn) (int, io.ReadCloser, error)
	// Extra returns additional whole-result range readers (name -> bytes,err) for offset-length ranges.
	Extra(a oid.Address, off, ln uint64) map[string]func() ([]byte, error)
}

type storLayer struct {
	name string
	s    interface {
		GetRangeStream(oid.Address, common.PayloadRange, bool) (*object.Object, uint64, io.ReadCloser, error)
		ReadPayloadRange(oid.Address, uint64, uint64, []byte, func([]byte) error) (io.ReadCloser, error)
		ReadObjectParts([]byte, oid.Address, common.PayloadRange, func([]byte) error) (int, io.ReadCloser, error)
	}
}

func (l storLayer) Name() string { return l.name }
func (l storLayer) GRS(a oid.Address, r common.PayloadRange, h bool) (*object.Object, uint64, io.ReadCloser, error) {
	return l.s.GetRangeStream(a, r, h)
}
func (l storLayer) RPR(a oid.Address, off, ln uint64, buf []byte, f interceptFn) (io.ReadCloser, error) {
	return l.s.ReadPayloadRange(a, off, ln, buf, f)
}
func (l storLayer) ROP(buf []byte, a oid.Address, r common.PayloadRange, f interceptFn) (int, io.ReadCloser, error) {
	return l.s.ReadObjectParts(buf, a, r, f)
}
func (l storLayer) Extra(oid.Address, uint64, uint64) map[string]func() ([]byte, error) { return nil }

// ---------- checking ----------

type tcase struct {
	Layer   string     `json:"layer"`
	Format  string     `json:"format"`
	L       int        `json:"payload_len"`
	Pattern string     `json:"pattern"`
	K       int        `json:"k"`
	Mode    uint8      `json:"mode"`
	First   uint64     `json:"first"`
	Second  uint64     `json:"second"`
	Sweep   *sweepCase `json:"sweep,omitempty"`
	Size    *sizeCase  `json:"size,omitempty"`
}

var (
	fpMu  sync.Mutex
	fpSet = map[string]int{}
)

var (
	run      *ev.Run
	classMu  sync.Mutex
	classSet = map[string]struct{}{}
	errStop  = errors.New("verif: interceptor says stop")
)

func class(s string) {
	classMu.Lock()
	classSet[s] = struct{}{}
	classMu.Unlock()
}

func guard(f func()) (p any) {
	defer func() { p = recover() }()
	f()
	return nil
}

func readAll(rc io.ReadCloser, chunk int) ([]byte, error) {
	defer rc.Close()
	if chunk == 0 {
		return io.ReadAll(rc)
	}
	var out []byte
	b := make([]byte, chunk)
	for {
		n, err := rc.Read(b)
		out = append(out, b[:n]...)
		if err == io.EOF {
			return out, nil
		}
		if err != nil {
			return out, err
		}
		if n == 0 && len(out) > 1<<24 {
			return out, errors.New("verif: reader does not terminate")
		}
	}
}

type outcome struct {
	kind string // "oor" | "ok" | "err" | "panic"
	data []byte
	err  error
}

func (o outcome) String() string {
	switch o.kind {
	case "ok":
		return fmt.Sprintf("ok(%d bytes)", len(o.data))
	case "oor":
		return "out-of-range"
	}
	return fmt.Sprintf("%s(%v)", o.kind, o.err)
}

func classify(err error, data []byte, p any) outcome {
	switch {
	case p != nil:
		return outcome{kind: "panic", err: fmt.Errorf("%v", p)}
	case err == nil:
		return outcome{kind: "ok", data: data}
	case errors.Is(err, apistatus.ErrObjectOutOfRange):
		return outcome{kind: "oor", err: err}
	}
	return outcome{kind: "err", err: err}
}

type checker struct {
	l     layer
	t     *tobj
	k     int
	buf   []byte
	chunk int
}

// contentRules are failures of the returned bytes (fingerprinted by storage shape); all other rules are
// failures of the satisfiable/unsatisfiable decision (fingerprinted by range mode and reference class).
var contentRules = map[string]bool{"wrong-bytes": true, "truncated-result": true, "whole-object-bytes-differ": true, "whole-object-truncated": true, "whole-object-trailing-bytes": true,
	"unexpected-error": true, "panic": true, "wrong-header-returned": true, "wrong-payload-length-returned": true,
	"interceptor-got-wrong-header": true, "interceptor-call-count": true, "header-buffer-is-not-an-object-prefix-with-full-header": true}

func (c *checker) viol(api, rule string, r common.PayloadRange, e expect, detail string) {
	pc := posClass(e, uint64(c.t.L), c.t.pfx)
	base, _, _ := strings.Cut(api, "+")
	var fp string
	if contentRules[rule] {
		fp = fmt.Sprintf("%s:%s:%s", base, rule, c.t.shape())
	} else {
		fp = fmt.Sprintf("%s:%s:%s:%s", base, rule, modeNames[r.Mode], e.Class)
	}
	// the layer is deliberately not part of the fingerprint: the upper layers delegate to the same FSTree
	// code, one root cause must not fan out into one fingerprint per layer (the layer is named in "what")
	detail += " [slice position " + pc + "]"
	fpMu.Lock()
	fpSet[fp]++
	fpMu.Unlock()
	run.Violation(fp, fmt.Sprintf("%s.%s on %s object, payload %d bytes (%s), range %s(%d,%d): %s", c.l.Name(), api, c.t.Format, c.t.L, c.t.Pattern, modeNames[r.Mode], r.First, r.Second, detail),
		tcase{c.l.Name(), c.t.Format, c.t.L, c.t.Pattern, c.k, uint8(r.Mode), r.First, r.Second, c.t.sweep, c.t.size})
}

// judge compares one API outcome with the reference; returns the outcome kind for consistency checks.
func (c *checker) judge(api string, r common.PayloadRange, e expect, o outcome, want []byte) {
	class(api + ":" + o.kind + ":" + modeNames[r.Mode])
	switch {
	case o.kind == "panic":
		c.viol(api, "panic", r, e, o.err.Error())
	case e.Unspec:
		// consistency is checked by the caller
	case e.OOR:
		if o.kind != "oor" {
			c.viol(api, "unsatisfiable-range-not-reported-out-of-range", r, e, o.String())
		}
	case o.kind == "oor":
		c.viol(api, "satisfiable-range-reported-out-of-range", r, e, fmt.Sprintf("reference slice [%d,+%d)", e.Off, e.Ln))
	case o.kind == "err":
		c.viol(api, "unexpected-error", r, e, o.err.Error())
	case len(o.data) < len(want) && bytes.Equal(o.data, want[:len(o.data)]):
		c.viol(api, "truncated-result", r, e, fmt.Sprintf("got only the first %d bytes of the reference slice [%d,+%d)", len(o.data), e.Off, e.Ln))
	case !bytes.Equal(o.data, want):
		c.viol(api, "wrong-bytes", r, e, fmt.Sprintf("got %d bytes, reference slice [%d,+%d) (first difference at %d)", len(o.data), e.Off, e.Ln, firstDiff(o.data, want)))
	}
}

// poison fills a caller-provided buffer so that stale bytes are never zero by accident.
func poison(b []byte) {
	for i := range b {
		b[i] = 0xa5
	}
}

func firstDiff(a, b []byte) int {
	for i := 0; i < len(a) && i < len(b); i++ {
		if a[i] != b[i] {
			return i
		}
	}
	return min(len(a), len(b))
}

func (c *checker) one(r common.PayloadRange) {
	run.Eval(1)
	t := c.t
	L := uint64(t.L)
	e := refRange(L, r)
	var want []byte
	if !e.OOR && !e.Unspec {
		want = t.payload[e.Off : e.Off+e.Ln]
		if e.Ln > 0 && e.Ln < L {
			run.Nontrivial(fmt.Sprintf("%d|%d|%d|%d", t.L, r.Mode, r.First, r.Second))
		}
	}
	var outs []outcome
	var names []string
	note := func(api string, o outcome) {
		c.judge(api, r, e, o, want)
		outs = append(outs, o)
		names = append(names, api)
	}

	// GetRangeStream with and without header
	for _, withHdr := range []bool{false, true} {
		api := "GetRangeStream"
		if withHdr {
			api += "+header"
		}
		var hdr *object.Object
		var pl uint64
		var data []byte
		var err error
		p := guard(func() {
			var rc io.ReadCloser
			hdr, pl, rc, err = c.l.GRS(t.addr, r, withHdr)
			if err == nil {
				data, err = readAll(rc, c.chunk)
			}
		})
		o := classify(err, data, p)
		note(api, o)
		if o.kind == "ok" {
			if pl != L && pl != noPldLen {
				c.viol(api, "wrong-payload-length-returned", r, e, fmt.Sprintf("%d", pl))
			}
			if withHdr && (hdr == nil || !bytes.Equal(hdr.Marshal(), t.hdrObj)) {
				c.viol(api, "wrong-header-returned", r, e, "")
			}
			if !withHdr && hdr != nil {
				c.viol(api, "header-returned-when-not-requested", r, e, "")
			}
		}
	}
	// ReadObjectParts with and without interceptor
	partial := r.IsSet() && !r.IsFull()
	for _, withI := range []bool{false, true} {
		api := "ReadObjectParts"
		if withI {
			api += "+interceptor"
		}
		var n int
		var data []byte
		var err error
		calls := 0
		var seen []byte
		var f interceptFn
		if withI {
			f = func(h []byte) error { calls++; seen = bytes.Clone(h); return nil }
		}
		if t.swept() {
			poison(c.buf)
		}
		p := guard(func() {
			var rc io.ReadCloser
			n, rc, err = c.l.ROP(c.buf, t.addr, r, f)
			if err == nil {
				data, err = readAll(rc, c.chunk)
			}
		})
		o := classify(err, data, p)
		if o.kind == "ok" && !partial {
			// unset / full range: buffer + stream are the whole object
			whole := append(bytes.Clone(c.buf[:n]), data...)
			class(api + ":whole-object:" + modeNames[r.Mode])
			if e.OOR {
				// e.g. from-position 0 on an empty payload: treated as "full" here but unsatisfiable elsewhere
				c.viol(api, "unsatisfiable-range-not-reported-out-of-range", r, e, "returned the whole object")
			} else if len(whole) < len(t.enc) && bytes.Equal(whole, t.enc[:len(whole)]) {
				c.viol(api, "whole-object-truncated", r, e, fmt.Sprintf("%d+%d bytes, stored object has %d", n, len(data), len(t.enc)))
			} else if len(whole) > len(t.enc) && bytes.Equal(whole[:len(t.enc)], t.enc) {
				c.viol(api, "whole-object-trailing-bytes", r, e, fmt.Sprintf("%d+%d bytes, stored object has %d", n, len(data), len(t.enc)))
			} else if !bytes.Equal(whole, t.enc) {
				c.viol(api, "whole-object-bytes-differ", r, e, fmt.Sprintf("%d+%d bytes, stored %d (first difference at %d)", n, len(data), len(t.enc), firstDiff(whole, t.enc)))
			}
			outs = append(outs, outcome{kind: "ok", data: want})
			names = append(names, api)
		} else {
			note(api, o)
			if o.kind == "ok" && (n > len(t.enc) || !bytes.Equal(c.buf[:n], t.enc[:n]) || n < len(t.hdrObj)) {
				c.viol(api, "header-buffer-is-not-an-object-prefix-with-full-header", r, e, fmt.Sprintf("n=%d", n))
			}
		}
		if withI && o.kind == "ok" {
			if calls != 1 {
				c.viol(api, "interceptor-call-count", r, e, fmt.Sprintf("%d calls", calls))
			} else if !bytes.Equal(seen, t.hdrVal) {
				c.viol(api, "interceptor-got-wrong-header", r, e, "")
			}
		}
	}
	// ReadPayloadRange (offset-length only) with and without interceptor
	if r.Mode == common.PayloadRangeModeOffsetLength {
		for _, withI := range []bool{false, true} {
			api := "ReadPayloadRange"
			if withI {
				api += "+interceptor"
			}
			var data []byte
			var err error
			calls := 0
			var seen []byte
			var f interceptFn
			if withI {
				f = func(h []byte) error { calls++; seen = bytes.Clone(h); return nil }
			}
			if t.swept() {
				poison(c.buf)
			}
			p := guard(func() {
				var rc io.ReadCloser
				rc, err = c.l.RPR(t.addr, r.First, r.Second, c.buf, f)
				if err == nil {
					data, err = readAll(rc, c.chunk)
				}
			})
			if errors.Is(err, errNoInterceptor) {
				continue
			}
			o := classify(err, data, p)
			note(api, o)
			if withI && o.kind == "ok" {
				if calls != 1 {
					c.viol(api, "interceptor-call-count", r, e, fmt.Sprintf("%d calls", calls))
				} else if !bytes.Equal(seen, t.hdrVal) {
					c.viol(api, "interceptor-got-wrong-header", r, e, "")
				}
			}
		}
		for name, fn := range c.l.Extra(t.addr, r.First, r.Second) {
			var data []byte
			var err error
			p := guard(func() { data, err = fn() })
			note(name, classify(err, data, p))
		}
	}
	// all APIs of this layer agree with each other (this is the whole oracle for unspecified ranges)
	for i := 1; i < len(outs); i++ {
		a, b := outs[0], outs[i]
		if a.kind == "panic" || b.kind == "panic" {
			continue
		}
		if a.kind != b.kind || (a.kind == "ok" && !bytes.Equal(a.data, b.data)) {
			if e.Unspec {
				c.viol(names[i], "apis-disagree-on-unspecified-range", r, e, fmt.Sprintf("%s: %s, %s: %s", names[0], a, names[i], b))
			}
			// for specified ranges each deviation was already reported against the reference
		}
	}
	if e.Unspec && len(outs) > 0 {
		key := fmt.Sprintf("%s|%d|%d|%d", t.Format[:0], t.L, r.First, r.Second)
		recordUnspec(key, c.l.Name()+"/"+t.Format, outs[0], c, r, e)
	}
}

// answers to unspecified ranges must be the same in every layer and format
var (
	unspecMu sync.Mutex
	unspec   = map[string]struct {
		who string
		o   outcome
	}{}
)

func recordUnspec(key, who string, o outcome, c *checker, r common.PayloadRange, e expect) {
	unspecMu.Lock()
	prev, ok := unspec[key]
	if !ok {
		unspec[key] = struct {
			who string
			o   outcome
		}{who, o}
	}
	unspecMu.Unlock()
	if ok && (prev.o.kind != o.kind || !bytes.Equal(prev.o.data, o.data)) {
		c.viol("GetRangeStream", "layers-or-formats-disagree-on-unspecified-range", r, e, fmt.Sprintf("%s: %s, %s: %s", prev.who, prev.o, who, o))
	}
}

// interceptor errors abort the operation with that error
func (c *checker) interceptorAbort(r common.PayloadRange) {
	run.Eval(1)
	e := refRange(uint64(c.t.L), r)
	var err error
	p := guard(func() {
		var rc io.ReadCloser
		_, rc, err = c.l.ROP(c.buf, c.t.addr, r, func([]byte) error { return errStop })
		if err == nil {
			rc.Close()
		}
	})
	// the engine documents no more than failure of the operation
	lax := c.l.Name() == "engine"
	if p != nil {
		c.viol("ReadObjectParts+interceptor", "panic", r, e, fmt.Sprint(p))
	} else if lax && err == nil {
		c.viol("ReadObjectParts+interceptor", "interceptor-error-ignored", r, e, "operation succeeded")
	} else if !lax && !errors.Is(err, errStop) {
		c.viol("ReadObjectParts+interceptor", "interceptor-error-not-returned", r, e, fmt.Sprint(err))
	}
	if r.Mode == common.PayloadRangeModeOffsetLength {
		p = guard(func() {
			var rc io.ReadCloser
			rc, err = c.l.RPR(c.t.addr, r.First, r.Second, c.buf, func([]byte) error { return errStop })
			if err == nil {
				rc.Close()
			}
		})
		if p != nil {
			c.viol("ReadPayloadRange+interceptor", "panic", r, e, fmt.Sprint(p))
		} else if !errors.Is(err, errStop) && !errors.Is(err, errNoInterceptor) {
			c.viol("ReadPayloadRange+interceptor", "interceptor-error-not-returned", r, e, fmt.Sprint(err))
		}
	}
}

// resolvePart checks PayloadRange.Resolve itself (the arithmetic every layer relies on) for every payload
// length 0..maxL and every range of the small-payload enumeration, plus the large lengths.
func resolvePart(maxL uint64) (n int) {
	var cnt sync.Mutex
	enumx.Parallel(int(maxL)+1, func(i int) {
		L := uint64(i)
		k := 0
		for _, r := range ranges(L, false, L) {
			k++
			run.Eval(1)
			e := refRange(L, r)
			if e.Unspec {
				continue
			}
			off, ln, err := r.Resolve(L)
			oor := errors.Is(err, apistatus.ErrObjectOutOfRange)
			tc := tcase{"resolve", "", i, "", 0, uint8(r.Mode), r.First, r.Second, nil, nil}
			switch {
			case err != nil && !oor:
				run.Violation("resolve:unexpected-error:"+modeNames[r.Mode]+":"+e.Class, fmt.Sprintf("len %d %s(%d,%d): %v", L, modeNames[r.Mode], r.First, r.Second, err), tc)
			case oor != e.OOR:
				run.Violation("resolve:out-of-range-decision:"+modeNames[r.Mode]+":"+e.Class, fmt.Sprintf("len %d %s(%d,%d): out-of-range=%v, reference %v", L, modeNames[r.Mode], r.First, r.Second, oor, e.OOR), tc)
			case !oor && (ln != 0 || e.Ln != 0) && (off != e.Off || ln != e.Ln):
				run.Violation("resolve:wrong-slice:"+modeNames[r.Mode]+":"+e.Class, fmt.Sprintf("len %d %s(%d,%d): [%d,+%d), reference [%d,+%d)", L, modeNames[r.Mode], r.First, r.Second, off, ln, e.Off, e.Ln), tc)
			}
			if !e.OOR && e.Ln > 0 && e.Ln < L {
				run.Nontrivial(fmt.Sprintf("%d|%d|%d|%d", L, r.Mode, r.First, r.Second))
			}
			class("Resolve:" + map[bool]string{true: "oor", false: "ok"}[oor] + ":" + modeNames[r.Mode])
		}
		cnt.Lock()
		n += k
		cnt.Unlock()
	})
	return n
}

// ---------- enumeration of ranges ----------

var quickTier bool

func values(L uint64, large bool, pfx uint64) []uint64 {
	set := map[uint64]struct{}{}
	add := func(v uint64) { set[v] = struct{}{} }
	if !large {
		for v := uint64(0); v <= L+2; v++ {
			add(v)
		}
	} else {
		maxD := uint64(2)
		if quickTier {
			maxD = 1
			add(hbuf)
			add(2 * hbuf)
		}
		for _, c := range []uint64{0, pfx, hbuf, 2 * hbuf, L} {
			if quickTier && (c == hbuf || c == 2*hbuf) {
				continue
			}
			for d := uint64(0); d <= maxD; d++ {
				add(c + d)
				if c >= d {
					add(c - d)
				}
			}
		}
		add(L / 2)
	}
	add(math.MaxInt64)
	add(math.MaxInt64 + 1)
	add(math.MaxUint64)
	add(math.MaxUint64 - L + 1) // 2^64-L (wraps to 0 for L=0: already present)
	var r []uint64
	for v := range set {
		r = append(r, v)
	}
	sort.Slice(r, func(i, j int) bool { return r[i] < r[j] })
	return r
}

func ranges(L uint64, large bool, pfx uint64) []common.PayloadRange {
	vs := values(L, large, pfx)
	rs := []common.PayloadRange{{}}
	for _, a := range vs {
		rs = append(rs, common.NewPayloadRangeFrom(a), common.NewPayloadRangeSuffix(a))
	}
	for _, a := range vs {
		for _, b := range vs {
			rs = append(rs, common.NewPayloadRange(a, b), common.NewPayloadRangeBounds(a, b))
		}
	}
	return rs
}

// ---------- world ----------

type world struct {
	dir    string
	layers map[string]layer   // by name
	objs   map[string][]*tobj // layer name -> objects readable through it
	closer []func()
	byKey  map[string]*tobj
}

func must(err error, what string) {
	if err != nil {
		run.Fatal("%s: %v", what, err)
	}
}

func newTree(path string, opts ...fstree.Option) *fstree.FSTree {
	t := fstree.New(append([]fstree.Option{fstree.WithPath(path), fstree.WithDepth(1), fstree.WithNoSync(true)}, opts...)...)
	must(t.Open(false), "fstree open")
	must(t.Init(common.ID{}), "fstree init")
	return t
}

// putBatchOrdered stores objs with PutBatch and makes the member order of the combined file equal to the
// slice order (Go's random map iteration order is owned here: wrong order -> remove the links, retry).
func putBatchOrdered(t *fstree.FSTree, root string, objs []*tobj, datas [][]byte) {
	path := func(o *tobj) string {
		s := o.addr.Object().EncodeToString() + "." + o.addr.Container().EncodeToString()
		return filepath.Join(root, s[:1], s[1:]) // depth 1
	}
	for try := 0; ; try++ {
		if try > 5000 {
			run.Fatal("cannot obtain the requested member order from PutBatch")
		}
		m := map[oid.Address][]byte{}
		for i, o := range objs {
			m[o.addr] = datas[i]
		}
		must(t.PutBatch(m), "put batch")
		raw, err := os.ReadFile(path(objs[0]))
		must(err, "read combined file")
		ok := true
		off := 0
		for _, o := range objs {
			const pref = 2 + 32 + 4
			id := o.addr.Object()
			if len(raw) < off+pref || raw[off] != 0x7f || !bytes.Equal(raw[off+2:off+34], id[:]) {
				ok = false
				break
			}
			off += pref + int(binary.BigEndian.Uint32(raw[off+34:]))
		}
		if ok {
			return
		}
		for _, o := range objs {
			must(os.Remove(path(o)), "undo batch")
		}
	}
}

type spec struct {
	L       int
	Pattern string
	Large   bool
	AllFmt  bool // stored in every format (otherwise plain only)
}

func lengths(thorough bool) []spec {
	var s []spec
	if thorough {
		for l := 0; l <= 64; l++ {
			s = append(s, spec{l, "random", false, true})
		}
	} else {
		// quick: a subset of lengths through the storage stack (every range for each); every length 0..64 is
		// still covered for the range arithmetic itself by resolvePart
		for _, l := range []int{0, 1, 2, 3, 5, 8, 16} {
			s = append(s, spec{l, "random", false, true})
		}
		s = append(s, spec{33, "random", false, false}, spec{64, "random", false, false})
	}
	// overhead of the non-payload fields of our objects for a ~20 KiB payload
	probe := mkObject("probe", hbuf, "random", 0)
	over := len(probe.enc) - hbuf
	large := map[int]bool{}
	for _, c := range []int{hbuf, 2 * hbuf} {
		for d := -2; d <= 2; d++ {
			large[c+d] = true      // payload length around the boundary
			large[c-over+d] = true // file length around the boundary
		}
	}
	large[100000] = true
	var ls []int
	for l := range large {
		ls = append(ls, l)
	}
	sort.Ints(ls)
	for _, l := range ls {
		if !thorough && !(l == hbuf-over || l == 2*hbuf+1 || l == 100000) {
			continue
		}
		if thorough || l != 100000 {
			s = append(s, spec{l, "random", true, true})
		}
		if thorough || l == 100000 {
			s = append(s, spec{l, "periodic", true, true})
		}
	}
	return s
}

const (
	fPlain    = "plain"
	fPlainZ   = "plain-zstd"
	fSingle   = "combined-single"
	fSingleZ  = "combined-single-zstd"
	fBatch    = "combined-3"
	fBatchZ   = "combined-3-zstd"
	fBatchMix = "combined-3-mixed" // plain + zstd members in one file
)

func buildFSTree(w *world, specs []spec) {
	tp := newTree(w.dir+"/plain", fstree.WithCombinedCountLimit(1))
	tc := newTree(w.dir+"/combined", fstree.WithCombinedCountLimit(128), fstree.WithCombinedSizeThreshold(1<<20), fstree.WithCombinedSizeLimit(8<<20), fstree.WithCombinedWriteInterval(1))
	w.closer = append(w.closer, func() { tp.Close(); tc.Close() })
	var ops, ocs []*tobj
	for _, s := range specs {
		o := mkObject(fPlain, s.L, s.Pattern, 0)
		must(tp.Put(o.addr, o.enc), "put plain")
		ops = append(ops, o)
		if !s.AllFmt {
			continue
		}
		o = mkObject(fPlainZ, s.L, s.Pattern, 0)
		must(tp.Put(o.addr, o.data(true)), "put plain zstd")
		ops = append(ops, o)
		for _, f := range []string{fBatch, fBatchZ, fBatchMix} {
			var bo []*tobj
			var bd [][]byte
			for k := 0; k < 3; k++ {
				o = mkObject(f, s.L, s.Pattern, k)
				bo, bd = append(bo, o), append(bd, o.data(f == fBatchZ || (f == fBatchMix && k != 1)))
				ops = append(ops, o)
			}
			putBatchOrdered(tp, w.dir+"/plain", bo, bd)
		}
		o = mkObject(fSingle, s.L, s.Pattern, 0)
		must(tc.Put(o.addr, o.enc), "put combined single")
		ocs = append(ocs, o)
		o = mkObject(fSingleZ, s.L, s.Pattern, 0)
		must(tc.Put(o.addr, o.data(true)), "put combined single zstd")
		ocs = append(ocs, o)
	}
	w.layers["fstree"] = storLayer{"fstree", tp}
	w.objs["fstree"] = ops
	w.layers["fstree/combined-writer"] = storLayer{"fstree", tc}
	w.objs["fstree/combined-writer"] = ocs
}

var _ = context.Background

func main() {
	r := ev.Start("C11", ev.Exploration)
	run = r
	if pf := os.Getenv("VERIF_CPUPROFILE"); pf != "" {
		f, _ := os.Create(pf)
		pprof.StartCPUProfile(f)
	}
	var u util.Uint160
	hh := h32("owner")
	copy(u[:], hh[:20])
	ownerID = user.NewFromScriptHash(u)

	dir, err := os.MkdirTemp("/dev/shm", "verif-c11-")
	must(err, "tmp dir")
	w := &world{dir: dir, layers: map[string]layer{}, objs: map[string][]*tobj{}}
	cleanup := func() {
		for _, f := range w.closer {
			f()
		}
		os.RemoveAll(dir)
	}

	quickTier = r.Quick()
	specs := lengths(r.Thorough())
	if r.Replay != "" {
		var c tcase
		r.LoadReplay(&c)
		specs = []spec{{c.L, c.Pattern, c.L > 64, true}}
		if c.Size != nil {
			buildSizeSweep(w, []sizeCase{*c.Size})
			for _, o := range w.objs["fstree/size-sweep"] {
				if o.size.Layout == c.Size.Layout {
					ck := &checker{l: w.layers["fstree/size-sweep"], t: o, k: c.K, buf: make([]byte, 2*hbuf)}
					ck.one(common.PayloadRange{First: c.First, Second: c.Second, Mode: common.PayloadRangeMode(c.Mode)})
				}
			}
			cleanup()
			r.Finish()
		}
		if c.Sweep != nil {
			buildSweep(w, []sweepCase{*c.Sweep})
			for _, o := range w.objs["fstree/boundary-sweep"] {
				if o.L == c.L {
					ck := &checker{l: w.layers["fstree/boundary-sweep"], t: o, k: c.K, buf: make([]byte, 2*hbuf)}
					ck.one(common.PayloadRange{First: c.First, Second: c.Second, Mode: common.PayloadRangeMode(c.Mode)})
				}
			}
			cleanup()
			r.Finish()
		}
		buildFSTree(w, specs)
		buildUpper(w, specs)
		for ln, os := range w.objs {
			for _, o := range os {
				if w.layers[ln].Name() == c.Layer && o.Format == c.Format && o.addr == mkObject(c.Format, c.L, c.Pattern, c.K).addr {
					ck := &checker{l: w.layers[ln], t: o, k: c.K, buf: make([]byte, 2*hbuf)}
					ck.one(common.PayloadRange{First: c.First, Second: c.Second, Mode: common.PayloadRangeMode(c.Mode)})
				}
			}
		}
		cleanup()
		r.Finish()
	}

	buildFSTree(w, specs)
	buildUpper(w, specs)
	sweeps := sweepCases(r.Quick())
	buildSweep(w, sweeps)
	r.Set("boundary_sweep_files", len(sweeps))
	if os.Getenv("VERIF_C11_HDRSWEEP") != "" {
		// one-off experiment: payload field tag at every offset around the end of the buffered head
		base := mkObject("hdr-end-probe", 30000, "random", 0)
		tagAt := len(base.enc) - 30000 - 4 // tag + 3-byte length varint
		t := w.layers["fstree"].(storLayer).s.(*fstree.FSTree)
		var hs []*tobj
		for want := hbuf - 12; want <= hbuf+2; want++ {
			hdrPad = want - tagAt - 7
			for try := 0; try < 6; try++ {
				o := mkObject(fmt.Sprintf("hdr-end/%d", want), 30000, "random", 0)
				at := len(o.enc) - 30000 - 4
				if at == want {
					o.size = &sizeCase{Family: "oversized-header", Plain: len(o.enc), Layout: fmt.Sprintf("payload-tag@B%+d", want-hbuf)}
					must(t.Put(o.addr, o.enc), "put hdr-end")
					hs = append(hs, o)
					break
				}
				hdrPad += want - at
			}
		}
		hdrPad = 0
		w.layers["fstree/hdr-end"] = w.layers["fstree"]
		w.objs["fstree/hdr-end"] = hs
		r.Set("hdr_end_objects", len(hs))
	}
	r.Set("size_sweep", buildSizeSweep(w, sizeCases(r.Quick())))
	maxResolve := uint64(64)
	if r.Thorough() {
		maxResolve = 160
	}
	nResolve := resolvePart(maxResolve)
	r.Set("resolve_cases", nResolve)

	type job struct {
		ln string
		o  *tobj
		k  int
	}
	var jobs []job
	var lnames []string
	for ln := range w.objs {
		lnames = append(lnames, ln)
	}
	sort.Strings(lnames)
	for _, ln := range lnames {
		kc := map[string]int{}
		for _, o := range w.objs[ln] {
			key := fmt.Sprintf("%s|%d|%s", o.Format, o.L, o.Pattern)
			jobs = append(jobs, job{ln, o, kc[key]})
			kc[key]++
		}
	}
	// large objects first (longest jobs), deterministic order otherwise
	sort.SliceStable(jobs, func(i, j int) bool { return jobs[i].o.L > jobs[j].o.L })
	perLayer := map[string]int{}
	var plMu sync.Mutex
	incomplete := false
	enumx.Parallel(len(jobs), func(i int) {
		j := jobs[i]
		if r.Expired() {
			incomplete = true
			return
		}
		large := j.o.L > 64
		ck := &checker{l: w.layers[j.ln], t: j.o, k: j.k, buf: make([]byte, 2*hbuf)}
		rs := ranges(uint64(j.o.L), large, j.o.pfx)
		if j.o.swept() {
			rs, large = sweepRanges(uint64(j.o.L), j.o.pfx), false
		}
		for _, rg := range rs {
			ck.one(rg)
		}
		n := len(rs)
		if large {
			// second pass with small odd-sized reads (exercises the prefixed/limited readers)
			ck.chunk = 4099
			for _, rg := range rs {
				ck.one(rg)
			}
			n *= 2
		}
		ck.chunk = 0
		ck.interceptorAbort(common.PayloadRange{})
		ck.interceptorAbort(common.NewPayloadRange(0, 0))
		if j.o.L > 1 {
			ck.interceptorAbort(common.NewPayloadRange(1, 1))
			ck.interceptorAbort(common.NewPayloadRangeSuffix(1))
		}
		plMu.Lock()
		pf := j.o.Format
		if j.o.sweep != nil {
			pf = "boundary-sweep/" + j.o.sweep.Kind
		}
		if j.o.size != nil {
			pf = "size-sweep/" + j.o.size.Family + "/" + j.o.size.Layout
		}
		perLayer[w.layers[j.ln].Name()+"/"+pf] += n
		plMu.Unlock()
	})
	cleanup()
	pprof.StopCPUProfile()

	classMu.Lock()
	var cl []string
	for k := range classSet {
		cl = append(cl, k)
	}
	classMu.Unlock()
	sort.Strings(cl)
	r.Set("violation_classes", fpSet)
	r.Set("outcome_classes", len(cl))
	r.Set("outcome_class_list", cl)
	r.Set("ranges_per_layer_format", perLayer)
	var ls []int
	for _, s := range specs {
		if s.Large {
			ls = append(ls, s.L)
		}
	}
	r.Set("large_payload_lengths", ls)
	r.Set("objects", len(jobs))
	r.Sample(map[string]any{"payload_len": 10, "range": "bounds(2,20)", "reference": refRange(10, common.NewPayloadRangeBounds(2, 20))})
	r.Sample(map[string]any{"payload_len": 10, "range": "offset-length(8,3)", "reference": refRange(10, common.NewPayloadRange(8, 3))})
	r.Sample(map[string]any{"payload_len": 0, "range": "suffix(3)", "reference": refRange(0, common.NewPayloadRangeSuffix(3))})
	r.Rule("payload lengths 0..64: every range mode with every (first, second) in 0..len+2 plus {2^63-1, 2^63, 2^64-len, 2^64-1}; large payloads (payload or file length within +-2 of 20480/40960, and 100000; random and compressible contents): values within +-2 of {0, buffered prefix, 20480, 40960, len}, len/2 and the huge values, read twice (ReadAll and 4099-byte reads); every object in every file format and layer listed in ranges_per_layer_format; each evaluation = one (object, range) with all APIs. Non-trivial = satisfiable range whose slice is non-empty and shorter than the payload. Boundary sweep: combined files of 2-3 members whose leading member sizes are swept so that the next member prefix starts at every file offset in [E-80, E+2] for every buffer end E of the member-prefix scan (E = B, 2B with B = NonPayloadFieldsBufferLength; after a straddling prefix; after a seek), member lengths with non-zero low bytes, poisoned caller buffers; every member read with 15 boundary-directed ranges (whole object, full, first/last byte, halves, clamped, unsatisfiable) through all FSTree range APIs; the same prefix alignments (0..38 prefix bytes inside the read window, plus margins; thorough: the whole [E-80, E+2] window, also around 2B) with a swept member that is itself streamed (B+321 bytes; 2B+411 bytes) in last and middle position, after a straddling prefix (19 / 37 bytes buffered) and after a seek. Header-buffer size sweep: objects of every plain size in windows around B and 2B (quick +-20 / +-6, thorough +-64) with incompressible, compressible and mixed payloads, raw and zstd-compressed (plain and stored size independently below, at, above B), as single file / first member / last member of a combined file, each read with the same 15 ranges through all FSTree range APIs")
	r.Assume("offset-length ranges with zero length at a non-zero offset are not specified by the doc comments (the engine's GetRange comment and PayloadRange.Resolve contradict each other): only agreement between all APIs, layers and formats is demanded for them",
		"objects are valid (header payload length = actual payload length); stored compressed data is a single zstd frame as written by older node versions")
	r.Exhaustive(!incomplete)
	r.Finish()
}
