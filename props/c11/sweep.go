package main

// Scan-buffer boundary sweep (see props/c10/sweep.go for the rationale): combined files of 2-3 members whose
// leading member sizes are swept so that the next member's prefix starts at every file offset in
// [E-80, E+2] for every buffer end E of the prefix scan (E = B, 2B; after a straddling prefix; after a seek;
// B = NonPayloadFieldsBufferLength), member lengths with non-zero low bytes. Every member is read through
// GetRangeStream, ReadObjectParts (whole object and ranges) and ReadPayloadRange with a boundary-directed
// range set; caller buffers are poisoned before each call.

import (
	"fmt"
	"os"
	"path/filepath"
	"strings"

	"github.com/nspcc-dev/neofs-node/pkg/local_object_storage/blobstor/common"
	"github.com/nspcc-dev/neofs-node/pkg/local_object_storage/blobstor/fstree"
	oid "github.com/nspcc-dev/neofs-sdk-go/object/id"
)

const (
	memberPfx = 2 + oid.Size + 4
	sweepLo   = 80
	sweepHi   = 2
)

type sweepCase struct {
	Kind  string `json:"kind"`
	End   int    `json:"buffer_end"`
	P     int    `json:"prefix_at"`
	Sizes []int  `json:"member_sizes"`
	Only  int    `json:"only_member,omitempty"` // index+1 of the only member that is read (0: all)
}

// fpKind is Kind without the "(N buffered)" detail (one root cause, one fingerprint).
func (c sweepCase) fpKind() string {
	if i := strings.IndexByte(c.Kind, '('); i >= 0 {
		if j := strings.IndexByte(c.Kind, ')'); j > i {
			return c.Kind[:i] + c.Kind[j+1:]
		}
	}
	return c.Kind
}

// fpClass is class() with the two fully-buffered classes merged (fingerprints).
func (c sweepCase) fpClass() string {
	if k := c.class(); k != "prefix-ends-at-buffer-end" {
		return k
	}
	return "prefix-inside-buffer"
}

func (c sweepCase) class() string {
	d := c.P - c.End
	switch {
	case d+memberPfx < 0:
		return "prefix-inside-buffer"
	case d+memberPfx == 0:
		return "prefix-ends-at-buffer-end"
	case d < 0:
		return "prefix-straddles-buffer-end"
	case d == 0:
		return "prefix-starts-at-buffer-end"
	}
	return "prefix-beyond-buffer-end"
}

func sweepCases(quick bool) []sweepCase {
	const tail = 0x141 + 0x100 // 577: both low bytes of the length are non-zero
	const first = 0x19b        // 411
	var cs []sweepCase
	add := func(kind string, end, p int, sizes ...int) {
		for _, s := range sizes {
			if s < 260 || s&0xff == 0 {
				return
			}
		}
		cs = append(cs, sweepCase{Kind: kind, End: end, P: p, Sizes: sizes})
	}
	for _, end := range []int{hbuf, 2 * hbuf} {
		for p := end - sweepLo; p <= end+sweepHi; p++ {
			add("2-members", end, p, p-memberPfx, tail)
			add("3-members", end, p, first, p-2*memberPfx-first, tail)
		}
	}
	p2 := hbuf - 19
	for p := 2*hbuf - sweepLo; p <= 2*hbuf+sweepHi; p++ {
		add("3-members-after-straddling-prefix", 2*hbuf, p, p2-memberPfx, p-p2-memberPfx, tail)
	}
	p2 = hbuf + 5003
	for p := p2 + hbuf - sweepLo; p <= p2+hbuf+sweepHi; p++ {
		add("3-members-after-seek", p2+hbuf, p, p2-memberPfx, p-p2-memberPfx, tail)
	}
	return append(cs, streamedSweepCases(quick)...)
}

// streamedSweepCases: the swept member is itself streamed (longer than the read window B, or than the caller
// buffer 2B) and sits in last or middle position; its 38-byte prefix takes every alignment relative to the
// window end (0..38 prefix bytes inside the window, plus margins). Only the reads of the swept member are the
// point here (Only = its index+1); the leading members have the same sizes as in the small-tail sweep.
func streamedSweepCases(quick bool) []sweepCase {
	const small, first = 0x241, 0x19b
	lo := memberPfx + 2
	bigs := []int{hbuf + 0x141}
	ends := []int{hbuf}
	if !quick {
		lo = sweepLo
		bigs = append(bigs, 2*hbuf+0x19b)
		ends = append(ends, 2*hbuf)
	}
	var cs []sweepCase
	add := func(kind string, end, p, only int, sizes ...int) {
		for _, s := range sizes {
			if s < 260 || s&0xff == 0 {
				return
			}
		}
		cs = append(cs, sweepCase{Kind: kind, End: end, P: p, Sizes: sizes, Only: only})
	}
	for bi, big := range bigs {
		sfx := []string{"/streamed-member", "/member>2B"}[bi]
		for _, end := range ends {
			for p := end - lo; p <= end+sweepHi; p++ {
				add("2-members"+sfx, end, p, 2, p-memberPfx, big)
				if bi == 0 {
					add("3-members-middle"+sfx, end, p, 2, p-memberPfx, big, small)
					add("3-members"+sfx, end, p, 3, first, p-2*memberPfx-first, big)
				}
			}
		}
		if quick { // the caller-buffer sized member: first window only, 2 members
			continue
		}
	}
	if quick {
		big := 2*hbuf + 0x19b
		for p := hbuf - lo; p <= hbuf+sweepHi; p++ {
			add("2-members/member>2B", hbuf, p, 2, p-memberPfx, big)
		}
	}
	// after a prefix that straddles the first window end (the refill keeps its buffered part, so the buffer
	// holds more than B bytes): full window, the swept member's data may start beyond B inside the buffer
	big := hbuf + 0x141
	for _, rem := range []int{19, 37} {
		if quick && rem != 37 {
			continue
		}
		p2 := hbuf - rem
		for p := 2*hbuf - sweepLo; p <= 2*hbuf+sweepHi; p++ {
			add(fmt.Sprintf("3-members-after-straddling-prefix(%d buffered)/streamed-member", rem), 2*hbuf, p, 3, p2-memberPfx, p-p2-memberPfx, big)
		}
	}
	p2 := hbuf + 5003
	for p := p2 + hbuf - lo; p <= p2+hbuf+sweepHi; p++ {
		add("3-members-after-seek/streamed-member", p2+hbuf, p, 3, p2-memberPfx, p-p2-memberPfx, big)
	}
	return cs
}

// sizedObject builds an object whose encoding has exactly total bytes.
func sizedObject(format string, total, k int) *tobj {
	return sizedObjectPat(format, total, "random", k)
}

func sizedObjectPat(format string, total int, pattern string, k int) *tobj {
	L := total - 200
	if L < 0 {
		L = 0
	}
	for try := 0; try < 8; try++ {
		o := mkObject(format, L, pattern, k)
		if len(o.enc) == total {
			return o
		}
		L += total - len(o.enc)
		if L < 0 {
			break
		}
	}
	run.Fatal("cannot build an object of %d bytes", total)
	return nil
}

func buildSweep(w *world, cases []sweepCase) {
	root := w.dir + "/sweep"
	t := newTree(root, fstree.WithCombinedCountLimit(1))
	w.closer = append(w.closer, func() { t.Close() })
	var objs []*tobj
	for i := range cases {
		c := cases[i]
		format := fmt.Sprintf("sweep/%s/%d/%d", c.Kind, c.End, c.P)
		var bo []*tobj
		var bd [][]byte
		for k, sz := range c.Sizes {
			o := sizedObject(format, sz, k)
			o.sweep = &cases[i]
			bo, bd = append(bo, o), append(bd, o.enc)
		}
		putBatchOrderedAt(t, root, bo, bd)
		s := bo[0].addr.Object().EncodeToString() + "." + bo[0].addr.Container().EncodeToString()
		raw, err := os.ReadFile(filepath.Join(root, s[:1], s[1:]))
		if err != nil || len(raw) < c.P+memberPfx || raw[c.P] != 0x7f {
			run.Fatal("sweep case %+v: unexpected file layout (err=%v)", c, err)
		}
		if c.Only > 0 {
			objs = append(objs, bo[c.Only-1])
		} else {
			objs = append(objs, bo...)
		}
	}
	w.layers["fstree/boundary-sweep"] = storLayer{"fstree", t}
	w.objs["fstree/boundary-sweep"] = objs
}

func putBatchOrderedAt(t *fstree.FSTree, root string, objs []*tobj, datas [][]byte) {
	putBatchOrdered(t, root, objs, datas)
}

// sweepRanges: whole object, full ranges, first/last byte, both halves, clamped and unsatisfiable ranges.
func sweepRanges(L, pfx uint64) []common.PayloadRange {
	rs := sweepRangesBase(L)
	if pfx > 1 && pfx+1 < L { // ranges ending at, crossing and starting at the end of the head buffered with the header
		rs = append(rs, common.NewPayloadRange(pfx-1, 1), common.NewPayloadRange(pfx-1, 2), common.NewPayloadRange(pfx, 1),
			common.NewPayloadRange(pfx+1, L-pfx-1), common.NewPayloadRangeBounds(pfx/2, pfx+pfx/4), common.NewPayloadRangeFrom(pfx))
	}
	return rs
}

func sweepRangesBase(L uint64) []common.PayloadRange {
	return []common.PayloadRange{
		{}, common.NewPayloadRange(0, 0), common.NewPayloadRangeFrom(0), common.NewPayloadRangeFrom(1), common.NewPayloadRangeFrom(L - 1),
		common.NewPayloadRangeSuffix(1), common.NewPayloadRangeSuffix(L - 1), common.NewPayloadRange(0, 1), common.NewPayloadRange(1, L-1),
		common.NewPayloadRange(L-1, 1), common.NewPayloadRange(L/2, L-L/2), common.NewPayloadRangeBounds(0, L-1), common.NewPayloadRangeBounds(L/2, L+5),
		common.NewPayloadRange(L, 1), common.NewPayloadRangeBounds(L, L),
	}
}

// ---------- header-buffer size sweep (see props/c10/sizesweep.go) ----------

type sizeCase struct {
	Family string `json:"family"`
	Plain  int    `json:"plain_size"`
	Rand   int    `json:"random_payload_bytes,omitempty"`
	Layout string `json:"layout,omitempty"` // single-file | first-member | last-member (set per object)
}

func (c sizeCase) pattern() string {
	switch c.Family {
	case "incompressible-zstd", "raw":
		return "random"
	case "compressible-zstd":
		return "periodic"
	}
	return fmt.Sprintf("mixed:%d", c.Rand)
}

func relB(n int) string {
	switch {
	case n < hbuf:
		return "<B"
	case n == hbuf:
		return "=B"
	case n < 2*hbuf:
		return "B..2B"
	case n == 2*hbuf:
		return "=2B"
	}
	return ">2B"
}

func sizeCases(quick bool) []sizeCase {
	w, w2 := 20, 6 // window around B; around the caller buffer 2B
	if !quick {
		w, w2 = 64, 64
	}
	var cs []sizeCase
	for _, b := range []int{hbuf, 2 * hbuf} {
		ww := w
		if b != hbuf {
			ww = w2
		}
		// incompressible data grows by the frame overhead: start lower so that the stored size sweeps the window too
		for s := b - ww - 24; s <= b+ww; s++ {
			cs = append(cs, sizeCase{Family: "incompressible-zstd", Plain: s})
		}
		for s := b - ww; s <= b+ww; s++ {
			cs = append(cs, sizeCase{Family: "raw", Plain: s}, sizeCase{Family: "compressible-zstd", Plain: s})
		}
	}
	plain := 3*hbuf + 77
	stored := func(r int) int {
		return len(compress(sizedObjectPat("size-probe", plain, fmt.Sprintf("mixed:%d", r), 0).enc))
	}
	lo, hi := 0, hbuf+64
	for lo < hi {
		m := (lo + hi) / 2
		if stored(m) >= hbuf {
			hi = m
		} else {
			lo = m + 1
		}
	}
	for r := lo - w - 8; r <= lo+w+8; r++ {
		cs = append(cs, sizeCase{Family: "mixed-zstd", Plain: plain, Rand: r})
	}
	return cs
}

// buildSizeSweep stores, for every case, the object as a single file, as first and as last member of a
// 2-member combined file; returns the observed (plain, stored) position classes.
func buildSizeSweep(w *world, cases []sizeCase) map[string]int {
	root := w.dir + "/sizesweep"
	t := newTree(root, fstree.WithCombinedCountLimit(1))
	w.closer = append(w.closer, func() { t.Close() })
	classes := map[string]int{}
	var objs []*tobj
	for _, c := range cases {
		format := fmt.Sprintf("size/%s/%d/%d", c.Family, c.Plain, c.Rand)
		z := c.Family != "raw"
		mk := func(layout string, k int) (*tobj, []byte) {
			o := sizedObjectPat(format, c.Plain, c.pattern(), k)
			cc := c
			cc.Layout = layout
			o.size = &cc
			return o, o.data(z)
		}
		small := func(k int) (*tobj, []byte) {
			o := sizedObjectPat(format, 0x141+k, "random", k)
			return o, o.enc
		}
		o0, d0 := mk("single-file", 0)
		must(t.Put(o0.addr, d0), "put size-sweep object")
		o1, d1 := mk("first-member", 1)
		s1, sd1 := small(2)
		putBatchOrdered(t, root, []*tobj{o1, s1}, [][]byte{d1, sd1})
		o2, d2 := mk("last-member", 3)
		s2, sd2 := small(4)
		putBatchOrdered(t, root, []*tobj{s2, o2}, [][]byte{sd2, d2})
		objs = append(objs, o0, o1, o2)
		classes[fmt.Sprintf("%s:plain%s,stored%s", c.Family, relB(c.Plain), relB(len(d0)))]++
	}
	if len(cases) > 1 {
		for _, need := range []string{"incompressible-zstd:plain<B,stored=B", "incompressible-zstd:plain<B,storedB..2B", "compressible-zstd:plainB..2B,stored<B",
			"mixed-zstd:plain>2B,stored<B", "mixed-zstd:plain>2B,stored=B", "mixed-zstd:plain>2B,storedB..2B", "raw:plain=B,stored=B"} {
			if classes[need] == 0 {
				run.Fatal("size sweep does not reach class %s (zstd frame overhead changed?): %v", need, classes)
			}
		}
	}
	w.layers["fstree/size-sweep"] = storLayer{"fstree", t}
	w.objs["fstree/size-sweep"] = objs
	return classes
}
