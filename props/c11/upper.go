package main

import (
	"context"
	"errors"
	"fmt"
	"io"
	"math"
	"time"

	"github.com/nspcc-dev/neofs-node/pkg/local_object_storage/blobstor/common"
	"github.com/nspcc-dev/neofs-node/pkg/local_object_storage/blobstor/fstree"
	"github.com/nspcc-dev/neofs-node/pkg/local_object_storage/engine"
	meta "github.com/nspcc-dev/neofs-node/pkg/local_object_storage/metabase"
	"github.com/nspcc-dev/neofs-node/pkg/local_object_storage/shard"
	"github.com/nspcc-dev/neofs-node/pkg/local_object_storage/writecache"
	cid "github.com/nspcc-dev/neofs-sdk-go/container/id"
	"github.com/nspcc-dev/neofs-sdk-go/object"
	oid "github.com/nspcc-dev/neofs-sdk-go/object/id"
)

// noPldLen is returned by layers whose range API does not report the payload length.
const noPldLen = math.MaxUint64 - 12345

type epochState struct{}

func (epochState) CurrentEpoch() uint64 { return 1 }

type payments struct{}

func (payments) PaymentsDisabled() bool            { return true }
func (payments) UnpaidSince(cid.ID) (int64, error) { return -1, nil }

// failStorage never accepts flushed objects, so write-cache contents stay where they are.
type failStorage struct{ common.Storage }

var errNoFlush = errors.New("verif: flushing disabled")

func (failStorage) Put(oid.Address, []byte) error         { return errNoFlush }
func (failStorage) PutBatch(map[oid.Address][]byte) error { return errNoFlush }
func (failStorage) Type() string                          { return "fail" }
func (failStorage) Path() string                          { return "" }

// ---- shard layer ----

type shardLayer struct {
	name     string
	s        *shard.Shard
	skipMeta bool
}

func (l shardLayer) Name() string { return l.name }
func (l shardLayer) GRS(a oid.Address, r common.PayloadRange, h bool) (*object.Object, uint64, io.ReadCloser, error) {
	return l.s.GetRangeStream(a.Container(), a.Object(), r, h)
}
func (l shardLayer) RPR(a oid.Address, off, ln uint64, buf []byte, f interceptFn) (io.ReadCloser, error) {
	return l.s.ReadRange(a.Container(), a.Object(), off, ln, buf, f)
}
func (l shardLayer) ROP(buf []byte, a oid.Address, r common.PayloadRange, f interceptFn) (int, io.ReadCloser, error) {
	return l.s.ReadObject(a, l.skipMeta, r, buf, f)
}
func (l shardLayer) Extra(a oid.Address, off, ln uint64) map[string]func() ([]byte, error) {
	return map[string]func() ([]byte, error){
		"ReadPayloadRange(shard)": func() ([]byte, error) {
			rc, err := l.s.ReadPayloadRange(a, off, ln, l.skipMeta, make([]byte, 2*hbuf))
			if err != nil {
				return nil, err
			}
			return readAll(rc, 0)
		},
		"GetRangeStreamWithMetadataLookup": func() ([]byte, error) {
			_, rc, err := l.s.GetRangeStreamWithMetadataLookup(a, common.NewPayloadRange(off, ln), false, l.skipMeta)
			if err != nil {
				return nil, err
			}
			return readAll(rc, 0)
		},
	}
}

// ---- engine layer ----

type engineLayer struct{ e *engine.StorageEngine }

func (l engineLayer) Name() string { return "engine" }
func (l engineLayer) GRS(a oid.Address, r common.PayloadRange, h bool) (*object.Object, uint64, io.ReadCloser, error) {
	hdr, rc, err := l.e.GetRangeStream(context.Background(), a, r, h)
	return hdr, noPldLen, rc, err
}
func (l engineLayer) RPR(a oid.Address, off, ln uint64, buf []byte, f interceptFn) (io.ReadCloser, error) {
	if f != nil {
		return nil, errNoInterceptor
	}
	return l.e.ReadPayloadRange(context.Background(), a, off, ln, buf)
}
func (l engineLayer) ROP(buf []byte, a oid.Address, r common.PayloadRange, f interceptFn) (int, io.ReadCloser, error) {
	return l.e.ReadObject(context.Background(), a, r, buf, f)
}
func (l engineLayer) Extra(a oid.Address, off, ln uint64) map[string]func() ([]byte, error) {
	return map[string]func() ([]byte, error){
		"GetRange": func() ([]byte, error) { return l.e.GetRange(context.Background(), a, off, ln) },
	}
}

var errNoInterceptor = errors.New("verif: this layer's API has no interceptor parameter")

// ---- construction ----

func upperSpecs(specs []spec) []spec {
	// the upper layers delegate to the FSTree code: a smaller set of lengths, every range for each
	keep := map[int]bool{0: true, 1: true, 5: true, 16: true}
	var out []spec
	nLarge := 0
	for _, s := range specs {
		if !s.Large && (keep[s.L] || !quickTier && s.L%8 == 0) {
			out = append(out, s)
		}
		if s.Large && (s.L == 100000 || !quickTier && nLarge < 4) {
			out = append(out, s)
			nLarge++
		}
	}
	return out
}

func fixedID(n byte) common.ID {
	b := make([]byte, common.IDSize)
	for i := range b {
		b[i] = n
	}
	id, err := common.NewIDFromBytes(b)
	must(err, "shard id")
	return id
}

// pinShardID creates the FSTree descriptor with a fixed shard ID (shards take their ID from it).
func pinShardID(path string, n byte, opts ...fstree.Option) {
	t := fstree.New(append([]fstree.Option{fstree.WithPath(path), fstree.WithDepth(1), fstree.WithNoSync(true)}, opts...)...)
	must(t.Open(false), "fstree open")
	must(t.Init(fixedID(n)), "fstree init")
	must(t.Close(), "fstree close")
}

func metaOpts(path string) shard.Option {
	return shard.WithMetaBaseOptions(meta.WithPath(path), meta.WithPermissions(0o700), meta.WithEpochState(epochState{}), meta.WithMaxBatchDelay(time.Microsecond))
}

func buildUpper(w *world, specs []spec) {
	us := upperSpecs(specs)

	// --- write-cache alone: objects put through the cache, flushing impossible, then reopened read-only
	// (no background flush loop in read-only mode), so every object is served by the cache itself
	{
		path := w.dir + "/wc"
		mk := func() writecache.Cache {
			return writecache.New(writecache.WithPath(path), writecache.WithNoSync(true), writecache.WithStorage(failStorage{}))
		}
		c := mk()
		must(c.Open(false), "write-cache open")
		must(c.Init(fixedID(1)), "write-cache init")
		var objs []*tobj
		for _, s := range us {
			o := mkObject("wc-"+fPlain, s.L, s.Pattern, 0)
			must(c.Put(o.addr, nil, o.enc), "write-cache put")
			objs = append(objs, o)
			o = mkObject("wc-"+fPlainZ, s.L, s.Pattern, 0)
			must(c.Put(o.addr, nil, o.data(true)), "write-cache put zstd")
			objs = append(objs, o)
		}
		must(c.Close(), "write-cache close")
		c = mk()
		must(c.Open(true), "write-cache reopen read-only")
		must(c.Init(fixedID(1)), "write-cache init read-only")
		w.closer = append(w.closer, func() { c.Close() })
		w.layers["write-cache"] = storLayer{"write-cache", c}
		w.objs["write-cache"] = objs
	}

	// --- shard without write-cache over a pre-populated FSTree (all file formats), metabase bypassed;
	// plus objects stored through Shard.Put and read with the metabase lookup
	{
		blob := w.dir + "/shardA/blob"
		pinShardID(blob, 2)
		t := newTree(blob, fstree.WithCombinedCountLimit(1))
		var pre []*tobj
		for _, s := range us {
			o := mkObject("sh-"+fPlain, s.L, s.Pattern, 0)
			must(t.Put(o.addr, o.enc), "put")
			pre = append(pre, o)
			for _, f := range []string{fBatch, fBatchMix} {
				var bo []*tobj
				var bd [][]byte
				for k := 0; k < 3; k++ {
					o = mkObject("sh-"+f, s.L, s.Pattern, k)
					bo, bd = append(bo, o), append(bd, o.data(f == fBatchMix && k != 1))
					pre = append(pre, o)
				}
				putBatchOrdered(t, blob, bo, bd)
			}
		}
		must(t.Close(), "close")
		sh := shard.New(
			shard.WithBlobstor(fstree.New(fstree.WithPath(blob), fstree.WithDepth(1), fstree.WithNoSync(true), fstree.WithCombinedCountLimit(1))),
			metaOpts(w.dir+"/shardA/meta"), shard.WithContainerPayments(payments{}))
		must(sh.Open(), "shard open")
		must(sh.Init(), "shard init")
		w.closer = append(w.closer, func() { sh.Close() })
		w.layers["shard/skip-meta"] = shardLayer{"shard", sh, true}
		w.objs["shard/skip-meta"] = pre
		var put []*tobj
		for _, s := range us {
			o := mkObject("sh-put", s.L, s.Pattern, 0)
			var obj object.Object
			must(obj.Unmarshal(o.enc), "unmarshal")
			must(sh.Put(&obj, o.enc), "shard put")
			put = append(put, o)
		}
		w.layers["shard/meta"] = shardLayer{"shard", sh, false}
		w.objs["shard/meta"] = put
	}

	// --- shard with write-cache: objects stored through Shard.Put (they sit in the cache, or in the blob
	// storage after a background flush: the answers must not depend on that)
	{
		pinShardID(w.dir+"/shardB/blob", 3)
		sh := shard.New(
			shard.WithBlobstor(fstree.New(fstree.WithPath(w.dir+"/shardB/blob"), fstree.WithDepth(1), fstree.WithNoSync(true))),
			metaOpts(w.dir+"/shardB/meta"), shard.WithContainerPayments(payments{}),
			shard.WithWriteCache(true), shard.WithWriteCacheOptions(writecache.WithPath(w.dir+"/shardB/wc"), writecache.WithNoSync(true)))
		must(sh.Open(), "shard open")
		must(sh.Init(), "shard init")
		w.closer = append(w.closer, func() { sh.Close() })
		var put []*tobj
		for _, s := range us {
			o := mkObject("shwc-put", s.L, s.Pattern, 0)
			var obj object.Object
			must(obj.Unmarshal(o.enc), "unmarshal")
			must(sh.Put(&obj, o.enc), "shard put")
			put = append(put, o)
		}
		w.layers["shard+write-cache"] = shardLayer{"shard+write-cache", sh, false}
		w.objs["shard+write-cache"] = put
	}

	// --- engine with two shards (one with a write-cache), objects stored through StorageEngine.Put
	{
		e := engine.New()
		for i := 0; i < 2; i++ {
			pinShardID(fmt.Sprintf("%s/eng/blob%d", w.dir, i), byte(4+i))
			opts := []shard.Option{
				shard.WithBlobstor(fstree.New(fstree.WithPath(fmt.Sprintf("%s/eng/blob%d", w.dir, i)), fstree.WithDepth(1), fstree.WithNoSync(true))),
				metaOpts(fmt.Sprintf("%s/eng/meta%d", w.dir, i)), shard.WithContainerPayments(payments{}),
			}
			if i == 1 {
				opts = append(opts, shard.WithWriteCache(true), shard.WithWriteCacheOptions(writecache.WithPath(w.dir+"/eng/wc1"), writecache.WithNoSync(true)))
			}
			_, err := e.AddShard(opts...)
			must(err, "add shard")
		}
		must(e.Init(), "engine init")
		w.closer = append(w.closer, func() { e.Close() })
		var put []*tobj
		for _, s := range us {
			for k := 0; k < 2; k++ {
				o := mkObject("eng-put", s.L, s.Pattern, k)
				var obj object.Object
				must(obj.Unmarshal(o.enc), "unmarshal")
				must(e.Put(context.Background(), &obj, o.enc), "engine put")
				put = append(put, o)
			}
		}
		w.layers["engine"] = engineLayer{e}
		w.objs["engine"] = put
	}
}
