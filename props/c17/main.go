// C17: the write-cache eventually flushes everything and accounts its size exactly.
// The real write-cache (flush scheduler + workers over shim channels/tickers/locks) runs under the
// controlled scheduler with a fault-injecting main storage. Every schedule within the preemption
// bound x every set of <= FaultBound failing main-storage writes is executed to quiescence (all
// threads blocked, ticker exhausted = fair suffix); oracle at quiescence: cache directory empty, every
// acknowledged object in main storage with identical bytes, reported size == bytes actually held,
// no address left marked "being flushed".
package main

import (
	"bytes"
	"errors"
	"fmt"
	"os"
	"path/filepath"
	"sort"
	"strings"

	"github.com/nspcc-dev/neofs-node/pkg/local_object_storage/blobstor/common"
	"github.com/nspcc-dev/neofs-node/pkg/local_object_storage/blobstor/fstree"
	"github.com/nspcc-dev/neofs-node/pkg/local_object_storage/writecache"
	"github.com/nspcc-dev/neofs-node/verif/lib/ev"
	"github.com/nspcc-dev/neofs-node/verif/lib/sched"
	cid "github.com/nspcc-dev/neofs-sdk-go/container/id"
	oid "github.com/nspcc-dev/neofs-sdk-go/object/id"
)

func addr(i int) oid.Address {
	var c cid.ID
	c[0] = 1
	var o oid.ID
	o[0] = byte(0x10 + i)
	o[31] = byte(i + 1)
	return oid.NewAddress(c, o)
}

func data(i, n int) []byte {
	b := bytes.Repeat([]byte{byte('a' + i)}, n)
	b[0] = 0x0a
	return b
}

// mainStor is the main storage seen by the write-cache: a real FSTree whose writes are
// scheduling points and may fail (explored environment choice).
type mainStor struct {
	*fstree.FSTree
	s        *sched.S
	faultsOn *bool
	faults   *int
}

var errInjected = errors.New("injected main storage failure")

func (m mainStor) fail(what string) bool {
	m.s.Point("main." + what)
	if *m.faultsOn && m.s.Choose(2, sched.Fault, "fail main."+what) == 1 {
		*m.faults++
		return true
	}
	return false
}
func (m mainStor) Put(a oid.Address, d []byte) error {
	if m.fail("Put") {
		return errInjected
	}
	return m.FSTree.Put(a, d)
}
func (m mainStor) PutBatch(o map[oid.Address][]byte) error {
	if m.fail("PutBatch") {
		return errInjected
	}
	return m.FSTree.PutBatch(o)
}

type step struct {
	Op  string // put | delete
	Obj int
}

type cfg struct {
	name     string
	sizes    []int
	threads  [][]step
	workers  int
	ticks    int
	batchCnt int
	pre, flt int
	reput    bool
	tag      string // history class used in accounting fingerprints
	raceDel  bool   // the delete may run before the put of the same object has returned
}

const threshold = 40

type result struct {
	Acked, Deleted map[int]bool
	CacheFiles     []string
	CacheBytes     uint64
	Reported       uint64
	MapLen         int
	SumEntries     uint64
	FlushObjs      []string
	MissingInMain  []int
	WrongInMain    []int
	Faults         int
	PutErrs        []string
	Finished       bool
	Phase2         bool
	Reported2      []string
}

func scenario(c cfg) sched.Scenario {
	body := func(s *sched.S) any {
		root, err := os.MkdirTemp("/dev/shm", "verif-c17-")
		if err != nil {
			panic(err)
		}
		defer os.RemoveAll(root)
		res := &result{Acked: map[int]bool{}, Deleted: map[int]bool{}}
		s.Result = res
		faultsOn := true
		mfs := fstree.New(fstree.WithPath(filepath.Join(root, "main")), fstree.WithDepth(1), fstree.WithPerm(0o700),
			fstree.WithCombinedCountLimit(1), fstree.WithNoSync(true))
		if err := mfs.Open(false); err != nil {
			panic(err)
		}
		if err := mfs.Init(common.ID{}); err != nil {
			panic(err)
		}
		ms := mainStor{mfs, s, &faultsOn, &res.Faults}
		wcDir := filepath.Join(root, "wc")
		// every file operation of the write-cache's own FSTree is a scheduling point: the windows between
		// the file step and the accounting step of put/delete are the ones that matter here
		fstree.VerifHook = func(t *fstree.FSTree, name string, args []any) ([]any, bool) {
			if t != mfs && strings.HasPrefix(t.RootPath, wcDir) {
				if a := sched.Active(); a != nil {
					a.Point("wc." + name)
				}
			}
			return nil, false
		}
		defer func() { fstree.VerifHook = nil }()
		wc := writecache.New(writecache.WithPath(wcDir), writecache.WithStorage(ms), writecache.WithFlushWorkersCount(c.workers),
			writecache.WithMaxFlushBatchCount(c.batchCnt), writecache.WithMaxFlushBatchThreshold(threshold),
			writecache.WithNoSync(true), writecache.WithReportErrorFunc(func(m string, err error) {
				res.Reported2 = append(res.Reported2, m+": "+err.Error())
			}))
		if err := wc.Open(false); err != nil {
			panic(err)
		}
		id, _ := common.NewID()
		if err := wc.Init(id); err != nil {
			panic(err)
		}
		for ti, steps := range c.threads {
			steps := steps
			s.Go(fmt.Sprintf("client%d", ti), false, func() {
				for _, st := range steps {
					switch st.Op {
					case "put":
						if err := wc.Put(addr(st.Obj), nil, data(st.Obj, c.sizes[st.Obj])); err != nil {
							res.PutErrs = append(res.PutErrs, err.Error())
						} else {
							res.Acked[st.Obj] = true
						}
					case "delete":
						if !c.raceDel {
							// a client deletes only what it knows to be stored: wait for the put to be acknowledged
							obj := st.Obj
							s.Block("wait for put ack", func() bool { return res.Acked[obj] })
						}
						if err := wc.Delete(addr(st.Obj)); err == nil {
							res.Deleted[st.Obj] = true
						}
					}
				}
			})
		}
		s.AwaitQuiescence()
		faultsOn = false
		if c.reput {
			// second phase of the history: the same objects are stored again (repeated puts of the
			// same object are part of the quantifier); the main storage accepts writes from now on.
			drained := true
			filepath.Walk(wcDir, func(p string, info os.FileInfo, err error) error {
				if err == nil && !info.IsDir() && !strings.HasPrefix(info.Name(), ".") {
					drained = false
				}
				return nil
			})
			if drained {
				res.Phase2 = true
				for i := range c.sizes {
					if res.Acked[i] && !res.Deleted[i] {
						mfs.Delete(addr(i)) // so that a successful second flush is observable
						if err := wc.Put(addr(i), nil, data(i, c.sizes[i])); err != nil {
							res.PutErrs = append(res.PutErrs, err.Error())
						}
					}
				}
				s.TimerFires += 4
				s.AwaitQuiescence()
			}
		}
		// observe
		filepath.Walk(wcDir, func(p string, info os.FileInfo, err error) error {
			if err == nil && !info.IsDir() && !strings.HasPrefix(info.Name(), ".") {
				rel, _ := filepath.Rel(wcDir, p)
				res.CacheFiles = append(res.CacheFiles, rel)
				res.CacheBytes += uint64(info.Size())
			}
			return nil
		})
		res.Reported = writecache.VerifCountersSize(wc)
		for _, v := range writecache.VerifCountersMap(wc) {
			res.SumEntries += v
			res.MapLen++
		}
		res.FlushObjs = writecache.VerifFlushObjs(wc)
		for i := range c.sizes {
			if !res.Acked[i] || res.Deleted[i] {
				continue
			}
			b, err := mfs.GetBytes(addr(i))
			if err != nil {
				if cb, cerr := wc.GetBytes(addr(i)); cerr == nil && bytes.Equal(cb, data(i, c.sizes[i])) {
					res.MissingInMain = append(res.MissingInMain, i) // still only in the cache
				} else {
					res.WrongInMain = append(res.WrongInMain, i) // nowhere: lost
				}
			} else if !bytes.Equal(b, data(i, c.sizes[i])) {
				res.WrongInMain = append(res.WrongInMain, i)
			}
		}
		res.Finished = true
		return res
	}
	check := func(x *sched.Exec) (string, string) {
		if len(x.Panics) > 0 {
			return "panic", x.Panics[0]
		}
		res, _ := x.Result.(*result)
		if x.Horizon || res == nil {
			return "", ""
		}
		if x.Deadlock || !res.Finished {
			return "deadlock-before-quiescence", strings.Join(x.Blocked, ";")
		}
		if len(res.PutErrs) > 0 {
			return "put-error", strings.Join(res.PutErrs, ";")
		}
		if len(res.WrongInMain) > 0 {
			return "acknowledged-object-lost-or-corrupt", fmt.Sprintf("%+v", res)
		}
		if res.Reported != res.SumEntries {
			return "accounting:size-counter-differs-from-sum-of-entries", fmt.Sprintf("cache reports %d bytes used, its per-object entries sum to %d (%+v)", res.Reported, res.SumEntries, res)
		}
		if res.MapLen > len(res.CacheFiles) {
			cls := "accounting:entry-for-object-not-held"
			if c.tag != "" {
				cls += ":" + c.tag
			}
			return cls, fmt.Sprintf("cache reports %d bytes used in %d entries, holds %d bytes in %d files (%+v)", res.Reported, res.MapLen, res.CacheBytes, len(res.CacheFiles), res)
		}
		if res.MapLen < len(res.CacheFiles) {
			cls := "accounting:held-object-without-entry"
			if c.tag != "" {
				cls += ":" + c.tag
			}
			// how many preemptions the schedule needs tells the mechanisms apart (the recorded finding
			// needs two: worker file removal | whole repeated put | worker entry removal)
			pre, _, _ := sched.Costs(x)
			cls += fmt.Sprintf(":preemptions=%d", pre)
			return cls, fmt.Sprintf("cache holds %d files, accounts for %d (%+v)", len(res.CacheFiles), res.MapLen, res)
		}
		if res.Reported != res.CacheBytes {
			return "accounting:reported-size-differs-from-bytes-held", fmt.Sprintf("cache reports %d bytes used, holds %d bytes in %d files (%+v)", res.Reported, res.CacheBytes, len(res.CacheFiles), res)
		}
		if c.ticks > 0 {
			if len(res.FlushObjs) > 0 && len(res.MissingInMain) > 0 {
				return "liveness:object-left-marked-as-being-flushed:" + fclass(res.Faults) + phase(res.Phase2), fmt.Sprintf("objects %v never flushed; flushObjs=%v faults=%d", res.MissingInMain, res.FlushObjs, res.Faults)
			}
			if len(res.MissingInMain) > 0 || len(res.CacheFiles) > 0 {
				return "liveness:not-flushed-at-quiescence:" + fclass(res.Faults) + phase(res.Phase2), fmt.Sprintf("objects %v still only in cache; files=%v faults=%d", res.MissingInMain, res.CacheFiles, res.Faults)
			}
		}
		return "", ""
	}
	outcome := func(x *sched.Exec) string {
		res, _ := x.Result.(*result)
		if res == nil || !res.Finished {
			return "aborted"
		}
		var del []int
		for k := range res.Deleted {
			del = append(del, k)
		}
		sort.Ints(del)
		return fmt.Sprintf("faults=%d cacheFiles=%d deleted=%v phase2=%v", res.Faults, len(res.CacheFiles), del, res.Phase2)
	}
	return sched.Scenario{Name: c.name, Opt: sched.Options{PreemptBound: c.pre, FaultBound: c.flt, MaxSteps: 6000,
		Setup: func(s *sched.S) { s.TimerFires = c.ticks }}, Body: body, Check: check, Outcome: outcome}
}

func phase(p2 bool) string {
	if p2 {
		return ":second-put-of-flushed-object"
	}
	return ""
}

func fclass(n int) string {
	if n == 0 {
		return "no-fault"
	}
	return "after-main-storage-fault"
}

func main() {
	r := ev.Start("C17", ev.ModelChecking)
	put := func(i int) step { return step{"put", i} }
	del := func(i int) step { return step{"delete", i} }
	S, B := 10, 60 // small (< threshold), big (> threshold)
	q := true
	b := func(quick, thorough int) int {
		if q {
			return quick
		}
		return thorough
	}
	mk := func() []cfg {
		cfgs := []cfg{
			{"accounting: same object put twice, no flush tick", []int{S}, [][]step{{put(0), put(0)}}, 1, 0, 2, b(1, 2), 0, false, "", false},
			{"accounting: two clients put the same object + another, no flush tick", []int{S, B}, [][]step{{put(0), put(1)}, {put(0)}}, 1, 0, 2, b(1, 2), 0, false, "", false},
			{"accounting: put, delete, put again, no flush tick", []int{S}, [][]step{{put(0), del(0), put(0)}}, 1, 0, 2, b(1, 2), 0, false, "", false},
			{"flush: one small + one big, 1 worker", []int{S, B}, [][]step{{put(0), put(1)}}, 1, 6, 2, b(1, 2), b(1, 2), true, "", false},
			{"flush: same object put twice then flushed", []int{S}, [][]step{{put(0), put(0)}}, 1, 6, 2, b(1, 2), b(1, 2), false, "repeated-put-concurrent-with-flush-of-same-address", false},
			{"flush: 3 small + 1 big, batch count 2, 1 worker", []int{S, S + 1, S + 2, B}, [][]step{{put(0), put(1), put(2), put(3)}}, 1, 7, 2, b(0, 1), b(1, 2), false, "", false},
			{"flush vs delete: put 2, delete one while flushing", []int{S, B}, [][]step{{put(0), put(1)}, {del(1)}}, 1, 6, 2, b(1, 2), b(1, 1), false, "", false},
			{"flush vs delete racing with the put of the same object", []int{S, B}, [][]step{{put(0), put(1)}, {del(1)}}, 1, 6, 2, b(1, 2), 0, false, "delete-concurrent-with-unacknowledged-put-of-same-address", true},
		}
		if q {
			cfgs = append(cfgs,
				cfg{"flush: 2 small + 1 big, 2 workers, two clients [faults only]", []int{S, S + 1, B}, [][]step{{put(0), put(2)}, {put(1)}}, 2, 6, 2, 0, 1, true, "", false},
				cfg{"flush: 2 small + 1 big, 2 workers, two clients [schedules only, single phase]", []int{S, S + 1, B}, [][]step{{put(0), put(2)}, {put(1)}}, 2, 6, 2, 1, 0, false, "", false})
		} else {
			cfgs = append(cfgs,
				cfg{"flush: 2 small + 1 big, 2 workers, two clients", []int{S, S + 1, B}, [][]step{{put(0), put(2)}, {put(1)}}, 2, 6, 2, 1, 2, true, "", false})
		}
		return cfgs
	}
	var scs []sched.Scenario
	for _, c := range mk() {
		scs = append(scs, scenario(c))
	}
	if r.Thorough() {
		// deeper bounds after the quick ones (the budget is shared per scenario, leftovers roll on)
		q = false
		for _, c := range mk() {
			c.name += " [deep]"
			scs = append(scs, scenario(c))
		}
	}
	r.Rule("every schedule within the per-scenario preemption bound x every set of failing main-storage Put/PutBatch calls within the fault bound, each run to quiescence (fair suffix: all threads blocked, ticker exhausted); non-trivial = distinct (scenario, #faults, residual cache files, deleted set) outcome classes")
	r.Assume("atomics are not scheduling points", "the flush ticker fires a bounded number of times (6-7) per execution, more than preemption bound + fault bound + rounds needed", "defaultErrorDelay sleep is a yield")
	sched.Main(r, scs, 0)
}
