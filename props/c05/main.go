// C05: numeric index encoding (internal/signed256) is lossless and order preserving; every reader of
// decimal integers in the search/metadata code accepts exactly the optionally signed digit strings in
// [-(2^256-1), 2^256-1], agrees on the value, and printing/parsing round-trips.
//
// Structured exhaustive enumeration (no sampling):
//
//	A. successor chains: for each sign and each byte position k=0..30 the ascending chain
//	   m*256^k, m*256^k+(256^k-1), (m+1)*256^k, ... over ALL 65536 two-byte windows m (every second step is a
//	   true +1 successor with a carry through all lower bytes): encode/decode round trip, strict monotonicity of
//	   the keys under bytes.Compare, Cmp agreement, print/parse round trip.
//	B. boundary set W (window boundary values at every byte position, powers of ten, uint64 edge, +-(2^256-1) ...)
//	   compared ALL-PAIRS: bytes.Compare(key_i,key_j) == Cmp == compareIntStrings == math/big order.
//	C. strings: all strings of length <= 4 (thorough 5) over {+,-,0..9,' ',x}, all strings of length <= 6 (7) over
//	   {+,-,0,1,' '}, and sign/leading-zero/garbage variants of the values around 0, 2^64, 10^19, 10^20 and
//	   +-(2^256-1): every reader is compared with a math/big reference (accept set and value) and so with each other.
//
// The reference is written from the property text: ^[+-]?[0-9]+$ and |v| <= 2^256-1.
package main

import (
	"bytes"
	"errors"
	"fmt"
	"math/big"
	"os"
	"sort"
	"strings"
	"sync"

	"github.com/nspcc-dev/neofs-node/internal/signed256"
	objectcore "github.com/nspcc-dev/neofs-node/pkg/core/object"
	meta "github.com/nspcc-dev/neofs-node/pkg/local_object_storage/metabase"
	"github.com/nspcc-dev/neofs-node/verif/lib/enumx"
	"github.com/nspcc-dev/neofs-node/verif/lib/ev"
	"github.com/nspcc-dev/neofs-sdk-go/client"
	"github.com/nspcc-dev/neofs-sdk-go/object"
	oid "github.com/nspcc-dev/neofs-sdk-go/object/id"
)

var (
	r      *ev.Run
	maxAbs = new(big.Int).Sub(new(big.Int).Lsh(big.NewInt(1), 256), big.NewInt(1))
	minVal = new(big.Int).Neg(maxAbs)
	one    = big.NewInt(1)

	classMu sync.Mutex
	classes = map[string]int{}
)

var violClasses = map[string]int{}

// viol records the class locally too (ev prints only the first few classes).
func viol(fp, what string, replay any) {
	classMu.Lock()
	violClasses[fp]++
	classMu.Unlock()
	r.Violation(fp, what, replay)
}

func noteClass(c string) {
	classMu.Lock()
	classes[c]++
	classMu.Unlock()
}

// ---------- reference (from the property text) ----------

// refParse: value and structural class of s; v == nil when s is not an optionally signed digit string in range.
func refParse(s string) (*big.Int, string) {
	if s == "" {
		return nil, "reject:empty"
	}
	body := s
	sign := ""
	if s[0] == '+' || s[0] == '-' {
		sign = s[:1]
		body = s[1:]
	}
	if body == "" {
		return nil, "reject:sign-only"
	}
	for i := 0; i < len(body); i++ {
		c := body[i]
		if c >= '0' && c <= '9' {
			continue
		}
		switch {
		case (c == '+' || c == '-') && i == 0 && sign != "":
			rest := body[1:]
			if rest != "" && strings.Trim(rest, "0123456789") == "" {
				return nil, "reject:double-sign(" + sign + string(c) + ")digits"
			}
			return nil, "reject:double-sign-other"
		case c == '+' || c == '-':
			return nil, "reject:inner-sign"
		case c == ' ':
			return nil, "reject:space"
		default:
			return nil, "reject:non-digit"
		}
	}
	v, ok := new(big.Int).SetString(body, 10)
	if !ok {
		panic("reference: digits not parsed: " + body)
	}
	if sign == "-" {
		v.Neg(v)
	}
	if v.CmpAbs(maxAbs) > 0 {
		if v.Sign() > 0 {
			return nil, "reject:above-max"
		}
		return nil, "reject:below-min"
	}
	cl := "accept:"
	switch {
	case v.Sign() == 0:
		cl += "zero"
	case v.Sign() > 0:
		cl += "pos"
	default:
		cl += "neg"
	}
	switch {
	case v.CmpAbs(maxAbs) == 0:
		cl += ":edge"
	case v.IsUint64() || new(big.Int).Neg(v).IsUint64():
		cl += ":u64"
	case len(strings.TrimLeft(body, "0")) <= 20:
		cl += ":21digits-"
	default:
		cl += ":big"
	}
	if sign == "+" {
		cl += ":plus"
	}
	if sign == "-" && v.Sign() == 0 {
		cl += ":minus"
	}
	if len(body) > 1 && body[0] == '0' {
		cl += ":lz"
	}
	return v, cl
}

// ---------- readers ----------

// a reader returns (accepted, value). value "" = the reader exposes acceptance only.
type reader struct {
	name string
	f    func(s string, hint *big.Int) (bool, string)
	// noRange: the reader has no business rejecting by range? (never true: the property demands the range everywhere)
}

var (
	idLo = oid.ID{1}
	idHi = oid.ID{2}
)

func numFilter(attr, val string, m object.SearchMatchType) object.SearchFilters {
	var fs object.SearchFilters
	fs.AddFilter(attr, val, m)
	return fs
}

type fixedGetter struct{ val []byte }

func (g fixedGetter) Get(_ []byte, _ string) ([]byte, error) { return g.val, nil }

// runs the exported KV handler over one OID key with the stored attribute value dbVal and filters fs (attrs empty =>
// every filter is evaluated as a "secondary" one against the value returned by the attribute getter).
func kvMatch(fs object.SearchFilters, dbVal string) (matched bool, rejected bool) {
	ofs, cur, err := objectcore.PreprocessSearchQuery(fs, nil, "")
	if err != nil {
		if errors.Is(err, objectcore.ErrUnreachableQuery) {
			return false, false
		}
		return false, true
	}
	var res objectcore.SearchResult
	h := objectcore.MetaDataKVHandler(&res, fixedGetter{[]byte(dbVal)}, nil, ofs, nil, cur, 10)
	k := append([]byte{0}, idLo[:]...)
	h(k, nil)
	if res.Err != nil {
		return false, true
	}
	return len(res.Objects) == 1, false
}

// mergeCmp compares two decimal strings through the exported MergeSearchResults (numeric mode).
func mergeCmp(a, b string) (int, error) {
	run := func(ida, idb oid.ID, aFirstSet bool) (bool, error) {
		sa := []client.SearchResultItem{{ID: ida, Attributes: []string{a}}}
		sb := []client.SearchResultItem{{ID: idb, Attributes: []string{b}}}
		sets := [][]client.SearchResultItem{sa, sb}
		if !aFirstSet {
			sets = [][]client.SearchResultItem{sb, sa}
		}
		res, _, err := objectcore.MergeSearchResults(2, "A", true, sets, []bool{false, false})
		if err != nil {
			return false, err
		}
		if len(res) != 2 {
			return false, fmt.Errorf("merge returned %d items", len(res))
		}
		return res[0].ID == ida, nil
	}
	var firstWins [4]bool
	i := 0
	for _, swapIDs := range []bool{false, true} {
		for _, aFirstSet := range []bool{true, false} {
			ida, idb := idLo, idHi
			if swapIDs {
				ida, idb = idHi, idLo
			}
			w, err := run(ida, idb, aFirstSet)
			if err != nil {
				return 0, err
			}
			firstWins[i] = w
			i++
		}
	}
	switch {
	case firstWins[0] && firstWins[1] && firstWins[2] && firstWins[3]:
		return -1, nil
	case !firstWins[0] && !firstWins[1] && !firstWins[2] && !firstWins[3]:
		return 1, nil
	case firstWins[0] && firstWins[1] && !firstWins[2] && !firstWins[3]:
		return 0, nil // follows the IDs: tie
	}
	return 0, fmt.Errorf("merge order depends on set position: %v", firstWins)
}

// valueByNeighbours derives the value a comparator assigns to s, given the reference value hint: the comparator
// must say s == hint, s > hint-1, s < hint+1 (neighbours kept in range).
func valueByNeighbours(cmp func(a, b string) (int, error), s string, hint *big.Int) (bool, string) {
	if _, err := cmp(s, "0"); err != nil {
		return false, ""
	}
	if _, err := cmp("0", s); err != nil {
		return false, ""
	}
	if hint == nil {
		return true, ""
	}
	c, err := cmp(s, hint.String())
	if err != nil || c != 0 {
		return true, fmt.Sprintf("!=%s(cmp=%d,err=%v)", hint, c, err)
	}
	if hint.Cmp(minVal) > 0 {
		p := new(big.Int).Sub(hint, one).String()
		c, err = cmp(s, p)
		c2, err2 := cmp(p, s)
		if err != nil || err2 != nil || c != 1 || c2 != -1 {
			return true, fmt.Sprintf("not>%s(cmp=%d,%d)", p, c, c2)
		}
	}
	if hint.Cmp(maxAbs) < 0 {
		n := new(big.Int).Add(hint, one).String()
		c, err = cmp(s, n)
		c2, err2 := cmp(n, s)
		if err != nil || err2 != nil || c != -1 || c2 != 1 {
			return true, fmt.Sprintf("not<%s(cmp=%d,%d)", n, c, c2)
		}
	}
	return true, hint.String()
}

func preprocessPrimary(m object.SearchMatchType) func(string, *big.Int) (bool, string) {
	return func(s string, _ *big.Int) (bool, string) {
		ofs, _, err := objectcore.PreprocessSearchQuery(numFilter("A", s, m), []string{"A"}, "")
		if err != nil {
			if errors.Is(err, objectcore.ErrUnreachableQuery) {
				// the query is declared unsatisfiable: only "> max" and "< min" are
				switch m {
				case object.MatchNumGT:
					return true, maxAbs.String()
				case object.MatchNumLT:
					return true, minVal.String()
				}
				return true, "unreachable-for-" + m.String()
			}
			return false, ""
		}
		if len(ofs) != 1 {
			return true, fmt.Sprintf("%d filters returned", len(ofs))
		}
		if ofs[0].AutoMatch {
			switch m {
			case object.MatchNumLE:
				return true, maxAbs.String()
			case object.MatchNumGE:
				return true, minVal.String()
			}
			return true, "automatch-for-" + m.String()
		}
		n, err := signed256.DecodeBytes(ofs[0].Raw)
		if err != nil {
			return true, "raw:" + err.Error()
		}
		return true, n.String()
	}
}

var readers = []reader{
	{"signed256.ParseDecimal", func(s string, _ *big.Int) (bool, string) {
		n, err := signed256.ParseDecimal(s)
		if err != nil {
			return false, ""
		}
		return true, n.String()
	}},
	{"signed256.Int.SetFromDecimal(dirty receiver)", func(s string, _ *big.Int) (bool, string) {
		n := signed256.Min()
		if err := n.SetFromDecimal(s); err != nil {
			return false, ""
		}
		return true, n.String()
	}},
	{"objectcore.splitIntString+signed256.ParseNormalizedDecimal", func(s string, _ *big.Int) (bool, string) {
		neg, digits, err := objectcore.VerifC05SplitIntString(s)
		if err != nil {
			return false, ""
		}
		n, err := signed256.ParseNormalizedDecimal(neg, digits)
		if err != nil {
			return false, ""
		}
		return true, n.String()
	}},
	{"objectcore.parseNumericFilterValue", func(s string, _ *big.Int) (bool, string) {
		n, err := objectcore.VerifC05ParseNumericFilterValue(objectcore.SearchFilter{SearchFilter: numFilter("A", s, object.MatchNumGE)[0]})
		if err != nil {
			return false, ""
		}
		return true, n.String()
	}},
	{"metabase.parseInt(stored attribute -> integer index)", func(s string, _ *big.Int) (bool, string) {
		n, ok := meta.VerifC05ParseInt(s)
		if !ok {
			return false, ""
		}
		return true, n.String()
	}},
	{"PreprocessSearchQuery(primary NUM_GT)", preprocessPrimary(object.MatchNumGT)},
	{"PreprocessSearchQuery(primary NUM_GE)", preprocessPrimary(object.MatchNumGE)},
	{"PreprocessSearchQuery(primary NUM_LT)", preprocessPrimary(object.MatchNumLT)},
	{"PreprocessSearchQuery(primary NUM_LE)", preprocessPrimary(object.MatchNumLE)},
	{"PreprocessSearchQuery(secondary NUM_GE)", func(s string, _ *big.Int) (bool, string) {
		var fs object.SearchFilters
		fs.AddFilter("B", "x", object.MatchStringEqual)
		fs.AddFilter("A", s, object.MatchNumGE)
		_, _, err := objectcore.PreprocessSearchQuery(fs, []string{"B"}, "")
		return err == nil || errors.Is(err, objectcore.ErrUnreachableQuery), ""
	}},
	{"MetaDataKVHandler(stored value of a secondary numeric filter)", func(s string, hint *big.Int) (bool, string) {
		// "A <= max" is satisfied by every integer: the object matches iff the stored value s is read as an integer
		m, rej := kvMatch(numFilter("A", maxAbs.String(), object.MatchNumLE), s)
		if rej {
			return false, "handler-error"
		}
		if !m {
			return false, ""
		}
		if hint == nil {
			return true, ""
		}
		h := hint.String()
		ge, _ := kvMatch(numFilter("A", h, object.MatchNumGE), s)
		le, _ := kvMatch(numFilter("A", h, object.MatchNumLE), s)
		gt, _ := kvMatch(numFilter("A", h, object.MatchNumGT), s)
		lt, _ := kvMatch(numFilter("A", h, object.MatchNumLT), s)
		if ge && le && !gt && !lt {
			return true, h
		}
		return true, fmt.Sprintf("!=%s(ge=%v,le=%v,gt=%v,lt=%v)", h, ge, le, gt, lt)
	}},
	{"MetaDataKVHandler(filter value of a secondary numeric filter)", func(s string, hint *big.Int) (bool, string) {
		db := "0"
		if hint != nil {
			db = hint.String()
		}
		_, rej := kvMatch(numFilter("A", s, object.MatchNumGE), db)
		if rej {
			return false, ""
		}
		if hint == nil {
			return true, ""
		}
		ge, _ := kvMatch(numFilter("A", s, object.MatchNumGE), db)
		le, _ := kvMatch(numFilter("A", s, object.MatchNumLE), db)
		gt, _ := kvMatch(numFilter("A", s, object.MatchNumGT), db)
		lt, _ := kvMatch(numFilter("A", s, object.MatchNumLT), db)
		if ge && le && !gt && !lt {
			return true, db
		}
		return true, fmt.Sprintf("!=%s(ge=%v,le=%v,gt=%v,lt=%v)", db, ge, le, gt, lt)
	}},
	{"objectcore.CalculateCursor(numeric primary attribute)", func(s string, _ *big.Int) (bool, string) {
		f := numFilter("A", "0", object.MatchNumGE)[0]
		b, err := objectcore.CalculateCursor(&f, client.SearchResultItem{ID: idLo, Attributes: []string{s}})
		if err != nil {
			return false, ""
		}
		if len(b) != 1+1+signed256.EncodedLen+oid.Size {
			return true, fmt.Sprintf("cursor len %d", len(b))
		}
		n, err := signed256.DecodeBytes(b[2 : 2+signed256.EncodedLen])
		if err != nil {
			return true, "cursor:" + err.Error()
		}
		return true, n.String()
	}},
	{"objectcore.MergeSearchResults(numeric compare)", func(s string, hint *big.Int) (bool, string) {
		return valueByNeighbours(mergeCmp, s, hint)
	}},
	{"objectcore.compareIntStrings", func(s string, hint *big.Int) (bool, string) {
		return valueByNeighbours(objectcore.VerifC05CompareIntStrings, s, hint)
	}},
}

func canonical(v *big.Int) string { return v.String() }

// checkString evaluates every reader on s.
func checkString(s string) {
	v, class := refParse(s)
	noteClass(class)
	r.Nontrivial("str:" + s)
	// one violation per string and kind, naming every disagreeing reader: readers sharing a root cause (e.g. all callers
	// of signed256.ParseDecimal) fall into one class, a different set of readers is a different class.
	var tooLax, tooStrict, wrongVal []string
	var detail []string
	for i := range readers {
		rd := &readers[i]
		ok, val := rd.f(s, v)
		r.Eval(1)
		switch {
		case ok && v == nil:
			tooLax = append(tooLax, rd.name)
			detail = append(detail, fmt.Sprintf("%s accepts it (as %q)", rd.name, val))
		case !ok && v != nil:
			tooStrict = append(tooStrict, rd.name)
		case ok && val != "" && val != canonical(v):
			wrongVal = append(wrongVal, rd.name)
			detail = append(detail, fmt.Sprintf("%s reads it as %s", rd.name, val))
		}
	}
	fclass := class
	if strings.HasPrefix(class, "reject:double-sign(") && strings.HasSuffix(class, ")digits") {
		fclass = "reject:double-sign(" + "?" + class[len("reject:double-sign(")+1:] // the first sign does not matter
	}
	if class == "reject:above-max" || class == "reject:below-min" {
		fclass = "reject:out-of-range"
	}
	if len(tooLax) > 0 {
		viol("accept-set:accepted:"+fclass+":by="+strings.Join(tooLax, ","),
			fmt.Sprintf("%q is not an optionally signed digit string in [-(2^256-1), 2^256-1] (%s) but: %s; the other readers reject it", s, class, strings.Join(detail, "; ")), s)
	}
	if len(tooStrict) > 0 {
		viol("accept-set:rejected:"+fclass+":by="+strings.Join(tooStrict, ","),
			fmt.Sprintf("%q is a valid integer %s (%s) but is rejected by: %s", s, v, class, strings.Join(tooStrict, ", ")), s)
	}
	if len(wrongVal) > 0 {
		viol("value:"+fclass+":by="+strings.Join(wrongVal, ","),
			fmt.Sprintf("%q has reference value %s (%s) but: %s", s, v, class, strings.Join(detail, "; ")), s)
	}
	if v != nil {
		// print/parse round trip: String(Parse(s)) is the normal form and parses back to the same value and key
		n, err := signed256.ParseDecimal(s)
		if err == nil {
			p := n.String()
			n2, err2 := signed256.ParseDecimal(p)
			if err2 != nil || n2.Cmp(&n) != 0 || n2.String() != p || n2.EncodeBytes() != n.EncodeBytes() {
				viol("print-parse:"+class, fmt.Sprintf("String(Parse(%q)) = %q does not parse back to the same value", s, p), s)
			}
		}
		if r.WantSample() && len(s) > 2 {
			r.Sample(map[string]any{"string": s, "value": v.String(), "class": class})
		}
	}
}

// ---------- part A: successor chains ----------

type prevVal struct {
	set bool
	z   signed256.Int
	enc [signed256.EncodedLen]byte
	ref *big.Int
}

func sgn(i int) int {
	switch {
	case i < 0:
		return -1
	case i > 0:
		return 1
	}
	return 0
}

func signClass(a, b *big.Int) string {
	n := func(v *big.Int) string {
		switch v.Sign() {
		case 0:
			return "0"
		case 1:
			return "+"
		}
		return "-"
	}
	return n(a) + "/" + n(b)
}

// checkValue: round trips of one value; returns its Int and key.
func checkValue(ref *big.Int) (signed256.Int, [signed256.EncodedLen]byte, bool) {
	dec := ref.String()
	z, err := signed256.ParseDecimal(dec)
	r.Eval(1)
	cl := signClass(ref, ref)[:1]
	if err != nil {
		viol("parse:canonical-decimal-rejected:"+cl, fmt.Sprintf("ParseDecimal(%q): %v", dec, err), dec)
		return z, [signed256.EncodedLen]byte{}, false
	}
	if got := z.String(); got != dec {
		viol("print-parse:String(Parse(x))!=x:"+cl, fmt.Sprintf("String(ParseDecimal(%q)) = %q", dec, got), dec)
	}
	enc := z.EncodeBytes()
	var buf [signed256.EncodedLen + 4]byte
	for i := range buf {
		buf[i] = 0xA5
	}
	z.FillBytes(buf[:])
	if !bytes.Equal(buf[:signed256.EncodedLen], enc[:]) || buf[signed256.EncodedLen] != 0xA5 {
		viol("encode:FillBytes-differs-from-EncodeBytes:"+cl, fmt.Sprintf("value %s: FillBytes %x vs EncodeBytes %x", dec, buf, enc), dec)
	}
	d, err := signed256.DecodeBytes(enc[:])
	if err != nil {
		viol("roundtrip:decode-rejects-own-key:"+cl, fmt.Sprintf("DecodeBytes(Encode(%s)=%x): %v", dec, enc, err), dec)
		return z, enc, true
	}
	if d.Cmp(&z) != 0 || z.Cmp(&d) != 0 || d.String() != dec || d.EncodeBytes() != enc {
		viol("roundtrip:decode(encode(x))!=x:"+cl, fmt.Sprintf("x=%s key=%x decodes to %s", dec, enc, d.String()), dec)
	}
	if ref.IsUint64() {
		u := signed256.NewUint64(ref.Uint64())
		if u.EncodeBytes() != enc || u.Cmp(&z) != 0 {
			viol("encode:NewUint64-differs:"+cl, fmt.Sprintf("NewUint64(%s) key %x vs parsed key %x", dec, u.EncodeBytes(), enc), dec)
		}
	}
	if ref.IsInt64() {
		u := signed256.NewInt(ref.Int64())
		if u.EncodeBytes() != enc || u.Cmp(&z) != 0 {
			viol("encode:NewInt-differs:"+cl, fmt.Sprintf("NewInt(%s) key %x vs parsed key %x", dec, u.EncodeBytes(), enc), dec)
		}
	}
	return z, enc, true
}

// checkPair: order of two values (a before b in the enumeration), want = reference sign of a-b.
func checkPair(a, b *prevVal, where string) {
	want := a.ref.Cmp(b.ref)
	r.Eval(1)
	if got := sgn(bytes.Compare(a.enc[:], b.enc[:])); got != want {
		viol("order:bytes.Compare(keys)!=numeric:"+signClass(a.ref, b.ref)+":"+where,
			fmt.Sprintf("a=%s b=%s numeric %d, keys %x vs %x compare %d", a.ref, b.ref, want, a.enc, b.enc, got), []string{a.ref.String(), b.ref.String()})
	}
	if g1, g2 := a.z.Cmp(&b.z), b.z.Cmp(&a.z); g1 != want || g2 != -want {
		viol("order:Cmp!=numeric:"+signClass(a.ref, b.ref)+":"+where,
			fmt.Sprintf("a=%s b=%s numeric %d, a.Cmp(b)=%d b.Cmp(a)=%d", a.ref, b.ref, want, g1, g2), []string{a.ref.String(), b.ref.String()})
	}
}

func chain(neg bool, k int) {
	B := new(big.Int).Lsh(one, uint(8*k))
	Bm1 := new(big.Int).Sub(B, one)
	var prev prevVal
	step := func(v *big.Int, m int, fill int) {
		ref := new(big.Int).Set(v)
		if neg {
			ref.Neg(ref)
		}
		z, enc, ok := checkValue(ref)
		if !ok {
			return
		}
		cur := prevVal{true, z, enc, ref}
		if prev.set {
			checkPair(&prev, &cur, "chain")
		}
		prev = cur
		if m&0xff == 0 {
			r.Nontrivial(fmt.Sprintf("chain:%v:%d:%d:%d", neg, k, m>>8, fill))
		}
	}
	v := new(big.Int)
	for m := 0; m < 1<<16; m++ {
		v.Mul(big.NewInt(int64(m)), B)
		step(v, m, 0)
		if k > 0 {
			v.Add(v, Bm1)
			step(v, m, 1)
		}
		if m&0xfff == 0 && r.Expired() {
			expired.Store(true)
			return
		}
	}
}

// ---------- part B: boundary set, all pairs ----------

func boundarySet(thorough bool) []*big.Int {
	seen := map[string]bool{}
	var out []*big.Int
	add := func(v *big.Int) {
		for _, d := range []int64{-1, 0, 1} {
			for _, s := range []int{1, -1} {
				x := new(big.Int).Add(v, big.NewInt(d))
				if s < 0 {
					x.Neg(x)
				}
				if x.CmpAbs(maxAbs) > 0 {
					continue
				}
				if k := x.String(); !seen[k] {
					seen[k] = true
					out = append(out, x)
				}
			}
		}
	}
	ms := []int64{0, 1, 2, 0x7f, 0x80, 0xff, 0x100, 0x101, 0x7fff, 0x8000, 0xff00, 0xfffe, 0xffff}
	if thorough {
		ms = append(ms, 0x55, 0xaa, 0x1ff, 0x200, 0x7f00, 0x80ff, 0xfeff, 0xff01)
	}
	for k := 0; k <= 30; k++ {
		B := new(big.Int).Lsh(one, uint(8*k))
		for _, m := range ms {
			v := new(big.Int).Mul(big.NewInt(m), B)
			add(v)
			add(new(big.Int).Add(v, new(big.Int).Sub(B, one)))
		}
	}
	p := big.NewInt(1)
	for e := 0; e <= 77; e++ { // 10^77 < 2^256 < 10^78
		add(p)
		p = new(big.Int).Mul(p, big.NewInt(10))
	}
	for b := 0; b <= 256; b++ {
		add(new(big.Int).Lsh(one, uint(b)))
	}
	add(maxAbs)
	sort.Slice(out, func(i, j int) bool { return out[i].Cmp(out[j]) < 0 })
	return out
}

// string variants of a value for the comparators (same value, different spelling)
func spellings(v *big.Int, i int) string {
	s := v.String()
	body := strings.TrimPrefix(s, "-")
	sign := ""
	if v.Sign() < 0 {
		sign = "-"
	}
	switch i % 4 {
	case 1:
		if sign == "" {
			return "+" + body
		}
	case 2:
		return sign + "00" + body
	case 3:
		if v.Sign() == 0 {
			return "-0"
		}
	}
	return s
}

// ---------- part C: strings ----------

func allStrings(alpha string, maxLen int, f func(string)) {
	for n := 0; n <= maxLen; n++ {
		buf := make([]byte, n)
		enumx.Seqs(len(alpha), n, func(s []int) bool {
			for i, c := range s {
				buf[i] = alpha[c]
			}
			f(string(buf))
			return true
		})
	}
}

func boundaryStrings() []string {
	seen := map[string]bool{}
	var out []string
	add := func(s string) {
		if !seen[s] {
			seen[s] = true
			out = append(out, s)
		}
	}
	var centers []*big.Int
	for _, c := range []*big.Int{
		big.NewInt(0), big.NewInt(10),
		new(big.Int).Lsh(one, 63), new(big.Int).Lsh(one, 64),
		new(big.Int).Exp(big.NewInt(10), big.NewInt(19), nil), new(big.Int).Exp(big.NewInt(10), big.NewInt(20), nil),
		new(big.Int).Lsh(one, 128), new(big.Int).Lsh(one, 255),
		new(big.Int).Exp(big.NewInt(10), big.NewInt(76), nil), new(big.Int).Exp(big.NewInt(10), big.NewInt(77), nil),
		new(big.Int).Lsh(one, 256),
		new(big.Int).Exp(big.NewInt(10), big.NewInt(78), nil),
		new(big.Int).Lsh(one, 257), new(big.Int).Lsh(one, 320),
	} {
		for d := int64(-2); d <= 2; d++ {
			v := new(big.Int).Add(c, big.NewInt(d))
			if v.Sign() >= 0 {
				centers = append(centers, v)
			}
		}
	}
	// same number of digits as 2^256-1 but lexicographically around it
	centers = append(centers, new(big.Int).Add(maxAbs, big.NewInt(1000)), new(big.Int).Sub(new(big.Int).Exp(big.NewInt(10), big.NewInt(78), nil), one))
	signs := []string{"", "+", "-", "++", "+-", "-+", "--", " ", " +", " -", "+ ", "- "}
	zeros := []string{"", "0", "00", strings.Repeat("0", 19), strings.Repeat("0", 20), strings.Repeat("0", 78), strings.Repeat("0", 200)}
	tails := []string{"", " ", "x", "+", "-", ".0", "e0", "_0"}
	for _, c := range centers {
		d := c.String()
		for _, sg := range signs {
			for _, z := range zeros {
				add(sg + z + d)
			}
		}
		for _, sg := range []string{"", "+", "-"} {
			for _, t := range tails[1:] {
				add(sg + d + t)
			}
			if len(d) > 2 {
				add(sg + d[:len(d)/2] + "_" + d[len(d)/2:])
				add(sg + d[:len(d)/2] + " " + d[len(d)/2:])
				add(sg + d[:len(d)/2] + "+" + d[len(d)/2:])
				add(sg + "0x" + d)
			}
		}
	}
	for _, z := range zeros {
		for _, sg := range signs {
			add(sg + z)
		}
	}
	// non-ASCII digits and other bytes
	for _, s := range []string{"١", "1٠", "１", "1\x00", "\x001", "1\n", "\t1", "0b1", "0o7", "1_000", "0x10", "1e3", "1E3", "1.", ".1", "Inf", "NaN", "٣"} {
		add(s)
		add("-" + s)
	}
	return out
}

var expired expiredFlag

type expiredFlag struct {
	mu sync.Mutex
	v  bool
}

func (e *expiredFlag) Store(b bool) { e.mu.Lock(); e.v = b; e.mu.Unlock() }
func (e *expiredFlag) Load() bool   { e.mu.Lock(); defer e.mu.Unlock(); return e.v }

func main() {
	r = ev.Start("C05", ev.Exploration)
	if r.Replay != "" {
		var s string
		var pair []string
		if b := tryLoad(&s); b {
			if v, ok := new(big.Int).SetString(s, 10); ok && v.CmpAbs(maxAbs) <= 0 && v.String() == s {
				checkValue(v)
			}
			checkString(s)
		} else {
			r.LoadReplay(&pair)
			if len(pair) == 2 {
				a, _ := new(big.Int).SetString(pair[0], 10)
				b, _ := new(big.Int).SetString(pair[1], 10)
				za, ea, _ := checkValue(a)
				zb, eb, _ := checkValue(b)
				checkPair(&prevVal{true, za, ea, a}, &prevVal{true, zb, eb, b}, "replay")
			}
		}
		r.Finish()
	}

	// A. chains
	type ch struct {
		neg bool
		k   int
	}
	var chains []ch
	for k := 0; k <= 30; k++ {
		chains = append(chains, ch{false, k}, ch{true, k})
	}
	enumx.Parallel(len(chains), func(i int) { chain(chains[i].neg, chains[i].k) })
	chainEvals := r.Evals()

	// B. all pairs over the boundary set
	W := boundarySet(r.Thorough())
	vals := make([]prevVal, len(W))
	enumx.Parallel(len(W), func(i int) {
		z, enc, _ := checkValue(W[i])
		vals[i] = prevVal{true, z, enc, W[i]}
	})
	enumx.Parallel(len(W), func(i int) {
		if expired.Load() {
			return
		}
		si := spellings(W[i], i)
		for j := range W {
			checkPair(&vals[i], &vals[j], "boundary-set")
			want := sgn(i - j)
			sj := spellings(W[j], j/4)
			if c, err := objectcore.VerifC05CompareIntStrings(si, sj); err != nil || c != want {
				viol("order:compareIntStrings!=numeric:"+signClass(W[i], W[j]),
					fmt.Sprintf("compareIntStrings(%q,%q) = %d,%v; numeric %d", si, sj, c, err, want), []string{W[i].String(), W[j].String()})
			}
		}
		r.Nontrivial("W:" + W[i].String())
		if r.Expired() {
			expired.Store(true)
		}
	})
	// every boundary value (canonical and respelled) through every reader
	enumx.Parallel(len(W), func(i int) {
		checkString(W[i].String())
		if s := spellings(W[i], i); s != W[i].String() {
			checkString(s)
		}
	})

	// C. strings
	var strs []string
	l1, l2 := 4, 6
	if r.Thorough() {
		l1, l2 = 5, 8
	}
	seen := map[string]bool{}
	addS := func(s string) {
		if !seen[s] {
			seen[s] = true
			strs = append(strs, s)
		}
	}
	allStrings("+-0123456789 x", l1, addS)
	allStrings("+-01 ", l2, addS)
	if r.Thorough() {
		allStrings("+-019 x_.", 6, addS)
	}
	for _, s := range boundaryStrings() {
		addS(s)
	}
	enumx.Parallel(len(strs), func(i int) {
		if expired.Load() {
			return
		}
		checkString(strs[i])
		if i&0x3ff == 0 && r.Expired() {
			expired.Store(true)
		}
	})

	accepted := 0
	for c := range classes {
		if strings.HasPrefix(c, "accept:") {
			accepted++
		}
	}
	if len(violClasses) > 0 {
		var ks []string
		for k := range violClasses {
			ks = append(ks, k)
		}
		sort.Strings(ks)
		fmt.Printf("violation classes (%d):\n", len(ks))
		for _, k := range ks {
			fmt.Printf("  %6d  %s\n", violClasses[k], k)
		}
		r.Set("violation_classes", violClasses)
	}
	r.Set("outcome_classes", len(classes))
	r.Set("outcome_class_counts", classes)
	r.Set("accepting_classes", accepted)
	r.Set("chain_value_checks", chainEvals)
	r.Set("boundary_set_size", len(W))
	r.Set("boundary_pairs", len(W)*len(W))
	r.Set("strings", len(strs))
	r.Set("readers", func() []string {
		var n []string
		for _, rd := range readers {
			n = append(n, rd.name)
		}
		return n
	}())
	r.Rule(fmt.Sprintf("A: 62 sorted chains (sign x byte position 0..30) over all 65536 two-byte windows with fill 0 / all-ones (adjacent pair check, ~8.1M values); "+
		"B: all ordered pairs of a %d-value boundary set; C: all strings len<=%d over {+,-,0..9,space,x}, len<=%d over {+,-,0,1,space}, plus %d sign/zero/garbage variants of edge values, "+
		"each through %d readers; non-trivial = distinct string / distinct boundary value / distinct (sign,position,high window byte,fill) chain segment", len(W), l1, l2, len(boundaryStrings()), len(readers)))
	r.Exhaustive(!expired.Load())
	r.Assume("exhaustive over the stated structured alphabet, not over all 2^257 values; order preservation between two arbitrary values is covered only through the chains (transitivity inside a window) and the all-pairs boundary set",
		"eACL numeric filters (big.Int.SetString in pkg/innerring/processors/container and neofs-cli) are not search/metadata readers and are not compared")
	r.Finish()
}

func tryLoad(s *string) (ok bool) {
	// LoadReplay exits on type mismatch; peek at the file ourselves
	b, err := os.ReadFile(r.Replay)
	if err != nil {
		return false
	}
	i := bytes.Index(b, []byte(`"replay":`))
	if i < 0 {
		return false
	}
	rest := bytes.TrimSpace(b[i+len(`"replay":`):])
	if len(rest) == 0 || rest[0] != '"' {
		return false
	}
	r.LoadReplay(s)
	return true
}
