// C16: objects written through the write-cache stay readable through every flush.
// A real shard (write-cache + FSTree blobstor + metabase + GC goroutines) runs under the controlled
// scheduler. Clients put objects (sizes on both sides of the flush batch threshold), a reader
// reads them back while background flush batches, an explicit flush, a mode switch and a delete
// interleave; the blobstor sometimes fails. Every schedule within the bounds is executed.
// Oracle: from Put returning nil until Delete is invoked every completed Shard.Get/GetBytes returns
// identical bytes; at quiescence every acknowledged, undeleted object is in the blobstor with
// identical bytes (after a successful flush) and still readable through the shard.
package main

import (
	"bytes"
	"fmt"
	"os"
	"strings"

	"github.com/nspcc-dev/neofs-node/pkg/local_object_storage/shard/mode"
	"github.com/nspcc-dev/neofs-node/pkg/local_object_storage/writecache"
	"github.com/nspcc-dev/neofs-node/verif/lib/ev"
	"github.com/nspcc-dev/neofs-node/verif/lib/sched"
	ss "github.com/nspcc-dev/neofs-node/verif/worlds/schedshard"
	oid "github.com/nspcc-dev/neofs-sdk-go/object/id"
)

type step struct {
	Op  string // put | get | getbytes | delete | flush | setmode-ro-rw | wait
	Obj int
}

type cfg struct {
	name       string
	sizes      []int
	threads    [][]step
	workers    int
	ticks      int
	pre, flt   int
	modeSwitch bool
}

type result struct {
	Acked, DelStarted map[int]bool
	DelDone           map[int]bool
	Reputs            int
	Ev                []string
	// FlushWrittenBeforeRemoval: a background blobstor write had completed when a removal deleted from the blobstor
	FlushWrittenBeforeRemoval bool
	Bad                       []string
	NotInBlob                 []int
	NotInBlobAtReturn         []int
	FlushDuringBGWrite        bool
	Unreadable                []int
	Faults                    int
	Finished                  bool
	PutErrs                   []string
	Reads                     int
}

var freeBound = 1
var dbg = os.Getenv("VERIF_DEBUG") != ""

func scenario(c cfg) sched.Scenario {
	body := func(s *sched.S) any {
		root, err := os.MkdirTemp("/dev/shm", "verif-c16-")
		if err != nil {
			panic(err)
		}
		defer os.RemoveAll(root)
		res := &result{Acked: map[int]bool{}, DelStarted: map[int]bool{}, DelDone: map[int]bool{}}
		s.Result = res
		w, err := ss.New(s, root, ss.Opts{WriteCache: true, Workers: c.workers})
		if err != nil {
			panic(err)
		}
		defer w.Close()
		faultsOn := true
		w.FailWrites = func(what string) bool {
			if faultsOn && s.Choose(2, sched.Fault, "fail blob."+what) == 1 {
				res.Faults++
				return true
			}
			return false
		}
		objs := make([][]byte, len(c.sizes))
		for i, n := range c.sizes {
			objs[i] = ss.Obj(i, n).Marshal()
		}
		putDone := map[int]bool{}
		flushedOK := map[int]bool{} // acknowledged before an explicit flush that returned nil
		blobWrites, blobWritesDone := 0, 0
		w.OnStep = func(l string) {
			if l == "blob.Put" || l == "blob.PutBatch" {
				blobWrites++
			}
			if l == "blob.Put.done" || l == "blob.PutBatch.done" {
				blobWritesDone++
			}
			if dbg && strings.HasPrefix(l, "blob.") {
				res.Ev = append(res.Ev, l)
			}
			if l == "blob.Delete" {
				// how far the flusher was when the removal reached the blobstor (mechanism of a later loss)
				res.FlushWrittenBeforeRemoval = blobWritesDone > 0
			}
		}
		read := func(i int, viaBytes bool) {
			// the observation window is fixed BEFORE the call: acknowledged and delete not yet invoked
			must := res.Acked[i] && !res.DelStarted[i]
			var got []byte
			var err error
			if viaBytes {
				got, err = w.Sh.GetBytes(ss.Addr(i))
			} else {
				o, e := w.Sh.Get(ss.Addr(i), false)
				err = e
				if e == nil {
					got = o.Marshal()
				}
			}
			res.Reads++
			mustStill := must && !res.DelStarted[i] // a delete invoked during the read ends the window
			if err != nil && mustStill {
				res.Bad = append(res.Bad, fmt.Sprintf("read-failed:obj%d: %v", i, err))
			} else if err == nil && !bytes.Equal(got, objs[i]) {
				res.Bad = append(res.Bad, fmt.Sprintf("wrong-bytes:obj%d", i))
			}
		}
		for ti, steps := range c.threads {
			steps := steps
			s.Go(fmt.Sprintf("client%d", ti), false, func() {
				for _, st := range steps {
					i := st.Obj
					switch st.Op {
					case "put":
						if err := w.Sh.Put(ss.Obj(i, c.sizes[i]), nil); err == nil {
							res.Acked[i] = true
						} else {
							res.PutErrs = append(res.PutErrs, err.Error())
						}
						putDone[i] = true
					case "get":
						read(i, false)
					case "getbytes":
						read(i, true)
					case "wait-blob-write":
						s.Block("wait blob write", func() bool { return blobWrites > 0 || s.TimerFires <= 0 })
					case "wait-marked":
						// until the flush scheduler has marked object i as being processed (a batch with it is formed)
						s.Block("wait marked", func() bool {
							return writecache.VerifFlushMarked(w.Sh.VerifSSWriteCache(), ss.Addr(i)) || s.TimerFires <= 0
						})
						if dbg {
							res.Ev = append(res.Ev, fmt.Sprintf("marked=%v", writecache.VerifFlushMarked(w.Sh.VerifSSWriteCache(), ss.Addr(i))))
						}
					case "reput":
						// a new upload of an object whose deletion has returned: a fresh observation window
						if !res.DelDone[i] {
							continue
						}
						res.Acked[i] = false
						res.DelStarted[i] = false
						res.Reputs++
						if err := w.Sh.Put(ss.Obj(i, c.sizes[i]), nil); err == nil {
							res.Acked[i] = true
						} else {
							res.PutErrs = append(res.PutErrs, err.Error())
						}
						if dbg {
							res.Ev = append(res.Ev, "reput.done")
						}
					case "wait":
						s.Block("wait put", func() bool { return putDone[i] })
					case "delete":
						s.Block("wait put", func() bool { return putDone[i] })
						if !res.Acked[i] {
							continue
						}
						res.DelStarted[i] = true
						w.Sh.Delete(ss.Cnr, []oid.ID{ss.OID(i)})
						res.DelDone[i] = true
						if dbg {
							res.Ev = append(res.Ev, "del.done")
						}
					case "flush":
						before := map[int]bool{}
						if blobWrites > blobWritesDone {
							res.FlushDuringBGWrite = true
						}
						for k, v := range res.Acked {
							before[k] = v
						}
						err := w.Sh.FlushWriteCache(false)
						if os.Getenv("VERIF_DEBUG") != "" && res.FlushDuringBGWrite {
							_, e2 := w.FST.GetBytes(ss.Addr(0))
							fmt.Fprintf(os.Stderr, "DBG flush err=%v faults=%d before=%v inblob0=%v bw=%d bwd=%d\n", err, res.Faults, before, e2 == nil, blobWrites, blobWritesDone)
						}
						if err == nil {
							for k := range before {
								flushedOK[k] = true
								// "after a flush the object is in blob storage": judged at the moment the flush
								// returns, not only at quiescence (a background worker may finish the job later)
								if res.DelStarted[k] {
									continue
								}
								if b, err := w.FST.GetBytes(ss.Addr(k)); err != nil || !bytes.Equal(b, objs[k]) {
									res.NotInBlobAtReturn = append(res.NotInBlobAtReturn, k)
								}
							}
						}
					case "setmode-ro-rw":
						w.Sh.SetMode(mode.ReadOnly)
						w.Sh.SetMode(mode.ReadWrite)
					}
				}
			})
		}
		s.AwaitQuiescence()
		faultsOn = false
		for i := range c.sizes {
			if !res.Acked[i] || res.DelStarted[i] {
				continue
			}
			if b, err := w.Sh.GetBytes(ss.Addr(i)); err != nil || !bytes.Equal(b, objs[i]) {
				res.Unreadable = append(res.Unreadable, i)
			}
			if b, err := w.FST.GetBytes(ss.Addr(i)); flushedOK[i] && (err != nil || !bytes.Equal(b, objs[i])) {
				res.NotInBlob = append(res.NotInBlob, i)
			}
		}
		res.Finished = true
		if dbg && res.Reputs > 0 {
			fmt.Fprintf(os.Stderr, "DBG %s | %v\n", c.name[:40], res.Ev)
		}
		return res
	}
	check := func(x *sched.Exec) (string, string) {
		if len(x.Panics) > 0 {
			return "panic", x.Panics[0]
		}
		res, _ := x.Result.(*result)
		if x.Horizon || res == nil {
			return "", ""
		}
		if len(res.PutErrs) > 0 && res.Faults == 0 && !c.modeSwitch {
			return "harness:put-failed-without-fault", strings.Join(res.PutErrs, ";")
		}
		if x.Deadlock || !res.Finished {
			return "deadlock", strings.Join(x.Blocked, ";")
		}
		if len(res.Bad) > 0 {
			return strings.SplitN(res.Bad[0], ":", 2)[0] + ":between-put-ack-and-delete", strings.Join(res.Bad, "; ")
		}
		if len(res.Unreadable) > 0 {
			fp := "unreadable-at-quiescence"
			if res.Reputs > 0 {
				// uploaded again after its removal returned, then lost: tell the two mechanisms apart
				if res.FlushWrittenBeforeRemoval {
					fp += ":uploaded-again-after-removal:flusher-wrote-it-before-the-removal-and-dropped-the-new-cache-copy-afterwards"
				} else {
					fp += ":uploaded-again-after-removal:flusher-had-not-written-it-before-the-removal"
				}
			}
			return fp, fmt.Sprintf("%+v", res)
		}
		if len(res.NotInBlobAtReturn) > 0 {
			return "not-in-blobstor-when-successful-explicit-flush-returned", fmt.Sprintf("%+v", res)
		}
		if len(res.NotInBlob) > 0 {
			return "not-in-blobstor-after-successful-explicit-flush", fmt.Sprintf("%+v", res)
		}
		return "", ""
	}
	outcome := func(x *sched.Exec) string {
		res, _ := x.Result.(*result)
		if res == nil || !res.Finished {
			return "aborted"
		}
		o := fmt.Sprintf("faults=%d reads=%d deleted=%d", res.Faults, res.Reads, len(res.DelStarted))
		if res.Reputs > 0 {
			o += fmt.Sprintf(" reputs=%d", res.Reputs)
		}
		if res.FlushDuringBGWrite {
			o += " explicit-flush-began-during-a-background-blobstor-write"
		}
		return o
	}
	return sched.Scenario{Name: c.name, Opt: sched.Options{PreemptBound: c.pre, FaultBound: c.flt, FreeBound: freeBound, MaxSteps: 8000,
		Setup: func(s *sched.S) { s.TimerFires = c.ticks }}, Body: body, Check: check, Outcome: outcome}
}

func main() {
	r := ev.Start("C16", ev.ModelChecking)
	S, B := 4, 60
	q := true
	b := func(quick, thorough int) int {
		if q {
			return quick
		}
		return thorough
	}
	p := func(i int) step { return step{"put", i} }
	g := func(i int) step { return step{"get", i} }
	gb := func(i int) step { return step{"getbytes", i} }
	wt := func(i int) step { return step{"wait", i} }
	mk := func() []cfg {
		return []cfg{
			{"put small, reader reads twice during background flush", []int{S}, [][]step{{p(0)}, {wt(0), g(0), gb(0)}}, 1, 4, b(1, 2), b(1, 1), false},
			{"put small + big, reader of the big one, blobstor may fail", []int{S, B}, [][]step{{p(0), p(1)}, {wt(1), gb(1), g(1)}}, 1, 4, b(1, 2), b(1, 2), false},
			{"put small + big, reader starts when a blobstor write begins", []int{S, B}, [][]step{{p(0), p(1)}, {wt(1), {"wait-blob-write", 0}, gb(1), g(0)}}, 1, 4, b(1, 2), b(0, 1), false},
			{"put, explicit flush, reader", []int{S}, [][]step{{p(0), {"flush", 0}}, {wt(0), gb(0), g(0)}}, 1, 3, b(1, 2), b(1, 1), false},
			{"put, explicit flush once a background blobstor write has begun", []int{S}, [][]step{{p(0), {"wait-blob-write", 0}, {"flush", 0}}}, 1, 3, b(1, 2), b(1, 1), false},
			{"put small + big, explicit flush once a background blobstor write has begun", []int{S, B}, [][]step{{p(0), p(1), {"wait-blob-write", 0}, {"flush", 0}}}, 1, 3, b(1, 2), b(0, 1), false},
			{"put two (one batch), delete one once the batch is formed, upload it again once the batch is being written", []int{S, S + 1}, [][]step{{p(0), p(1)}, {wt(1), {"wait-marked", 0}, {"delete", 0}, {"wait-blob-write", 0}, {"reput", 0}}}, 1, 5, b(1, 2), 0, false},
			{"put two (one batch), delete one and upload it again once the batch is being written", []int{S, S + 1}, [][]step{{p(0), p(1)}, {wt(1), {"wait-blob-write", 0}, {"delete", 0}, {"reput", 0}}}, 1, 5, b(1, 2), 0, false},
			{"put big, delete it and upload it again once it is being written", []int{B}, [][]step{{p(0)}, {wt(0), {"wait-blob-write", 0}, {"delete", 0}, {"reput", 0}}}, 1, 5, b(1, 2), 0, false},
			{"put, mode switch ro->rw, reader", []int{S}, [][]step{{p(0), {"setmode-ro-rw", 0}}, {wt(0), gb(0), g(0)}}, 1, 3, b(1, 2), 0, true},
			{"put two, delete one, reader of the other", []int{S, S + 1}, [][]step{{p(0), p(1)}, {{"delete", 0}}, {wt(1), gb(1)}}, 1, 4, b(1, 2), b(0, 1), false},
		}
	}
	var scs []sched.Scenario
	for _, c := range mk() {
		scs = append(scs, scenario(c))
	}
	if r.Thorough() {
		// the deeper bounds come after the quick ones: the budget is shared per scenario and what the
		// cheap ones leave over rolls on to the deep ones
		q, freeBound = false, 2
		for _, c := range mk() {
			c.name += " [deep]"
			scs = append(scs, scenario(c))
		}
	}
	r.Rule("every schedule within the preemption bound x every set of failing blobstor writes within the fault bound of 11 closed scenarios on a real shard with write-cache, run to quiescence (quick: <=1 preemption, <=1 non-default forced switch; thorough: the same, then each scenario again with <=2 / <=2 as far as its share of the budget reaches); non-trivial = distinct (scenario, faults, reads, deletes) outcome classes")
	r.Assume("atomics are not scheduling points", "flush ticker/GC timer fire a bounded number of times", "bbolt transactions are atomic steps (metabase calls are scheduling points at entry)")
	sched.Main(r, scs, 0)
}
