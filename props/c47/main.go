// C47: container data is discarded only when the container is definitively gone or long unpaid.
//
// Complete product: processed epoch 0..10 x unpaid-since -1..12 x payments on/off x container-source
// answer {found, not found, not found (wrapped), transient error, transient error whose text says
// "not found"} x payment-check error yes/no, each through three real code paths:
//
//	shard   - Shard.setEpochEventHandler (pkg/local_object_storage/shard/gc.go), run synchronously
//	engine  - StorageEngine.Init -> deleteNotFoundContainers (engine/container.go)
//	policer - Policer.processObject container-missing branch (services/policer/check.go) over a real engine
//
// plus (shard path) every ordered pair of epoch events. Each case runs on a private copy of a
// pre-built real shard image holding container A (the one the inputs talk about) and a control
// container B (always present and paid). Oracle (from the property text): A's objects may become
// unreadable / be physically removed only if the source definitively says "absent", or payments are
// on, the payment check succeeded and 0 <= unpaid <= epoch and epoch-unpaid >= 3. B is never discarded.
package main

import (
	"context"
	"errors"
	"fmt"
	"os"
	"path/filepath"
	"strings"
	"sync/atomic"

	iec "github.com/nspcc-dev/neofs-node/internal/ec"
	objectcore "github.com/nspcc-dev/neofs-node/pkg/core/object"
	"github.com/nspcc-dev/neofs-node/pkg/local_object_storage/blobstor/fstree"
	"github.com/nspcc-dev/neofs-node/pkg/local_object_storage/engine"
	"github.com/nspcc-dev/neofs-node/pkg/local_object_storage/shard"
	"github.com/nspcc-dev/neofs-node/pkg/services/policer"
	"github.com/nspcc-dev/neofs-node/verif/lib/enumx"
	"github.com/nspcc-dev/neofs-node/verif/lib/ev"
	sw "github.com/nspcc-dev/neofs-node/verif/worlds/shardworld"
	"github.com/nspcc-dev/neofs-node/verif/worlds/shardworld/procpool"
	apistatus "github.com/nspcc-dev/neofs-sdk-go/client/status"
	"github.com/nspcc-dev/neofs-sdk-go/container"
	cid "github.com/nspcc-dev/neofs-sdk-go/container/id"
	"github.com/nspcc-dev/neofs-sdk-go/netmap"
	"github.com/nspcc-dev/neofs-sdk-go/object"
	oid "github.com/nspcc-dev/neofs-sdk-go/object/id"
	"go.uber.org/zap"
)

const (
	srcFound = iota
	srcNotFound
	srcNotFoundWrapped
	srcTransient
	srcTransientLookalike
	nSrc
)

var srcName = []string{"found", "not-found", "not-found-wrapped", "transient-error", "transient-error-text-says-not-found"}

func srcErr(s int) error {
	switch s {
	case srcNotFound:
		return apistatus.ErrContainerNotFound
	case srcNotFoundWrapped:
		return fmt.Errorf("get container by ID: %w", apistatus.ErrContainerNotFound)
	case srcTransient:
		return errors.New("FS chain RPC call: connection lost")
	case srcTransientLookalike:
		return errors.New("could not fetch container: container not found")
	}
	return nil
}

func srcAbsent(s int) bool { return s == srcNotFound || s == srcNotFoundWrapped }

type tcase struct {
	Path       string // shard | engine | policer | shard-history
	Epoch      int
	Epoch2     int // second event (shard-history only)
	Unpaid     int
	PaymentsOn bool
	Source     int
	PayErr     bool
}

// payAllowed: the property's "long unpaid" clause for one processed epoch.
func payAllowed(c tcase, epoch int) bool {
	return c.PaymentsOn && !c.PayErr && c.Unpaid >= 0 && c.Unpaid <= epoch && epoch-c.Unpaid >= 3
}

// allowed: may container A's data be discarded in this case at all?
func allowed(c tcase) bool {
	if srcAbsent(c.Source) {
		return true
	}
	if payAllowed(c, c.Epoch) {
		return true
	}
	return c.Path == "shard-history" && payAllowed(c, c.Epoch2)
}

// why classifies a forbidden discard (structural class for the fingerprint).
func why(c tcase, o outcome) string {
	if c.Path == "shard-history" && o.DiscardAt != 1 {
		c.Epoch = c.Epoch2 // the second event did it
	}
	switch {
	case !c.PaymentsOn && c.Source == srcFound:
		return "payments-disabled"
	case c.PayErr && c.Source == srcFound:
		return "payment-check-error"
	case c.Source == srcTransient || c.Source == srcTransientLookalike:
		if c.Path == "shard" || c.Path == "shard-history" {
			break
		}
		return "source-" + srcName[c.Source]
	}
	if c.Path == "engine" || c.Path == "policer" {
		return "source-" + srcName[c.Source]
	}
	switch {
	case !c.PaymentsOn:
		return "payments-disabled"
	case c.PayErr:
		return "payment-check-error"
	case c.Unpaid < 0:
		return "container-is-paid"
	case c.Unpaid > c.Epoch:
		return "unpaid-mark-newer-than-processed-epoch"
	default:
		return "unpaid-for-less-than-3-epochs"
	}
}

type source struct{ ans map[cid.ID]error }

func (s source) Get(id cid.ID) (container.Container, error) {
	return container.Container{}, s.ans[id]
}

// network is the policer's view of the network: container A answers per case, B is found with the
// local node as the only (and needed) holder.
type network struct{ ans map[cid.ID]error }

var localKey = []byte("verif-local-node-public-key-0123")

func (n network) IsLocalNodeInNetmap() bool          { return true }
func (n network) IsLocalNodePublicKey(k []byte) bool { return string(k) == string(localKey) }
func (n network) GetNodesForObject(a oid.Address) ([][]netmap.NodeInfo, []uint, []iec.Rule, error) {
	if err := n.ans[a.Container()]; err != nil {
		return nil, nil, nil, err
	}
	var ni netmap.NodeInfo
	ni.SetPublicKey(localKey)
	return [][]netmap.NodeInfo{{ni}}, []uint{1}, nil, nil
}

var (
	image   string // pre-built shard image (closed)
	scratch string
	caseSeq atomic.Int64
	objsA   = []string{"a1", "a2"}
	objsB   = []string{"b1"}
)

func buildImage(r *ev.Run) {
	image = filepath.Join(scratch, "image")
	w, err := sw.Open(sw.Config{Dir: image})
	if err != nil {
		r.Fatal("image: %v", err)
	}
	for _, l := range objsA {
		if err := w.Sh.Put(sw.NewObject(sw.ObjSpec{Cnr: "A", Label: l, Size: 40}), nil); err != nil {
			r.Fatal("image put: %v", err)
		}
	}
	for _, l := range objsB {
		if err := w.Sh.Put(sw.NewObject(sw.ObjSpec{Cnr: "B", Label: l, Size: 40}), nil); err != nil {
			r.Fatal("image put: %v", err)
		}
	}
	if err := w.Close(); err != nil {
		r.Fatal("image close: %v", err)
	}
}

type outcome struct {
	UnreadableA, UnreadableB int // objects not readable right after the action
	RemovedA, RemovedB       int // objects whose blob file is gone after GC passes
	PayCalls                 int
	DiscardAt                int    `json:",omitempty"` // shard-history: 1 if container A was already unreadable after the first event
	Err                      string `json:",omitempty"` // harness error
}

func (o outcome) discardedA() bool { return o.UnreadableA+o.RemovedA > 0 }
func (o outcome) discardedB() bool { return o.UnreadableB+o.RemovedB > 0 }

// observe inspects a live shard: readability first, then GC to quiescence and a look at the blob files.
func observe(sh *shard.Shard, fst *fstree.FSTree, o *outcome) error {
	for _, l := range objsA {
		if _, err := sh.Get(sw.Addr("A", l), false); err != nil {
			o.UnreadableA++
		}
	}
	for _, l := range objsB {
		if _, err := sh.Get(sw.Addr("B", l), false); err != nil {
			o.UnreadableB++
		}
	}
	for i := 0; i < 3; i++ {
		sh.VerifSWGCPass()
	}
	for _, l := range objsA {
		if ok, err := fst.Exists(sw.Addr("A", l)); err != nil {
			return err
		} else if !ok {
			o.RemovedA++
		}
	}
	for _, l := range objsB {
		if ok, err := fst.Exists(sw.Addr("B", l)); err != nil {
			return err
		} else if !ok {
			o.RemovedB++
		}
	}
	return nil
}

// live is one open world kept by a worker. With -tier quick it is reused for the next case as long
// as the previous case left the image pristine (every object readable, every blob file present);
// thorough builds a fresh one for every case.
type live struct {
	dir    string
	w      *sw.World             // shard paths
	e      *engine.StorageEngine // engine / policer paths
	sh     *shard.Shard
	fst    *fstree.FSTree
	pay    *sw.Payments
	ep     *sw.Epoch
	srcAns map[cid.ID]error // answers of the engine's container source
	inits  int              // StorageEngine.Init calls so far
}

var (
	reuse     bool
	liveShard *live
	liveEng   *live
	opens     int
)

func (l *live) destroy() error {
	var err error
	if l.w != nil {
		err = l.w.Close()
	}
	if l.e != nil {
		err = l.e.Close()
	}
	os.RemoveAll(l.dir)
	return err
}

func newLive(withEngine bool) (*live, error) {
	l := &live{dir: filepath.Join(scratch, fmt.Sprintf("case-%d", caseSeq.Add(1))), pay: &sw.Payments{}, ep: &sw.Epoch{}, srcAns: map[cid.ID]error{}}
	opens++
	if err := sw.CopyTree(image, l.dir); err != nil {
		return nil, err
	}
	cfg := sw.Config{Dir: l.dir, Payments: l.pay, Epoch: l.ep}
	if !withEngine {
		w, err := sw.Open(cfg)
		if err != nil {
			return nil, err
		}
		l.w, l.sh, l.fst = w, w.Sh, w.FST
		return l, nil
	}
	opts, _, fst, err := sw.ShardOptions(cfg)
	if err != nil {
		return nil, err
	}
	l.e = engine.New(engine.WithLogger(zap.NewNop()), engine.WithContainersSource(source{l.srcAns}))
	if _, err := l.e.AddShard(opts...); err != nil {
		return nil, fmt.Errorf("add shard: %w", err)
	}
	shs := l.e.VerifC47Shards()
	if len(shs) != 1 {
		return nil, fmt.Errorf("engine has %d shards", len(shs))
	}
	l.sh, l.fst = shs[0], fst
	return l, nil
}

func run(c tcase) (outcome, error) {
	var o outcome
	withEngine := c.Path == "engine" || c.Path == "policer"
	slot := &liveShard
	if withEngine {
		slot = &liveEng
	}
	if *slot == nil {
		l, err := newLive(withEngine)
		if err != nil {
			return o, err
		}
		*slot = l
	}
	l := *slot
	cA := sw.CID("A")
	l.pay.Disabled = !c.PaymentsOn
	l.pay.Unpaid = map[cid.ID]int64{cA: int64(c.Unpaid)}
	l.pay.Err = map[cid.ID]error{}
	l.pay.Calls = nil
	if c.PayErr {
		l.pay.Err[cA] = errors.New("FS chain RPC call: timeout")
	}
	l.ep.Set(uint64(c.Epoch))

	var err error
	switch c.Path {
	case "shard", "shard-history":
		l.w.HandleEpochEvent(uint64(c.Epoch))
		if c.Path == "shard-history" {
			if _, gerr := l.sh.Get(sw.Addr("A", objsA[0]), false); gerr != nil {
				o.DiscardAt = 1
			}
			l.w.HandleEpochEvent(uint64(c.Epoch2))
		}
		o.PayCalls = len(l.pay.Calls)
	case "engine":
		l.srcAns[cA] = srcErr(c.Source)
		err = l.e.Init() // start-up cleanup runs here
		l.inits++
	case "policer":
		if l.inits == 0 { // regular start-up with every container present
			l.srcAns[cA] = nil
			err = l.e.Init()
			l.inits++
		}
		if err == nil {
			p := policer.New(nil, policer.WithLogger(zap.NewNop()), policer.WithLocalStorage(l.e),
				policer.WithNetwork(network{map[cid.ID]error{cA: srcErr(c.Source)}}))
			ctx := context.Background()
			var lst []objectcore.AddressWithAttributes
			lst, _, err = l.e.ListWithCursor(ctx, 100, nil, iec.AttributeRuleIdx, iec.AttributePartIdx, object.FilterParentID)
			if err == nil && len(lst) != len(objsA)+len(objsB) {
				err = fmt.Errorf("engine lists %d objects", len(lst))
			}
			for _, a := range lst {
				p.VerifC47ProcessObject(ctx, a)
			}
		}
	default:
		err = fmt.Errorf("unknown path %q", c.Path)
	}
	if err == nil {
		// Look at what is left through the same shard object. Nothing below announces an epoch,
		// so the observation itself cannot trigger a payment-based discard.
		err = observe(l.sh, l.fst, &o)
	}
	if !reuse || err != nil || o.discardedA() || o.discardedB() {
		*slot = nil
		if derr := l.destroy(); err == nil && derr != nil {
			err = fmt.Errorf("close: %w", derr)
		}
	}
	return o, err
}

func main() {
	r := ev.Start("C47", ev.Exploration)
	scratch = procpool.Scratch("verif-c47-")
	finish := func() { os.RemoveAll(scratch); r.Finish() }
	reuse = r.Quick()
	buildImage(r)

	var discards, forbidden atomic.Int64
	perPath := map[string]*atomic.Int64{"shard": {}, "engine": {}, "policer": {}, "shard-history": {}}
	classes := map[string]*atomic.Int64{}
	for _, k := range []string{"kept", "unreadable", "unreadable+removed"} {
		classes[k] = &atomic.Int64{}
	}
	exec := func(c tcase) outcome {
		o, err := run(c)
		if err != nil {
			o.Err = err.Error()
		}
		return o
	}
	check := func(c tcase, o outcome) {
		r.Eval(1)
		if o.Err != "" {
			os.RemoveAll(scratch)
			r.Fatal("%+v: %v", c, o.Err)
		}
		cls := "kept"
		if o.discardedA() {
			cls = "unreadable"
			if o.RemovedA > 0 {
				cls = "unreadable+removed"
			}
			discards.Add(1)
			perPath[c.Path].Add(1)
		}
		classes[cls].Add(1)
		if o.discardedB() {
			r.Violation(strings.TrimSuffix(c.Path, "-history")+":control-container-discarded", fmt.Sprintf("%+v: container B (present and paid) lost data: %+v", c, o), c)
		}
		if o.discardedA() && !allowed(c) {
			forbidden.Add(1)
			r.Violation(strings.TrimSuffix(c.Path, "-history")+":discarded:"+why(c, o),
				fmt.Sprintf("%+v (source=%s): container A's objects were discarded (%+v) although the source did not report it absent and it is not unpaid for >=3 epochs counted from the processed epoch", c, srcName[c.Source], o), c)
		}
		// non-trivial: the inputs could plausibly lead to a discard decision (an unpaid mark exists, or the source did not answer "found")
		if c.Unpaid >= 0 || c.Source != srcFound {
			r.Nontrivial(fmt.Sprintf("%+v", c))
		}
		if (o.discardedA() || c.PayErr || c.Source >= srcTransient) && c.Epoch >= 3 && c.Unpaid >= 0 {
			r.Sample(map[string]any{"case": c, "source": srcName[c.Source], "discard_allowed_by_property": allowed(c), "outcome": o})
		}
	}
	supDepth := 4
	if r.Thorough() {
		supDepth = 5
	}
	if r.Replay != "" {
		var sr supReplay
		r.LoadReplay(&sr)
		if sr.Path == "supplier" {
			runSupplier(r, scratch, len(sr.Ops), sr.Ops)
			finish()
		}
		var c tcase
		r.LoadReplay(&c)
		check(c, exec(c))
		finish()
	}
	var cases []tcase
	for _, path := range []string{"shard", "engine", "policer"} {
		enumx.Product([]int{11, 14, 2, nSrc, 2}, func(ix []int) bool {
			cases = append(cases, tcase{Path: path, Epoch: ix[0], Unpaid: ix[1] - 1, PaymentsOn: ix[2] == 1, Source: ix[3], PayErr: ix[4] == 1})
			return true
		})
	}
	// histories: two epoch events in any order (delayed / repeated / going back), payments on
	enumx.Product([]int{11, 11, 14, 2}, func(ix []int) bool {
		cases = append(cases, tcase{Path: "shard-history", Epoch: ix[0], Epoch2: ix[1], Unpaid: ix[2] - 1, PaymentsOn: true, Source: srcFound, PayErr: ix[3] == 1})
		return true
	})
	// one job = one case on a private copy of the image, in a pool of worker processes
	pool := procpool.Start(exec)
	outs, _ := pool.Map(cases, nil)
	pool.Close()
	for i := range cases {
		check(cases[i], outs[i])
	}
	// supplier side (parent process only): real paymentChecker between a scripted chain and the real shard
	supComplete := runSupplier(r, scratch, supDepth, nil)

	for p, n := range perPath {
		r.Set("discards_via_"+p, n.Load())
		if n.Load() == 0 {
			r.Fatal("vacuous: no discard at all was observed through path %s", p)
		}
	}
	oc := 0
	for k, n := range classes {
		r.Set("outcome_"+k, n.Load())
		if n.Load() > 0 {
			oc++
		}
	}
	r.Set("outcome_classes", oc)
	r.Set("forbidden_discards", forbidden.Load())
	r.Rule("full product epoch 0..10 x unpaidSince -1..12 x payments on/off x 5 source answers x payment-check error y/n through each of shard epoch handler, engine start-up cleanup, policer container-missing branch (3 x 3080) + 3388 two-event histories through the shard handler; + supplier histories (see assumptions) to depth " + fmt.Sprint(supDepth) + " through cmd/neofs-node's real paymentChecker; every case on a private copy of a real shard image (container A under test, control container B); non-trivial = an unpaid mark exists or the source did not answer 'found'")
	r.Exhaustive(supComplete)
	r.Assume("supplier histories: every sequence (ending in an epoch event) up to the depth over {chain answers for the container: fails / paid / unpaid since 0 / unpaid since now / unpaid since now+1; direct UnpaidSince query as the PUT path does; ChangePaymentStatus event unpaid@now / paid; resetCache; basic income rate zero / unreadable / on; epoch+1; epoch+3}, each on the node's real paymentChecker built by initPaymentChecker, the chain scripted at (*morph client).TestInvoke, the real shard new-epoch handler; oracle = discard only if the last SUCCESSFUL information (read or event) says unpaid since e, e <= E, E-e >= 3, payments not disabled",
		"the payments stub returns (0, err) on a payment-check error like cmd/neofs-node's paymentChecker",
		"the container source / policer network are table-driven fakes plugged through the exported interfaces; 'definitively absent' = error chain contains apistatus.ContainerNotFound",
		"discard = an object of the container stops being readable via Shard.Get or its blob file disappears after 3 synchronous GC passes")
	finish()
}
