// C47: container data is discarded only when the container is definitively gone or long unpaid.
//
// Complete product: processed epoch 0..10 x unpaid-since -1..12 x payments on/off x container-source
// answer {found, not found, not found (wrapped), transient error, transient error whose text says
// "not found"} x payment-check error yes/no, each through three real code paths:
//
//	shard   - Shard.setEpochEventHandler (pkg/local_object_storage/shard/gc.go), run synchronously
//	engine  - StorageEngine.Init -> deleteNotFoundContainers (engine/container.go)
//	policer - Policer.processObject container-missing branch (services/policer/check.go) over a real engine
//
// plus (shard path) every ordered pair of epoch events. Each case runs on a private copy of a
// pre-built real shard image holding container A (the one the inputs talk about) and a control
// container B (always present and paid). Oracle (from the property text): A's objects may become
// unreadable / be physically removed only if the source definitively says "absent", or payments are
// on, the payment check succeeded and 0 <= unpaid <= epoch and epoch-unpaid >= 3. B is never discarded.
package main

import (
	"context"
	"errors"
	"fmt"
	"os"
	"path/filepath"
	"runtime/pprof"
	"sync/atomic"

	iec "github.com/nspcc-dev/neofs-node/internal/ec"
	"github.com/nspcc-dev/neofs-node/pkg/local_object_storage/blobstor/fstree"
	"github.com/nspcc-dev/neofs-node/pkg/local_object_storage/engine"
	"github.com/nspcc-dev/neofs-node/pkg/local_object_storage/shard"
	"github.com/nspcc-dev/neofs-node/pkg/services/policer"
	"github.com/nspcc-dev/neofs-node/verif/lib/enumx"
	"github.com/nspcc-dev/neofs-node/verif/lib/ev"
	sw "github.com/nspcc-dev/neofs-node/verif/worlds/shardworld"
	apistatus "github.com/nspcc-dev/neofs-sdk-go/client/status"
	"github.com/nspcc-dev/neofs-sdk-go/container"
	cid "github.com/nspcc-dev/neofs-sdk-go/container/id"
	"github.com/nspcc-dev/neofs-sdk-go/netmap"
	"github.com/nspcc-dev/neofs-sdk-go/object"
	oid "github.com/nspcc-dev/neofs-sdk-go/object/id"
	"go.uber.org/zap"
)

const (
	srcFound = iota
	srcNotFound
	srcNotFoundWrapped
	srcTransient
	srcTransientLookalike
	nSrc
)

var srcName = []string{"found", "not-found", "not-found-wrapped", "transient-error", "transient-error-text-says-not-found"}

func srcErr(s int) error {
	switch s {
	case srcNotFound:
		return apistatus.ErrContainerNotFound
	case srcNotFoundWrapped:
		return fmt.Errorf("get container by ID: %w", apistatus.ErrContainerNotFound)
	case srcTransient:
		return errors.New("FS chain RPC call: connection lost")
	case srcTransientLookalike:
		return errors.New("could not fetch container: container not found")
	}
	return nil
}

func srcAbsent(s int) bool { return s == srcNotFound || s == srcNotFoundWrapped }

type tcase struct {
	Path       string // shard | engine | policer | shard-history
	Epoch      int
	Epoch2     int // second event (shard-history only)
	Unpaid     int
	PaymentsOn bool
	Source     int
	PayErr     bool
}

// payAllowed: the property's "long unpaid" clause for one processed epoch.
func payAllowed(c tcase, epoch int) bool {
	return c.PaymentsOn && !c.PayErr && c.Unpaid >= 0 && c.Unpaid <= epoch && epoch-c.Unpaid >= 3
}

// allowed: may container A's data be discarded in this case at all?
func allowed(c tcase) bool {
	if srcAbsent(c.Source) {
		return true
	}
	if payAllowed(c, c.Epoch) {
		return true
	}
	return c.Path == "shard-history" && payAllowed(c, c.Epoch2)
}

// why classifies a forbidden discard (structural class for the fingerprint).
func why(c tcase) string {
	switch {
	case !c.PaymentsOn && c.Source == srcFound:
		return "payments-disabled"
	case c.PayErr && c.Source == srcFound:
		return "payment-check-error"
	case c.Source == srcTransient || c.Source == srcTransientLookalike:
		if c.Path == "shard" || c.Path == "shard-history" {
			break
		}
		return "source-" + srcName[c.Source]
	}
	if c.Path == "engine" || c.Path == "policer" {
		return "source-" + srcName[c.Source]
	}
	switch {
	case !c.PaymentsOn:
		return "payments-disabled"
	case c.PayErr:
		return "payment-check-error"
	case c.Unpaid < 0:
		return "container-is-paid"
	case c.Unpaid > c.Epoch || (c.Path == "shard-history" && c.Unpaid > c.Epoch2):
		return "unpaid-mark-newer-than-processed-epoch"
	default:
		return "unpaid-for-less-than-3-epochs"
	}
}

type source struct{ ans map[cid.ID]error }

func (s source) Get(id cid.ID) (container.Container, error) {
	return container.Container{}, s.ans[id]
}

// network is the policer's view of the network: container A answers per case, B is found with the
// local node as the only (and needed) holder.
type network struct{ ans map[cid.ID]error }

var localKey = []byte("verif-local-node-public-key-0123")

func (n network) IsLocalNodeInNetmap() bool           { return true }
func (n network) IsLocalNodePublicKey(k []byte) bool  { return string(k) == string(localKey) }
func (n network) GetNodesForObject(a oid.Address) ([][]netmap.NodeInfo, []uint, []iec.Rule, error) {
	if err := n.ans[a.Container()]; err != nil {
		return nil, nil, nil, err
	}
	var ni netmap.NodeInfo
	ni.SetPublicKey(localKey)
	return [][]netmap.NodeInfo{{ni}}, []uint{1}, nil, nil
}

var (
	image   string // pre-built shard image (closed)
	scratch string
	caseSeq atomic.Int64
	objsA   = []string{"a1", "a2"}
	objsB   = []string{"b1"}
)

func buildImage(r *ev.Run) {
	image = filepath.Join(scratch, "image")
	w, err := sw.Open(sw.Config{Dir: image})
	if err != nil {
		r.Fatal("image: %v", err)
	}
	for _, l := range objsA {
		if err := w.Sh.Put(sw.NewObject(sw.ObjSpec{Cnr: "A", Label: l, Size: 40}), nil); err != nil {
			r.Fatal("image put: %v", err)
		}
	}
	for _, l := range objsB {
		if err := w.Sh.Put(sw.NewObject(sw.ObjSpec{Cnr: "B", Label: l, Size: 40}), nil); err != nil {
			r.Fatal("image put: %v", err)
		}
	}
	if err := w.Close(); err != nil {
		r.Fatal("image close: %v", err)
	}
}

type outcome struct {
	UnreadableA, UnreadableB int // objects not readable right after the action
	RemovedA, RemovedB       int // objects whose blob file is gone after GC passes
	PayCalls                 int
}

func (o outcome) discardedA() bool { return o.UnreadableA+o.RemovedA > 0 }
func (o outcome) discardedB() bool { return o.UnreadableB+o.RemovedB > 0 }

// observe inspects a live shard: readability first, then GC to quiescence and a look at the blob files.
func observe(sh *shard.Shard, fst *fstree.FSTree, o *outcome) error {
	for _, l := range objsA {
		if _, err := sh.Get(sw.Addr("A", l), false); err != nil {
			o.UnreadableA++
		}
	}
	for _, l := range objsB {
		if _, err := sh.Get(sw.Addr("B", l), false); err != nil {
			o.UnreadableB++
		}
	}
	for i := 0; i < 3; i++ {
		sh.VerifGCPass()
	}
	for _, l := range objsA {
		if ok, err := fst.Exists(sw.Addr("A", l)); err != nil {
			return err
		} else if !ok {
			o.RemovedA++
		}
	}
	for _, l := range objsB {
		if ok, err := fst.Exists(sw.Addr("B", l)); err != nil {
			return err
		} else if !ok {
			o.RemovedB++
		}
	}
	return nil
}

func run(c tcase) (outcome, error) {
	var o outcome
	dir := filepath.Join(scratch, fmt.Sprintf("case-%d", caseSeq.Add(1)))
	defer os.RemoveAll(dir)
	if err := sw.CopyTree(image, dir); err != nil {
		return o, err
	}
	cA, cB := sw.CID("A"), sw.CID("B")
	pay := &sw.Payments{Disabled: !c.PaymentsOn, Unpaid: map[cid.ID]int64{cA: int64(c.Unpaid)}, Err: map[cid.ID]error{}}
	if c.PayErr {
		pay.Err[cA] = errors.New("FS chain RPC call: timeout")
	}
	ep := &sw.Epoch{}
	ep.Set(uint64(c.Epoch))
	cfg := sw.Config{Dir: dir, Payments: pay, Epoch: ep}
	ans := map[cid.ID]error{cA: srcErr(c.Source), cB: nil}

	switch c.Path {
	case "shard", "shard-history":
		w, err := sw.Open(cfg)
		if err != nil {
			return o, err
		}
		defer w.Close()
		w.HandleEpochEvent(uint64(c.Epoch))
		if c.Path == "shard-history" {
			w.HandleEpochEvent(uint64(c.Epoch2))
		}
		o.PayCalls = len(pay.Calls)
		return o, observe(w.Sh, w.FST, &o)
	case "engine", "policer":
		opts, _, fst, err := sw.ShardOptions(cfg)
		if err != nil {
			return o, err
		}
		var e *engine.StorageEngine
		if c.Path == "engine" {
			e = engine.New(engine.WithLogger(zap.NewNop()), engine.WithContainersSource(source{ans}))
		} else {
			e = engine.New(engine.WithLogger(zap.NewNop()))
		}
		if _, err := e.AddShard(opts...); err != nil {
			return o, fmt.Errorf("add shard: %w", err)
		}
		if err := e.Init(); err != nil { // start-up cleanup runs here
			_ = e.Close()
			return o, fmt.Errorf("engine init: %w", err)
		}
		if c.Path == "policer" {
			p := policer.New(nil, policer.WithLogger(zap.NewNop()), policer.WithLocalStorage(e), policer.WithNetwork(network{ans}))
			ctx := context.Background()
			lst, _, err := e.ListWithCursor(ctx, 100, nil, iec.AttributeRuleIdx, iec.AttributePartIdx, object.FilterParentID)
			if err != nil || len(lst) != len(objsA)+len(objsB) {
				_ = e.Close()
				return o, fmt.Errorf("engine list: %d objects, err %v", len(lst), err)
			}
			for _, a := range lst {
				p.VerifC47ProcessObject(ctx, a)
			}
		}
		// look at what is left through the engine's own shard object. Nothing below announces an
		// epoch, so the observation itself cannot trigger a payment-based discard.
		shs := e.VerifC47Shards()
		if len(shs) != 1 {
			_ = e.Close()
			return o, fmt.Errorf("engine has %d shards", len(shs))
		}
		err = observe(shs[0], fst, &o)
		if cerr := e.Close(); err == nil && cerr != nil {
			err = fmt.Errorf("engine close: %w", cerr)
		}
		return o, err
	}
	return o, fmt.Errorf("unknown path %q", c.Path)
}

func main() {
	r := ev.Start("C47", ev.Exploration)
	if pf := os.Getenv("C47_CPUPROFILE"); pf != "" {
		f, _ := os.Create(pf)
		pprof.StartCPUProfile(f)
		defer pprof.StopCPUProfile()
	}
	scratch = sw.NewDir("verif-c47-")
	defer os.RemoveAll(scratch)
	buildImage(r)

	var discards, forbidden atomic.Int64
	perPath := map[string]*atomic.Int64{"shard": {}, "engine": {}, "policer": {}, "shard-history": {}}
	classes := map[string]*atomic.Int64{}
	for _, k := range []string{"kept", "unreadable", "unreadable+removed"} {
		classes[k] = &atomic.Int64{}
	}
	check := func(c tcase) {
		r.Eval(1)
		o, err := run(c)
		if err != nil {
			r.Fatal("%+v: %v", c, err)
		}
		cls := "kept"
		if o.discardedA() {
			cls = "unreadable"
			if o.RemovedA > 0 {
				cls = "unreadable+removed"
			}
			discards.Add(1)
			perPath[c.Path].Add(1)
		}
		classes[cls].Add(1)
		if o.discardedB() {
			r.Violation(c.Path+":control-container-discarded", fmt.Sprintf("%+v: container B (present and paid) lost data: %+v", c, o), c)
		}
		if o.discardedA() && !allowed(c) {
			forbidden.Add(1)
			r.Violation(c.Path+":discarded:"+why(c),
				fmt.Sprintf("%+v (source=%s): container A's objects were discarded (%+v) although the source did not report it absent and it is not unpaid for >=3 epochs counted from the processed epoch", c, srcName[c.Source], o), c)
		}
		// non-trivial: the inputs could plausibly lead to a discard decision (an unpaid mark exists, or the source did not answer "found")
		if c.Unpaid >= 0 || c.Source != srcFound {
			r.Nontrivial(fmt.Sprintf("%+v", c))
		}
		if (o.discardedA() || c.PayErr || c.Source >= srcTransient) && c.Epoch >= 3 && c.Unpaid >= 0 {
			r.Sample(map[string]any{"case": c, "source": srcName[c.Source], "discard_allowed_by_property": allowed(c), "outcome": o})
		}
	}
	if r.Replay != "" {
		var c tcase
		r.LoadReplay(&c)
		check(c)
		r.Finish()
	}
	var cases []tcase
	for _, path := range []string{"shard", "engine", "policer"} {
		enumx.Product([]int{11, 14, 2, nSrc, 2}, func(ix []int) bool {
			cases = append(cases, tcase{Path: path, Epoch: ix[0], Unpaid: ix[1] - 1, PaymentsOn: ix[2] == 1, Source: ix[3], PayErr: ix[4] == 1})
			return true
		})
	}
	// histories: two epoch events in any order (delayed / repeated / going back), payments on
	enumx.Product([]int{11, 11, 14, 2}, func(ix []int) bool {
		cases = append(cases, tcase{Path: "shard-history", Epoch: ix[0], Epoch2: ix[1], Unpaid: ix[2] - 1, PaymentsOn: true, Source: srcFound, PayErr: ix[3] == 1})
		return true
	})
	enumx.Parallel(len(cases), func(i int) { check(cases[i]) })

	for p, n := range perPath {
		r.Set("discards_via_"+p, n.Load())
		if n.Load() == 0 {
			r.Fatal("vacuous: no discard at all was observed through path %s", p)
		}
	}
	oc := 0
	for k, n := range classes {
		r.Set("outcome_"+k, n.Load())
		if n.Load() > 0 {
			oc++
		}
	}
	r.Set("outcome_classes", oc)
	r.Set("forbidden_discards", forbidden.Load())
	r.Rule("full product epoch 0..10 x unpaidSince -1..12 x payments on/off x 5 source answers x payment-check error y/n through each of shard epoch handler, engine start-up cleanup, policer container-missing branch (3 x 3080) + 3388 two-event histories through the shard handler; every case on a private copy of a real shard image (container A under test, control container B); non-trivial = an unpaid mark exists or the source did not answer 'found'")
	r.Exhaustive(true)
	r.Assume("the payments stub returns (0, err) on a payment-check error like cmd/neofs-node's paymentChecker",
		"the container source / policer network are table-driven fakes plugged through the exported interfaces; 'definitively absent' = error chain contains apistatus.ContainerNotFound",
		"discard = an object of the container stops being readable via Shard.Get or its blob file disappears after 3 synchronous GC passes")
	pprof.StopCPUProfile()
	r.Finish()
}
