package main

// Supplier side of C47: the code that SUPPLIES the unpaid-since value (cmd/neofs-node's
// paymentChecker: cache, ChangePaymentStatus subscriber, resetCache) is part of the property.
// paymentChecker lives in package main of cmd/neofs-node, so the harness is a test file layered
// into that package by the overlay (inject/neofsnode/c47_supplier_verif_test.go); this file builds
// the package's test binary with the very overlay the check itself was built with (so a `replace`
// of container.go is honoured), runs it, and judges the facts it reports with a reference model
// written from the property text.

import (
	"bufio"
	"encoding/json"
	"fmt"
	"os"
	"os/exec"
	"path/filepath"
	"sort"
	"strconv"
	"strings"
	"time"

	"github.com/nspcc-dev/neofs-node/verif/lib/ev"
)

type supInfo struct {
	Kind string
	E    int64
}

type supStep struct {
	Op         string
	Epoch      uint64
	Rate       string
	Infos      []supInfo
	EpochEvent bool
	Discarded  bool
	DiscardedB bool
}

type supHistory struct {
	Steps []supStep
	// trailer
	Done      bool
	Complete  bool
	Histories int
	Worlds    int
}

type supReplay struct {
	Path string // "supplier"
	Ops  []string
}

const grace = 3

// judgeSupplier: reference model. The node's knowledge about container A is the LAST successful
// piece of information it obtained: a chain read that really returned a value, or a
// ChangePaymentStatus event (a cache reset forgets nothing the model would use: a correct node
// re-reads before acting, and the re-read is again a recorded piece of information). Failed reads
// are no information. Discarding at processed epoch E is allowed only if payments are not disabled
// and that knowledge is "unpaid since e" with e <= E and E-e >= 3.
func judgeSupplier(h supHistory) (fp, what string) {
	know := "none" // none | paid | unpaid
	var e int64
	errsSeen := 0
	var ops []string
	for _, st := range h.Steps {
		ops = append(ops, st.Op)
		for _, in := range st.Infos {
			switch in.Kind {
			case "read-error":
				errsSeen++
			case "read-paid", "event-paid":
				know = "paid"
			case "read-unpaid", "event-unpaid":
				know, e = "unpaid", in.E
			}
		}
		if st.DiscardedB {
			return "supplier:control-container-discarded", fmt.Sprintf("%v: the always-paid control container lost data at epoch %d", ops, st.Epoch)
		}
		if !st.Discarded {
			continue
		}
		E := int64(st.Epoch)
		why := ""
		switch {
		case st.Rate == "zero":
			why = "payments-disabled"
		case know == "none" && errsSeen > 0:
			why = "payment-status-never-read-successfully(only-errors)"
		case know == "none":
			why = "no-payment-information-at-all"
		case know == "paid":
			why = "last-successful-information-says-paid"
		case e > E:
			why = "unpaid-mark-newer-than-processed-epoch"
		case E-e < grace:
			why = "unpaid-for-less-than-3-epochs"
		}
		if why != "" {
			return "supplier:discarded:" + why, fmt.Sprintf("history %v: container A's data was discarded while epoch %d was processed; node's last successful payment information: %s (since %d), failed reads so far: %d, income rate answer: %s", ops, st.Epoch, know, e, errsSeen, st.Rate)
		}
	}
	return "", ""
}

// runSupplier builds and runs the harness; returns false if it could not run to completion.
func runSupplier(r *ev.Run, scratch string, depth int, only []string) (complete bool) {
	root := ev.Root()
	ov := filepath.Join(root, ".build", "c47", "overlay.json")
	if _, err := os.Stat(ov); err != nil {
		os.RemoveAll(scratch)
		r.Fatal("supplier harness: %v (run through /verif/check)", err)
	}
	bin := filepath.Join(scratch, "neofs-node-c47.test")
	env := append(os.Environ(), "GOFLAGS=-mod=mod", "GOPROXY=off")
	t0 := time.Now()
	build := exec.Command("go", "test", "-c", "-vet=off", "-tags", "verif", "-overlay", ov, "-o", bin, "github.com/nspcc-dev/neofs-node/cmd/neofs-node")
	build.Dir, build.Env = root, env
	if out, err := build.CombinedOutput(); err != nil {
		os.RemoveAll(scratch)
		fmt.Printf("%s\n", out)
		fmt.Println("BUILD-ERROR property=C47 (supplier harness: cmd/neofs-node test binary does not compile; this is not a violation verdict)")
		os.Exit(2)
	}
	r.Set("supplier_build_s", time.Since(t0).Seconds())
	outFile := filepath.Join(scratch, "supplier.jsonl")
	sdir := filepath.Join(scratch, "supplier")
	os.MkdirAll(sdir, 0o700)
	run := exec.Command(bin, "-test.run", "^TestVerifC47Supplier$", "-test.count=1")
	run.Dir = sdir
	run.Env = append(env, "C47_SUPPLIER_OUT="+outFile, "C47_SUPPLIER_DEPTH="+strconv.Itoa(depth), "C47_SUPPLIER_SCRATCH="+sdir,
		"C47_SUPPLIER_DEADLINE="+strconv.FormatInt(time.Now().Add(r.Budget-time.Since(t0)-10*time.Second).UnixNano(), 10))
	if only != nil {
		b, _ := json.Marshal(only)
		run.Env = append(run.Env, "C47_SUPPLIER_ONLY="+string(b))
	}
	if out, err := run.CombinedOutput(); err != nil {
		os.RemoveAll(scratch)
		r.Fatal("supplier harness failed: %v\n%s", err, out)
	}
	f, err := os.Open(outFile)
	if err != nil {
		os.RemoveAll(scratch)
		r.Fatal("supplier harness: %v", err)
	}
	defer f.Close()
	sc := bufio.NewScanner(f)
	sc.Buffer(make([]byte, 1<<20), 1<<24)
	done := false
	n, discards, errHist, allowedDiscards := 0, 0, 0, 0
	var all []supHistory
	for sc.Scan() {
		var h supHistory
		if err := json.Unmarshal(sc.Bytes(), &h); err != nil {
			os.RemoveAll(scratch)
			r.Fatal("supplier harness output: %v", err)
		}
		if h.Done {
			done, complete = true, h.Complete
			r.Set("supplier_histories", h.Histories)
			r.Set("supplier_shards_opened", h.Worlds)
			continue
		}
		all = append(all, h)
	}
	// shortest histories first, so that the reported counterexample is a minimal one
	sort.SliceStable(all, func(i, j int) bool { return len(all[i].Steps) < len(all[j].Steps) })
	for _, h := range all {
		n++
		r.Eval(1)
		var ops []string
		hasErr, disc := false, false
		for _, st := range h.Steps {
			ops = append(ops, st.Op)
			disc = disc || st.Discarded
			for _, in := range st.Infos {
				hasErr = hasErr || in.Kind == "read-error"
			}
		}
		if hasErr {
			errHist++
		}
		if disc {
			discards++
		}
		if fp, what := judgeSupplier(h); fp != "" {
			r.Violation(fp, what, supReplay{Path: "supplier", Ops: ops})
		} else if disc {
			allowedDiscards++
		}
		// non-trivial: the chain was really asked at least once or an event arrived
		for _, st := range h.Steps {
			if len(st.Infos) > 0 {
				r.Nontrivial("supplier:" + strings.Join(ops, ","))
				break
			}
		}
		if hasErr && disc {
			r.Sample(map[string]any{"path": "supplier", "history": h.Steps})
		}
	}
	if !done {
		os.RemoveAll(scratch)
		r.Fatal("supplier harness output is truncated")
	}
	if only == nil {
		r.Set("supplier_histories_with_a_failed_read", errHist)
		r.Set("supplier_histories_with_a_discard", discards)
		r.Set("supplier_discards_allowed_by_the_model", allowedDiscards)
		if allowedDiscards == 0 || errHist == 0 {
			os.RemoveAll(scratch)
			r.Fatal("vacuous supplier exploration: %d allowed discards, %d histories with a failed read", allowedDiscards, errHist)
		}
	}
	return complete
}
