// C29: every object RPC verifies the request signatures, validates its tokens and applies the access
// checks before it reads, writes or forwards any object data; a failing request gets an error
// status, causes no storage or network effect, and no object byte is sent before the extended ACL
// has been evaluated against the object's header.
//
// Enumeration (enumx): every method of protoobject.ObjectServiceServer obtained by reflection
// (Replicate has its own authentication scheme: C31) x request shape x fault alphabet x TTL {1,2}
// x local node inside/outside the container x (for the object-header eACL fault) whether the ACL
// checker can read the header from the local storage in advance. The server is the real
// objectsvc.Server over the real ACL services (aclsvc v2 + acl.Checker + SDK eACL validator), the
// real get/put/delete services and a real storage engine; every engine method entry and every
// attempt to reach another node is recorded.
//
// For each faulty request a twin without the fault is run in the same world: the twin must succeed
// or at least reach storage/network (otherwise the case is vacuous), and the faulty request must be
// refused for the intended reason (otherwise the harness is wrong: exit 2, not a verdict).
package main

import (
	"context"
	"fmt"
	"sort"
	"strings"
	"sync"

	"github.com/nspcc-dev/neofs-node/verif/lib/enumx"
	"github.com/nspcc-dev/neofs-node/verif/lib/ev"
	sw "github.com/nspcc-dev/neofs-node/verif/worlds/svcworld"
	oid "github.com/nspcc-dev/neofs-sdk-go/object/id"
	"github.com/nspcc-dev/neofs-sdk-go/session"
	grpcstatus "google.golang.org/grpc/status"
)

// Status codes of the NeoFS API used as "intended reason" guards.
const (
	codeSignature    = 1026
	codeAccessDenied = 2048
	codeTokenExpired = 4097
	codeIncompleteOK = 1 // INCOMPLETE success status (part of the container nodes unreachable)
	futureEpoch      = sw.Epoch + 5
	pastEpoch        = sw.Epoch - 1
)

var notClientOps = map[string]bool{"Replicate": true}

var faults = []string{
	"unsigned-with-ttl-2-from-mtls-peer",
	"unsigned", "wrong-key", "body-changed-after-signing", "meta-changed-after-signing",
	"session-expired", "session-tampered", "session-other-container", "session-other-verb",
	"bearer-expired", "bearer-tampered", "bearer-not-from-container-owner", "bearer-for-another-user",
	"basic-acl-denied", "eacl-denied-on-request-header", "eacl-denied-on-object-header",
}

func isSignatureFault(f string) bool {
	switch f {
	case "unsigned", "wrong-key", "body-changed-after-signing", "meta-changed-after-signing":
		return true
	}
	return false
}

type tcase struct {
	Method  string
	Shape   string // Get: ""|payload-only|range; Put: "init"|"chunk" (the message that carries the fault)
	Fault   string
	TTL     uint32
	LocalIn bool
	// ACLBlind: the ACL checker cannot read headers from the local storage, so an object-header rule
	// can only be evaluated once the handler produced the header.
	ACLBlind bool
	// RemoteHolds: the local node is a container node but the objects are held by the two other
	// container nodes (reachable fake nodes), so object data and headers come over the network.
	RemoteHolds bool
	// Auth: "" = signed request; "mtls" = NO verification header, TTL 1, gRPC peer authenticated by
	// mutual TLS (the other authentication path the server accepts)
	Auth string
	// thorough tier only
	Scheme string // request signature scheme: "" (ECDSA_SHA512) | rfc6979 | walletconnect
	Raw    bool   // raw flag of Get/Head/GetRange
}

func (c tcase) op() string {
	if c.Shape != "" {
		return c.Method + "[" + c.Shape + "]"
	}
	return c.Method
}

func (c tcase) String() string {
	s := fmt.Sprintf("%s fault=%s ttl=%d localInContainer=%v", c.op(), c.Fault, c.TTL, c.LocalIn)
	if c.ACLBlind {
		s += " aclCannotReadLocalHeaders"
	}
	if c.RemoteHolds {
		s += " objectsHeldByOtherContainerNodes"
	}
	if c.Auth != "" {
		s += " auth=unsigned-from-mtls-peer"
	}
	if c.Scheme != "" {
		s += " scheme=" + c.Scheme
	}
	if c.Raw {
		s += " raw"
	}
	return s
}

// setup returns the world configuration, the request parameters and the post-signing mutation of
// the faulty request (twin=false) or of its fault-free twin (twin=true).
func setup(c tcase, twin bool) (cfg sw.Config, p sw.Params, post func(w *sw.World, reqs []any) error, applicable bool) {
	cfg = sw.Config{BasicACL: sw.AllowAllACL(), LocalInContainer: c.LocalIn, ACLSeesLocalHeaders: !c.ACLBlind, RemoteHolds: c.RemoteHolds}
	if c.RemoteHolds && (!c.LocalIn || c.TTL != 2 || c.ACLBlind) {
		return cfg, p, nil, false
	}
	p = sw.Params{Signer: sw.Owner, TTL: c.TTL, Raw: c.Raw}
	if c.Method == "Get" {
		p.Shape = c.Shape
	}
	applicable = true
	cnr := sw.CID("A")
	// the message of the stream that carries the fault
	victim := func(reqs []any) any {
		if c.Method == "Put" && c.Shape == "chunk" {
			return reqs[1]
		}
		return reqs[0]
	}
	if c.Method == "Put" && c.Shape == "chunk" && !isSignatureFault(c.Fault) {
		return cfg, p, nil, false // tokens and ACL are evaluated on the init message only
	}
	if c.Auth == "mtls" {
		switch c.Fault {
		case "unsigned-with-ttl-2-from-mtls-peer", "basic-acl-denied", "eacl-denied-on-request-header", "eacl-denied-on-object-header":
		default:
			return cfg, p, nil, false // signature and token faults belong to the signed path
		}
		if c.TTL != 1 && c.Fault != "unsigned-with-ttl-2-from-mtls-peer" || c.ACLBlind || c.RemoteHolds {
			return cfg, p, nil, false
		}
	}
	switch c.Fault {
	case "unsigned-with-ttl-2-from-mtls-peer":
		// an unsigned request is acceptable from an authenticated peer with TTL 1 only
		if c.Auth != "mtls" || c.TTL != 2 || c.ACLBlind || c.RemoteHolds {
			return cfg, p, nil, false
		}
		p.Signer = sw.RemoteA
		if twin {
			p.TTL = 1
		}
	case "unsigned":
		if !twin {
			post = func(_ *sw.World, reqs []any) error { sw.Unsign(victim(reqs)); return nil }
		}
	case "wrong-key":
		if !twin {
			post = func(_ *sw.World, reqs []any) error {
				v := victim(reqs)
				sw.Unsign(v)
				if err := sw.SignAllScheme([]any{v}, sw.Stranger, c.Scheme); err != nil {
					return err
				}
				sw.ClaimKey(v, sw.Pub(sw.Owner))
				return nil
			}
		}
	case "body-changed-after-signing":
		if !twin {
			post = func(_ *sw.World, reqs []any) error { return sw.CorruptBody(victim(reqs)) }
		}
	case "meta-changed-after-signing":
		if !twin {
			post = func(_ *sw.World, reqs []any) error { sw.CorruptMeta(victim(reqs)); return nil }
		}
	case "session-expired", "session-tampered", "session-other-container", "session-other-verb":
		verb := sw.VerbOf(c.Method)
		if verb == 0 {
			return cfg, p, nil, false
		}
		p.Signer = sw.SessionKey
		tokCnr, exp := cnr, uint64(futureEpoch)
		if !twin {
			switch c.Fault {
			case "session-expired":
				exp = pastEpoch
			case "session-other-container":
				tokCnr = sw.CID("B")
			case "session-other-verb":
				if verb == session.VerbObjectPut {
					verb = session.VerbObjectGet
				} else {
					verb = session.VerbObjectPut
				}
			}
		}
		p.SessionV1 = sw.SessionV1(tokCnr, verb, exp)
		if !twin && c.Fault == "session-tampered" {
			p.SessionV1.Body.Lifetime.Exp += 100 // issuer's signature no longer covers the body
		}
	case "bearer-expired", "bearer-tampered", "bearer-not-from-container-owner", "bearer-for-another-user":
		// others are denied everything by the container's eACL; a valid bearer token of the owner lifts it
		cfg.EACL = sw.DenyOthersTable(cnr)
		p.Signer = sw.Stranger
		issuer, forUser, exp := sw.Owner, sw.Stranger, uint64(futureEpoch)
		if !twin {
			switch c.Fault {
			case "bearer-expired":
				exp = pastEpoch
			case "bearer-not-from-container-owner":
				issuer = sw.Stranger
			case "bearer-for-another-user":
				forUser = sw.RemoteB
			}
		}
		p.Bearer = sw.Bearer(cnr, issuer, forUser, exp)
		if !twin && c.Fault == "bearer-tampered" {
			p.Bearer.Body.Lifetime.Exp += 100
		}
	case "basic-acl-denied":
		p.Signer = sw.Stranger
		if !twin {
			cfg.BasicACL = sw.OwnerOnlyACL()
		}
	case "eacl-denied-on-request-header":
		p.Signer = sw.Stranger
		cfg.EACL = sw.DenyOthersTable(cnr, sw.RequestHeaderFilter())
		if !twin {
			p.XHeaders = [][2]string{{sw.DenyXHeaderKey, sw.DenyXHeaderVal}}
		} else {
			p.XHeaders = [][2]string{{sw.DenyXHeaderKey, "0"}}
		}
	case "eacl-denied-on-object-header":
		p.Signer = sw.Stranger
		switch c.Method {
		case "Get", "Head", "Put":
			// rule on a user attribute of the object (stored header for Get/Head, request header for Put)
			cfg.EACL = sw.DenyOthersTable(cnr, sw.ObjectAttrFilter())
			if c.Method != "Put" && !c.LocalIn {
				// the stored header is on another node and there is no network in this world: the
				// rule can never be evaluated here
				return cfg, p, nil, false
			}
			if twin {
				p.PutAttr = "public"
				p.Target = idOfR2
			}
		case "GetRange", "Delete":
			// NeoFS API: for Range/RangeHash/Search/Delete only $Object:objectID and $Object:containerID
			// (taken from the requested address) are available as object headers
			cfg.EACL = sw.DenyOthersTable(cnr, sw.ObjectIDFilter(idOfR1))
			if twin {
				p.Target = idOfR2
			}
		default:
			return cfg, p, nil, false
		}
	default:
		panic("unknown fault " + c.Fault)
	}
	if c.ACLBlind && (c.Fault != "eacl-denied-on-object-header" || !c.LocalIn) {
		applicable = false
	}
	return
}

var idOfR1, idOfR2 oid.ID

type outcome struct {
	Status   string // OK | status:<code> | grpc:<code> | panic | no-response
	Code     uint32
	Detail   string
	Effects  []string
	TreeDiff []string
	BodySize int
	NMsg     int
	ErrDelta uint32 // growth of the shard error counters during the call
	Trace    []string
}

func run(c tcase, twin bool) (outcome, bool, error) {
	cfg, p, post, ok := setup(c, twin)
	if !ok {
		return outcome{}, false, nil
	}
	w, err := sw.New(cfg)
	if err != nil {
		return outcome{}, true, err
	}
	defer w.Close()
	reqs, err := w.BuildRequests(c.Method, p)
	if err != nil {
		return outcome{}, true, err
	}
	ctx := context.Background()
	if c.Auth == "mtls" {
		ctx = sw.PeerContext(p.Signer) // the requester is the authenticated peer, nothing is signed
	} else if err := sw.SignAllScheme(reqs, p.Signer, c.Scheme); err != nil {
		return outcome{}, true, err
	}
	if post != nil {
		if err := post(w, reqs); err != nil {
			return outcome{}, true, err
		}
	}
	before, err := sw.SnapTree(w.Dir)
	if err != nil {
		return outcome{}, true, err
	}
	errsBefore, _ := w.ShardState()
	w.Rec.Reset()
	res, herr := sw.InvokeCtx(ctx, w.Srv, sw.ObjectServiceIface, c.Method, reqs)
	if herr != nil {
		return outcome{}, true, herr
	}
	var o outcome
	switch {
	case res.Panic != nil:
		o.Status, o.Detail = "panic", fmt.Sprint(res.Panic)
	case res.Err != nil:
		o.Status, o.Detail = "grpc:"+grpcstatus.Code(res.Err).String(), res.Err.Error()
	case len(res.Messages) == 0:
		o.Status = "no-response"
	default:
		code, msg, _ := sw.StatusOf(res.Messages[len(res.Messages)-1])
		o.Code, o.Detail = code, msg
		if code == 0 {
			o.Status = "OK"
		} else {
			o.Status = fmt.Sprintf("status:%d", code)
		}
	}
	o.NMsg = len(res.Messages)
	for _, m := range res.Messages {
		o.BodySize += sw.BodySize(m)
	}
	o.Effects = w.Effects()
	o.Trace = w.Rec.Of("handler-open", "handler", "storage", "net", "remote")
	errsAfter, _ := w.ShardState()
	o.ErrDelta = errsAfter - errsBefore
	after, err := sw.SnapTree(w.Dir)
	if err != nil {
		return outcome{}, true, err
	}
	o.TreeDiff = sw.DiffTree(before, after)
	return o, true, nil
}

// intendedReason says whether a refusal status is the one the injected fault is meant to provoke.
func intendedReason(c tcase, o outcome) bool {
	msg := o.Detail
	switch {
	case isSignatureFault(c.Fault) || c.Fault == "unsigned-with-ttl-2-from-mtls-peer":
		return o.Code == codeSignature
	case c.Fault == "session-expired":
		return o.Code == codeTokenExpired
	case strings.HasPrefix(c.Fault, "session-"):
		// "session token verb is invalid" is carried in the status details of an ACCESS_DENIED status
		return o.Code != 0 && (strings.Contains(msg, "session") || strings.Contains(msg, "token") ||
			c.Fault == "session-other-verb" && o.Code == codeAccessDenied)
	case strings.HasPrefix(c.Fault, "bearer-"):
		return o.Code == codeAccessDenied && strings.Contains(msg, "bearer")
	case c.Fault == "basic-acl-denied":
		return o.Code == codeAccessDenied && strings.Contains(msg, "basic ACL")
	case strings.HasPrefix(c.Fault, "eacl-"):
		return o.Code == codeAccessDenied && strings.Contains(msg, "extended ACL")
	}
	return false
}

func effectClasses(eff []string) string {
	m := map[string]bool{}
	for _, e := range eff {
		if i := strings.IndexByte(e, '('); i > 0 {
			e = e[:i]
		}
		m[e] = true
	}
	var r []string
	for k := range m {
		r = append(r, k)
	}
	sort.Strings(r)
	return strings.Join(r, ",")
}

// forbidden returns the recorded effects that the faulty request must not have caused.
func forbidden(c tcase, eff []string) []string {
	var bad []string
	for _, e := range eff {
		name := strings.TrimPrefix(e, "storage:")
		switch {
		case c.Method == "Put" && c.Shape == "chunk":
			// the init message passed every check, what it legitimately did is not charged to the bad
			// chunk; the object must not be stored or sent anywhere
			if strings.HasPrefix(e, "net:") || e == "storage:Put" {
				bad = append(bad, e)
			}
		case c.Fault == "eacl-denied-on-object-header" && (c.ACLBlind || c.RemoteHolds && (c.Method == "Get" || c.Method == "Head")):
			// the header has to be obtained by the handler to evaluate the rule: reads are inherent.
			// What matters is (checked separately) that nothing is written and no object byte is sent.
			if strings.HasPrefix(e, "net:") && !c.RemoteHolds || name == "Put" || name == "Delete" || name == "Drop" || name == "InhumeContainer" {
				bad = append(bad, e)
			}
		case c.Fault == "eacl-denied-on-object-header" && strings.HasPrefix(e, "storage:") && sw.HeaderReads[name]:
			// reading the header from the local storage IS the evaluation of the rule
		default:
			bad = append(bad, e)
		}
	}
	return bad
}

func main() {
	r := ev.Start("C29", ev.Exploration)
	fatal := func(format string, a ...any) {
		sw.Cleanup()
		r.Fatal(format, a...)
	}
	idOfR1 = sw.NewObject(sw.CID("A"), sw.SecretAttr, sw.SecretVal, sw.R1Payload).GetID()
	{
		w, err := sw.New(sw.Config{BasicACL: sw.AllowAllACL(), LocalInContainer: true, ACLSeesLocalHeaders: true})
		if err != nil {
			fatal("%v", err)
		}
		if w.R1.GetID() != idOfR1 {
			fatal("object IDs are not deterministic")
		}
		idOfR2 = w.R2.GetID()
		w.Close()
	}

	var mu sync.Mutex
	classes := map[string]int{}
	perOpFault := map[string]int{} // op|fault -> non-trivial cases
	removed := map[string]bool{}
	vacuous := map[string]string{}
	otherReason := map[string]string{}
	mtlsNontrivial := map[string]int{}
	notApplicable := map[string]bool{}

	check := func(c tcase) {
		got, applicable, err := run(c, false)
		if err != nil {
			fatal("%s: %v", c, err)
		}
		if !applicable {
			mu.Lock()
			notApplicable[c.op()+" x "+c.Fault] = true
			mu.Unlock()
			return
		}
		r.Eval(1)
		twin, _, err := run(c, true)
		if err != nil {
			fatal("%s (twin): %v", c, err)
		}
		desc := fmt.Sprintf("%s -> status=%s %q messages=%d bodyBytes=%d effects=%v shardErrorCounter+=%d treeDiff=%v; twin without the fault -> status=%s %q effects=%s",
			c, got.Status, got.Detail, got.NMsg, got.BodySize, got.Effects, got.ErrDelta, got.TreeDiff, twin.Status, twin.Detail, effectClasses(twin.Effects))
		key := c.op() + ":" + c.Fault
		if c.Auth != "" {
			key += ":unsigned-ttl1-mtls-peer"
		}
		if r.Replay != "" {
			fmt.Println(desc)
			fmt.Println("  trace of the faulty request:", got.Trace)
			fmt.Println("  trace of the twin request:  ", twin.Trace)
		}
		isRemoved := twin.Status == "grpc:Unimplemented" && len(twin.Effects) == 0 && got.Status == "grpc:Unimplemented"
		bad := forbidden(c, got.Effects)
		// One defect class of its own: the eACL denial raised from the header callback of a LOCAL read
		// (possible only when the rule could not be evaluated in advance) is not propagated.
		swallowed := c.ACLBlind && c.Fault == "eacl-denied-on-object-header" && c.Method == "Get" &&
			strings.HasPrefix(got.Status, "status:") && got.Code != codeAccessDenied && twin.Status == "OK"
		switch {
		case got.Status == "panic":
			r.Violation("handler-panic:"+key, desc, c)
		case swallowed:
			r.Violation("eacl-denial-from-local-header-callback-not-propagated-by-engine",
				desc+" — expected ACCESS_DENIED right after the header was evaluated; the denial returned by the header interception callback is treated by StorageEngine.get as a shard failure (error counter, next shard/node)", c)
			mu.Lock()
			classes[fmt.Sprintf("%s -> %s (denial swallowed)", c.Fault, got.Status)]++
			mu.Unlock()
			return
		case got.ErrDelta > 0:
			r.Violation("shard-error-counter-increased-by-refused-request:"+key, desc, c)
		case len(bad) > 0:
			kind := "storage"
			j := strings.Join(bad, " ")
			if strings.Contains(j, "net:") {
				kind = "network"
				if strings.Contains(j, "storage:") {
					kind = "storage+network"
				}
			}
			r.Violation(fmt.Sprintf("effect-before-failure-status:%s:%s", key, kind), desc+fmt.Sprintf(" forbidden=%v", bad), c)
		case len(got.TreeDiff) > 0:
			r.Violation("storage-changed-by-refused-request:"+key, desc, c)
		case got.Status == "OK" || got.Code == codeIncompleteOK && got.Status != "grpc:Unimplemented" && !strings.HasPrefix(got.Status, "grpc:"):
			r.Violation("failing-request-not-refused:"+key, desc, c)
		case got.BodySize > 0:
			r.Violation("object-data-in-refused-response:"+key, desc, c)
		}
		mu.Lock()
		classes[fmt.Sprintf("%s -> %s", c.Fault, got.Status)]++
		mu.Unlock()
		if isRemoved {
			mu.Lock()
			removed[c.Method] = true
			mu.Unlock()
			return
		}
		// vacuity guards
		twinEffective := twin.Status == "OK" || twin.Code == codeIncompleteOK || len(twin.Effects) > 0
		twinOKish := twin.Status == "OK" || twin.Code == codeIncompleteOK
		if c.LocalIn && !twinOKish {
			fatal("%s: the twin request without the fault is not served (node in container): %s %q — the harness request is not valid", c, twin.Status, twin.Detail)
		}
		if !twinEffective {
			mu.Lock()
			vacuous[c.String()] = twin.Status + " " + twin.Detail
			mu.Unlock()
			return
		}
		if strings.HasPrefix(got.Status, "status:") && !intendedReason(c, got) {
			// refused, but not by the check the fault aims at: not counted as covering the pair
			mu.Lock()
			otherReason[c.String()] = got.Status + " " + got.Detail
			mu.Unlock()
			return
		}
		mu.Lock()
		perOpFault[c.op()+" x "+c.Fault]++
		if c.Auth != "" {
			mtlsNontrivial[c.op()+" x "+c.Fault]++
		}
		mu.Unlock()
		r.Nontrivial(c.String())
		if c.Fault == "eacl-denied-on-object-header" || c.TTL == 2 && c.LocalIn {
			r.Sample(map[string]any{"case": c.String(), "status": got.Status, "message": got.Detail, "effects": effectClasses(got.Effects),
				"twin_status": twin.Status, "twin_effects": effectClasses(twin.Effects)})
		}
	}

	if r.Replay != "" {
		var c tcase
		r.LoadReplay(&c)
		fmt.Println("replaying", c)
		check(c)
		sw.Cleanup()
		r.Finish()
	}

	methods := sw.Methods(sw.ObjectServiceIface)
	var cases []tcase
	var ops []string
	for _, m := range methods {
		if notClientOps[m] {
			continue
		}
		shapes := []string{""}
		switch m {
		case "Get":
			shapes = []string{"", "payload-only", "range"}
		case "Put":
			shapes = []string{"init", "chunk"}
		}
		for _, sh := range shapes {
			ops = append(ops, tcase{Method: m, Shape: sh}.op())
			for _, f := range faults {
				for _, ttl := range []uint32{1, 2} {
					for _, in := range []bool{true, false} {
						for _, blind := range []bool{false, true} {
							cases = append(cases, tcase{Method: m, Shape: sh, Fault: f, TTL: ttl, LocalIn: in, ACLBlind: blind})
						}
						cases = append(cases, tcase{Method: m, Shape: sh, Fault: f, TTL: ttl, LocalIn: in, RemoteHolds: true})
						cases = append(cases, tcase{Method: m, Shape: sh, Fault: f, TTL: ttl, LocalIn: in, Auth: "mtls"})
						if r.Thorough() {
							for _, scheme := range []string{"", "rfc6979", "walletconnect"} {
								for _, raw := range []bool{false, true} {
									if scheme == "" && !raw || raw && m != "Get" && m != "Head" && m != "GetRange" {
										continue
									}
									for _, remote := range []bool{false, true} {
										cases = append(cases, tcase{Method: m, Shape: sh, Fault: f, TTL: ttl, LocalIn: in, RemoteHolds: remote, Scheme: scheme, Raw: raw})
									}
								}
							}
						}
					}
				}
			}
		}
	}
	enumx.Parallel(len(cases), func(i int) { check(cases[i]) })

	// every (operation, fault) pair must have been exercised non-vacuously, be not applicable by
	// construction, or belong to a removed RPC
	var missing []string
	for _, op := range ops {
		m := op
		if i := strings.IndexByte(op, '['); i > 0 {
			m = op[:i]
		}
		if removed[m] {
			continue
		}
		for _, f := range faults {
			k := op + " x " + f
			if perOpFault[k] == 0 && !notApplicable[k] {
				missing = append(missing, k)
			}
		}
	}
	if len(missing) > 0 && r.Violations() == 0 {
		fatal("no case refused for the intended reason (with an effective twin) for: %v (new RPC needs a request builder / fault mapping in props/c29 and worlds/svcworld?)", missing)
	}

	var rm, na []string
	for m := range removed {
		rm = append(rm, m)
	}
	for k := range notApplicable {
		op := strings.SplitN(k, " x ", 2)[0]
		if i := strings.IndexByte(op, '['); i > 0 {
			op = op[:i]
		}
		if perOpFault[k] == 0 && !removed[op] {
			na = append(na, k)
		}
	}
	sort.Strings(rm)
	sort.Strings(na)
	r.Set("methods_by_reflection", methods)
	r.Set("operations", ops)
	r.Set("faults", faults)
	r.Set("removed_rpcs_unimplemented", rm)
	r.Set("not_applicable_pairs", na)
	r.Set("outcome_classes", len(classes))
	r.Set("outcome_class_counts", classes)
	r.Set("nontrivial_cases_per_operation_and_fault", perOpFault)
	r.Set("nontrivial_cases_on_the_unsigned_mtls_path", mtlsNontrivial)
	r.Set("cases_whose_twin_has_no_effect", vacuous)
	r.Set("cases_refused_for_another_reason_than_the_injected_fault", otherReason)
	r.Rule("every exported method of protoobject.ObjectServiceServer (reflection) except Replicate x request shape x 15 faults x TTL {1,2} x local node {inside,outside} x authentication path {signed; for the ACL faults also NO verification header + TTL 1 + mutually authenticated gRPC peer} x (object-header eACL fault only) ACL checker {can, cannot} read local headers; non-trivial = the fault-free twin request in the same world is served or reaches storage/network AND the faulty request is refused for the intended reason; distinct = distinct case tuple")
	r.Assume("effects are observed at the engine method entries (overlay hook, pure recorder), at the client-constructor / replication transport (network) and as byte-level changes of the engine directory",
		"FS chain reads (container, eACL table, netmap) are part of the checks and are not effects",
		"opening the internal put streamer (Handlers.Put(ctx)) before the first message is verified is an allocation only (putsvc.Service.Put returns a struct) and is not counted as an effect",
		"for the object-header eACL fault, reading the header (engine Head/ReadHeader) is the evaluation itself; when the ACL checker cannot read local headers the handler has to read the object to obtain the header, then only writes, network and object bytes in the response are forbidden",
		"for Range/Delete the object-header rule uses $Object:objectID (NeoFS API: only address-derived object headers exist for these operations)",
		"a bad chunk message of a Put stream is not charged with what its valid init message did; the object must not be stored or sent",
		"V2 session tokens, N3 witness signatures and trusted-peer unsigned TTL=1 requests are outside the alphabet",
		"static dominance of checks over effects in the program text is not decided; what is decided is the dynamic product above over the actual method set")
	r.Exhaustive(true)
	sw.Cleanup()
	r.Finish()
}
