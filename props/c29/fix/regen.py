#!/usr/bin/env python3
# Regenerates props/c29/proposed_fix.diff and props/c29/fix/get_hooked_fixed.go from the current
# /repo/pkg/local_object_storage/engine/get.go (run `/verif/check C29 quick` first so that
# .build/c29/gen holds the hookfn output of the current file). Then:
#   VERIF_SPEC=/verif/props/c29/fix/fixed.spec /verif/check C29 quick     # must exit 0
import os, subprocess

def patch(s):
    old = '''	var (
		n      int
		stream io.ReadCloser
	)

	return n, stream, e.get(addr, func(s *shard.Shard, ignoreMetadata bool) error {
		var err error
		n, stream, err = s.ReadObject(addr, ignoreMetadata, rng, buf, interceptHeaderBinaryFn)'''
    assert s.count(old) == 1
    s = s.replace(old, '''	var (
		n      int
		stream io.ReadCloser
	)

	if orig := interceptHeaderBinaryFn; orig != nil {
		interceptHeaderBinaryFn = func(b []byte) error {
			if err := orig(b); err != nil {
				return headerInterceptError{err}
			}
			return nil
		}
	}

	return n, stream, e.get(addr, func(s *shard.Shard, ignoreMetadata bool) error {
		var err error
		n, stream, err = s.ReadObject(addr, ignoreMetadata, rng, buf, interceptHeaderBinaryFn)''')
    old = '''			switch {
			case errors.Is(err, apistatus.ErrObjectNotFound):
				continue // ignore, go to next shard
			case errors.As(err, &siErr):
				if splitInfo == nil {'''
    assert s.count(old) == 1
    s = s.replace(old, '''			var hie headerInterceptError
			switch {
			case errors.As(err, &hie):
				return hie.error // the caller's header interceptor aborted the operation: not a shard failure
			case errors.Is(err, apistatus.ErrObjectNotFound):
				continue // ignore, go to next shard
			case errors.As(err, &siErr):
				if splitInfo == nil {''')
    old = 'func (e *StorageEngine) get(addr oid.Address, shardFunc'
    assert s.count(old) == 1
    return s.replace(old, '''// headerInterceptError marks an error returned by the caller's header interceptor passed to
// [StorageEngine.ReadObject]: the caller aborts the whole operation, it is not a shard failure.
type headerInterceptError struct{ error }

func (e headerInterceptError) Unwrap() error { return e.error }

''' + old)

tmp = '/dev/shm/verif-c29-fixgen'
rel = 'pkg/local_object_storage/engine/get.go'
src = open('/repo/' + rel).read()
for side, text in (('a', src), ('b', patch(src))):
    os.makedirs(os.path.dirname(f'{tmp}/{side}/{rel}'), exist_ok=True)
    open(f'{tmp}/{side}/{rel}', 'w').write(text)
d = subprocess.run(['diff', '-u', '--label', 'a/' + rel, '--label', 'b/' + rel, 'a/' + rel, 'b/' + rel], cwd=tmp, capture_output=True, text=True).stdout
open('/verif/props/c29/proposed_fix.diff', 'w').write(d)
gen = open('/verif/.build/c29/gen/pkg__local_object_storage__engine__get.go').read()
open('/verif/props/c29/fix/get_hooked_fixed.go', 'w').write(patch(gen))
subprocess.run(['rm', '-rf', tmp])
print(d)
