// C02: reported object counters and container sizes equal a recount.
//
// Explicit-state BFS (lib/seqx) over the real metabase (worlds/metaworld). After every transition
// the stored per-container counters (phy, root, ts, lock, link, gc, payload), DB.ObjectCounters()
// and DB.GetContainerInfo() are compared with
//
//	(a) an independent recount from the raw bbolt dump (objects indexed per type; number and
//	    payload of physical objects that carry no garbage mark), and
//	(b) the repository's own forced recount (DB.SyncCounters) run on a copy of the DB file.
//
// A violation is attributed to the transition that introduces (or enlarges) a difference; states
// that merely inherit an earlier difference are not reported again.
package main

import (
	"fmt"
	"os"
	"sort"
	"strings"
	"sync"

	"github.com/nspcc-dev/neofs-node/verif/lib/ev"
	"github.com/nspcc-dev/neofs-node/verif/lib/seqx"
	mw "github.com/nspcc-dev/neofs-node/verif/worlds/metaworld"
)

var (
	mu       sync.Mutex
	outcomes = map[string]struct{}{}
	debug    = os.Getenv("VERIF_DEBUG") != ""
	dbgFails = map[string]string{}
)

// drift is impl-minus-reference per component ("<container>/<oracle>.<counter>").
type drift map[string]int64

type measurement struct {
	d         drift
	immediate []string // failures that are not differences (API inconsistency, wrap-around)
}

func (m *measurement) clean() bool {
	if len(m.immediate) > 0 {
		return false
	}
	for _, v := range m.d {
		if v != 0 {
			return false
		}
	}
	return true
}

func measure(w *mw.World) *measurement {
	ms := &measurement{d: drift{}}
	before := w.Dump()
	var sum [7]uint64
	var rcs [mw.NCnr]mw.CnrCount
	type info struct{ n, size uint64 }
	var infos [mw.NCnr]info
	for c := 0; c < mw.NCnr; c++ {
		rc := before.Recount(c)
		rcs[c] = rc
		for i, v := range rc.Stored {
			sum[i] += v
			if v > 1<<40 || (i < 6 && v > uint64(rc.Keys)) {
				ms.immediate = append(ms.immediate, fmt.Sprintf("wrap:%s", mw.CounterNames[i]))
			}
		}
		ci, err := w.DB.GetContainerInfo(mw.Cnrs[c])
		if err != nil {
			ms.immediate = append(ms.immediate, "api:GetContainerInfo-error")
		}
		infos[c] = info{ci.ObjectsNumber, ci.StorageSize}
		cn := mw.CnrNames[c]
		// (a) independent recount. A removed container reports zero counters by design while its
		// objects are still indexed; the text is silent about that window, so the per-type counters
		// are not judged there -- the size-estimation values are (every object is marked for removal).
		if !rc.Removed {
			ms.d[cn+"/a.phy"] = int64(rc.Stored[0]) - int64(rc.Phy)
			ms.d[cn+"/a.root"] = int64(rc.Stored[1]) - int64(rc.Root)
			ms.d[cn+"/a.ts"] = int64(rc.Stored[2]) - int64(rc.TS)
			ms.d[cn+"/a.lock"] = int64(rc.Stored[3]) - int64(rc.Lock)
			ms.d[cn+"/a.link"] = int64(rc.Stored[4]) - int64(rc.Link)
			ms.d[cn+"/a.info-count"] = int64(ci.ObjectsNumber) - int64(rc.LiveNumber)
			ms.d[cn+"/a.info-size"] = int64(ci.StorageSize) - int64(rc.LiveSize)
		} else {
			ms.d[cn+"/a.info-count"] = int64(ci.ObjectsNumber)
			ms.d[cn+"/a.info-size"] = int64(ci.StorageSize)
		}
	}
	oc, err := w.DB.ObjectCounters()
	if err != nil {
		ms.immediate = append(ms.immediate, "api:ObjectCounters-error")
	}
	if [7]uint64{oc.Phy, oc.Root, oc.TS, oc.Lock, oc.Link, oc.GC, oc.Payload} != sum {
		ms.immediate = append(ms.immediate, "api:ObjectCounters-differs-from-stored-counters")
	}

	// (b) the repository's recount on a copy
	cp, path, err := w.CopyAndSync()
	if err != nil {
		ms.immediate = append(ms.immediate, "harness:copy-and-sync-failed:"+err.Error())
		return ms
	}
	after := mw.DumpDB(cp)
	for c := 0; c < mw.NCnr; c++ {
		cn := mw.CnrNames[c]
		ra := after.Recount(c)
		for i := range ra.Stored {
			ms.d[cn+"/b."+mw.CounterNames[i]] = int64(rcs[c].Stored[i]) - int64(ra.Stored[i])
		}
		ci, _ := cp.GetContainerInfo(mw.Cnrs[c])
		ms.d[cn+"/b.info-count"] = int64(infos[c].n) - int64(ci.ObjectsNumber)
		ms.d[cn+"/b.info-size"] = int64(infos[c].size) - int64(ci.StorageSize)
	}
	mw.CloseCopy(cp, path)
	return ms
}

func abs(x int64) int64 {
	if x < 0 {
		return -x
	}
	return x
}

// worsened lists the components whose difference grew (or changed sign) from prev to cur.
func worsened(prev, cur drift) []string {
	var r []string
	for k, v := range cur {
		p := prev[k]
		if v != 0 && (abs(v) > abs(p) || (p != 0 && (v > 0) != (p > 0))) {
			r = append(r, k)
		}
	}
	sort.Strings(r)
	return r
}

// targetClass renders the structural situation of the operation's target before the operation.
func targetClass(m *mw.Model, o mw.Op) string {
	switch o.Kind {
	case mw.OpEpoch:
		return ""
	case mw.OpInhumeCnr, mw.OpDeleteCnr:
		cs := &m.C[o.Cnr]
		switch {
		case cs.Removed:
			return "removed-container"
		case len(cs.Objs) == 0:
			return "empty-container"
		}
		return "container-with-objects"
	}
	s := mw.ByName[o.Obj]
	stored, phys := m.Stored(o.Obj)
	var p []string
	p = append(p, s.Kind.String())
	switch {
	case !stored:
		p = append(p, "unstored")
	case phys:
		p = append(p, "stored")
	default:
		p = append(p, "header-only")
	}
	mk, unsure := m.MarkOf(o.Obj)
	switch {
	case unsure:
		p = append(p, "mark-unsure")
	case mk == mw.MarkDefault:
		p = append(p, "marked")
	case mk == mw.MarkRedundant:
		p = append(p, "marked-redundant")
	}
	if m.Tombstoned(o.Obj) {
		p = append(p, "tombstoned")
	}
	if s.Kind == mw.KTomb || s.Kind == mw.KLock {
		ts, tphys := m.Stored(s.Target)
		tk := mw.ByName[s.Target].Kind.String()
		switch {
		case !ts:
			p = append(p, "target="+tk+"/unstored")
		case tphys:
			p = append(p, "target="+tk+"/stored")
		default:
			p = append(p, "target="+tk+"/header-only")
		}
		if tm, _ := m.MarkOf(s.Target); tm != mw.MarkNone {
			p = append(p, "target-marked")
		}
	}
	if n := len(m.C[s.Cnr].Children(o.Obj)); n > 0 {
		p = append(p, "has-known-parts")
	}
	if par, _ := m.ParentOf(o.Obj); par != "" {
		p = append(p, "has-parent")
	}
	if m.C[s.Cnr].Removed {
		p = append(p, "container-removed")
	}
	return strings.Join(p, ",")
}

func opCnr(o mw.Op) int {
	switch o.Kind {
	case mw.OpInhumeCnr, mw.OpDeleteCnr:
		return o.Cnr
	case mw.OpEpoch:
		return -1
	}
	return mw.ByName[o.Obj].Cnr
}

// render builds the normalised fingerprint and the description of one drifting step.
func render(o mw.Op, cls, verdict string, prev, cur drift, ws []string) (string, string) {
	var comps, detail []string
	for _, k := range ws {
		cn, comp, _ := strings.Cut(k, "/")
		where := ""
		if oc := opCnr(o); oc < 0 || mw.CnrNames[oc] != cn {
			where = "other-container:"
		}
		delta := cur[k] - prev[k]
		mag := fmt.Sprintf("%+d", delta)
		if strings.HasSuffix(comp, "payload") || strings.HasSuffix(comp, "info-size") {
			mag = "+bytes"
			if delta < 0 {
				mag = "-bytes"
			}
		}
		comps = append(comps, where+comp+mag)
		detail = append(detail, fmt.Sprintf("%s: difference %+d -> %+d", k, prev[k], cur[k]))
	}
	sort.Strings(comps)
	fp := fmt.Sprintf("drift:%s(%s):%s:%s", o.Kind, cls, verdict, strings.Join(comps, ","))
	what := fmt.Sprintf("%s (%s, %s) makes counters differ from the recount [a = raw-dump recount, b = DB.SyncCounters on a copy; impl minus reference]: %s",
		o, cls, verdict, strings.Join(detail, "; "))
	return fp, what
}

func oracle(s *mw.Sys) (string, string) {
	if len(s.Steps) > 0 {
		o := s.Steps[len(s.Steps)-1]
		mu.Lock()
		outcomes[o.Kind.String()+":"+mw.ErrClass(s.Errs[len(s.Errs)-1])] = struct{}{}
		mu.Unlock()
	}
	final := measure(s.W)
	if final.clean() {
		return "", ""
	}
	// Attribute: replay on a fresh world, measuring around each step of the last transition.
	w := mw.Open()
	defer w.Close()
	m := mw.NewModel()
	n := len(s.Steps) - s.LastSteps
	for _, o := range s.Steps[:n] {
		err := w.Exec(o)
		m.Apply(o, err == nil)
	}
	prev := measure(w)
	for _, o := range s.Steps[n:] {
		cls := targetClass(m, o)
		err := w.Exec(o)
		m.Apply(o, err == nil)
		cur := measure(w)
		var newImm []string
		for _, im := range cur.immediate {
			seen := false
			for _, p := range prev.immediate {
				seen = seen || p == im
			}
			if !seen {
				newImm = append(newImm, im)
			}
		}
		if len(newImm) > 0 {
			sort.Strings(newImm)
			return fmt.Sprintf("immediate:%s(%s):%s", o.Kind, cls, strings.Join(newImm, ",")),
				fmt.Sprintf("after %s: %s", o, strings.Join(newImm, ", "))
		}
		if ws := worsened(prev.d, cur.d); len(ws) > 0 {
			fp, what := render(o, cls, mw.ErrClass(err), prev.d, cur.d, ws)
			if debug {
				mu.Lock()
				if _, ok := dbgFails[fp]; !ok {
					dbgFails[fp] = fmt.Sprintf("%v: %s", s.HistNames(), what)
				}
				mu.Unlock()
			}
			return fp, what
		}
		prev = cur
	}
	return "", "" // an inherited difference: reported at the transition that introduced it
}

// driftAlphabet: the reduced alphabet biased to the drift patterns the property names (duplicate
// put, put with parent header, tombstone of unstored / stored / parent / child target, repeated and
// redundant-then-default marks, revive after tombstone and after mark, delete of a parent through
// its last child, container removal).
func driftAlphabet() []mw.Op {
	return mw.OpsByName(
		"Put(R2)", "Put(C1)", "Put(C2)", "Put(E0)", "Put(T3)", "Put(T2)", "Put(T5)",
		"MarkGarbage(R2)", "MarkRedundant(R2)", "MarkGarbage(P)", "MarkGarbage(E0)",
		"Delete(R2)", "Delete(C2)", "Delete(E0)", "Revive(R2)", "Revive(C2)", "Revive(E0)",
		"InhumeContainer(cA)", "DeleteContainer(cA)")
}

func main() {
	r := ev.Start("C02", ev.ModelChecking)
	scratch := mw.MkScratch("verif-c02")
	defer os.RemoveAll(scratch)

	full := append(mw.FullAlphabet(), mw.MacroOps()...)
	dr := driftAlphabet()
	// one alphabet for replays: the union (drift letters are a subset of the full alphabet)
	fullDepth, driftDepth := 2, 3
	if r.Thorough() {
		fullDepth, driftDepth = 3, 5
	}
	mk := func(ops []mw.Op, depth int) seqx.Config {
		return seqx.Config{NumOps: len(ops), MaxDepth: depth, CheckInit: true,
			OpName: func(i int) string { return ops[i].String() },
			New:    func() seqx.Sys { return mw.NewSys(ops, oracle) }}
	}
	if r.Replay != "" {
		var rp struct{ Ops []string }
		r.LoadReplay(&rp)
		fp, what, err := seqx.Replay(mk(full, 0), rp.Ops)
		if err != nil {
			os.RemoveAll(scratch)
			r.Fatal("%v", err)
		}
		if fp != "" {
			r.Violation(fp, what, rp)
		}
		os.RemoveAll(scratch)
		r.Finish()
	}

	res1 := seqx.Run(r, mk(full, fullDepth))
	var res2 seqx.Result
	if !r.Expired() {
		res2 = seqx.Run(r, mk(dr, driftDepth))
	}
	if debug {
		var ks []string
		for k := range dbgFails {
			ks = append(ks, k)
		}
		sort.Strings(ks)
		for _, k := range ks {
			fmt.Printf("DBG %s\n      %s\n", k, dbgFails[k])
		}
	}
	r.Exhaustive(res1.Exhaustive && res2.Exhaustive)
	r.Set("depth_completed", fmt.Sprintf("full alphabet: %d, drift alphabet: %d", res1.DepthCompleted, res2.DepthCompleted))
	r.Set("outcome_classes", len(outcomes))
	r.Set("alphabet_size", fmt.Sprintf("full %d (incl. %d macros), drift %d", len(full), len(mw.MacroOps()), len(dr)))
	r.Rule(fmt.Sprintf("two BFS runs with state dedup from the empty metabase: (1) all sequences of <= %d letters over the full metaworld alphabet (%d elementary operations + %d scripted prefixes enabled in the initial state only), (2) all sequences of <= %d letters over the reduced %d-letter drift alphabet (duplicate put, put with parent header, tombstones of unstored/stored/parent/child targets, repeated and redundant-then-default marks, revive after tombstone and after mark, delete of a parent through its last child, container removal); state key = raw bbolt dump + epoch + reference model; non-trivial = reaches a state not seen before; both oracles run after every transition (depths completed: %d and %d)", fullDepth, len(mw.FullAlphabet()), len(mw.MacroOps()), driftDepth, len(dr), res1.DepthCompleted, res2.DepthCompleted))
	r.Assume("single-threaded histories on one metabase (bbolt batch size 1)",
		"per-type counters of a container that was marked for removal as a whole are not compared with the raw recount (the implementation zeroes them while the objects are still indexed; the text is silent about that window); they are compared with DB.SyncCounters")
	os.RemoveAll(scratch)
	r.Finish()
}
