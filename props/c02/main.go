// C02: reported object counters and container sizes equal a recount.
//
// Explicit-state BFS (lib/seqx) over the real metabase (worlds/metaworld). After every transition
// the stored per-container counters (phy, root, ts, lock, link, gc, payload), DB.ObjectCounters()
// and DB.GetContainerInfo() are compared with
//
//	(a) an independent recount from the raw bbolt dump (objects indexed per type; number and
//	    payload of physical objects that carry no garbage mark), and
//	(b) the repository's own forced recount (DB.SyncCounters) run on a copy of the DB file.
//
// A violation is attributed to the transition that introduces (or enlarges) a difference; states
// that merely inherit an earlier difference are not reported again.
package main

import (
	"fmt"
	"os"
	"sort"
	"strings"
	"sync"
	"time"

	"github.com/nspcc-dev/neofs-node/verif/lib/ev"
	"github.com/nspcc-dev/neofs-node/verif/lib/seqx"
	mw "github.com/nspcc-dev/neofs-node/verif/worlds/metaworld"
)

var (
	mu       sync.Mutex
	outcomes = map[string]struct{}{}
	debug    = os.Getenv("VERIF_DEBUG") != ""
	// replayMode: Check runs after every operation on one instance, so it must not modify it.
	replayMode bool
	dbgFails   = map[string]string{}
)

// drift is value-minus-reference per component ("<container>/<counter>").
type drift map[string]int64

// Components judged per container. "count" is the object number used for size estimation in its
// unfloored form (phy counter - gc counter) against the number of physical objects that carry no
// garbage mark; "size" is the payload counter against the payload of those objects. Using the
// unfloored difference keeps the attribution on the transition that really introduces a
// difference (the reported value max(0, phy-gc) can hide it until a later put).
var comps = [7]string{"phy", "root", "ts", "lock", "link", "count", "size"}

type measurement struct {
	impl drift // stored counters minus the raw-dump recount
	// stale: the part of a negative "count" difference that the garbage marks still present on
	// non-physical addresses cannot account for: min(0, count difference + number of such marks).
	// The recorded finding "the garbage counter counts marks on addresses that are not stored
	// physical objects" lasts as long as such a mark exists; when the mark goes away (the virtual
	// parent is dropped with its last child, the mark is revived or deleted) its count must go too.
	stale     drift
	sync      drift    // counters after DB.SyncCounters (on a copy) minus the same raw-dump recount
	immediate []string // failures that are not differences (API inconsistency, wrap-around)
	feat      string   // structural features of the dump that matter for the recount
	dump      *mw.Dump
}

func (m *measurement) clean() bool {
	if len(m.immediate) > 0 {
		return false
	}
	for _, d := range []drift{m.impl, m.sync} {
		for _, v := range d {
			if v != 0 {
				return false
			}
		}
	}
	return true
}

func against(d drift, cn string, st [7]uint64, rc mw.CnrCount) {
	d[cn+"/phy"] = int64(st[0]) - int64(rc.Phy)
	d[cn+"/root"] = int64(st[1]) - int64(rc.Root)
	d[cn+"/ts"] = int64(st[2]) - int64(rc.TS)
	d[cn+"/lock"] = int64(st[3]) - int64(rc.Lock)
	d[cn+"/link"] = int64(st[4]) - int64(rc.Link)
	d[cn+"/count"] = int64(st[0]) - int64(st[5]) - int64(rc.LiveNumber)
	d[cn+"/size"] = int64(st[6]) - int64(rc.LiveSize)
}

func measure(w *mw.World, inPlace bool) *measurement {
	ms := &measurement{impl: drift{}, sync: drift{}, stale: drift{}}
	before := w.Dump()
	ms.dump = before
	var sum [7]uint64
	var rcs [mw.NCnr]mw.CnrCount
	var feats []string
	for c := 0; c < mw.NCnr; c++ {
		rc := before.Recount(c)
		rcs[c] = rc
		for i, v := range rc.Stored {
			sum[i] += v
			if v > 1<<40 || (i < 6 && v > uint64(rc.Keys)) {
				ms.immediate = append(ms.immediate, fmt.Sprintf("wrap:%s", mw.CounterNames[i]))
			}
		}
		ci, err := w.DB.GetContainerInfo(mw.Cnrs[c])
		if err != nil {
			ms.immediate = append(ms.immediate, "api:GetContainerInfo-error")
		}
		// the reported values must be the stored counters: number = max(0, phy-gc), size = payload
		wantN, wantS := uint64(0), uint64(0)
		if rc.Exists && !rc.Removed {
			if rc.Stored[0] > rc.Stored[5] {
				wantN = rc.Stored[0] - rc.Stored[5]
			}
			wantS = rc.Stored[6]
		}
		if ci.ObjectsNumber != wantN || ci.StorageSize != wantS {
			ms.immediate = append(ms.immediate, "api:GetContainerInfo-differs-from-stored-counters")
		}
		// A container that was marked for removal as a whole reports zeros by design while its
		// objects are still indexed; the text is silent about that window: only the size-estimation
		// values (zero: every object is marked for removal) are judged there, by the API check above.
		if rc.Exists && !rc.Removed {
			against(ms.impl, mw.CnrNames[c], rc.Stored, rc)
			if st := ms.impl[mw.CnrNames[c]+"/count"] + int64(rc.MarksNonPhys); st < 0 {
				ms.stale[mw.CnrNames[c]+"/count"] = st
			} else {
				ms.stale[mw.CnrNames[c]+"/count"] = 0
			}
		}
		if rc.MarksNonPhys > 0 {
			feats = append(feats, "marks-on-non-physical-addresses")
		}
		if rc.MarksRedundant > 0 {
			feats = append(feats, "redundant-marks")
		}
	}
	sort.Strings(feats)
	ms.feat = strings.Join(dedup(feats), "+")
	oc, err := w.DB.ObjectCounters()
	if err != nil {
		ms.immediate = append(ms.immediate, "api:ObjectCounters-error")
	}
	if [7]uint64{oc.Phy, oc.Root, oc.TS, oc.Lock, oc.Link, oc.GC, oc.Payload} != sum {
		ms.immediate = append(ms.immediate, "api:ObjectCounters-differs-from-stored-counters")
	}

	// the repository's recount: on a copy of the file, or (final measurement of a world that is
	// discarded right afterwards) in place, which is much cheaper
	var after *mw.Dump
	if inPlace {
		if err := w.SyncInPlace(); err != nil {
			ms.immediate = append(ms.immediate, "harness:sync-failed:"+err.Error())
			return ms
		}
		after = w.Dump()
	} else {
		cp, path, err := w.CopyAndSync()
		if err != nil {
			ms.immediate = append(ms.immediate, "harness:copy-and-sync-failed:"+err.Error())
			return ms
		}
		after = mw.DumpDB(cp)
		mw.CloseCopy(cp, path)
	}
	for c := 0; c < mw.NCnr; c++ {
		ra := after.Recount(c)
		if ra.Exists && !ra.Removed {
			against(ms.sync, mw.CnrNames[c], ra.Stored, rcs[c])
		}
	}
	return ms
}

func dedup(s []string) []string {
	var r []string
	for i, x := range s {
		if i == 0 || s[i-1] != x {
			r = append(r, x)
		}
	}
	return r
}

func abs(x int64) int64 {
	if x < 0 {
		return -x
	}
	return x
}

// worsened lists the components whose difference grew (or changed sign) from prev to cur.
func worsened(prev, cur drift) []string {
	var r []string
	for k, v := range cur {
		p := prev[k]
		if v != 0 && (abs(v) > abs(p) || (p != 0 && (v > 0) != (p > 0))) {
			r = append(r, k)
		}
	}
	sort.Strings(r)
	return r
}

// targetClass renders the structural situation of the operation's target before the operation:
// storage and mark facts from the raw dump, relations from the model.
func targetClass(d *mw.Dump, m *mw.Model, o mw.Op) string {
	switch o.Kind {
	case mw.OpEpoch:
		return ""
	case mw.OpInhumeCnr, mw.OpDeleteCnr:
		rc := d.Recount(o.Cnr)
		switch {
		case rc.Removed:
			return "removed-container"
		case rc.Indexed == 0:
			return "empty-container"
		}
		return "container-with-objects"
	}
	s := mw.ByName[o.Obj]
	describe := func(name string) string {
		sp := mw.ByName[name]
		st, mk := d.ObjectFacts(sp.Cnr, sp.ID)
		r := st
		if mk != "" {
			r += "+" + mk
		}
		return r
	}
	var p []string
	switch {
	case o.Kind == mw.OpPut && (s.Kind == mw.KTomb || s.Kind == mw.KLock):
		p = append(p, s.Kind.String()+":"+describe(o.Obj), "target:"+describe(s.Target))
		if n := len(m.C[s.Cnr].Children(s.Target)); n > 0 {
			p = append(p, "target-has-known-parts")
		}
	default:
		p = append(p, describe(o.Obj))
		if len(m.C[s.Cnr].Children(o.Obj)) > 0 {
			p = append(p, "has-known-parts")
		}
	}
	if d.Recount(s.Cnr).Removed {
		p = append(p, "container-removed")
	}
	return strings.Join(p, ",")
}

func opCnr(o mw.Op) int {
	switch o.Kind {
	case mw.OpInhumeCnr, mw.OpDeleteCnr:
		return o.Cnr
	case mw.OpEpoch:
		return -1
	}
	return mw.ByName[o.Obj].Cnr
}

// render lists the worsened components in normalised form (sign only) and in detail.
func render(o mw.Op, prev, cur drift, ws []string) (string, string) {
	var cs, detail []string
	for _, k := range ws {
		cn, comp, _ := strings.Cut(k, "/")
		where := ""
		if oc := opCnr(o); oc < 0 || mw.CnrNames[oc] != cn {
			where = "other-container:"
		}
		sign := "+"
		if cur[k]-prev[k] < 0 {
			sign = "-"
		}
		cs = append(cs, where+comp+sign)
		detail = append(detail, fmt.Sprintf("%s %+d -> %+d", k, prev[k], cur[k]))
	}
	sort.Strings(cs)
	// "count" (= phy - gc against the unmarked physical objects) is derived: when the phy counter
	// itself is off in the same step, it is left out of the normalised class (kept in the detail).
	var prim []string
	hasPhy := false
	for _, c := range cs {
		hasPhy = hasPhy || strings.HasSuffix(c, "phy+") || strings.HasSuffix(c, "phy-")
	}
	for _, c := range cs {
		if hasPhy && (strings.HasSuffix(c, "count+") || strings.HasSuffix(c, "count-")) {
			continue
		}
		prim = append(prim, c)
	}
	return strings.Join(prim, ","), strings.Join(detail, "; ")
}

func oracle(s *mw.Sys) (string, string) {
	if len(s.Steps) > 0 {
		o := s.Steps[len(s.Steps)-1]
		mu.Lock()
		outcomes[o.Kind.String()+":"+mw.ErrClass(s.Errs[len(s.Errs)-1])] = struct{}{}
		mu.Unlock()
	}
	// During exploration the instance is discarded right after Check/Key, so the final measurement
	// may resync the live DB in place (key frozen first); a replay keeps using the instance.
	s.FreezeKey()
	final := measure(s.W, !replayMode)
	if final.clean() {
		return "", ""
	}
	// Attribute: replay on a fresh world, measuring around each step of the last transition.
	w := mw.Open()
	defer w.Close()
	m := mw.NewModel()
	n := len(s.Steps) - s.LastSteps
	for _, o := range s.Steps[:n] {
		err := w.Exec(o)
		m.Apply(o, err == nil)
	}
	single := s.LastSteps == 1
	prev := measure(w, single) // single step: this world is not needed afterwards
	report := func(fp, what string) (string, string) {
		if debug {
			mu.Lock()
			if _, ok := dbgFails[fp]; !ok {
				dbgFails[fp] = fmt.Sprintf("%v: %s", s.HistNames(), what)
			}
			mu.Unlock()
		}
		return fp, what
	}
	for _, o := range s.Steps[n:] {
		cls := targetClass(prev.dump, m, o)
		var err error
		var cur *measurement
		if single {
			err = s.Errs[len(s.Errs)-1]
			m.Apply(o, err == nil)
			cur = final
		} else {
			err = w.Exec(o)
			m.Apply(o, err == nil)
			cur = measure(w, false)
		}
		verdict := mw.ErrClass(err)
		var newImm []string
		for _, im := range cur.immediate {
			seen := false
			for _, p := range prev.immediate {
				seen = seen || p == im
			}
			if !seen {
				newImm = append(newImm, im)
			}
		}
		if len(newImm) > 0 {
			sort.Strings(newImm)
			return report(fmt.Sprintf("immediate:%s(%s):%s:%s", o.Kind, cls, verdict, strings.Join(dedup(newImm), ",")),
				fmt.Sprintf("after %s: %s", o, strings.Join(newImm, ", ")))
		}
		wi, wsy := worsened(prev.impl, cur.impl), worsened(prev.sync, cur.sync)
		// A count difference that exists already but loses its explanation in this step (the marks
		// on non-physical addresses that were counted went away, their count did not) is a class
		// of its own; it is not raised where the count difference itself grows in the same step.
		var stale []string
		for _, k := range worsened(prev.stale, cur.stale) {
			grew := false
			for _, w := range wi {
				grew = grew || w == k
			}
			if !grew {
				stale = append(stale, k)
			}
		}
		if len(stale) > 0 {
			c, det := render(o, prev.stale, cur.stale, stale)
			c = strings.ReplaceAll(c, "count-", "count-left-behind-")
			if len(wi) > 0 {
				c2, _ := render(o, prev.impl, cur.impl, wi)
				c += "," + c2
			}
			k0 := stale[0]
			return report(fmt.Sprintf("counters:%s(%s):%s:%s", fpKind(o, cls), fpClass(cls), verdict, c),
				fmt.Sprintf("%s (%s; verdict %s) removes garbage marks of addresses that are not stored physical objects but leaves their count in the garbage counter: phy-gc is below the number of unmarked physical objects by more than the marks still present on such addresses can explain (unexplained part: %s; count difference %+d -> %+d)", o, cls, verdict, det, prev.impl[k0], cur.impl[k0]))
		}
		if len(wi) > 0 {
			c, det := render(o, prev.impl, cur.impl, wi)
			what := fmt.Sprintf("%s (%s; verdict %s) makes the stored counters differ from the raw-dump recount (counter minus recount): %s", o, cls, verdict, det)
			if len(wsy) > 0 {
				_, d2 := render(o, prev.sync, cur.sync, wsy)
				what += "; DB.SyncCounters is off too: " + d2
			} else {
				what += "; DB.SyncCounters gives the recount's values for these"
			}
			return report(fmt.Sprintf("counters:%s(%s):%s:%s", fpKind(o, cls), fpClass(cls), verdict, c), what)
		}
		if len(wsy) > 0 {
			c, det := render(o, prev.sync, cur.sync, wsy)
			// the structural feature of the state that explains the component
			var why []string
			if strings.Contains(c, "count") {
				if strings.Contains(cur.feat, "marks-on-non-physical-addresses") {
					why = append(why, "marks-on-non-physical-addresses")
				} else {
					why = append(why, "count-unexplained")
				}
			}
			if strings.Contains(c, "size") {
				if strings.Contains(cur.feat, "redundant-marks") {
					why = append(why, "redundant-marks")
				} else {
					why = append(why, "size-unexplained")
				}
			}
			return report(fmt.Sprintf("resync:%s:state-has:%s", c, strings.Join(why, "+")),
				fmt.Sprintf("after %s (%s) the repository's own recount DB.SyncCounters differs from the raw-dump recount while the incrementally kept counters agree with it (resynced minus recount): %s", o, cls, det))
		}
		prev = cur
	}
	return "", "" // an inherited difference: reported at the transition that introduced it
}

// driftAlphabet: the reduced alphabet biased to the drift patterns the property names (duplicate
// put, put with parent header, tombstone of unstored / stored / parent / child target, repeated and
// redundant-then-default marks, revive after tombstone and after mark, delete of a parent through
// its last child, container removal).
func driftAlphabet() []mw.Op {
	return append(mw.OpsByName("Put(R2)", "Put(C1)", "Put(C2)", "Put(E0)", "Put(T3)", "Put(T2)", "Put(T5)",
		"MarkGarbage(R2)", "MarkRedundant(R2)", "MarkGarbage(P)", "MarkGarbage(E0)",
		"Delete(R2)", "Delete(C2)", "Delete(E0)", "Revive(R2)", "Revive(C2)", "Revive(E0)",
		"InhumeContainer(cA)", "DeleteContainer(cA)"), mw.MacroOps()...)
}

// fpKind / fpClass normalise the operation and target class for fingerprints: a garbage mark applied
// through the id of a header-only (virtual) parent is one class whatever the kind of the new mark and
// of a mark the parent already carries -- to the counters both kinds are the same there. (The
// description keeps the real operation.)
func fpKind(o mw.Op, cls string) string {
	if o.Kind == mw.OpMarkRedundant && strings.HasPrefix(cls, "header-only") {
		return mw.OpMarkDefault.String()
	}
	return o.Kind.String()
}

func fpClass(cls string) string {
	if strings.HasPrefix(cls, "header-only+marked-redundant") {
		return "header-only+marked" + strings.TrimPrefix(cls, "header-only+marked-redundant")
	}
	return cls
}

// parentMarkAlphabet: garbage marks of both kinds applied THROUGH the ID of a virtual parent (split
// root P, EC parent E, and the v2 / v1 chain roots G, W of the chain-shape families) followed by the
// physical deletion of the children one by one, so that the parent index and its mark go away with
// the last child; an unrelated unmarked object (R2) lives next to them. Two scripted prefixes store
// the families and mark the parents, so that depth 3 reaches "both children deleted".
func parentMarkAlphabet() []mw.Op {
	return append(mw.OpsByName("Put(R2)", "Put(C1)", "Put(C2)", "Put(K)", "Put(E0)", "Put(E1)", "Put(G2)", "Put(Ga)", "Put(Vl)", "Put(Va)",
		"MarkGarbage(P)", "MarkRedundant(P)", "MarkGarbage(E)", "MarkRedundant(E)", "MarkGarbage(G)", "MarkRedundant(W)",
		"Delete(C1)", "Delete(C2)", "Delete(K)", "Delete(E0)", "Delete(E1)", "Delete(G2)", "Delete(Ga)", "Delete(Vl)", "Delete(Va)"),
		mw.OpsByName("Macro(parents-marked)", "Macro(parents-marked-2)")...)
}

func main() {
	r := ev.Start("C02", ev.ModelChecking)
	if r.Quick() && r.Budget == 90*time.Second { // the default; an explicit -budget is respected
		r.Budget = 70 * time.Second // leave room for the build inside the 90 s quick-tier envelope
	}
	scratch := mw.MkScratch("verif-c02")
	defer os.RemoveAll(scratch)

	full := append(mw.FullAlphabet(), mw.MacroOps()...)
	dr := driftAlphabet()
	pm := parentMarkAlphabet()
	fullDepth, driftDepth, pmDepth := 2, 3, 3
	if r.Thorough() {
		fullDepth, driftDepth, pmDepth = 3, 4, 4
	}
	// replays resolve names over the union of the alphabets
	var all []mw.Op
	seenOp := map[string]bool{}
	for _, o := range append(append(append([]mw.Op{}, full...), dr...), pm...) {
		if !seenOp[o.String()] {
			seenOp[o.String()] = true
			all = append(all, o)
		}
	}
	mk := func(ops []mw.Op, depth int) seqx.Config {
		return seqx.Config{NumOps: len(ops), MaxDepth: depth, CheckInit: true,
			OpName: func(i int) string { return ops[i].String() },
			New:    func() seqx.Sys { return mw.NewSys(ops, oracle) }}
	}
	if r.Replay != "" {
		replayMode = true
		var rp struct{ Ops []string }
		r.LoadReplay(&rp)
		fp, what, err := seqx.Replay(mk(all, 0), rp.Ops)
		if err != nil {
			os.RemoveAll(scratch)
			r.Fatal("%v", err)
		}
		if fp != "" {
			r.Violation(fp, what, rp)
		}
		os.RemoveAll(scratch)
		r.Finish()
	}

	res1 := seqx.Run(r, mk(full, fullDepth))
	var res2, res3 seqx.Result
	if !r.Expired() {
		res3 = seqx.Run(r, mk(pm, pmDepth))
	}
	if !r.Expired() {
		res2 = seqx.Run(r, mk(dr, driftDepth))
	}
	if debug {
		var ks []string
		for k := range dbgFails {
			ks = append(ks, k)
		}
		sort.Strings(ks)
		for _, k := range ks {
			fmt.Printf("DBG %s\n      %s\n", k, dbgFails[k])
		}
	}
	r.Exhaustive(res1.Exhaustive && res2.Exhaustive && res3.Exhaustive)
	r.Set("depth_completed", fmt.Sprintf("full alphabet: %d, parent-mark alphabet: %d, drift alphabet: %d", res1.DepthCompleted, res3.DepthCompleted, res2.DepthCompleted))
	r.Set("outcome_classes", len(outcomes))
	r.Set("alphabet_size", fmt.Sprintf("full %d (incl. %d macros), parent-mark %d, drift %d", len(full), len(mw.MacroOps()), len(pm), len(dr)))
	r.Rule(fmt.Sprintf("three BFS runs with state dedup from the empty metabase: (1) all sequences of <= %d letters over the main metaworld alphabet (%d elementary operations + %d scripted prefixes enabled in the initial state only), (2) all sequences of <= %d letters over the %d-letter parent-mark alphabet (children of a split root, an EC parent and the v2/v1 chain roots stored next to an unrelated object; garbage marks of both kinds applied through the PARENT id; physical deletion of the children one by one so that the parent index and its mark vanish with the last child; 2 prefixes that store the families and mark the parents), (3) all sequences of <= %d letters over the reduced %d-letter drift alphabet incl. the prefixes (duplicate put, put with parent header, tombstones of unstored/stored/parent/child targets, repeated and redundant-then-default marks, revive after tombstone and after mark, delete of a parent through its last child, container removal); state key = raw bbolt dump + epoch + reference model; non-trivial = reaches a state not seen before; the oracles run after every transition, i.e. also right after a parent vanished (depths completed: %d, %d and %d)", fullDepth, len(mw.FullAlphabet()), len(mw.MacroOps()), pmDepth, len(pm), driftDepth, len(dr), res1.DepthCompleted, res3.DepthCompleted, res2.DepthCompleted))
	r.Assume("single-threaded histories on one metabase (bbolt batch size 1)",
		"per-type counters of a container that was marked for removal as a whole are not compared with the raw recount (the implementation zeroes them while the objects are still indexed; the text is silent about that window); they are compared with DB.SyncCounters")
	os.RemoveAll(scratch)
	r.Finish()
}
