// C27: repeated policer cycles restore the required replicas and then stop replicating; the
// replicator never reports more successes than asked, nor a success for a node that did not store.
//
// Explicit-state search (seqx BFS to fixpoint) over cluster states. State = set of nodes holding the
// object. Transition "node i" = node i (if it holds the object) runs the REAL policer.processObject
// for it; remote HEADs are answered from the live state, replication is done by the REAL
// replicator.HandleTask / putsvc.RemoteSender against fake clients that store into the state, a
// recorded localStorage.Delete removes node i's copy. The search starts from EVERY initial replica
// distribution and follows EVERY node order. The collected transition graph is then analysed for
// convergence.
package main

import (
	"fmt"
	"math/bits"
	"sort"
	"strings"
	"sync"

	"github.com/nspcc-dev/neofs-node/verif/lib/ev"
	"github.com/nspcc-dev/neofs-node/verif/lib/seqx"
	"github.com/nspcc-dev/neofs-node/verif/props/c26/polworld"
	"github.com/nspcc-dev/neofs-sdk-go/netmap"
	"github.com/nspcc-dev/neofs-sdk-go/object"
)

type config struct {
	N     int     // nodes in the network map (all reachable)
	Lists [][]int // placement lists (container nodes), one per REP rule
	Reps  []int
	// fault pattern of the REPLICATE RPC (HEAD keeps answering 404 for a node without the object):
	Perm  uint32 // nodes that refuse every replica (they never hold the object)
	Trans uint32 // nodes that refuse the first replica sent to them and accept afterwards
}

func (c config) String() string {
	s := fmt.Sprintf("N=%d lists=%v REP=%v", c.N, c.Lists, c.Reps)
	if c.Perm|c.Trans != 0 {
		s += fmt.Sprintf(" replicate-always-refused-by=%0*b refused-once-by=%0*b", c.N, c.Perm, c.N, c.Trans)
	}
	return s
}

// state = holders | (nodes whose one-time refusal is still pending) << 8
func holders(s uint32) uint32 { return s & 0xff }
func pending(s uint32) uint32 { return s >> 8 }

// primaries = the first REP nodes of every list.
func (c config) primaries() (m uint32) {
	for i, l := range c.Lists {
		for _, n := range l[:c.Reps[i]] {
			m |= 1 << uint(n)
		}
	}
	return
}

func (c config) container() (m uint32) {
	for _, l := range c.Lists {
		for _, n := range l {
			m |= 1 << uint(n)
		}
	}
	return
}

type edge struct {
	to         uint32
	replTasks  int // replication tasks handed to the replicator
	replSent   int // replicas actually sent
	prepErrs   int // replicas that could not even be sent (request could not be built from the object source)
	dropped    bool
	headers    int
	safetyFP   string
	safetyWhat string
}

// graph collects every transition seen by any worker (the system is deterministic, so re-computed
// edges are identical).
type graph struct {
	mu    sync.Mutex
	edges map[[2]uint32]edge // (state, node) -> edge
}

func (g *graph) put(from uint32, node int, e edge) {
	g.mu.Lock()
	g.edges[[2]uint32{from, uint32(node)}] = e
	g.mu.Unlock()
}

type sys struct {
	cfg   config
	w     *polworld.World
	g     *graph
	init  bool
	mask  uint32
	lastF string
	lastW string
}

var worlds = sync.Pool{New: func() any { return polworld.New() }}

func newSys(cfg config, g *graph) *sys {
	return &sys{cfg: cfg, g: g, w: worlds.Get().(*polworld.World)}
}

func (s *sys) Close() { worlds.Put(s.w); s.w = nil }

func (s *sys) Key() string {
	if !s.init {
		return "pristine"
	}
	return fmt.Sprintf("%v|%b|%b", s.cfg, holders(s.mask), pending(s.mask))
}

func (s *sys) Check() (string, string) { return s.lastF, s.lastW }

// ops 0..N-1: policer pass of node i; ops N..: choose the initial distribution (mask = op-N+1).
func (s *sys) Apply(op int) (string, bool) {
	s.lastF, s.lastW = "", ""
	if op >= s.cfg.N {
		if s.init {
			return "", false
		}
		m := uint32(op - s.cfg.N + 1)
		if m&s.cfg.Perm != 0 {
			return "", false // a node that refuses every replica holds nothing
		}
		s.init, s.mask = true, m|s.cfg.Trans<<8
		return "init", true
	}
	if !s.init || s.mask&(1<<uint(op)) == 0 {
		return "", false // the policer only handles objects its node stores
	}
	from := s.mask
	e := step(s.w, s.cfg, &s.mask, op)
	s.g.put(from, op, e)
	s.lastF, s.lastW = e.safetyFP, e.safetyWhat
	obs := fmt.Sprintf("hdr=%d tasks=%d sent=%d refused=%v unsendable=%d drop=%v", min(e.headers, 1), min(e.replTasks, 1), min(e.replSent, 1), e.replSent > len(s.w.ReplOK), min(e.prepErrs, 1), e.dropped)
	return obs, true
}

// step runs the real policer of node `local` against the cluster state *mask.
func step(w *polworld.World, cfg config, mask *uint32, local int) (e edge) {
	before := *mask
	w.Local, w.InNetmap = local, true
	w.Placement = polworld.Placement{}
	for i, l := range cfg.Lists {
		nl := make([]netmap.NodeInfo, len(l))
		for j, n := range l {
			nl[j] = polworld.Node(n, false)
		}
		w.Placement.Lists = append(w.Placement.Lists, nl)
		w.Placement.Rep = append(w.Placement.Rep, uint(cfg.Reps[i]))
	}
	w.HeadAnswer = func(n int) error {
		if *mask&(1<<uint(n)) != 0 {
			return nil
		}
		return polworld.ErrNotFound
	}
	w.Replicate = func(n int) error {
		bit := uint32(1) << uint(n)
		if cfg.Perm&bit != 0 {
			return polworld.ErrGeneric
		}
		if pending(*mask)&bit != 0 {
			*mask &^= bit << 8
			return polworld.ErrGeneric
		}
		*mask |= bit
		return nil
	}
	w.Run(object.TypeRegular, []string{"shard0"}, -1, -1)
	if len(w.Deletes) > 0 {
		*mask &^= 1 << uint(local)
		e.dropped = true
	}
	e.to, e.replTasks, e.replSent, e.headers, e.prepErrs = *mask, len(w.Tasks), len(w.ReplCalls), len(w.HeadCalls), len(w.ReplPrepErrs)
	fail := func(fp, f string, a ...any) {
		if e.safetyFP == "" {
			e.safetyFP = fp
			e.safetyWhat = fmt.Sprintf("%v, holders %05b, policer pass of node %d: ", cfg, holders(before), local) + fmt.Sprintf(f, a...) +
				fmt.Sprintf(" [HEAD %v ok %v; tasks %+v; sent to %v acked %v unsendable %v; deletes %d; holders after %05b]", w.HeadCalls, w.HeadOK, w.Tasks, w.ReplCalls, w.ReplOK, w.ReplPrepErrs, len(w.Deletes), holders(*mask))
		}
	}
	if len(w.UnknownCalls) > 0 {
		fail("harness:unexpected-call", "%v", w.UnknownCalls)
	}
	// replicator reporting
	for _, t := range w.Tasks {
		if uint32(len(t.Submitted)) > t.Quantity {
			fail("replicator:more-successes-than-asked", "task over %v asked %d, %d reported", t.Nodes, t.Quantity, len(t.Submitted))
		}
		seen := map[int]bool{}
		for _, n := range t.Submitted {
			if *mask&(1<<uint(n)) == 0 || !contains(w.ReplOK, n) {
				fail("replicator:success-reported-for-node-that-did-not-store", "node %d", n)
			}
			if seen[n] {
				fail("replicator:same-node-reported-twice", "node %d", n)
			}
			seen[n] = true
		}
	}
	// the object must never be lost, and a container node only drops a copy that r others hold
	if holders(*mask) == 0 {
		fail("object-lost:last-copy-dropped", "no holder left")
	}
	// a replica that was never sent although its candidate was reached in the task: the object source must
	// serve every candidate of a task (the replicator shares one prepared message between them)
	if len(w.ReplPrepErrs) > 0 {
		fail("replicator:candidate-not-contacted:object-source-exhausted-by-an-earlier-candidate", "candidate(s) %v were never sent the replica", w.ReplPrepErrs)
	}
	if e.dropped {
		for i, l := range cfg.Lists {
			if !contains(l, local) {
				continue
			}
			cnt := 0
			for _, n := range l {
				if n != local && *mask&(1<<uint(n)) != 0 {
					cnt++
				}
			}
			if cnt < cfg.Reps[i] {
				fail("needed-copy-dropped", "rule #%d keeps only %d other holder(s) < REP %d", i, cnt, cfg.Reps[i])
			}
		}
	}
	return e
}

func contains(xs []int, v int) bool {
	for _, x := range xs {
		if x == v {
			return true
		}
	}
	return false
}

// ---- convergence analysis on the explored graph -------------------------------------------------------

type viol struct{ fp, what string }

// faultClass is the structural class of the configuration's REPLICATE fault pattern (part of fingerprints).
func faultClass(c config) string {
	switch {
	case c.Perm != 0 && c.Trans != 0:
		return ":a-candidate-always-refuses-replicas+another-refuses-once"
	case c.Perm != 0:
		return ":a-candidate-always-refuses-replicas"
	case c.Trans != 0:
		return ":a-candidate-refuses-one-replica"
	}
	return ""
}

var firstOverRepl string

func analyse(cfg config, g *graph, strictQuiet bool) (vs []viol, stats map[string]int) {
	stats = map[string]int{}
	prim := cfg.primaries()
	// goal, computed from the policy: every rule whose primary nodes can all take replicas has the object
	// on all of them; a rule with a primary that refuses every replica has it on min(REP, number of list
	// nodes able to take it) nodes of its list.
	goal := func(s uint32) bool {
		h := holders(s)
		for i, l := range cfg.Lists {
			var pm, lm uint32
			for j, n := range l {
				lm |= 1 << uint(n)
				if j < cfg.Reps[i] {
					pm |= 1 << uint(n)
				}
			}
			if pm&cfg.Perm == 0 {
				if h&pm != pm {
					return false
				}
			} else if bits.OnesCount32(h&lm) < min(cfg.Reps[i], bits.OnesCount32(lm&^cfg.Perm)) {
				return false
			}
		}
		return true
	}
	// a container node that refuses every replica is retried in every cycle: replication cannot stop
	retryForever := cfg.Perm&cfg.container() != 0
	st := func(s uint32) string {
		if pending(s) != 0 {
			return fmt.Sprintf("%0*b(one refusal pending at %0*b)", cfg.N, holders(s), cfg.N, pending(s))
		}
		return fmt.Sprintf("%0*b", cfg.N, holders(s))
	}
	states := map[uint32]bool{}
	for k, e := range g.edges {
		states[k[0]] = true
		states[e.to] = true
	}
	for m := uint32(1); m < 1<<uint(cfg.N); m++ { // every initial distribution is a state even if nothing moves
		if m&cfg.Perm == 0 {
			states[m|cfg.Trans<<8] = true
		}
	}
	var order []uint32
	for s := range states {
		order = append(order, s)
	}
	sort.Slice(order, func(i, j int) bool { return order[i] < order[j] })
	stats["states"] = len(order)
	succ := func(s uint32) (r []edge, nodes []int) {
		for n := 0; n < cfg.N; n++ {
			if e, ok := g.edges[[2]uint32{s, uint32(n)}]; ok {
				r = append(r, e)
				nodes = append(nodes, n)
			}
		}
		return
	}
	add := func(fp, f string, a ...any) { vs = append(vs, viol{fp, cfg.String() + ": " + fmt.Sprintf(f, a...)}) }

	// quiet(s): no replication can ever happen again from s (greatest fixpoint).
	quiet := map[uint32]bool{}
	for _, s := range order {
		quiet[s] = true
	}
	for changed := true; changed; {
		changed = false
		for _, s := range order {
			if !quiet[s] {
				continue
			}
			es, _ := succ(s)
			for _, e := range es {
				if e.replSent > 0 || !quiet[e.to] {
					quiet[s] = false
					changed = true
					break
				}
			}
		}
	}
	// settled(s): goal reached and replication has stopped for good.
	settled := func(s uint32) bool { return goal(s) && (quiet[s] || retryForever) }

	for _, s := range order {
		es, nodes := succ(s)
		if goal(s) {
			stats["goal_states"]++
			for i, e := range es {
				if !goal(e.to) {
					add("convergence:goal-left", "holders %s satisfies the policy, but a pass of node %d leads to %s", st(s), nodes[i], st(e.to))
				}
				if !strictQuiet && e.replSent > 0 && len(cfg.Lists) > 1 && cfg.Perm|cfg.Trans == 0 {
					stats["two_rule_passes_replicating_although_all_primaries_hold(not judged)"]++
					if firstOverRepl == "" {
						firstOverRepl = fmt.Sprintf("%v: holders %s (primaries %05b), pass of node %d sends %d replica(s) -> holders %s", cfg, st(s), prim, nodes[i], e.replSent, st(e.to))
					}
				}
				if strictQuiet && e.replSent > 0 {
					add("convergence:replication-after-primaries-complete", "holders %s has every primary copy, yet node %d still starts replication (to %s)", st(s), nodes[i], st(e.to))
				}
			}
		}
		if settled(s) {
			stats["settled_states"]++
			continue
		}
		// not settled: some pass must change the state (no deadlock short of the target)
		progress := false
		for _, e := range es {
			if e.to != s {
				progress = true
			}
		}
		if !progress {
			add("convergence:stuck-before-settling"+faultClass(cfg), "holders %s (primaries %05b): no node's pass changes anything, replicas are not restored / replication does not stop", st(s), prim)
		}
	}
	// no cycle of state-changing transitions among unsettled states: together with "every unsettled state
	// has a changing pass" this gives convergence under EVERY fair node order.
	const (
		white = iota
		grey
		black
	)
	col := map[uint32]int{}
	var dfs func(s uint32, path []uint32) bool
	dfs = func(s uint32, path []uint32) bool {
		col[s] = grey
		es, _ := succ(s)
		for _, e := range es {
			if e.to == s || settled(e.to) {
				continue
			}
			switch col[e.to] {
			case grey:
				add("convergence:cycle-avoiding-settled-states"+faultClass(cfg), "cycle through unsettled states %05b (reached again from %s)", append(path, s), st(s))
				return true
			case white:
				if dfs(e.to, append(path, s)) {
					return true
				}
			}
		}
		col[s] = black
		return false
	}
	for _, s := range order {
		if !settled(s) && col[s] == white {
			if dfs(s, nil) {
				break
			}
		}
	}
	// round-robin: rounds needed from every state (reported; bounded by the DAG argument above)
	maxRounds := 0
	for _, s0 := range order {
		s, rounds := s0, 0
		for !settled(s) && rounds <= 4*cfg.N {
			for n := 0; n < cfg.N; n++ {
				if e, ok := g.edges[[2]uint32{s, uint32(n)}]; ok {
					s = e.to
				}
			}
			rounds++
		}
		if !settled(s) {
			add("convergence:round-robin-does-not-settle"+faultClass(cfg), "from holders %s, %d round-robin rounds end in %s", st(s0), rounds, st(s))
		}
		if rounds > maxRounds {
			maxRounds = rounds
		}
	}
	stats["max_round_robin_rounds"] = maxRounds
	// over-replication is reported, not judged (the text does not bound transient extra copies)
	for k, e := range g.edges {
		if e.replTasks > 0 && e.replSent == 0 && settled(k[0]) {
			stats["settled_passes_reporting_phantom_shortage(task_without_candidates)"]++
		}
		if c := bits.OnesCount32(holders(e.to)); c > stats["max_simultaneous_copies"] {
			stats["max_simultaneous_copies"] = c
		}
	}
	return
}

// ---- configurations -----------------------------------------------------------------------------------

func singleRuleConfigs(minN, maxN int) (cs []config) {
	for n := minN; n <= maxN; n++ {
		for rep := 1; rep <= 3; rep++ {
			for m := rep; m <= n; m++ { // container = nodes 0..m-1 in placement order, the rest is outside
				l := make([]int, m)
				for i := range l {
					l[i] = i
				}
				cs = append(cs, config{N: n, Lists: [][]int{l}, Reps: []int{rep}})
			}
		}
	}
	return
}

// every ordered pair of lists (lengths 1..maxLen) over n symmetric nodes, up to renaming.
func twoRuleConfigs(n, maxLen int) (cs []config) {
	var rec func(li int, cur [][]int, k int)
	rec = func(li int, cur [][]int, k int) {
		if li == 2 {
			for r1 := 1; r1 <= 3 && r1 <= len(cur[0]); r1++ {
				for r2 := 1; r2 <= 3 && r2 <= len(cur[1]); r2++ {
					cs = append(cs, config{N: n, Lists: [][]int{append([]int(nil), cur[0]...), append([]int(nil), cur[1]...)}, Reps: []int{r1, r2}})
				}
			}
			return
		}
		for ln := 1; ln <= maxLen; ln++ {
			list := []int{}
			var fill func(k2 int)
			fill = func(k2 int) {
				if len(list) == ln {
					rec(li+1, append(cur, append([]int(nil), list...)), k2)
					return
				}
				for id := 0; id <= k2 && id < n; id++ {
					if contains(list, id) {
						continue
					}
					list = append(list, id)
					nk := k2
					if id == k2 {
						nk = id + 1
					}
					fill(nk)
					list = list[:len(list)-1]
				}
			}
			fill(k)
		}
	}
	rec(0, nil, 0)
	return
}

type replayT struct {
	Config config
	Ops    []string
}

func seqCfg(cfg config, g *graph) seqx.Config {
	return seqx.Config{
		NumOps: cfg.N + (1 << uint(cfg.N)) - 1,
		New:    func() seqx.Sys { return newSys(cfg, g) },
		OpName: func(op int) string {
			if op >= cfg.N {
				return fmt.Sprintf("init(%0*b)", cfg.N, op-cfg.N+1)
			}
			return fmt.Sprintf("policer(node%d)", op)
		},
	}
}

func main() {
	r := ev.Start("C27", ev.ModelChecking)
	if r.Replay != "" {
		var rp replayT
		r.LoadReplay(&rp)
		g := &graph{edges: map[[2]uint32]edge{}}
		if len(rp.Ops) > 0 {
			fp, what, err := seqx.Replay(seqCfg(rp.Config, g), rp.Ops)
			if err != nil {
				r.Fatal("%v", err)
			}
			if fp != "" {
				r.Violation(fp, what, rp)
			}
			r.Finish()
		}
		seqx.Run(r, seqCfg(rp.Config, g))
		vs, _ := analyse(rp.Config, g, len(rp.Config.Lists) == 1 && rp.Config.Perm|rp.Config.Trans == 0)
		for _, v := range vs {
			r.Violation(v.fp, v.what, rp)
		}
		r.Finish()
	}
	maxN, n2, len2 := 5, 4, 3
	if r.Thorough() {
		maxN, n2, len2 = 7, 5, 4
	}
	if err := polworld.CalibrateAgainstSDK(); err != nil {
		r.Fatal("%v", err)
	}
	// fault patterns of the REPLICATE RPC: none; one node always refusing; one node refusing once;
	// thorough: additionally two always-refusing nodes and always-refusing + refusing-once pairs
	withFaults := func(base []config, pairs bool) (out []config) {
		for _, c := range base {
			out = append(out, c)
			for i := 0; i < c.N; i++ {
				p, t := c, c
				p.Perm, t.Trans = 1<<uint(i), 1<<uint(i)
				out = append(out, p, t)
			}
			if !pairs {
				continue
			}
			for i := 0; i < c.N; i++ {
				for j := 0; j < c.N; j++ {
					if i == j {
						continue
					}
					q := c
					q.Perm, q.Trans = 1<<uint(i), 1<<uint(j)
					out = append(out, q)
					if i < j {
						q.Perm, q.Trans = 1<<uint(i)|1<<uint(j), 0
						out = append(out, q)
					}
				}
			}
		}
		return
	}
	cfgs := withFaults(singleRuleConfigs(3, maxN), r.Thorough())
	single := len(cfgs)
	cfgs = append(cfgs, withFaults(twoRuleConfigs(n2, len2), false)...)
	exhaustive := true
	agg := map[string]int{}
	obs := 0
	var done int
	for ci, cfg := range cfgs {
		if r.Expired() {
			exhaustive = false
			break
		}
		g := &graph{edges: map[[2]uint32]edge{}}
		sc := seqCfg(cfg, g)
		before := r.Violations()
		res := seqx.Run(r, sc)
		if !res.Fixpoint {
			exhaustive = false
		}
		if res.ObsClasses > obs {
			obs = res.ObsClasses
		}
		_ = before
		vs, st := analyse(cfg, g, ci < single && cfg.Perm|cfg.Trans == 0)
		for _, v := range vs {
			r.Violation(v.fp, v.what, replayT{Config: cfg})
		}
		for k, v := range st {
			if strings.HasPrefix(k, "max_") {
				if v > agg[k] {
					agg[k] = v
				}
			} else {
				agg[k] += v
			}
		}
		done++
	}
	r.Set("configurations", map[string]int{"single_rule": single, "two_rules": len(cfgs) - single, "completed": done})
	r.Set("graph", agg)
	if firstOverRepl != "" {
		r.Set("example_two_rule_replication_with_all_primaries_present(not judged)", firstOverRepl)
	}
	r.Set("distinct_observation_classes", obs)
	r.Exhaustive(exhaustive)
	r.Rule(fmt.Sprintf("per configuration one BFS to fixpoint (seqx) from a pristine state whose first op picks ANY of the 2^N-1 initial replica distributions, then any node holding the object runs the real policer pass, in every order; configurations: one REP rule, N=3..%d reachable nodes, container = first m nodes (REP<=m<=N, the rest is outside the container), REP 1..3; two REP rules: every ordered pair of lists of 1..%d nodes over %d nodes up to renaming x REP 1..3; every configuration additionally with each REPLICATE fault pattern: none / one node (every position) refusing every replica / one node refusing its first replica (thorough, one rule: also two always-refusing nodes and always-refusing + refusing-once pairs), HEAD of such a node still answers 404. state = set of holders + pending one-time refusals; distinct non-trivial = distinct (configuration, holder set) states reached", maxN, len2, n2))
	r.Assume("stable network map, every node reachable (HEAD always answered); replicas are accepted except by the nodes of the configuration's fault pattern; the real replicator.HandleTask and putsvc.RemoteSender run between the policer and fake per-node clients that consume the object source exactly like the SDK client (read-once; prepared message cached only inside a DemuxReplicatedObject wrapper) - the model is calibrated against the real SDK client at start-up; one object (objects are independent in the policer); policer passes of different nodes do not overlap in time (each pass is atomic)",
		"convergence oracle: every state that is not 'settled' (all primary nodes hold the object and no replication can ever start again) has a pass that changes it, and the state-changing transitions among unsettled states form no cycle => every fair order settles; additionally round-robin rounds are simulated from every state. For one rule without faults the stricter reading is also enforced: no pass starts replication once all primaries hold the object. With a container node that refuses every replica the target is computed from the policy as: rules whose primaries can all take replicas hold it on all primaries, a rule with a refusing primary holds it on min(REP, list nodes able to take it) nodes of its list; replication to the refusing node is retried forever, so quiescence is not demanded there",
		"transient over-replication (copies on non-primary nodes that are dropped later) is measured (graph.max_simultaneous_copies), not judged")
	r.Finish()
}
