// C33: request signature chains are accepted only if every layer verifies.
//
// Engine enumx. Requests (object.GetRequest) are signed by the harness itself, from the protocol text,
// with 1..3 layers, every scheme (ECDSA_SHA512, RFC6979, WalletConnect, N3 witness), in the two protocol
// regimes (API < 2.25: origin chain; API >= 2.25: only the outermost layer is considered). Then EVERY single
// bit of every populated leaf of the request (body, meta chain, every signature key/sign/scheme of every
// layer) is flipped, every unset field is set, every signature slot is dropped/emptied, every layer is
// dropped, every layer permutation, every pair of signature slots swapped (whole / sign only / key only),
// scheme and key substitution menus, attacker re-signing, and every single bit of the wire encoding
// (decode -> verify). Each mutated request goes through the real icrypto.VerifyRequestSignatures,
// ...WithContext and ...N3 (with a stand-in chain running witness scripts in the real neo-go VM) under
// peer contexts {none, peer without auth, TLS without node key, authenticated node peer}.
//
// Oracle (provenance model, independent of the verification code and of any crypto): a signature slot is
// valid iff its (scheme,key,sign) triple was produced by a signer of the harness over exactly the bytes the
// slot must cover now. A request must be REJECTED unless the whole chain is valid in that sense; the pristine
// request and legitimately re-signed ones must be ACCEPTED; the only exemption (spec, see specExemption):
// no verification header at all + meta TTL == 1 + connection authenticated by peerauth (mutual TLS with a
// P-256 node key), and only at the context-aware entry points.
package main

import (
	"bytes"
	"context"
	"crypto/ecdsa"
	"crypto/ed25519"
	"crypto/elliptic"
	"crypto/rand"
	"crypto/sha256"
	"crypto/sha512"
	"crypto/tls"
	"crypto/x509"
	"flag"
	"fmt"
	"math/big"
	"os"
	"runtime/pprof"
	"sort"
	"strings"
	"sync"

	"github.com/nspcc-dev/neo-go/pkg/crypto/hash"
	icrypto "github.com/nspcc-dev/neofs-node/internal/crypto"
	"github.com/nspcc-dev/neofs-node/pkg/network/peerauth"
	"github.com/nspcc-dev/neofs-node/verif/lib/enumx"
	"github.com/nspcc-dev/neofs-node/verif/lib/ev"
	"github.com/nspcc-dev/neofs-node/verif/props/c33/vkit"
	protoobject "github.com/nspcc-dev/neofs-sdk-go/proto/object"
	"github.com/nspcc-dev/neofs-sdk-go/proto/refs"
	protosession "github.com/nspcc-dev/neofs-sdk-go/proto/session"
	"github.com/nspcc-dev/neofs-sdk-go/user"
	"google.golang.org/grpc/credentials"
	"google.golang.org/grpc/peer"
	"google.golang.org/protobuf/proto"
	"google.golang.org/protobuf/reflect/protoreflect"
)

const specExemption = "the exemption applies ONLY to requests with no verification header at all; exempt iff entry point is context-aware (VerifyRequestSignaturesWithContext / VerifyRequestSignaturesN3) " +
	"and the request has NO verification header and its meta header has TTL == 1 and the gRPC peer carries peerauth.AuthInfo " +
	"(TLS handshake presented a certificate with a P-256 key); CHANGELOG: 'SNs no longer sign TTL=1 requests over mutually authenticated inter-node connections (#4100)'"

type vhdr = protosession.RequestVerificationHeader

// ---------- configuration of a pristine request ----------

type config struct {
	Layers  int     `json:"layers"`
	Regime  string  `json:"regime"`  // "nover" | "M.m"
	Schemes []int32 `json:"schemes"` // per hop, hop 0 = original sender, last = outermost layer
	TTL     uint32  `json:"ttl"`     // TTL of the outermost meta header
}

func (c config) String() string {
	var s []string
	for _, x := range c.Schemes {
		s = append(s, vkit.SchemeNames[x])
	}
	return fmt.Sprintf("L%d/%s/%s/ttl%d", c.Layers, c.Regime, strings.Join(s, "+"), c.TTL)
}

func (c config) version() *refs.Version {
	if c.Regime == "nover" {
		return nil
	}
	var v refs.Version
	fmt.Sscanf(c.Regime, "%d.%d", &v.Major, &v.Minor)
	return &v
}

// spec: origin signatures/chain are part of the protocol for API < 2.25 (or unknown version) only.
func oldRegime(m *protosession.RequestMetaHeader) bool {
	if m == nil || m.Version == nil {
		return true
	}
	return m.Version.Major < 2 || (m.Version.Major == 2 && m.Version.Minor < 25)
}

type provKey struct {
	scheme int32
	key    string
	sign   string
}

type built struct {
	cfg     config
	req     *protoobject.GetRequest
	prov    map[provKey][]byte // what bytes a (scheme,key,sign) triple was produced over
	wire    []byte
	signers []vkit.Signer
}

func enc(m proto.Message) []byte {
	if m == nil || !m.ProtoReflect().IsValid() {
		return nil
	}
	b, err := proto.MarshalOptions{Deterministic: true}.Marshal(m)
	if err != nil {
		panic(err)
	}
	return b
}

func idBytes(label string) []byte {
	h := sha256.Sum256([]byte(label))
	return h[:]
}

func mkSig(prov map[provKey][]byte, s vkit.Signer, msg []byte) *refs.Signature {
	sg := &refs.Signature{Key: s.KeyBytes(), Sign: s.Sign(msg), Scheme: refs.SignatureScheme(s.Scheme)}
	prov[provKey{s.Scheme, string(sg.Key), string(sg.Sign)}] = append([]byte{}, msg...)
	return sg
}

func pristineBody() *protoobject.GetRequest_Body {
	return &protoobject.GetRequest_Body{Address: &refs.Address{
		ContainerId: &refs.ContainerID{Value: idBytes("c33-container")},
		ObjectId:    &refs.ObjectID{Value: idBytes("c33-object")},
	}, Raw: true}
}

// signLayer builds the verification layer of hop h over (body, meta, previous layer) following the protocol text.
func signLayer(prov map[provKey][]byte, s vkit.Signer, old bool, body *protoobject.GetRequest_Body, meta *protosession.RequestMetaHeader, prev *vhdr) *vhdr {
	v := &vhdr{Origin: prev}
	v.MetaSignature = mkSig(prov, s, enc(meta))
	if old {
		v.OriginSignature = mkSig(prov, s, enc(prev))
		if prev == nil {
			v.BodySignature = mkSig(prov, s, enc(body))
		}
	} else {
		v.BodySignature = mkSig(prov, s, enc(body))
	}
	return v
}

func build(c config) *built {
	b := &built{cfg: c, prov: map[provKey][]byte{}}
	body := pristineBody()
	var meta *protosession.RequestMetaHeader
	var vh *vhdr
	for h := 0; h < c.Layers; h++ {
		s := vkit.NewSigner(fmt.Sprintf("c33-hop%d", h), c.Schemes[h])
		b.signers = append(b.signers, s)
		m := &protosession.RequestMetaHeader{Version: c.version(), Ttl: c.TTL + uint32(c.Layers-1-h), Origin: meta}
		if h == 0 {
			m.Epoch = 13
			m.MagicNumber = 5
			m.XHeaders = []*protosession.XHeader{{Key: "k0", Value: "v0"}}
		}
		meta = m
		vh = signLayer(b.prov, s, oldRegime(meta), body, meta, vh)
	}
	b.req = &protoobject.GetRequest{Body: body, MetaHeader: meta, VerifyHeader: vh}
	b.wire = enc(b.req)
	return b
}

// ---------- mutations ----------

type mutation struct {
	Kind string `json:"kind"`
	Path []int  `json:"path,omitempty"`
	Byte int    `json:"byte,omitempty"`
	Bit  int    `json:"bit,omitempty"`
	A    int    `json:"a,omitempty"`
	B    int    `json:"b,omitempty"`
	Perm []int  `json:"perm,omitempty"`
	Val  int64  `json:"val,omitempty"`
	Flag bool   `json:"flag,omitempty"`
	Name string `json:"name,omitempty"`
	// Resign > 0: after the mutation the attacker, acting as the last hops, replaces the Resign outermost layers
	// by layers validly signed with its own keys (what a malicious forwarder can always do).
	Resign int `json:"resign,omitempty"`
}

func (m mutation) String() string {
	return fmt.Sprintf("%s%v/%d.%d/a%d/b%d/%v/%d/%v/%s/r%d", m.Kind, m.Path, m.Byte, m.Bit, m.A, m.B, m.Perm, m.Val, m.Flag, m.Name, m.Resign)
}

// pathDepth: layer depth (0 = outermost) a leaf path of the request belongs to; body = deepest (signed by the origin).
func pathDepth(path []int, layers int) int {
	origin := map[int]int{2: 7, 3: 4}[path[0]]
	if path[0] == 1 {
		return layers
	}
	d := 0
	for i := 1; i < len(path) && path[i] == origin; i++ {
		d++
	}
	return d
}

// legit mutations keep (or rebuild) a fully valid request; the model then demands acceptance.
func (m mutation) legit() bool { return m.Kind == "identity" || m.Kind == "resign-top" }

func layersOf(vh *vhdr) []*vhdr { // outermost first
	var r []*vhdr
	for v := vh; v != nil; v = v.Origin {
		r = append(r, v)
	}
	return r
}

func metasOf(m *protosession.RequestMetaHeader) []*protosession.RequestMetaHeader {
	var r []*protosession.RequestMetaHeader
	for ; m != nil; m = m.Origin {
		r = append(r, m)
	}
	return r
}

var slotKinds = [3]string{"body", "meta", "origin"}

func slotPtr(ls []*vhdr, slot int) **refs.Signature {
	v := ls[slot/3]
	switch slot % 3 {
	case 0:
		return &v.BodySignature
	case 1:
		return &v.MetaSignature
	}
	return &v.OriginSignature
}

func sortedFields(md protoreflect.MessageDescriptor) []protoreflect.FieldDescriptor {
	fds := md.Fields()
	r := make([]protoreflect.FieldDescriptor, 0, fds.Len())
	for i := 0; i < fds.Len(); i++ {
		r = append(r, fds.Get(i))
	}
	sort.Slice(r, func(i, j int) bool { return r[i].Number() < r[j].Number() })
	return r
}

func isMsg(fd protoreflect.FieldDescriptor) bool {
	return fd.Kind() == protoreflect.MessageKind || fd.Kind() == protoreflect.GroupKind
}

func flipCount(fd protoreflect.FieldDescriptor, v protoreflect.Value) (nbytes, bitsPer int) {
	switch fd.Kind() {
	case protoreflect.BytesKind:
		return len(v.Bytes()), 8
	case protoreflect.StringKind:
		return len(v.String()), 7
	case protoreflect.BoolKind:
		return 1, 1
	case protoreflect.Uint64Kind, protoreflect.Int64Kind, protoreflect.Fixed64Kind, protoreflect.Sfixed64Kind, protoreflect.Sint64Kind:
		return 1, 64
	case protoreflect.Uint32Kind, protoreflect.Int32Kind, protoreflect.Fixed32Kind, protoreflect.Sfixed32Kind, protoreflect.Sint32Kind, protoreflect.EnumKind:
		return 1, 32
	}
	panic("unsupported leaf kind " + fd.Kind().String())
}

func flipValue(fd protoreflect.FieldDescriptor, v protoreflect.Value, byteIdx, bit int) protoreflect.Value {
	switch fd.Kind() {
	case protoreflect.BytesKind:
		b := append([]byte{}, v.Bytes()...)
		b[byteIdx] ^= 1 << uint(bit)
		return protoreflect.ValueOfBytes(b)
	case protoreflect.StringKind:
		b := []byte(v.String())
		b[byteIdx] ^= 1 << uint(bit)
		return protoreflect.ValueOfString(string(b))
	case protoreflect.BoolKind:
		return protoreflect.ValueOfBool(!v.Bool())
	case protoreflect.Uint64Kind, protoreflect.Fixed64Kind:
		return protoreflect.ValueOfUint64(v.Uint() ^ 1<<uint(bit))
	case protoreflect.Int64Kind, protoreflect.Sfixed64Kind, protoreflect.Sint64Kind:
		return protoreflect.ValueOfInt64(v.Int() ^ 1<<uint(bit))
	case protoreflect.Uint32Kind, protoreflect.Fixed32Kind:
		return protoreflect.ValueOfUint32(uint32(v.Uint()) ^ 1<<uint(bit))
	case protoreflect.Int32Kind, protoreflect.Sfixed32Kind, protoreflect.Sint32Kind:
		return protoreflect.ValueOfInt32(int32(v.Int()) ^ int32(uint32(1)<<uint(bit)))
	case protoreflect.EnumKind:
		return protoreflect.ValueOfEnum(protoreflect.EnumNumber(int32(v.Enum()) ^ int32(uint32(1)<<uint(bit))))
	}
	panic("unsupported leaf kind")
}

func oneValue(fd protoreflect.FieldDescriptor) protoreflect.Value {
	switch fd.Kind() {
	case protoreflect.BytesKind:
		return protoreflect.ValueOfBytes([]byte{1})
	case protoreflect.StringKind:
		return protoreflect.ValueOfString("x")
	case protoreflect.BoolKind:
		return protoreflect.ValueOfBool(true)
	case protoreflect.Uint64Kind, protoreflect.Fixed64Kind:
		return protoreflect.ValueOfUint64(1)
	case protoreflect.Int64Kind, protoreflect.Sfixed64Kind, protoreflect.Sint64Kind:
		return protoreflect.ValueOfInt64(1)
	case protoreflect.Uint32Kind, protoreflect.Fixed32Kind:
		return protoreflect.ValueOfUint32(1)
	case protoreflect.Int32Kind, protoreflect.Sfixed32Kind, protoreflect.Sint32Kind:
		return protoreflect.ValueOfInt32(1)
	case protoreflect.EnumKind:
		return protoreflect.ValueOfEnum(1)
	}
	panic("unsupported leaf kind")
}

// walk visits every populated leaf (leaf) and every unpopulated field of every populated message (unset).
func walk(m protoreflect.Message, path []int, leaf func(path []int, fd protoreflect.FieldDescriptor, v protoreflect.Value), unset func(path []int, fd protoreflect.FieldDescriptor)) {
	for _, fd := range sortedFields(m.Descriptor()) {
		p := append(append([]int{}, path...), int(fd.Number()))
		if !m.Has(fd) {
			if unset != nil {
				unset(p, fd)
			}
			continue
		}
		switch {
		case fd.IsMap():
			panic("map field not expected")
		case fd.IsList():
			l := m.Get(fd).List()
			for i := 0; i < l.Len(); i++ {
				pi := append(append([]int{}, p...), i)
				if isMsg(fd) {
					walk(l.Get(i).Message(), pi, leaf, unset)
				} else if leaf != nil {
					leaf(pi, fd, l.Get(i))
				}
			}
		case isMsg(fd):
			walk(m.Get(fd).Message(), p, leaf, unset)
		default:
			if leaf != nil {
				leaf(p, fd, m.Get(fd))
			}
		}
	}
}

// navigate follows path to the message holding the final field; returns that message, the field, and a
// list index (-1 if the final element is not a list item).
func navigate(root protoreflect.Message, path []int) (protoreflect.Message, protoreflect.FieldDescriptor, int) {
	cur := root
	for i := 0; i < len(path); i++ {
		fd := cur.Descriptor().Fields().ByNumber(protoreflect.FieldNumber(path[i]))
		last := i == len(path)-1
		if fd.IsList() {
			if last {
				return cur, fd, -1
			}
			idx := path[i+1]
			i++
			if i == len(path)-1 && !isMsg(fd) {
				return cur, fd, idx
			}
			cur = cur.Mutable(fd).List().Get(idx).Message()
			if i == len(path)-1 {
				panic("path ends at a list message element")
			}
			continue
		}
		if last {
			return cur, fd, -1
		}
		cur = cur.Mutable(fd).Message()
	}
	panic("empty path")
}

var secpN = elliptic.P256().Params().N

func malleate(scheme int32, sig []byte) []byte {
	off := 0
	if scheme == vkit.SHA512 {
		off = 1
	}
	if len(sig) < off+64 {
		return nil
	}
	out := append([]byte{}, sig...)
	s := new(big.Int).SetBytes(sig[off+32 : off+64])
	s.Sub(secpN, s)
	s.FillBytes(out[off+32 : off+64])
	return out
}

// enumerate lists every mutation of the pristine request b (the enumeration IS the bound: nothing sampled).
func enumerate(b *built, wire, allBits bool) []mutation {
	var ms []mutation
	ms = append(ms, mutation{Kind: "identity"})
	walk(b.req.ProtoReflect(), nil,
		func(path []int, fd protoreflect.FieldDescriptor, v protoreflect.Value) {
			n, bits := flipCount(fd, v)
			for i := 0; i < n; i++ {
				for bit := 0; bit < bits; bit++ {
					ms = append(ms, mutation{Kind: "flip", Path: path, Byte: i, Bit: bit})
				}
			}
		},
		func(path []int, fd protoreflect.FieldDescriptor) {
			ms = append(ms, mutation{Kind: "set-unset", Path: path})
		})
	for _, k := range []string{"drop-vh", "empty-vh", "drop-meta", "drop-body"} {
		ms = append(ms, mutation{Kind: k})
	}
	ls := layersOf(b.req.VerifyHeader)
	L := len(ls)
	nslots := 3 * L
	for s := 0; s < nslots; s++ {
		cur := *slotPtr(ls, s)
		if cur == nil {
			continue
		}
		ms = append(ms, mutation{Kind: "drop-slot", A: s}, mutation{Kind: "empty-slot", A: s}, mutation{Kind: "resign-slot", A: s})
		for _, val := range []int64{-1, 0, 1, 2, 3, 4, 1<<31 - 1} {
			if int64(cur.Scheme) != val {
				ms = append(ms, mutation{Kind: "scheme-sub", A: s, Val: val})
			}
		}
		for _, nm := range []string{"attacker", "other-hop", "uncompressed", "empty", "zeros33", "infinity", "other-form"} {
			ms = append(ms, mutation{Kind: "key-menu", A: s, Name: nm})
		}
		for _, nm := range []string{"empty", "truncated", "extended", "zeros", "n3-pusht-ret", "n3-pusht", "n3-push1-ret", "n3-sig-then-pusht-ret", "attacker-sig", "malleated-high-s"} {
			ms = append(ms, mutation{Kind: "sign-menu", A: s, Name: nm})
		}
	}
	for a := 0; a < nslots; a++ {
		for c := a + 1; c < nslots; c++ {
			pa, pc := *slotPtr(ls, a), *slotPtr(ls, c)
			if pa == nil && pc == nil {
				continue
			}
			ms = append(ms, mutation{Kind: "swap-slots", A: a, B: c})
			if pa != nil && pc != nil {
				ms = append(ms, mutation{Kind: "swap-sign", A: a, B: c}, mutation{Kind: "swap-key", A: a, B: c})
			}
		}
	}
	for h := 0; h < L; h++ {
		ms = append(ms, mutation{Kind: "drop-layer", A: h}, mutation{Kind: "drop-layer", A: h, Flag: true})
		ms = append(ms, mutation{Kind: "drop-meta-layer", A: h})
	}
	ms = append(ms, mutation{Kind: "wrap-meta"})
	enumx.Perms(L, func(p []int) bool {
		id := true
		for i, x := range p {
			if i != x {
				id = false
			}
		}
		if !id {
			ms = append(ms, mutation{Kind: "perm", Perm: append([]int{}, p...)}, mutation{Kind: "perm", Perm: append([]int{}, p...), Flag: true})
		}
		return true
	})
	for k := 1; k <= L; k++ {
		ms = append(ms, mutation{Kind: "resign-top", A: k})
	}
	ms = append(ms, mutation{Kind: "body-swap-resign-origin"})
	// tamper with an inner layer (or the body), then re-sign every layer above it as a malicious forwarder:
	// every bit (quick: the lowest bit of every byte / every bit of scalars) of every leaf below the re-signed layers.
	for k := 1; k < L; k++ {
		for _, f := range ms {
			if f.Kind == "flip" && (allBits || f.Bit == 0) && pathDepth(f.Path, L) >= k {
				f.Resign = k
				ms = append(ms, f)
			}
		}
		for s := 3 * k; s < nslots; s++ {
			if *slotPtr(ls, s) != nil {
				ms = append(ms, mutation{Kind: "drop-slot", A: s, Resign: k}, mutation{Kind: "resign-slot", A: s, Resign: k},
					mutation{Kind: "key-menu", A: s, Name: "attacker", Resign: k}, mutation{Kind: "sign-menu", A: s, Name: "attacker-sig", Resign: k})
			}
		}
	}
	if wire {
		for i := 0; i < len(b.wire)*8; i++ {
			ms = append(ms, mutation{Kind: "wire-bit", Val: int64(i)})
		}
	}
	return ms
}

// apply returns the mutated request, provenance records created by the (attacker's) re-signing, and false
// if the mutation yields bytes that are not a decodable request (wire level only).
func apply(b *built, m mutation) (*protoobject.GetRequest, map[provKey][]byte, bool) {
	if m.Kind == "wire-bit" {
		w := append([]byte{}, b.wire...)
		w[m.Val/8] ^= 1 << uint(m.Val%8)
		req := new(protoobject.GetRequest)
		if err := proto.Unmarshal(w, req); err != nil {
			return nil, nil, false
		}
		return req, nil, true
	}
	req := proto.Clone(b.req).(*protoobject.GetRequest)
	extra := map[provKey][]byte{}
	ls := layersOf(req.VerifyHeader)
	metas := metasOf(req.MetaHeader)
	L := len(ls)
	relinkV := func(order []*vhdr) {
		for i := range order {
			if i+1 < len(order) {
				order[i].Origin = order[i+1]
			} else {
				order[i].Origin = nil
			}
		}
		if len(order) == 0 {
			req.VerifyHeader = nil
		} else {
			req.VerifyHeader = order[0]
		}
	}
	relinkM := func(order []*protosession.RequestMetaHeader) {
		for i := range order {
			if i+1 < len(order) {
				order[i].Origin = order[i+1]
			} else {
				order[i].Origin = nil
			}
		}
		if len(order) == 0 {
			req.MetaHeader = nil
		} else {
			req.MetaHeader = order[0]
		}
	}
	slotScheme := func(s int) int32 { return b.signers[L-1-s/3].Scheme }
	slotMsg := func(s int) []byte { // bytes the slot must cover in the CURRENT request
		d := s / 3
		switch s % 3 {
		case 0:
			return enc(req.Body)
		case 1:
			return enc(metas[d])
		}
		return enc(ls[d].Origin)
	}
	resignTop := func(k int) {
		var prev *vhdr
		if k < L {
			prev = ls[k]
		}
		for d := k - 1; d >= 0; d-- {
			at := vkit.NewSigner(fmt.Sprintf("c33-mallory%d", d), slotScheme(3*d))
			prev = signLayer(extra, at, oldRegime(req.MetaHeader), req.Body, metas[d], prev)
		}
		req.VerifyHeader = prev
	}
	if m.Resign > 0 {
		defer resignTop(m.Resign)
	}
	switch m.Kind {
	case "identity":
	case "flip":
		msg, fd, idx := navigate(req.ProtoReflect(), m.Path)
		if idx >= 0 {
			l := msg.Mutable(fd).List()
			l.Set(idx, flipValue(fd, l.Get(idx), m.Byte, m.Bit))
		} else {
			msg.Set(fd, flipValue(fd, msg.Get(fd), m.Byte, m.Bit))
		}
	case "set-unset":
		msg, fd, _ := navigate(req.ProtoReflect(), m.Path)
		switch {
		case fd.IsList():
			l := msg.Mutable(fd).List()
			if isMsg(fd) {
				l.AppendMutable()
			} else {
				l.Append(oneValue(fd))
			}
		case isMsg(fd):
			msg.Mutable(fd)
		default:
			msg.Set(fd, oneValue(fd))
		}
	case "drop-vh":
		req.VerifyHeader = nil
	case "empty-vh":
		req.VerifyHeader = &vhdr{}
	case "drop-meta":
		req.MetaHeader = nil
	case "drop-body":
		req.Body = nil
	case "drop-slot":
		*slotPtr(ls, m.A) = nil
	case "empty-slot":
		*slotPtr(ls, m.A) = &refs.Signature{}
	case "resign-slot":
		at := vkit.NewSigner("c33-mallory", slotScheme(m.A))
		*slotPtr(ls, m.A) = mkSig(extra, at, slotMsg(m.A))
	case "scheme-sub":
		(*slotPtr(ls, m.A)).Scheme = refs.SignatureScheme(m.Val)
	case "key-menu":
		sg := *slotPtr(ls, m.A)
		hop := L - 1 - m.A/3
		own := b.signers[hop]
		switch m.Name {
		case "attacker":
			sg.Key = vkit.NewSigner("c33-mallory", own.Scheme).KeyBytes()
		case "other-hop":
			sg.Key = vkit.NewSigner(fmt.Sprintf("c33-hop%d", (hop+1)%3), own.Scheme).KeyBytes()
		case "uncompressed":
			// same public key in another SEC1 form: still a genuine signature of the same signer over the same
			// bytes (for ECDSA schemes), so it is recorded as such; the property is silent on key encodings.
			if want, ok := b.prov[provKey{int32(sg.Scheme), string(sg.Key), string(sg.Sign)}]; ok && own.Scheme != vkit.N3 {
				extra[provKey{int32(sg.Scheme), string(own.Priv.PublicKey().UncompressedBytes()), string(sg.Sign)}] = want
			}
			sg.Key = own.Priv.PublicKey().UncompressedBytes()
		case "empty":
			sg.Key = nil
		case "zeros33":
			sg.Key = make([]byte, 33)
		case "infinity":
			sg.Key = []byte{0}
		case "other-form": // verification script where a public key is expected and vice versa
			if own.Scheme == vkit.N3 {
				sg.Key = own.Priv.PublicKey().Bytes()
			} else {
				sg.Key = own.Priv.PublicKey().GetVerificationScript()
			}
		}
	case "sign-menu":
		sg := *slotPtr(ls, m.A)
		switch m.Name {
		case "empty":
			sg.Sign = nil
		case "truncated":
			sg.Sign = append([]byte{}, sg.Sign[:len(sg.Sign)-1]...)
		case "extended":
			sg.Sign = append(append([]byte{}, sg.Sign...), 0)
		case "zeros":
			sg.Sign = make([]byte, len(sg.Sign))
		case "n3-pusht-ret":
			sg.Sign = []byte{0x08, 0x40}
		case "n3-pusht":
			sg.Sign = []byte{0x08}
		case "n3-push1-ret":
			sg.Sign = []byte{0x11, 0x40}
		case "n3-sig-then-pusht-ret":
			sg.Sign = append(append([]byte{}, sg.Sign...), 0x08, 0x40)
		case "attacker-sig":
			sg.Sign = vkit.NewSigner("c33-mallory", slotScheme(m.A)).Sign(slotMsg(m.A))
		case "malleated-high-s":
			if slotScheme(m.A) != vkit.N3 {
				// (r, n-s) is the other genuine ECDSA signature of the same signer over the same bytes
				if x := malleate(slotScheme(m.A), sg.Sign); x != nil {
					if want, ok := b.prov[provKey{int32(sg.Scheme), string(sg.Key), string(sg.Sign)}]; ok {
						extra[provKey{int32(sg.Scheme), string(sg.Key), string(x)}] = want
					}
					sg.Sign = x
				}
			}
		}
	case "swap-slots":
		pa, pb := slotPtr(ls, m.A), slotPtr(ls, m.B)
		*pa, *pb = *pb, *pa
	case "swap-sign":
		pa, pb := *slotPtr(ls, m.A), *slotPtr(ls, m.B)
		pa.Sign, pb.Sign = pb.Sign, pa.Sign
	case "swap-key":
		pa, pb := *slotPtr(ls, m.A), *slotPtr(ls, m.B)
		pa.Key, pb.Key = pb.Key, pa.Key
	case "drop-layer", "drop-meta-layer":
		d := L - 1 - m.A // depth from the outermost layer
		if m.Kind == "drop-layer" {
			relinkV(append(append([]*vhdr{}, ls[:d]...), ls[d+1:]...))
		}
		if m.Flag || m.Kind == "drop-meta-layer" {
			relinkM(append(append([]*protosession.RequestMetaHeader{}, metas[:d]...), metas[d+1:]...))
		}
	case "wrap-meta":
		req.MetaHeader = &protosession.RequestMetaHeader{Version: b.cfg.version(), Ttl: b.cfg.TTL, Origin: req.MetaHeader}
	case "perm":
		nv := make([]*vhdr, L)
		nm := make([]*protosession.RequestMetaHeader, L)
		for i, p := range m.Perm {
			nv[i], nm[i] = ls[p], metas[p]
		}
		relinkV(nv)
		if m.Flag {
			relinkM(nm)
		}
	case "resign-top": // the last A hops are replaced by the attacker acting as a regular forwarder / sender
		resignTop(m.A)
	case "body-swap-resign-origin": // attacker replaces the body and re-signs the ORIGINAL sender's layer only
		req.Body.Address.ObjectId.Value = idBytes("c33-other-object")
		at := vkit.NewSigner("c33-mallory", slotScheme(3*(L-1)))
		nl := signLayer(extra, at, oldRegime(req.MetaHeader), req.Body, metas[L-1], nil)
		if L == 1 {
			req.VerifyHeader = nl
		} else {
			ls[L-2].Origin = nl
		}
	default:
		panic("unknown mutation " + m.Kind)
	}
	return req, extra, true
}

// ---------- environment (entry point x peer context) ----------

type env struct {
	Entry int `json:"entry"` // 0 VerifyRequestSignatures, 1 ...WithContext, 2 ...N3
	Ctx   int `json:"ctx"`   // 0 no peer, 1 peer without auth info, 2 peer with plain TLS info, 3 peerauth.AuthInfo
}

var entryNames = [3]string{"plain", "ctx", "n3"}
var ctxNames = [4]string{"nopeer", "peer-noauth", "peer-tls-only", "peer-authenticated"}

func (e env) String() string { return entryNames[e.Entry] + "/" + ctxNames[e.Ctx] }

var ctxs [4]context.Context
var chain = &vkit.Chain{}

func selfSignedCert(r *ev.Run, pub, priv any) *x509.Certificate {
	tmpl := &x509.Certificate{SerialNumber: big.NewInt(1)}
	der, err := x509.CreateCertificate(rand.Reader, tmpl, tmpl, pub, priv)
	if err != nil {
		r.Fatal("certificate: %v", err)
	}
	c, err := x509.ParseCertificate(der)
	if err != nil {
		r.Fatal("certificate: %v", err)
	}
	return c
}

func initContexts(r *ev.Run) {
	k := vkit.Key("c33-peer-node")
	cert := selfSignedCert(r, &k.PrivateKey.PublicKey, &k.PrivateKey)
	tlsInfo := credentials.TLSInfo{State: tls.ConnectionState{PeerCertificates: []*x509.Certificate{cert}}}
	ai, err := peerauth.NewAuthInfo(tlsInfo)
	if err != nil {
		r.Fatal("NewAuthInfo: %v", err)
	}
	ctxs[0] = context.Background()
	ctxs[1] = peer.NewContext(context.Background(), &peer.Peer{})
	ctxs[2] = peer.NewContext(context.Background(), &peer.Peer{AuthInfo: tlsInfo})
	ctxs[3] = peer.NewContext(context.Background(), &peer.Peer{AuthInfo: ai})
}

func runImpl(req *protoobject.GetRequest, e env) (err error, panicked any) {
	defer func() {
		if p := recover(); p != nil {
			panicked = p
		}
	}()
	switch e.Entry {
	case 0:
		return icrypto.VerifyRequestSignatures[*protoobject.GetRequest_Body](req), nil
	case 1:
		return icrypto.VerifyRequestSignaturesWithContext[*protoobject.GetRequest_Body](ctxs[e.Ctx], req), nil
	}
	return icrypto.VerifyRequestSignaturesN3[*protoobject.GetRequest_Body](ctxs[e.Ctx], req, chain), nil
}

// ---------- reference model ----------

const (
	mustReject = iota
	mustAccept
	either
)

var verdictNames = [3]string{"reject", "accept", "either"}

type modelResult struct {
	verdict int
	why     string
	badSlot string // kind of the first invalid slot
	badSch  int32  // scheme number found in the first invalid slot (or -100)
	exempt  bool
	bodyOK  bool // outermost layer carries a valid body signature
	chainOK bool
}

func stripUnknown(m protoreflect.Message) {
	m.SetUnknown(nil)
	m.Range(func(fd protoreflect.FieldDescriptor, v protoreflect.Value) bool {
		if isMsg(fd) {
			if fd.IsList() {
				l := v.List()
				for i := 0; i < l.Len(); i++ {
					stripUnknown(l.Get(i).Message())
				}
			} else if !fd.IsMap() {
				stripUnknown(v.Message())
			}
		}
		return true
	})
}

func model(b *built, req *protoobject.GetRequest, extra map[provKey][]byte, e env, m mutation) modelResult {
	res := modelResult{badSch: -100}
	n3ok := e.Entry == 2
	ctxAware := e.Entry != 0
	trusted := e.Ctx == 3
	meta := req.MetaHeader
	oneHopTrusted := ctxAware && trusted && meta != nil && meta.Ttl == 1
	if oneHopTrusted && req.VerifyHeader == nil {
		return modelResult{verdict: mustAccept, why: "exemption", exempt: true, badSch: -100}
	}
	if req.VerifyHeader == nil {
		return modelResult{verdict: mustReject, why: "no-verification-header", badSlot: "header", badSch: -100}
	}
	valid := func(kind string, msg []byte, sg *refs.Signature) bool {
		ok := false
		if sg != nil {
			want, found := b.prov[provKey{int32(sg.Scheme), string(sg.Key), string(sg.Sign)}]
			if !found {
				want, found = extra[provKey{int32(sg.Scheme), string(sg.Key), string(sg.Sign)}]
			}
			supported := sg.Scheme >= 0 && sg.Scheme <= 3 && (int32(sg.Scheme) != vkit.N3 || n3ok)
			ok = found && supported && bytes.Equal(want, msg)
		}
		if !ok && res.badSlot == "" {
			res.badSlot = kind
			if sg != nil {
				res.badSch = int32(sg.Scheme)
			}
		}
		return ok
	}
	body := enc(req.Body)
	countMismatch, extraBody := false, false
	chainOK := true
	if !oldRegime(meta) {
		v := req.VerifyHeader
		mOK := valid("meta", enc(meta), v.MetaSignature)
		bOK := valid("body", body, v.BodySignature)
		chainOK = mOK && bOK
		res.bodyOK = bOK
	} else {
		mm, v := meta, req.VerifyHeader
		for depth := 0; ; depth++ {
			if !valid("meta", enc(mm), v.MetaSignature) || !valid("origin", enc(v.Origin), v.OriginSignature) {
				chainOK = false
				break
			}
			if v.Origin == nil {
				if mm.GetOrigin() != nil {
					countMismatch = true
				}
				bOK := valid("body", body, v.BodySignature)
				if depth == 0 {
					res.bodyOK = bOK
				}
				chainOK = bOK
				break
			}
			if v.BodySignature != nil {
				if !valid("body", body, v.BodySignature) {
					chainOK = false
					break
				}
				extraBody = true
				if depth == 0 {
					res.bodyOK = true
				}
			}
			if mm.GetOrigin() == nil {
				countMismatch = true
			}
			mm, v = mm.GetOrigin(), v.Origin
		}
	}
	res.chainOK = chainOK
	switch {
	case !chainOK:
		// the exemption applies ONLY to requests with no verification header at all: a request that carries a header
		// is judged by its signatures whatever the TTL and the peer are
		res.verdict, res.why = mustReject, "invalid-"+res.badSlot
		if oneHopTrusted {
			res.why += "(one-hop-authenticated-peer-but-header-present)"
		}
	case m.legit() && !countMismatch && !extraBody:
		res.verdict, res.why = mustAccept, "valid chain"
	default:
		res.verdict, res.why = either, "all covered signatures valid after a mutation of parts the protocol does not cover"
	}
	return res
}

// ---------- classification helpers ----------

func (b *built) mutClass(m mutation) string {
	L := b.cfg.Layers
	switch m.Kind {
	case "flip", "set-unset":
		switch m.Path[0] {
		case 1:
			return "body"
		case 2:
			return "meta"
		}
		depth := 0
		i := 1
		for i < len(m.Path) && m.Path[i] == 4 {
			depth++
			i++
		}
		if i >= len(m.Path) {
			return "vh.origin-field"
		}
		slot := slotKinds[m.Path[i]-1]
		leaf := "slot"
		if i+1 < len(m.Path) {
			leaf = [...]string{"", "key", "sign", "scheme"}[m.Path[i+1]]
		}
		sch := "?"
		if depth < L {
			sch = vkit.SchemeNames[b.signers[L-1-depth].Scheme]
		}
		return fmt.Sprintf("vh.%s.%s[%s]", slot, leaf, sch)
	case "sign-menu", "swap-sign":
		return fmt.Sprintf("vh.%s.sign[%s]", slotKinds[m.A%3], vkit.SchemeNames[b.signers[L-1-m.A/3].Scheme])
	case "key-menu", "swap-key":
		return fmt.Sprintf("vh.%s.key[%s]", slotKinds[m.A%3], vkit.SchemeNames[b.signers[L-1-m.A/3].Scheme])
	case "scheme-sub":
		return fmt.Sprintf("vh.%s.scheme[%s]", slotKinds[m.A%3], vkit.SchemeNames[b.signers[L-1-m.A/3].Scheme])
	}
	return "structure:" + m.Kind
}

// diffClass names the first leaf in which a decoded request differs from the pristine one (wire-level mutations).
func (b *built) diffClass(req *protoobject.GetRequest) string {
	type lv struct {
		path []int
		val  string
	}
	collect := func(m *protoobject.GetRequest) (r []lv) {
		walk(m.ProtoReflect(), nil, func(path []int, _ protoreflect.FieldDescriptor, v protoreflect.Value) {
			r = append(r, lv{path, fmt.Sprint(v.Interface())})
		}, nil)
		return
	}
	x, y := collect(b.req), collect(req)
	for i := range x {
		if i >= len(y) || fmt.Sprint(x[i].path) != fmt.Sprint(y[i].path) {
			return "structure:wire-bit"
		}
		if x[i].val != y[i].val {
			return b.mutClass(mutation{Kind: "flip", Path: x[i].path})
		}
	}
	return "structure:wire-bit"
}

func leafOf(class string) string {
	switch {
	case strings.Contains(class, ".sign["):
		return "sign"
	case strings.Contains(class, ".key["):
		return "key"
	case strings.Contains(class, ".scheme["):
		return "scheme"
	}
	return class
}

func schemeName(s int32) string {
	if n, ok := vkit.SchemeNames[s]; ok {
		return n
	}
	if s == -100 {
		return "none"
	}
	return "unsupported"
}

func expectedUser(scheme int32, key []byte) (user.ID, bool) {
	if scheme == vkit.N3 {
		return user.NewFromScriptHash(hash.Hash160(key)), true
	}
	x, y := elliptic.UnmarshalCompressed(elliptic.P256(), key)
	if x == nil {
		if len(key) == 65 {
			x, y = elliptic.Unmarshal(elliptic.P256(), key) //nolint:staticcheck
		}
		if x == nil {
			return user.ID{}, false
		}
	}
	// single-signature account: PUSHDATA1 33 <compressed key> SYSCALL System.Crypto.CheckSig
	comp := elliptic.MarshalCompressed(elliptic.P256(), x, y)
	script := append([]byte{0x0c, 33}, comp...)
	script = append(script, 0x41, 0x56, 0xe7, 0xb3, 0x27)
	return user.NewFromScriptHash(hash.Hash160(script)), true
}

// ---------- main ----------

type tcase struct {
	Cfg config   `json:"cfg"`
	Mut mutation `json:"mut"`
	Env env      `json:"env"`
	// part W (witness.go)
	Witness *witCase `json:"witness,omitempty"`
}

type world struct {
	r        *ev.Run
	mu       sync.Mutex
	classes  map[string]int64
	viols    map[string]int64
	accepted map[string]bool
	builds   sync.Map
}

func (w *world) built(c config) *built {
	if v, ok := w.builds.Load(c.String()); ok {
		return v.(*built)
	}
	b := build(c)
	v, _ := w.builds.LoadOrStore(c.String(), b)
	return v.(*built)
}

func (w *world) viol(fp, what string, rep any) {
	w.mu.Lock()
	w.viols[fp]++
	w.mu.Unlock()
	w.r.Violation(fp, what, rep)
}

func (w *world) class(k string) {
	w.mu.Lock()
	w.classes[k]++
	w.mu.Unlock()
}

func (w *world) check(b *built, m mutation, envs []env) {
	r := w.r
	req, extra, ok := apply(b, m)
	if !ok {
		r.Eval(1)
		w.class("undecodable-wire")
		return
	}
	mreq := req
	if m.Kind == "wire-bit" {
		mreq = proto.Clone(req).(*protoobject.GetRequest)
		stripUnknown(mreq.ProtoReflect())
	}
	cls := b.mutClass(m)
	for _, e := range envs {
		r.Eval(1)
		tc := tcase{Cfg: b.cfg, Mut: m, Env: e}
		mr := model(b, mreq, extra, e, m)
		err, pan := runImpl(req, e)
		if pan != nil {
			w.viol("panic-in-verification:"+leafOf(cls), fmt.Sprintf("%v %v %v: panic %v", b.cfg, m, e, pan), tc)
			continue
		}
		accepted := err == nil
		oc := "rejected"
		if accepted {
			oc = "accepted"
		}
		w.class(fmt.Sprintf("model=%s impl=%s why=%s", verdictNames[mr.verdict], oc, strings.SplitN(mr.why, " ", 2)[0]))
		if mr.verdict != either && m.Kind != "identity" {
			r.Nontrivial(b.cfg.String() + "|" + m.String() + "|" + e.String())
		}
		switch {
		case accepted && mr.verdict == mustReject:
			if m.Kind == "wire-bit" {
				cls = b.diffClass(mreq)
			}
			fp := fmt.Sprintf("accepted-unauthentic:first-invalid-slot-scheme=%s:mutated=%s", schemeName(mr.badSch), leafOf(cls))
			if strings.Contains(mr.why, "header-present") {
				if _, pan2 := runImpl(req, env{e.Entry, 2}); pan2 == nil {
					if err2, _ := runImpl(req, env{e.Entry, 2}); err2 != nil {
						// rejected from a non-authenticated peer, accepted from the authenticated one: the exemption leaked
						fp = "exemption-applied-to-a-request-carrying-a-verification-header:mutated=" + leafOf(cls)
					}
				}
			}
			if m.Resign > 0 {
				fp += ":outer-layers-resigned-by-forwarder"
			}
			w.mu.Lock()
			if len(w.accepted) < 400 {
				w.accepted[fmt.Sprintf("%v %s %v", b.cfg, cls, m)] = true
			}
			w.mu.Unlock()
			w.viol(fp, fmt.Sprintf("request %v, mutation %v (%s), entry %v: ACCEPTED although %s (slot scheme %s); spec: must be rejected",
				b.cfg, m, cls, e, mr.why, schemeName(mr.badSch)), tc)
		case !accepted && mr.verdict == mustAccept:
			what := "pristine"
			if mr.exempt {
				what = "exempt-one-hop"
			} else if m.Kind != "identity" {
				what = m.Kind
			}
			w.viol("rejected-authentic:"+what, fmt.Sprintf("request %v, mutation %v, entry %v: rejected (%v) although %s", b.cfg, m, e, err, mr.why), tc)
		}
		if accepted && !mr.exempt && mr.chainOK && req.VerifyHeader != nil {
			w.checkAuthor(b, req, mr, tc, cls)
		}
		if r.WantSample() && m.Kind != "identity" && mr.verdict == mustReject && (m.Kind == "perm" || m.Kind == "swap-slots" || (m.Kind == "flip" && m.Bit == 3 && m.Byte == 7)) {
			r.Sample(map[string]any{"case": tc, "class": cls, "model": verdictNames[mr.verdict], "why": mr.why, "impl_error": fmt.Sprint(err)})
		}
	}
}

// After a request was accepted by signature verification, services take the author from the outermost
// header (acl/v2 getRequestCredentials -> icrypto.GetRequestAuthor). Safety: an author may be reported only
// if that key really produced a valid body signature of this very body, and the user ID must be that key's account.
func (w *world) checkAuthor(b *built, req *protoobject.GetRequest, mr modelResult, tc tcase, cls string) {
	var (
		id  user.ID
		key []byte
		err error
		pan any
	)
	func() {
		defer func() { pan = recover() }()
		id, key, err = icrypto.GetRequestAuthor(req.VerifyHeader)
	}()
	if pan != nil {
		w.viol("author-panic-after-accept:"+leafOf(cls), fmt.Sprintf("%+v: GetRequestAuthor panicked on an accepted request: %v", tc, pan), tc)
		return
	}
	if err != nil {
		w.class("author=error")
		return
	}
	bs := req.VerifyHeader.BodySignature
	if mr.verdict == mustReject {
		return // already reported as accepted-unauthentic
	}
	if !mr.bodyOK || bs == nil || !bytes.Equal(key, bs.Key) {
		w.viol("author-without-valid-body-signature:"+leafOf(cls), fmt.Sprintf("%+v: author %s reported but the outermost body signature is not valid", tc, id), tc)
		return
	}
	want, ok := expectedUser(int32(bs.Scheme), bs.Key)
	if !ok || want != id {
		w.viol("author-id-mismatch:"+schemeName(int32(bs.Scheme)), fmt.Sprintf("%+v: author %s, expected account of the body signer %s", tc, id, want), tc)
		return
	}
	w.class("author=body-signer")
}

func allEnvs() []env {
	es := []env{{0, 0}}
	for en := 1; en <= 2; en++ {
		for c := 0; c < 4; c++ {
			es = append(es, env{en, c})
		}
	}
	return es
}

func selfChecks(r *ev.Run, w *world) {
	// (1) the independent encoder used by the harness signer/model equals the protocol's stable marshalling
	//     on every signed part of every pristine request; (2) every pristine ECDSA signature verifies under a
	//     reference verification written on crypto/ecdsa; (3) the authenticated context is what peerauth says.
	w.builds.Range(func(_, v any) bool {
		b := v.(*built)
		parts := []interface {
			proto.Message
			MarshaledSize() int
			MarshalStable([]byte)
		}{b.req.Body}
		for _, m := range metasOf(b.req.MetaHeader) {
			parts = append(parts, m)
		}
		for _, l := range layersOf(b.req.VerifyHeader) {
			parts = append(parts, l)
		}
		for _, p := range parts {
			st := make([]byte, p.MarshaledSize())
			p.MarshalStable(st)
			if !bytes.Equal(st, enc(p)) {
				r.Fatal("stable marshalling differs from deterministic protobuf marshalling for %T in %v", p, b.cfg)
			}
		}
		for k, msg := range b.prov {
			if k.scheme != vkit.N3 && !vkit.RefVerify(k.scheme, []byte(k.key), []byte(k.sign), msg) {
				r.Fatal("harness signer produced a signature that the reference verification rejects (%v scheme %d)", b.cfg, k.scheme)
			}
		}
		return true
	})
	for i, ctx := range ctxs {
		r.Eval(1)
		if got := peerauth.IsTrustedPeer(ctx); got != (i == 3) {
			w.viol("peerauth-context-classification:ctx="+ctxNames[i], fmt.Sprintf("IsTrustedPeer(%s) = %v; spec: only a peer whose TLS handshake produced peerauth.AuthInfo is an authenticated node", ctxNames[i], got), map[string]any{"peerauth": ctxNames[i]})
		}
	}
}

// peerauthCases: which TLS peers become "authenticated": exactly those presenting a certificate with a P-256 key,
// and the reported peer key is the certificate's key.
func peerauthCases(r *ev.Run, w *world) {
	p256 := vkit.Key("c33-peer-node")
	h := sha512.Sum384([]byte("c33-p384"))
	k384 := new(ecdsa.PrivateKey)
	k384.Curve = elliptic.P384()
	k384.D = new(big.Int).SetBytes(h[:])
	k384.D.Mod(k384.D, new(big.Int).Sub(elliptic.P384().Params().N, big.NewInt(1))).Add(k384.D, big.NewInt(1))
	k384.X, k384.Y = elliptic.P384().ScalarBaseMult(k384.D.Bytes())
	seed := sha256.Sum256([]byte("c33-ed25519"))
	ked := ed25519.NewKeyFromSeed(seed[:])
	type pc struct {
		name    string
		certs   []*x509.Certificate
		trusted bool
	}
	cP256 := selfSignedCert(r, &p256.PrivateKey.PublicKey, &p256.PrivateKey)
	c384 := selfSignedCert(r, &k384.PublicKey, k384)
	cEd := selfSignedCert(r, ked.Public(), ked)
	cases := []pc{
		{"no-certificate", nil, false},
		{"p256", []*x509.Certificate{cP256}, true},
		{"p384", []*x509.Certificate{c384}, false},
		{"ed25519", []*x509.Certificate{cEd}, false},
		{"p384-then-p256", []*x509.Certificate{c384, cP256}, false},
		{"p256-then-p384", []*x509.Certificate{cP256, c384}, true},
	}
	for _, c := range cases {
		r.Eval(1)
		info := credentials.TLSInfo{State: tls.ConnectionState{PeerCertificates: c.certs}}
		ai, err := peerauth.NewAuthInfo(info)
		got := err == nil
		w.class(fmt.Sprintf("peerauth cert=%s trusted=%v", c.name, got))
		r.Nontrivial("peerauth|" + c.name)
		if got != c.trusted {
			w.viol("peerauth-classification:"+c.name, fmt.Sprintf("TLS peer %s: authenticated=%v, spec %v", c.name, got, c.trusted), map[string]any{"peerauth": c.name})
			continue
		}
		if got {
			ctx := peer.NewContext(context.Background(), &peer.Peer{AuthInfo: ai})
			k, err := peerauth.PeerPublicKey(ctx)
			if err != nil || k == nil || !bytes.Equal(k.Bytes(), p256.PublicKey().Bytes()) || !peerauth.IsTrustedPeer(ctx) {
				w.viol("peerauth-key-mismatch", "authenticated peer key differs from the certificate key", map[string]any{"peerauth": c.name})
			}
		}
	}
}

func main() {
	prof := flag.String("cpuprofile", "", "write a CPU profile (debugging aid)")
	r := ev.Start("C33", ev.Exploration)
	if *prof != "" {
		f, _ := os.Create(*prof)
		pprof.StartCPUProfile(f)
		defer pprof.StopCPUProfile()
	}
	initContexts(r)
	w := &world{r: r, classes: map[string]int64{}, viols: map[string]int64{}, accepted: map[string]bool{}}
	if r.Replay != "" {
		var tc tcase
		r.LoadReplay(&tc)
		if tc.Witness != nil {
			accts := map[string]witAccount{}
			for _, a := range witnessAccounts() {
				accts[a.name] = a
			}
			w.witnessCase(accts, *tc.Witness)
		} else if tc.Cfg.Layers > 0 {
			w.check(w.built(tc.Cfg), tc.Mut, []env{tc.Env})
		} else {
			peerauthCases(r, w)
		}
		r.Finish()
	}

	// ---- pristine request configurations ----
	var cfgs []config
	regimes := []string{"2.24", "2.25"}
	if r.Thorough() {
		regimes = []string{"2.24", "2.25", "nover", "3.0"}
	}
	for L := 1; L <= 3; L++ {
		var combos [][]int32
		if r.Thorough() {
			enumx.Seqs(4, L, func(s []int) bool {
				c := make([]int32, L)
				for i, x := range s {
					c[i] = int32(x)
				}
				combos = append(combos, c)
				return true
			})
		} else {
			for s := int32(0); s < 4; s++ { // uniform chains of every scheme
				c := make([]int32, L)
				for i := range c {
					c[i] = s
				}
				combos = append(combos, c)
			}
			if L > 1 { // and two mixed chains that put every scheme at every position across them
				a, bb := make([]int32, L), make([]int32, L)
				for i := range a {
					a[i] = int32(i) % 4
					bb[i] = int32(3-i) % 4
				}
				combos = append(combos, a, bb)
			}
		}
		for ri, reg := range regimes {
			for si, sc := range combos {
				for _, ttl := range []uint32{1, 2} {
					// quick: the outer TTL alternates over (regime, scheme assignment) instead of being crossed with them
					if (r.Quick() && L > 1 || L == 3) && uint32((ri+si)%2)+1 != ttl {
						continue
					}
					if L == 3 && ri >= 2 { // three layers: the two regimes at the 2.25 boundary only
						continue
					}
					cfgs = append(cfgs, config{Layers: L, Regime: reg, Schemes: sc, TTL: ttl})
				}
			}
		}
	}
	enumx.Parallel(len(cfgs), func(i int) { w.built(cfgs[i]) })
	selfChecks(r, w)
	peerauthCases(r, w)
	w.witnessPart(r.Thorough()) // small, runs first

	// ---- jobs: (configuration, chunk of mutations) ----
	type job struct {
		b    *built
		ms   []mutation
		envs func(m mutation) []env
	}
	every := allEnvs()
	// Bit-level mutations are run where the verdict is decided by the signatures: the N3-capable entry with an
	// unauthenticated TLS peer and with an authenticated peer, plus the plain entry; all other mutations under all 9.
	pickFor := func(c config) func(m mutation) []env {
		// quick: one decided environment per configuration for bit-level mutations: TTL 1 with a TLS peer that is NOT
		// an authenticated node, TTL 2 with an authenticated node peer (the exemption must apply to neither).
		bitEnvs := []env{{2, 2}}
		if c.TTL != 1 {
			bitEnvs = []env{{2, 3}}
		}
		if r.Thorough() {
			bitEnvs = append(bitEnvs, env{0, 0})
			if c.Layers < 3 {
				bitEnvs = []env{{2, 2}, {2, 3}, {0, 0}, {1, 0}, {1, 3}}
			}
		}
		return func(m mutation) []env {
			switch {
			case m.Kind == "flip" && m.Bit == 0 && (m.Byte == 0 || r.Thorough()), m.Kind == "wire-bit" && m.Val%64 == 0:
				// one flip per leaf (thorough: per byte) and one per 8 wire bytes go through EVERY entry point x peer context, so that
				// header-carrying tampered requests meet the authenticated-peer context at both TTLs
				return every
			case m.Kind == "flip" || m.Kind == "wire-bit":
				return bitEnvs
			}
			return every
		}
	}
	var jobs []job
	total := 0
	for _, c := range cfgs {
		b := w.built(c)
		wire := r.Thorough() || c.TTL == 1 || c.Layers > 1
		ms := enumerate(b, wire, r.Thorough())
		total += len(ms)
		for i := 0; i < len(ms); i += 512 {
			jobs = append(jobs, job{b, ms[i:min(i+512, len(ms))], pickFor(c)})
		}
	}
	expired := false
	enumx.Parallel(len(jobs), func(i int) {
		if r.Expired() {
			expired = true
			return
		}
		for _, m := range jobs[i].ms {
			w.check(jobs[i].b, m, jobs[i].envs(m))
		}
	})

	// ---- exemption product: unsigned / signed / badly signed x meta x entry x peer context ----
	base := w.built(config{Layers: 1, Regime: "2.25", Schemes: []int32{1}, TTL: 1})
	for _, vhKind := range []string{"identity", "drop-vh", "empty-vh"} {
		for _, ttl := range []int{-1, 0, 1, 2, 3, 1 << 31} {
			for _, reg := range []string{"2.24", "2.25"} {
				for _, bodyFlip := range []bool{false, true} {
					c := config{Layers: 1, Regime: reg, Schemes: []int32{1}, TTL: 1}
					b := w.built(c)
					req, _, _ := apply(b, mutation{Kind: vhKind})
					switch {
					case ttl < 0:
						req.MetaHeader = nil
					default:
						req.MetaHeader.Ttl = uint32(ttl)
					}
					if bodyFlip {
						req.Body.Raw = false
					}
					// this derived request becomes its own "pristine" with the provenance of the original one
					d := &built{cfg: c, req: req, prov: b.prov, signers: b.signers}
					m := mutation{Kind: "identity", Name: fmt.Sprintf("exemption-product vh=%s ttl=%d bodyflip=%v", vhKind, ttl, bodyFlip)}
					for _, e := range every {
						r.Eval(1)
						mr := model(d, req, nil, e, mutation{Kind: "derived"})
						if vhKind == "identity" && ttl == 1 && !bodyFlip {
							mr = model(d, req, nil, e, mutation{Kind: "identity"})
						}
						err, pan := runImpl(req, e)
						acc := err == nil && pan == nil
						w.class(fmt.Sprintf("exemption-product model=%s impl-accepted=%v", verdictNames[mr.verdict], acc))
						r.Nontrivial("exemption|" + m.Name + reg + e.String())
						rep := map[string]any{"exemption_case": m.Name, "regime": reg, "env": e}
						switch {
						case pan != nil:
							w.viol("panic-in-verification:exemption-product", fmt.Sprintf("%s %v: %v", m.Name, e, pan), rep)
						case acc && mr.verdict == mustReject:
							w.viol(fmt.Sprintf("accepted-unsigned-or-invalid:vh=%s:ttl-is-1=%v:ctx=%s:entry=%s", vhKind, ttl == 1, ctxNames[e.Ctx], entryNames[e.Entry]),
								fmt.Sprintf("%s regime %s entry %v accepted; spec: %s", m.Name, reg, e, specExemption), rep)
						case !acc && mr.verdict == mustAccept:
							w.viol(fmt.Sprintf("rejected-authentic:exemption-product:vh=%s", vhKind), fmt.Sprintf("%s regime %s entry %v rejected: %v", m.Name, reg, e, err), rep)
						}
					}
				}
			}
		}
	}
	_ = base

	w.mu.Lock()
	r.Set("outcome_classes", len(w.classes))
	r.Set("outcomes", w.classes)
	r.Set("violation_classes", w.viols)
	if len(w.accepted) > 0 {
		var acc []string
		for k := range w.accepted {
			acc = append(acc, k)
		}
		sort.Strings(acc)
		r.Set("accepted_unauthentic_cases", acc)
	}
	w.mu.Unlock()
	r.Set("pristine_configurations", len(cfgs))
	r.Set("mutations_enumerated", total)
	r.Set("exemption_spec", specExemption)
	r.Rule("W (N3 witness alphabet): 12 verification scripts (standard accounts with chosen key tail bytes, short custom scripts) x 6 invocation prefixes x every truncated/malformed last push instruction (PUSHDATA1/2/4 with missing length bytes, every declared length 0..48 (thorough 0..255) with no / one / all-but-one operand bytes, PUSHINT8..256 and PUSHA with every short operand), judged by the reference witness semantics; " +
		"every mutation class (one flip per leaf of body, meta and every signature (thorough: per byte), one per 8 wire bytes, every dropped/emptied/re-signed slot, layer drop, permutation, swap, substitution, re-signing) x EVERY entry point x EVERY peer context x outer TTL 1 and 2; the remaining 7 bits of every byte under one decided environment per configuration (quick) / five (thorough); " +
		"every pristine configuration (layers 1..3 x API regime x scheme assignment x TTL) x every enumerated mutation (each bit of each populated leaf, " +
		"each unset field set, slot drop/empty/re-sign, scheme/key/sign menus, all slot pair swaps, layer drops, all layer permutations, attacker re-signing, " +
		"each bit of the wire form) x entry point/peer context; non-trivial = a non-identity mutation whose reference verdict is decided (must reject / must accept), distinct by (configuration, mutation, environment)")
	r.Assume("signature unforgeability: a (scheme,key,sign) triple never produced by a harness signer over exactly the covered bytes is invalid (a mutated triple verifying by chance has negligible probability)",
		"the stand-in FS chain runs the fake transaction's script as ONE script in the real neo-go VM, as the invokecontainedscript RPC does (Application trigger, no structural check), CheckSig against (magic, tx hash); other syscalls fault",
		"protocol regimes: API < 2.25 or no version = origin chain verified; API >= 2.25 = only the outermost layer's body and meta signatures are covered (origin fields documented DEPRECATED/unchecked)",
		"mutations that leave every covered signature valid but are not a legitimate re-signing have no demanded verdict (counted, not judged)")
	r.Exhaustive(!expired)
	pprof.StopCPUProfile()
	r.Finish()
}
