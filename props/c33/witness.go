// Part W of C33: the N3 witness alphabet. An N3 signature is accepted only if its invocation script is a COMPLETE
// push-only script and the verification script, executed in full after it, yields true. Requests carry N3 signatures
// whose invocation script is prefix || tail for every prefix of a small menu and EVERY malformed/truncated last push
// instruction (PUSHDATA1/2/4 with missing length bytes, with every declared length 0..N and no / a short operand,
// PUSHINT8..256 with every short operand, PUSHA with every short operand) against verification scripts for which the
// unswallowed remainder could evaluate to true: standard single-signature accounts whose compressed key ends in a
// chosen opcode byte (DROP, NOP, NIP, SWAP, DUP, PUSHT, PUSH1) and short custom scripts. They go through the real
// VerifyRequestSignaturesN3 with the stand-in chain (the fake transaction's script run as ONE script in the real
// neo-go VM, like the RPC). Oracle: vkit.RefWitness (own push-only parser from the opcode table + verification script run
// in its own context), per covered slot; an accepted request whose witness was made by a stranger is an impersonation.
package main

import (
	"encoding/hex"
	"fmt"

	"github.com/nspcc-dev/neofs-node/verif/lib/enumx"
	"github.com/nspcc-dev/neofs-node/verif/props/c33/vkit"
	protoobject "github.com/nspcc-dev/neofs-sdk-go/proto/object"
	"github.com/nspcc-dev/neofs-sdk-go/proto/refs"
	protosession "github.com/nspcc-dev/neofs-sdk-go/proto/session"
)

type witCase struct {
	V      string `json:"verification_script"` // name, see witnessAccounts
	Prefix string `json:"prefix"`
	Tail   string `json:"tail_hex"` // the (possibly truncated) last instruction
}

type witAccount struct {
	name    string
	script  []byte
	genuine func(data []byte) []byte // the owner's invocation script, nil if nobody can produce one
}

func stdScript(pub []byte) []byte {
	s := append([]byte{0x0c, 33}, pub...)
	return append(s, 0x41, 0x56, 0xe7, 0xb3, 0x27)
}

// keyWithTail finds (deterministically) a key whose compressed public key ends with byte t.
func keyWithTail(t byte) vkit.Signer {
	for i := 0; ; i++ {
		s := vkit.NewSigner(fmt.Sprintf("c33-victim-tail%02x-%d", t, i), vkit.N3)
		if b := s.Priv.PublicKey().Bytes(); b[32] == t {
			return s
		}
	}
}

func witnessAccounts() []witAccount {
	var r []witAccount
	std := func(name string, s vkit.Signer) {
		r = append(r, witAccount{name, stdScript(s.Priv.PublicKey().Bytes()), func(d []byte) []byte { return s.Sign(d) }})
	}
	std("std-ordinary-key", vkit.NewSigner("c33-victim", vkit.N3))
	for _, t := range []byte{0x45, 0x21, 0x46, 0x50, 0x4a, 0x08, 0x11} { // DROP NOP NIP SWAP DUP PUSHT PUSH1
		std(fmt.Sprintf("std-key-ending-%02x", t), keyWithTail(t))
	}
	secret8 := []byte("s3cr3t-8")
	secret29 := []byte("twenty-nine-bytes-of-secret!!")
	push := func(b []byte) []byte { return append([]byte{0x0c, byte(len(b))}, b...) }
	r = append(r,
		witAccount{"custom-pushf", []byte{0x09}, nil},
		witAccount{"custom-push0", []byte{0x10}, nil},
		witAccount{"custom-secret8-equal", append(push(secret8), 0x97), func([]byte) []byte { return push(secret8) }},
		witAccount{"custom-secret29-equal-32-bytes", append(push(secret29), 0x97), func([]byte) []byte { return push(secret29) }},
	)
	return r
}

// witnessTails: every malformed/truncated last push instruction (and the complete empty tail first).
func witnessTails(maxLen int) [][]byte {
	tails := [][]byte{{}}
	le := func(n, w int) []byte {
		b := make([]byte, w)
		for i := 0; i < w; i++ {
			b[i] = byte(n >> (8 * uint(i)))
		}
		return b
	}
	for _, pd := range []struct {
		op byte
		w  int
	}{{0x0c, 1}, {0x0d, 2}, {0x0e, 4}} {
		for k := 0; k < pd.w; k++ { // missing / short length prefix
			tails = append(tails, append([]byte{pd.op}, make([]byte, k)...))
			if k > 0 {
				t := append([]byte{pd.op}, make([]byte, k)...)
				t[1] = 0x22
				tails = append(tails, t)
			}
		}
		for n := 0; n <= maxLen; n++ { // declared length n, no operand at all / one operand byte / all but one
			head := append([]byte{pd.op}, le(n, pd.w)...)
			tails = append(tails, head)
			if n >= 2 {
				tails = append(tails, append(append([]byte{}, head...), 0x00))
				tails = append(tails, append(append([]byte{}, head...), make([]byte, n-1)...))
			}
		}
	}
	for op := byte(0); op <= 5; op++ { // PUSHINT8..256 with every short operand
		for k := 0; k < 1<<op; k++ {
			tails = append(tails, append([]byte{op}, make([]byte, k)...))
		}
	}
	for k := 0; k < 4; k++ { // PUSHA with every short operand
		tails = append(tails, append([]byte{0x0a}, make([]byte, k)...))
	}
	return tails
}

var witPrefixes = []string{"", "genuine", "stranger-sig+key", "stranger-sig", "pusht", "push1"}

func witInvocation(a witAccount, prefix string, tail, data []byte) ([]byte, bool) {
	var p []byte
	switch prefix {
	case "genuine":
		if a.genuine == nil {
			return nil, false
		}
		p = a.genuine(data)
	case "stranger-sig+key", "stranger-sig":
		m := vkit.NewSigner("c33-mallory", vkit.N3)
		p = m.Sign(data) // PUSHDATA1 64 <signature of the stranger over the data>
		if prefix == "stranger-sig+key" {
			p = append(append(p, 0x0c, 33), m.Priv.PublicKey().Bytes()...)
		}
	case "pusht":
		p = []byte{0x08}
	case "push1":
		p = []byte{0x11}
	}
	return append(append([]byte{}, p...), tail...), true
}

func (w *world) witnessCase(accts map[string]witAccount, c witCase) {
	r := w.r
	a, ok := accts[c.V]
	if !ok {
		return
	}
	tail, _ := hex.DecodeString(c.Tail)
	body := pristineBody()
	meta := &protosession.RequestMetaHeader{Version: &refs.Version{Major: 2, Minor: 25}, Ttl: 2, Epoch: 13}
	bb, mb := enc(body), enc(meta)
	ib, ok1 := witInvocation(a, c.Prefix, tail, bb)
	im, _ := witInvocation(a, c.Prefix, tail, mb)
	if !ok1 {
		return
	}
	r.Eval(1)
	sg := func(inv []byte) *refs.Signature {
		return &refs.Signature{Scheme: refs.SignatureScheme_N3, Key: a.script, Sign: inv}
	}
	req := &protoobject.GetRequest{Body: body, MetaHeader: meta, VerifyHeader: &vhdr{BodySignature: sg(ib), MetaSignature: sg(im)}}
	refM, whyM := vkit.RefWitness(im, a.script, mb)
	refB, whyB := vkit.RefWitness(ib, a.script, bb)
	ref := refM && refB
	why := whyM
	if refM {
		why = whyB
	}
	tc := map[string]any{"witness": c}
	err, pan := runImpl(req, env{2, 2})
	if pan != nil {
		w.viol("panic-in-verification:n3-witness", fmt.Sprintf("%+v: %v", c, pan), tc)
		return
	}
	acc := err == nil
	w.class(fmt.Sprintf("W n3-witness reference-valid=%v accepted=%v", ref, acc))
	complete, _ := vkit.CompletePushOnly(ib)
	if !complete || c.Prefix != "genuine" {
		r.Nontrivial("W|" + c.V + "|" + c.Prefix + "|" + c.Tail)
	}
	switch {
	case acc && !ref:
		who := "nobody"
		if c.Prefix == "stranger-sig+key" || c.Prefix == "stranger-sig" {
			who = "a stranger's key"
		}
		w.mu.Lock()
		if len(w.accepted) < 400 {
			w.accepted[fmt.Sprintf("N3 witness: account %s, invocation prefix %q + tail %s", c.V, c.Prefix, c.Tail)] = true
		}
		w.mu.Unlock()
		w.viol("n3-witness-accepted-though-invalid:"+why,
			fmt.Sprintf("request accepted as signed by account of verification script %s (%x) with invocation script prefix %q + tail %s (made by %s); reference: %s",
				c.V, a.script, c.Prefix, c.Tail, who, why), tc)
	case !acc && ref:
		w.viol("n3-witness-rejected-though-valid", fmt.Sprintf("%+v: %v", c, err), tc)
	}
	if acc && r.WantSample() && c.Prefix == "genuine" && c.V == "std-key-ending-45" {
		r.Sample(map[string]any{"witness": c, "accepted": acc})
	}
}

func (w *world) witnessPart(thorough bool) {
	accts := map[string]witAccount{}
	var order []string
	for _, a := range witnessAccounts() {
		accts[a.name] = a
		order = append(order, a.name)
	}
	maxLen := 48 // beyond the longest verification script (40 bytes)
	if thorough {
		maxLen = 255
	}
	tails := witnessTails(maxLen)
	var cases []witCase
	for _, v := range order { // simplest first: accounts, then prefixes, then tails
		for _, p := range witPrefixes {
			for _, t := range tails {
				cases = append(cases, witCase{v, p, hex.EncodeToString(t)})
			}
		}
	}
	enumx.Parallel(len(cases), func(i int) { w.witnessCase(accts, cases[i]) })
	w.r.Set("n3_witness_cases", len(cases))
}
