package vkit

import (
	"crypto/elliptic"
	"crypto/sha256"
	"encoding/binary"
	"errors"
	"fmt"

	"github.com/nspcc-dev/neo-go/pkg/crypto/keys"
	"github.com/nspcc-dev/neo-go/pkg/util"
	"github.com/nspcc-dev/neo-go/pkg/vm"
	"github.com/nspcc-dev/neo-go/pkg/vm/opcode"
	"github.com/nspcc-dev/neo-go/pkg/vm/stackitem"
	"github.com/nspcc-dev/neo-go/pkg/vm/vmstate"
)

// CompletePushOnly is the reference definition of a well-formed N3 invocation script, written from the NeoVM opcode
// table: a sequence of COMPLETE push instructions and nothing else.
//
//	0x00..0x05 PUSHINT8..PUSHINT256   operand 1,2,4,8,16,32 bytes
//	0x08 PUSHT 0x09 PUSHF 0x0B PUSHNULL
//	0x0C/0x0D/0x0E PUSHDATA1/2/4      little-endian length prefix of 1/2/4 bytes, then exactly that many bytes
//	0x0F PUSHM1, 0x10..0x20 PUSH0..PUSH16
//
// (0x0A PUSHA pushes a code pointer and is not data; 0x06, 0x07 are not instructions.)
func CompletePushOnly(s []byte) (bool, string) {
	for i := 0; i < len(s); {
		op := s[i]
		i++
		need := 0
		switch {
		case op <= 0x05:
			need = 1 << op
		case op == 0x08 || op == 0x09 || op == 0x0B || (op >= 0x0F && op <= 0x20):
		case op == 0x0C || op == 0x0D || op == 0x0E:
			lp := 1 << (op - 0x0C)
			if i+lp > len(s) {
				return false, "truncated-last-instruction"
			}
			var b [4]byte
			copy(b[:], s[i:i+lp])
			i += lp
			n := binary.LittleEndian.Uint32(b[:])
			if n > uint32(len(s)) {
				return false, "truncated-last-instruction"
			}
			need = int(n)
		default:
			return false, "not-push-only"
		}
		if i+need > len(s) {
			return false, "truncated-last-instruction"
		}
		i += need
	}
	return true, ""
}

type hashOnly util.Uint256

func (h hashOnly) Hash() util.Uint256 { return util.Uint256(h) }

// RefWitness is the reference semantics of an N3 witness over data: the invocation script must be a complete push-only
// script; then the verification script, executed IN FULL in its own context on the pushed items (as the chain does for
// transaction witnesses), must halt with exactly one truthy item. CheckSig verifies against (Magic, sha256(data)).
func RefWitness(invoc, verif, data []byte) (bool, string) {
	if ok, why := CompletePushOnly(invoc); !ok {
		return false, "invocation-script-" + why
	}
	if len(verif) == 0 {
		return false, "empty-verification-script"
	}
	h := hashOnly(sha256.Sum256(data))
	v := vm.New()
	v.SetPriceGetter(func(opcode.Opcode, []byte) int64 { return 1 })
	v.SetGasLimit(20000)
	v.SyscallHandler = func(v *vm.VM, id uint32) error {
		if id != checkSigID {
			return fmt.Errorf("syscall %#x not available", id)
		}
		keyb := v.Estack().Pop().Bytes()
		sig := v.Estack().Pop().Bytes()
		pk, err := keys.NewPublicKeyFromBytes(keyb, elliptic.P256())
		if err != nil {
			return err
		}
		v.Estack().PushItem(stackitem.Bool(pk.VerifyHashable(sig, Magic, h)))
		return nil
	}
	v.LoadScript(verif)
	if len(invoc) != 0 {
		v.LoadScript(invoc) // separate context executed first; its items are handed to the verification context
	}
	if err := runVM(v); err != nil || v.State() != vmstate.Halt {
		return false, "verification-script-faults"
	}
	if v.Estack().Len() != 1 {
		return false, "verification-script-leaves-not-exactly-one-item"
	}
	ok, err := v.Estack().Pop().Item().TryBool()
	if err != nil || !ok {
		return false, "verification-script-yields-false"
	}
	return true, ""
}

var _ = errors.New
