// Package vkit: deterministic keys, deterministic signers for the four NeoFS signature schemes and a
// stand-in FS chain that executes N3 witness scripts in the real neo-go VM the way the neo-go
// `invokecontainedscript` RPC does (script of the fake transaction run as one script, the transaction
// being the container for System.Crypto.CheckSig). Shared by the C33, C30 and C28 checks.
//
// Nothing here is random: keys are sha256(label), ECDSA nonces are RFC 6979, WalletConnect salts are
// sha256("salt:"+label...).
package vkit

import (
	"crypto/ecdsa"
	"crypto/elliptic"
	"crypto/sha256"
	"crypto/sha512"
	"encoding/base64"
	"encoding/binary"
	"encoding/hex"
	"errors"
	"fmt"
	"math/big"
	"sync"

	"github.com/nspcc-dev/neo-go/pkg/core/block"
	"github.com/nspcc-dev/neo-go/pkg/core/interop/interopnames"
	"github.com/nspcc-dev/neo-go/pkg/core/transaction"
	"github.com/nspcc-dev/neo-go/pkg/crypto/keys"
	"github.com/nspcc-dev/neo-go/pkg/neorpc/result"
	"github.com/nspcc-dev/neo-go/pkg/smartcontract/trigger"
	"github.com/nspcc-dev/neo-go/pkg/vm"
	"github.com/nspcc-dev/neo-go/pkg/vm/opcode"
	"github.com/nspcc-dev/neo-go/pkg/vm/stackitem"
	"github.com/nspcc-dev/neo-go/pkg/vm/vmstate"
	"github.com/nspcc-dev/neofs-sdk-go/user"
	"github.com/nspcc-dev/rfc6979"
)

// Scheme numbers of the NeoFS API (refs.SignatureScheme).
const (
	SHA512  int32 = 0 // ECDSA_SHA512: 0x04 || r || s over sha512(data)
	RFC6979 int32 = 1 // ECDSA_RFC6979_SHA256: r || s over sha256(data)
	WC      int32 = 2 // ECDSA_RFC6979_SHA256_WALLET_CONNECT
	N3      int32 = 3 // N3 witness: sign = invocation script, key = verification script
)

var SchemeNames = map[int32]string{SHA512: "SHA512", RFC6979: "RFC6979", WC: "WC", N3: "N3"}

// Magic is the network magic of the stand-in FS chain.
const Magic uint32 = 0x334e5346

// Key derives a P-256 private key from a label.
func Key(label string) *keys.PrivateKey {
	if k, ok := keyCache.Load(label); ok {
		return k.(*keys.PrivateKey)
	}
	k := deriveKey(label)
	keyCache.Store(label, k)
	return k
}

var keyCache sync.Map

func deriveKey(label string) *keys.PrivateKey {
	for i := 0; ; i++ {
		h := sha256.Sum256([]byte(fmt.Sprintf("verif-key:%s:%d", label, i)))
		k, err := keys.NewPrivateKeyFromBytes(h[:])
		if err == nil {
			return k
		}
	}
}

// Signer signs with a fixed key and scheme, deterministically.
type Signer struct {
	Label  string
	Priv   *keys.PrivateKey
	Scheme int32
}

func NewSigner(label string, scheme int32) Signer {
	return Signer{Label: label, Priv: Key(label), Scheme: scheme}
}

// KeyBytes is what goes into Signature.key for this signer's scheme.
func (s Signer) KeyBytes() []byte {
	if s.Scheme == N3 {
		return s.Priv.PublicKey().GetVerificationScript()
	}
	return s.Priv.PublicKey().Bytes()
}

// UserID of the signer (script hash of the single-signature account).
func (s Signer) UserID() user.ID {
	return user.NewFromScriptHash(s.Priv.PublicKey().GetScriptHash())
}

func pad32(b *big.Int) []byte {
	var r [32]byte
	b.FillBytes(r[:])
	return r[:]
}

// Sign produces Signature.sign for data.
func (s Signer) Sign(data []byte) []byte {
	switch s.Scheme {
	case SHA512:
		h := sha512.Sum512(data)
		r, ss := rfc6979.SignECDSA(&s.Priv.PrivateKey, h[:], sha512.New)
		return append(append([]byte{4}, pad32(r)...), pad32(ss)...)
	case RFC6979:
		return s.Priv.Sign(data)
	case WC:
		salt := sha256.Sum256(append([]byte("salt:"+s.Label+":"), data...))
		return append(s.Priv.Sign(WalletConnectMessage(data, salt[:16])), salt[:16]...)
	case N3:
		h := sha256.Sum256(data)
		sd := make([]byte, 4+32)
		binary.LittleEndian.PutUint32(sd, Magic)
		copy(sd[4:], h[:])
		sig := s.Priv.Sign(sd)
		return append([]byte{byte(opcode.PUSHDATA1), 64}, sig...)
	}
	panic("unknown scheme")
}

// WalletConnectMessage is the WalletConnect "signed message" envelope for data with a 16-byte salt:
// 0x010001f0, var-length, hex(salt) || base64(data), 0x0000.
func WalletConnectMessage(data, salt []byte) []byte {
	b64 := base64.StdEncoding.EncodeToString(data)
	payload := hex.EncodeToString(salt) + b64
	var ln []byte
	switch n := len(payload); {
	case n < 0xfd:
		ln = []byte{byte(n)}
	case n <= 0xffff:
		ln = []byte{0xfd, byte(n), byte(n >> 8)}
	default:
		ln = []byte{0xfe, byte(n), byte(n >> 8), byte(n >> 16), byte(n >> 24)}
	}
	out := append([]byte{0x01, 0x00, 0x01, 0xf0}, ln...)
	out = append(out, payload...)
	return append(out, 0, 0)
}

// RefVerify is a reference verification of one signature written directly on crypto/ecdsa from the
// scheme definitions (used only for harness self-checks, never as the oracle of a mutated case).
func RefVerify(scheme int32, key, sig, data []byte) bool {
	if scheme == N3 {
		return false
	}
	x, y := elliptic.UnmarshalCompressed(elliptic.P256(), key)
	if x == nil {
		return false
	}
	pub := &ecdsa.PublicKey{Curve: elliptic.P256(), X: x, Y: y}
	switch scheme {
	case SHA512:
		if len(sig) != 65 || sig[0] != 4 {
			return false
		}
		h := sha512.Sum512(data)
		return ecdsa.Verify(pub, h[:], new(big.Int).SetBytes(sig[1:33]), new(big.Int).SetBytes(sig[33:]))
	case RFC6979:
		if len(sig) != 64 {
			return false
		}
		h := sha256.Sum256(data)
		return ecdsa.Verify(pub, h[:], new(big.Int).SetBytes(sig[:32]), new(big.Int).SetBytes(sig[32:]))
	case WC:
		if len(sig) != 80 {
			return false
		}
		h := sha256.Sum256(WalletConnectMessage(data, sig[64:]))
		return ecdsa.Verify(pub, h[:], new(big.Int).SetBytes(sig[:32]), new(big.Int).SetBytes(sig[32:64]))
	}
	return false
}

// Chain is a stand-in FS chain for N3 witness checks. InvokeContainedScript loads tx.Script as ONE
// script into a real neo-go VM (Application trigger semantics of the RPC: no structural check of the
// script), with System.Crypto.CheckSig verifying against (Magic, tx.Hash()) exactly like the chain does.
// Every other syscall faults. Execution is bounded by an instruction budget (the RPC bounds it by GAS).
type Chain struct {
	// Epoch -> block height, used by GetEpochBlock; BlockByTime returns the height for a timestamp.
	EpochBlock  func(epoch uint64) (uint32, error)
	BlockByTime func(t uint32) (uint32, error)
}

var checkSigID = interopnames.ToID([]byte(interopnames.SystemCryptoCheckSig))

func (c *Chain) InvokeContainedScript(tx *transaction.Transaction, _ *block.Header, _ *trigger.Type, _ *bool) (*result.Invoke, error) {
	if tx == nil || len(tx.Script) == 0 {
		return nil, errors.New("invalid params: empty script")
	}
	v := vm.New()
	v.SetPriceGetter(func(opcode.Opcode, []byte) int64 { return 1 })
	v.SetGasLimit(20000)
	v.SyscallHandler = func(v *vm.VM, id uint32) error {
		if id != checkSigID {
			return fmt.Errorf("syscall %#x not available in the stand-in chain", id)
		}
		if err := v.AddDatoshi(100); err != nil {
			return err
		}
		keyb := v.Estack().Pop().Bytes()
		sig := v.Estack().Pop().Bytes()
		pk, err := keys.NewPublicKeyFromBytes(keyb, elliptic.P256())
		if err != nil {
			return err
		}
		v.Estack().PushItem(stackitem.Bool(pk.VerifyHashable(sig, Magic, tx)))
		return nil
	}
	v.LoadScript(tx.Script)
	res := &result.Invoke{Script: tx.Script}
	err := runVM(v)
	res.State = v.State().String()
	if err != nil || v.State() != vmstate.Halt {
		if err != nil {
			res.FaultException = err.Error()
		} else {
			res.FaultException = "fault"
		}
		res.State = vmstate.Fault.String()
		return res, nil
	}
	res.Stack = v.Estack().ToArray()
	return res, nil
}

func runVM(v *vm.VM) (err error) {
	defer func() {
		if p := recover(); p != nil {
			err = fmt.Errorf("vm panic: %v", p)
		}
	}()
	return v.Run()
}

func (c *Chain) GetEpochBlock(epoch uint64) (uint32, error) {
	if c.EpochBlock != nil {
		return c.EpochBlock(epoch)
	}
	return uint32(epoch) * 10, nil
}

func (c *Chain) GetEpochBlockByTime(t uint32) (uint32, error) {
	if c.BlockByTime != nil {
		return c.BlockByTime(t)
	}
	return t / 1000, nil
}
