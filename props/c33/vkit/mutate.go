// Generic, exhaustive protobuf-message mutation helpers (protoreflect based): visit every populated leaf and
// every unpopulated field, flip single bits, set unset fields, strip unknown fields.
package vkit

import (
	"sort"

	"google.golang.org/protobuf/proto"
	"google.golang.org/protobuf/reflect/protoreflect"
)

// Enc is an encoder independent of the SDK's stable marshalling (deterministic protobuf-go marshalling).
func Enc(m proto.Message) []byte {
	if m == nil || !m.ProtoReflect().IsValid() {
		return nil
	}
	b, err := proto.MarshalOptions{Deterministic: true}.Marshal(m)
	if err != nil {
		panic(err)
	}
	return b
}

// Mut is one structural mutation of a message addressed by a protoreflect path (field numbers, list index after
// a repeated field's number).
type Mut struct {
	Kind string `json:"kind"` // "flip" | "set-unset" | "clear" | "wire-bit" | free-form kinds of the caller
	Path []int  `json:"path,omitempty"`
	Byte int    `json:"byte,omitempty"`
	Bit  int    `json:"bit,omitempty"`
	Val  int64  `json:"val,omitempty"`
	Name string `json:"name,omitempty"`
}

// EnumMuts lists every single-bit flip of every populated leaf, every unset field set, and every populated
// singular message/leaf cleared.
func EnumMuts(m proto.Message) []Mut {
	var ms []Mut
	Walk(m.ProtoReflect(), nil,
		func(path []int, fd protoreflect.FieldDescriptor, v protoreflect.Value) {
			n, bits := FlipCount(fd, v)
			for i := 0; i < n; i++ {
				for bit := 0; bit < bits; bit++ {
					ms = append(ms, Mut{Kind: "flip", Path: path, Byte: i, Bit: bit})
				}
			}
			ms = append(ms, Mut{Kind: "clear", Path: path})
		},
		func(path []int, fd protoreflect.FieldDescriptor) {
			ms = append(ms, Mut{Kind: "set-unset", Path: path})
		})
	return ms
}

// ApplyMut applies a flip / set-unset / clear mutation to m in place.
func ApplyMut(m proto.Message, mu Mut) {
	msg, fd, idx := Navigate(m.ProtoReflect(), mu.Path)
	switch mu.Kind {
	case "flip":
		if idx >= 0 {
			l := msg.Mutable(fd).List()
			l.Set(idx, FlipValue(fd, l.Get(idx), mu.Byte, mu.Bit))
		} else {
			msg.Set(fd, FlipValue(fd, msg.Get(fd), mu.Byte, mu.Bit))
		}
	case "set-unset":
		switch {
		case fd.IsList():
			l := msg.Mutable(fd).List()
			if IsMsg(fd) {
				l.AppendMutable()
			} else {
				l.Append(OneValue(fd))
			}
		case IsMsg(fd):
			msg.Mutable(fd)
		default:
			msg.Set(fd, OneValue(fd))
		}
	case "clear":
		if idx >= 0 {
			l := msg.Mutable(fd).List()
			for i := idx; i+1 < l.Len(); i++ {
				l.Set(i, l.Get(i+1))
			}
			l.Truncate(l.Len() - 1)
		} else {
			msg.Clear(fd)
		}
	default:
		panic("vkit.ApplyMut: unknown kind " + mu.Kind)
	}
}

func SortedFields(md protoreflect.MessageDescriptor) []protoreflect.FieldDescriptor {
	fds := md.Fields()
	r := make([]protoreflect.FieldDescriptor, 0, fds.Len())
	for i := 0; i < fds.Len(); i++ {
		r = append(r, fds.Get(i))
	}
	sort.Slice(r, func(i, j int) bool { return r[i].Number() < r[j].Number() })
	return r
}

func IsMsg(fd protoreflect.FieldDescriptor) bool {
	return fd.Kind() == protoreflect.MessageKind || fd.Kind() == protoreflect.GroupKind
}

func FlipCount(fd protoreflect.FieldDescriptor, v protoreflect.Value) (nbytes, bitsPer int) {
	switch fd.Kind() {
	case protoreflect.BytesKind:
		return len(v.Bytes()), 8
	case protoreflect.StringKind:
		return len(v.String()), 7
	case protoreflect.BoolKind:
		return 1, 1
	case protoreflect.Uint64Kind, protoreflect.Int64Kind, protoreflect.Fixed64Kind, protoreflect.Sfixed64Kind, protoreflect.Sint64Kind:
		return 1, 64
	case protoreflect.Uint32Kind, protoreflect.Int32Kind, protoreflect.Fixed32Kind, protoreflect.Sfixed32Kind, protoreflect.Sint32Kind, protoreflect.EnumKind:
		return 1, 32
	}
	panic("unsupported leaf kind " + fd.Kind().String())
}

func FlipValue(fd protoreflect.FieldDescriptor, v protoreflect.Value, byteIdx, bit int) protoreflect.Value {
	switch fd.Kind() {
	case protoreflect.BytesKind:
		b := append([]byte{}, v.Bytes()...)
		b[byteIdx] ^= 1 << uint(bit)
		return protoreflect.ValueOfBytes(b)
	case protoreflect.StringKind:
		b := []byte(v.String())
		b[byteIdx] ^= 1 << uint(bit)
		return protoreflect.ValueOfString(string(b))
	case protoreflect.BoolKind:
		return protoreflect.ValueOfBool(!v.Bool())
	case protoreflect.Uint64Kind, protoreflect.Fixed64Kind:
		return protoreflect.ValueOfUint64(v.Uint() ^ 1<<uint(bit))
	case protoreflect.Int64Kind, protoreflect.Sfixed64Kind, protoreflect.Sint64Kind:
		return protoreflect.ValueOfInt64(v.Int() ^ 1<<uint(bit))
	case protoreflect.Uint32Kind, protoreflect.Fixed32Kind:
		return protoreflect.ValueOfUint32(uint32(v.Uint()) ^ 1<<uint(bit))
	case protoreflect.Int32Kind, protoreflect.Sfixed32Kind, protoreflect.Sint32Kind:
		return protoreflect.ValueOfInt32(int32(v.Int()) ^ int32(uint32(1)<<uint(bit)))
	case protoreflect.EnumKind:
		return protoreflect.ValueOfEnum(protoreflect.EnumNumber(int32(v.Enum()) ^ int32(uint32(1)<<uint(bit))))
	}
	panic("unsupported leaf kind")
}

func OneValue(fd protoreflect.FieldDescriptor) protoreflect.Value {
	switch fd.Kind() {
	case protoreflect.BytesKind:
		return protoreflect.ValueOfBytes([]byte{1})
	case protoreflect.StringKind:
		return protoreflect.ValueOfString("x")
	case protoreflect.BoolKind:
		return protoreflect.ValueOfBool(true)
	case protoreflect.Uint64Kind, protoreflect.Fixed64Kind:
		return protoreflect.ValueOfUint64(1)
	case protoreflect.Int64Kind, protoreflect.Sfixed64Kind, protoreflect.Sint64Kind:
		return protoreflect.ValueOfInt64(1)
	case protoreflect.Uint32Kind, protoreflect.Fixed32Kind:
		return protoreflect.ValueOfUint32(1)
	case protoreflect.Int32Kind, protoreflect.Sfixed32Kind, protoreflect.Sint32Kind:
		return protoreflect.ValueOfInt32(1)
	case protoreflect.EnumKind:
		return protoreflect.ValueOfEnum(1)
	}
	panic("unsupported leaf kind")
}

// Walk visits every populated leaf (leaf) and every unpopulated field of every populated message (unset).
func Walk(m protoreflect.Message, path []int, leaf func(path []int, fd protoreflect.FieldDescriptor, v protoreflect.Value), unset func(path []int, fd protoreflect.FieldDescriptor)) {
	for _, fd := range SortedFields(m.Descriptor()) {
		p := append(append([]int{}, path...), int(fd.Number()))
		if !m.Has(fd) {
			if unset != nil {
				unset(p, fd)
			}
			continue
		}
		switch {
		case fd.IsMap():
			panic("map field not expected")
		case fd.IsList():
			l := m.Get(fd).List()
			for i := 0; i < l.Len(); i++ {
				pi := append(append([]int{}, p...), i)
				if IsMsg(fd) {
					Walk(l.Get(i).Message(), pi, leaf, unset)
				} else if leaf != nil {
					leaf(pi, fd, l.Get(i))
				}
			}
		case IsMsg(fd):
			Walk(m.Get(fd).Message(), p, leaf, unset)
		default:
			if leaf != nil {
				leaf(p, fd, m.Get(fd))
			}
		}
	}
}

// Navigate follows path to the message holding the final field; returns that message, the field, and a
// list index (-1 if the final element is not a list item).
func Navigate(root protoreflect.Message, path []int) (protoreflect.Message, protoreflect.FieldDescriptor, int) {
	cur := root
	for i := 0; i < len(path); i++ {
		fd := cur.Descriptor().Fields().ByNumber(protoreflect.FieldNumber(path[i]))
		last := i == len(path)-1
		if fd.IsList() {
			if last {
				return cur, fd, -1
			}
			idx := path[i+1]
			i++
			if i == len(path)-1 && !IsMsg(fd) {
				return cur, fd, idx
			}
			cur = cur.Mutable(fd).List().Get(idx).Message()
			if i == len(path)-1 {
				panic("path ends at a list message element")
			}
			continue
		}
		if last {
			return cur, fd, -1
		}
		cur = cur.Mutable(fd).Message()
	}
	panic("empty path")
}

func StripUnknown(m protoreflect.Message) {
	m.SetUnknown(nil)
	m.Range(func(fd protoreflect.FieldDescriptor, v protoreflect.Value) bool {
		if IsMsg(fd) {
			if fd.IsList() {
				l := v.List()
				for i := 0; i < l.Len(); i++ {
					StripUnknown(l.Get(i).Message())
				}
			} else if !fd.IsMap() {
				StripUnknown(v.Message())
			}
		}
		return true
	})
}

// MsgPaths lists the paths of every populated message-valued field (singular, or element of a repeated field).
func MsgPaths(m protoreflect.Message, path []int) [][]int {
	var r [][]int
	for _, fd := range SortedFields(m.Descriptor()) {
		if !m.Has(fd) || !IsMsg(fd) || fd.IsMap() {
			continue
		}
		p := append(append([]int{}, path...), int(fd.Number()))
		if fd.IsList() {
			l := m.Get(fd).List()
			for i := 0; i < l.Len(); i++ {
				pi := append(append([]int{}, p...), i)
				r = append(r, pi)
				r = append(r, MsgPaths(l.Get(i).Message(), pi)...)
			}
			continue
		}
		r = append(r, p)
		r = append(r, MsgPaths(m.Get(fd).Message(), p)...)
	}
	return r
}

// EnumMutsAll is EnumMuts plus clearing every populated message-valued field / list element.
func EnumMutsAll(m proto.Message) []Mut {
	ms := EnumMuts(m)
	for _, p := range MsgPaths(m.ProtoReflect(), nil) {
		ms = append(ms, Mut{Kind: "clear-msg", Path: p})
	}
	return ms
}

// ApplyAny applies flip/set-unset/clear/clear-msg.
func ApplyAny(m proto.Message, mu Mut) {
	if mu.Kind != "clear-msg" {
		ApplyMut(m, mu)
		return
	}
	// navigate to the parent of the message at Path
	root := m.ProtoReflect()
	cur := root
	p := mu.Path
	for i := 0; i < len(p); i++ {
		fd := cur.Descriptor().Fields().ByNumber(protoreflect.FieldNumber(p[i]))
		if fd.IsList() {
			l := cur.Mutable(fd).List()
			idx := p[i+1]
			if i+1 == len(p)-1 {
				for j := idx; j+1 < l.Len(); j++ {
					l.Set(j, l.Get(j+1))
				}
				l.Truncate(l.Len() - 1)
				return
			}
			cur = l.Get(idx).Message()
			i++
			continue
		}
		if i == len(p)-1 {
			cur.Clear(fd)
			return
		}
		cur = cur.Mutable(fd).Message()
	}
}
