// C32: every control service call of the storage node and of the inner ring is rejected with no
// side effect unless it carries a valid signature by one of the configured administrator keys
// over its body.
//
// Enumeration (enumx): every method of control.ControlServiceServer (storage node) and of
// ircontrol.ControlServiceServer (inner ring), obtained by reflection, x signature variant
// {no signature, valid signature by an unknown key, allowed key + body changed after signing,
// allowed key + signature value corrupted, allowed key claimed but signed by another key, signed
// by the server's own key, correct} x server readiness {ready, not yet ready} (storage node).
// Request bodies are built generically from the Go types (fields filled by name/type), so a newly
// added RPC joins the product without changes here.
//
// Storage node server: real control server over a real 2-shard engine with objects (every engine
// method entry recorded, directory tree compared byte by byte, shard modes and error counters
// compared), real placement service and replicator over a recording network, recording NodeState.
// Inner ring server: real server over a recording NotaryManager.
//
// Oracle for every non-correct variant: error returned, no response (no stream message), zero
// engine entries, zero network attempts, zero NodeState/NotaryManager calls, byte-identical engine
// directory and scratch directory, unchanged shard modes. Control: the correct variant passes the
// gate (no PermissionDenied).
package main

import (
	"context"
	"fmt"
	"os"
	"path/filepath"
	"reflect"
	"sort"
	"strings"
	"sync"

	"github.com/nspcc-dev/neo-go/pkg/util"
	"github.com/nspcc-dev/neofs-node/pkg/local_object_storage/engine"
	"github.com/nspcc-dev/neofs-node/pkg/services/control"
	ircontrol "github.com/nspcc-dev/neofs-node/pkg/services/control/ir"
	irsrv "github.com/nspcc-dev/neofs-node/pkg/services/control/ir/server"
	ctlsrv "github.com/nspcc-dev/neofs-node/pkg/services/control/server"
	"github.com/nspcc-dev/neofs-node/pkg/services/object/placement"
	putsvc "github.com/nspcc-dev/neofs-node/pkg/services/object/put"
	objutil "github.com/nspcc-dev/neofs-node/pkg/services/object/util"
	"github.com/nspcc-dev/neofs-node/pkg/services/replicator"
	"github.com/nspcc-dev/neofs-node/verif/lib/enumx"
	"github.com/nspcc-dev/neofs-node/verif/lib/ev"
	sw "github.com/nspcc-dev/neofs-node/verif/worlds/svcworld"
	neofsecdsa "github.com/nspcc-dev/neofs-sdk-go/crypto/ecdsa"
	"github.com/nspcc-dev/neofs-sdk-go/object"
	"go.uber.org/zap"
	grpccodes "google.golang.org/grpc/codes"
	grpcstatus "google.golang.org/grpc/status"
	"google.golang.org/protobuf/proto"
	"google.golang.org/protobuf/reflect/protoreflect"
)

const (
	adminKey = "control-admin"
	otherKey = "control-stranger"
)

var variants = []string{
	"no-signature", "unknown-key", "allowed-key-body-changed", "allowed-key-signature-corrupted",
	"allowed-key-claimed-signed-by-other", "server-own-key", "correct",
}

var (
	snIface = reflect.TypeOf((*control.ControlServiceServer)(nil)).Elem()
	irIface = reflect.TypeOf((*ircontrol.ControlServiceServer)(nil)).Elem()
)

type tcase struct {
	Server  string // "storage" | "ir"
	Method  string
	Variant string
	Ready   bool
	// thorough tier, variant "allowed-key-one-byte-changed": which byte of which signature field
	Field string // "sign" | "key"; for variant "allowed-key-field-changed": path of the body leaf field
	Pos   int
	Mask  byte
	// variant "allowed-key-field-changed" (every leaf field of the request body x every mutation,
	// applied after signing with the allowed key)
	Op string // change | set | clear | append | replace-element | drop-element
	// Prefix: methods of correctly signed requests served by the SAME server instance before this
	// request (authorisation must be a function of this request only). Variant "replayed-signature"
	// re-uses the Signature of Prefix[From] on this request (other RPC, or the same RPC with the body
	// changed by Field/Op).
	Prefix []string
	From   int
}

func (c tcase) String() string {
	s := fmt.Sprintf("%s.%s variant=%s ready=%v", c.Server, c.Method, c.Variant, c.Ready)
	if len(c.Prefix) > 0 {
		s = fmt.Sprintf("after valid %v: ", c.Prefix) + s
		if c.Variant == "replayed-signature" {
			s += fmt.Sprintf(" (signature of valid request #%d)", c.From)
		}
	}
	if c.Op != "" {
		return s + fmt.Sprintf(" field=%s mutation=%s", c.Field, c.Op)
	}
	if c.Field != "" {
		s += fmt.Sprintf(" %s[%d]^=%#x", c.Field, c.Pos, c.Mask)
	}
	return s
}

// ---------- storage node world ----------

type healthChecker struct{ rec *sw.Recorder }

func (h healthChecker) NetmapStatus() control.NetmapStatus {
	h.rec.Add("health", "NetmapStatus")
	return control.NetmapStatus_ONLINE
}
func (h healthChecker) HealthStatus() control.HealthStatus {
	h.rec.Add("health", "HealthStatus")
	return control.HealthStatus_READY
}

type nodeState struct{ rec *sw.Recorder }

func (n nodeState) SetNetmapStatus(st control.NetmapStatus) error {
	n.rec.Add("state", "SetNetmapStatus(%s)", st)
	return nil
}
func (n nodeState) IsLocalNodePublicKey(k []byte) bool {
	return string(k) == string(sw.Pub(sw.LocalNode))
}

type snWorld struct {
	rec     *sw.Recorder
	dir     string // engine directory
	scratch string // files named in requests (dump destination, restore source)
	eng     *engine.StorageEngine
	srv     *ctlsrv.Server
	shardID []byte
	objAddr string
}

func newSNWorld(ready bool) (*snWorld, error) {
	root, err := os.MkdirTemp("/dev/shm", sw.ScratchPrefix())
	if err != nil {
		return nil, err
	}
	w := &snWorld{rec: &sw.Recorder{}, dir: filepath.Join(root, "engine"), scratch: filepath.Join(root, "scratch")}
	if err := os.MkdirAll(w.scratch, 0o755); err != nil {
		return nil, err
	}
	chain := &sw.Chain{Rec: w.rec, CnrID: sw.CID("A"), BasicACL: sw.AllowAllACL(), LocalInContainer: true}
	w.eng, err = sw.NewEngine(w.dir, 2, chain)
	if err != nil {
		return nil, err
	}
	var objs []*object.Object
	for i := 0; i < 3; i++ {
		o := sw.NewObject(chain.CnrID, "n", fmt.Sprint(i), []byte(fmt.Sprintf("control-world-payload-%d", i)))
		if err := w.eng.Put(context.Background(), o, nil); err != nil {
			return nil, err
		}
		objs = append(objs, o)
	}
	w.objAddr = objs[0].Address().EncodeToString()
	info := w.eng.DumpInfo()
	ids := make([]string, 0, len(info.Shards))
	for _, sh := range info.Shards {
		ids = append(ids, string(sh.ID.Bytes()))
	}
	sort.Strings(ids)
	w.shardID = []byte(ids[0])
	if err := os.WriteFile(filepath.Join(w.scratch, "restore-source.dump"), []byte("not a dump"), 0o644); err != nil {
		return nil, err
	}

	nodeKey := sw.ECDSA(sw.LocalNode)
	net := &sw.Net{Rec: w.rec}
	pl, err := placement.New(chain, chain)
	if err != nil {
		return nil, err
	}
	keys := objutil.NewKeyStorage(&nodeKey, nil, chain)
	repl := replicator.New(
		replicator.WithLogger(zap.NewNop()),
		replicator.WithLocalStorage(w.eng),
		replicator.WithRemoteSender(putsvc.NewRemoteSender(keys, net)),
		replicator.WithLocalNodeKey(chain),
	)
	w.srv = ctlsrv.New(&nodeKey, [][]byte{sw.Pub(adminKey)}, healthChecker{w.rec}, zap.NewNop())
	if ready {
		w.srv.MarkReady(w.eng, pl, repl, nodeState{w.rec})
	}
	sw.RecordEngine(w.eng, w.rec)
	w.rec.Reset()
	return w, nil
}

func (w *snWorld) close() {
	sw.UnrecordEngine(w.eng)
	_ = w.eng.Close()
	_ = os.RemoveAll(filepath.Dir(w.dir))
}

func (w *snWorld) shardState() (uint32, string) {
	sw.UnrecordEngine(w.eng)
	defer sw.RecordEngine(w.eng, w.rec)
	var errs uint32
	var modes []string
	for _, sh := range w.eng.DumpInfo().Shards {
		errs += sh.ErrorCount
		modes = append(modes, sh.ID.String()+"="+sh.Mode.String())
	}
	sort.Strings(modes)
	return errs, strings.Join(modes, ",")
}

// ---------- inner ring world ----------

type irHealth struct{ rec *sw.Recorder }

func (h irHealth) HealthStatus() ircontrol.HealthStatus {
	h.rec.Add("health", "HealthStatus")
	return ircontrol.HealthStatus_READY
}

type notary struct{ rec *sw.Recorder }

func (n notary) ListNotaryRequests() ([]util.Uint256, error) {
	n.rec.Add("notary", "ListNotaryRequests")
	return []util.Uint256{{1}}, nil
}
func (n notary) RequestNotary(method string, args ...[]byte) (util.Uint256, error) {
	n.rec.Add("notary", "RequestNotary(%s,%d args)", method, len(args))
	return util.Uint256{2}, nil
}
func (n notary) SignNotary(h util.Uint256) error {
	n.rec.Add("notary", "SignNotary")
	return nil
}

// ---------- generic request construction ----------

// fillBody sets the fields of a request body by name/type so that the handler, once past the
// signature gate, has something real to act on.
func fillBody(body reflect.Value, shardID []byte, objAddr, scratch, tag string) {
	for i := 0; i < body.Elem().NumField(); i++ {
		f := body.Elem().Field(i)
		name := body.Elem().Type().Field(i).Name
		if !f.CanSet() {
			continue
		}
		switch {
		case name == "Shard_ID" && f.Type() == reflect.TypeOf([][]byte(nil)):
			f.Set(reflect.ValueOf([][]byte{shardID}))
		case name == "Shard_ID" && f.Type() == reflect.TypeOf([]byte(nil)):
			f.SetBytes(shardID)
		case name == "Filepath":
			if strings.Contains(body.Elem().Type().Name(), "Restore") {
				f.SetString(filepath.Join(scratch, "restore-source.dump"))
			} else {
				f.SetString(filepath.Join(scratch, "written-by-"+tag+".bin"))
			}
		case name == "AddressList":
			f.Set(reflect.ValueOf([][]byte{[]byte(objAddr)}))
		case name == "ObjectAddress" && f.Kind() == reflect.String:
			f.SetString(objAddr)
		case name == "ObjectAddress" && f.Type() == reflect.TypeOf([]byte(nil)):
			f.SetBytes([]byte(objAddr))
		case name == "Status" && f.Kind() == reflect.Int32:
			f.SetInt(int64(control.NetmapStatus_OFFLINE))
		case name == "Mode" && f.Kind() == reflect.Int32:
			f.SetInt(int64(control.ShardMode_READ_ONLY))
		case name == "Method" && f.Kind() == reflect.String:
			f.SetString("verifMethod")
		case name == "Hash" && f.Type() == reflect.TypeOf([]byte(nil)):
			f.SetBytes(make([]byte, 32))
		case name == "Args" && f.Type() == reflect.TypeOf([][]byte(nil)):
			f.Set(reflect.ValueOf([][]byte{{1, 2, 3}}))
		}
	}
}

// mutateBody changes the first settable field of the body message; false if the body has no fields.
func mutateBody(body proto.Message) bool {
	m := body.ProtoReflect()
	fds := m.Descriptor().Fields()
	for i := 0; i < fds.Len(); i++ {
		fd := fds.Get(i)
		switch {
		case fd.IsList():
			l := m.Mutable(fd).List()
			switch fd.Kind() {
			case protoreflect.BytesKind:
				l.Append(protoreflect.ValueOfBytes([]byte("appended-after-signing")))
			case protoreflect.StringKind:
				l.Append(protoreflect.ValueOfString("appended-after-signing"))
			default:
				continue
			}
			return true
		case fd.Kind() == protoreflect.BytesKind:
			m.Set(fd, protoreflect.ValueOfBytes(append(append([]byte(nil), m.Get(fd).Bytes()...), 'x')))
			return true
		case fd.Kind() == protoreflect.StringKind:
			m.Set(fd, protoreflect.ValueOfString(m.Get(fd).String()+"x"))
			return true
		case fd.Kind() == protoreflect.EnumKind:
			m.Set(fd, protoreflect.ValueOfEnum(m.Get(fd).Enum()+1))
			return true
		case fd.Kind() == protoreflect.BoolKind:
			m.Set(fd, protoreflect.ValueOfBool(!m.Get(fd).Bool()))
			return true
		case fd.Kind() == protoreflect.Uint32Kind, fd.Kind() == protoreflect.Uint64Kind:
			m.Set(fd, protoreflect.ValueOfUint64(m.Get(fd).Uint()+1))
			return true
		}
	}
	return false
}

// fieldMutation is one change of one leaf field of a request body.
type fieldMutation struct {
	Path  string // dotted proto field names from the body
	Op    string
	apply func()
}

func changedScalar(fd protoreflect.FieldDescriptor, v protoreflect.Value) (protoreflect.Value, bool) {
	switch fd.Kind() {
	case protoreflect.BytesKind:
		return protoreflect.ValueOfBytes(append(append([]byte(nil), v.Bytes()...), 'x')), true
	case protoreflect.StringKind:
		return protoreflect.ValueOfString(v.String() + "x"), true
	case protoreflect.EnumKind:
		return protoreflect.ValueOfEnum(v.Enum() + 1), true
	case protoreflect.BoolKind:
		return protoreflect.ValueOfBool(!v.Bool()), true
	case protoreflect.Uint32Kind, protoreflect.Fixed32Kind:
		return protoreflect.ValueOfUint32(uint32(v.Uint()) + 1), true
	case protoreflect.Uint64Kind, protoreflect.Fixed64Kind:
		return protoreflect.ValueOfUint64(v.Uint() + 1), true
	case protoreflect.Int32Kind, protoreflect.Sint32Kind, protoreflect.Sfixed32Kind:
		return protoreflect.ValueOfInt32(int32(v.Int()) + 1), true
	case protoreflect.Int64Kind, protoreflect.Sint64Kind, protoreflect.Sfixed64Kind:
		return protoreflect.ValueOfInt64(v.Int() + 1), true
	case protoreflect.FloatKind:
		return protoreflect.ValueOfFloat32(float32(v.Float()) + 1), true
	case protoreflect.DoubleKind:
		return protoreflect.ValueOfFloat64(v.Float() + 1), true
	}
	return protoreflect.Value{}, false
}

// fieldMutations enumerates, for every leaf field reachable from m (nested messages are walked,
// unset ones are created), every mutation of the class: scalar/bytes/string: change the value (or
// set it when unset) and clear it when set; repeated: append an element, and when non-empty replace
// an element and drop an element. unsupported collects field kinds the walker cannot mutate.
func fieldMutations(m protoreflect.Message, prefix string, unsupported *[]string) []fieldMutation {
	var res []fieldMutation
	fds := m.Descriptor().Fields()
	for i := 0; i < fds.Len(); i++ {
		fd := fds.Get(i)
		path := prefix + string(fd.Name())
		switch {
		case fd.IsMap():
			*unsupported = append(*unsupported, path+" (map)")
		case fd.IsList():
			if fd.Kind() == protoreflect.MessageKind || fd.Kind() == protoreflect.GroupKind {
				res = append(res, fieldMutation{path, "append", func() { l := m.Mutable(fd).List(); l.Append(l.NewElement()) }})
				if l := m.Get(fd).List(); l.Len() > 0 {
					res = append(res, fieldMutation{path, "drop-element", func() { l := m.Mutable(fd).List(); l.Truncate(l.Len() - 1) }})
					res = append(res, fieldMutations(m.Mutable(fd).List().Get(0).Message(), path+"[0].", unsupported)...)
				}
				continue
			}
			zero := m.NewField(fd).List().NewElement()
			nv, ok := changedScalar(fd, zero)
			if !ok {
				*unsupported = append(*unsupported, path+" (repeated "+fd.Kind().String()+")")
				continue
			}
			res = append(res, fieldMutation{path, "append", func() { m.Mutable(fd).List().Append(nv) }})
			if m.Get(fd).List().Len() > 0 {
				res = append(res, fieldMutation{path, "replace-element", func() {
					l := m.Mutable(fd).List()
					v, _ := changedScalar(fd, l.Get(0))
					l.Set(0, v)
				}})
				res = append(res, fieldMutation{path, "drop-element", func() { l := m.Mutable(fd).List(); l.Truncate(l.Len() - 1) }})
			}
		case fd.Kind() == protoreflect.MessageKind || fd.Kind() == protoreflect.GroupKind:
			if !m.Has(fd) {
				res = append(res, fieldMutation{path, "set", func() { m.Mutable(fd) }})
			} else {
				res = append(res, fieldMutation{path, "clear", func() { m.Clear(fd) }})
			}
			res = append(res, fieldMutations(m.Mutable(fd).Message(), path+".", unsupported)...)
			if !m.Has(fd) {
				// walking created it only to enumerate its leaves; the mutations re-create it when applied
			}
		default:
			if _, ok := changedScalar(fd, m.Get(fd)); !ok {
				*unsupported = append(*unsupported, path+" ("+fd.Kind().String()+")")
				continue
			}
			if m.Has(fd) {
				res = append(res, fieldMutation{path, "change", func() { v, _ := changedScalar(fd, m.Get(fd)); m.Set(fd, v) }})
				res = append(res, fieldMutation{path, "clear", func() { m.Clear(fd) }})
			} else {
				res = append(res, fieldMutation{path, "set", func() { v, _ := changedScalar(fd, m.Get(fd)); m.Set(fd, v) }})
			}
		}
	}
	return res
}

// sampleBody returns the filled body message of a method's request (placeholder values with the
// same structure as the real ones) for enumerating its field mutations.
func sampleBody(sig sw.Signature) (proto.Message, error) {
	bf, ok := sig.Req.Elem().FieldByName("Body")
	if !ok {
		return nil, fmt.Errorf("request type %v has no Body field", sig.Req)
	}
	body := reflect.New(bf.Type.Elem())
	fillBody(body, []byte("0123456789abcdef"), "cid/oid", "/nonexistent", "sample")
	pm, ok := body.Interface().(proto.Message)
	if !ok {
		return nil, fmt.Errorf("body of %v is not a protobuf message", sig.Req)
	}
	return pm, nil
}

type signedMessage interface {
	ReadSignedData([]byte) ([]byte, error)
}

// buildRequest returns the request of the variant; ok=false when the variant cannot be expressed
// for this request type (a body without fields cannot be changed after signing).
func buildRequest(c tcase, sig sw.Signature, ownKeyLabel string, shardID []byte, objAddr, scratch string, prior []any) (req any, ok bool, err error) {
	rv := reflect.New(sig.Req.Elem())
	bf := rv.Elem().FieldByName("Body")
	if !bf.IsValid() {
		return nil, false, fmt.Errorf("%s: request type %v has no Body field", c.Method, sig.Req)
	}
	body := reflect.New(bf.Type().Elem())
	fillBody(body, shardID, objAddr, scratch, c.Variant)
	bf.Set(body)
	req = rv.Interface()
	sign := func(label string) error {
		k := sw.ECDSA(label)
		if c.Server == "ir" {
			return irsrv.SignMessage(&k, req.(irsrv.SignedMessage))
		}
		return ctlsrv.SignMessage(&k, req.(ctlsrv.SignedMessage))
	}
	sigOf := func() (key, sign *[]byte) {
		s := reflect.ValueOf(req).MethodByName("GetSignature").Call(nil)[0]
		return s.Elem().FieldByName("Key").Addr().Interface().(*[]byte), s.Elem().FieldByName("Sign").Addr().Interface().(*[]byte)
	}
	switch c.Variant {
	case "no-signature":
	case "unknown-key":
		err = sign(otherKey)
	case "allowed-key-body-changed":
		if err = sign(adminKey); err == nil {
			ok = mutateBody(body.Interface().(proto.Message))
			return req, ok, nil
		}
	case "allowed-key-signature-corrupted":
		if err = sign(adminKey); err == nil {
			_, s := sigOf()
			b := append([]byte(nil), *s...)
			b[len(b)/2] ^= 0x04
			*s = b
		}
	case "allowed-key-field-changed":
		if err = sign(adminKey); err == nil {
			var unsup []string
			for _, fm := range fieldMutations(body.Interface().(proto.Message).ProtoReflect(), "", &unsup) {
				if fm.Path == c.Field && fm.Op == c.Op {
					fm.apply()
					return req, true, nil
				}
			}
			return req, false, fmt.Errorf("%s: mutation %s of field %s does not exist for the built request", c.Method, c.Op, c.Field)
		}
	case "replayed-signature":
		if c.Field != "" {
			var unsup []string
			found := false
			for _, fm := range fieldMutations(body.Interface().(proto.Message).ProtoReflect(), "", &unsup) {
				if fm.Path == c.Field && fm.Op == c.Op {
					fm.apply()
					found = true
					break
				}
			}
			if !found {
				return req, false, fmt.Errorf("%s: mutation %s of field %s does not exist", c.Method, c.Op, c.Field)
			}
		}
		// copy the Signature message of the earlier, accepted request (key and value) as it is
		ps := reflect.ValueOf(prior[c.From]).MethodByName("GetSignature").Call(nil)[0]
		ns := reflect.New(ps.Type().Elem())
		ns.Elem().FieldByName("Key").SetBytes(append([]byte(nil), ps.Elem().FieldByName("Key").Bytes()...))
		ns.Elem().FieldByName("Sign").SetBytes(append([]byte(nil), ps.Elem().FieldByName("Sign").Bytes()...))
		reflect.ValueOf(req).MethodByName("SetSignature").Call([]reflect.Value{ns})
	case "allowed-key-one-byte-changed":
		if err = sign(adminKey); err == nil {
			k, s := sigOf()
			t := s
			if c.Field == "key" {
				t = k
			}
			if c.Pos >= len(*t) {
				return req, false, nil
			}
			b := append([]byte(nil), *t...)
			b[c.Pos] ^= c.Mask
			*t = b
		}
	case "allowed-key-claimed-signed-by-other":
		if err = sign(otherKey); err == nil {
			k, _ := sigOf()
			*k = sw.Pub(adminKey)
		}
	case "server-own-key":
		err = sign(ownKeyLabel)
	case "correct":
		err = sign(adminKey)
	default:
		panic("unknown variant")
	}
	return req, true, err
}

// referenceAuthorised is the property's predicate evaluated on the request alone: it carries a
// signature whose key is in the allow list and which verifies (ECDSA/SHA-512) over the request body.
func referenceAuthorised(req any, allowed ...string) bool {
	sg := reflect.ValueOf(req).MethodByName("GetSignature").Call(nil)[0]
	if sg.IsNil() {
		return false
	}
	key, val := sg.Elem().FieldByName("Key").Bytes(), sg.Elem().FieldByName("Sign").Bytes()
	ok := false
	for _, a := range allowed {
		ok = ok || string(sw.Pub(a)) == string(key)
	}
	if !ok {
		return false
	}
	data, err := req.(signedMessage).ReadSignedData(nil)
	if err != nil {
		return false
	}
	var pk neofsecdsa.PublicKey
	if pk.Decode(key) != nil {
		return false
	}
	return pk.Verify(data, val)
}

// servePrefix sends the correctly signed requests of c.Prefix to the server; each must pass the gate.
func servePrefix(c tcase, srv any, iface reflect.Type, own string, shardID []byte, objAddr, scratch string) ([]any, error) {
	var prior []any
	for i, m := range c.Prefix {
		pc := tcase{Server: c.Server, Method: m, Variant: "correct", Ready: true}
		req, _, err := buildRequest(pc, sw.SignatureOf(iface, m), own, shardID, objAddr, scratch, nil)
		if err != nil {
			return nil, err
		}
		res, herr := sw.Invoke(srv, iface, m, []any{req})
		if herr != nil {
			return nil, herr
		}
		if res.Panic != nil || res.Err != nil && grpcstatus.Code(res.Err) == grpccodes.PermissionDenied {
			return nil, fmt.Errorf("valid request #%d (%s) of the prefix was not accepted: %v %v", i, m, res.Err, res.Panic)
		}
		prior = append(prior, req)
	}
	return prior, nil
}

type outcome struct {
	RefAuth  bool // reference predicate on the request
	Code     string
	Detail   string
	Resp     int // response messages
	Effects  []string
	TreeDiff []string
	Modes    string
	ErrDelta uint32
}

func runSN(c tcase) (outcome, bool, error) {
	w, err := newSNWorld(c.Ready)
	if err != nil {
		return outcome{}, true, err
	}
	defer w.close()
	sig := sw.SignatureOf(snIface, c.Method)
	prior, err := servePrefix(c, w.srv, snIface, sw.LocalNode, w.shardID, w.objAddr, w.scratch)
	if err != nil {
		return outcome{}, true, err
	}
	req, ok, err := buildRequest(c, sig, sw.LocalNode, w.shardID, w.objAddr, w.scratch, prior)
	if err != nil || !ok {
		return outcome{}, ok, err
	}
	root := filepath.Dir(w.dir)
	before, err := sw.SnapTree(root)
	if err != nil {
		return outcome{}, true, err
	}
	errs0, modes0 := w.shardState()
	w.rec.Reset()
	res, herr := sw.Invoke(w.srv, snIface, c.Method, []any{req})
	if herr != nil {
		return outcome{}, true, herr
	}
	var o outcome
	fillOutcome(&o, res)
	o.RefAuth = referenceAuthorised(req, adminKey)
	o.Effects = w.rec.Of("storage", "net", "state")
	errs1, modes1 := w.shardState()
	o.ErrDelta = errs1 - errs0
	if modes0 != modes1 {
		o.Modes = modes0 + " -> " + modes1
	}
	after, err := sw.SnapTree(root)
	if err != nil {
		return outcome{}, true, err
	}
	o.TreeDiff = sw.DiffTree(before, after)
	return o, true, nil
}

func runIR(c tcase) (outcome, bool, error) {
	rec := &sw.Recorder{}
	var prm irsrv.Prm
	prm.SetPrivateKey(*sw.Key("ir-node"))
	prm.SetHealthChecker(irHealth{rec})
	prm.SetNetworkManager(notary{rec})
	srv := irsrv.New(prm, irsrv.WithAllowedKeys([][]byte{sw.Pub(adminKey)}))
	sig := sw.SignatureOf(irIface, c.Method)
	prior, err := servePrefix(c, srv, irIface, "ir-node", nil, "", "")
	if err != nil {
		return outcome{}, true, err
	}
	req, ok, err := buildRequest(c, sig, "ir-node", nil, "", "", prior)
	if err != nil || !ok {
		return outcome{}, ok, err
	}
	rec.Reset()
	res, herr := sw.Invoke(srv, irIface, c.Method, []any{req})
	if herr != nil {
		return outcome{}, true, herr
	}
	var o outcome
	fillOutcome(&o, res)
	o.RefAuth = referenceAuthorised(req, adminKey, "ir-node")
	o.Effects = rec.Of("notary")
	return o, true, nil
}

func fillOutcome(o *outcome, res sw.Result) {
	switch {
	case res.Panic != nil:
		o.Code, o.Detail = "panic", fmt.Sprint(res.Panic)
	case res.Err != nil:
		o.Code, o.Detail = grpcstatus.Code(res.Err).String(), res.Err.Error()
	default:
		o.Code = "OK"
	}
	o.Resp = len(res.Messages)
}

func main() {
	r := ev.Start("C32", ev.Exploration)
	fatal := func(format string, a ...any) {
		sw.Cleanup()
		r.Fatal(format, a...)
	}
	sw.RegisterServerStream[control.ListObjectsResponse]()

	var mu sync.Mutex
	classes := map[string]int{}
	passed := map[string]string{} // server.method -> outcome of the correct variant
	notExpressible := map[string]bool{}

	check := func(c tcase) {
		var o outcome
		var ok bool
		var err error
		if c.Server == "ir" {
			o, ok, err = runIR(c)
		} else {
			o, ok, err = runSN(c)
		}
		if err != nil {
			fatal("%s: %v", c, err)
		}
		if !ok {
			mu.Lock()
			notExpressible[c.Server+"."+c.Method+" x "+c.Variant] = true
			mu.Unlock()
			return
		}
		r.Eval(1)
		desc := fmt.Sprintf("%s -> %s %q responses=%d effects=%v treeDiff=%v modes=%q shardErrorCounter+=%d",
			c, o.Code, o.Detail, o.Resp, o.Effects, o.TreeDiff, o.Modes, o.ErrDelta)
		key := c.Server + "." + c.Method + ":" + c.Variant
		if c.Op != "" {
			key += ":" + c.Field + ":" + c.Op
		}
		// the IR server documents its own key as part of the white list; the storage node does not
		authorised := c.Variant == "correct" || c.Variant == "server-own-key" && c.Server == "ir"
		if c.Variant == "replayed-signature" {
			// e.g. the signature of a request with an empty body is a valid signature of every other
			// request with an empty body: the verdict is the reference predicate on THIS request
			authorised = o.RefAuth
		} else if !authorised && o.RefAuth && c.Op != "" {
			// a body field was changed after signing and the signature still verifies over what the
			// implementation takes as the signed bytes of THIS body: the signature does not cover the
			// field. That is the property's violation itself, not a harness inconsistency; the case
			// stays unauthorised for the oracles below.
			r.Violation("signature-does-not-cover-request-field:"+c.Server+"."+c.Method+":field="+c.Field, desc, c)
		} else if authorised != o.RefAuth {
			fatal("%s: the reference predicate says authorised=%v", c, o.RefAuth)
		}
		if len(c.Prefix) > 0 {
			key = "after-valid-request:" + key
			if c.Variant == "replayed-signature" {
				kind := "other-rpc"
				if c.Field != "" {
					kind = "same-rpc-other-body"
				}
				key = fmt.Sprintf("after-valid-request:%s.%s:replayed-signature-of-accepted-request:%s", c.Server, c.Method, kind)
			}
		}
		if authorised {
			if o.Code == grpccodes.PermissionDenied.String() || o.Code == "panic" {
				r.Violation("authorised-request-rejected:"+key, desc, c)
			} else {
				mu.Lock()
				passed[c.String()] = fmt.Sprintf("%s responses=%d effects=%d", o.Code, o.Resp, len(o.Effects))
				mu.Unlock()
				r.Nontrivial(c.String())
				if c.Ready {
					r.Sample(map[string]any{"case": c.String(), "code": o.Code, "responses": o.Resp, "effects": o.Effects})
				}
			}
		} else {
			switch {
			case o.Code == "panic":
				r.Violation("handler-panic:"+key, desc, c)
			case len(o.Effects) > 0:
				r.Violation("side-effect-of-unauthorised-request:"+key, desc, c)
			case len(o.TreeDiff) > 0 || o.Modes != "" || o.ErrDelta > 0:
				r.Violation("storage-state-changed-by-unauthorised-request:"+key, desc, c)
			case o.Code == "OK":
				r.Violation("unauthorised-request-not-rejected:"+key, desc, c)
			case o.Resp > 0:
				r.Violation("response-data-for-unauthorised-request:"+key, desc, c)
			default:
				r.Nontrivial(c.String())
			}
		}
		mu.Lock()
		classes[fmt.Sprintf("%s %s ready=%v -> %s", c.Server, c.Variant, c.Ready, o.Code)]++
		_ = key
		mu.Unlock()
	}

	if r.Replay != "" {
		var c tcase
		r.LoadReplay(&c)
		fmt.Println("replaying", c)
		check(c)
		sw.Cleanup()
		r.Finish()
	}

	var cases []tcase
	snMethods, irMethods := sw.Methods(snIface), sw.Methods(irIface)
	for _, m := range snMethods {
		if k := sw.SignatureOf(snIface, m).Kind; k != sw.Unary && k != sw.ServerStream {
			fatal("storage control method %s has an unsupported signature", m)
		}
		for _, v := range variants {
			for _, ready := range []bool{true, false} {
				cases = append(cases, tcase{Server: "storage", Method: m, Variant: v, Ready: ready})
			}
		}
	}
	for _, m := range irMethods {
		if k := sw.SignatureOf(irIface, m).Kind; k != sw.Unary && k != sw.ServerStream {
			fatal("IR control method %s has an unsupported signature", m)
		}
		for _, v := range variants {
			cases = append(cases, tcase{Server: "ir", Method: m, Variant: v, Ready: true})
		}
	}
	// every leaf field of every request body x every mutation of the class, after signing
	fieldCases := map[string][]string{} // server.method -> "field:op" list
	var noBodyFields []string
	addFieldCases := func(server string, iface reflect.Type, m string) {
		body, err := sampleBody(sw.SignatureOf(iface, m))
		if err != nil {
			fatal("%s.%s: %v", server, m, err)
		}
		var unsup []string
		muts := fieldMutations(body.ProtoReflect(), "", &unsup)
		if len(unsup) > 0 {
			fatal("%s.%s: request body has fields the mutation walker does not support: %v", server, m, unsup)
		}
		if body.ProtoReflect().Descriptor().Fields().Len() == 0 {
			noBodyFields = append(noBodyFields, server+"."+m)
		}
		for _, fm := range muts {
			cases = append(cases, tcase{Server: server, Method: m, Variant: "allowed-key-field-changed", Ready: true, Field: fm.Path, Op: fm.Op})
			fieldCases[server+"."+m] = append(fieldCases[server+"."+m], fm.Path+":"+fm.Op)
		}
	}
	for _, m := range snMethods {
		addFieldCases("storage", snIface, m)
	}
	for _, m := range irMethods {
		addFieldCases("ir", irIface, m)
	}
	// sequences on ONE server instance: valid request(s), then every kind of unauthorised request
	nSeq := len(cases)
	addSeq := func(server string, iface reflect.Type, methods []string, depth3 bool) {
		var prefixes [][]string
		for _, a := range methods {
			prefixes = append(prefixes, []string{a})
			if depth3 {
				for _, b := range methods {
					prefixes = append(prefixes, []string{a, b})
				}
			}
		}
		for _, pre := range prefixes {
			for _, m := range methods {
				for from := range pre {
					if m == pre[from] {
						// same RPC, body changed in every possible way, signature of the accepted request
						for _, fm := range fieldCases[server+"."+m] {
							f, op, _ := strings.Cut(fm, ":")
							cases = append(cases, tcase{Server: server, Method: m, Variant: "replayed-signature", Ready: true, Prefix: pre, From: from, Field: f, Op: op})
						}
					} else {
						cases = append(cases, tcase{Server: server, Method: m, Variant: "replayed-signature", Ready: true, Prefix: pre, From: from})
					}
				}
				if len(pre) == 1 {
					for _, v := range []string{"no-signature", "unknown-key", "allowed-key-signature-corrupted", "allowed-key-claimed-signed-by-other"} {
						cases = append(cases, tcase{Server: server, Method: m, Variant: v, Ready: true, Prefix: pre})
					}
				}
			}
		}
	}
	addSeq("storage", snIface, snMethods, r.Thorough())
	addSeq("ir", irIface, irMethods, true)
	nSeq = len(cases) - nSeq
	r.Set("sequence_cases_on_a_shared_server", nSeq)

	nFieldCases := 0
	for _, v := range fieldCases {
		nFieldCases += len(v)
	}
	sort.Strings(noBodyFields)
	r.Set("field_mutation_cases", nFieldCases)
	r.Set("field_mutations_per_method", fieldCases)
	r.Set("requests_without_any_body_field", noBodyFields)

	if r.Thorough() {
		// exhaustive single-byte deviation of the correct request's signature value (65 bytes) and key (33 bytes)
		add := func(server, m string) {
			for _, mask := range []byte{0x01, 0x80} {
				for p := 0; p < 65; p++ {
					cases = append(cases, tcase{Server: server, Method: m, Variant: "allowed-key-one-byte-changed", Ready: true, Field: "sign", Pos: p, Mask: mask})
				}
				for p := 0; p < 33; p++ {
					cases = append(cases, tcase{Server: server, Method: m, Variant: "allowed-key-one-byte-changed", Ready: true, Field: "key", Pos: p, Mask: mask})
				}
			}
		}
		for _, m := range snMethods {
			add("storage", m)
		}
		for _, m := range irMethods {
			add("ir", m)
		}
	}
	enumx.Parallel(len(cases), func(i int) { check(cases[i]) })

	// every method must have passed the gate with the correct signature (otherwise the rejections
	// above prove nothing about the signature check)
	if r.Violations() == 0 {
		for _, m := range snMethods {
			if _, ok := passed[tcase{Server: "storage", Method: m, Variant: "correct", Ready: true}.String()]; !ok {
				fatal("storage.%s: the correctly signed request did not pass", m)
			}
		}
		for _, m := range irMethods {
			if _, ok := passed[tcase{Server: "ir", Method: m, Variant: "correct", Ready: true}.String()]; !ok {
				fatal("ir.%s: the correctly signed request did not pass", m)
			}
		}
	}
	var ne []string
	for k := range notExpressible {
		ne = append(ne, k)
	}
	sort.Strings(ne)
	r.Set("storage_methods_by_reflection", snMethods)
	r.Set("ir_methods_by_reflection", irMethods)
	r.Set("variants", variants)
	r.Set("not_expressible", ne)
	r.Set("outcome_classes", len(classes))
	r.Set("outcome_class_counts", classes)
	r.Set("authorised_variants", passed)
	var crossValid []string
	for k := range passed {
		if strings.Contains(k, "variant=replayed-signature") {
			crossValid = append(crossValid, k)
		}
	}
	sort.Strings(crossValid)
	// informational: the signature covers the body bytes only, not the RPC, so a signature accepted
	// for one RPC is a valid signature of another RPC whose body encodes to the same bytes
	r.Set("replayed_signatures_valid_by_the_reference_predicate", crossValid)
	r.Rule("every exported method of both ControlServiceServer interfaces (reflection) x 7 signature variants x readiness {ready, not ready} (storage node), plus, for every method, every leaf field of the request body (walked through the protobuf descriptor, nested and repeated fields included) x every mutation of the class {change / set-when-unset / clear; repeated: append, replace-element, drop-element} applied after signing with the allowed key, plus sequences on ONE server instance: one valid request (two for the inner ring; two for the storage node in the thorough tier) of every method followed by, for every method, a request re-using the Signature of an accepted request (on another RPC, or on the same RPC with every body field mutation) and by the unsigned / unknown-key / corrupted / claimed-key variants, judged by the reference predicate 'key in the allow list and signature verifies over THIS body'; request bodies built generically by field name/type; non-trivial = an unauthorised variant that was rejected with zero effects, or an authorised variant that passed the gate; distinct = distinct case tuple")
	r.Assume("effects are observed at the engine method entries (overlay hook, pure recorder), the replication transport / client constructor, NodeState and NotaryManager calls, as byte-level changes of the engine and scratch directories, and as shard mode / error counter changes",
		"health status reads are not side effects (recorded, not required to be absent)",
		"the inner ring server's own key is part of its white list by its documented constructor contract; the storage node's own key is not",
		"'allowed key + body changed' cannot be expressed for requests whose body has no fields (the signed data is empty either way); those requests are covered by 'signature corrupted' and 'claimed key' variants",
		"static dominance of isValidRequest over effects in the program text is not decided; what is decided is the dynamic product above over the actual method sets")
	r.Exhaustive(true)
	sw.Cleanup()
	r.Finish()
}
