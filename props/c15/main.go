// C15: after a crash, every object the metadata lists as available is readable.
// Every history of up to N shard operations (Put, Put tombstone, MarkGarbage default/redundant,
// Delete, GC pass, FlushWriteCache; with and without write-cache) runs on a real shard under the
// controlled scheduler; a crash image (copy of blobstor tree, metabase file, write-cache tree) is
// taken at EVERY scheduling point (each lock / channel / blobstor call / metabase call boundary,
// i.e. every step boundary between blob write, cache write, metadata update, cache removal and blob
// removal). Each distinct image is checked offline: every address the metabase reports as
// available must be readable in full, identical, from the blobstor tree or the write-cache tree.
package main

import (
	"bytes"
	"crypto/sha256"
	"fmt"
	"os"
	"path/filepath"
	"sort"
	"strings"
	"time"

	"github.com/nspcc-dev/bbolt"
	"github.com/nspcc-dev/neofs-node/pkg/local_object_storage/blobstor/fstree"
	meta "github.com/nspcc-dev/neofs-node/pkg/local_object_storage/metabase"
	"github.com/nspcc-dev/neofs-node/verif/lib/ev"
	"github.com/nspcc-dev/neofs-node/verif/lib/sched"
	ss "github.com/nspcc-dev/neofs-node/verif/worlds/schedshard"
	"github.com/nspcc-dev/neofs-sdk-go/object"
	oid "github.com/nspcc-dev/neofs-sdk-go/object/id"
	"go.uber.org/zap"
)

const (
	objA = 0 // small
	objB = 1 // big (above the flush batch threshold)
	tsA  = 2 // tombstone for A
	lkB  = 3 // lock for B
)

var sizes = []int{4, 60}

type opT struct {
	Name string
	Do   func(w *ss.World)
}

func ops() []opT {
	ids := func(i int) []oid.ID { return []oid.ID{ss.OID(i)} }
	return []opT{
		{"Put(A)", func(w *ss.World) { w.Sh.Put(ss.Obj(objA, sizes[objA]), nil) }},
		{"Put(B)", func(w *ss.World) { w.Sh.Put(ss.Obj(objB, sizes[objB]), nil) }},
		{"Put(T->A)", func(w *ss.World) { w.Sh.Put(ss.Tombstone(tsA, objA, 0), nil) }},
		{"MarkGarbage(A)", func(w *ss.World) { w.Sh.MarkGarbage(ss.Cnr, ids(objA), meta.GarbageMarkDefault) }},
		{"MarkRedundant(B)", func(w *ss.World) { w.Sh.MarkGarbage(ss.Cnr, ids(objB), meta.GarbageMarkRedundant) }},
		{"Delete(A)", func(w *ss.World) { w.Sh.Delete(ss.Cnr, ids(objA)) }},
		{"Delete(B)", func(w *ss.World) { w.Sh.Delete(ss.Cnr, ids(objB)) }},
		{"Put(Lock->B)", func(w *ss.World) { w.Sh.Put(ss.Lock(lkB, objB, 0), nil) }},
		{"GCPass", func(w *ss.World) { w.Sh.VerifSSGCPass() }},
		{"Flush", func(w *ss.World) { w.Sh.FlushWriteCache(false) }},
	}
}

type image struct {
	Dir   string
	Label string
	After []string // operations started so far
}

type result struct {
	Root    string
	Images  []image
	History []string
	WC      bool
	Points  int
	checked int
	avail   int
}

var blobs = func() map[int][]byte {
	m := map[int][]byte{objA: ss.Obj(objA, sizes[objA]).Marshal(), objB: ss.Obj(objB, sizes[objB]).Marshal(), tsA: ss.Tombstone(tsA, objA, 0).Marshal(), lkB: ss.Lock(lkB, objB, 0).Marshal()}
	return m
}()

func treeDigest(root string) string {
	h := sha256.New()
	filepath.Walk(root, func(p string, info os.FileInfo, err error) error {
		if err != nil || info.IsDir() {
			return nil
		}
		rel, _ := filepath.Rel(root, p)
		b, _ := os.ReadFile(p)
		fmt.Fprintf(h, "%s|%d|", rel, len(b))
		h.Write(b)
		return nil
	})
	return string(h.Sum(nil))
}

func scenario(wc bool, depth int, pre int) sched.Scenario {
	all := ops()
	name := fmt.Sprintf("histories<=%d write-cache=%v", depth, wc)
	body := func(s *sched.S) any {
		root, err := os.MkdirTemp("/dev/shm", "verif-c15-")
		if err != nil {
			panic(err)
		}
		res := &result{Root: root, WC: wc}
		s.Result = res
		live := filepath.Join(root, "live")
		w, err := ss.New(s, live, ss.Opts{WriteCache: wc, RmBatch: 10})
		if err != nil {
			panic(err)
		}
		defer w.Close()
		seen := map[string]bool{}
		capturing := false
		snap := func(label string) {
			if !capturing {
				return
			}
			res.Points++
			dg := treeDigest(live)
			if seen[dg] {
				return
			}
			seen[dg] = true
			d := filepath.Join(root, fmt.Sprintf("img%d", len(res.Images)))
			ss.CopyTree(live, d)
			res.Images = append(res.Images, image{d, label, append([]string(nil), res.History...)})
		}
		s.OnPoint = func(l string) { snap("t" + fmt.Sprint(s.Cur().ID) + ":" + l) }
		w.OnStep = func(l string) { snap("step:" + l) }
		capturing = true
		// the history is an explored environment choice: op index per step, or stop
		for step := 0; step < depth; step++ {
			k := s.Choose(len(all)+1, sched.Fault, fmt.Sprintf("op%d", step))
			if k == 0 {
				break
			}
			o := all[k-1]
			res.History = append(res.History, o.Name)
			o.Do(w)
			snap("after " + o.Name)
		}
		s.AwaitQuiescence()
		snap("quiescent")
		capturing = false
		s.OnPoint = nil
		return res
	}
	check := func(x *sched.Exec) (string, string) {
		res, _ := x.Result.(*result)
		if res == nil {
			return "", ""
		}
		defer os.RemoveAll(res.Root)
		if len(x.Panics) > 0 {
			return "panic", x.Panics[0]
		}
		if x.Deadlock {
			return "deadlock", strings.Join(x.Blocked, ";")
		}
		for _, im := range res.Images {
			res.checked++
			if fp, what := checkImage(im, res); fp != "" {
				return fp, fmt.Sprintf("history %v, crash at %q (after starting %v): %s", res.History, im.Label, im.After, what)
			}
		}
		return "", ""
	}
	outcome := func(x *sched.Exec) string {
		res, _ := x.Result.(*result)
		if res == nil {
			return "aborted"
		}
		h := append([]string(nil), res.History...)
		sort.Strings(h)
		return fmt.Sprintf("wc=%v ops=%s", res.WC, strings.Join(h, ","))
	}
	counters := func(x *sched.Exec) map[string]int {
		res, _ := x.Result.(*result)
		if res == nil {
			return nil
		}
		return map[string]int{"crash_points": res.Points, "distinct_crash_images_checked": res.checked, "available_objects_read_back": res.avail}
	}
	return sched.Scenario{Name: name, Opt: sched.Options{PreemptBound: pre, FaultBound: depth, FreeBound: -1, MaxSteps: 8000,
		Setup: func(s *sched.S) { s.TimerFires = 2 }}, Body: body, Check: check, Outcome: outcome, Counters: counters}
}

// checkImage opens the metabase of a crash image read-only and checks that every address it
// reports as available is readable, identical, from the blobstor tree or the write-cache tree.
func checkImage(im image, res *result) (string, string) {
	ep := &ss.Epoch{}
	db := meta.New(meta.WithPath(filepath.Join(im.Dir, "meta")), meta.WithEpochState(ep), meta.WithPermissions(0o600),
		meta.WithMaxBatchSize(1), meta.WithMaxBatchDelay(time.Microsecond), meta.WithLogger(zap.NewNop()),
		meta.WithBoltDBOptions(&bbolt.Options{NoSync: true, NoFreelistSync: true, Timeout: time.Second}))
	if _, err := os.Stat(filepath.Join(im.Dir, "meta")); err != nil {
		return "", "" // crash before the metabase file existed: nothing is reported available
	}
	if err := db.Open(true); err != nil {
		return "image:metabase-does-not-open", err.Error()
	}
	defer db.Close()
	blob := fstree.New(fstree.WithPath(filepath.Join(im.Dir, "blob")), fstree.WithDepth(1))
	wcT := fstree.New(fstree.WithPath(filepath.Join(im.Dir, "wc")), fstree.WithDepth(1))
	blob.Open(true)
	wcT.Open(true)
	for i, want := range blobs {
		ex, err := db.Exists(ss.Addr(i), false)
		if err != nil || !ex {
			continue
		}
		res.avail++
		ok := false
		for _, t := range []*fstree.FSTree{wcT, blob} {
			b, err := t.GetBytes(ss.Addr(i))
			if err == nil && bytes.Equal(b, want) {
				ok = true
				// header + payload also decode
				var o object.Object
				if o.Unmarshal(b) != nil {
					ok = false
				}
				break
			}
		}
		if !ok {
			kind := map[int]string{objA: "regular-small", objB: "regular-big", tsA: "tombstone", lkB: "lock"}[i]
			last := "none"
			if len(im.After) > 0 {
				last = im.After[len(im.After)-1]
			}
			last = strings.NewReplacer("(A)", "", "(B)", "", "(T->A)", "-tombstone", "(Lock->B)", "-lock").Replace(last)
			return fmt.Sprintf("available-in-metadata-but-unreadable:%s:crash-during-%s:write-cache=%v", kind, last, res.WC),
				fmt.Sprintf("object %d is reported available by the metabase but is in neither the blobstor nor the write-cache", i)
		}
	}
	return "", ""
}

func main() {
	r := ev.Start("C15", ev.FaultEnum)
	depth := 3
	if r.Thorough() {
		depth = 4
	}
	scs := []sched.Scenario{scenario(true, depth, 0), scenario(false, depth, 0)}
	if r.Thorough() {
		scs = append(scs, scenario(true, 3, 1))
	}
	r.Rule(fmt.Sprintf("every history of <=%d operations over {Put(A small), Put(B big), Put(tombstone->A), MarkGarbage(A), MarkRedundant(B), Delete(A), Delete(B), Put(lock->B), GC pass, FlushWriteCache} with and without write-cache (default schedule; thorough also <=1 preemption for depth 3), a crash image at every scheduling point (lock, channel, blobstor call, metabase call) and after every operation; distinct images reopened and checked; non-trivial = distinct (write-cache, multiset of operations) classes", depth))
	r.Assume("process-crash model: the copied files are what the kernel holds at that point; a metabase call (one bbolt transaction) is atomic", "the write-cache FSTree and the blobstor FSTree write whole files (no combined files)")
	sched.Main(r, scs, 0)
}
